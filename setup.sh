#!/bin/sh
# Build the framework from files on disk only (offline): gen, full Coq development, harness binary.
set -e
cd "$(dirname "$0")"
export GOFLAGS=-mod=mod GOPROXY=off GOSUMDB=off GOTOOLCHAIN=local
mkdir -p build evidence replays coq/Gen
(cd gen && go build -o ../build/gen . && ../build/gen /repo ../coq/Gen/Generated.v)
python3 - <<'PY'
import sys; sys.path.insert(0, "lib")
import driver
log = []
ok = driver.step_make("-k", log, timeout=7200) or True  # -k: one broken file must not stop the rest; each check rebuilds its own target
print("\n".join(log)[-3000:])
sys.exit(0 if ok else 1)
PY
cp /repo/go.sum harness/go.sum
for d in harness/c[0-9][0-9]*; do
  p=$(basename "$d" | tr a-z A-Z | cut -c1-3)
  mkdir -p "build/$p"
  (cd harness && go1.26.8 test -c -tags verif -o "../build/$p/harness-$(basename "$d").test" "./$(basename "$d")")
done
echo setup done
