#!/usr/bin/env python3
"""Append `Theorem Cxx_<name> : <statement of lemma>. Proof. exact lemma. Qed. Print Assumptions` blocks for
translation-tie lemmas (Proofs/GenTr*.v) to a Props file, inside a Section with Z scope.
usage: export_gen.py Cxx ProofFile.v 'lemma|theorem suffix|comment' ..."""
import re, sys
prop, pfile = sys.argv[1], sys.argv[2]
items = [a.split("|") for a in sys.argv[3:]]
src = open('/verif/coq/Proofs/' + pfile).read()
intro = '''(* ---- Tie to the source by translation (Gen/GeneratedTr.v, regenerated from /repo on every run by gen/translate.go) ----
   g_* are the decision terms translated from the CURRENT Go code: every condition, the branch structure and which
   white-listed effect statement runs on which path.  The theorems below state that the model's functions - about
   which every theorem above speaks - are the interpretation of these terms. *)
'''
out = "Section GenTie.\nLocal Open Scope Z_scope.\n" + intro
for it in items:
    lem, thm, comment = it[0], it[1], it[2]
    st = re.search(r"Lemma %s\s*:(.*?)\n\s*Proof\." % lem, src, re.S).group(1).strip()
    if len(it) > 3:  # section variables of the proof file, to be quantified in the exported statement
        st = it[3] + "\n  " + st
    out += "(* %s *)\nTheorem %s_%s :\n  %s\nProof. exact %s. Qed.\nPrint Assumptions %s_%s.\n\n" % (comment, prop, thm, st, lem, prop, thm)
out += "End GenTie.\n\n"
pf = '/verif/coq/Props/%s.v' % prop
s = open(pf).read()
imp = "From Verif Require Import Base.GenIR Gen.GeneratedTr Proofs.%s.\n" % pfile[:-2]
m = re.search(r"^Open Scope \w+\.\n", s, re.M)
s = s[:m.start()] + imp + s[m.start():]
j = s.rindex("(* Non-vacuity") if "(* Non-vacuity" in s else s.rindex("\nExample ") + 1
s = s[:j] + out + s[j:]
open(pf, 'w').write(s)
