#!/usr/bin/env python3
"""Refresh the theorem counts of DESIGN.md section 10.2 from coq/Props/Cxx.v (leading number of each row)."""
import os, re
V = os.path.dirname(os.path.dirname(os.path.abspath(__file__)))
p = os.path.join(V, "DESIGN.md")
s = open(p).read()
for i in range(1, 21):
    pid = "C%02d" % i
    n = len(re.findall(r"^\s*(?:Theorem|Lemma|Corollary)\s", open(os.path.join(V, "coq", "Props", pid + ".v")).read(), re.M))
    s, k = re.subn(r"^(\| %s \| )\d+" % pid, r"\g<1>%d" % n, s, count=1, flags=re.M)
    print(pid, n, "updated" if k else "row not found")
open(p, "w").write(s)
