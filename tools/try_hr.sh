#!/bin/bash
# usage: tools/try_hr.sh <dir with patch.diff> [PROP ...]
# Harmless-change test: applies a behaviour-preserving patch in a scratch worktree and runs the owning
# properties' quick checks (owners = properties whose anchor files the patch touches, unless given).
set -u
D="$1"; shift
export GOFLAGS=-mod=mod GOPROXY=off GOSUMDB=off GOTOOLCHAIN=local
if [ $# -gt 0 ]; then OWN="$*"; else
OWN=$(python3 - "$D/patch.diff" <<'P'
import json,sys,re,fnmatch
files=[l[6:].strip() for l in open(sys.argv[1]) if l.startswith('+++ b/')]
out=[]
for l in open('/verif/properties.jsonl'):
    p=json.loads(l)
    an=p.get('anchors',{}).get('files',[])
    if any(fnmatch.fnmatch(f,a) for f in files for a in an): out.append(p['id'])
print(' '.join(out))
P
)
fi
WT=/tmp/hrtest-$$
git -C /repo worktree add -q --detach "$WT" HEAD || exit 2
ALT=/verif/build/alt-$(python3 -c "import hashlib;print(hashlib.sha1('$WT'.encode()).hexdigest()[:8])")
cleanup() { git -C /repo worktree remove --force "$WT" >/dev/null 2>&1; rm -rf "$ALT"; }
trap cleanup EXIT
git -C "$WT" apply "$D/patch.diff" || { echo "RESULT $D apply=FAILED"; exit 3; }
for P in $OWN; do
  OUT=$(cd /verif && VERIF_REPO="$WT" timeout 3000 ./check "$P" --tier quick 2>&1 | grep -E "^(VIOLATION|OK)" | head -1)
  echo "RESULT $D [$P: $OUT]"
  case "$OUT" in VIOLATION*) f=$(echo "$OUT" | sed -n 's/.*replay=\([^ ]*\).*/\1/p'); [ -f "$f" ] && cp "$f" /tmp/hr/res/$(echo $D | tr '/' '_')-$P.json;; esac
done
