#!/usr/bin/env python3
"""Archive seeded changes of a wave (/tmp/wN/out-Cxx/k + /tmp/wN/res-*.txt) under /verif/seeded/Cxx-wN-k/.  usage: archive_w3.py [3|4]"""
import glob, json, os, re, shutil, sys
WAVE = sys.argv[1] if len(sys.argv) > 1 else '3'
V = os.path.dirname(os.path.dirname(os.path.abspath(__file__)))
props = {json.loads(l)["id"]: json.loads(l) for l in open(os.path.join(V, "properties.jsonl"))}
STRENGTH = {
 "C01-w3-1": ("C01", "families cap-100-two-versions-of-a-unit (102 / 110 / 115 digests at quorum over 100 / 110 units of work) and random near-cap rounds: the work-id de-duplication has to precede the cap"),
 "C02-w3-2": ("C02", "instance 1 validates and computes an outcome from OTHER observations for the same sequence number, instance 2 for the previous one (abandoned attempts) before the round is evaluated; instance 0 sees neither; all must agree"),
 "C03-w3-1": ("C03", "C08/C03 stores with proposals made more than 24 h before the live ones (expired, still stored, keys sorting among the live keys): families expired-proposals-among-live, all-proposals-expired, random"),
 "C06-w3-3": ("C06", "plug-in report calls whose context is cancelled right after the k-th upkeep was handled (log sink of the plug-in as scheduling point); an error answer counts as 'not accepted'"),
 "C09-w3-1": ("C09", "Byzantine variants of honest results now sort both before (0x00 prefix) and after (0xEE) the honest copy - the digest is the hex of the raw fields, the old variant always sorted after"),
 "C09-w3-2": ("C09", "releases are check-block aware (an event for a superseded report does not release the unit the nodes await on a higher block); family late-event-for-superseded-report"),
 "C11-w3-3": ("C11", "runCarry: the outcome that surfaces a unit is handed to Observation several times byte for byte while the node's own recoverer proposes the unit in between; a control proposal proves the scenario exercises the pending set"),
 "C12-w3-1": ("C12", "TestC12QueueRace: Enqueue on a newer check block racing a Dequeue walk over 60,000 records on the real retry queue (real goroutines); the newer payload must be handed out"),
 "C13-w3-2": ("C13", "the slice a caller was handed is re-read after the other calls of the case and judged with its later content"),
 "C15-w3-1": ("C15", "values returned by the last six decodes are re-compared after every later decode; family absent-members-after-valid-decodes ([{}] elements decoded right after valid messages)"),
 "C16-w3-3": ("C16", "observation cases with accepts / logs that arrive AFTER the head was sampled and before the observation (families accepted-after-sampling*, random)"),
 "C17-w3-3": ("C17", "TestC17Obs: the observation clause of C17 on the real polling observer + real coordinator, accepts before and after sampling"),
 "C18-w3-1": ("C18", "part D: cache collector life cycle - Stop before the goroutine ran, after yields, while parked, exactly at a collection tick"),
 "C20-w3-1": ("C20", "wired cases with reports transmitted after the last block was assembled (accepted, never in a block): not performs"),
 "C20-w3-3": ("C20", "TestC20Race: component stress of listener / trackers / source under -race (logs in consecutive blocks, pollers microseconds apart); simulated plans trigger logs in adjacent blocks"),
 "C07-w4-1": ("C07", "plug-in mode ops offerlog / offerrecov: in-flight and performed work offered again by the plug-in's log provider / recoverable provider; what reaches the check pipeline is judged as a PreProcess answer"),
 "C09-w4-1": ("C09", "family lockout-window-restarted-by-newer-report (110 s after the first acceptance, 50 s after the second)"),
 "C09-w4-2": ("C09", "scenarios with a report gas limit that single units of work exceed (family heavy-gas-over-report-limit, random)"),
 "C09-w4-3": ("C09", "liveness obligations at the 100-candidate boundary (families exactly-100-candidates, many-candidates)"),
 "C02-w4-1": ("C02", "family quorum-heights-2^63-apart (and 2^63 -/+ 1) with a new proposal making the chosen block visible"),
 "C02-w4-2": ("C02", "every round is also evaluated on instance 0 while two instances of ANOTHER config digest evaluate concurrently (12 overlapping evaluations)"),
 "C08-w4-3": ("C08", "proposals that expired and were purged are made again, the next observation is judged (families expired-proposals-made-again, random)"),
 "C05-w4-3": ("C05", "family cap-130-history-proposes-the-candidates: 130 candidates at quorum, 50 of them proposed in the previous outcome's history"),
 "C10-w4-3": ("C10", "results with an equal check block on another fork (block hash follows the value tag)"),
 "C13-w4-2": ("C13", "stress rounds in which the caller's context is cancelled once every batch is inside the pipeline, which answers normally"),
 "C18-w4-2": ("C18", "part C site typegetter: panic in the injected UpkeepTypeGetter while proposalQueue.Dequeue calls it; Observation calls that never return are a violation"),
 "C20-w4-2": ("C20", "race stress walks the perform history of an upkeep performed in every second block"),
 "C20-w4-3": ("C20", "simulated plans carry jitters of every magnitude, incl. sub-millisecond"),
 "C04-w5-1": ("C04", "(added after reading the seeding agent's report and before the first run, which therefore already caught it) an earlier round is handed to the SAME plug-in instance first: families previous-round-*, random"),
 "C19-w5-2": ("C19", "the report tracker is polled after deliveries, not only at the end: an earlier poll must not colour a later one"),
 "C12-w5-1": ("C12", "family one-batch-outlasts-the-process-limit-*: the runner returns the completed batches' results at the observer's 20 s limit with a nil error; they are routed"),
 "C16-w5-1": ("C16", "observation bytes are compared with a private copy after three later observations of the same process (another block number of the same length)"),
 "C11-w5-2": ("C11", "slices handed out by ProposalQueue.Dequeue are re-read after the later operations of the case and judged with their later content"),
 "C17-w5-2": ("C17", "an earlier observation of the same staged block precedes the accepts / logs that arrive after sampling"),
 "C01-w5-2": ("C01", "family thirty-quorum-results-with-70KB-perform-data (three disjoint pairs of oracles, every observation valid and under its limit)"),
 "C15-w5-1": ("C15", "one plug-in instance lives for the whole run; ReportingPlugin.ValidateObservation under one (sequence number, oracle) must give the decoder's verdict for every message"),
 "C03-w5-2": ("C03", "family two-versions-of-a-unit-with-another-unit-between (one log upkeep, log A at quorum at check blocks 100 and 102, log B at 99 / 101 / 103)"),
 "C05-w6-2": ("C05", "family log-re-included-on-another-fork: the long-lived instances see a log (as result and as proposal) under one log block hash in one round and under another in the next (same transaction hash and index)"),
 "C09-w6-2": ("C09", "op recov and family recovery-proposals-from-neighbouring-oracles-*: honest neighbours propose different missed logs in the same round through the recovery path, with liveness obligations; afterwards the rounds still work"),
 "C18-w6-1": ("C18", "part E: 1 / workers / workers+2 / 3*workers contained pipeline panics in the shared runner, then a healthy check must be executed and Close must leave nothing"),
 "C20-w6-1": ("C20", "families long-negative-broken-then-150-more-blocks and long-reached-then-150-surplus-blocks on the real ProgressTelemetry: Increment must return"),
 "C02-w7-1": ("C02", "family block-keys-with-missing-members: after a full observation, observations whose block keys lack Hash / Number / are null (decoded values must not depend on earlier decodes)"),
 "C03-w7-1": ("C03", "C03 now runs the block-history race part (3000 observations built while alternating histories keep arriving), each observation validated by a peer instance"),
 "C03-w7-2": ("C03", "family byte-limit-cut-then-the-rest-of-the-observation-grows: after a first observation the block history grows to 256 and late proposals arrive; the next observation of the same ordering seed is judged"),
 "C04-w7-1": ("C04", "the C04 instances get a work-id generator under which a conditional upkeep has several units of work; family conditional-upkeep-twice-under-two-work-ids, random"),
 "C05-w7-1": ("C05", "family history-coordinated-on-a-higher-block-than-this-round (retained history on block 110 / 101, this round's quorum block 100)"),
 "C07-w7-1": ("C07", "C07 now runs the cache collector races too (a record lost to ClearExpired releases in-flight work)"),
 "C08-w7-1": ("C08", "family accepted-again-on-a-higher-block-within-the-lockout: reports accepted 21 min and again 6 min before the work is checked"),
 "C09-w7-1": ("C09", "families 6- / 7- / 11-conditionals-eligible-at-once with liveness obligations"),
 "C11-w7-2": ("C11", "TestC11QueueRace: four overlapping polls and an Enqueue on a higher block over a 20,000-record queue, real goroutines"),
 "C13-w7-2": ("C13", "families batch-panics-first / middle / last / all: a batch fails by a panic inside the pipeline"),
 "C15-w7-1": ("C15", "the bytes of the last four Encode calls are held with private copies and compared after every later Encode"),
 "C18-w7-1": ("C18", "v2 cases close-mid-poll: the log provider takes 700 ms per call, Close arrives while a poll is inside it"),
 "C18-w7-2": ("C18", "panic/<site>/3x6: the provider of one flow panics on six consecutive calls; the flow must resume and keep ticking"),
 "C19-w7-1": ("C19", "every broadcast block carries a transaction naming the block (a loader); each listener's copy is judged on it"),
 "C15-w8-1": ("C15", "generated log triggers carry, once in twelve, log data that is present but all zero: valid on a log upkeep, a trigger-type mismatch on a conditional one"),
 "C15-w8-2": ("C15", "after every accepted decode a second result is written to by its caller, the same bytes are decoded under another work-id generator (must be refused) and once more (must still equal what was encoded)"),
 "C18-w8-1": ("C18", "the real result store is a fourth service kind under the real recoverer (model kind KSticky): close-before-service-start, close-races-start, slow close and random start / close schedules"),
 "C03-w8-1": ("C03", "family observation-of-exactly-the-maximum-length: staged count, history length and perform-data sizes are tuned until node a's observation is exactly 1,000,000 bytes; a peer validates it"),
 "C02-w8-2": ("C02", "(first run: broken obligation only, no input) the first abandoned attempt on instance 1 now comes with ANOTHER valid previous outcome of the same length (empty, padded with blanks); all instances must still agree"),
 "C08-w8-1": ("C08", "(added after reading the seeding agent's report and before the first run, which therefore already caught it) families hundred-mid-size-results-just-over-the-byte-limit (6.5-7.9 KB perform data)"),
 "C08-w8-2": ("C08", "(added after reading the seeding agent's report and before the first run) family empty-history-after-a-non-empty-one"),
 "C03-w8-2": ("C03", "(added after reading the seeding agent's report and before the first run) family two-log-and-nine-conditional-proposals (2 + 9 and 0 + 11 proposals offered)"),
 "C14-w4-1": ("C14", "family long-job-idle-then-burst (per-caller start delays): a long job, seconds of idleness, then a burst"),
}
res = {}
for f in glob.glob("/tmp/w%s/res-*.txt" % WAVE):
    for l in open(f):
        m = re.match(r"(C\d\d)-w%s-(\d): RESULT (.*)" % WAVE, l)
        if m and (m.group(1), m.group(2)) not in res:  # the first run counts; re-runs after strengthening are in STRENGTH
            res[(m.group(1), m.group(2))] = m.group(3)
for (p, k), r in sorted(res.items()):
    sid = "%s-w%s-%s" % (p, WAVE, k)
    src = "/tmp/w%s/out-%s/%s" % (WAVE, p, k)
    ok = all(x in r for x in ("build=ok", "suite=pass", "demo_with_change=fail", "demo_without_change=pass"))
    if not ok:
        print("SKIP", sid); continue
    dst = os.path.join(V, "seeded", sid)
    os.makedirs(dst, exist_ok=True)
    for fn in ("patch.diff", "demo_test.go", "README.md"):
        if os.path.exists(os.path.join(src, fn)):
            shutil.copyfile(os.path.join(src, fn), os.path.join(dst, fn if fn != "demo_test.go" else "demo_test.go.txt"))
    demo = open(os.path.join(src, "demo_test.go")).read()
    pkg = re.search(r"package dir:\s*(\S+)", demo).group(1)
    readme = open(os.path.join(src, "README.md")).read() if os.path.exists(os.path.join(src, "README.md")) else ""
    checks = dict(re.findall(r"\[(C\d\d): (VIOLATION[^\]]*|OK[^\]]*)\]", r))
    verd = {q: ("VIOLATION (no-failing-input-found)" if "no-failing-input-found" in v else
                "VIOLATION (failing input replayed)" if v.startswith("VIOLATION") else "missed (OK)") for q, v in checks.items()}
    after = {}
    if sid in STRENGTH:
        q, txt = STRENGTH[sid]
        after = {q: "VIOLATION (failing input replayed)", "strengthening": txt}
    meta = {"id": sid, "wave": int(WAVE), "breaks_property": p, "property_title": props[p]["title"],
            "also_checked_against": [q for q in checks if q != p],
            "patch": "patch.diff", "demonstration": "demo_test.go.txt (copy into the package directory as a _test.go file)", "demonstration_package": pkg,
            "what_it_needs_to_manifest": readme[:1500],
            "confirmed": {"go build ./...": "ok", "existing suite with the change": "pass",
                          "demonstration with the change": "fail", "demonstration without the change": "pass"},
            "what_was_run": "tools/try_w3.sh %s %s <other props>  (scratch worktree of /repo HEAD, git apply, go build, full go test ./..., demo copied into %s, VERIF_REPO=<worktree> ./check <prop> --tier quick, demo on the reverted tree); misses re-run with tools/recheck_seeded.sh after strengthening" % (p, k, pkg),
            "check_verdicts_first_run": verd, "check_verdicts_after_strengthening": after}
    json.dump(meta, open(os.path.join(dst, "meta.json"), "w"), indent=1)
print("archived", len(res))
