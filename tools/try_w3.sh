#!/bin/bash
# usage: tools/try_w3.sh <PROP> <k> [extra props, comma separated]   (wave-3 output under /tmp/w3/out-<PROP>/<k>)
P="$1"; K="$2"; EXTRA="${3:-}"
D=/tmp/${W:-w3}/out-$P/$K
DEMO=$D/demo_test.go
PKG=$(grep -m1 -o 'package dir: *[^ ]*' "$DEMO" | sed 's/package dir: *//')
PROPS="$P"; [ -n "$EXTRA" ] && PROPS="$P,$EXTRA"
/verif/tools/try_seeded.sh "$PROPS" "$D" "$DEMO" "$PKG" 2>&1 | tail -1
