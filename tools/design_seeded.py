#!/usr/bin/env python3
"""Rewrite section 11 of DESIGN.md from seeded/*/meta.json."""
import glob, json, os, re
V = os.path.dirname(os.path.dirname(os.path.abspath(__file__)))
rows = []
for mp in sorted(glob.glob(os.path.join(V, "seeded", "*", "meta.json"))):
    m = json.load(open(mp))
    readme = m.get("what_it_needs_to_manifest", "")
    # first non-heading line that is a sentence
    lines = [l.strip() for l in readme.splitlines() if l.strip() and not l.startswith("#")]
    what = ""
    for l in lines:
        l2 = re.sub(r"[*`]", "", l)
        if len(l2) > 40:
            what = l2[:230]
            break
    first = m.get("check_verdicts_first_run", {})
    after = {k: v for k, v in m.get("check_verdicts_after_strengthening", {}).items() if k != "strengthening"}
    stren = m.get("check_verdicts_after_strengthening", {}).get("strengthening", "")
    def short(d):
        out = []
        for k, v in d.items():
            tag = "caught" if v.startswith("VIOLATION (failing") or v.startswith("VIOLATION (direct") else \
                  "caught (no-failing-input-found)" if "no-failing-input-found" in v else \
                  "missed" if v.startswith("missed") else v[:60]
            out.append("%s: %s" % (k, tag))
        return "; ".join(out)
    rows.append("| %s | %s | %s | %s | %s |" % (m["id"], what.replace("|", "/"), short(first), short(after) or "—", stren.replace("|", "/") or "—"))
n = len(rows)
caught_first = sum(1 for mp in glob.glob(os.path.join(V, "seeded", "*", "meta.json"))
                   if any(v.startswith("VIOLATION") for k, v in json.load(open(mp)).get("check_verdicts_first_run", {}).items()
                          if k == json.load(open(mp))["breaks_property"]))
sec = """## 11. Seeded changes: which checks catch which

Fresh sub-agents were given ONLY the text of one property and a scratch worktree of /repo (nothing
from /verif) and asked for changes that break the property while compiling and passing the unedited
suite, each with a demonstration that fails with the change and passes without it, manifesting only
under a specific interleaving / fault / multi-step sequence / unusual input / two cooperating sites.
Every change kept under `/verif/seeded/<id>/` (patch.diff, the demonstration, README.md of the seeding
agent, meta.json) was re-confirmed by `tools/try_seeded.sh` in a scratch worktree: `go build ./...`,
the full suite (pass), the demonstration with the change (fail) and without it (pass), and the checks
via `VERIF_REPO=<worktree> ./check Cxx`. %d changes are archived; the owning property's check flagged
%d of them on the first run. Every miss was analysed and the check strengthened (generators, boundary
families, a real-goroutine stress part, or a sharper K) until it flags the change; the table records
both verdicts. "caught" = `VIOLATION` with the failing input (or direct observation) as replay;
"caught (no-failing-input-found)" = model/implementation disagreement without a K failure.

| id | what the change does (seeding agent's words, abridged) | first run | after strengthening | what was strengthened |
|---|---|---|---|---|
%s

What the misses had in common, and what was done about each class: (i) *inputs the generators did not
produce* (a proposal already on the quorum height, a block listed twice non-adjacently, an outcome whose
latest round is empty, log-trigger payloads differing only in the check block hash, sinks that return
errors, re-orged transmit events, non-whole-millisecond durations): boundary families and random
generators extended; (ii) *state carried across calls* (Reports remembering the highest sequence number,
a memo keyed by the sequence number only): C02 now evaluates Reports on long-lived and brand-new
instances and K02 ties the orderings to the shuffle ranks computed from (digest, seq) alone; (iii)
*real interleavings that a virtual-clock bubble serialises* (two-phase gc, buffer aliasing in the worker
group and in SetBlockHistory, lazy eviction in Cache.Get): real-goroutine stress parts with
timing-independent verdicts (C06, C07, C08, C10, C13); (iv) *clauses K did not state* (not agreed again
while in flight everywhere, report-level transmit for multi-key v2 reports, events seen before the
accept): K extended (C09, C17, C06/C07).

Wave 3 (60 further changes, third session; ids `Cxx-w3-k`) was seeded after the decision-code translator of
§10.4 existed. 45 were flagged by the owning check on the first run; the 15 misses fell into new classes:
(v) *values handed to a caller that change afterwards* (results, decoded observations backed by a recycled
pool object or an internal buffer): C13 and C15 re-read what earlier calls returned after later calls;
(vi) *abandoned attempts* (the same sequence number tried twice with other observations; per-(seq, observer)
caches; an outcome remembered from an uncommitted attempt): two of the three long-lived instances of the
outcome harness go through such attempts before every round; (vii) *events between two steps the harness
had glued together* (an accept between the sampling of a head and the observation; a context cancelled
between two upkeeps of one report; a transmit after the last block; a Stop before the collector goroutine
ran): C16/C17 `Post` operations, C06 log-sink scheduling point, C20 late transmits, C18 part D;
(viii) *adversarial inputs that happened to be harmless* (the Byzantine variant always sorted after the
honest copy because the digest is raw hex): C09 variants now sort on both sides; (ix) *releases that were
not check-block aware* in the C09 bookkeeping; (x) *real races on the retry queue and in the simulator's
trackers*: TestC12QueueRace, TestC20Race (component stress under `-race`).
Wave 4 (30 changes for ten properties, ids `Cxx-w4-k`) asked the seeding agents for mechanisms of a different
KIND than everything above (state surviving between calls, aliasing, error / cancellation paths, wrap-around,
ordering assumptions, interactions of two limits, shared helpers, unusual configurations, files other than the
obvious one). 16 of 30 were flagged on the first run; the 14 misses and what they led to: a pre-processor chain that
only keeps the last filter (C07: work offered again through the plug-in's own providers), a cache whose deadline
is not refreshed and a gas value lowered inside Reports and an off-by-one at exactly 100 performables (C09: three
new scenario families with liveness / safety obligations), a comparator that wraps at 2^63 and a memoised shuffle
that is not atomic across instances (C02: 2^63-apart heights, concurrent evaluations with another digest), lazy
deletion in the ordered map (C08: expired proposals made again), "performed" answered before the cap (C05),
equal height on another fork (C10), a cancelled context after the pipeline answered (C13), a mutex left locked by
a recovered panic (C18: type-getter site), an in-place trim of a handed-out slice and a sub-millisecond jitter
(C20), idle workers forgotten (C14).
Wave 5 (20 changes for the ten properties wave 4 had left out, ids `Cxx-w5-k`, fourth session, after the
translator had grown to 200 units) again asked for mechanisms of another kind. 11 of 20 were flagged on the first
run; one more (C04-w5-1) was predicted as a miss from the seeding agent's report and the harness strengthened before
its first run. What the misses had in common: **state or storage that outlives one call, in places where the
harness had used a fresh instance or looked only once** - a set kept in a plug-in field between two Reports calls
(C04: an earlier round on the same instance), events cached with the confirmations of the first poll (C19: the
tracker is polled after every delivery), a verdict memoised per (sequence number, oracle) (C15: one long-lived
validating instance, its verdict must be the decoder's), a filtered list reused while the staged block is
unchanged (C17: observe, accept, observe again), and three cases of *returned bytes / slices backed by reused
storage* (C16 observation bytes from a pooled buffer, C11 the queue's scratch slice; C03-w5-1, the same idea in
the v3 encoder, was caught at once because four instances share one process there); **a cancellation that is not
an error** (C12: a batch outlasting the observer's time limit - the completed batches' results must still be
routed); and two **boundary inputs** (C01: thirty quorum results of 70 KB, where a byte budget displaced votes;
C03: a unit at quorum in two versions that are not adjacent in the sorted traversal).
Wave 6 (20 changes for the other ten properties, ids `Cxx-w6-k`) ran after those lessons had been applied across the
harnesses (views and dequeued slices re-read later in C10 / C11, an earlier Report round in C16, another digest
reaching the sequence number first in C08). 16 of 20 were flagged on the first run - among them a parallel decode
tallied in completion order, a map-ordered second packing pass in Reports, a bisection over a list that is sorted by
another key, a verdict reused per work id inside one list, a sliding cache expiry, a gc queue that trusts its own
timestamps, a check-then-write race in the result store, a batch cut at cap() instead of len(), a queue compaction
that drops one item per 128 pops, a reader goroutine ended by the wrong channel, and the swapped order of two atomic
operations in `recoverer.Start`, which no schedule of the harness hit but which **broke the translation obligation
`C18_gen_start_swap`** (reported as no-failing-input-found). The four misses: a work-id memo keyed without the log's
block hash (C05: a log re-included on another fork, seen by the long-lived instances in consecutive rounds), all
observations of a round decoded into one reused value (C09: the recovery path had not been part of the multi-node
scenarios at all - op `recov` with liveness obligations; C05 flags the change too), a worker lost per contained panic
(C18 part E: more panics than workers, then a healthy check), and an Increment that blocks its caller once the
tracker is decided (C20: 150 more blocks after the verdict is fixed).
Wave 7 (40 changes, two for every property, ids `Cxx-w7-k`) closed the session. 24 of 40 were flagged on the first
run by the check of the property they were seeded for (two of those with a family added from the seeding report
minutes earlier, noted in their meta.json), another 8 by a neighbouring property's check on that first run. The 16
misses, 15 of which the owning check now flags: decoded values that depend on earlier decodes (C02: block keys with
missing members after a full observation), a block-history buffer rewritten between hook and Encode and a remembered
byte-limit cut (C03: the history race part with peer validation; history and proposals growing between two
observations of one ordering seed), upkeep ids assumed unique per conditional upkeep (C04: injected work-id
generator), a stamp taken from the retained history (C05), records lost to a copying collector and a deadline kept
across a re-accept (C07 / C08: collector races, re-accepted reports), a proposal limit raised on one side only (C09:
6 / 7 / 11 conditionals at once), a two-phase Dequeue (C11: real-goroutine race part), a panic promoted to a hard
failure (C13: batches failing by panic), pooled encode buffers (C15: held bytes), a Close that a poll's own context
swallows and tick slots leaked by panics (C18: Close mid-poll, six panics in a row), a transactions slice shared by
all blocks (C19: tagged block content). A result collector recycled by the runner while a flow still post-processes its slice (C12-w7-1) led to the op
`par`: two flows overlap on the shared runner, the first held inside a slow sink. One change was left to the property
that owns the changed function, whose check flags it with a failing history: C09-w7-2 (coordinator.Accept: C06).
Wave 8 (16 changes for C02 C03 C05 C08 C09 C12 C15 C18, ids `Cxx-w8-k`): 8 of 16 flagged on the first run by the
owning check (three of them with a family added from the seeding report minutes earlier: mid-size results just over
the byte limit, an empty history after a non-empty one, 2 + 9 proposals offered; one, a previous-outcome memo keyed
by sequence number and length, only as a broken obligation - the harness now hands instance 1 another valid previous
outcome of the same length first and finds the failing round), 3 more by a neighbouring check (C11, C12, C13). The
misses, all flagged now: log data that is present but all zero taken for absent (C15: generated once in twelve), a
package-level memo of the last decoded outcome (C15: the caller writes into its result, another work-id generator
decodes the same bytes, the bytes are decoded again), a pre-check `>=` against the maximum observation length (C03:
an observation tuned to exactly 1,000,000 bytes), a result store that drains its close token at Start (C18: the
real result store as a fourth service kind under the real recoverer).
Across the four waves of this session the recurring theme was **something kept from an earlier call** - a memo, a
pooled buffer, a reused decode target, a remembered height / cut / verdict / block - behind an interface that reads
as a pure function; the harnesses now routinely (i) use long-lived instances and make an unrelated earlier call,
(ii) hold on to what a call returned and re-read it after later calls, (iii) let another instance or digest go first.
A rewritten function usually leaves the translator's subset: the obligation of that unit is then checked
against the pinned term only and the property is explored as *drifted* (twice the cases, three seeds) - of
the 45 first-run catches, the translator obligations broke (proof-level catch, then a failing input found by
the escalated search) for the changes that kept the shape, e.g. C09-w3-1 through `C01_gen_set_pick_decisions`.
""" % (n, caught_first, "\n".join(rows))
p = os.path.join(V, "DESIGN.md")
s = open(p).read()
i = s.find("## 11. Seeded changes")
if i >= 0:
    s = s[:i]
s = s.rstrip() + "\n\n" + sec
open(p, "w").write(s)
print(n, "rows;", caught_first, "caught first run")
