#!/usr/bin/env python3
"""Rewrite section 11 of DESIGN.md from seeded/*/meta.json."""
import glob, json, os, re
V = os.path.dirname(os.path.dirname(os.path.abspath(__file__)))
rows = []
for mp in sorted(glob.glob(os.path.join(V, "seeded", "*", "meta.json"))):
    m = json.load(open(mp))
    readme = m.get("what_it_needs_to_manifest", "")
    # first non-heading line that is a sentence
    lines = [l.strip() for l in readme.splitlines() if l.strip() and not l.startswith("#")]
    what = ""
    for l in lines:
        l2 = re.sub(r"[*`]", "", l)
        if len(l2) > 40:
            what = l2[:230]
            break
    first = m.get("check_verdicts_first_run", {})
    after = {k: v for k, v in m.get("check_verdicts_after_strengthening", {}).items() if k != "strengthening"}
    stren = m.get("check_verdicts_after_strengthening", {}).get("strengthening", "")
    def short(d):
        out = []
        for k, v in d.items():
            tag = "caught" if v.startswith("VIOLATION (failing") or v.startswith("VIOLATION (direct") else \
                  "caught (no-failing-input-found)" if "no-failing-input-found" in v else \
                  "missed" if v.startswith("missed") else v[:60]
            out.append("%s: %s" % (k, tag))
        return "; ".join(out)
    rows.append("| %s | %s | %s | %s | %s |" % (m["id"], what.replace("|", "/"), short(first), short(after) or "—", stren.replace("|", "/") or "—"))
n = len(rows)
caught_first = sum(1 for mp in glob.glob(os.path.join(V, "seeded", "*", "meta.json"))
                   if any(v.startswith("VIOLATION") for k, v in json.load(open(mp)).get("check_verdicts_first_run", {}).items()
                          if k == json.load(open(mp))["breaks_property"]))
sec = """## 11. Seeded changes: which checks catch which

Fresh sub-agents were given ONLY the text of one property and a scratch worktree of /repo (nothing
from /verif) and asked for changes that break the property while compiling and passing the unedited
suite, each with a demonstration that fails with the change and passes without it, manifesting only
under a specific interleaving / fault / multi-step sequence / unusual input / two cooperating sites.
Every change kept under `/verif/seeded/<id>/` (patch.diff, the demonstration, README.md of the seeding
agent, meta.json) was re-confirmed by `tools/try_seeded.sh` in a scratch worktree: `go build ./...`,
the full suite (pass), the demonstration with the change (fail) and without it (pass), and the checks
via `VERIF_REPO=<worktree> ./check Cxx`. %d changes are archived; the owning property's check flagged
%d of them on the first run. Every miss was analysed and the check strengthened (generators, boundary
families, a real-goroutine stress part, or a sharper K) until it flags the change; the table records
both verdicts. "caught" = `VIOLATION` with the failing input (or direct observation) as replay;
"caught (no-failing-input-found)" = model/implementation disagreement without a K failure.

| id | what the change does (seeding agent's words, abridged) | first run | after strengthening | what was strengthened |
|---|---|---|---|---|
%s

What the misses had in common, and what was done about each class: (i) *inputs the generators did not
produce* (a proposal already on the quorum height, a block listed twice non-adjacently, an outcome whose
latest round is empty, log-trigger payloads differing only in the check block hash, sinks that return
errors, re-orged transmit events, non-whole-millisecond durations): boundary families and random
generators extended; (ii) *state carried across calls* (Reports remembering the highest sequence number,
a memo keyed by the sequence number only): C02 now evaluates Reports on long-lived and brand-new
instances and K02 ties the orderings to the shuffle ranks computed from (digest, seq) alone; (iii)
*real interleavings that a virtual-clock bubble serialises* (two-phase gc, buffer aliasing in the worker
group and in SetBlockHistory, lazy eviction in Cache.Get): real-goroutine stress parts with
timing-independent verdicts (C06, C07, C08, C10, C13); (iv) *clauses K did not state* (not agreed again
while in flight everywhere, report-level transmit for multi-key v2 reports, events seen before the
accept): K extended (C09, C17, C06/C07).
""" % (n, caught_first, "\n".join(rows))
p = os.path.join(V, "DESIGN.md")
s = open(p).read()
i = s.find("## 11. Seeded changes")
if i >= 0:
    s = s[:i]
s = s.rstrip() + "\n\n" + sec
open(p, "w").write(s)
print(n, "rows;", caught_first, "caught first run")
