#!/usr/bin/env python3
"""Archive confirmed seeded changes under /verif/seeded/<id>/ from the batch lists and outputs of tools/try_seeded.sh.
usage: tools/archive_seeded.py <batch list file> <batch output file> [...]"""
import json, os, re, shutil, sys
V = os.path.dirname(os.path.dirname(os.path.abspath(__file__)))
props = {json.loads(l)["id"]: json.loads(l) for l in open(os.path.join(V, "properties.jsonl"))}

def first_para(readme, key):
    m = re.search(key + r"[^\n]*\n+(.*?)(?:\n\n|\n#)", readme, re.S | re.I)
    return re.sub(r"\s+", " ", m.group(1)).strip()[:600] if m else ""

for lst, out in zip(sys.argv[1::2], sys.argv[2::2]):
    entries = [l.split() for l in open(lst) if l.strip()]
    results = {}
    for l in open(out):
        m = re.match(r"== (\S+) \((\S+)\): RESULT (.*)", l)
        if m:
            results[m.group(1)] = m.group(3)
    for plist, d, demo, pkg in entries:
        res = results.get(d)
        if not res:
            continue
        m2 = re.search(r"mut(2?)-(C\d\d)", d)
        owner = m2.group(2)
        k = os.path.basename(d)
        sid = "%s-%s%s" % (owner, "w2-" if m2.group(1) else "", k)
        ok = ("build=ok" in res and "suite=pass" in res and "demo_with_change=fail" in res and "demo_without_change=pass" in res)
        if not ok:
            print("SKIP (not confirmed):", sid, res[:120])
            continue
        dst = os.path.join(V, "seeded", sid)
        os.makedirs(dst, exist_ok=True)
        shutil.copyfile(os.path.join(d, "patch.diff"), os.path.join(dst, "patch.diff"))
        shutil.copyfile(os.path.join(d, demo), os.path.join(dst, demo))
        readme = open(os.path.join(d, "README.md")).read() if os.path.exists(os.path.join(d, "README.md")) else ""
        shutil.copyfile(os.path.join(d, "README.md"), os.path.join(dst, "README.md")) if readme else None
        checks = dict(re.findall(r"\[(C\d\d): (VIOLATION[^\]]*|OK[^\]]*)\]", res))
        meta_path = os.path.join(dst, "meta.json")
        old = json.load(open(meta_path)) if os.path.exists(meta_path) else {}
        verdicts = old.get("check_verdicts_first_run", {}) or {p: ("VIOLATION (no-failing-input-found)" if "no-failing-input-found" in v else
                                                             "VIOLATION (failing input replayed)" if v.startswith("VIOLATION") else "missed (OK)")
                                                         for p, v in checks.items()}
        meta = {
            "id": sid, "breaks_property": owner, "property_title": props[owner]["title"],
            "also_checked_against": [p for p in plist.split(",") if p != owner],
            "patch": "patch.diff", "demonstration": demo, "demonstration_package": pkg,
            "what_it_needs_to_manifest": readme[:1500],
            "confirmed": {"go build ./...": "ok", "existing suite with the change": "pass",
                          "demonstration with the change": "fail", "demonstration without the change": "pass"},
            "what_was_run": "tools/try_seeded.sh %s <dir> <demo> %s  (scratch worktree of /repo HEAD, git apply, go build, full go test ./..., demo copied into the package, VERIF_REPO=<worktree> ./check <prop> --tier quick, demo on the reverted tree)" % (plist, pkg),
            "check_verdicts_first_run": verdicts,
            "check_verdicts_after_strengthening": old.get("check_verdicts_after_strengthening", {}),
        }
        json.dump(meta, open(meta_path, "w"), indent=1)
        print("archived", sid, verdicts)
