#!/bin/bash
# usage: tools/try_seeded.sh <PROP[,PROP2...]> <dir with patch.diff> <demo test file> <package dir relative to repo root> [tier]
# Confirms a seeded change (compiles, suite passes, demo fails with / passes without) and runs the checks on it
# in a scratch worktree via VERIF_REPO. Prints one summary line; never touches /repo's working tree.
set -u
PROPS="$1"; DIR="$2"; DEMO="$3"; PKG="$4"; TIER="${5:-quick}"
export GOFLAGS=-mod=mod GOPROXY=off GOSUMDB=off GOTOOLCHAIN=local
WT=/tmp/seedtest-$$
git -C /repo worktree add -q --detach "$WT" HEAD || exit 2
cleanup() { git -C /repo worktree remove --force "$WT" >/dev/null 2>&1; rm -rf /verif/build/alt-$(python3 -c "import hashlib;print(hashlib.sha1('$WT'.encode()).hexdigest()[:8])"); }
trap cleanup EXIT
if ! git -C "$WT" apply "$DIR/patch.diff" 2>/tmp/seed-apply.$$; then
  if ! git -C "$WT" apply -3 "$DIR/patch.diff" 2>>/tmp/seed-apply.$$; then echo "RESULT apply=FAILED $(head -c 300 /tmp/seed-apply.$$)"; exit 3; fi
fi
BUILD=ok; (cd "$WT" && go build ./... >/tmp/seed-build.$$ 2>&1) || BUILD=FAILED
SUITE=pass; (cd "$WT" && go test -vet=off -count=1 -timeout 20m ./... >/tmp/seed-suite.$$ 2>&1) || SUITE=FAIL
if [ "$SUITE" = FAIL ]; then  # the suite has timing tests that flake under load: one retry
  SUITE=pass; (cd "$WT" && go test -vet=off -count=1 -timeout 20m ./... >/tmp/seed-suite.$$ 2>&1) || SUITE=FAIL
fi
DEMO_WITH=skipped; DEMO_WITHOUT=skipped
if [ -n "$DEMO" ] && [ -f "$DEMO" ]; then
  cp "$DEMO" "$WT/$PKG/zz_seeded_demo_test.go"
  DEMO_WITH=pass; (cd "$WT" && go test -vet=off -count=1 -timeout 10m "./$PKG" >/tmp/seed-demo1.$$ 2>&1) || DEMO_WITH=fail
  rm -f "$WT/$PKG/zz_seeded_demo_test.go"
fi
CHECKS=""
for P in ${PROPS//,/ }; do
  OUT=$(cd /verif && VERIF_REPO="$WT" timeout 3000 ./check "$P" --tier "$TIER" 2>&1 | grep -E "^(VIOLATION|OK)" | head -1)
  CHECKS="$CHECKS [$P: $OUT]"
done
if [ -n "$DEMO" ] && [ -f "$DEMO" ]; then
  git -C "$WT" checkout -- . ; cp "$DEMO" "$WT/$PKG/zz_seeded_demo_test.go"
  DEMO_WITHOUT=pass; (cd "$WT" && go test -vet=off -count=1 -timeout 10m "./$PKG" >/tmp/seed-demo2.$$ 2>&1) || DEMO_WITHOUT=fail
  rm -f "$WT/$PKG/zz_seeded_demo_test.go"
fi
echo "RESULT build=$BUILD suite=$SUITE demo_with_change=$DEMO_WITH demo_without_change=$DEMO_WITHOUT checks=$CHECKS"
rm -f /tmp/seed-*.$$
