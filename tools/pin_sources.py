#!/usr/bin/env python3
"""Pins the content hash of every non-test Go source (and simulator plan) of /repo's working tree into
lib/pinned_sources.json.  The driver compares the tree it is run against with this list: a property whose
source directories contain a changed file is explored with more cases and more seeds (drift escalation,
DESIGN 3).  Re-run after every commit to /repo (the tree must be clean)."""
import json, os, subprocess, sys
sys.path.insert(0, os.path.join(os.path.dirname(os.path.abspath(__file__)), "..", "lib"))
import drift
st = subprocess.run(["git", "-C", "/repo", "status", "--porcelain"], capture_output=True, text=True).stdout.strip()
if st:
    sys.exit("refusing to pin: /repo is dirty\n" + st)
head = subprocess.run(["git", "-C", "/repo", "rev-parse", "HEAD"], capture_output=True, text=True).stdout.strip()
out = {"repo_commit": head, "files": drift.snapshot("/repo")}
p = os.path.join(os.path.dirname(os.path.abspath(__file__)), "..", "lib", "pinned_sources.json")
json.dump(out, open(p, "w"), indent=0, sort_keys=True)
print("pinned", len(out["files"]), "files at", head[:7])
