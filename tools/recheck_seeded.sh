#!/bin/bash
# usage: tools/recheck_seeded.sh <PROP> <seeded-id | dir with patch.diff> [tier]
# Re-runs one check on an archived seeded change (seeded/<id>/patch.diff) in a scratch worktree; no suite, no demo.
set -u
P="$1"; ID="$2"; TIER="${3:-quick}"
export GOFLAGS=-mod=mod GOPROXY=off GOSUMDB=off GOTOOLCHAIN=local
WT=/tmp/seedtest-r$$
git -C /repo worktree add -q --detach "$WT" HEAD || exit 2
cleanup() { git -C /repo worktree remove --force "$WT" >/dev/null 2>&1; rm -rf /verif/build/alt-$(python3 -c "import hashlib;print(hashlib.sha1('$WT'.encode()).hexdigest()[:8])"); }
trap cleanup EXIT
PATCH="/verif/seeded/$ID/patch.diff"; [ -f "$ID/patch.diff" ] && PATCH="$ID/patch.diff"
git -C "$WT" apply "$PATCH" 2>/dev/null || git -C "$WT" apply -3 "$PATCH" || { echo "RESULT $ID apply=FAILED"; exit 3; }
OUT=$(cd /verif && VERIF_REPO="$WT" timeout 3000 ./check "$P" --tier "$TIER" 2>&1 | grep -E "^(VIOLATION|OK)" | head -1)
echo "RESULT $ID [$P: $OUT]"
