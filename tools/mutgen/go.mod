module mutgen

go 1.22
