// mutgen enumerates first-order mutants of a Go source file: comparison and boolean operators in conditions,
// +1 / -1 offsets, dropped `continue` / `break`, negated conditions.  usage: mutgen <file> -> JSON lines
// {"id", "line", "kind", "start", "end", "new"} (byte offsets into the file).
package main

import (
	"encoding/json"
	"fmt"
	"go/ast"
	"go/parser"
	"go/token"
	"os"
)

type mut struct {
	ID    int    `json:"id"`
	Line  int    `json:"line"`
	Kind  string `json:"kind"`
	Start int    `json:"start"`
	End   int    `json:"end"`
	New   string `json:"new"`
	Func  string `json:"func"`
}

func main() {
	path := os.Args[1]
	fset := token.NewFileSet()
	f, err := parser.ParseFile(fset, path, nil, 0)
	if err != nil {
		fmt.Fprintln(os.Stderr, err)
		os.Exit(1)
	}
	var out []mut
	add := func(fn string, pos, end token.Pos, kind, repl string) {
		p := fset.Position(pos)
		out = append(out, mut{ID: len(out), Line: p.Line, Kind: kind, Start: p.Offset, End: fset.Position(end).Offset, New: repl, Func: fn})
	}
	swap := map[token.Token][]string{
		token.LSS: {"<="}, token.LEQ: {"<"}, token.GTR: {">="}, token.GEQ: {">"},
		token.EQL: {"!="}, token.NEQ: {"=="}, token.LAND: {"||"}, token.LOR: {"&&"},
	}
	for _, d := range f.Decls {
		fd, ok := d.(*ast.FuncDecl)
		if !ok || fd.Body == nil {
			continue
		}
		name := fd.Name.Name
		ast.Inspect(fd.Body, func(n ast.Node) bool {
			switch v := n.(type) {
			case *ast.BinaryExpr:
				if reps, ok := swap[v.Op]; ok {
					// skip `err != nil` / `x == nil` style checks: their mutants mostly crash at once
					if id, isId := v.Y.(*ast.Ident); isId && id.Name == "nil" {
						return true
					}
					for _, r := range reps {
						add(name, v.OpPos, v.OpPos+token.Pos(len(v.Op.String())), "op "+v.Op.String()+"->"+r, r)
					}
				}
				if (v.Op == token.ADD || v.Op == token.SUB) {
					if lit, ok := v.Y.(*ast.BasicLit); ok && lit.Kind == token.INT && lit.Value == "1" {
						add(name, v.OpPos, lit.End(), "drop "+v.Op.String()+"1", "")
					}
				}
			case *ast.BranchStmt:
				if (v.Tok == token.CONTINUE || v.Tok == token.BREAK) && v.Label == nil {
					add(name, v.Pos(), v.End(), "drop "+v.Tok.String(), "")
				}
			case *ast.UnaryExpr:
				if v.Op == token.NOT {
					add(name, v.OpPos, v.OpPos+1, "drop !", "")
				}
			case *ast.IfStmt:
				if _, isBin := v.Cond.(*ast.BinaryExpr); !isBin {
					if _, isUn := v.Cond.(*ast.UnaryExpr); !isUn {
						add(name, v.Cond.Pos(), v.Cond.Pos(), "negate condition", "!")
					}
				}
			}
			return true
		})
	}
	enc := json.NewEncoder(os.Stdout)
	for _, m := range out {
		enc.Encode(m)
	}
}
