#!/usr/bin/env python3
"""Regenerate /verif/MANIFEST.json from tools/manifest_entries.json (claimed checks) + properties.jsonl."""
import json, os
V = os.path.dirname(os.path.dirname(os.path.abspath(__file__)))
entries = json.load(open(os.path.join(V, "tools", "manifest_entries.json")))
props = [json.loads(l)["id"] for l in open(os.path.join(V, "properties.jsonl"))]
hooks = entries.get("_hooks", [])
m = {
    "version": 1,
    "setup_cmd": "./setup.sh",
    "hooks": {"guard": "verif",
              "enable": "go1.26.8 test -c -tags verif (harness module replaces the repo module with /repo)",
              "baseline_off_cmd": "cd /repo && GOFLAGS=-mod=mod GOPROXY=off GOSUMDB=off go test -vet=off -count=1 -timeout 25m ./...",
              "source_commits": hooks, "add_only": True},
    "engines": [
        {"name": "rocq-models", "path": "coq/", "serves_properties": [p for p in props if p in entries],
         "kind_free_text": "Coq 8.16.1 models, theorems and boolean checkers; case files evaluated by vm_compute"},
        {"name": "go-harness", "path": "harness/", "serves_properties": [p for p in props if p in entries],
         "kind_free_text": "Go 1.26.8 test binaries driving the real code through exported constructors (testing/synctest for virtual time); write Gallina case files"}],
    "checks": [],
    "notes": "See DESIGN.md. ./check Cxx [--tier quick|thorough] [--replay FILE]. Known findings: known_findings.json.",
    "not_applicable": [],
}
for p in props:
    e = entries.get(p)
    if not e:
        m["not_applicable"].append({"property_id": p, "reason": entries.get("_na", {}).get(p, "check not built yet (work in progress; see DESIGN.md section 9)")})
        continue
    m["checks"].append({
        "property_id": p, "quick_cmd": "./check %s --tier quick" % p, "thorough_cmd": "./check %s --tier thorough" % p,
        "evidence_file": "evidence/%s.json" % p, "replay_cmd_template": "./check %s --replay {path}" % p,
        "engine": "rocq-models",
        "level_claimed": {"category": "proof", "text": e["text"], "design_ref": "DESIGN.md section 5, " + p},
        "level_note": e["note"], "technique": e["technique"]})
json.dump(m, open(os.path.join(V, "MANIFEST.json"), "w"), indent=1)
print("checks:", [c["property_id"] for c in m["checks"]])
