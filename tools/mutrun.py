#!/usr/bin/env python3
"""Systematic first-order mutants of the anchored sources: which survive the repository's own suite, and which of the
survivors the owning properties' checks flag.  usage: tools/mutrun.py <lane name> <file> [<file> ...]
Results: /tmp/mut/results-<lane>.jsonl (one JSON object per mutant)."""
import json, os, subprocess, sys, hashlib, shutil, time
sys.path.insert(0, os.path.join(os.path.dirname(os.path.abspath(__file__)), "..", "lib"))
import drift
ENV = dict(os.environ, GOFLAGS="-mod=mod", GOPROXY="off", GOSUMDB="off", GOTOOLCHAIN="local")
lane, files = sys.argv[1], sys.argv[2:]
os.makedirs("/tmp/mut", exist_ok=True)
wt = "/tmp/mut/wt-" + lane
subprocess.run(["git", "-C", "/repo", "worktree", "remove", "--force", wt], capture_output=True)
subprocess.run(["git", "-C", "/repo", "worktree", "add", "-q", "--detach", wt, "HEAD"], check=True)
anch = drift.anchors()
def owners(f):
    return [p for p, fs in anch.items() if f in fs]
out = open("/tmp/mut/results-%s.jsonl" % lane, "a")
def sh(cmd, cwd=None, timeout=900, env=ENV):
    try:
        p = subprocess.run(cmd, cwd=cwd, env=env, stdout=subprocess.PIPE, stderr=subprocess.STDOUT, text=True, timeout=timeout)
        return p.returncode, p.stdout
    except subprocess.TimeoutExpired as e:
        return 124, "timeout"
try:
    for f in files:
        src = open(os.path.join("/repo", f), "rb").read()
        muts = [json.loads(l) for l in subprocess.run(["/verif/build/mutgen", os.path.join("/repo", f)], capture_output=True, text=True).stdout.splitlines()]
        only = os.environ.get("MUT_ONLY")
        for m in muts:
            if only and str(m["id"]) not in only.split(","):
                continue
            subprocess.run(["git", "-C", wt, "checkout", "-q", "--", "."], check=True)
            new = src[:m["start"]] + m["new"].encode() + src[m["end"]:]
            open(os.path.join(wt, f), "wb").write(new)
            rec = {"file": f, "mut": m, "owners": owners(f)}
            rc, o = sh(["go", "build", "./..."], cwd=wt, timeout=300)
            if rc != 0:
                rec["status"] = "does not compile"
            else:
                pkg = "./" + os.path.dirname(f) + "/..."
                rc, o = sh(["go", "test", "-vet=off", "-count=1", "-timeout", "10m", pkg], cwd=wt, timeout=700)
                if rc == 0:
                    rc, o = sh(["go", "test", "-vet=off", "-count=1", "-timeout", "15m", "./..."], cwd=wt, timeout=1000)
                if rc != 0:
                    rec["status"] = "killed by the suite"
                else:
                    rec["status"] = "survives the suite"
                    rec["checks"] = {}
                    for p in rec["owners"]:
                        t0 = time.time()
                        rc, o = sh(["./check", p, "--tier", "quick"], cwd="/verif", timeout=2400, env=dict(ENV, VERIF_REPO=wt))
                        line = [l for l in o.splitlines() if l.startswith("VIOLATION") or l.startswith("OK ")]
                        rec["checks"][p] = {"rc": rc, "line": (line[0] if line else o[-200:])[:200], "s": round(time.time() - t0)}
                        if line and line[0].startswith("VIOLATION"):
                            break  # caught: the other owners need not run
            out.write(json.dumps(rec) + "\n"); out.flush()
finally:
    subprocess.run(["git", "-C", "/repo", "worktree", "remove", "--force", wt], capture_output=True)
    alt = "/verif/build/alt-" + hashlib.sha1(wt.encode()).hexdigest()[:8]
    shutil.rmtree(alt, ignore_errors=True)
