#!/usr/bin/env python3
"""usage: tools/mark_strengthened.py <seeded id> <PROP> <verdict after strengthening> <what was strengthened>"""
import json, sys
sid, prop, verdict, what = sys.argv[1:5]
p = f"/verif/seeded/{sid}/meta.json"
m = json.load(open(p))
a = m.setdefault("check_verdicts_after_strengthening", {})
a[prop] = verdict
old = a.get("strengthening", "-")
a["strengthening"] = what if old in ("-", "") else old + "; " + what
json.dump(m, open(p, "w"), indent=1)
print(sid, a)
