package c04

import (
	"bytes"
	"context"
	"fmt"
	"math/big"
	"path/filepath"
	"testing"

	. "verifharness/h"

	ocr2keepers "github.com/smartcontractkit/chainlink-automation/pkg/v3"
	simutil "github.com/smartcontractkit/chainlink-automation/tools/simulator/util"
	common "github.com/smartcontractkit/chainlink-common/pkg/types/automation"
	"github.com/smartcontractkit/libocr/commontypes"
	"github.com/smartcontractkit/libocr/offchainreporting2plus/ocr3types"
	ocr2plustypes "github.com/smartcontractkit/libocr/offchainreporting2plus/types"
)

// c04Perf is one agreed performable in generator form.
type c04Perf struct {
	Upk int    `json:"upk"` // upkeep number; >=1000 are log-trigger upkeeps (may repeat with distinct work ids)
	Log int    `json:"log"` // log number (distinguishes work ids of one log upkeep)
	Gas uint64 `json:"gas"`
}

type c04Case struct {
	Family   string    `json:"family"`
	Batch    int       `json:"batch"`
	Limit    uint32    `json:"limit"`
	Overhead uint32    `json:"overhead"`
	Perfs    []c04Perf `json:"perfs"`
	FailAt   int       `json:"fail_at"` // 0 = encoder never fails
	// Prev, when non-empty, is the agreed list of an earlier round handed to the SAME plug-in instance first: Reports is
	// a function of its arguments, nothing may carry over from one call to the next
	Prev []c04Perf `json:"prev,omitempty"`
	// observed
	Obs [][]int `json:"obs,omitempty"`
	Err bool    `json:"err"`
}

// c04WorkID: the injected work-id generator of the C04 instances.  Work ids are the integrator's business: nothing in
// Reports may rely on a conditional upkeep having one unit of work only.
func c04WorkID(id common.UpkeepIdentifier, trg common.Trigger) string {
	if trg.LogTriggerExtension == nil && trg.BlockNumber != 10 {
		return fmt.Sprintf("%s@%d", simutil.UpkeepWorkID(id, trg), trg.BlockNumber)
	}
	return simutil.UpkeepWorkID(id, trg)
}

func c04Result(p c04Perf) common.CheckResult {
	var r common.CheckResult
	if p.Upk >= 1000 {
		r.UpkeepID = UpkeepID(1, p.Upk)
		ext := &common.LogTriggerExtension{TxHash: Hash32("tx", p.Log), Index: uint32(p.Log), BlockHash: Hash32("lb", p.Log), BlockNumber: 7}
		r.Trigger = common.NewLogTrigger(10, Hash32("blk", 10), ext)
	} else {
		// a conditional upkeep checked at block 10 + Log: with the harness's work-id generator (which, unlike the
		// simulator's, takes the check block into account) that is another unit of work of the same upkeep
		r.UpkeepID = UpkeepID(0, p.Upk)
		r.Trigger = common.NewTrigger(common.BlockNumber(10+p.Log), Hash32("blk", 10+p.Log))
	}
	r.WorkID = c04WorkID(r.UpkeepID, r.Trigger)
	r.Eligible = true
	r.GasAllocated = p.Gas
	r.PerformData = []byte{1, 2, 3}
	r.FastGasWei = big.NewInt(1)
	r.LinkNative = big.NewInt(2)
	return r
}

func c04Boundary() []c04Case {
	var cs []c04Case
	L, O := uint32(1000), uint32(10)
	small := func(n int) []c04Perf {
		var ps []c04Perf
		for i := 0; i < n; i++ {
			ps = append(ps, c04Perf{Upk: i + 1, Gas: 100})
		}
		return ps
	}
	over := c04Perf{Upk: 500, Gas: 5000}
	// over-limit first / middle / last / all
	cs = append(cs, c04Case{Family: "overlimit-first", Batch: 3, Limit: L, Overhead: O, Perfs: append([]c04Perf{over}, small(4)...)})
	mid := append(small(2), over)
	mid = append(mid, c04Perf{Upk: 7, Gas: 100}, c04Perf{Upk: 8, Gas: 100})
	cs = append(cs, c04Case{Family: "overlimit-middle", Batch: 3, Limit: L, Overhead: O, Perfs: mid})
	cs = append(cs, c04Case{Family: "overlimit-last", Batch: 3, Limit: L, Overhead: O, Perfs: append(small(4), over)})
	cs = append(cs, c04Case{Family: "overlimit-all", Batch: 3, Limit: L, Overhead: O, Perfs: []c04Perf{{Upk: 1, Gas: 5000}, {Upk: 2, Gas: 991}, {Upk: 3, Gas: 1 << 61}}})
	cs = append(cs, c04Case{Family: "overlimit-after-full-batch", Batch: 2, Limit: L, Overhead: O, Perfs: append(small(2), over, c04Perf{Upk: 9, Gas: 1})})
	// gas+overhead exactly at the limit and one above
	cs = append(cs, c04Case{Family: "gas-eq-limit", Batch: 5, Limit: L, Overhead: O, Perfs: []c04Perf{{Upk: 1, Gas: 490}, {Upk: 2, Gas: 490}, {Upk: 3, Gas: 1}}})
	cs = append(cs, c04Case{Family: "gas-limit-plus-1", Batch: 5, Limit: L, Overhead: O, Perfs: []c04Perf{{Upk: 1, Gas: 490}, {Upk: 2, Gas: 491}, {Upk: 3, Gas: 1}}})
	cs = append(cs, c04Case{Family: "single-eq-limit", Batch: 5, Limit: L, Overhead: O, Perfs: []c04Perf{{Upk: 1, Gas: 990}, {Upk: 2, Gas: 991}}})
	// repeated upkeep id adjacent / non-adjacent (log upkeeps, distinct work ids)
	cs = append(cs, c04Case{Family: "repeat-adjacent", Batch: 10, Limit: L, Overhead: O, Perfs: []c04Perf{{Upk: 1000, Log: 1, Gas: 10}, {Upk: 1000, Log: 2, Gas: 10}, {Upk: 1000, Log: 3, Gas: 10}}})
	cs = append(cs, c04Case{Family: "repeat-nonadjacent", Batch: 10, Limit: L, Overhead: O, Perfs: []c04Perf{{Upk: 1000, Log: 1, Gas: 10}, {Upk: 1, Gas: 10}, {Upk: 1000, Log: 2, Gas: 10}, {Upk: 2, Gas: 10}, {Upk: 1, Gas: 0x7fffffff}}})
	cs[len(cs)-1].Perfs = cs[len(cs)-1].Perfs[:4]
	cs = append(cs, c04Case{Family: "repeat-after-flush", Batch: 2, Limit: L, Overhead: O, Perfs: []c04Perf{{Upk: 1000, Log: 1, Gas: 10}, {Upk: 1, Gas: 10}, {Upk: 1000, Log: 2, Gas: 10}, {Upk: 1000, Log: 3, Gas: 10}}})
	// batch 1, empty, 100 performables
	cs = append(cs, c04Case{Family: "batch-1", Batch: 1, Limit: L, Overhead: O, Perfs: small(5)})
	cs = append(cs, c04Case{Family: "empty", Batch: 3, Limit: L, Overhead: O, Perfs: nil})
	cs = append(cs, c04Case{Family: "hundred", Batch: 7, Limit: 5300000, Overhead: 300000, Perfs: func() []c04Perf {
		var ps []c04Perf
		for i := 0; i < 100; i++ {
			ps = append(ps, c04Perf{Upk: i + 1, Gas: uint64(100000 + 37000*(i%11))})
		}
		return ps
	}()})
	cs = append(cs, c04Case{Family: "hundred-overlimit", Batch: 1, Limit: L, Overhead: O, Perfs: func() []c04Perf {
		var ps []c04Perf
		for i := 0; i < 100; i++ {
			ps = append(ps, c04Perf{Upk: i + 1, Gas: 1 << 40})
		}
		return ps
	}()})
	// encoder error on call k
	for k := 1; k <= 3; k++ {
		cs = append(cs, c04Case{Family: "encoder-fails", Batch: 2, Limit: L, Overhead: O, Perfs: small(5), FailAt: k})
	}
	cs = append(cs, c04Case{Family: "encoder-fails-never-reached", Batch: 2, Limit: L, Overhead: O, Perfs: small(5), FailAt: 4})
	// defaults applied by DecodeOffchainConfig (0 -> 1 / 5.3M / 300k)
	cs = append(cs, c04Case{Family: "config-defaults", Batch: 0, Limit: 0, Overhead: 0, Perfs: []c04Perf{{Upk: 1, Gas: 5000000}, {Upk: 2, Gas: 10}, {Upk: 3, Gas: 4999990}}})
	cs = append(cs, c04Case{Family: "config-negative-batch", Batch: -3, Limit: L, Overhead: O, Perfs: small(3)})
	// an earlier round on the same instance: its last report held upkeeps 1000 and 3; this round starts with them again
	// (different work ids), then with a stale id in the middle
	cs = append(cs, c04Case{Family: "previous-round-last-report-shares-upkeep", Batch: 10, Limit: L, Overhead: O,
		Prev:  []c04Perf{{Upk: 1, Gas: 10}, {Upk: 1000, Log: 1, Gas: 10}, {Upk: 3, Gas: 10}},
		Perfs: []c04Perf{{Upk: 1000, Log: 2, Gas: 10}, {Upk: 3, Gas: 10}, {Upk: 4, Gas: 10}}})
	cs = append(cs, c04Case{Family: "previous-round-stale-id-mid-batch", Batch: 10, Limit: L, Overhead: O,
		Prev:  small(3),
		Perfs: []c04Perf{{Upk: 7, Gas: 10}, {Upk: 2, Gas: 10}, {Upk: 8, Gas: 10}}})
	cs = append(cs, c04Case{Family: "previous-round-over-limit-gas-left", Batch: 10, Limit: L, Overhead: O,
		Prev:  []c04Perf{{Upk: 1, Gas: 900}},
		Perfs: []c04Perf{{Upk: 2, Gas: 200}, {Upk: 3, Gas: 200}}})
	// the same conditional upkeep under two work ids (checked at two blocks) inside one report window
	cs = append(cs, c04Case{Family: "conditional-upkeep-twice-under-two-work-ids", Batch: 10, Limit: L, Overhead: O,
		Perfs: []c04Perf{{Upk: 7, Log: 1, Gas: 10}, {Upk: 8, Gas: 10}, {Upk: 7, Log: 2, Gas: 10}, {Upk: 9, Gas: 10}, {Upk: 8, Log: 3, Gas: 10}}})
	// each default on its own: only the zero field is replaced (batch 1 / limit 5.3M / overhead 300k)
	cs = append(cs, c04Case{Family: "config-zero-batch-only", Batch: 0, Limit: L, Overhead: O, Perfs: small(4)})
	cs = append(cs, c04Case{Family: "config-zero-limit-only", Batch: 5, Limit: 0, Overhead: O, Perfs: []c04Perf{{Upk: 1, Gas: 2650000 - uint64(O)}, {Upk: 2, Gas: 2650000 - uint64(O)}, {Upk: 3, Gas: 1}}})
	cs = append(cs, c04Case{Family: "config-zero-overhead-only", Batch: 5, Limit: 700000, Overhead: 0, Perfs: []c04Perf{{Upk: 1, Gas: 50000}, {Upk: 2, Gas: 50000}, {Upk: 3, Gas: 1}}})
	cs = append(cs, c04Case{Family: "config-batch-one-stays-one", Batch: 1, Limit: 0, Overhead: 0, Perfs: small(3)})
	return cs
}

func c04Random(r *Rng) c04Case {
	c := c04Case{Family: "random"}
	c.Batch = []int{1, 1, 2, 3, 5, 10, 20, 100}[r.Intn(8)]
	c.Limit = []uint32{1000, 5000, 100000, 5300000}[r.Intn(4)]
	c.Overhead = []uint32{1, 10, 300, 300000}[r.Intn(4)]
	if r.Chance(1, 10) { // one of the figures left to its default
		switch r.Intn(3) {
		case 0:
			c.Batch = -r.Intn(3)
		case 1:
			c.Limit = 0
		default:
			c.Overhead = 0
		}
	}
	n := []int{0, 1, 2, 3, 5, 8, 13, 30, 100}[r.Intn(9)]
	logNo := 0
	for i := 0; i < n; i++ {
		var p c04Perf
		switch r.Intn(10) {
		case 0, 1, 2: // log upkeep from a small pool -> repeated upkeep ids
			logNo++
			p = c04Perf{Upk: 1000 + r.Intn(3), Log: logNo}
		case 3: // a conditional upkeep from a small pool, checked at another block -> repeated ids among conditionals too
			logNo++
			p = c04Perf{Upk: 900 + r.Intn(3), Log: logNo}
		default:
			p = c04Perf{Upk: i + 1}
		}
		lim := uint64(c.Limit)
		if lim == 0 {
			lim = 5_300_000 // gas figures are drawn around the limit in force; a zero allocation is not a valid result
		}
		switch r.Intn(12) {
		case 0:
			p.Gas = lim * uint64(2+r.Intn(5)) // alone above the limit
		case 1:
			p.Gas = 1<<62 - 1 - uint64(r.Intn(1000))
		case 2:
			if lim > uint64(c.Overhead) {
				p.Gas = lim - uint64(c.Overhead) // exactly at the limit alone
			} else {
				p.Gas = 1
			}
		case 3:
			p.Gas = 1
		default:
			p.Gas = 1 + uint64(r.Intn(int(lim/2)+1))
		}
		c.Perfs = append(c.Perfs, p)
	}
	if r.Chance(1, 8) {
		c.FailAt = 1 + r.Intn(4)
	}
	if r.Chance(1, 4) && len(c.Perfs) > 0 { // an earlier round on the same instance, sharing upkeep ids with this one
		k := 1 + r.Intn(4)
		for i := 0; i < k; i++ {
			q := c.Perfs[r.Intn(len(c.Perfs))]
			q.Log += 1000 // another unit of work of the same upkeep
			q.Gas = 1 + uint64(r.Intn(1000))
			c.Prev = append(c.Prev, q)
		}
	}
	return c
}

func runC04Case(t *testing.T, c *c04Case) {
	nd := NewNode(t, NodeOpts{
		Offchain: fmt.Sprintf(`{"maxUpkeepBatchSize":%d,"gasLimitPerReport":%d,"gasOverheadPerUpkeep":%d}`, c.Batch, c.Limit, c.Overhead),
		N:        4, F: 1, WorkID: c04WorkID,
	})
	defer nd.Plugin.Close()
	results := make([]common.CheckResult, len(c.Perfs))
	for i, p := range c.Perfs {
		results[i] = c04Result(p)
	}
	outcome := ocr2keepers.AutomationOutcome{AgreedPerformables: results}
	raw, err := outcome.Encode()
	if err != nil {
		t.Fatal(err)
	}
	if len(c.Prev) > 0 {
		prev := make([]common.CheckResult, len(c.Prev))
		for i, p := range c.Prev {
			prev[i] = c04Result(p)
		}
		praw, perr := (ocr2keepers.AutomationOutcome{AgreedPerformables: prev}).Encode()
		if perr != nil {
			t.Fatal(perr)
		}
		nd.Enc.Reset(0)
		_, _ = nd.Plugin.Reports(context.Background(), 6, praw)
		// ... and an attempt at sequence number 7 that agreed on those results and was not committed (the round is
		// repeated in the next epoch): Reports(7, raw) is a function of raw alone
		if ob, oerr := (ocr2keepers.AutomationObservation{Performable: prev}).Encode(); oerr == nil {
			var aos []ocr2plustypes.AttributedObservation
			for i := 0; i < 3; i++ {
				aos = append(aos, ocr2plustypes.AttributedObservation{Observation: ob, Observer: commontypes.OracleID(i)})
			}
			_, _ = nd.Plugin.Outcome(context.Background(), ocr3types.OutcomeContext{SeqNr: 7}, nil, aos)
		}
	}
	nd.Enc.Reset(c.FailAt)
	reports, rerr := nd.Plugin.Reports(context.Background(), 7, raw)
	c.Err = rerr != nil
	c.Obs = nil
	calls := nd.Enc.Calls()
	for i, rep := range reports {
		var idxs []int
		if i >= len(calls) {
			// a report that no Encode call produced: foreign
			idxs = []int{len(c.Perfs) + 1}
			c.Obs = append(c.Obs, idxs)
			continue
		}
		want, _ := simutil.EncodeCheckResultsToReportBytes(calls[i])
		if !bytes.Equal(want, rep.ReportWithInfo.Report) {
			idxs = append(idxs, len(c.Perfs)+2)
		}
		for _, got := range calls[i] {
			idx := len(c.Perfs) + 3
			for j := range results {
				if results[j].WorkID == got.WorkID && results[j].UniqueID() == got.UniqueID() &&
					bytes.Equal(results[j].PerformData, got.PerformData) && results[j].GasAllocated == got.GasAllocated {
					idx = j
					break
				}
			}
			idxs = append(idxs, idx)
		}
		c.Obs = append(c.Obs, idxs)
	}
}

func c04Term(c c04Case) string {
	upk := NewInterner()
	perfs := CoqList(c.Perfs, func(p c04Perf) string {
		key := fmt.Sprintf("%d", p.Upk)
		// interned wid: position (work ids are pairwise distinct by construction)
		return fmt.Sprintf("mkPerf %d %d %d", upk.ID(key), p.Gas, upk.ID(fmt.Sprintf("w%d/%d", p.Upk, p.Log))+1000000)
	})
	var fail *int
	if c.FailAt != 0 {
		fail = &c.FailAt
	}
	obs := CoqList(c.Obs, func(r []int) string { return CoqList(r, CoqNat) })
	// the model applies ensureMinimumDefaults itself (Model.Reports.ensure_defaults, tied to the source by gen_cfg_defaults)
	return fmt.Sprintf("mkRCase (effective_cfg %s %d %d) %s %s %s %s", CoqZ(int64(c.Batch)), c.Limit, c.Overhead, perfs, CoqOptNat(fail), obs, CoqBool(c.Err))
}

func TestC04(t *testing.T) {
	dir := OutDir(t, "C04")
	var cases []c04Case
	if rf := ReplayFile(); rf != "" {
		cases = LoadReplayCases[c04Case](t, rf)
	} else {
		cases = append(cases, LoadCorpus[c04Case](t, "C04")...)
		cases = append(cases, c04Boundary()...)
		r := NewRng(EnvSeed())
		n := EnvInt("VERIF_N", 150)
		for i := 0; i < n; i++ {
			cases = append(cases, c04Random(r))
		}
	}
	cf := NewCaseFile("C04", "Model.Reports")
	fam := map[string]int{}
	sizes := map[int]int{}
	for i := range cases {
		runC04Case(t, &cases[i])
		cf.Add(c04Term(cases[i]))
		fam[cases[i].Family]++
		sizes[len(cases[i].Perfs)]++
	}
	cf.Imports = append(cf.Imports, "Base.Util")
	cf.Prelude = "Open Scope N_scope."
	cf.Write(t, dir, "cases.v", "r_case", [][2]string{
		{"mism", "find_idx rc_mism cases"},
		{"bad", "find_idx rc_bad cases"},
		{"kf_overlimit", "find_idx rc_kf_overlimit cases"},
		{"cov", "cov_sum (map rc_cov cases)"},
		{"nontriv", "find_idx (fun k => Nat.ltb 1 (length (rc_obs k))) cases"},
	})
	WriteJSON(t, filepath.Join(dir, "cases.json"), map[string]any{
		"property": "C04", "seed": EnvSeed(), "cases": cases, "families": fam, "sizes": sizes,
	})
}
