// Package c06 drives the real OCR3 transmit coordinator (pkg/v3/coordinator) for properties C06
// and C07: generated histories of accept / should-transmit / event polls / filter calls / hooks /
// sleeps / restarts run inside a testing/synctest bubble (virtual clock: 1 s poll timer, cache
// expiry, lockout window), every return value is recorded, and the history is written as a Gallina
// case for Model/Coordinator.v (model replay + checker K).
package c06

import (
	"bytes"
	"context"
	"encoding/json"
	"fmt"
	"io"
	"log"
	"os"
	"path/filepath"
	"runtime"
	"sort"
	"strings"
	"sync"
	"sync/atomic"
	"testing"
	"testing/synctest"
	"time"

	. "verifharness/h"

	"github.com/smartcontractkit/libocr/offchainreporting2plus/ocr3types"
	ocr2plustypes "github.com/smartcontractkit/libocr/offchainreporting2plus/types"

	"github.com/smartcontractkit/chainlink-automation/pkg/util"
	ocr2keepers "github.com/smartcontractkit/chainlink-automation/pkg/v3"
	"github.com/smartcontractkit/chainlink-automation/pkg/v3/config"
	"github.com/smartcontractkit/chainlink-automation/pkg/v3/coordinator"
	"github.com/smartcontractkit/chainlink-automation/pkg/v3/plugin"
	"github.com/smartcontractkit/chainlink-automation/pkg/v3/plugin/hooks"
	"github.com/smartcontractkit/chainlink-automation/pkg/v3/stores"
	"github.com/smartcontractkit/chainlink-automation/pkg/v3/types"
	simutil "github.com/smartcontractkit/chainlink-automation/tools/simulator/util"
	common "github.com/smartcontractkit/chainlink-common/pkg/types/automation"
)

// ---------------------------------------------------------------- generator form

type cWid struct {
	Type uint8 `json:"type"` // upkeep type byte: 0 conditional, 1 log, 2 unknown
	N    int   `json:"n"`
}

type cEvent struct {
	W     int    `json:"w"`  // index into Ws
	Tx    int    `json:"tx"` // transaction number
	Type  int    `json:"type"`
	TB    uint64 `json:"tb"`
	Conf  int64  `json:"conf"`
	Check uint64 `json:"check"`
}

type cItem struct {
	W   int    `json:"w"`
	Blk uint64 `json:"blk"`
}

type cOp struct {
	Kind   string   `json:"k"` // accept transmit events should pre fres fprop hookstaging hookprop sleep restart acceptrep transmitrep race
	W      int      `json:"w,omitempty"`
	B      uint64   `json:"b,omitempty"`
	Evs    []cEvent `json:"evs,omitempty"`
	Repeat int      `json:"repeat,omitempty"` // number of polls that return the batch (0 = until replaced)
	Items  []cItem  `json:"items,omitempty"`
	D      int64    `json:"d,omitempty"` // sleep, ns
	Cancel int      `json:"cancel,omitempty"` // plug-in report calls: the call's context is cancelled right after the k-th upkeep was handled
}

type cCase struct {
	Family   string `json:"family"`
	WindowMs int64  `json:"window_ms"`
	MinConf  int    `json:"min_conf"`
	Plugin   bool   `json:"plugin,omitempty"` // mirror accept/transmit through a plug-in instance (report level)
	Ws       []cWid `json:"ws"`
	Ops      []cOp  `json:"ops"`
	// observed
	Observed []string `json:"observed,omitempty"` // the Gallina history entries
}

// ---------------------------------------------------------------- scripted provider

type scriptedEvents struct {
	mu     sync.Mutex
	batch  []common.TransmitEvent
	gen    []cEvent
	left   int // polls left for the batch; <0 = until replaced
	onPoll func(evs []cEvent)
}

func (p *scriptedEvents) GetLatestEvents(context.Context) ([]common.TransmitEvent, error) {
	p.mu.Lock()
	defer p.mu.Unlock()
	if p.left == 0 || len(p.batch) == 0 {
		return nil, nil
	}
	if p.left > 0 {
		p.left--
	}
	if p.onPoll != nil {
		p.onPoll(p.gen)
	}
	return append([]common.TransmitEvent(nil), p.batch...), nil
}

func (p *scriptedEvents) set(batch []common.TransmitEvent, gen []cEvent, repeat int) {
	p.mu.Lock()
	defer p.mu.Unlock()
	p.batch, p.gen = batch, gen
	if repeat <= 0 {
		p.left = -1
	} else {
		p.left = repeat
	}
}

// ---------------------------------------------------------------- runner

type world struct {
	t      *testing.T
	c      *cCase
	t0     time.Time
	phase  time.Time // start of the current poller
	prov   *scriptedEvents
	coord  types.Coordinator
	closer interface{ Close() error }
	node   *Node
	mu     sync.Mutex
	hist   []string
	logger *log.Logger
	gate   *gateWriter
	lines  lineHook
	checked []common.UpkeepPayload // plug-in mode: payloads that reached the check pipeline
}

func (w *world) rel() int64 { return int64(time.Since(w.t0)) }

func (w *world) emit(s string) {
	w.mu.Lock()
	w.hist = append(w.hist, s)
	w.mu.Unlock()
}

func (c *cCase) upkeepID(i int) common.UpkeepIdentifier {
	return UpkeepID(c.Ws[i].Type, c.Ws[i].N)
}

func (c *cCase) trigger(i int, blk uint64) common.Trigger {
	if c.Ws[i].Type == 1 {
		ext := &common.LogTriggerExtension{TxHash: Hash32("ltx", c.Ws[i].N), Index: uint32(c.Ws[i].N), BlockHash: Hash32("lb", c.Ws[i].N), BlockNumber: 3}
		return common.NewLogTrigger(common.BlockNumber(blk), Hash32("blk", int(blk)), ext)
	}
	return common.NewTrigger(common.BlockNumber(blk), Hash32("blk", int(blk)))
}

func (c *cCase) workID(i int) string {
	return simutil.UpkeepWorkID(c.upkeepID(i), c.trigger(i, 1))
}

func (c *cCase) widIndex(workID string) int {
	for i := range c.Ws {
		if c.workID(i) == workID {
			return i
		}
	}
	return -1
}

func (c *cCase) reported(i int, blk uint64) common.ReportedUpkeep {
	return common.ReportedUpkeep{UpkeepID: c.upkeepID(i), Trigger: c.trigger(i, blk), WorkID: c.workID(i)}
}

func (c *cCase) transmitEvent(e cEvent) common.TransmitEvent {
	return common.TransmitEvent{
		Type: common.TransmitEventType(e.Type), TransmitBlock: common.BlockNumber(e.TB), Confirmations: e.Conf,
		TransactionHash: Hash32("tx", e.Tx), UpkeepID: c.upkeepID(e.W), WorkID: c.workID(e.W), CheckBlock: common.BlockNumber(e.Check),
	}
}

func coqEvent(e cEvent) string {
	return fmt.Sprintf("mkEv %d %d %d %d %s %d", e.W+1, e.Tx, e.Type, e.TB, CoqZ(e.Conf), e.Check)
}

func (c *cCase) coqItem(it cItem) string {
	return fmt.Sprintf("mkItem %d %d %d", it.W+1, c.Ws[it.W].Type, it.Blk)
}

func (w *world) start() {
	c := w.c
	w.prov = &scriptedEvents{}
	w.prov.onPoll = func(evs []cEvent) {
		w.emit(fmt.Sprintf("(%s, OEvents %s, RU)", CoqZ(w.rel()), CoqList(evs, coqEvent)))
	}
	co := coordinator.NewCoordinator(w.prov, simutil.GetUpkeepType,
		config.OffchainConfig{PerformLockoutWindow: c.WindowMs, MinConfirmations: c.MinConf}, w.logger)
	w.phase = time.Now()
	go func() { _ = co.Start(context.Background()) }()
	w.coord, w.closer = co, co
	if c.Plugin {
		w.node = NewNode(w.t, NodeOpts{
			Offchain: fmt.Sprintf(`{"performLockoutWindow":%d,"minConfirmations":%d}`, c.WindowMs, c.MinConf), N: 4, F: 1,
			LogW: &w.lines,
		})
		// the check pipeline of the plug-in records what the flows hand it and reports a failed, non-retryable check:
		// nothing is cached, staged, proposed or retried, so only the pre-processing of the flows decides what gets here
		w.node.Runnable.SetFn(func(_ context.Context, ps ...common.UpkeepPayload) ([]common.CheckResult, error) {
			w.mu.Lock()
			defer w.mu.Unlock()
			var out []common.CheckResult
			for _, p := range ps {
				w.checked = append(w.checked, p)
				out = append(out, common.CheckResult{PipelineExecutionState: 1, UpkeepID: p.UpkeepID, Trigger: p.Trigger, WorkID: p.WorkID})
			}
			return out, nil
		})
	}
	synctest.Wait()
	time.Sleep(250 * time.Microsecond) // keep this goroutine's instants off the poller's lattice
	synctest.Wait()
}

func (w *world) stop() {
	_ = w.closer.Close()
	if w.node != nil {
		_ = w.node.Plugin.Close()
		w.node = nil
	}
	synctest.Wait()
}

// lineHook is the plug-in's log sink: it counts the per-upkeep lines of the report-level calls and cancels the
// armed context after the k-th.
type lineHook struct {
	mu     sync.Mutex
	k, n   int
	cancel context.CancelFunc
}

func (l *lineHook) arm(k int, cancel context.CancelFunc) {
	l.mu.Lock()
	l.k, l.n, l.cancel = k, 0, cancel
	l.mu.Unlock()
}

func (l *lineHook) Write(p []byte) (int, error) {
	if bytes.Contains(p, []byte("checking shouldAccept of upkeep")) || bytes.Contains(p, []byte("checking transmit of upkeep")) {
		l.mu.Lock()
		l.n++
		if l.k > 0 && l.n == l.k && l.cancel != nil {
			l.cancel()
		}
		l.mu.Unlock()
	}
	return len(p), nil
}

// settle makes sure no poll/GC tick is due at this very instant before an operation is issued.
func (w *world) settle() {
	synctest.Wait()
	for time.Since(w.phase)%time.Second == 0 {
		time.Sleep(time.Microsecond)
		synctest.Wait()
	}
}

func (w *world) report(ups []common.ReportedUpkeep) ocr3types.ReportWithInfo[plugin.AutomationReportInfo] {
	rs := make([]common.CheckResult, len(ups))
	for i, u := range ups {
		rs[i] = common.CheckResult{UpkeepID: u.UpkeepID, Trigger: u.Trigger, WorkID: u.WorkID}
	}
	b, err := simutil.EncodeCheckResultsToReportBytes(rs)
	if err != nil {
		w.t.Fatal(err)
	}
	return ocr3types.ReportWithInfo[plugin.AutomationReportInfo]{Report: ocr2plustypes.Report(b)}
}

func (w *world) itemsOut(ids []string, blks []uint64, in []cItem) string {
	// map every output element to the first not yet used input position with the same (work id, block)
	used := make([]bool, len(in))
	var idx []int
	for k := range ids {
		wi := w.c.widIndex(ids[k])
		found := -1
		for j := range in {
			if !used[j] && in[j].W == wi && in[j].Blk == blks[k] {
				found = j
				break
			}
		}
		if found < 0 {
			return "[mkItem 999 999 999]" // foreign element
		}
		used[found] = true
		idx = append(idx, found)
	}
	out := make([]cItem, len(idx))
	for k, j := range idx {
		out[k] = in[j]
	}
	return CoqList(out, w.c.coqItem)
}

func (w *world) pairs(op cOp) ([]common.ReportedUpkeep, string) {
	ups := make([]common.ReportedUpkeep, len(op.Items))
	for i, it := range op.Items {
		ups[i] = w.c.reported(it.W, it.Blk)
	}
	return ups, CoqList(op.Items, func(it cItem) string { return fmt.Sprintf("mkWB %d %d", it.W+1, it.Blk) })
}

func (w *world) doOp(op cOp) {
	c := w.c
	switch op.Kind {
	case "sleep":
		time.Sleep(time.Duration(op.D))
		synctest.Wait()
		return
	case "events":
		batch := make([]common.TransmitEvent, len(op.Evs))
		for i, e := range op.Evs {
			batch[i] = c.transmitEvent(e)
		}
		w.settle()
		w.prov.set(batch, op.Evs, op.Repeat)
		if w.node != nil {
			w.node.Events.Set(batch)
		}
		return
	case "restart":
		w.settle()
		w.stop()
		w.emit(fmt.Sprintf("(%s, ORestart, RU)", CoqZ(w.rel())))
		w.start()
		return
	}
	w.settle()
	now := CoqZ(w.rel())
	switch op.Kind {
	case "accept", "transmit":
		ru := c.reported(op.W, op.B)
		var r bool
		if op.Kind == "accept" {
			r = w.coord.Accept(ru)
		} else {
			r = w.coord.ShouldTransmit(ru)
		}
		if w.node == nil {
			name := map[string]string{"accept": "OAccept", "transmit": "OTransmit"}[op.Kind]
			w.emit(fmt.Sprintf("(%s, %s %d %d, RB %s)", now, name, op.W+1, op.B, CoqBool(r)))
			return
		}
		var pr bool
		var err error
		if op.Kind == "accept" {
			pr, err = w.node.Plugin.ShouldAcceptAttestedReport(context.Background(), 1, w.report([]common.ReportedUpkeep{ru}))
		} else {
			pr, err = w.node.Plugin.ShouldTransmitAcceptedReport(context.Background(), 1, w.report([]common.ReportedUpkeep{ru}))
		}
		if err != nil {
			w.t.Fatalf("plug-in report call: %v", err)
		}
		name := map[string]string{"accept": "OAcceptRep", "transmit": "OTransmitRep"}[op.Kind]
		w.emit(fmt.Sprintf("(%s, %s [mkWB %d %d], RBL %s [%s])", now, name, op.W+1, op.B, CoqBool(pr), CoqBool(r)))
	case "acceptrep", "transmitrep":
		ups, term := w.pairs(op)
		rs := make([]bool, len(ups))
		for i, u := range ups {
			if op.Kind == "acceptrep" {
				rs[i] = w.coord.Accept(u)
			} else {
				rs[i] = w.coord.ShouldTransmit(u)
			}
		}
		any := false
		for _, r := range rs {
			any = any || r
		}
		pr := any
		if w.node != nil {
			// the context of the call may be cancelled while the call is under way (libocr's deadline for the
			// function passing, the node shutting down): right after the op.Cancel-th upkeep was handled.  Whatever
			// the call then answers, a report is accepted / offered as a whole exactly when one of its upkeeps is.
			ctx, cancel := context.WithCancel(context.Background())
			w.lines.arm(op.Cancel, cancel)
			var err error
			if op.Kind == "acceptrep" {
				pr, err = w.node.Plugin.ShouldAcceptAttestedReport(ctx, 1, w.report(ups))
			} else {
				pr, err = w.node.Plugin.ShouldTransmitAcceptedReport(ctx, 1, w.report(ups))
			}
			w.lines.arm(0, nil)
			cancel()
			if err != nil {
				if op.Cancel == 0 {
					w.t.Fatalf("plug-in report call: %v", err)
				}
				pr = false // an error answer is "not accepted / not to be transmitted"
			}
		}
		name := map[string]string{"acceptrep": "OAcceptRep", "transmitrep": "OTransmitRep"}[op.Kind]
		w.emit(fmt.Sprintf("(%s, %s %s, RBL %s %s)", now, name, term, CoqBool(pr), CoqList(rs, CoqBool)))
	case "offerlog", "offerrecov":
		// plug-in mode: the work is offered to the node by its log provider (log-trigger flow) or by its recoverable
		// provider (recovery-proposal flow).  Every flow pre-processes with the coordinator: what reaches the check
		// pipeline is what PreProcess lets through.  The answer is recorded as an OPre observation when the
		// coordinator's view of these items was the same before and after the flow's tick.
		if w.node == nil {
			return
		}
		sp := func(it cItem) bool {
			return w.coord.(interface {
				ShouldProcess(string, common.UpkeepIdentifier, common.Trigger) bool
			}).ShouldProcess(c.workID(it.W), c.upkeepID(it.W), c.trigger(it.W, it.Blk))
		}
		before := make([]bool, len(op.Items))
		ps := make([]common.UpkeepPayload, len(op.Items))
		for i, it := range op.Items {
			before[i] = sp(it)
			ps[i] = common.UpkeepPayload{UpkeepID: c.upkeepID(it.W), Trigger: c.trigger(it.W, it.Blk), WorkID: c.workID(it.W)}
		}
		w.mu.Lock()
		w.checked = nil
		w.mu.Unlock()
		if op.Kind == "offerlog" {
			w.node.Logs.Push(ps...)
		} else {
			w.node.Recov.Push(ps...)
		}
		time.Sleep(1100 * time.Millisecond)
		synctest.Wait()
		stable := true
		for i, it := range op.Items {
			stable = stable && sp(it) == before[i]
		}
		w.mu.Lock()
		got := append([]common.UpkeepPayload(nil), w.checked...)
		w.mu.Unlock()
		if stable {
			var ids []string
			var blks []uint64
			for _, p := range got {
				ids, blks = append(ids, p.WorkID), append(blks, uint64(p.Trigger.BlockNumber))
			}
			w.emit(fmt.Sprintf("(%s, OPre %s, RL %s)", now, CoqList(op.Items, c.coqItem), w.itemsOut(ids, blks, op.Items)))
		}
	case "should":
		it := op.Items[0]
		r := w.coord.(interface {
			ShouldProcess(string, common.UpkeepIdentifier, common.Trigger) bool
		}).ShouldProcess(c.workID(it.W), c.upkeepID(it.W), c.trigger(it.W, it.Blk))
		w.emit(fmt.Sprintf("(%s, OShould (%s), RB %s)", now, c.coqItem(it), CoqBool(r)))
	case "pre":
		ps := make([]common.UpkeepPayload, len(op.Items))
		for i, it := range op.Items {
			ps[i] = common.UpkeepPayload{UpkeepID: c.upkeepID(it.W), Trigger: c.trigger(it.W, it.Blk), WorkID: c.workID(it.W)}
		}
		out, err := w.coord.PreProcess(context.Background(), ps)
		if err != nil {
			w.t.Fatal(err)
		}
		var ids []string
		var blks []uint64
		for _, p := range out {
			ids, blks = append(ids, p.WorkID), append(blks, uint64(p.Trigger.BlockNumber))
		}
		w.emit(fmt.Sprintf("(%s, OPre %s, RL %s)", now, CoqList(op.Items, c.coqItem), w.itemsOut(ids, blks, op.Items)))
	case "fres", "hookstaging":
		rs := make([]common.CheckResult, len(op.Items))
		for i, it := range op.Items {
			rs[i] = common.CheckResult{UpkeepID: c.upkeepID(it.W), Trigger: c.trigger(it.W, it.Blk), WorkID: c.workID(it.W), Eligible: true, GasAllocated: 1, PerformData: []byte{1}}
		}
		var out []common.CheckResult
		if op.Kind == "fres" {
			var err error
			out, err = w.coord.FilterResults(rs)
			if err != nil {
				w.t.Fatal(err)
			}
		} else {
			// the observation hook over a real result store and the real coordinator
			store := stores.New(w.logger)
			store.Add(rs...)
			hook := hooks.NewAddFromStagingHook(store, w.coord, w.logger)
			obs := &ocr2keepers.AutomationObservation{}
			if err := hook.RunHook(obs, 1000, [16]byte{1, 2, 3}); err != nil {
				w.t.Fatal(err)
			}
			out = obs.Performable
			sortByInput(out, func(r common.CheckResult) string { return r.WorkID }, op.Items, c)
		}
		var ids []string
		var blks []uint64
		for _, p := range out {
			ids, blks = append(ids, p.WorkID), append(blks, uint64(p.Trigger.BlockNumber))
		}
		w.emit(fmt.Sprintf("(%s, OFRes %s, RL %s)", now, CoqList(op.Items, c.coqItem), w.itemsOut(ids, blks, op.Items)))
	case "fprop", "hookprop":
		if op.Kind == "hookprop" {
			// the metadata store keeps proposals of the two known upkeep types only
			var known []cItem
			for _, it := range op.Items {
				if c.Ws[it.W].Type <= 1 {
					known = append(known, it)
				}
			}
			op.Items = known
		}
		ps := make([]common.CoordinatedBlockProposal, len(op.Items))
		for i, it := range op.Items {
			ps[i] = common.CoordinatedBlockProposal{UpkeepID: c.upkeepID(it.W), Trigger: c.trigger(it.W, it.Blk), WorkID: c.workID(it.W)}
		}
		var out []common.CoordinatedBlockProposal
		if op.Kind == "fprop" {
			var err error
			out, err = w.coord.FilterProposals(ps)
			if err != nil {
				w.t.Fatal(err)
			}
		} else {
			// both proposal hooks over a real metadata store and the real coordinator
			ms, err := stores.NewMetadataStore(NewFakeBlocks(), simutil.GetUpkeepType)
			if err != nil {
				w.t.Fatal(err)
			}
			ms.AddProposals(ps...)
			obs := &ocr2keepers.AutomationObservation{}
			h1 := hooks.NewAddLogProposalsHook(ms, w.coord, w.logger)
			h2 := hooks.NewAddConditionalProposalsHook(ms, w.coord, w.logger)
			if err := h1.RunHook(obs, 1000, [16]byte{4, 5}); err != nil {
				w.t.Fatal(err)
			}
			if err := h2.RunHook(obs, 1000, [16]byte{4, 5}); err != nil {
				w.t.Fatal(err)
			}
			out = obs.UpkeepProposals
			sortByInput(out, func(p common.CoordinatedBlockProposal) string { return p.WorkID }, op.Items, c)
		}
		var ids []string
		var blks []uint64
		for _, p := range out {
			ids, blks = append(ids, p.WorkID), append(blks, uint64(p.Trigger.BlockNumber))
		}
		w.emit(fmt.Sprintf("(%s, OFProp %s, RL %s)", now, CoqList(op.Items, c.coqItem), w.itemsOut(ids, blks, op.Items)))
		if op.Kind == "hookprop" {
			// the same hooks with the production limits (5 per trigger type): whatever they select must still be allowed by
			// the coordinator - recorded as "filtering exactly the selected proposals keeps every one of them"
			ms, err := stores.NewMetadataStore(NewFakeBlocks(), simutil.GetUpkeepType)
			if err != nil {
				w.t.Fatal(err)
			}
			ms.AddProposals(ps...)
			obs := &ocr2keepers.AutomationObservation{}
			l1 := hooks.NewAddLogProposalsHook(ms, w.coord, w.logger)
			l2 := hooks.NewAddConditionalProposalsHook(ms, w.coord, w.logger)
			if err := l1.RunHook(obs, ocr2keepers.ObservationLogRecoveryProposalsLimit, [16]byte{4, 5}); err != nil {
				w.t.Fatal(err)
			}
			if err := l2.RunHook(obs, ocr2keepers.ObservationConditionalsProposalsLimit, [16]byte{4, 5}); err != nil {
				w.t.Fatal(err)
			}
			lim := obs.UpkeepProposals
			sortByInput(lim, func(p common.CoordinatedBlockProposal) string { return p.WorkID }, op.Items, c)
			var sub []cItem
			used := make([]bool, len(op.Items))
			var lids []string
			var lblks []uint64
			for _, p := range lim {
				lids, lblks = append(lids, p.WorkID), append(lblks, uint64(p.Trigger.BlockNumber))
				for j, it := range op.Items {
					if !used[j] && c.workID(it.W) == p.WorkID && it.Blk == uint64(p.Trigger.BlockNumber) {
						used[j] = true
						sub = append(sub, it)
						break
					}
				}
			}
			if len(sub) != len(lim) {
				sub = op.Items // a foreign element: let itemsOut flag it
			}
			w.emit(fmt.Sprintf("(%s, OFProp %s, RL %s)", now, CoqList(sub, c.coqItem), w.itemsOut(lids, lblks, sub)))
		}
	default:
		w.t.Fatalf("unknown op kind %q", op.Kind)
	}
}

// sortByInput orders hook output (whose order is a keyed shuffle) by the position of the work id in the input.
func sortByInput[T any](out []T, wid func(T) string, in []cItem, c *cCase) {
	pos := map[string]int{}
	for j, it := range in {
		if _, ok := pos[c.workID(it.W)]; !ok {
			pos[c.workID(it.W)] = j
		}
	}
	sort.SliceStable(out, func(a, b int) bool { return pos[wid(out[a])] < pos[wid(out[b])] })
}

func runCase(t *testing.T, c *cCase) {
	c.Observed = nil
	synctest.Test(t, func(t *testing.T) {
		w := &world{t: t, c: c, t0: time.Now(), logger: log.New(io.Discard, "", 0)}
		w.start()
		for _, op := range c.Ops {
			w.doOp(op)
		}
		w.stop()
		c.Observed = w.hist
	})
}

func (c *cCase) term() string {
	return fmt.Sprintf("mkCCase (mkCC %s %s) [%s]", CoqZ(c.WindowMs*1_000_000), CoqZ(int64(c.MinConf)), strings.Join(c.Observed, ";\n     "))
}

// ---------------------------------------------------------------- race cases (finding 11)

// gateWriter is the coordinator's log sink.  checkEvents logs "Got event in transaction ..."
// between its cache Get and its cache Set; when armed, the writer parks the poller right there
// until the racing Accept has returned (pinned code) or, when Accept is blocked on the
// coordinator's mutex (repaired code), until a bounded number of yields has passed.
type gateWriter struct {
	armed   atomic.Bool
	entered chan struct{}
	done    atomic.Bool
}

func (g *gateWriter) Write(p []byte) (int, error) {
	if g.armed.Load() && bytes.Contains(p, []byte("Got event in transaction")) {
		g.armed.Store(false)
		close(g.entered)
		for i := 0; i < 300000 && !g.done.Load(); i++ {
			runtime.Gosched()
		}
	}
	return len(p), nil
}

type raceCase struct {
	Family   string `json:"family"`
	WindowMs int64  `json:"window_ms"`
	MinConf  int    `json:"min_conf"`
	Type     uint8  `json:"type"`
	B1       uint64 `json:"b1"`
	Ev       cEvent `json:"ev"`
	B2       uint64 `json:"b2"`
	// observed
	Observed map[string]any `json:"observed,omitempty"`
	ea, ae   string
	acc      bool
	probe    bool
}

func runRace(t *testing.T, rc *raceCase) {
	c := &cCase{WindowMs: rc.WindowMs, MinConf: rc.MinConf, Ws: []cWid{{Type: rc.Type, N: 1}}}
	synctest.Test(t, func(t *testing.T) {
		gw := &gateWriter{entered: make(chan struct{})}
		prov := &scriptedEvents{}
		co := coordinator.NewCoordinator(prov, simutil.GetUpkeepType,
			config.OffchainConfig{PerformLockoutWindow: rc.WindowMs, MinConfirmations: rc.MinConf}, log.New(gw, "", 0))
		t0 := time.Now()
		go func() { _ = co.Start(context.Background()) }()
		synctest.Wait()
		time.Sleep(300 * time.Millisecond)
		rel := func() string { return CoqZ(int64(time.Since(t0))) }
		ta := rel()
		a1 := co.Accept(c.reported(0, rc.B1))
		prov.set([]common.TransmitEvent{c.transmitEvent(rc.Ev)}, []cEvent{rc.Ev}, 1)
		gw.armed.Store(true)
		<-gw.entered // the poller has read the record and is parked before its Set
		tr := rel()
		acc := co.Accept(c.reported(0, rc.B2))
		gw.done.Store(true)
		synctest.Wait()
		time.Sleep(100 * time.Millisecond)
		tq := rel()
		st2 := co.ShouldTransmit(c.reported(0, rc.B2))
		st1 := co.ShouldTransmit(c.reported(0, rc.B1))
		probe := co.Accept(c.reported(0, rc.B2))
		_ = co.Close()
		synctest.Wait()
		first := fmt.Sprintf("(%s, OAccept 1 %d, RB %s)", ta, rc.B1, CoqBool(a1))
		ev := fmt.Sprintf("(%s, OEvents [%s], RU)", tr, coqEvent(rc.Ev))
		ac := fmt.Sprintf("(%s, OAccept 1 %d, RB %s)", tr, rc.B2, CoqBool(acc))
		tail := fmt.Sprintf("(%s, OTransmit 1 %d, RB %s); (%s, OTransmit 1 %d, RB %s); (%s, OAccept 1 %d, RB %s)",
			tq, rc.B2, CoqBool(st2), tq, rc.B1, CoqBool(st1), tq, rc.B2, CoqBool(probe))
		rc.ea = "[" + first + "; " + ev + "; " + ac + "; " + tail + "]"
		rc.ae = "[" + first + "; " + ac + "; " + ev + "; " + tail + "]"
		rc.acc, rc.probe = acc, probe
		rc.Observed = map[string]any{"accept1": a1, "racing_accept": acc, "transmit_b2": st2, "transmit_b1": st1, "probe_accept_b2": probe}
	})
}

func (rc *raceCase) term() string {
	return fmt.Sprintf("mkRace (mkCC %s %s)\n    %s\n    %s\n    (Some (mkE %d true 0 0)) (%s) %d %s %s",
		CoqZ(rc.WindowMs*1_000_000), CoqZ(int64(rc.MinConf)), rc.ea, rc.ae, rc.B1, coqEvent(rc.Ev), rc.B2, CoqBool(rc.acc), CoqBool(rc.probe))
}

func raceFamilies() []raceCase {
	return []raceCase{
		{Family: "race-perform-same-block", WindowMs: 60000, MinConf: 0, Type: 0, B1: 10, Ev: cEvent{W: 0, Tx: 1, Type: 1, TB: 11, Conf: 5, Check: 10}, B2: 20},
		{Family: "race-stale-same-block-log", WindowMs: 60000, MinConf: 2, Type: 1, B1: 10, Ev: cEvent{W: 0, Tx: 2, Type: 2, TB: 12, Conf: 2, Check: 10}, B2: 11},
		{Family: "race-event-between", WindowMs: 5000, MinConf: 0, Type: 0, B1: 10, Ev: cEvent{W: 0, Tx: 3, Type: 1, TB: 16, Conf: 0, Check: 15}, B2: 20},
		{Family: "race-event-newer-than-accept", WindowMs: 60000, MinConf: 0, Type: 0, B1: 10, Ev: cEvent{W: 0, Tx: 4, Type: 1, TB: 31, Conf: 1, Check: 30}, B2: 20},
		{Family: "race-accept-not-higher", WindowMs: 60000, MinConf: 0, Type: 0, B1: 10, Ev: cEvent{W: 0, Tx: 5, Type: 1, TB: 11, Conf: 1, Check: 10}, B2: 10},
	}
}

// ---------------------------------------------------------------- boundary families

const sec = int64(time.Second)
const ms = int64(time.Millisecond)

func sl(d int64) cOp                 { return cOp{Kind: "sleep", D: d} }
func acc(w int, b uint64) cOp        { return cOp{Kind: "accept", W: w, B: b} }
func tr(w int, b uint64) cOp         { return cOp{Kind: "transmit", W: w, B: b} }
func evs(rep int, e ...cEvent) cOp   { return cOp{Kind: "events", Evs: e, Repeat: rep} }
func flt(kind string, it ...cItem) cOp { return cOp{Kind: kind, Items: it} }
func ev(w, tx, typ int, check, tb uint64, conf int64) cEvent {
	return cEvent{W: w, Tx: tx, Type: typ, TB: tb, Conf: conf, Check: check}
}

var condLog = []cWid{{Type: 0, N: 1}, {Type: 1, N: 2}}

func allFilters(it ...cItem) []cOp {
	ops := []cOp{}
	for _, x := range it {
		ops = append(ops, flt("should", x))
	}
	return append(ops, flt("pre", it...), flt("fres", it...), flt("fprop", it...), flt("hookstaging", uniq(it)...), flt("hookprop", uniq(it)...))
}

func uniq(it []cItem) []cItem {
	seen := map[int]bool{}
	var out []cItem
	for _, x := range it {
		if !seen[x.W] {
			seen[x.W] = true
			out = append(out, x)
		}
	}
	return out
}

func cat(parts ...[]cOp) []cOp {
	var out []cOp
	for _, p := range parts {
		out = append(out, p...)
	}
	return out
}

func boundary() []cCase {
	var cs []cCase
	W := int64(5000)
	one := []cWid{{Type: 0, N: 1}}
	cs = append(cs, cCase{Family: "accept-lower-equal-higher", WindowMs: W, MinConf: 0, Ws: one, Ops: []cOp{
		acc(0, 10), tr(0, 10), acc(0, 9), acc(0, 10), tr(0, 9), tr(0, 11), acc(0, 11), tr(0, 10), tr(0, 11), acc(0, 11), acc(0, 30), tr(0, 11), tr(0, 30)}})
	cs = append(cs, cCase{Family: "perform-same-block-then-reaccept", WindowMs: W, MinConf: 1, Ws: one, Ops: []cOp{
		acc(0, 10), evs(1, ev(0, 1, 1, 10, 11, 1)), sl(1100 * ms), tr(0, 10), acc(0, 10), tr(0, 10), acc(0, 11), tr(0, 11), tr(0, 10)}})
	cs = append(cs, cCase{Family: "min-confirmations-edge", WindowMs: W, MinConf: 3, Ws: condLog, Ops: cat([]cOp{
		acc(0, 10), acc(1, 10), evs(1, ev(0, 1, 1, 10, 11, 2), ev(1, 2, 1, 10, 11, 3)), sl(1100 * ms), tr(0, 10), tr(1, 10)},
		allFilters(cItem{0, 11}, cItem{1, 11}),
		[]cOp{evs(1, ev(0, 1, 1, 10, 11, 3)), sl(1100 * ms), tr(0, 10)}, allFilters(cItem{0, 10}, cItem{0, 11}, cItem{0, 12}))})
	cs = append(cs, cCase{Family: "min-confirmations-zero-negative-conf", WindowMs: W, MinConf: 0, Ws: one, Ops: []cOp{
		acc(0, 10), evs(1, ev(0, 1, 1, 10, 11, -1)), sl(1100 * ms), tr(0, 10), evs(1, ev(0, 2, 1, 10, 11, 0)), sl(1100 * ms), tr(0, 10)}})
	cs = append(cs, cCase{Family: "older-and-newer-block-events", WindowMs: W, MinConf: 0, Ws: condLog, Ops: cat([]cOp{
		acc(0, 20), acc(1, 20), evs(1, ev(0, 1, 1, 10, 11, 1), ev(1, 2, 1, 30, 31, 1)), sl(1100 * ms),
		tr(0, 20), tr(1, 20), tr(1, 30), acc(0, 15), acc(1, 25), acc(1, 31), tr(1, 31)},
		allFilters(cItem{0, 20}, cItem{1, 31}))})
	cs = append(cs, cCase{Family: "duplicate-and-late-events", WindowMs: W, MinConf: 0, Ws: one, Ops: []cOp{
		acc(0, 10), evs(3, ev(0, 1, 2, 10, 11, 1)), sl(1100 * ms), tr(0, 10), acc(0, 12), sl(2100 * ms), tr(0, 12),
		evs(1, ev(0, 1, 2, 12, 11, 1)), sl(1100 * ms), tr(0, 12), evs(1, ev(0, 1, 2, 12, 13, 1)), sl(1100 * ms), tr(0, 12)}})
	cs = append(cs, cCase{Family: "expiry-exact-boundary", WindowMs: W, MinConf: 0, Ws: one, Ops: []cOp{
		acc(0, 10), sl(W * ms), tr(0, 10), acc(0, 9), flt("should", cItem{0, 10}), sl(1), tr(0, 10), flt("should", cItem{0, 10}), acc(0, 9), tr(0, 9), tr(0, 10)}})
	cs = append(cs, cCase{Family: "expiry-refreshed-by-event", WindowMs: W, MinConf: 0, Ws: condLog, Ops: cat([]cOp{
		acc(0, 10), acc(1, 10), sl(3000 * ms), evs(1, ev(0, 1, 1, 10, 12, 1)), sl(1500 * ms), sl(1000 * ms)},
		allFilters(cItem{0, 11}, cItem{0, 12}, cItem{1, 12}), []cOp{tr(1, 10), acc(1, 9), acc(0, 9), sl(4000 * ms)},
		allFilters(cItem{0, 11}, cItem{1, 12}), []cOp{acc(0, 9), tr(0, 9)})})
	cs = append(cs, cCase{Family: "restart-mid-history", WindowMs: W, MinConf: 0, Ws: condLog, Ops: cat([]cOp{
		acc(0, 10), acc(1, 10), tr(0, 10), {Kind: "restart"}, tr(0, 10), tr(1, 10)}, allFilters(cItem{0, 10}, cItem{1, 10}),
		[]cOp{evs(1, ev(0, 1, 1, 10, 11, 1)), sl(1100 * ms), acc(0, 10), tr(0, 10), sl(1100 * ms), tr(0, 10)})})
	for _, typ := range []int{1, 2, 3, 4, 0} {
		cs = append(cs, cCase{Family: fmt.Sprintf("lifecycle-event-type-%d", typ), WindowMs: W, MinConf: 1, Ws: condLog, Ops: cat([]cOp{
			acc(0, 10), acc(1, 10)}, allFilters(cItem{0, 10}, cItem{1, 10}),
			[]cOp{evs(2, ev(0, 1, typ, 10, 12, 1), ev(1, 2, typ, 10, 12, 4)), sl(1100 * ms)},
			allFilters(cItem{0, 11}, cItem{0, 12}, cItem{0, 13}, cItem{1, 11}, cItem{1, 12}, cItem{1, 13}),
			[]cOp{tr(0, 10), acc(0, 10), acc(1, 11), sl(W*ms + 1100*ms)},
			allFilters(cItem{0, 11}, cItem{1, 11}), []cOp{acc(0, 10)}, allFilters(cItem{0, 11}))})
	}
	cs = append(cs, cCase{Family: "unknown-upkeep-type", WindowMs: W, MinConf: 0, Ws: []cWid{{Type: 2, N: 1}, {Type: 0, N: 2}}, Ops: cat([]cOp{
		acc(0, 10)}, allFilters(cItem{0, 10}), []cOp{evs(1, ev(0, 1, 1, 10, 12, 1)), sl(1100 * ms)}, allFilters(cItem{0, 11}, cItem{0, 12}, cItem{1, 5}))})
	cs = append(cs, cCase{Family: "window-zero-never-expires", WindowMs: 0, MinConf: 0, Ws: condLog, Ops: cat([]cOp{
		acc(0, 10), acc(1, 10), sl(7200 * sec), tr(0, 10), acc(0, 10), evs(1, ev(1, 1, 1, 10, 12, 1)), sl(1100 * ms), sl(90000 * sec)},
		allFilters(cItem{0, 10}, cItem{1, 12}), []cOp{tr(0, 10), acc(1, 10)})})
	cs = append(cs, cCase{Family: "event-before-accept-then-again", WindowMs: W, MinConf: 0, Ws: one, Ops: []cOp{
		evs(1, ev(0, 1, 1, 10, 11, 1)), sl(1100 * ms), acc(0, 10), tr(0, 10), evs(1, ev(0, 1, 1, 10, 11, 1)), sl(1100 * ms), tr(0, 10)}})
	cs = append(cs, cCase{Family: "visited-outlives-record", WindowMs: W, MinConf: 0, Ws: one, Ops: []cOp{
		acc(0, 20), sl(4000 * ms), evs(1, ev(0, 1, 1, 5, 6, 1)), sl(1200 * ms), acc(0, 5), tr(0, 5), evs(1, ev(0, 1, 1, 5, 6, 1)), sl(1100 * ms), tr(0, 5),
		flt("should", cItem{0, 6})}})
	cs = append(cs, cCase{Family: "default-window-20min", WindowMs: 1200000, MinConf: 1, Ws: condLog, Ops: cat([]cOp{
		acc(0, 10), acc(1, 10), sl(600 * sec), evs(2, ev(1, 1, 1, 10, 12, 1)), sl(2100 * ms), sl(600 * sec), tr(0, 10), acc(0, 9)},
		allFilters(cItem{0, 10}, cItem{1, 12}), []cOp{sl(600 * sec)}, allFilters(cItem{0, 10}, cItem{1, 12}))})
	three := []cWid{{Type: 0, N: 1}, {Type: 1, N: 2}, {Type: 0, N: 3}}
	// the poller sees a confirmed event BEFORE the report is accepted (no record yet: ignored); the
	// provider keeps returning it, so the polls after the acceptance must apply it
	for _, mc := range []int{0, 1, 3} {
		for _, typ := range []int{1, 2, 3, 4, 0} {
			batch := []cEvent{ev(0, 1, typ, 10, 12, int64(mc)), ev(1, 2, typ, 10, 12, int64(mc)+2), ev(2, 3, typ, 10, 12, int64(mc)-1)}
			cs = append(cs, cCase{Family: fmt.Sprintf("event-polled-before-accept-type-%d-minconf-%d", typ, mc), WindowMs: W, MinConf: mc, Ws: three, Ops: cat([]cOp{
				evs(6, batch...), sl(1200 * ms), acc(0, 10), acc(1, 10), acc(2, 10), tr(0, 10), sl(2200 * ms), tr(0, 10), tr(1, 10), tr(2, 10)},
				allFilters(cItem{0, 11}, cItem{0, 12}, cItem{0, 13}, cItem{1, 12}, cItem{2, 12}),
				[]cOp{acc(0, 10), acc(0, 11), sl(3200 * ms), tr(0, 11), flt("should", cItem{0, 12})})})
		}
	}
	// the same with a record that existed but had expired when the event was first polled
	cs = append(cs, cCase{Family: "event-polled-while-expired-then-reaccept", WindowMs: 3000, MinConf: 1, Ws: condLog, Ops: cat([]cOp{
		acc(0, 10), acc(1, 10), sl(3500 * ms), evs(8, ev(0, 1, 1, 10, 12, 1), ev(1, 2, 2, 10, 12, 1)), sl(1200 * ms), acc(0, 10), acc(1, 10), tr(0, 10), sl(2200 * ms),
		tr(0, 10), tr(1, 10)}, allFilters(cItem{0, 11}, cItem{0, 12}, cItem{1, 12}))})
	// shallow re-org: the same transaction is mined in block 105 and then again in block 108 -- a
	// different event (visitedID includes the transmit block); the record must follow it
	for _, typ := range []int{1, 2} {
		for _, mc := range []int{0, 3} {
			var its []cItem
			for b := uint64(104); b <= 109; b++ {
				its = append(its, cItem{0, b}, cItem{1, b})
			}
			cs = append(cs, cCase{Family: fmt.Sprintf("reorg-same-tx-moved-transmit-block-type-%d-minconf-%d", typ, mc), WindowMs: 20000, MinConf: mc, Ws: condLog, Ops: cat([]cOp{
				acc(0, 100), acc(1, 100), evs(2, ev(0, 7, typ, 100, 105, int64(mc)), ev(1, 8, typ, 100, 105, int64(mc))), sl(2200 * ms)},
				allFilters(its...),
				[]cOp{evs(3, ev(0, 7, typ, 100, 108, int64(mc)), ev(1, 8, typ, 100, 108, int64(mc)+1)), sl(1200 * ms)},
				allFilters(its...), []cOp{tr(0, 100), acc(0, 100), sl(2200 * ms)}, allFilters(its...),
				// and back to an earlier block, then the first event once more (a re-delivery of a visited event)
				[]cOp{evs(2, ev(0, 7, typ, 100, 103, int64(mc)), ev(0, 7, typ, 100, 105, int64(mc))), sl(2200 * ms)}, allFilters(its...))})
		}
	}
	for _, up := range []bool{true, false} {
		tb1, tb2 := uint64(105), uint64(108)
		if !up {
			tb1, tb2 = 108, 105
		}
		cs = append(cs, cCase{Family: fmt.Sprintf("reorg-compact-%d-then-%d", tb1, tb2), WindowMs: 20000, MinConf: 1, Ws: one, Ops: []cOp{
			acc(0, 100), evs(1, ev(0, 7, 1, 100, tb1, 1)), sl(1200 * ms), evs(1, ev(0, 7, 1, 100, tb2, 1)), sl(1200 * ms),
			flt("pre", cItem{0, 104}, cItem{0, 105}, cItem{0, 106}, cItem{0, 107}, cItem{0, 108}, cItem{0, 109})}})
	}
	// report level through a plug-in instance (any-of)
	cs = append(cs, cCase{Family: "plugin-anyof", WindowMs: 4000, MinConf: 0, Plugin: true, Ws: three, Ops: []cOp{
		acc(0, 10), flt("acceptrep", cItem{0, 10}, cItem{1, 7}), flt("acceptrep", cItem{0, 10}, cItem{1, 7}), flt("acceptrep", cItem{0, 9}, cItem{1, 7}, cItem{2, 3}),
		flt("transmitrep", cItem{0, 10}, cItem{1, 7}), flt("transmitrep", cItem{0, 9}, cItem{1, 6}), flt("acceptrep"), flt("transmitrep"),
		evs(0, ev(0, 1, 1, 10, 11, 0), ev(1, 2, 2, 7, 8, 0)), sl(1100 * ms), flt("transmitrep", cItem{0, 10}, cItem{1, 7}, cItem{2, 3}), tr(2, 3),
		flt("acceptrep", cItem{2, 3}, cItem{2, 4}, cItem{2, 4}), flt("transmitrep", cItem{2, 3}, cItem{2, 4}), evs(0), sl(4500 * ms), flt("transmitrep", cItem{2, 4}), flt("acceptrep", cItem{0, 1}, cItem{2, 1})}})
	// reports in a mixed state: P pending, S superseded (a higher block accepted since), C confirmed,
	// N never accepted; the still-pending upkeep in every position, every subset
	five := []cWid{{Type: 0, N: 1}, {Type: 1, N: 2}, {Type: 0, N: 3}, {Type: 1, N: 4}, {Type: 0, N: 5}}
	P, S, C, P3, N := cItem{0, 10}, cItem{1, 10}, cItem{2, 10}, cItem{3, 10}, cItem{4, 10}
	setup := []cOp{flt("acceptrep", P, S, C, P3), acc(1, 12), evs(0, ev(2, 1, 1, 10, 11, 0)), sl(1200 * ms), evs(0)}
	var mixed [][]cItem
	for _, pair := range [][2]cItem{{P, S}, {P, C}, {P, N}, {P, P3}, {S, C}} {
		mixed = append(mixed, []cItem{pair[0], pair[1]}, []cItem{pair[1], pair[0]})
	}
	for _, tri := range [][3]cItem{{P, S, C}, {P, C, N}, {P, P3, S}, {S, C, N}} {
		for _, pm := range [][3]int{{0, 1, 2}, {1, 0, 2}, {1, 2, 0}, {2, 1, 0}, {0, 2, 1}, {2, 0, 1}} {
			mixed = append(mixed, []cItem{tri[pm[0]], tri[pm[1]], tri[pm[2]]})
		}
	}
	quad := []cItem{P, S, C, N}
	for rot := 0; rot < 4; rot++ {
		mixed = append(mixed, []cItem{quad[rot%4], quad[(rot+1)%4], quad[(rot+2)%4], quad[(rot+3)%4]})
	}
	mixed = append(mixed, []cItem{P, S, C, P3}, []cItem{S, P3, C, P}, []cItem{P3, P, N, S})
	var trOps []cOp
	for _, m := range mixed {
		trOps = append(trOps, flt("transmitrep", m...))
	}
	cs = append(cs, cCase{Family: "plugin-transmit-mixed-positions", WindowMs: 20000, MinConf: 0, Plugin: true, Ws: five, Ops: cat(setup, trOps)})
	// compact versions (small replays)
	cs = append(cs, cCase{Family: "plugin-transmit-pending-first-superseded-last", WindowMs: 20000, MinConf: 0, Plugin: true, Ws: three, Ops: []cOp{
		flt("acceptrep", cItem{0, 10}, cItem{1, 10}), acc(1, 12), flt("transmitrep", cItem{0, 10}, cItem{1, 10}), flt("transmitrep", cItem{1, 10}, cItem{0, 10})}})
	cs = append(cs, cCase{Family: "plugin-transmit-pending-first-confirmed-last", WindowMs: 20000, MinConf: 1, Plugin: true, Ws: three, Ops: []cOp{
		flt("acceptrep", cItem{0, 10}, cItem{1, 10}), evs(0, ev(1, 1, 1, 10, 11, 1)), sl(1200 * ms), evs(0),
		flt("transmitrep", cItem{0, 10}, cItem{1, 10}), flt("transmitrep", cItem{1, 10}, cItem{0, 10}), flt("transmitrep", cItem{2, 10}, cItem{0, 10}, cItem{1, 10})}})
	// acceptance: the acceptable upkeep in every position; every upkeep of the report is recorded, so an
	// older report for any of them is refused afterwards
	var accOps []cOp
	accOps = append(accOps, flt("acceptrep", P, S, C, P3))
	blk := uint64(20)
	for size := 2; size <= 4; size++ {
		for pos := 0; pos < size; pos++ {
			var rep []cItem
			for j := 0; j < size; j++ {
				if j == pos {
					rep = append(rep, cItem{j, blk}) // higher than awaited: acceptable
				} else {
					rep = append(rep, cItem{j, blk - 1}) // the block already awaited (accepted in an earlier round): refused
				}
			}
			accOps = append(accOps, flt("acceptrep", rep...))
			for j := 0; j < size; j++ {
				if j != pos {
					accOps = append(accOps, acc(j, blk)) // bring the others up so the next round's blk-1 is "already awaited"
				}
			}
			accOps = append(accOps, acc(pos, blk-1), tr(pos, blk)) // an older report for the accepted upkeep is refused
			blk++
		}
	}
	// several acceptable upkeeps: all are recorded, whatever their position
	accOps = append(accOps, flt("acceptrep", cItem{0, 40}, cItem{1, 5}, cItem{2, 40}, cItem{3, 40}), acc(2, 39), acc(3, 39), acc(0, 39),
		flt("transmitrep", cItem{3, 40}), flt("transmitrep", cItem{2, 40}, cItem{1, 5}), flt("acceptrep", cItem{4, 1}, cItem{3, 41}), acc(3, 40), acc(4, 1), tr(4, 1))
	cs = append(cs, cCase{Family: "plugin-accept-every-position-all-recorded", WindowMs: 20000, MinConf: 0, Plugin: true, Ws: five, Ops: accOps})
	cs = append(cs, cCase{Family: "plugin-accept-last-upkeep-recorded", WindowMs: 20000, MinConf: 0, Plugin: true, Ws: three, Ops: []cOp{
		flt("acceptrep", cItem{0, 10}, cItem{1, 10}, cItem{2, 10}), acc(2, 9), acc(1, 9), tr(2, 10), flt("acceptrep", cItem{0, 10}, cItem{2, 11}), acc(2, 10), tr(2, 11)}})
	// more proposals of one trigger type than an observation takes (5): the cut must be taken from what the coordinator
	// let through, whichever position the withheld unit has in the store's key order
	var many []cWid
	var manyItems []cItem
	for k := 0; k < 9; k++ {
		many = append(many, cWid{Type: 1, N: 40 + k})
		manyItems = append(manyItems, cItem{k, 10})
	}
	for k := 0; k < 7; k++ {
		many = append(many, cWid{Type: 0, N: 60 + k})
		manyItems = append(manyItems, cItem{9 + k, 10})
	}
	for w := 0; w < 16; w++ {
		cs = append(cs, cCase{Family: "hook-limit-many-proposals", WindowMs: 20000, MinConf: 1, Ws: many, Ops: []cOp{
			acc(w, 10), flt("hookprop", manyItems...), evs(1, ev(w, 70+w, 1, 10, 11, 1)), sl(2 * sec), flt("hookprop", manyItems...)}})
	}
	{
		cx := func(k int, o cOp) cOp { o.Cancel = k; return o }
		cs = append(cs, cCase{Family: "plugin-context-cancelled-midway", WindowMs: 20000, MinConf: 0, Plugin: true, Ws: five, Ops: []cOp{
			cx(1, flt("acceptrep", cItem{0, 10}, cItem{1, 10}, cItem{2, 10})), tr(0, 10), tr(1, 10), tr(2, 10),
			cx(1, flt("transmitrep", cItem{3, 7}, cItem{0, 10})), cx(2, flt("transmitrep", cItem{3, 7}, cItem{4, 7}, cItem{1, 10})),
			cx(2, flt("acceptrep", cItem{0, 10}, cItem{1, 9}, cItem{3, 12}, cItem{4, 12})), tr(3, 12), tr(4, 12),
			cx(3, flt("acceptrep", cItem{0, 11}, cItem{1, 11}, cItem{2, 11})), flt("transmitrep", cItem{2, 11}), flt("transmitrep", cItem{0, 11}, cItem{1, 11})}})
	}
	// the flows of the plug-in pre-process with the coordinator: work in flight (and performed log work) offered again by
	// the log provider or the recoverable provider does not reach the check pipeline
	cs = append(cs, cCase{Family: "plugin-flows-withhold-in-flight", WindowMs: 20000, MinConf: 0, Plugin: true, Ws: five, Ops: []cOp{
		flt("acceptrep", cItem{1, 10}), flt("offerrecov", cItem{1, 10}, cItem{3, 10}), flt("offerlog", cItem{1, 11}, cItem{3, 11}),
		evs(0, ev(1, 90, 1, 10, 12, 1)), sl(2 * sec), evs(0),
		flt("offerrecov", cItem{1, 12}, cItem{3, 12}), flt("offerlog", cItem{3, 13}, cItem{1, 13}),
		flt("acceptrep", cItem{3, 13}, cItem{0, 13}), flt("offerrecov", cItem{3, 14}, cItem{1, 14}),
		evs(0, ev(3, 91, 2, 13, 15, 1)), sl(2 * sec), evs(0), flt("offerlog", cItem{3, 15}), flt("offerrecov", cItem{3, 16}, cItem{1, 16})}})
	cs = append(cs, cCase{Family: "plugin-restart", WindowMs: 3000, MinConf: 1, Plugin: true, Ws: three, Ops: []cOp{
		flt("acceptrep", cItem{0, 5}, cItem{1, 5}), tr(0, 5), {Kind: "restart"}, flt("transmitrep", cItem{0, 5}, cItem{1, 5}), flt("acceptrep", cItem{1, 5}), flt("transmitrep", cItem{0, 5}, cItem{1, 5})}})
	return cs
}

// ---------------------------------------------------------------- random histories

func randomCase(r *Rng, emphasizeFilters bool) cCase {
	c := cCase{Family: "random"}
	c.WindowMs = []int64{3000, 5000, 20000, 90000, 1200000, 0}[r.Intn(6)]
	c.MinConf = []int{0, 1, 3}[r.Intn(3)]
	nw := 1 + r.Intn(4)
	for i := 0; i < nw; i++ {
		ty := uint8(r.Intn(2))
		if r.Chance(1, 12) {
			ty = 2
		}
		c.Ws = append(c.Ws, cWid{Type: ty, N: i + 1})
	}
	if r.Chance(1, 5) && c.WindowMs > 0 && c.WindowMs <= 20000 {
		c.Plugin = true
		for nw < 3 {
			c.Ws = append(c.Ws, cWid{Type: uint8(r.Intn(2)), N: nw + 1})
			nw++
		}
	}
	cur := make([]uint64, nw)  // generator's idea of the awaited block
	lastTB := make([]uint64, nw)
	for i := range cur {
		cur[i] = uint64(5 + r.Intn(20))
		lastTB[i] = cur[i] + 1
	}
	tx := 0
	var pastEv []cEvent
	n := 5 + r.Intn(56)
	W := c.WindowMs * ms
	if W == 0 {
		W = 3600 * sec
	}
	item := func() cItem {
		w := r.Intn(nw)
		return cItem{W: w, Blk: uint64(int64(lastTB[w]) + int64(r.Intn(3)) - 1)}
	}
	items := func(distinct bool) []cItem {
		k := 1 + r.Intn(5)
		var out []cItem
		for i := 0; i < k; i++ {
			out = append(out, item())
		}
		if distinct {
			out = uniq(out)
		}
		return out
	}
	for len(c.Ops) < n {
		w := r.Intn(nw)
		k := r.Intn(100)
		if !c.Plugin && r.Chance(1, 14) {
			// accepted, performed, then the same transaction is mined again in another block (re-org)
			tx++
			cur[w] += uint64(1 + r.Intn(3))
			typ := []int{1, 1, 1, 2, 3}[r.Intn(5)]
			e1 := ev(w, tx, typ, cur[w], cur[w]+uint64(2+r.Intn(3)), int64(c.MinConf)+int64(r.Intn(2)))
			e2 := e1
			e2.TB = uint64(int64(e1.TB) + int64([]int{1, 2, 3, -1}[r.Intn(4)]))
			lastTB[w] = e2.TB
			pastEv = append(pastEv, e1, e2)
			c.Ops = append(c.Ops, acc(w, cur[w]), evs(1+r.Intn(2), e1), sl(int64(1+r.Intn(2))*sec+int64(100+r.Intn(800))*ms),
				evs(1+r.Intn(3), e2), sl(int64(1+r.Intn(2))*sec+int64(100+r.Intn(800))*ms),
				flt([]string{"pre", "fres"}[r.Intn(2)], cItem{W: w, Blk: e1.TB - 1}, cItem{W: w, Blk: e1.TB}, cItem{W: w, Blk: e2.TB - 1}, cItem{W: w, Blk: e2.TB}, cItem{W: w, Blk: e2.TB + 1}))
			continue
		}
		if !c.Plugin && r.Chance(1, 14) {
			// an event that is on chain before this node accepts the report and stays in the provider's list
			tx++
			cur[w] += uint64(1 + r.Intn(3))
			e := ev(w, tx, []int{1, 1, 2, 3, 4, 0}[r.Intn(6)], cur[w], cur[w]+uint64(1+r.Intn(3)), int64(c.MinConf)+int64([]int{0, 0, 1, -1}[r.Intn(4)]))
			lastTB[w] = e.TB
			pastEv = append(pastEv, e)
			c.Ops = append(c.Ops, evs(3+r.Intn(5), e), sl(int64(1+r.Intn(2))*sec+int64(r.Intn(900))*ms), acc(w, cur[w]),
				sl(int64(1+r.Intn(3))*sec+int64(r.Intn(900))*ms), tr(w, cur[w]), flt([]string{"should", "pre", "fres", "fprop"}[r.Intn(4)], cItem{W: w, Blk: uint64(int64(e.TB) + int64(r.Intn(3)) - 1)}))
			continue
		}
		if emphasizeFilters && r.Bool() {
			k = 56 + r.Intn(29) // one of the filter / hook operations
		}
		switch {
		case k < 18:
			b := uint64(int64(cur[w]) + int64(r.Intn(6)) - 2)
			if b > cur[w] {
				cur[w] = b
			}
			c.Ops = append(c.Ops, acc(w, b))
		case k < 34:
			c.Ops = append(c.Ops, tr(w, uint64(int64(cur[w])+int64([]int{0, 0, 0, 0, -1, 1}[r.Intn(6)]))))
		case k < 48 && c.Plugin || k < 36:
			// a report over 2-4 distinct work ids (sometimes 0-1), in random order, blocks around the awaited one
			size := 2 + r.Intn(3)
			if r.Chance(1, 6) {
				size = r.Intn(2)
			}
			if size > nw {
				size = nw
			}
			kind := "acceptrep"
			if r.Chance(3, 5) {
				kind = "transmitrep"
			}
			var its []cItem
			for _, x := range r.Perm(nw)[:size] {
				d := []int{0, 0, 0, -1, 1, 2}[r.Intn(6)]
				if kind == "acceptrep" {
					d = []int{0, 0, 1, 1, 2, -1}[r.Intn(6)]
				}
				b := uint64(int64(cur[x]) + int64(d))
				its = append(its, cItem{W: x, Blk: b})
				if kind == "acceptrep" && b > cur[x] {
					cur[x] = b
				}
			}
			o := flt(kind, its...)
			if c.Plugin && len(its) >= 2 && r.Chance(1, 4) {
				o.Cancel = 1 + r.Intn(len(its))
			}
			c.Ops = append(c.Ops, o)
		case k < 56:
			var batch []cEvent
			for i := 0; i < 1+r.Intn(3); i++ {
				x := r.Intn(nw)
				if r.Chance(1, 4) && len(pastEv) > 0 {
					e := pastEv[r.Intn(len(pastEv))]
					if r.Chance(1, 3) {
						e.Conf = int64(c.MinConf) + int64(r.Intn(3))
					}
					if r.Chance(1, 2) {
						// the transaction was mined again in another block (re-org)
						e.TB = uint64(int64(e.TB) + int64([]int{1, 2, 3, -1}[r.Intn(4)]))
						lastTB[e.W] = e.TB
						pastEv = append(pastEv, e)
					}
					batch = append(batch, e)
					continue
				}
				tx++
				check := uint64(int64(cur[x]) + int64([]int{0, 0, 0, 0, -1, 1, 4}[r.Intn(7)]))
				typ := []int{1, 1, 1, 2, 3, 4, 0}[r.Intn(7)]
				conf := int64(c.MinConf) + int64([]int{0, 1, 2, -1, 0, 5}[r.Intn(6)])
				e := ev(x, tx, typ, check, check+uint64(1+r.Intn(3)), conf)
				lastTB[x] = e.TB
				batch = append(batch, e)
				pastEv = append(pastEv, e)
			}
			rep := 1 + r.Intn(3)
			if c.Plugin {
				rep = 0
			}
			c.Ops = append(c.Ops, evs(rep, batch...), sl(int64(1+r.Intn(3))*sec+int64(r.Intn(900))*ms))
			if c.Plugin {
				c.Ops = append(c.Ops, evs(0))
			}
		case k < 59 && c.Plugin:
			// offered again by a provider of the plug-in: log-type work only
			var its []cItem
			for x := 0; x < nw && len(its) < 3; x++ {
				if c.Ws[x].Type == 1 && r.Chance(2, 3) {
					its = append(its, cItem{W: x, Blk: uint64(int64(cur[x]) + int64(r.Intn(4)) - 1)})
				}
			}
			if len(its) > 0 {
				c.Ops = append(c.Ops, flt([]string{"offerlog", "offerrecov"}[r.Intn(2)], its...))
			}
		case k < 62:
			c.Ops = append(c.Ops, flt("should", item()))
		case k < 68:
			c.Ops = append(c.Ops, flt("pre", items(false)...))
		case k < 73:
			c.Ops = append(c.Ops, flt("fres", items(false)...))
		case k < 79:
			c.Ops = append(c.Ops, flt("fprop", items(false)...))
		case k < 82:
			c.Ops = append(c.Ops, flt("hookstaging", items(true)...))
		case k < 85:
			c.Ops = append(c.Ops, flt("hookprop", items(true)...))
		case k < 97:
			var d int64
			switch r.Intn(8) {
			case 0:
				d = 100 * ms
			case 1:
				d = 700 * ms
			case 2:
				d = sec
			case 3:
				d = 2500 * ms
			case 4:
				d = W / 2
			case 5:
				d = W - 1*ms
			case 6:
				d = W
			default:
				d = W + 1
			}
			if c.Plugin && d > 30*sec {
				d = 30 * sec
			}
			c.Ops = append(c.Ops, sl(d))
		default:
			c.Ops = append(c.Ops, cOp{Kind: "restart"})
		}
	}
	return c
}

// ---------------------------------------------------------------- tests

func genCases(t *testing.T, prop string, emphasizeFilters bool) []cCase {
	if rf := ReplayFile(); rf != "" {
		return LoadReplayCases[cCase](t, rf)
	}
	var cases []cCase
	cases = append(cases, LoadCorpus[cCase](t, prop)...)
	cases = append(cases, boundary()...)
	seed := EnvSeed()
	if emphasizeFilters {
		seed += 7777
	}
	r := NewRng(seed)
	n := EnvInt("VERIF_N", 400)
	for i := 0; i < n; i++ {
		cases = append(cases, randomCase(r, emphasizeFilters))
	}
	return cases
}

func writeHistories(t *testing.T, prop string, cases []cCase, bad, nontriv string) {
	dir := OutDir(t, prop)
	cf := NewCaseFile(prop, "Model.Coordinator")
	fam := map[string]int{}
	sizes := map[string]int{}
	kinds := map[string]int{}
	for i := range cases {
		runCase(t, &cases[i])
		cf.Add(cases[i].term())
		fam[cases[i].Family]++
		sizes[fmt.Sprintf("%d", len(cases[i].Observed)/10*10)]++
		for _, op := range cases[i].Ops {
			kinds[op.Kind]++
		}
		kinds[fmt.Sprintf("window_ms=%d", cases[i].WindowMs)]++
		kinds[fmt.Sprintf("min_conf=%d", cases[i].MinConf)]++
		for _, w := range cases[i].Ws {
			kinds[fmt.Sprintf("upkeep_type=%d", w.Type)]++
		}
	}
	cf.Prelude = "Open Scope Z_scope."
	cf.Write(t, dir, "cases.v", "c_case", [][2]string{
		{"mism", "find_idx cc_mism cases"},
		{"bad", "find_idx " + bad + " cases"},
		{"nontriv", "find_idx " + nontriv + " cases"},
		{"cov_determined", "cov4_sum (map cc_cov cases)"},
	})
	WriteJSON(t, filepath.Join(dir, "cases.json"), map[string]any{
		"property": prop, "seed": EnvSeed(), "cases": cases, "families": fam, "sizes": sizes, "distribution": kinds,
	})
}

// replayIsRace tells whether the replay file holds race cases (written by the driver from cases_race.json).
func replayIsRace() bool {
	rf := ReplayFile()
	if rf == "" {
		return false
	}
	b, err := os.ReadFile(rf)
	if err != nil {
		return false
	}
	var hdr struct {
		CaseFile string `json:"case_file"`
	}
	_ = json.Unmarshal(b, &hdr)
	return hdr.CaseFile == "cases_race"
}

func TestC06(t *testing.T) {
	races := raceFamilies()
	if replayIsRace() {
		races = LoadReplayCases[raceCase](t, ReplayFile())
	} else {
		cases := genCases(t, "C06", false)
		writeHistories(t, "C06", cases, "cc_bad06", "cc_nontriv")
		if ReplayFile() != "" {
			return
		}
	}
	// racing poller (finding 11): deterministic interleaving through the coordinator's log sink
	dir := OutDir(t, "C06")
	cf := NewCaseFile("C06", "Model.Coordinator")
	for i := range races {
		runRace(t, &races[i])
		cf.Add(races[i].term())
	}
	cf.Prelude = "Open Scope Z_scope."
	cf.Write(t, dir, "cases_race.v", "race_case", [][2]string{
		{"mism", "find_idx (fun k => race_mism k || race_fine_mism k) cases"},
		{"bad", "find_idx race_bad cases"},
		{"nontriv", "find_idx (fun k => rc_acc k) cases"},
		{"cov_lost_acceptance", "find_idx race_lost cases"},
	})
	WriteJSON(t, filepath.Join(dir, "cases_race.json"), map[string]any{"property": "C06", "cases": races})
	if ReplayFile() != "" {
		return
	}
	writeDirect(t, "C06", true)
}

// getRaces: an expired record is read by a filter (cache.Get without the coordinator's mutex) while
// Accept stores a fresh record for the same work id; afterwards the fresh record must still be there
// (ShouldTransmit true, ShouldProcess false).  The real coordinator runs in a synctest bubble: the two
// calls race in real parallelism, but the clock is virtual, so the verdict involves no timing assumption.
func getRaces(t *testing.T, n int) (lostTransmit, lostPending int) {
	c := &cCase{WindowMs: 1000, Ws: []cWid{{Type: 0, N: 1}, {Type: 1, N: 2}}}
	synctest.Test(t, func(t *testing.T) {
		co := coordinator.NewCoordinator(&scriptedEvents{}, simutil.GetUpkeepType,
			config.OffchainConfig{PerformLockoutWindow: c.WindowMs, MinConfirmations: 0}, log.New(io.Discard, "", 0))
		for i := 0; i < n; i++ {
			w := i % 2
			blk := uint64(10 + i%7)
			co.Accept(c.reported(w, 50))
			time.Sleep(1500 * time.Millisecond) // virtual: the record is now expired, not collected
			const readers = 3
			var wg sync.WaitGroup
			var ready atomic.Int32
			barrier := func() {
				ready.Add(1)
				for ready.Load() < readers+1 {
				}
			}
			wg.Add(readers + 1)
			for g := 0; g < readers; g++ {
				go func() {
					defer wg.Done()
					barrier()
					switch (i + g) % 3 {
					case 0:
						co.ShouldProcess(c.workID(w), c.upkeepID(w), c.trigger(w, blk))
					case 1:
						_, _ = co.FilterResults([]common.CheckResult{{UpkeepID: c.upkeepID(w), Trigger: c.trigger(w, blk), WorkID: c.workID(w)}})
					default:
						_, _ = co.FilterProposals([]common.CoordinatedBlockProposal{{UpkeepID: c.upkeepID(w), Trigger: c.trigger(w, blk), WorkID: c.workID(w)}})
					}
				}()
			}
			go func() { defer wg.Done(); barrier(); co.Accept(c.reported(w, blk)) }()
			wg.Wait()
			if !co.ShouldTransmit(c.reported(w, blk)) {
				lostTransmit++
			}
			if co.ShouldProcess(c.workID(w), c.upkeepID(w), c.trigger(w, blk)) {
				lostPending++
			}
			time.Sleep(1500 * time.Millisecond)
		}
	})
	return
}

// cacheGetRaces: the same on util.Cache with the real clock: Get of an expired item racing a Set of a
// fresh one (1 h expiry, so the verdict does not depend on timing).
func cacheGetRaces(n int) int {
	lost := 0
	for i := 0; i < n; i++ {
		c := util.NewCache[int](time.Hour)
		c.Set("k", 1, time.Nanosecond)
		time.Sleep(time.Microsecond)
		const readers = 3
		var wg sync.WaitGroup
		var ready atomic.Int32
		barrier := func() {
			ready.Add(1)
			for ready.Load() < readers+1 {
			}
		}
		wg.Add(readers + 1)
		for g := 0; g < readers; g++ {
			go func() { defer wg.Done(); barrier(); c.Get("k") }()
		}
		go func() { defer wg.Done(); barrier(); c.Set("k", 2, time.Hour) }()
		wg.Wait()
		if v, ok := c.Get("k"); !ok || v != 2 {
			lost++
		}
	}
	return lost
}

func writeDirect(t *testing.T, prop string, withGC bool) {
	dir := OutDir(t, prop)
	n := EnvInt("VERIF_GET_RACES", 20000)
	lostT, lostP := getRaces(t, n)
	lostC := cacheGetRaces(n)
	var viol []map[string]any
	if lostT > 0 || lostP > 0 || lostC > 0 {
		viol = append(viol, map[string]any{"what": "a record stored by Accept/Set while a concurrent cache.Get was reading the expired predecessor was lost " +
			"(accepted, unconfirmed work: ShouldTransmit false / ShouldProcess true)",
			"should_transmit_false": lostT, "should_process_true": lostP, "cache_item_lost": lostC, "races": n})
	}
	evals, dist := 2*n, map[string]int{"get_vs_accept_races": n, "cache_get_vs_set_races": n}
	sample := map[string]any{"get_races": n, "should_transmit_false": lostT, "should_process_true": lostP, "cache_item_lost": lostC}
	if withGC {
		// two-phase garbage collection racing a Set: a fresh item must survive ClearExpired
		g := EnvInt("VERIF_GC_RACES", 25000)
		lost := gcRaces(g)
		if lost > 0 {
			viol = append(viol, map[string]any{"what": "util.Cache.ClearExpired deleted an item that was Set after it had collected the expired keys",
				"lost": lost, "races": g, "theorem": "C06_gc_recheck_invisible"})
		}
		evals += g
		dist["gc_races"] = g
		sample["gc_races"], sample["fresh_items_lost_to_gc"] = g, lost
	}
	WriteJSON(t, filepath.Join(dir, "direct.json"), map[string]any{
		"evaluations": evals, "nontrivial_keys": []string{"get-race", "gc-race"}, "violations": viol, "known": map[string]any{},
		"samples": []any{sample}, "distribution": dist,
	})
}

// gcRaces runs n races between ClearExpired (40 expired keys to collect) and a Set that replaces one of
// them with a fresh item, on the real util.Cache with the real clock; returns how often the fresh item was lost.
func gcRaces(n int) int {
	lost := 0
	for i := 0; i < n; i++ {
		c := util.NewCache[int](time.Hour)
		c.Set("k", 1, time.Nanosecond)
		for j := 0; j < 40; j++ {
			c.Set(string(rune('a'+j)), 1, time.Nanosecond)
		}
		time.Sleep(time.Microsecond)
		var wg sync.WaitGroup
		wg.Add(2)
		go func() { defer wg.Done(); c.ClearExpired() }()
		go func() { defer wg.Done(); c.Set("k", 2, time.Hour) }()
		wg.Wait()
		if _, ok := c.Get("k"); !ok {
			lost++
		}
	}
	return lost
}

func TestC07(t *testing.T) {
	cases := genCases(t, "C07", true)
	writeHistories(t, "C07", cases, "cc_bad07", "cc_nontriv07")
	if ReplayFile() == "" {
		// the in-flight record the filters read lives in the same cache: a record lost to the collector releases work that
		// is still in flight, so the collector races belong to C07 as much as to C06
		writeDirect(t, "C07", true)
	}
}
