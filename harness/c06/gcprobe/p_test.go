package gcprobe

import (
	"sync"
	"testing"
	"time"

	"github.com/smartcontractkit/chainlink-automation/pkg/util"
)

func TestGCRace(t *testing.T) {
	lost := 0
	const N = 300000
	for i := 0; i < N; i++ {
		c := util.NewCache[int](time.Hour)
		c.Set("k", 1, time.Nanosecond)
		for j := 0; j < 40; j++ {
			c.Set(string(rune('a'+j)), 1, time.Nanosecond)
		}
		time.Sleep(time.Microsecond)
		var wg sync.WaitGroup
		wg.Add(2)
		go func() { defer wg.Done(); c.ClearExpired() }()
		go func() { defer wg.Done(); c.Set("k", 2, time.Hour) }()
		wg.Wait()
		if _, ok := c.Get("k"); !ok {
			lost++
		}
	}
	t.Logf("fresh entry deleted by ClearExpired: %d of %d", lost, N)
}
