// Package c09 runs n real plug-in instances (public factory, real flows/stores/coordinator) inside one
// testing/synctest bubble; the harness plays libocr: it picks the observation subsets, injects
// Byzantine bytes, restarts nodes, delivers transmit events late / duplicated / as stale events.
package c09

import (
	"os"
	"context"
	"crypto/sha256"
	"encoding/json"
	"fmt"
	"sort"
	"strings"
	"sync"
	"testing"
	"testing/synctest"
	"time"

	. "verifharness/h"

	"github.com/smartcontractkit/libocr/commontypes"
	"github.com/smartcontractkit/libocr/offchainreporting2plus/ocr3types"
	ocr2plustypes "github.com/smartcontractkit/libocr/offchainreporting2plus/types"

	ocr2keepers "github.com/smartcontractkit/chainlink-automation/pkg/v3"
	"github.com/smartcontractkit/chainlink-automation/pkg/v3/plugin"
	simutil "github.com/smartcontractkit/chainlink-automation/tools/simulator/util"
	common "github.com/smartcontractkit/chainlink-common/pkg/types/automation"
)

// ---------------------------------------------------------------- scenario (generator form)

type Step struct {
	Op    string `json:"op"`              // logs | round | events | restart | sleep
	Nodes []int  `json:"nodes,omitempty"` // logs: which nodes see them; round: members; restart: node
	Logs  []int  `json:"logs,omitempty"`  // logs: log numbers
	Byz   string `json:"byz,omitempty"`   // round: what Byzantine members send: garbage | replay | mutate | craft | honest
	Skip  []int  `json:"skip,omitempty"`  // round: honest nodes that do not receive the reports
	Kind  string `json:"kind,omitempty"`  // events: perform | stale | reorg | funds
	Conf  int    `json:"conf,omitempty"`  // events: confirmations
	Dup   bool   `json:"dup,omitempty"`   // events: delivered twice
	Secs  int    `json:"secs,omitempty"`  // sleep
	BlkOff int   `json:"blk_off,omitempty"` // logs: the logs are (re)delivered on a check block this much higher
	OnlyNew bool `json:"only_new,omitempty"` // events: only for reports that had no event yet
	FirstOnly bool `json:"first_only,omitempty"` // events: only for the EARLIEST report of each unit of work (the log of an older report arrives late)
	Late  bool   `json:"late,omitempty"`  // round: reports withheld from nodes earlier (Skip) reach them after this round's observations were built
	// cond: Logs = numbers of the conditional upkeeps that are active AND eligible on Nodes from now on (replaces the previous set)
	// expect: liveness obligation - each unit of work in Logs (Kind cond | log) is agreed by one of the next Conf rounds.  The
	// generator emits it only where the property's premise holds by construction: >= 2f+1 honest nodes up and members of each of
	// those rounds, the work eligible on all of them, not in flight on any of them
}

type Scenario struct {
	Family string `json:"family"`
	N      int    `json:"n"`
	F      int    `json:"f"`
	Byz    []int  `json:"byz"` // Byzantine oracle ids (|Byz| <= F)
	Heavy  bool   `json:"heavy,omitempty"` // report gas limit 5,000,000 / overhead 300,000; every second unit of work is checked with 5,000,000 gas
	Steps  []Step `json:"steps"`
	// observed (summary; the full log goes to the Coq term)
	Rounds    int    `json:"rounds"`
	Agreed    int    `json:"agreed"`
	Transmits int    `json:"transmits"`
	Err       string `json:"err,omitempty"`
	term      string
}

// ---------------------------------------------------------------- one honest node with its pipeline log

type hnode struct {
	id      int
	nd      *Node
	mu      sync.Mutex
	checked map[string]common.CheckResult // by resultKey
}

func pdOf(wid string) []byte {
	h := sha256.Sum256([]byte(wid))
	return h[:4+int(h[0])%9]
}

// heavyGas (set per scenario): every second unit of work is checked with 5,000,000 gas, which together with the
// 300,000 overhead exceeds the scenario's report gas limit of 5,000,000 on its own
var heavyGas bool

func resultFor(p common.UpkeepPayload) common.CheckResult {
	gas := 100000 + uint64(len(p.WorkID))
	if heavyGas && p.WorkID[len(p.WorkID)-1]%2 == 0 {
		gas = 5_000_000
	}
	return common.CheckResult{Eligible: true, UpkeepID: p.UpkeepID, Trigger: p.Trigger, WorkID: p.WorkID,
		GasAllocated: gas, PerformData: pdOf(p.WorkID), FastGasWei: bigOf(1000), LinkNative: bigOf(2000)}
}

func (h *hnode) pipeline(_ context.Context, ps ...common.UpkeepPayload) ([]common.CheckResult, error) {
	h.mu.Lock()
	defer h.mu.Unlock()
	var out []common.CheckResult
	for _, p := range ps {
		r := resultFor(p)
		h.checked[rkey(r)] = r
		out = append(out, r)
	}
	return out, nil
}

func rkey(r common.CheckResult) string {
	b, _ := json.Marshal(r)
	return string(b)
}

func logPayload(n int) common.UpkeepPayload { return logPayloadAt(n, 0) }

func condID(n int) common.UpkeepIdentifier { return UpkeepID(0, 700+n) }

func condPayload(n int, blk uint64) common.UpkeepPayload {
	id := condID(n)
	tr := common.NewTrigger(common.BlockNumber(blk), Hash32("cb", int(blk)))
	return common.UpkeepPayload{UpkeepID: id, Trigger: tr, WorkID: WG(id, tr)}
}

func logPayloadAt(n, off int) common.UpkeepPayload {
	id := UpkeepID(1, 300+n%5)
	tr := common.NewLogTrigger(common.BlockNumber(1000+n%3+off), Hash32("cb", 1000+n%3+off), &common.LogTriggerExtension{
		TxHash: Hash32("tx", n), Index: uint32(n % 4), BlockHash: Hash32("lb", n), BlockNumber: common.BlockNumber(999)})
	return common.UpkeepPayload{UpkeepID: id, Trigger: tr, WorkID: WG(id, tr)}
}

var cfgDigest = ocr2plustypes.ConfigDigest{7, 7}

func newHonest(t *testing.T, sc *Scenario, id int) *hnode {
	h := &hnode{id: id, checked: map[string]common.CheckResult{}}
	off := `{"minConfirmations":1,"maxUpkeepBatchSize":3,"performLockoutWindow":100000}`
	if sc.Heavy {
		off = `{"minConfirmations":1,"maxUpkeepBatchSize":3,"performLockoutWindow":100000,"gasLimitPerReport":5000000,"gasOverheadPerUpkeep":300000}`
	}
	h.nd = NewNode(t, NodeOpts{N: sc.N, F: sc.F, Oracle: id, Digest: cfgDigest, Offchain: off})
	h.nd.Runnable.SetFn(h.pipeline)
	return h
}

// ---------------------------------------------------------------- the run

type liveOb struct {
	wid      string
	from, to int // round indices (0-based, inclusive)
}

type roundLog struct {
	obs      [][2]any // (byz bool, rows []int) for VALID observations
	agreed   []int
	reports  [][]int
	inflight []string // work ids in flight on every honest node when the round started
}

type runLog struct {
	rows      []common.CheckResult
	rowIdx    map[string]int
	rounds    []roundLog
	honestObs [][2]any // (node, rows)
	accepts   [][2]any // (node, rows)
	transmit  [][2]any // (node, [][]int)
	checked   map[int]map[int]bool
	live      []liveOb
}

func (l *runLog) row(r common.CheckResult) int {
	k := rkey(r)
	if i, ok := l.rowIdx[k]; ok {
		return i
	}
	l.rowIdx[k] = len(l.rows)
	l.rows = append(l.rows, r)
	return len(l.rows) - 1
}

func (l *runLog) rowsOf(rs []common.CheckResult) []int {
	out := []int{}
	for _, r := range rs {
		out = append(out, l.row(r))
	}
	return out
}

type producedReport struct {
	seq  uint64
	rep  ocr3types.ReportWithInfo[plugin.AutomationReportInfo]
	rows []int
	res  []common.CheckResult
	blk  uint64
}

func runScenario(t *testing.T, sc *Scenario) {
	heavyGas = sc.Heavy
	isByz := map[int]bool{}
	for _, b := range sc.Byz {
		isByz[b] = true
	}
	nodes := map[int]*hnode{}
	for i := 0; i < sc.N; i++ {
		if !isByz[i] {
			nodes[i] = newHonest(t, sc, i)
		}
	}
	lg := &runLog{rowIdx: map[string]int{}, checked: map[int]map[int]bool{}}
	// acceptedBy[wid] = honest nodes that accepted a report containing wid and have not been restarted since;
	// cleared on any transmit event batch and when the lockout window may have passed
	acceptedBy := map[string]map[int]bool{}
	acceptedAt := map[string]time.Time{}
	acceptedBlk := map[string]uint64{} // highest check block of the unit of work in a report every recorded node accepted
	var prev []byte
	var seq uint64
	var lastHonestObs [][]byte
	var reports []producedReport
	var events []common.TransmitEvent
	peerAny := func() *hnode {
		var ids []int
		for i := range nodes {
			ids = append(ids, i)
		}
		sort.Ints(ids)
		return nodes[ids[0]]
	}
	snapshot := func() {
		var ids []int
		for i := range nodes {
			ids = append(ids, i)
		}
		sort.Ints(ids)
		for _, i := range ids {
			var will [][]int
			for _, pr := range reports {
				ok, err := nodes[i].nd.Plugin.ShouldTransmitAcceptedReport(context.Background(), pr.seq, pr.rep)
				if err == nil && ok {
					will = append(will, pr.rows)
				}
			}
			if will == nil {
				will = [][]int{}
			}
			lg.transmit = append(lg.transmit, [2]any{i, will})
			if len(will) > 0 {
				sc.Transmits++
			}
		}
	}
	// the simulated chain: one block per round / event batch; every honest node sees the same last 5 blocks
	blk := uint64(1100)
	condOn := map[int][]int{}
	publish := func() {
		var hist common.BlockHistory
		for i := uint64(0); i < 5; i++ {
			hist = append(hist, common.BlockKey{Number: common.BlockNumber(blk - i), Hash: Hash32("cb", int(blk-i))})
		}
		for i, h := range nodes {
			h.nd.Blocks.Publish(hist)
			var ps []common.UpkeepPayload
			for _, c := range condOn[i] {
				ps = append(ps, condPayload(c, blk))
			}
			h.nd.Getter.Set(ps)
		}
	}
	evented := map[int]bool{}
	released := map[int]bool{} // report index -> a confirmed event for it was delivered to the nodes
	logSeen := map[int]map[int]bool{}
	withheld := map[int][]producedReport{}
	acceptAt := func(i int, pr producedReport) {
		h, ok := nodes[i]
		if !ok {
			return
		}
		ok2, err := h.nd.Plugin.ShouldAcceptAttestedReport(context.Background(), pr.seq, pr.rep)
		if err == nil && ok2 {
			lg.accepts = append(lg.accepts, [2]any{i, pr.rows})
			for _, r := range pr.res {
				if acceptedBy[r.WorkID] == nil {
					acceptedBy[r.WorkID] = map[int]bool{}
					acceptedAt[r.WorkID] = time.Now()
				}
				switch b := uint64(r.Trigger.BlockNumber); {
				case b > acceptedBlk[r.WorkID]:
					// a report on a higher check block supersedes: the nodes now await that one
					acceptedBlk[r.WorkID] = b
					acceptedBy[r.WorkID] = map[int]bool{i: true}
					acceptedAt[r.WorkID] = time.Now()
				case b == acceptedBlk[r.WorkID]:
					acceptedBy[r.WorkID][i] = true
				default:
					// this node awaits an older report (it was restarted): it is not waiting for the newest one
					delete(acceptedBy[r.WorkID], i)
				}
			}
		}
	}
	for si, st := range sc.Steps {
		switch st.Op {
		case "logs":
			var ps []common.UpkeepPayload
			for _, n := range st.Logs {
				ps = append(ps, logPayloadAt(n, st.BlkOff))
			}
			for _, i := range st.Nodes {
				if h, ok := nodes[i]; ok {
					h.nd.Logs.Push(ps...)
					if logSeen[i] == nil {
						logSeen[i] = map[int]bool{}
					}
					for _, n := range st.Logs {
						logSeen[i][n] = st.BlkOff == 0
					}
				}
			}
			time.Sleep(2 * time.Second)
			synctest.Wait()
		case "recov":
			// logs that only the recovery path knows: each listed node's recoverable provider proposes them; the network
			// coordinates a block, every node checks them on it (any node can check a coordinated proposal)
			var ps []common.UpkeepPayload
			for _, n := range st.Logs {
				ps = append(ps, logPayloadAt(n, st.BlkOff))
			}
			for _, i := range st.Nodes {
				if h, ok := nodes[i]; ok {
					h.nd.Recov.Push(ps...)
				}
			}
			time.Sleep(2 * time.Second)
			synctest.Wait()
		case "sleep":
			time.Sleep(time.Duration(st.Secs) * time.Second)
			synctest.Wait()
		case "cond":
			for _, i := range st.Nodes {
				condOn[i] = append([]int(nil), st.Logs...)
			}
			publish()
			synctest.Wait()
		case "expect":
			// the obligation is recorded only where the property's premise holds: checked here, so that a shrunk or
			// hand-edited scenario cannot demand more than the property states
			honestUp := len(nodes)
			ok := honestUp >= 2*sc.F+1
			rounds := 0
			for _, nx := range sc.Steps[si+1:] {
				if rounds >= st.Conf {
					break
				}
				switch nx.Op {
				case "round":
					in := map[int]bool{}
					for _, m := range nx.Nodes {
						in[m] = true
					}
					for i := range nodes {
						ok = ok && in[i]
					}
					rounds++
				case "sleep":
				default:
					ok = false
				}
			}
			ok = ok && rounds >= st.Conf
			for _, n := range st.Logs {
				w := logPayload(n).WorkID
				okw := ok
				if st.Kind == "cond" {
					w = condPayload(n, blk).WorkID
					for i := range nodes {
						has := false
						for _, c := range condOn[i] {
							has = has || c == n
						}
						okw = okw && has
					}
				} else if st.Kind == "recov" {
					// proposed by some honest node's recovery path just before: checkable by every node once coordinated
				} else {
					for i := range nodes {
						okw = okw && logSeen[i][n]
					}
				}
				// in flight: some report with this work was produced and no confirmed event for it has been delivered
				for pi, pr := range reports {
					for _, r := range pr.res {
						if r.WorkID == w && !released[pi] {
							okw = false
						}
					}
				}
				if okw {
					lg.live = append(lg.live, liveOb{wid: w, from: len(lg.rounds), to: len(lg.rounds) + st.Conf - 1})
				}
			}
		case "restart":
			for _, i := range st.Nodes {
				if h, ok := nodes[i]; ok {
					h.nd.Plugin.Close()
					time.Sleep(time.Second)
					synctest.Wait()
					nh := newHonest(t, sc, i)
					nh.checked = h.checked // the pipeline log is the harness' ghost, it survives
					delete(logSeen, i)
					nodes[i] = nh
					for _, set := range acceptedBy {
						delete(set, i)
					}
				}
			}
			time.Sleep(time.Second)
			synctest.Wait()
		case "events":
			blk++
			firstOf := map[string]int{}
			for pi, pr := range reports {
				for _, r := range pr.res {
					if _, ok := firstOf[r.WorkID]; !ok {
						firstOf[r.WorkID] = pi
					}
				}
			}
			for pi, pr := range reports {
				if st.OnlyNew && evented[pi] {
					continue
				}
				if st.FirstOnly {
					first := false
					for _, r := range pr.res {
						first = first || firstOf[r.WorkID] == pi
					}
					if !first {
						continue
					}
				}
				evented[pi] = true
				if st.Conf >= 1 {
					released[pi] = true
				}
				for _, r := range pr.res {
					ty := map[string]common.TransmitEventType{"perform": common.PerformEvent, "stale": common.StaleReportEvent,
						"reorg": common.ReorgReportEvent, "funds": common.InsufficientFundsReportEvent}[st.Kind]
					ev := common.TransmitEvent{Type: ty, TransmitBlock: common.BlockNumber(blk), Confirmations: int64(st.Conf),
						TransactionHash: Hash32("txn", int(pr.seq)*100+len(events)), UpkeepID: r.UpkeepID, WorkID: r.WorkID, CheckBlock: r.Trigger.BlockNumber}
					events = append(events, ev)
					if st.Dup {
						events = append(events, ev)
					}
				}
			}
			for _, h := range nodes {
				h.nd.Events.Set(events)
			}
			// an event releases the unit of work only if it is for the awaited check block or a higher one; the log
			// of an older, superseded report says nothing about the report the nodes are waiting for
			for _, ev := range events {
				if uint64(ev.CheckBlock) >= acceptedBlk[ev.WorkID] {
					delete(acceptedBy, ev.WorkID)
				}
			}
			time.Sleep(3 * time.Second)
			synctest.Wait()
			snapshot()
		case "round":
			seq++
			sc.Rounds++
			blk++
			publish()
			synctest.Wait()
			outctx := ocr3types.OutcomeContext{SeqNr: seq, PreviousOutcome: prev}
			var aobs []ocr2plustypes.AttributedObservation
			var thisHonest [][]byte
			byNode := map[int][]byte{}
			for _, i := range st.Nodes {
				if h, ok := nodes[i]; ok {
					ob, err := h.nd.Plugin.Observation(context.Background(), outctx, nil)
					if err != nil {
						sc.Err = fmt.Sprintf("Observation node %d: %v", i, err)
						return
					}
					var o ocr2keepers.AutomationObservation
					_ = json.Unmarshal(ob, &o)
					lg.honestObs = append(lg.honestObs, [2]any{i, lg.rowsOf(o.Performable)})
					if os.Getenv("VERIF_DEBUG") != "" {
						t.Logf("round %d node %d: performables %d proposals %d history %d", seq, i, len(o.Performable), len(o.UpkeepProposals), len(o.BlockHistory))
					}
					aobs = append(aobs, ocr2plustypes.AttributedObservation{Observation: ob, Observer: commontypes.OracleID(i)})
					thisHonest = append(thisHonest, ob)
					byNode[i] = ob
					continue
				}
				// Byzantine member
				var b []byte
				switch st.Byz {
				case "garbage":
					b = []byte(`{"Performable":[{"UpkeepID":[1,2,3]`)
				case "replay":
					if len(lastHonestObs) > 0 {
						b = lastHonestObs[i%len(lastHonestObs)]
					} else {
						b = []byte("{}")
					}
				case "mutate", "craft":
					var o ocr2keepers.AutomationObservation
					if len(thisHonest) > 0 {
						_ = json.Unmarshal(thisHonest[0], &o)
					}
					if st.Byz == "mutate" {
						// a variant of every honest result for the same unit of work; the digest is the hex of the raw
						// fields, so a 0x00 prefix sorts the variant BEFORE the honest copy and a 0xEE prefix after it
						for k := range o.Performable {
							pre := byte(0xEE)
							if (k+int(seq))%2 == 0 {
								pre = 0x00
							}
							o.Performable[k].PerformData = append([]byte{pre}, o.Performable[k].PerformData...)
						}
					} else {
						// results nobody checked, well-formed
						o.Performable = nil
						for k := 0; k < 5; k++ {
							o.Performable = append(o.Performable, resultFor(logPayload(90000+k)))
						}
					}
					b, _ = o.Encode()
				case "copy1", "copy2": // vouches for whatever honest node 1 (resp. 2) observed
					if ob, ok := byNode[int(st.Byz[4]-'0')]; ok {
						b = ob
					} else {
						b = []byte("{}")
					}
				default: // behaves honestly this round: copies an honest observation
					if len(thisHonest) > 0 {
						b = thisHonest[0]
					} else {
						b = []byte("{}")
					}
				}
				aobs = append(aobs, ocr2plustypes.AttributedObservation{Observation: b, Observer: commontypes.OracleID(i)})
			}
			lastHonestObs = thisHonest
			if st.Late {
				// the attested reports of earlier rounds reach the nodes they were withheld from only now: after
				// this round's observations were built, before its outcome is computed (normal OCR3 overlap)
				for i, prs := range withheld {
					for _, pr := range prs {
						acceptAt(i, pr)
					}
				}
				withheld = map[int][]producedReport{}
			}
			leader := peerAny()
			out, err := leader.nd.Plugin.Outcome(context.Background(), outctx, nil, aobs)
			if err != nil {
				sc.Err = fmt.Sprintf("Outcome: %v", err)
				return
			}
			// every honest node computes the same outcome
			for _, h := range nodes {
				o2, err2 := h.nd.Plugin.Outcome(context.Background(), outctx, nil, aobs)
				if err2 != nil || string(o2) != string(out) {
					sc.Err = "honest nodes disagree on the outcome"
					return
				}
			}
			prev = out
			var oc ocr2keepers.AutomationOutcome
			_ = json.Unmarshal(out, &oc)
			rl := roundLog{agreed: lg.rowsOf(oc.AgreedPerformables)}
			if os.Getenv("VERIF_DEBUG") != "" {
				t.Logf("round %d outcome: agreed %d surfaced %v", seq, len(oc.AgreedPerformables), len(oc.SurfacedProposals))
				if len(oc.SurfacedProposals) > 0 {
					t.Logf("   newest surfaced: %d", len(oc.SurfacedProposals[0]))
				}
			}
			for w, set := range acceptedBy {
				all := len(set) > 0
				for i := range nodes {
					all = all && set[i]
				}
				hasEvent := false
				for _, ev := range events {
					hasEvent = hasEvent || (ev.WorkID == w && uint64(ev.CheckBlock) >= acceptedBlk[w])
				}
				if all && time.Since(acceptedAt[w]) < 80*time.Second && !hasEvent {
					rl.inflight = append(rl.inflight, w)
				}
			}
			sort.Strings(rl.inflight)
			sc.Agreed += len(oc.AgreedPerformables)
			for _, ao := range aobs {
				if leader.nd.Plugin.ValidateObservation(context.Background(), outctx, nil, ao) != nil {
					continue
				}
				var o ocr2keepers.AutomationObservation
				_ = json.Unmarshal(ao.Observation, &o)
				rl.obs = append(rl.obs, [2]any{isByz[int(ao.Observer)], lg.rowsOf(o.Performable)})
			}
			reps, err := leader.nd.Plugin.Reports(context.Background(), seq, out)
			if err != nil {
				sc.Err = fmt.Sprintf("Reports: %v", err)
				return
			}
			skip := map[int]bool{}
			for _, s := range st.Skip {
				skip[s] = true
			}
			for _, rp := range reps {
				res, _ := simutil.DecodeCheckResultsFromReportBytes(rp.ReportWithInfo.Report)
				pr := producedReport{seq: seq, rep: rp.ReportWithInfo, rows: lg.rowsOf(res), res: res}
				rl.reports = append(rl.reports, pr.rows)
				reports = append(reports, pr)
				for i := range nodes {
					if skip[i] {
						withheld[i] = append(withheld[i], pr)
						continue
					}
					acceptAt(i, pr)
				}
			}
			lg.rounds = append(lg.rounds, rl)
			snapshot()
			time.Sleep(3 * time.Second) // round period: one sampling tick, three final-flow ticks
			synctest.Wait()
		}
	}
	for i, h := range nodes {
		lg.checked[i] = map[int]bool{}
		h.mu.Lock()
		for _, r := range h.checked {
			lg.checked[i][lg.row(r)] = true
		}
		h.mu.Unlock()
	}
	time.Sleep(2 * time.Second)
	synctest.Wait()
	for _, h := range nodes {
		h.nd.Plugin.Close()
	}
	synctest.Wait()
	sc.term = lg.term(sc)
}

func natList(xs []int) string { return CoqList(xs, CoqNat) }

func (l *runLog) term(sc *Scenario) string {
	wid := NewInterner()
	wids := CoqList(l.rows, func(r common.CheckResult) string { return fmt.Sprint(wid.ID(r.WorkID)) })
	var ck []string
	var ids []int
	for i := range l.checked {
		ids = append(ids, i)
	}
	sort.Ints(ids)
	for _, i := range ids {
		var rs []int
		for r := range l.checked[i] {
			rs = append(rs, r)
		}
		sort.Ints(rs)
		ck = append(ck, fmt.Sprintf("(%s, %s)", CoqNat(i), natList(rs)))
	}
	var rds []string
	for _, rd := range l.rounds {
		obs := CoqList(rd.obs, func(o [2]any) string { return fmt.Sprintf("(%s, %s)", CoqBool(o[0].(bool)), natList(o[1].([]int))) })
		// in-flight work ids are interned through the rows' table: make sure each has an id
		infl := CoqList(rd.inflight, func(w string) string { return fmt.Sprint(wid.ID(w)) })
		rds = append(rds, fmt.Sprintf("mkNRound %s %s %s %s", obs, natList(rd.agreed), CoqList(rd.reports, natList), infl))
	}
	pair := func(p [2]any) string { return fmt.Sprintf("(%s, %s)", CoqNat(p[0].(int)), natList(p[1].([]int))) }
	tr := CoqList(l.transmit, func(p [2]any) string {
		return fmt.Sprintf("(%s, %s)", CoqNat(p[0].(int)), CoqList(p[1].([][]int), natList))
	})
	live := CoqList(l.live, func(o liveOb) string {
		return fmt.Sprintf("(%d, (%s, %s))", wid.ID(o.wid), CoqNat(o.from), CoqNat(o.to))
	})
	return fmt.Sprintf("mkNCase %s %s [%s] [%s] %s %s %s %s", CoqNat(sc.F), wids, strings.Join(ck, "; "), strings.Join(rds, ";\n     "),
		CoqList(l.honestObs, pair), CoqList(l.accepts, pair), tr, live)
}
