package c09

import (
	"fmt"
	"strings"
	"math/big"
	"path/filepath"
	"testing"
	"testing/synctest"

	. "verifharness/h"
)

func bigOf(v int64) *big.Int { return big.NewInt(v) }

func seqInts(a, b int) []int {
	var out []int
	for i := a; i < b; i++ {
		out = append(out, i)
	}
	return out
}

func boundary() []Scenario {
	var ss []Scenario
	all4 := []int{0, 1, 2, 3}
	ss = append(ss, Scenario{Family: "basic", N: 4, F: 1, Byz: []int{3}, Steps: []Step{
		{Op: "logs", Nodes: all4, Logs: seqInts(1, 7)}, {Op: "round", Nodes: all4, Byz: "honest"}, {Op: "round", Nodes: all4, Byz: "honest"},
		{Op: "events", Kind: "perform", Conf: 3}, {Op: "round", Nodes: all4, Byz: "honest"}}})
	for _, byz := range []string{"garbage", "replay", "mutate", "craft"} {
		ss = append(ss, Scenario{Family: "byz-" + byz, N: 4, F: 1, Byz: []int{2}, Steps: []Step{
			{Op: "logs", Nodes: all4, Logs: seqInts(10, 16)}, {Op: "round", Nodes: all4, Byz: byz}, {Op: "round", Nodes: []int{0, 1, 2}, Byz: byz},
			{Op: "logs", Nodes: []int{0}, Logs: seqInts(20, 23)}, {Op: "round", Nodes: all4, Byz: byz}, {Op: "round", Nodes: all4, Byz: byz}}})
	}
	// seen by f honest nodes only (not agreed), then by f+1
	ss = append(ss, Scenario{Family: "partial-visibility", N: 7, F: 2, Byz: []int{5, 6}, Steps: []Step{
		{Op: "logs", Nodes: []int{0, 1}, Logs: seqInts(30, 34)}, {Op: "round", Nodes: seqInts(0, 7), Byz: "craft"},
		{Op: "logs", Nodes: []int{2}, Logs: seqInts(30, 34)}, {Op: "round", Nodes: seqInts(0, 7), Byz: "craft"}, {Op: "round", Nodes: seqInts(0, 5)}}})
	// Byzantine members vouch for what one honest node checked: f + 1 in total
	ss = append(ss, Scenario{Family: "byz-plus-one-honest", N: 7, F: 2, Byz: []int{5, 6}, Steps: []Step{
		{Op: "logs", Nodes: []int{0}, Logs: seqInts(40, 44)}, {Op: "round", Nodes: []int{0, 1, 2, 5, 6}, Byz: "honest"}, {Op: "round", Nodes: seqInts(0, 7), Byz: "honest"}}})
	// restart between accept and transmit
	ss = append(ss, Scenario{Family: "restart-after-accept", N: 4, F: 1, Byz: []int{3}, Steps: []Step{
		{Op: "logs", Nodes: all4, Logs: seqInts(50, 54)}, {Op: "round", Nodes: all4, Byz: "honest"}, {Op: "restart", Nodes: []int{1}},
		{Op: "round", Nodes: all4, Byz: "honest"}, {Op: "events", Kind: "perform", Conf: 2}, {Op: "round", Nodes: all4, Byz: "honest"}}})
	// restart, the log is delivered again to the restarted node, plus fresh work: re-agreed and re-batched
	ss = append(ss, Scenario{Family: "restart-recheck-rebatch", N: 4, F: 1, Byz: []int{3}, Steps: []Step{
		{Op: "logs", Nodes: all4, Logs: seqInts(60, 62)}, {Op: "round", Nodes: all4, Byz: "honest"}, {Op: "restart", Nodes: []int{1}},
		{Op: "round", Nodes: all4, Byz: "honest"},
		{Op: "logs", Nodes: []int{1}, Logs: seqInts(60, 62)}, {Op: "logs", Nodes: all4, Logs: seqInts(62, 63)},
		{Op: "round", Nodes: []int{1, 0, 2, 3}, Byz: "copy1"}, {Op: "round", Nodes: []int{1, 0, 2, 3}, Byz: "copy1"}}})
	// after a restart the log is delivered again on a HIGHER check block: the newer report supersedes, the older one
	// must stop being transmittable
	ss = append(ss, Scenario{Family: "restart-recheck-higher-block", N: 4, F: 1, Byz: []int{3}, Steps: []Step{
		{Op: "logs", Nodes: all4, Logs: seqInts(65, 67)}, {Op: "round", Nodes: all4, Byz: "honest"}, {Op: "restart", Nodes: []int{1}},
		{Op: "round", Nodes: all4, Byz: "honest"},
		{Op: "logs", Nodes: []int{1}, Logs: seqInts(65, 67), BlkOff: 5},
		{Op: "round", Nodes: []int{1, 0, 2, 3}, Byz: "copy1"}, {Op: "round", Nodes: []int{1, 0, 2, 3}, Byz: "copy1"}}})
	// ... and then the log of the OLDER report arrives late: it must not release the work the nodes are still awaiting
	// on the higher block, although the log is offered to them once more
	ss = append(ss, Scenario{Family: "late-event-for-superseded-report", N: 4, F: 1, Byz: []int{3}, Steps: []Step{
		{Op: "logs", Nodes: all4, Logs: seqInts(165, 167)}, {Op: "round", Nodes: all4, Byz: "honest"}, {Op: "restart", Nodes: []int{1}},
		{Op: "round", Nodes: all4, Byz: "honest"},
		{Op: "logs", Nodes: []int{1}, Logs: seqInts(165, 167), BlkOff: 5},
		{Op: "round", Nodes: []int{1, 0, 2, 3}, Byz: "copy1"}, {Op: "round", Nodes: []int{1, 0, 2, 3}, Byz: "copy1"},
		{Op: "events", Kind: "perform", Conf: 1, FirstOnly: true},
		{Op: "logs", Nodes: all4, Logs: seqInts(165, 167), BlkOff: 9},
		{Op: "round", Nodes: all4, Byz: "copy1"}, {Op: "round", Nodes: all4, Byz: "copy1"}, {Op: "round", Nodes: all4, Byz: "copy1"}}})
	// the lockout window (100 s) restarts with the newer report: 110 s after the first acceptance and 50 s after the
	// second the unit is still in flight everywhere, although the log is offered once more
	ss = append(ss, Scenario{Family: "lockout-window-restarted-by-newer-report", N: 4, F: 1, Byz: []int{3}, Steps: []Step{
		{Op: "logs", Nodes: all4, Logs: seqInts(180, 182)}, {Op: "round", Nodes: all4, Byz: "honest"}, {Op: "sleep", Secs: 58},
		{Op: "restart", Nodes: []int{1}}, {Op: "round", Nodes: all4, Byz: "honest"},
		{Op: "logs", Nodes: []int{1}, Logs: seqInts(180, 182), BlkOff: 5},
		{Op: "round", Nodes: []int{1, 0, 2, 3}, Byz: "copy1"}, {Op: "round", Nodes: []int{1, 0, 2, 3}, Byz: "copy1"},
		{Op: "sleep", Secs: 46},
		{Op: "logs", Nodes: all4, Logs: seqInts(180, 182), BlkOff: 9},
		{Op: "round", Nodes: all4, Byz: "copy1"}, {Op: "round", Nodes: all4, Byz: "copy1"}}})
	// exactly 100 candidates staged on every node: the observation carries exactly the advertised maximum of
	// performables and must still be accepted by every peer, so the work is agreed at once
	ss = append(ss, Scenario{Family: "exactly-100-candidates", N: 4, F: 1, Byz: []int{3}, Steps: []Step{
		{Op: "logs", Nodes: all4, Logs: seqInts(2000, 2100)}, {Op: "expect", Kind: "log", Logs: seqInts(2000, 2100), Conf: 2},
		{Op: "round", Nodes: all4, Byz: "honest"}, {Op: "round", Nodes: all4, Byz: "honest"}}})
	// an unusual but legal gas configuration: some units of work alone exceed the report gas limit (single-upkeep
	// reports); what the report carries must still be, field for field, what was checked and agreed
	ss = append(ss, Scenario{Family: "heavy-gas-over-report-limit", N: 4, F: 1, Byz: []int{3}, Heavy: true, Steps: []Step{
		{Op: "logs", Nodes: all4, Logs: seqInts(170, 178)}, {Op: "round", Nodes: all4, Byz: "honest"}, {Op: "round", Nodes: all4, Byz: "copy1"},
		{Op: "events", Kind: "perform", Conf: 1}, {Op: "round", Nodes: all4, Byz: "honest"}}})
	// a node that lacks part of the agreed work and gets the attested report late (after it built its next observation)
	ss = append(ss, Scenario{Family: "late-report-partial-staging", N: 4, F: 1, Byz: []int{3}, Steps: []Step{
		{Op: "logs", Nodes: []int{0, 1}, Logs: seqInts(45, 51)}, {Op: "logs", Nodes: []int{2}, Logs: seqInts(47, 51)},
		{Op: "round", Nodes: all4, Byz: "honest", Skip: []int{2}},
		{Op: "round", Nodes: []int{2, 0, 1, 3}, Byz: "copy2", Late: true}, {Op: "round", Nodes: []int{2, 0, 1, 3}, Byz: "copy2"}}})
	ss = append(ss, Scenario{Family: "late-report-partial-staging", N: 4, F: 1, Byz: []int{3}, Steps: []Step{
		{Op: "logs", Nodes: []int{0, 1}, Logs: seqInts(1045, 1053)}, {Op: "logs", Nodes: []int{2}, Logs: []int{1046, 1048, 1050, 1052}},
		{Op: "round", Nodes: all4, Byz: "honest", Skip: []int{2}},
		{Op: "round", Nodes: []int{2, 0, 1, 3}, Byz: "copy2", Late: true}, {Op: "round", Nodes: []int{2, 0, 1, 3}, Byz: "copy2"}}})
	// events: stale / reorg / insufficient funds release the work; duplicates; low confirmations
	for _, k := range []string{"stale", "reorg", "funds"} {
		ss = append(ss, Scenario{Family: "event-" + k, N: 4, F: 1, Byz: []int{0}, Steps: []Step{
			{Op: "logs", Nodes: all4, Logs: seqInts(70, 73)}, {Op: "round", Nodes: all4, Byz: "honest"}, {Op: "events", Kind: k, Conf: 1, Dup: true},
			{Op: "logs", Nodes: all4, Logs: seqInts(70, 73)}, {Op: "round", Nodes: all4, Byz: "honest"}, {Op: "round", Nodes: all4, Byz: "honest"}}})
	}
	ss = append(ss, Scenario{Family: "event-unconfirmed", N: 4, F: 1, Byz: []int{0}, Steps: []Step{
		{Op: "logs", Nodes: all4, Logs: seqInts(80, 83)}, {Op: "round", Nodes: all4, Byz: "honest"}, {Op: "events", Kind: "perform", Conf: 0},
		{Op: "round", Nodes: all4, Byz: "honest"}, {Op: "events", Kind: "perform", Conf: 1}, {Op: "round", Nodes: all4, Byz: "honest"}}})
	// reports not delivered to some honest nodes; lockout expiry
	ss = append(ss, Scenario{Family: "skipped-accept-and-expiry", N: 4, F: 1, Byz: []int{3}, Steps: []Step{
		{Op: "logs", Nodes: all4, Logs: seqInts(90, 95)}, {Op: "round", Nodes: all4, Byz: "honest", Skip: []int{0}}, {Op: "round", Nodes: all4, Byz: "honest"},
		{Op: "sleep", Secs: 120}, {Op: "round", Nodes: all4, Byz: "honest"}}})
	// many candidates: cap 100, several rounds
	ss = append(ss, Scenario{Family: "many-candidates", N: 4, F: 1, Byz: []int{3}, Steps: []Step{
		{Op: "logs", Nodes: all4, Logs: seqInts(1000, 1130)}, {Op: "expect", Kind: "log", Logs: seqInts(1000, 1130), Conf: 3},
		{Op: "round", Nodes: all4, Byz: "replay"}, {Op: "round", Nodes: all4, Byz: "replay"},
		{Op: "round", Nodes: all4, Byz: "replay"}}})
	ss = append(ss, condFamilies()...)
	// f = 0
	ss = append(ss, Scenario{Family: "f-zero", N: 1, F: 0, Steps: []Step{
		{Op: "logs", Nodes: []int{0}, Logs: seqInts(200, 203)}, {Op: "round", Nodes: []int{0}}, {Op: "round", Nodes: []int{0}}}})
	return ss
}

// liveBound: rounds (3 s apart) within which an eligible conditional upkeep that is not in flight must be agreed:
// sampled + proposed (3 s sampling tick), surfaced with a quorum block, coordinated + checked (1 s tick), agreed
const liveBound = 5

// liveBoundBlocked: the same when the work may sit in the outcome's surfaced-proposal history with a coordinated block that the
// perform has overtaken (nodes that had not accepted yet proposed it again): it cannot be proposed afresh before that entry
// leaves the 20-round history
const liveBoundBlocked = 20 + liveBound + 2

// condCycle: the conditional upkeeps cs are eligible on every honest node; rounds with all members until the bound
func condCycle(members []int, byz string, cs []int, rounds int, skip []int) []Step {
	st := []Step{{Op: "expect", Kind: "cond", Logs: cs, Conf: rounds}}
	for i := 0; i < rounds; i++ {
		st = append(st, Step{Op: "round", Nodes: members, Byz: byz, Skip: skip})
	}
	return st
}

func condFamilies() []Scenario {
	var ss []Scenario
	all4 := []int{0, 1, 2, 3}
	// proposed -> coordinated -> checked -> agreed -> performed -> still eligible -> the whole cycle again (and again)
	for _, byz := range []string{"honest", "garbage", "craft", "replay"} {
		st := []Step{{Op: "cond", Nodes: all4, Logs: []int{1, 2}}}
		for c := 0; c < 3; c++ {
			st = append(st, condCycle(all4, byz, []int{1, 2}, liveBound, nil)...)
			st = append(st, Step{Op: "events", Kind: "perform", Conf: 1, OnlyNew: true})
		}
		ss = append(ss, Scenario{Family: "cond-cycle-" + byz, N: 4, F: 1, Byz: []int{3}, Steps: st})
	}
	// the perform event is polled by nodes that have not accepted the report yet (it reaches them late); the provider keeps
	// returning the event (look-back window), so they must still take note of it once they have accepted
	for _, n := range [][2]int{{4, 1}, {7, 2}} {
		mem := seqInts(0, n[0])
		st := []Step{{Op: "cond", Nodes: mem, Logs: []int{3}}}
		st = append(st, condCycle(mem, "honest", []int{3}, liveBound, seqInts(1, n[0]))...)
		st = append(st, Step{Op: "events", Kind: "perform", Conf: 1, OnlyNew: true},
			Step{Op: "round", Nodes: mem, Late: true})
		st = append(st, condCycle(mem, "honest", []int{3}, liveBoundBlocked, nil)...)
		ss = append(ss, Scenario{Family: "cond-event-before-late-accept", N: n[0], F: n[1], Steps: st})
	}
	// performed, then a stale-report event for the next cycle's report: released, reported again
	st := []Step{{Op: "cond", Nodes: all4, Logs: []int{4}}}
	st = append(st, condCycle(all4, "honest", []int{4}, liveBound, nil)...)
	st = append(st, Step{Op: "events", Kind: "perform", Conf: 1, OnlyNew: true})
	st = append(st, condCycle(all4, "honest", []int{4}, liveBound, nil)...)
	st = append(st, Step{Op: "events", Kind: "stale", Conf: 1, OnlyNew: true})
	st = append(st, condCycle(all4, "honest", []int{4}, liveBound, nil)...)
	ss = append(ss, Scenario{Family: "cond-stale-then-again", N: 4, F: 1, Byz: []int{0}, Steps: st})
	// one honest node down (restarting) during the cycle: 2f+1 honest members remain
	st = []Step{{Op: "cond", Nodes: seqInts(0, 7), Logs: []int{5, 6, 7}}}
	st = append(st, condCycle([]int{0, 1, 2, 3, 4}, "craft", []int{5, 6, 7}, liveBound, nil)...)
	st = append(st, Step{Op: "events", Kind: "perform", Conf: 1, OnlyNew: true})
	st = append(st, condCycle([]int{0, 1, 2, 3, 4, 5, 6}, "mutate", []int{5, 6, 7}, liveBound, nil)...)
	ss = append(ss, Scenario{Family: "cond-minimal-members", N: 7, F: 2, Byz: []int{5, 6}, Steps: st})
	// more conditional upkeeps eligible at once than one observation may propose (limit 5 per type): every honest
	// observation must still pass its peers' validation, and all of them are agreed within two proposal rounds more
	for _, k := range []int{6, 7, 11} {
		cs := seqInts(20, 20+k)
		st = []Step{{Op: "cond", Nodes: all4, Logs: cs}}
		st = append(st, condCycle(all4, "honest", cs, liveBound+2*((k+4)/5), nil)...)
		ss = append(ss, Scenario{Family: fmt.Sprintf("%d-conditionals-eligible-at-once", k), N: 4, F: 1, Byz: []int{3}, Steps: st})
	}
	// recovery path: neighbouring honest oracles each propose a different missed log in the same round (same position of
	// their proposal lists); both are coordinated, checked by everyone and agreed, and the rounds after that still work
	for _, byz := range []string{"honest", "craft"} {
		st = []Step{{Op: "recov", Nodes: []int{0}, Logs: []int{501}}, {Op: "recov", Nodes: []int{1}, Logs: []int{502}},
			{Op: "recov", Nodes: []int{2}, Logs: []int{503, 501}}}
		st = append(st, Step{Op: "expect", Kind: "recov", Logs: []int{501, 502, 503}, Conf: liveBound + 1})
		for i := 0; i <= liveBound; i++ {
			st = append(st, Step{Op: "round", Nodes: all4, Byz: byz})
		}
		st = append(st, Step{Op: "events", Kind: "perform", Conf: 1, OnlyNew: true})
		st = append(st, Step{Op: "recov", Nodes: []int{1}, Logs: []int{504}}, Step{Op: "recov", Nodes: []int{2}, Logs: []int{505}})
		st = append(st, Step{Op: "expect", Kind: "recov", Logs: []int{504, 505}, Conf: liveBound + 1})
		for i := 0; i <= liveBound; i++ {
			st = append(st, Step{Op: "round", Nodes: all4, Byz: byz})
		}
		ss = append(ss, Scenario{Family: "recovery-proposals-from-neighbouring-oracles-" + byz, N: 4, F: 1, Byz: []int{3}, Steps: st})
	}
	return ss
}

func randomScenario(r *Rng, k int) Scenario {
	nf := [][2]int{{4, 1}, {4, 1}, {7, 2}, {10, 3}}[r.Intn(4)]
	n, f := nf[0], nf[1]
	sc := Scenario{Family: "random", N: n, F: f, Heavy: r.Chance(1, 4)}
	for len(sc.Byz) < r.Intn(f+1) {
		b := r.Intn(n)
		dup := false
		for _, x := range sc.Byz {
			dup = dup || x == b
		}
		if !dup {
			sc.Byz = append(sc.Byz, b)
		}
	}
	base := 10000 + k*100
	steps := 5 + r.Intn(7)
	for s := 0; s < steps; s++ {
		switch r.Intn(8) {
		case 0, 1:
			var ns []int
			for i := 0; i < n; i++ {
				if r.Chance(2, 3) {
					ns = append(ns, i)
				}
			}
			lo := base + r.Intn(20)
			off := 0
			if r.Chance(1, 5) {
				off = 1 + r.Intn(6)
			}
			sc.Steps = append(sc.Steps, Step{Op: "logs", Nodes: ns, Logs: seqInts(lo, lo+1+r.Intn(8)), BlkOff: off})
		case 2, 3, 4:
			// subset of size >= 2f+1
			perm := r.Perm(n)
			m := 2*f + 1 + r.Intn(n-2*f)
			var skip []int
			if r.Chance(1, 4) {
				skip = []int{r.Intn(n)}
			}
			sc.Steps = append(sc.Steps, Step{Op: "round", Nodes: perm[:m], Byz: []string{"honest", "garbage", "replay", "mutate", "craft", "copy1", "copy2"}[r.Intn(7)], Skip: skip, Late: r.Chance(1, 3)})
		case 5:
			sc.Steps = append(sc.Steps, Step{Op: "events", Kind: []string{"perform", "perform", "stale", "reorg", "funds"}[r.Intn(5)], Conf: r.Intn(3), Dup: r.Bool()})
		case 6:
			sc.Steps = append(sc.Steps, Step{Op: "restart", Nodes: []int{r.Intn(n)}})
		case 7:
			sc.Steps = append(sc.Steps, Step{Op: "sleep", Secs: []int{1, 5, 30, 101}[r.Intn(4)]})
		}
	}
	if r.Chance(1, 2) {
		// calm tail: fresh conditional upkeeps eligible on every node, every member in every round, whatever the Byzantine
		// members send; performed, still eligible, reported again
		mem := seqInts(0, n)
		cs := []int{1000 + 3*k}
		if r.Bool() {
			cs = append(cs, 1001+3*k)
		}
		byz := []string{"honest", "garbage", "replay", "mutate", "craft", "copy1"}[r.Intn(6)]
		sc.Steps = append(sc.Steps, Step{Op: "cond", Nodes: mem, Logs: cs})
		sc.Steps = append(sc.Steps, condCycle(mem, byz, cs, liveBound, nil)...)
		sc.Steps = append(sc.Steps, Step{Op: "events", Kind: "perform", Conf: 1 + r.Intn(2), OnlyNew: true, Dup: r.Bool()})
		sc.Steps = append(sc.Steps, condCycle(mem, byz, cs, liveBound, nil)...)
	}
	return sc
}

func TestC09(t *testing.T) {
	dir := OutDir(t, "C09")
	var ss []Scenario
	if rf := ReplayFile(); rf != "" {
		ss = LoadReplayCases[Scenario](t, rf)
	} else {
		ss = append(ss, LoadCorpus[Scenario](t, "C09")...)
		ss = append(ss, boundary()...)
		r := NewRng(EnvSeed())
		for i := 0; i < EnvInt("VERIF_N", 12); i++ {
			ss = append(ss, randomScenario(r, i))
		}
	}
	cf := NewCaseFile("C09", "Base.Util", "Model.Network")
	cf.Prelude = "Open Scope N_scope."
	fam := map[string]int{}
	for i := range ss {
		sc := &ss[i]
		sc.Rounds, sc.Agreed, sc.Transmits, sc.Err = 0, 0, 0, ""
		bubble(t, func(t *testing.T) { runScenario(t, sc) })
		if sc.Err != "" {
			t.Fatalf("scenario %d (%s): %s", i, sc.Family, sc.Err)
		}
		cf.Add(sc.term)
		fam[sc.Family]++
	}
	cf.Write(t, dir, "cases.v", "n_case", [][2]string{
		{"mism", "find_idx (fun k => negb (n_conforms k)) cases"},
		{"bad", "find_idx (fun k => negb (K09 k)) cases"},
		{"kf_rebatch", "find_idx n_kf_rebatch cases"},
		{"cov_live", "find_idx (fun k => negb (Nat.eqb (length (nc_live k)) 0)) cases"},
		{"nontriv", "find_idx n_nontriv cases"},
	})
	WriteJSON(t, filepath.Join(dir, "cases.json"), map[string]any{"property": "C09", "seed": EnvSeed(), "cases": ss, "families": fam})
	_ = fmt.Sprint
}

// bubble runs f in a synctest bubble.  Goroutines that Close leaves durably blocked (a C18 matter,
// checked there) make synctest panic when the bubble ends; that is not what C09 is about, so the
// panic is absorbed here and the leftover goroutines stay parked.
func bubble(t *testing.T, f func(*testing.T)) {
	defer func() {
		if r := recover(); r != nil {
			if s, ok := r.(string); !ok || !strings.Contains(s, "blocked goroutines remain") {
				if e, ok := r.(error); !ok || !strings.Contains(e.Error(), "blocked goroutines remain") {
					panic(r)
				}
			}
		}
	}()
	synctest.Test(t, f)
}
