package c08

import "math/big"

func bigMax() *big.Int {
	v, _ := new(big.Int).SetString("115792089237316195423570985008687907853269984665640564039457584007913129639935", 10)
	return v
}
