package c08

import (
	"context"
	"path/filepath"
	"sync/atomic"
	"testing"
	"time"

	gojson "github.com/goccy/go-json"

	. "verifharness/h"

	"github.com/smartcontractkit/libocr/offchainreporting2plus/ocr3types"
	ocr2plustypes "github.com/smartcontractkit/libocr/offchainreporting2plus/types"

	ocr2keepers "github.com/smartcontractkit/chainlink-automation/pkg/v3"
	common "github.com/smartcontractkit/chainlink-common/pkg/types/automation"
)

// TestC08HistRace: real clock, real goroutines. The block source keeps delivering two alternating
// histories (two forks of different length) while observations are built. "Block history is the
// leading 256 entries of the node's latest block-history view": every observation must carry a prefix
// of ONE delivered history, never a mixture of two.
func TestC08HistRace(t *testing.T) { runHistRace(t, "C08") }

// TestC03HistRace: the same run judged by C03's clause - every observation the node produced is accepted by a peer's
// ValidateObservation (a mixture of two histories repeats block numbers) and is within the length limit.
func TestC03HistRace(t *testing.T) { runHistRace(t, "C03") }

func runHistRace(t *testing.T, prop string) {
	dir := OutDir(t, prop)
	nd := NewNode(t, NodeOpts{N: 4, F: 1})
	peer := NewNode(t, NodeOpts{N: 4, F: 1, Oracle: 2})
	defer peer.Plugin.Close()
	rejected, tooLong := 0, 0
	mk := func(fork, n int) common.BlockHistory {
		var h common.BlockHistory
		for i := 0; i < n; i++ {
			h = append(h, common.BlockKey{Number: common.BlockNumber(5000 - i), Hash: Hash32("fork", fork*100000+5000-i)})
		}
		return h
	}
	hs := []common.BlockHistory{mk(1, 300), mk(2, 3), mk(3, 256), mk(4, 40)}
	var stop atomic.Bool
	done := make(chan struct{})
	go func() {
		defer close(done)
		for i := 0; !stop.Load(); i++ {
			nd.Blocks.Publish(hs[i%len(hs)])
		}
	}()
	time.Sleep(20 * time.Millisecond)
	n := 3000
	if EnvTier() == "thorough" {
		n = 30000
	}
	mixed := 0
	var example []uint64
	for i := 0; i < n; i++ {
		ob, err := nd.Plugin.Observation(context.Background(), ocr3types.OutcomeContext{SeqNr: uint64(i + 1)}, nil)
		if err != nil {
			t.Fatal(err)
		}
		if verr := peer.Plugin.ValidateObservation(context.Background(), ocr3types.OutcomeContext{SeqNr: uint64(i + 1)}, nil,
			ocr2plustypes.AttributedObservation{Observation: ob, Observer: 0}); verr != nil {
			rejected++
		}
		if len(ob) > ocr2keepers.MaxObservationLength {
			tooLong++
		}
		var o ocr2keepers.AutomationObservation
		if err := gojson.Unmarshal(ob, &o); err != nil {
			t.Fatal(err)
		}
		ok := len(o.BlockHistory) == 0
		for _, h := range hs {
			want := h
			if len(want) > 256 {
				want = want[:256]
			}
			if len(o.BlockHistory) == len(want) {
				same := true
				for k := range want {
					same = same && want[k] == o.BlockHistory[k]
				}
				ok = ok || same
			}
		}
		if !ok {
			mixed++
			if example == nil {
				for _, b := range o.BlockHistory {
					example = append(example, uint64(b.Number)*10+uint64(b.Hash[31]%10))
					if len(example) > 8 {
						break
					}
				}
			}
		}
	}
	stop.Store(true)
	// unblock a publisher stuck on a full channel, then stop the instance
	go func() {
		for {
			select {
			case <-done:
				return
			default:
				time.Sleep(time.Millisecond)
			}
		}
	}()
	nd.Plugin.Close()
	var viol []any
	if mixed > 0 {
		viol = append(viol, map[string]any{"kind": "observation carries a block history that is not a prefix of any delivered history", "count": mixed, "of": n, "example_numbers": example})
	}
	if rejected > 0 || tooLong > 0 {
		viol = append(viol, map[string]any{"kind": "an observation the node produced while block histories kept arriving is rejected by a peer's ValidateObservation / exceeds the length limit",
			"rejected": rejected, "too_long": tooLong, "of": n})
	}
	WriteJSON(t, filepath.Join(dir, "direct_histrace.json"), map[string]any{
		"evaluations": n, "nontrivial_keys": []string{"histrace-a", "histrace-b"}, "violations": viol,
		"samples":      []any{map[string]any{"observations": n, "alternating_histories": []int{300, 3, 256, 40}}},
		"distribution": map[string]any{"observations": n},
	})
}
