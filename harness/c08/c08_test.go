// Package c08 drives the real ocr3Plugin.Observation (public factory, real flows, stores, hooks and
// coordinator on a virtual clock) for C08 and the observation clauses of C03.
package c08

import (
	"context"
	"encoding/hex"
	"fmt"
	"math/rand"
	"path/filepath"
	"sort"
	"strings"
	"sync"
	"testing"
	"testing/synctest"
	"time"

	gojson "github.com/goccy/go-json"

	. "verifharness/h"

	"github.com/smartcontractkit/libocr/offchainreporting2plus/ocr3types"
	ocr2plustypes "github.com/smartcontractkit/libocr/offchainreporting2plus/types"

	ocr2keepers "github.com/smartcontractkit/chainlink-automation/pkg/v3"
	"github.com/smartcontractkit/chainlink-automation/pkg/v3/plugin"
	"github.com/smartcontractkit/chainlink-automation/pkg/v3/random"
	common "github.com/smartcontractkit/chainlink-common/pkg/types/automation"
)

// generator form
type C08Case struct {
	Family   string `json:"family"`
	Seq      uint64 `json:"seq"`
	Digest   int    `json:"digest"`
	Staged   int    `json:"staged"`    // number of log results staged
	PDPad    []int  `json:"pd_pad,omitempty"` // extra perform-data bytes per staged result (tuned: see tuneExact)
	Exact    bool   `json:"exact,omitempty"`  // tune the case until the observation is exactly the maximum length
	PDMode   int    `json:"pd_mode"`   // 0: mixed sizes {0,1,9999,10000}; 1: all 10000; 2: all small; 3: all 9999
	InFlight int    `json:"in_flight"` // number of staged results with an accepted report
	EarlyTwice int  `json:"early_twice,omitempty"` // number of logs whose report was accepted 21 min before they are checked and accepted again on a higher block 6 min before (lockout 20 min: still in flight)
	LogProps int    `json:"log_props"`
	CondUpk  int    `json:"cond_upkeeps"`
	PropsFly int    `json:"props_in_flight"`
	HistLen  int    `json:"hist_len"`
	PrevAgr  int    `json:"prev_agreed"` // previous outcome agrees on this many staged results (removed by the pre-build hook)
	PrevSurf int    `json:"prev_surfaced"`
	Order    uint64 `json:"order"` // insertion order seed
	Rollback bool   `json:"rollback,omitempty"` // an earlier, HIGHER block history (another fork) is delivered first: the view moves backwards
	Restage  int    `json:"restage,omitempty"`  // the first k logs are staged at block 1000, and staged again at block 1001 four minutes later (twin: only the later)
	Quick    bool   `json:"quick,omitempty"`    // observe 1.5 s after feeding the providers: each flow has ticked exactly once, nothing has viewed the proposals yet
	HistGrow int    `json:"hist_grow,omitempty"` // after a first observation the block history grows to this length (a restarted block source catches up) and late recovery proposals arrive; the observation of the NEXT round (same ordering seed) is the one judged
	Second   bool   `json:"second,omitempty"`   // the log proposals surfaced by the previous outcome are proposed again afterwards; a SECOND observation is the one judged
	AccLower bool   `json:"acc_lower,omitempty"` // in-flight reports for proposals carry a LOWER check block than the stored proposal
	AgedAgain bool  `json:"aged_again,omitempty"` // the expired proposals are made again after the observation that purged them; the NEXT observation is judged
	Aged     int    `json:"aged,omitempty"`     // this many log proposals and conditional upkeeps were proposed more than 24 h before everything else (expired, still stored)
	WarmSeq  uint64 `json:"warm_seq,omitempty"` // if non-zero: Observation is first called with this sequence number (exercises the sorter memo)
	// observed
	Perf   []int  `json:"perf,omitempty"`
	NProps int    `json:"n_props"`
	Len    int    `json:"len"`
	PeerOK bool   `json:"peer_ok"`
	TwinOK bool   `json:"twin_ok"`
	HistOK bool   `json:"hist_ok"`
	Err    string `json:"err,omitempty"`
	term   string
}

func pdFor(c *C08Case, i int) []byte {
	var n int
	switch c.PDMode {
	case 1:
		n = 10000
	case 2:
		n = i % 7
	case 3:
		n = 9999
	case 4:
		n = 6500 + (i*37)%1400 // 6.5 - 7.9 KB: about a hundred of them are just over the byte limit once base64-encoded
	case 5:
		n = 7000 + i%3
	case 6:
		n = 9000
	default:
		n = []int{0, 1, 9999, 10000, 32, 500}[i%6]
	}
	if i < len(c.PDPad) {
		n += c.PDPad[i]
	}
	b := make([]byte, n)
	for j := range b {
		b[j] = byte(i + j)
	}
	return b
}

// tuneExact searches the number of staged results, the history length and the perform-data sizes (all below
// 10,000 bytes) for which node a's observation is exactly the advertised maximum: three more bytes of perform data
// are four more base64 characters, and the remainder mod 4 is found by trying neighbouring counts.  A length the
// producer may emit (it cuts only above the maximum) is a length every peer has to accept.
func tuneExact(t *testing.T, c *C08Case) bool {
	const limit = 1_000_000
	for hist := c.HistLen; hist < c.HistLen+12; hist++ {
		for n := c.Staged; n > c.Staged-10 && n > 0; n-- {
			try := *c
			try.Staged, try.HistLen, try.PDPad = n, hist, nil
			synctest.Test(t, func(t *testing.T) { runC08(t, &try) })
			delta := limit - try.Len
			if try.Err != "" || delta < 0 || delta%4 != 0 {
				continue
			}
			q := delta / 4
			pad := make([]int, n)
			for i := 0; q > 0 && i < n; i++ {
				step := q
				if step > 300 {
					step = 300
				}
				pad[i] = 3 * step
				q -= step
			}
			if q > 0 {
				continue
			}
			try.PDPad = pad
			try.Perf, try.Err = nil, ""
			synctest.Test(t, func(t *testing.T) { runC08(t, &try) })
			if try.Err == "" && try.Len == limit {
				c.Staged, c.HistLen, c.PDPad = n, hist, pad
				return true
			}
		}
	}
	return false
}

func logPayload(i int, blk uint64) common.UpkeepPayload {
	id := UpkeepID(1, 100+i%17)
	tr := common.NewLogTrigger(common.BlockNumber(blk), Hash32("cb", int(blk)), &common.LogTriggerExtension{
		TxHash: Hash32("tx", i), Index: uint32(i % 5), BlockHash: Hash32("lb", i), BlockNumber: common.BlockNumber(blk - 1)})
	return common.UpkeepPayload{UpkeepID: id, Trigger: tr, WorkID: WG(id, tr)}
}

type recorder struct {
	mu      sync.Mutex
	checked map[string]common.UpkeepPayload
	pd      map[string][]byte
}

func (r *recorder) fn(_ context.Context, ps ...common.UpkeepPayload) ([]common.CheckResult, error) {
	r.mu.Lock()
	defer r.mu.Unlock()
	var out []common.CheckResult
	for _, p := range ps {
		r.checked[p.WorkID] = p
		out = append(out, common.CheckResult{Eligible: true, UpkeepID: p.UpkeepID, Trigger: p.Trigger, WorkID: p.WorkID,
			GasAllocated: 5_000_000, PerformData: r.pd[p.WorkID], FastGasWei: bigMax(), LinkNative: bigMax()})
	}
	return out, nil
}

func runC08(t *testing.T, c *C08Case) {
	rng := NewRng(c.Order)
	cd := ocr2plustypes.ConfigDigest{byte(c.Digest), 9}
	var pushes []func()
	mk := func(order []int) (*Node, *recorder) {
		nd := NewNode(t, NodeOpts{N: 4, F: 1, Digest: cd})
		rec := &recorder{checked: map[string]common.UpkeepPayload{}, pd: map[string][]byte{}}
		var logs []common.UpkeepPayload
		for _, i := range order {
			p := logPayload(i, 1000)
			rec.pd[p.WorkID] = pdFor(c, i)
			logs = append(logs, p)
		}
		nd.Runnable.SetFn(rec.fn)
		pushes = append(pushes, func() { nd.Logs.Push(logs...) })
		return nd, rec
	}
	orderA := make([]int, c.Staged)
	for i := range orderA {
		orderA[i] = i
	}
	orderB := rng.Perm(c.Staged)
	a, recA := mk(orderA)
	if c.Restage > 0 {
		orderB = nil // the twin only ever sees the later checks
	}
	b, recB := mk(orderB)
	peer := NewNode(t, NodeOpts{N: 4, F: 1, Oracle: 3, Digest: cd})
	other := NewNode(t, NodeOpts{N: 4, F: 1, Digest: ocr2plustypes.ConfigDigest{byte(c.Digest) + 101, 9}})
	defer func() {
		time.Sleep(2 * time.Second)
		synctest.Wait()
		a.Plugin.Close()
		b.Plugin.Close()
		peer.Plugin.Close()
		other.Plugin.Close()
		synctest.Wait()
	}()
	// proposals (node a only): log recovery and conditional sampling
	var recov []common.UpkeepPayload
	for i := 0; i < c.LogProps; i++ {
		recov = append(recov, logPayload(100000+i, 900))
	}
	var conds []common.UpkeepPayload
	for i := 0; i < c.CondUpk; i++ {
		id := UpkeepID(0, 500+i)
		tr := common.NewTrigger(990, Hash32("cb", 990))
		conds = append(conds, common.UpkeepPayload{UpkeepID: id, Trigger: tr, WorkID: WG(id, tr)})
	}
	agedL, agedC := 0, 0
	if c.Aged > 0 {
		// the first proposals of each kind are made now and left alone for more than the 24 h proposal expiry:
		// they are still in the metadata store (nothing has viewed them since) when the live ones arrive, and
		// their keys sort among the live keys
		agedL, agedC = min(c.Aged, len(recov)), min(c.Aged, len(conds))
		a.Recov.Push(recov[:agedL]...)
		a.Getter.Set(conds[:agedC])
		time.Sleep(1500 * time.Millisecond) // the recovery proposal flow has ticked; the sampling flow ticks at 3 s
		synctest.Wait()
		time.Sleep(5 * time.Second)
		synctest.Wait()
		a.Getter.Set(nil)
		time.Sleep(24*time.Hour + time.Minute)
		synctest.Wait()
	}
	earlyBlocked := map[string]bool{}
	if c.EarlyTwice > 0 {
		early := func(nd *Node, p common.UpkeepPayload) {
			rep, _ := nd.Enc.Encode(common.CheckResult{Eligible: true, UpkeepID: p.UpkeepID, Trigger: p.Trigger, WorkID: p.WorkID, GasAllocated: 1, FastGasWei: bigMax(), LinkNative: bigMax()})
			_, _ = nd.Plugin.ShouldAcceptAttestedReport(context.Background(), 1, ocr3types.ReportWithInfo[plugin.AutomationReportInfo]{Report: rep})
		}
		for _, step := range []struct {
			blk   uint64
			sleep time.Duration
		}{{900, 15 * time.Minute}, {1000, 6 * time.Minute}} {
			for i := 0; i < c.EarlyTwice && i < c.Staged; i++ {
				p := logPayload(c.Staged-1-i, step.blk)
				earlyBlocked[p.WorkID] = true
				early(a, p)
				early(b, p)
			}
			time.Sleep(step.sleep)
			synctest.Wait()
		}
	}
	for _, f := range pushes {
		f()
	}
	a.Recov.Push(recov[agedL:]...)
	a.Getter.Set(conds[agedC:])
	var hist common.BlockHistory
	for i := 0; i < c.HistLen; i++ {
		hist = append(hist, common.BlockKey{Number: common.BlockNumber(5000 - i), Hash: Hash32("h", 5000-i)})
	}
	if c.Rollback {
		var old common.BlockHistory
		for i := 0; i < c.HistLen+20; i++ {
			old = append(old, common.BlockKey{Number: common.BlockNumber(6000 - i), Hash: Hash32("oldfork", 6000-i)})
		}
		a.Blocks.Publish(old)
		b.Blocks.Publish(old)
		time.Sleep(time.Second)
		synctest.Wait()
	}
	a.Blocks.Publish(hist)
	b.Blocks.Publish(hist)
	if c.Quick {
		time.Sleep(1500 * time.Millisecond) // log flow and recovery proposal flow have ticked once; the sampling flow (3 s) has not
	} else {
		time.Sleep(7 * time.Second) // log flow (1 s), recovery proposal flow (1 s), two sampling ticks (3 s)
	}
	synctest.Wait()
	a.Getter.Set(nil) // freeze the conditional view
	if c.Restage > 0 {
		// four minutes later the first k logs are checked again on block 1001 (a strictly higher check block
		// replaces the staged result and must count as freshly staged); the twin stages only these
		time.Sleep(4 * time.Minute)
		synctest.Wait()
		var again []common.UpkeepPayload
		for i := 0; i < c.Restage && i < c.Staged; i++ {
			p := logPayload(i, 1001)
			recA.mu.Lock()
			recA.pd[p.WorkID] = pdFor(c, i)
			recA.mu.Unlock()
			recB.mu.Lock()
			recB.pd[p.WorkID] = pdFor(c, i)
			recB.mu.Unlock()
			again = append(again, p)
		}
		a.Logs.Push(again...)
		b.Logs.Push(again...)
		// ... and 90 s after that the results staged first (and not replaced) are past the 5-minute TTL
		time.Sleep(90 * time.Second)
		synctest.Wait()
	}

	// which conditional upkeeps were sampled (= proposed)
	recA.mu.Lock()
	var condView, logView []common.UpkeepPayload
	for _, p := range conds[agedC:] {
		if _, ok := recA.checked[p.WorkID]; ok {
			condView = append(condView, p)
		}
	}
	recA.mu.Unlock()
	logView = append(logView, recov[agedL:]...)

	// in flight: accepted reports for some staged results and some proposals
	blocked := map[string]bool{}
	for w := range earlyBlocked {
		blocked[w] = true
	}
	accept := func(nd *Node, p common.UpkeepPayload) {
		if c.AccLower && p.Trigger.BlockNumber > 20 && p.Trigger.BlockNumber != 1000 {
			p.Trigger.BlockNumber -= 10 // the accepted report was checked on an earlier block than the stored proposal
		}
		rep, _ := nd.Enc.Encode(common.CheckResult{Eligible: true, UpkeepID: p.UpkeepID, Trigger: p.Trigger, WorkID: p.WorkID, GasAllocated: 1, FastGasWei: bigMax(), LinkNative: bigMax()})
		_, _ = nd.Plugin.ShouldAcceptAttestedReport(context.Background(), 1, ocr3types.ReportWithInfo[plugin.AutomationReportInfo]{Report: rep})
	}
	for i := 0; i < c.InFlight && i < c.Staged; i++ {
		p := logPayload((i*7)%c.Staged, 1000)
		if !blocked[p.WorkID] {
			blocked[p.WorkID] = true
			accept(a, p)
			accept(b, p)
		}
	}
	for i := 0; i < c.PropsFly; i++ {
		if i%2 == 0 && i/2 < len(logView) {
			blocked[logView[i/2].WorkID] = true
			accept(a, logView[i/2])
			accept(b, logView[i/2]) // the twin has the same work in flight
		} else if i/2 < len(condView) {
			blocked[condView[i/2].WorkID] = true
			accept(a, condView[i/2])
			accept(b, condView[i/2])
		}
	}
	// previous outcome: agreed performables are removed from staging, surfaced proposals from metadata
	removed := map[string]bool{}
	var surfaced []common.UpkeepPayload // proposals surfaced by the previous outcome (they go to the proposal queue -> final flows)
	var prevBytes []byte
	if c.PrevAgr > 0 || c.PrevSurf > 0 {
		var po ocr2keepers.AutomationOutcome
		for i := 0; i < c.PrevAgr && i < c.Staged; i++ {
			p := logPayload((i*11+3)%c.Staged, 1000)
			if removed[p.WorkID] {
				continue
			}
			removed[p.WorkID] = true
			po.AgreedPerformables = append(po.AgreedPerformables, common.CheckResult{Eligible: true, UpkeepID: p.UpkeepID, Trigger: p.Trigger, WorkID: p.WorkID,
				GasAllocated: 5_000_000, PerformData: pdFor(c, (i*11+3)%c.Staged), FastGasWei: bigMax(), LinkNative: bigMax()})
		}
		var round []common.CoordinatedBlockProposal
		for i := 0; i < c.PrevSurf; i++ {
			var p common.UpkeepPayload
			if i%2 == 0 && i/2 < len(logView) {
				p = logView[len(logView)-1-i/2]
			} else if i/2 < len(condView) {
				p = condView[len(condView)-1-i/2]
			} else {
				continue
			}
			if removed[p.WorkID] {
				continue
			}
			removed[p.WorkID] = true
			surfaced = append(surfaced, p)
			round = append(round, common.CoordinatedBlockProposal{UpkeepID: p.UpkeepID, Trigger: p.Trigger, WorkID: p.WorkID})
		}
		po.SurfacedProposals = [][]common.CoordinatedBlockProposal{round}
		prevBytes, _ = po.Encode()
	}
	if c.WarmSeq != 0 {
		// earlier rounds on the same instances: fills the shuffled-id memo for another (or the same) random source
		for _, s := range []uint64{c.WarmSeq, c.WarmSeq + 1} {
			_, _ = a.Plugin.Observation(context.Background(), ocr3types.OutcomeContext{SeqNr: s}, nil)
			_, _ = b.Plugin.Observation(context.Background(), ocr3types.OutcomeContext{SeqNr: s}, nil)
		}
	}
	seq := c.Seq
	outctx := ocr3types.OutcomeContext{SeqNr: seq, PreviousOutcome: prevBytes}
	{
		// another job of the same process (another config digest) reaches this sequence number first: the round's order
		// is a function of (digest, sequence number), nothing derived for one digest may serve another
		_, _ = other.Plugin.Observation(context.Background(), ocr3types.OutcomeContext{SeqNr: seq}, nil)
	}
	obA, errA := a.Plugin.Observation(context.Background(), outctx, nil)
	obB, errB := b.Plugin.Observation(context.Background(), outctx, nil)
	if errA != nil || errB != nil {
		c.Err = fmt.Sprint(errA, errB)
		return
	}
	if c.Second {
		// the recoverer proposes the same logs again (they were surfaced and removed from the pending set, never
		// viewed in between); the observation of the NEXT round is the one judged
		var again []common.UpkeepPayload
		for _, p := range logView {
			if removed[p.WorkID] {
				again = append(again, p)
				delete(removed, p.WorkID)
			}
		}
		a.Recov.Push(again...)
		time.Sleep(3 * time.Second)
		synctest.Wait()
		seq++
		outctx = ocr3types.OutcomeContext{SeqNr: seq}
		obA, errA = a.Plugin.Observation(context.Background(), outctx, nil)
		obB, errB = b.Plugin.Observation(context.Background(), outctx, nil)
		if errA != nil || errB != nil {
			c.Err = fmt.Sprint(errA, errB)
			return
		}
	}
	if c.HistGrow > 0 && !c.Second {
		var grown common.BlockHistory
		for i := 0; i < c.HistGrow; i++ {
			grown = append(grown, common.BlockKey{Number: common.BlockNumber(5000 + 3 - i), Hash: Hash32("h", 5000+3-i)})
		}
		a.Blocks.Publish(grown)
		b.Blocks.Publish(grown)
		hist = grown
		var late []common.UpkeepPayload
		for i := 0; i < 5; i++ {
			late = append(late, logPayload(200000+i, 900))
		}
		a.Recov.Push(late...)
		time.Sleep(1500 * time.Millisecond)
		synctest.Wait()
		logView = append(logView, late...)
		seq++
		outctx = ocr3types.OutcomeContext{SeqNr: seq}
		obA, errA = a.Plugin.Observation(context.Background(), outctx, nil)
		obB, errB = b.Plugin.Observation(context.Background(), outctx, nil)
		if errA != nil || errB != nil {
			c.Err = fmt.Sprint(errA, errB)
			return
		}
	}
	if c.AgedAgain && c.Aged > 0 && !c.Second {
		// the proposals that had expired (and were purged by the views of the observation just built) are made again:
		// each is pending once, whatever the store did with the old key
		recA.mu.Lock()
		for _, p := range conds[:agedC] {
			delete(recA.checked, p.WorkID)
		}
		recA.mu.Unlock()
		a.Recov.Push(recov[:agedL]...)
		a.Getter.Set(conds[:agedC])
		time.Sleep(7 * time.Second)
		synctest.Wait()
		a.Getter.Set(nil)
		recA.mu.Lock()
		for _, p := range conds[:agedC] {
			if _, ok := recA.checked[p.WorkID]; ok {
				condView = append(condView, p)
			}
		}
		recA.mu.Unlock()
		logView = append(logView, recov[:agedL]...)
		seq++
		outctx = ocr3types.OutcomeContext{SeqNr: seq}
		obA, errA = a.Plugin.Observation(context.Background(), outctx, nil)
		obB, errB = b.Plugin.Observation(context.Background(), outctx, nil)
		if errA != nil || errB != nil {
			c.Err = fmt.Sprint(errA, errB)
			return
		}
	}
	c.Len = len(obA)
	c.PeerOK = peer.Plugin.ValidateObservation(context.Background(), outctx, nil, ocr2plustypes.AttributedObservation{Observation: obA}) == nil
	var oa, ob ocr2keepers.AutomationObservation
	if err := gojson.Unmarshal(obA, &oa); err != nil {
		c.Err = "own observation does not decode: " + err.Error()
		return
	}
	_ = gojson.Unmarshal(obB, &ob)
	c.TwinOK = len(oa.Performable) == len(ob.Performable)
	if len(oa.UpkeepProposals) > 0 && len(ob.UpkeepProposals) == 0 && len(oa.Performable) < len(ob.Performable) {
		// only node a carries proposals: at the byte limit it may fit fewer results than its twin, but what it does
		// fit must still be the same canonical prefix
		c.TwinOK = true
	}
	for i := range oa.Performable {
		if c.TwinOK && oa.Performable[i].UniqueID() != ob.Performable[i].UniqueID() {
			c.TwinOK = false
		}
	}
	if c.Second && len(surfaced) > 0 {
		// the final flows staged the surfaced proposals' results on node a only (the twin never had the proposals):
		// the two nodes no longer hold the same candidates, so the twin clause says nothing about this case
		c.TwinOK = true
	}
	c.HistOK = len(oa.BlockHistory) <= len(hist)
	for i := range oa.BlockHistory {
		if c.HistOK && oa.BlockHistory[i] != hist[i] {
			c.HistOK = false
		}
	}
	c.NProps = len(oa.UpkeepProposals)

	// ---- Coq term
	wid := NewInterner()
	keyPerf := random.GetRandomKeySource(cd[:], seq/10)
	keyProp := random.GetRandomKeySource(cd[:], seq)
	type st struct {
		w    string
		size int
		sh   string
	}
	var staged []st
	var shs []string
	for i := 0; i < c.Staged; i++ {
		p := logPayload(i, 1000)
		if c.Restage > 0 {
			if i >= c.Restage {
				continue // expired: staged once, more than five minutes ago
			}
			p = logPayload(i, 1001)
		}
		if removed[p.WorkID] {
			continue
		}
		r := common.CheckResult{Eligible: true, UpkeepID: p.UpkeepID, Trigger: p.Trigger, WorkID: p.WorkID,
			GasAllocated: 5_000_000, PerformData: pdFor(c, i), FastGasWei: bigMax(), LinkNative: bigMax()}
		enc, _ := gojson.Marshal(r)
		s := random.ShuffleString(p.WorkID, keyPerf)
		staged = append(staged, st{p.WorkID, len(enc), s})
		shs = append(shs, s)
	}
	if c.Second {
		// in the three seconds before the second observation the final flows checked the surfaced proposals
		// (dequeued from the proposal queue) and staged their results
		for _, p := range surfaced {
			r := common.CheckResult{Eligible: true, UpkeepID: p.UpkeepID, Trigger: p.Trigger, WorkID: p.WorkID,
				GasAllocated: 5_000_000, PerformData: nil, FastGasWei: bigMax(), LinkNative: bigMax()}
			enc, _ := gojson.Marshal(r)
			sh := random.ShuffleString(p.WorkID, keyPerf)
			staged = append(staged, st{p.WorkID, len(enc), sh})
			shs = append(shs, sh)
		}
	}
	rk := RankOf(shs)
	var sres []string
	for _, s := range staged {
		sres = append(sres, fmt.Sprintf("mkSRes %d %d (%d)%%Z", wid.ID(s.w), rk[s.sh], s.size))
	}
	var bl []string
	var bkeys []string
	for w := range blocked {
		bkeys = append(bkeys, w)
	}
	sort.Strings(bkeys)
	for _, w := range bkeys {
		bl = append(bl, fmt.Sprint(wid.ID(w)))
	}
	view := func(ps []common.UpkeepPayload, tag int) (string, string) {
		var ws []string
		for _, p := range ps {
			if !removed[p.WorkID] {
				ws = append(ws, p.WorkID)
			}
		}
		sort.Strings(ws) // orderedMap.Keys() sorts
		var out []string
		nf := 0
		for _, w := range ws {
			out = append(out, fmt.Sprintf("(%d, %d)", wid.ID(w), tag))
			if !blocked[w] {
				nf++
			}
		}
		idx := make([]int, nf)
		for i := range idx {
			idx[i] = i
		}
		rand.New(random.NewKeyedCryptoRandSource(keyProp)).Shuffle(nf, func(i, j int) { idx[i], idx[j] = idx[j], idx[i] })
		return "[" + strings.Join(out, "; ") + "]", CoqList(idx, CoqNat)
	}
	lv, lp := view(logView, 1)
	cv, cp := view(condView, 0)
	base, _ := ocr2keepers.AutomationObservation{UpkeepProposals: oa.UpkeepProposals, BlockHistory: oa.BlockHistory}.Encode()
	var perf []string
	for _, r := range oa.Performable {
		perf = append(perf, fmt.Sprint(wid.ID(r.WorkID)))
		c.Perf = append(c.Perf, wid.ID(r.WorkID))
	}
	var props []string
	for _, p := range oa.UpkeepProposals {
		props = append(props, fmt.Sprintf("(%d, %d)", wid.ID(p.WorkID), int(UTG(p.UpkeepID))))
	}
	c.term = fmt.Sprintf("mkBCase (%d)%%Z [%s] [%s] %s %s %s %s %s [%s] [%s] %s %s (%d)%%Z %s %s",
		len(base), strings.Join(sres, "; "), strings.Join(bl, "; "), lv, lp, cv, cp, CoqNat(len(hist)),
		strings.Join(perf, "; "), strings.Join(props, "; "), CoqNat(len(oa.BlockHistory)), CoqBool(c.HistOK), c.Len, CoqBool(c.PeerOK), CoqBool(c.TwinOK))
	_ = hex.EncodeToString
}

func boundary() []C08Case {
	var cs []C08Case
	add := func(c C08Case) { c.Order = uint64(len(cs) + 1); cs = append(cs, c) }
	add(C08Case{Family: "empty", Seq: 1, Digest: 1})
	add(C08Case{Family: "few", Seq: 9, Digest: 1, Staged: 5, LogProps: 2, CondUpk: 3, HistLen: 10})
	add(C08Case{Family: "99-candidates", Seq: 10, Digest: 1, Staged: 99, PDMode: 2, HistLen: 256})
	add(C08Case{Family: "100-candidates", Seq: 11, Digest: 1, Staged: 100, PDMode: 2, HistLen: 257})
	add(C08Case{Family: "101-candidates", Seq: 19, Digest: 1, Staged: 101, PDMode: 2, HistLen: 300})
	add(C08Case{Family: "101-candidates-inflight", Seq: 20, Digest: 2, Staged: 101, PDMode: 2, InFlight: 3, HistLen: 255})
	add(C08Case{Family: "accepted-again-on-a-higher-block-within-the-lockout", Seq: 22, Digest: 1, Staged: 40, PDMode: 2, EarlyTwice: 5, HistLen: 20})
	add(C08Case{Family: "accepted-again-on-a-higher-block-within-the-lockout", Seq: 23, Digest: 2, Staged: 120, PDMode: 2, EarlyTwice: 30, InFlight: 4, HistLen: 20})
	add(C08Case{Family: "all-max-size-over-byte-limit", Seq: 21, Digest: 1, Staged: 150, PDMode: 1, HistLen: 256, LogProps: 6, CondUpk: 8})
	add(C08Case{Family: "all-9999-over-byte-limit", Seq: 29, Digest: 1, Staged: 100, PDMode: 3, HistLen: 256})
	add(C08Case{Family: "hundred-mid-size-results-just-over-the-byte-limit", Seq: 31, Digest: 1, Staged: 100, PDMode: 4, HistLen: 256})
	add(C08Case{Family: "hundred-mid-size-results-just-over-the-byte-limit", Seq: 32, Digest: 2, Staged: 140, PDMode: 5, HistLen: 30, LogProps: 3, CondUpk: 4})
	add(C08Case{Family: "observation-of-exactly-the-maximum-length", Seq: 36, Digest: 1, Staged: 79, PDMode: 6, HistLen: 2, Exact: true})
	add(C08Case{Family: "empty-history-after-a-non-empty-one", Seq: 33, Digest: 1, Staged: 5, PDMode: 2, HistLen: 0, Rollback: true})
	add(C08Case{Family: "two-log-and-nine-conditional-proposals", Seq: 34, Digest: 1, Staged: 3, LogProps: 2, CondUpk: 9, HistLen: 3})
	add(C08Case{Family: "two-log-and-nine-conditional-proposals", Seq: 35, Digest: 2, Staged: 0, LogProps: 0, CondUpk: 11, HistLen: 3})
	add(C08Case{Family: "byte-limit-cut-then-the-rest-of-the-observation-grows", Seq: 61, Digest: 1, Staged: 150, PDMode: 1, HistLen: 16, HistGrow: 256})
	add(C08Case{Family: "byte-limit-cut-then-the-rest-of-the-observation-grows", Seq: 71, Digest: 2, Staged: 100, PDMode: 3, HistLen: 3, HistGrow: 300, CondUpk: 6})
	add(C08Case{Family: "mixed-sizes-at-limit", Seq: 30, Digest: 2, Staged: 400, PDMode: 0, InFlight: 20, HistLen: 256, LogProps: 8, CondUpk: 12, PropsFly: 4})
	add(C08Case{Family: "seq-crossing-10", Seq: 39, Digest: 1, Staged: 120, PDMode: 2, HistLen: 5})
	add(C08Case{Family: "seq-crossing-10", Seq: 40, Digest: 1, Staged: 120, PDMode: 2, HistLen: 5})
	add(C08Case{Family: "memo-source-change", Seq: 40, WarmSeq: 38, Digest: 1, Staged: 130, PDMode: 2, HistLen: 5})
	add(C08Case{Family: "memo-same-source", Seq: 45, WarmSeq: 41, Digest: 1, Staged: 130, PDMode: 2, InFlight: 4, HistLen: 5})
	add(C08Case{Family: "six-props-per-type", Seq: 41, Digest: 1, Staged: 3, LogProps: 6, CondUpk: 9, HistLen: 3})
	add(C08Case{Family: "props-in-flight", Seq: 42, Digest: 1, Staged: 3, LogProps: 7, CondUpk: 9, PropsFly: 6, HistLen: 3})
	add(C08Case{Family: "previous-outcome-removes", Seq: 43, Digest: 1, Staged: 130, PDMode: 2, LogProps: 7, CondUpk: 6, PrevAgr: 40, PrevSurf: 5, HistLen: 3})
	add(C08Case{Family: "history-moves-backwards", Seq: 44, Digest: 1, Staged: 4, HistLen: 30, Rollback: true})
	add(C08Case{Family: "history-moves-backwards-long", Seq: 46, Digest: 2, Staged: 0, HistLen: 300, Rollback: true})
	add(C08Case{Family: "proposal-in-flight-at-lower-block", Seq: 47, Digest: 1, Staged: 3, LogProps: 7, CondUpk: 9, PropsFly: 6, HistLen: 3, AccLower: true})
	add(C08Case{Family: "restaged-higher-block-outlives-first-ttl", Seq: 48, Digest: 1, Staged: 12, Restage: 5, PDMode: 2, HistLen: 3})
	add(C08Case{Family: "restaged-all", Seq: 49, Digest: 2, Staged: 30, Restage: 30, PDMode: 2, HistLen: 3})
	add(C08Case{Family: "surfaced-then-proposed-again", Seq: 51, Digest: 1, Staged: 6, PDMode: 2, LogProps: 7, CondUpk: 4, PrevSurf: 6, HistLen: 3, Second: true})
	add(C08Case{Family: "surfaced-then-proposed-again", Seq: 52, Digest: 2, Staged: 0, LogProps: 8, CondUpk: 0, PrevSurf: 9, HistLen: 3, Second: true})
	add(C08Case{Family: "surfaced-before-any-view-then-proposed-again", Seq: 53, Digest: 1, Staged: 4, PDMode: 2, LogProps: 9, PrevSurf: 8, HistLen: 3, Second: true, Quick: true})
	add(C08Case{Family: "surfaced-before-any-view-then-proposed-again", Seq: 54, Digest: 2, Staged: 0, LogProps: 12, PrevSurf: 14, HistLen: 0, Second: true, Quick: true})
	add(C08Case{Family: "surfaced-before-any-view-then-proposed-again", Seq: 55, Digest: 3, Staged: 0, LogProps: 7, PrevSurf: 4, HistLen: 0, Second: true, Quick: true})
	add(C08Case{Family: "expired-proposals-among-live", Seq: 56, Digest: 1, Staged: 3, LogProps: 9, CondUpk: 9, Aged: 3, HistLen: 3})
	add(C08Case{Family: "expired-proposals-among-live", Seq: 57, Digest: 2, Staged: 0, LogProps: 12, CondUpk: 12, Aged: 6, HistLen: 3})
	add(C08Case{Family: "expired-proposals-among-live", Seq: 58, Digest: 3, Staged: 40, PDMode: 2, LogProps: 5, CondUpk: 5, Aged: 2, PropsFly: 2, HistLen: 3})
	add(C08Case{Family: "expired-proposals-made-again", Seq: 60, Digest: 1, Staged: 3, LogProps: 4, CondUpk: 4, Aged: 2, AgedAgain: true, HistLen: 3})
	add(C08Case{Family: "expired-proposals-made-again", Seq: 61, Digest: 2, Staged: 0, LogProps: 5, CondUpk: 3, Aged: 3, AgedAgain: true, HistLen: 3})
	add(C08Case{Family: "all-proposals-expired", Seq: 59, Digest: 1, Staged: 2, LogProps: 4, CondUpk: 4, Aged: 4, HistLen: 3})
	add(C08Case{Family: "thousands-staged", Seq: 50, Digest: 2, Staged: 3000, PDMode: 0, InFlight: 50, HistLen: 256, LogProps: 5, CondUpk: 5})
	return cs
}

func random08(r *Rng) C08Case {
	c := C08Case{Family: "random", Seq: r.U64() % 1000, Digest: 1 + r.Intn(3), Order: r.U64()}
	c.Staged = []int{0, 1, 7, 40, 99, 100, 101, 150, 300, 800}[r.Intn(10)]
	c.PDMode = r.Intn(4)
	if c.Staged > 0 {
		c.InFlight = []int{0, 0, 1, 5, 30}[r.Intn(5)]
		c.PrevAgr = []int{0, 0, 0, 3, 60}[r.Intn(5)]
	}
	c.LogProps = r.Intn(9)
	c.CondUpk = r.Intn(12)
	c.PropsFly = r.Intn(4)
	c.PrevSurf = r.Intn(3)
	c.HistLen = []int{0, 1, 20, 255, 256, 257, 400}[r.Intn(7)]
	if r.Chance(1, 3) {
		c.WarmSeq = 1 + r.U64()%1000
	}
	c.Second = c.PrevSurf > 0 && r.Chance(1, 2)
	c.Quick = r.Chance(1, 3)
	if c.Quick && r.Chance(1, 2) {
		c.PrevSurf = 2 + r.Intn(8)
		c.Second = true
	}
	c.Rollback = r.Chance(1, 4)
	c.AccLower = r.Chance(1, 3)
	if !c.Quick && c.PrevSurf == 0 && r.Chance(1, 4) {
		c.Aged = 1 + r.Intn(5)
		c.AgedAgain = r.Chance(1, 2)
	}
	if c.Staged > 0 && c.Staged <= 150 && c.PrevAgr == 0 && r.Chance(1, 5) {
		c.Restage = 1 + r.Intn(c.Staged)
	}
	return c
}

func runAll(t *testing.T, prop, base string, results [][2]string) {
	dir := OutDir(t, prop)
	var cases []C08Case
	if rf := ReplayFile(); rf != "" {
		cases = LoadReplayCases[C08Case](t, rf)
	} else {
		cases = append(cases, LoadCorpus[C08Case](t, prop)...)
		cases = append(cases, boundary()...)
		r := NewRng(EnvSeed())
		for i := 0; i < EnvInt("VERIF_N", 25); i++ {
			cases = append(cases, random08(r))
		}
	}
	cf := NewCaseFile(prop, "Base.Util", "Model.Observation")
	cf.Prelude = "Open Scope N_scope."
	fam := map[string]int{}
	var kept []C08Case
	for i := range cases {
		c := &cases[i]
		if c.Exact && c.PDPad == nil && !tuneExact(t, c) {
			c.Family += "-not-reached"
		}
		c.Perf, c.Err = nil, ""
		synctest.Test(t, func(t *testing.T) { runC08(t, c) })
		if c.Err != "" {
			t.Fatalf("case %d (%s): %s", i, c.Family, c.Err)
		}
		cf.Add(c.term)
		fam[c.Family]++
		kept = append(kept, *c)
	}
	cf.Write(t, dir, base+".v", "b_case", results)
	WriteJSON(t, filepath.Join(dir, base+".json"), map[string]any{"property": prop, "seed": EnvSeed(), "cases": kept, "families": fam})
}

func TestC08(t *testing.T) {
	runAll(t, "C08", "cases", [][2]string{
		{"mism", "find_idx b_mism cases"},
		{"bad", "find_idx (fun k => negb (K08 k)) cases"},
		{"nontriv", "find_idx b_nontriv cases"},
		{"cov", "map b_cov cases"},
	})
}

// observation clauses of C03 on the same cases
func TestC03Obs(t *testing.T) {
	runAll(t, "C03", "cases_obs", [][2]string{
		{"mism", "find_idx b_mism cases"},
		{"bad", "find_idx (fun k => negb (K03obs k)) cases"},
		{"nontriv", "find_idx b_nontriv cases"},
	})
}

// C03: a round has enough observations exactly when at least 2f+1 are present (full grid)
func TestC03Quorum(t *testing.T) {
	dir := OutDir(t, "C03")
	type viol struct {
		N, F, K int
		Got  bool
	}
	var bad []viol
	evals := 0
	var keys []string
	for n := 1; n <= 31; n++ {
		for f := 0; 3*f+1 <= n; f++ {
			nd := NewNode(t, NodeOpts{N: n, F: f})
			for k := 0; k <= n; k++ {
				aos := make([]ocr2plustypes.AttributedObservation, k)
				got, err := nd.Plugin.ObservationQuorum(context.Background(), ocr3types.OutcomeContext{SeqNr: 1}, nil, aos)
				evals++
				if err != nil || got != (k >= 2*f+1) {
					bad = append(bad, viol{n, f, k, got})
				}
				if k == 2*f+1 || k == 2*f {
					keys = append(keys, fmt.Sprintf("q-%d-%d-%d", n, f, k))
				}
			}
			nd.Plugin.Close()
		}
	}
	WriteJSON(t, filepath.Join(dir, "direct_quorum.json"), map[string]any{
		"evaluations": evals, "nontrivial_keys": keys, "violations": bad,
		"samples":      []any{map[string]any{"n": 4, "f": 1, "k": 3, "expected": true}, map[string]any{"n": 4, "f": 1, "k": 2, "expected": false}},
		"distribution": map[string]any{"grid": "n<=31, f<=(n-1)/3, k<=n", "exhaustive": true},
	})
}

// C03: the limits the factory ADVERTISES to libocr (ReportingPluginInfo.Limits) are the ones the
// builders enforce and the checks compare against (the package constants read by gen/): an observation /
// outcome / report count within the constant is within the advertised maximum only if the two agree.
func TestC03Limits(t *testing.T) {
	dir := OutDir(t, "C03")
	var bad []map[string]any
	evals := 0
	for _, nf := range [][2]int{{4, 1}, {10, 3}, {1, 0}} {
		nd := NewNode(t, NodeOpts{N: nf[0], F: nf[1]})
		l := nd.Info.Limits
		for _, c := range []struct {
			name      string
			adv, want int
		}{
			{"MaxObservationLength", l.MaxObservationLength, ocr2keepers.MaxObservationLength},
			{"MaxOutcomeLength", l.MaxOutcomeLength, ocr2keepers.MaxOutcomeLength},
			{"MaxReportLength", l.MaxReportLength, ocr2keepers.MaxReportLength},
			{"MaxReportCount", l.MaxReportCount, ocr2keepers.MaxReportCount},
			{"MaxQueryLength", l.MaxQueryLength, 0},
		} {
			evals++
			if c.adv != c.want {
				bad = append(bad, map[string]any{"limit": c.name, "advertised": c.adv, "enforced_by_the_builders": c.want, "n": nf[0], "f": nf[1]})
			}
		}
		nd.Plugin.Close()
	}
	WriteJSON(t, filepath.Join(dir, "direct_limits.json"), map[string]any{
		"evaluations": evals, "nontrivial_keys": []string{"limits-obs", "limits-outcome", "limits-report-count"}, "violations": bad,
		"samples":      []any{map[string]any{"MaxObservationLength": ocr2keepers.MaxObservationLength, "MaxOutcomeLength": ocr2keepers.MaxOutcomeLength, "MaxReportCount": ocr2keepers.MaxReportCount}},
		"distribution": map[string]any{"instances": 3},
	})
}
