// Package c14 drives the REAL generic worker group (pkg/util/worker.go: NewWorkerGroup, RunJobs,
// Stop) and the v3/v2 runners built on it inside testing/synctest bubbles.  One case = one bubble:
// several concurrent RunJobs callers, a Stop of the group or a cancellation of the callers'
// contexts injected at a swept virtual instant or at a swept count of completed hand-offs (the job
// functions signal the harness), and afterwards a virtual hour of quiescence.  A caller that has not
// returned by then can never return (every goroutine of the bubble is durably blocked and no timer
// is left) - the hang is an OBSERVATION of the case, not a crash of the harness.
//
// Observables (projected): returned or not per caller, the multiset of callback values per caller
// (sorted and run-length encoded: lossless), number of error callbacks, peak number of job functions
// running at once, whether Stop returned, goroutines of the repository left after Stop.
package c14

import (
	"context"
	"fmt"
	"io"
	"log"
	"path/filepath"
	"runtime"
	"sort"
	"strings"
	"sync"
	"sync/atomic"
	"testing"
	"testing/synctest"
	"time"

	. "verifharness/h"

	"github.com/smartcontractkit/chainlink-automation/pkg/util"
	v2runner "github.com/smartcontractkit/chainlink-automation/pkg/v2/runner"
	v3runner "github.com/smartcontractkit/chainlink-automation/pkg/v3/runner"
	common "github.com/smartcontractkit/chainlink-common/pkg/types/automation"
)

// ---------------------------------------------------------------- case

type c14Caller struct {
	Returned bool     `json:"returned"`
	Runs     [][2]int `json:"runs"` // sorted successful callback values as maximal runs [lo,hi); a repeated value opens a new run
	Errs     int      `json:"errs"` // callbacks that carried an error (value is the zero value when the job never ran)
	Bogus    int      `json:"bogus"` // callbacks with a value outside [0, jobs)
}

type c14Obs struct {
	Callers      []c14Caller `json:"callers"`
	Peak         int         `json:"peak"`
	StopReturned bool        `json:"stop_returned"`
	Left         int         `json:"left"`     // goroutines inside pkg/util|runner left after Stop + quiescence
	Stranded     int         `json:"stranded"` // items left in WorkerGroup.input after quiescence (verif hook), -1 if unknown
	Fired        bool        `json:"fired"`    // the stop / cancel was actually injected
	LowerBound   []int       `json:"lb"`       // per caller: callbacks certainly owed (job functions that started)
	Panic        string      `json:"panic,omitempty"`
}

type c14Case struct {
	Family  string `json:"family"`
	Target  string `json:"target"` // "group" (util.RunJobs), "v3" (v3 runner.CheckUpkeeps), "v2" (v2 runner.CheckUpkeep)
	Workers int    `json:"workers"`
	Queue   int    `json:"queue"`
	Jobs    []int  `json:"jobs"`   // one entry per concurrent caller
	DurUs   int    `json:"dur_us"` // virtual duration of a job function (0 = instantaneous)
	Mode    string `json:"mode"`   // "none" | "stop" | "cancel"
	Trig    string `json:"trig"`   // "time" (virtual ns) | "started" | "finished" (count of hand-offs) | "yields" (scheduler yields of the injector)
	At      int    `json:"at"`
	Who     int    `json:"who"` // cancel: caller whose context is cancelled, -1 = all
	DelayMs []int  `json:"delay_ms,omitempty"` // per caller: virtual milliseconds before it calls RunJobs (an idle group in between)
	Obs     c14Obs `json:"obs"`
}

// ---------------------------------------------------------------- running one case

func goroutinesIn(pat ...string) int {
	buf := make([]byte, 1<<20)
	for {
		n := runtime.Stack(buf, true)
		if n < len(buf) {
			buf = buf[:n]
			break
		}
		buf = make([]byte, 2*len(buf))
	}
	cnt := 0
	for _, g := range strings.Split(string(buf), "\n\n") {
		for _, p := range pat {
			if strings.Contains(g, p) {
				cnt++
				break
			}
		}
	}
	return cnt
}

var repoPats = []string{"chainlink-automation/pkg/util.", "chainlink-automation/pkg/v3/runner.", "chainlink-automation/pkg/v2/runner."}

type recorder struct {
	mu    sync.Mutex
	ok    []int
	errs  int
	bogus int
}

func (r *recorder) add(v int, err error, n int) {
	r.mu.Lock()
	defer r.mu.Unlock()
	if err != nil {
		r.errs++
		return
	}
	if v < 0 || v >= n {
		r.bogus++
		return
	}
	r.ok = append(r.ok, v)
}

func runsOf(vals []int) [][2]int {
	s := append([]int(nil), vals...)
	sort.Ints(s)
	out := [][2]int{}
	for _, v := range s {
		if k := len(out); k > 0 && out[k-1][1] == v {
			out[k-1][1] = v + 1
		} else {
			out = append(out, [2]int{v, v + 1})
		}
	}
	return out
}

// engine abstracts the three ways the worker group is reached.
type engine interface {
	// run submits jobs 0..n-1 of one caller and reports every callback to rec; job is the function
	// each job executes (it receives the job index and returns it).
	run(ctx context.Context, caller, n int, job func(context.Context, int) (int, error), rec *recorder)
	stop()
	stranded() int
}

type groupEngine struct{ wg *util.WorkerGroup[int] }

func (e *groupEngine) run(ctx context.Context, _ int, n int, job func(context.Context, int) (int, error), rec *recorder) {
	jobs := make([]int, n)
	for i := range jobs {
		jobs[i] = i
	}
	util.RunJobs(ctx, e.wg, jobs, job, func(v int, err error) { rec.add(v, err, n) })
}
func (e *groupEngine) stop()         { e.wg.Stop() }
func (e *groupEngine) stranded() int { return strandedOf(e.wg) }

// v3 runner: one job = one batch of WorkerBatchLimit payloads; the runnable decodes the job index
// from the first payload of the batch.  A caller's callbacks are reconstructed from the results
// CheckUpkeeps returns (one marker result per executed batch).
type v3Engine struct {
	r      *v3runner.Runner
	mu     sync.Mutex
	jobFn  map[int]func(context.Context, int) (int, error)
	closed chan struct{}
}

func v3Work(caller, job, k int) string { return fmt.Sprintf("c%d-j%d-%d", caller, job, k) }

func (e *v3Engine) CheckUpkeeps(ctx context.Context, ps ...common.UpkeepPayload) ([]common.CheckResult, error) {
	var caller, job, k int
	fmt.Sscanf(ps[0].WorkID, "c%d-j%d-%d", &caller, &job, &k)
	e.mu.Lock()
	fn := e.jobFn[caller]
	e.mu.Unlock()
	v, err := fn(ctx, job)
	if err != nil {
		return nil, err
	}
	// PipelineExecutionState != 0 keeps the runner's cache out of the picture
	return []common.CheckResult{{WorkID: fmt.Sprintf("done-c%d-j%d", caller, v), PipelineExecutionState: 1}}, nil
}

func (e *v3Engine) run(ctx context.Context, caller, n int, job func(context.Context, int) (int, error), rec *recorder) {
	e.mu.Lock()
	e.jobFn[caller] = job
	e.mu.Unlock()
	var ps []common.UpkeepPayload
	for j := 0; j < n; j++ {
		for k := 0; k < v3runner.WorkerBatchLimit; k++ {
			ps = append(ps, common.UpkeepPayload{WorkID: v3Work(caller, j, k)})
		}
	}
	res, err := e.r.CheckUpkeeps(ctx, ps...)
	_ = err // ErrTooManyErrors when every batch failed: the individual failures are not observable here
	for _, r := range res {
		var c, v int
		if _, serr := fmt.Sscanf(r.WorkID, "done-c%d-j%d", &c, &v); serr != nil || c != caller {
			rec.add(-1, nil, n)
			continue
		}
		rec.add(v, nil, n)
	}
}
func (e *v3Engine) stop()         { _ = e.r.Close(); <-e.closed }
func (e *v3Engine) stranded() int { return -1 }

type v2Engine struct {
	r     *v2runner.Runner
	mu    sync.Mutex
	jobFn map[int]func(context.Context, int) (int, error)
}

func (e *v2Engine) run(ctx context.Context, caller, n int, job func(context.Context, int) (int, error), rec *recorder) {
	e.mu.Lock()
	e.jobFn[caller] = job
	e.mu.Unlock()
	res, _ := v2CheckUpkeep(ctx, e.r, caller, n)
	for _, v := range res {
		rec.add(v, nil, n)
	}
}
func (e *v2Engine) stop()         { _ = e.r.Close() }
func (e *v2Engine) stranded() int { return -1 }

func newEngine(t *testing.T, c *c14Case) engine {
	switch c.Target {
	case "v3":
		e := &v3Engine{jobFn: map[int]func(context.Context, int) (int, error){}, closed: make(chan struct{})}
		r, err := v3runner.NewRunner(log.New(io.Discard, "", 0), e, v3runner.RunnerConfig{
			Workers: c.Workers, WorkerQueueLength: c.Queue, CacheExpire: time.Minute, CacheClean: time.Minute})
		if err != nil {
			t.Fatal(err)
		}
		e.r = r
		go func() { _ = r.Start(context.Background()); close(e.closed) }()
		synctest.Wait()
		return e
	case "v2":
		return newV2Engine(t, c)
	default:
		return &groupEngine{wg: util.NewWorkerGroup[int](c.Workers, c.Queue)}
	}
}

func runC14Case(t *testing.T, c *c14Case) {
	c.Obs = c14Obs{Stranded: -1}
	defer func() {
		// a caller that never returns leaves blocked goroutines in the bubble; synctest reports that
		// when the bubble function exits - that report is expected for a hang and is not an error here
		if r := recover(); r != nil {
			if s := fmt.Sprint(r); !strings.Contains(s, "blocked goroutines remain") {
				c.Obs.Panic = s
			}
		}
	}()
	synctest.Test(t, func(t *testing.T) {
		base := goroutinesIn(repoPats...)
		eng := newEngine(t, c)
		nc := len(c.Jobs)
		ctxs := make([]context.Context, nc)
		cancels := make([]context.CancelFunc, nc)
		recs := make([]*recorder, nc)
		startedBy := make([]atomic.Int32, nc)
		returned := make([]atomic.Bool, nc)
		for i := range ctxs {
			ctxs[i], cancels[i] = context.WithCancel(context.Background())
			recs[i] = &recorder{}
		}
		var cur, peak, started, finished atomic.Int32
		var stopRet, fired atomic.Bool
		var once sync.Once
		fire := func() {
			once.Do(func() {
				fired.Store(true)
				switch c.Mode {
				case "stop":
					go func() { eng.stop(); stopRet.Store(true) }()
				case "cancel":
					for i := range cancels {
						if c.Who < 0 || c.Who == i {
							cancels[i]()
						}
					}
				}
			})
		}
		dur := time.Duration(c.DurUs) * time.Microsecond
		mkJob := func(caller int) func(context.Context, int) (int, error) {
			return func(ctx context.Context, v int) (int, error) {
				n := cur.Add(1)
				for {
					p := peak.Load()
					if n <= p || peak.CompareAndSwap(p, n) {
						break
					}
				}
				startedBy[caller].Add(1)
				if s := started.Add(1); c.Trig == "started" && int(s) == c.At {
					fire()
				}
				if dur > 0 {
					select {
					case <-time.After(dur * time.Duration(1+v%3)):
					case <-ctx.Done():
					}
				}
				cur.Add(-1)
				if f := finished.Add(1); c.Trig == "finished" && int(f) == c.At {
					fire()
				}
				return v, ctx.Err()
			}
		}
		if c.Mode != "none" && c.Trig == "before" {
			fire()
			synctest.Wait()
		}
		for i := 0; i < nc; i++ {
			go func(i int) {
				if i < len(c.DelayMs) && c.DelayMs[i] > 0 {
					time.Sleep(time.Duration(c.DelayMs[i]) * time.Millisecond)
				}
				eng.run(ctxs[i], i, c.Jobs[i], mkJob(i), recs[i])
				returned[i].Store(true)
			}(i)
		}
		switch {
		case c.Mode == "none":
		case c.Trig == "time":
			time.Sleep(time.Duration(c.At))
			fire()
		case c.Trig == "yields":
			for k := 0; k < c.At; k++ {
				runtime.Gosched()
			}
			fire()
		}
		time.Sleep(time.Hour) // quiescence: nothing in the bubble can move any more
		c.Obs.Fired = fired.Load()
		c.Obs.StopReturned = stopRet.Load()
		for i := 0; i < nc; i++ {
			recs[i].mu.Lock()
			c.Obs.Callers = append(c.Obs.Callers, c14Caller{Returned: returned[i].Load(), Runs: runsOf(recs[i].ok), Errs: recs[i].errs, Bogus: recs[i].bogus})
			recs[i].mu.Unlock()
			c.Obs.LowerBound = append(c.Obs.LowerBound, int(startedBy[i].Load()))
		}
		c.Obs.Peak = int(peak.Load())
		c.Obs.Stranded = eng.stranded()
		// shut the group down (if the case did not) and account for what is left
		if !(c.Mode == "stop" && fired.Load()) {
			go func() { eng.stop(); stopRet.Store(true) }()
			time.Sleep(time.Hour)
			c.Obs.StopReturned = stopRet.Load()
		}
		for i := range cancels {
			cancels[i]()
		}
		time.Sleep(time.Hour)
		c.Obs.Left = goroutinesIn(repoPats...) - base
	})
}

// ---------------------------------------------------------------- generators

func c14Boundary(tier string) []c14Case {
	var cs []c14Case
	add := func(c c14Case, reps int) {
		for i := 0; i < reps; i++ {
			cs = append(cs, c)
		}
	}
	// no disturbance: every job delivered exactly once, worker bound
	for _, w := range []int{1, 2, 3, 8, 64} {
		for _, n := range []int{0, 1, 2, 10, 65, 1000} {
			add(c14Case{Family: "plain", Target: "group", Workers: w, Queue: 10, Jobs: []int{n}, Mode: "none"}, 1)
		}
		add(c14Case{Family: "plain-timed", Target: "group", Workers: w, Queue: 10, Jobs: []int{40, 7}, DurUs: 100, Mode: "none"}, 1)
		add(c14Case{Family: "plain-callers", Target: "group", Workers: w, Queue: 1, Jobs: []int{30, 0, 1, 100, 17}, Mode: "none"}, 1)
	}
	// stop / cancel before anything is submitted
	add(c14Case{Family: "stop-before", Target: "group", Workers: 2, Queue: 10, Jobs: []int{5, 5}, Mode: "stop", Trig: "before"}, 2)
	add(c14Case{Family: "cancel-before", Target: "group", Workers: 2, Queue: 10, Jobs: []int{5, 5}, Mode: "cancel", Trig: "before", Who: -1}, 2)
	add(c14Case{Family: "cancel-one-before", Target: "group", Workers: 2, Queue: 10, Jobs: []int{5, 5}, Mode: "cancel", Trig: "before", Who: 1}, 2)
	// stop / cancel at a swept count of completed hand-offs (instantaneous jobs: everything races at one virtual instant)
	for _, w := range []int{1, 2, 4, 64} {
		for _, at := range []int{1, 2, 3, 5, 8, 13, 21, 34, 55, 89} {
			for _, trig := range []string{"started", "finished"} {
				add(c14Case{Family: "stop-handoff", Target: "group", Workers: w, Queue: 10, Jobs: []int{100}, Mode: "stop", Trig: trig, At: at}, 2)
				add(c14Case{Family: "stop-handoff-callers", Target: "group", Workers: w, Queue: 10, Jobs: []int{40, 40, 40}, Mode: "stop", Trig: trig, At: at}, 2)
				add(c14Case{Family: "cancel-handoff", Target: "group", Workers: w, Queue: 10, Jobs: []int{100, 20}, Mode: "cancel", Trig: trig, At: at, Who: 0}, 1)
			}
		}
	}
	// stop racing the submission loop (the injector yields `at` times first)
	for _, at := range []int{0, 1, 2, 3, 5, 8, 13, 21, 34, 55, 89, 144, 233, 377, 610, 987} {
		add(c14Case{Family: "stop-yields", Target: "group", Workers: 4, Queue: 10, Jobs: []int{1000}, Mode: "stop", Trig: "yields", At: at}, 4)
		add(c14Case{Family: "stop-yields-callers", Target: "group", Workers: 2, Queue: 10, Jobs: []int{200, 200, 200, 200}, Mode: "stop", Trig: "yields", At: at}, 4)
		add(c14Case{Family: "cancel-yields", Target: "group", Workers: 4, Queue: 10, Jobs: []int{1000, 50}, Mode: "cancel", Trig: "yields", At: at, Who: -1}, 1)
	}
	// stop / cancel at a swept virtual instant while jobs take virtual time
	for _, at := range []int{0, 1, 50_000, 100_000, 100_001, 150_000, 299_999, 300_000, 1_000_000, 5_000_000} {
		add(c14Case{Family: "stop-time", Target: "group", Workers: 3, Queue: 10, Jobs: []int{30, 9}, DurUs: 100, Mode: "stop", Trig: "time", At: at}, 1)
		add(c14Case{Family: "cancel-time", Target: "group", Workers: 3, Queue: 10, Jobs: []int{30, 9}, DurUs: 100, Mode: "cancel", Trig: "time", At: at, Who: 0}, 1)
	}
	// the runners built on the group: Close (-> Stop) racing CheckUpkeeps
	for _, at := range []int{0, 1, 2, 3, 5, 8, 13, 21, 34, 55} {
		add(c14Case{Family: "v3-close-yields", Target: "v3", Workers: 4, Queue: 10, Jobs: []int{60, 60}, Mode: "stop", Trig: "yields", At: at}, 3)
		add(c14Case{Family: "v3-close-handoff", Target: "v3", Workers: 2, Queue: 10, Jobs: []int{40, 40}, Mode: "stop", Trig: "started", At: at + 1}, 2)
		add(c14Case{Family: "v2-close-yields", Target: "v2", Workers: 4, Queue: 10, Jobs: []int{60, 60}, Mode: "stop", Trig: "yields", At: at}, 3)
		add(c14Case{Family: "v3-cancel-handoff", Target: "v3", Workers: 2, Queue: 10, Jobs: []int{40, 40}, Mode: "cancel", Trig: "finished", At: at + 1, Who: 0}, 1)
	}
	// a long job keeps one worker busy while the group is otherwise idle for seconds; then a burst arrives: no more
	// job functions at once than workers, whatever the group did with its idle workers in between
	for _, w := range []int{1, 2, 4} {
		add(c14Case{Family: "long-job-idle-then-burst", Target: "group", Workers: w, Queue: 10, Jobs: []int{1, 12}, DurUs: 3_000_000, DelayMs: []int{0, 2500}, Mode: "none"}, 1)
		add(c14Case{Family: "long-job-idle-then-burst", Target: "group", Workers: w, Queue: 10, Jobs: []int{w, 9, 9}, DurUs: 2_000_000, DelayMs: []int{0, 1500, 4200}, Mode: "none"}, 1)
	}
	add(c14Case{Family: "long-job-idle-then-burst-v3", Target: "v3", Workers: 2, Queue: 10, Jobs: []int{10, 40}, DurUs: 3_000_000, DelayMs: []int{0, 2500}, Mode: "none"}, 1)
	add(c14Case{Family: "v3-plain", Target: "v3", Workers: 4, Queue: 10, Jobs: []int{25, 3, 0}, Mode: "none"}, 2)
	add(c14Case{Family: "v2-plain", Target: "v2", Workers: 4, Queue: 10, Jobs: []int{25, 3, 0}, Mode: "none"}, 2)
	return cs
}

func c14Random(r *Rng) c14Case {
	c := c14Case{Family: "random", Target: "group", Queue: r.Range(0, 20)}
	switch r.Intn(10) {
	case 0:
		c.Target = "v3"
	case 1:
		c.Target = "v2"
	}
	c.Workers = []int{1, 1, 2, 3, 4, 8, 16, 64}[r.Intn(8)]
	nc := []int{1, 1, 2, 3, 5}[r.Intn(5)]
	for i := 0; i < nc; i++ {
		n := []int{0, 1, 2, 5, 10, 30, 100, 300}[r.Intn(8)]
		if c.Target != "group" && n > 60 {
			n = 60
		}
		c.Jobs = append(c.Jobs, n)
	}
	if r.Chance(1, 30) && c.Target == "group" {
		c.Jobs[0] = 1000
	}
	if r.Chance(1, 3) {
		c.DurUs = []int{1, 100, 1000}[r.Intn(3)]
	}
	total := 0
	for _, n := range c.Jobs {
		total += n
	}
	switch r.Intn(5) {
	case 0:
		c.Mode = "none"
	case 1, 2, 3:
		c.Mode = "stop"
	default:
		c.Mode = "cancel"
		c.Who = r.Range(-1, nc-1)
	}
	if c.Mode != "none" {
		switch r.Intn(4) {
		case 0:
			c.Trig, c.At = "started", r.Range(1, total+1)
		case 1:
			c.Trig, c.At = "finished", r.Range(1, total+1)
		case 2:
			c.Trig, c.At = "yields", r.Intn(2*total+2)
		default:
			c.Trig, c.At = "time", r.Intn(c.DurUs*1000*(total/c.Workers+2)+2)
		}
	}
	return c
}

// ---------------------------------------------------------------- emission

func c14Term(c c14Case) string {
	mode := map[string]string{"none": "MNone", "stop": "MStop", "cancel": "MCancel"}[c.Mode]
	callers := make([]string, len(c.Jobs))
	for i, n := range c.Jobs {
		o := c.Obs.Callers[i]
		hit := c.Mode == "stop" || (c.Mode == "cancel" && (c.Who < 0 || c.Who == i))
		callers[i] = fmt.Sprintf("mkOCaller %d %s %s %s %d %d %d", n, CoqBool(hit && c.Obs.Fired), CoqBool(o.Returned),
			CoqList(o.Runs, func(r [2]int) string { return fmt.Sprintf("(%d,%d)", r[0], r[1]) }), o.Errs, o.Bogus, c.Obs.LowerBound[i])
	}
	return fmt.Sprintf("mkOCase %d %s %s %s [%s] %d %s %d %s", c.Workers, mode, CoqBool(c.Obs.Fired), CoqBool(c.Target == "group"),
		strings.Join(callers, "; "), c.Obs.Peak, CoqBool(c.Obs.StopReturned), c.Obs.Left, CoqBool(c.Obs.Stranded > 0))
}

func TestC14(t *testing.T) {
	dir := OutDir(t, "C14")
	var cases []c14Case
	if rf := ReplayFile(); rf != "" {
		cases = LoadReplayCases[c14Case](t, rf)
		// scheduling is not replayable: a replayed case is run repeatedly
		one := cases
		for k := 0; k < EnvInt("VERIF_REPLAY_REPS", 200); k++ {
			cases = append(cases, one...)
		}
	} else {
		cases = append(cases, LoadCorpus[c14Case](t, "C14")...)
		cases = append(cases, c14Boundary(EnvTier())...)
		r := NewRng(EnvSeed())
		n := EnvInt("VERIF_N", 600)
		for i := 0; i < n; i++ {
			cases = append(cases, c14Random(r))
		}
	}
	if from, emit, ok := isoChild[c14Obs](); ok {
		for i := from; i < len(cases); i++ {
			runC14Case(t, &cases[i])
			emit(i, cases[i].Obs)
		}
		return
	}
	obs := isoParent(t, "TestC14", dir, len(cases), func(i int, tail string) c14Obs {
		return c14Obs{Stranded: -1, Panic: "process crashed while running this case: " + tail}
	})
	cf := NewCaseFile("C14", "Model.Worker", "Gen.GeneratedC14")
	fam, modes := map[string]int{}, map[string]int{}
	hangs, stranded, panics := 0, 0, 0
	var violations []map[string]any
	for i := range cases {
		c := &cases[i]
		c.Obs = obs[i]
		for len(c.Obs.Callers) < len(c.Jobs) { // the bubble died before recording
			c.Obs.Callers = append(c.Obs.Callers, c14Caller{})
			c.Obs.LowerBound = append(c.Obs.LowerBound, 0)
		}
		if c.Obs.Panic != "" {
			panics++
			violations = append(violations, map[string]any{"case": i, "family": c.Family, "what": "harness bubble panicked: " + c.Obs.Panic})
		}
		for _, o := range c.Obs.Callers {
			if !o.Returned {
				hangs++
				break
			}
		}
		if c.Obs.Stranded > 0 {
			stranded++
		}
		cf.Add(c14Term(*c))
		fam[c.Family]++
		modes[c.Target+"/"+c.Mode+"/"+c.Trig]++
	}
	cf.Imports = append(cf.Imports, "Base.Util")
	cf.Prelude = "Open Scope N_scope.\nDefinition capin : nat := Z.to_nat WorkerInputCap."
	cf.Write(t, dir, "cases.v", "ocase", [][2]string{
		{"mism", "find_idx (fun c => negb (model_allows capin c)) cases"},
		{"bad", "find_idx (fun c => negb (C14_check c)) cases"},
		{"kf_stop_races_submit", "find_idx kf_stop_races_submit cases"},
		{"nontriv", "find_idx oc_nontrivial cases"},
		{"cov_hangs", "length (filter oc_hang cases)"},
		{"cov_disturbed_partial", "length (filter oc_partial_delivery cases)"},
	})
	WriteJSON(t, filepath.Join(dir, "cases.json"), map[string]any{
		"property": "C14", "seed": EnvSeed(), "cases": cases, "families": fam,
		"distribution": map[string]any{"modes": modes, "hangs": hangs, "stranded_in_input": stranded, "panics": panics},
	})
	WriteJSON(t, filepath.Join(dir, "direct.json"), map[string]any{
		"evaluations": 0, "nontrivial_keys": []string{}, "violations": violations, "known": map[string]any{},
		"distribution": map[string]any{"hangs": hangs, "stranded_in_input": stranded},
	})
	t.Logf("C14: %d cases, %d with a caller that never returned, %d with an item stranded in input", len(cases), hangs, stranded)
}
