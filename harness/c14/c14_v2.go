package c14

import (
	"context"
	"fmt"
	"io"
	"log"
	"testing"
	"time"

	"github.com/smartcontractkit/chainlink-automation/pkg/util"
	ocr2keepers "github.com/smartcontractkit/chainlink-automation/pkg/v2"
	v2runner "github.com/smartcontractkit/chainlink-automation/pkg/v2/runner"
)

// strandedOf reports how many items sit in WorkerGroup.input (read through the add-only
// `verif`-tagged accessor in /repo/pkg/util/worker_verif.go).
func strandedOf(wg *util.WorkerGroup[int]) int { return wg.VerifInputLen() }

// v2 runner: a job = a batch of 10 keys "c<caller>-j<job>-<k>"; the registry runs the job function
// of the caller once per batch and returns one marker result carrying the job index.
type v2Registry struct{ e *v2Engine }

type v2Marker struct {
	caller, job int
}

func (r v2Registry) CheckUpkeep(ctx context.Context, _ bool, keys ...ocr2keepers.UpkeepKey) ([]ocr2keepers.UpkeepResult, error) {
	var caller, job, k int
	fmt.Sscanf(string(keys[0]), "c%d-j%d-%d", &caller, &job, &k)
	r.e.mu.Lock()
	fn := r.e.jobFn[caller]
	r.e.mu.Unlock()
	v, err := fn(ctx, job)
	if err != nil {
		return nil, err
	}
	return []ocr2keepers.UpkeepResult{v2Marker{caller, v}}, nil
}

type v2Encoder struct{}

func (v2Encoder) Eligible(ocr2keepers.UpkeepResult) (bool, error) { return false, nil }
func (v2Encoder) Detail(r ocr2keepers.UpkeepResult) (ocr2keepers.UpkeepKey, uint32, error) {
	m := r.(v2Marker)
	return ocr2keepers.UpkeepKey(fmt.Sprintf("done-c%d-j%d", m.caller, m.job)), 0, nil
}
func (v2Encoder) SplitUpkeepKey(ocr2keepers.UpkeepKey) (ocr2keepers.BlockKey, ocr2keepers.UpkeepIdentifier, error) {
	return "", nil, nil
}

func newV2Engine(t *testing.T, c *c14Case) engine {
	e := &v2Engine{jobFn: map[int]func(context.Context, int) (int, error){}}
	r, err := v2runner.NewRunner(log.New(io.Discard, "", 0), v2Registry{e}, v2Encoder{}, c.Workers, c.Queue, time.Minute, time.Minute)
	if err != nil {
		t.Fatal(err)
	}
	e.r = r
	_ = r.Start()
	return e
}

// v2CheckUpkeep returns the job indices carried by the results CheckUpkeep returned (-1 for a foreign result).
func v2CheckUpkeep(ctx context.Context, r *v2runner.Runner, caller, n int) ([]int, error) {
	var keys []ocr2keepers.UpkeepKey
	for j := 0; j < n; j++ {
		for k := 0; k < 10; k++ {
			keys = append(keys, ocr2keepers.UpkeepKey(fmt.Sprintf("c%d-j%d-%d", caller, j, k)))
		}
	}
	res, err := r.CheckUpkeep(ctx, false, keys...)
	var out []int
	for _, x := range res {
		m, ok := x.(v2Marker)
		if !ok || m.caller != caller {
			out = append(out, -1)
			continue
		}
		out = append(out, m.job)
	}
	return out, err
}
