package c14

import (
	"bufio"
	"encoding/json"
	"fmt"
	"os"
	"os/exec"
	"strings"
	"testing"
)

// Cases run in a child process of the test binary (same seed, same generated case list), which
// appends one JSON line per finished case.  A case that kills the process (an unrecovered panic in a
// goroutine of the code under test, e.g. "sync: negative WaitGroup counter") is thereby an
// OBSERVATION of that case - the parent records it and restarts the child behind it.

type isoLine[O any] struct {
	I   int `json:"i"`
	Obs O   `json:"obs"`
}

const isoEnv = "VERIF_ISO_CHILD" // "<from>:<file>"

// isoChild reports whether this process is a child; if so it returns the first index and a sink.
func isoChild[O any]() (from int, emit func(i int, o O), ok bool) {
	v := os.Getenv(isoEnv)
	if v == "" {
		return 0, nil, false
	}
	var file string
	parts := strings.SplitN(v, ":", 2)
	fmt.Sscanf(parts[0], "%d", &from)
	file = parts[1]
	f, err := os.OpenFile(file, os.O_APPEND|os.O_CREATE|os.O_WRONLY, 0o644)
	if err != nil {
		panic(err)
	}
	return from, func(i int, o O) {
		b, _ := json.Marshal(isoLine[O]{I: i, Obs: o})
		f.Write(append(b, '\n'))
		f.Sync()
	}, true
}

// isoParent runs the child until all n cases have an observation; crashed(i, tail) builds the
// observation of a case that took the process down.
func isoParent[O any](t *testing.T, testName, dir string, n int, crashed func(i int, tail string) O) []O {
	out := make([]O, n)
	next := 0
	file := dir + "/iso_results.jsonl"
	for next < n {
		os.Remove(file)
		cmd := exec.Command(os.Args[0], "-test.run", "^"+testName+"$", "-test.timeout", "3000s")
		cmd.Env = append(os.Environ(), fmt.Sprintf("%s=%d:%s", isoEnv, next, file))
		cout, err := cmd.CombinedOutput()
		got := next
		if f, ferr := os.Open(file); ferr == nil {
			sc := bufio.NewScanner(f)
			sc.Buffer(make([]byte, 1<<20), 1<<26)
			for sc.Scan() {
				var l isoLine[O]
				if json.Unmarshal(sc.Bytes(), &l) == nil && l.I == got && got < n {
					out[got] = l.Obs
					got++
				}
			}
			f.Close()
		}
		if got >= n {
			break
		}
		if err == nil && got == next {
			t.Fatalf("isolated child made no progress at case %d:\n%s", next, tail(string(cout), 2000))
		}
		// the child died while running case `got`
		out[got] = crashed(got, tail(string(cout), 1500))
		next = got + 1
	}
	os.Remove(file)
	return out
}

func tail(s string, n int) string {
	if len(s) > n {
		return s[len(s)-n:]
	}
	return s
}
