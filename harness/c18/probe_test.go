package c18

import (
	"context"
	"fmt"
	"io"
	"log"
	"runtime"
	"strings"
	"testing"
	"testing/synctest"
	"time"

	. "verifharness/h"

	"github.com/smartcontractkit/chainlink-automation/pkg/v3/service"
)

func stacks() []string {
	buf := make([]byte, 1<<22)
	n := runtime.Stack(buf, true)
	return strings.Split(string(buf[:n]), "\n\n")
}
func myBubble() string {
	buf := make([]byte, 256)
	n := runtime.Stack(buf, false)
	h := string(buf[:n])
	i := strings.Index(h, "synctest bubble ")
	if i < 0 {
		return ""
	}
	j := strings.IndexAny(h[i:], "]")
	return h[i : i+j]
}
func repoGoroutines() []string {
	var out []string
	b := myBubble() + "]"
	for _, g := range stacks() {
		if !strings.Contains(strings.SplitN(g, "\n", 2)[0], b) {
			continue
		}
		if strings.Contains(g, "chainlink-automation/pkg/") || strings.Contains(g, "chainlink-automation/internal/") {
			out = append(out, g)
		}
	}
	return out
}

type fakeSvc struct {
	stop    chan struct{}
	starts  int
	panicAt int
}

func (f *fakeSvc) Start(ctx context.Context) error {
	f.starts++
	if f.starts == f.panicAt {
		panic("boom")
	}
	select {
	case <-f.stop:
	case <-ctx.Done():
	}
	return nil
}
func (f *fakeSvc) Close() error { close(f.stop); return nil }

func TestProbeRecoverer(t *testing.T) {
	for _, name := range []string{"immediate", "afterwait", "cooldown", "aftercooldown"} {
		func() {
			defer func() { if r := recover(); r != nil { fmt.Println(name, "bubble:", r) } }()
			synctest.Test(t, func(t *testing.T) {
				f := &fakeSvc{stop: make(chan struct{})}
				if strings.Contains(name, "cooldown") {
					f.panicAt = 1
				}
				rec := service.NewRecoverer(f, log.New(io.Discard, "", 0))
				go rec.Start(context.Background())
				switch name {
				case "immediate":
				case "afterwait":
					synctest.Wait()
				case "cooldown":
					time.Sleep(5 * time.Second)
				case "aftercooldown":
					time.Sleep(11 * time.Second)
				}
				err := rec.Close()
				time.Sleep(time.Hour)
				fmt.Println(name, "close err:", err, "starts:", f.starts, "left:", len(repoGoroutines()))
				for _, g := range repoGoroutines() { fmt.Println("   ", strings.Split(g, "\n")[0], strings.Split(g, "\n")[1]) }
			})
		}()
	}
}

func TestProbePlugin(t *testing.T) {
	for _, name := range []string{"immediate", "afterwait", "after5s"} {
		func() {
			defer func() { if r := recover(); r != nil { fmt.Println(name, "bubble:", fmt.Sprint(r)[:80]) } }()
			if name == "immediate" { defer runtime.GOMAXPROCS(runtime.GOMAXPROCS(1)) }
			synctest.Test(t, func(t *testing.T) {
				base := len(repoGoroutines())
				nd := NewNode(t, NodeOpts{N: 4, F: 1})
				switch name {
				case "afterwait":
					synctest.Wait()
				case "after5s":
					time.Sleep(5 * time.Second)
				}
				mid := len(repoGoroutines())
				err := nd.Plugin.Close()
				time.Sleep(time.Hour)
				left := repoGoroutines()
				fmt.Println(name, "base", base, "mid", mid, "left", len(left), "err", err)
				for _, g := range left { l := strings.Split(g, "\n"); fmt.Println("   ", l[0], l[1]) }
			})
		}()
	}
}
