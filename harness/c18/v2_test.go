package c18

// v2 (OCR2) plug-in built through ocr2keepers.NewReportingPluginFactory with the real report coordinator
// and the real polling observer (whose head loop runs under internal/util.RecoverableService).

import (
	"context"
	"encoding/json"
	"fmt"
	"io"
	"log"
	"os"
	"strings"
	"sync/atomic"
	"testing"
	"testing/synctest"
	"time"

	ocr2types "github.com/smartcontractkit/libocr/offchainreporting2plus/types"

	. "verifharness/h"

	ocr2keepers "github.com/smartcontractkit/chainlink-automation/pkg/v2"
	"github.com/smartcontractkit/chainlink-automation/pkg/v2/coordinator"
	"github.com/smartcontractkit/chainlink-automation/pkg/v2/encoding"
	"github.com/smartcontractkit/chainlink-automation/pkg/v2/observer/polling"
)

type v2Encoder struct{ encoding.BasicEncoder }

func (v2Encoder) Eligible(ocr2keepers.UpkeepResult) (bool, error) { return false, nil }
func (v2Encoder) Detail(ocr2keepers.UpkeepResult) (ocr2keepers.UpkeepKey, uint32, error) {
	return nil, 0, fmt.Errorf("no detail")
}
func (v2Encoder) EncodeReport([]ocr2keepers.UpkeepResult) ([]byte, error) { return []byte("[]"), nil }
func (v2Encoder) KeysFromReport(b []byte) ([]ocr2keepers.UpkeepKey, error) {
	var strs []string
	if err := json.Unmarshal(b, &strs); err != nil {
		return nil, err
	}
	out := make([]ocr2keepers.UpkeepKey, len(strs))
	for i, s := range strs {
		out[i] = ocr2keepers.UpkeepKey(s)
	}
	return out, nil
}

type v2Sites struct{ registry, logs, runner site }

func (s *v2Sites) byName(n string) *site {
	switch n {
	case "v2-registry":
		return &s.registry
	case "v2-logs":
		return &s.logs
	case "v2-runner":
		return &s.runner
	}
	return nil
}

type v2Runner struct{ s *v2Sites }

func (r v2Runner) CheckUpkeep(_ context.Context, _ bool, keys ...ocr2keepers.UpkeepKey) ([]ocr2keepers.UpkeepResult, error) {
	r.s.runner.hit("v2 Runner.CheckUpkeep")
	return nil, nil
}

type v2Logs struct{ s *v2Sites }

// v2LogDelay: how long the log provider takes to answer (a slow database); set by the mid-poll cases
var v2LogDelay time.Duration

func (f v2Logs) PerformLogs(ctx context.Context) ([]ocr2keepers.PerformLog, error) {
	f.s.logs.hit("v2 LogProvider.PerformLogs")
	if v2LogDelay > 0 {
		select {
		case <-time.After(v2LogDelay):
		case <-ctx.Done():
			return nil, ctx.Err()
		}
	}
	return nil, nil
}
func (f v2Logs) StaleReportLogs(context.Context) ([]ocr2keepers.StaleReportLog, error) { return nil, nil }

type v2Registry struct{ s *v2Sites }

func (f v2Registry) GetActiveUpkeepIDs(context.Context) ([]ocr2keepers.UpkeepIdentifier, error) {
	f.s.registry.hit("v2 UpkeepProvider.GetActiveUpkeepIDs")
	return []ocr2keepers.UpkeepIdentifier{ocr2keepers.UpkeepIdentifier("7"), ocr2keepers.UpkeepIdentifier("8")}, nil
}

type v2Heads struct{ ch chan ocr2keepers.BlockKey }

func (f *v2Heads) HeadTicker() chan ocr2keepers.BlockKey { return f.ch }

type v2Node struct {
	plugin ocr2types.ReportingPlugin
	s      *v2Sites
	heads  *v2Heads
	stop   chan struct{}
}

// newV2Node must run inside a bubble; a feeder goroutine offers a new head every second until stopFeed.
func newV2Node(t *testing.T) *v2Node {
	nd := &v2Node{s: &v2Sites{}, heads: &v2Heads{ch: make(chan ocr2keepers.BlockKey, 1)}, stop: make(chan struct{})}
	lg := log.New(io.Discard, "", 0)
	enc := v2Encoder{}
	cf := &coordinator.CoordinatorFactory{Logger: lg, Encoder: enc, Logs: v2Logs{nd.s}, CacheClean: 30 * time.Second}
	of := &polling.PollingObserverFactory{Logger: lg, Source: v2Registry{nd.s}, Heads: nd.heads, Runner: v2Runner{nd.s}, Encoder: enc}
	fac := ocr2keepers.NewReportingPluginFactory(enc, v2Runner{nd.s}, cf, of, lg)
	off := `{"maxUpkeepBatchSize":5,"targetProbability":"0.999999999","targetInRounds":1}`
	p, _, err := fac.NewReportingPlugin(context.Background(), ocr2types.ReportingPluginConfig{N: 4, F: 1, OffchainConfig: []byte(off)})
	if err != nil {
		t.Fatalf("v2 NewReportingPlugin: %v", err)
	}
	nd.plugin = p
	go func() {
		tk := time.NewTicker(time.Second)
		defer tk.Stop()
		n := 100
		for {
			select {
			case <-tk.C:
				n++
				select {
				case nd.heads.ch <- ocr2keepers.BlockKey(fmt.Sprint(n)):
				default:
				}
			case <-nd.stop:
				return
			}
		}
	}()
	return nd
}

type v2Obs struct {
	Name       string   `json:"name"`
	Site       string   `json:"site,omitempty"`
	Fired      bool     `json:"fired,omitempty"`
	ResumeNs   int64    `json:"resume_ns,omitempty"`
	CloseRet   bool     `json:"close_returned"`
	CloseErr   string   `json:"close_err,omitempty"`
	Left       []string `json:"left,omitempty"`
	CallsAfter int      `json:"provider_calls_after_close"`
	Reg60      int      `json:"registry_calls_60s"`
	Reg120     int      `json:"registry_calls_120s"`
	Log60      int      `json:"log_calls_60s"`
	Log120     int      `json:"log_calls_120s"`
	Died       string   `json:"died,omitempty"`
	Verdict    string   `json:"verdict"`
}

func v2Total(s *v2Sites) int {
	return int(s.registry.calls.Load() + s.logs.calls.Load() + s.runner.calls.Load())
}

// one v2 case: optional panic site armed at its 3rd call, Close `closeAfter` after creation
// (negative: `-closeAfter` after the injected panic, i.e. inside the cool-down)
func runV2(t *testing.T, o *v2Obs, site string, closeAfter time.Duration) {
	bubble(t, func(t *testing.T) {
		nd := newV2Node(t)
		st := nd.s.byName(site)
		if st != nil {
			st.at.Store(3)
		}
		if site != "" && closeAfter == 0 {
			time.Sleep(60 * time.Second)
			synctest.Wait()
			o.Reg60, o.Log60 = int(nd.s.registry.calls.Load()), int(nd.s.logs.calls.Load())
			time.Sleep(60 * time.Second)
			synctest.Wait()
			o.Reg120, o.Log120 = int(nd.s.registry.calls.Load()), int(nd.s.logs.calls.Load())
			if st != nil {
				o.Fired = st.fired.Load() > 0
				o.ResumeNs = -1
				if o.Fired && st.nextAt.Load() != 0 {
					o.ResumeNs = st.nextAt.Load() - st.firedAt.Load()
				}
			}
		} else if closeAfter > 0 {
			time.Sleep(closeAfter)
		}
		var ret atomic.Bool
		var cerr atomic.Value
		go func() {
			if err := nd.plugin.Close(); err != nil {
				cerr.Store(err.Error())
			}
			ret.Store(true)
		}()
		synctest.Wait()
		time.Sleep(30 * time.Second)
		synctest.Wait()
		calls := v2Total(nd.s)
		time.Sleep(time.Hour)
		synctest.Wait()
		o.CloseRet = ret.Load()
		if s, ok := cerr.Load().(string); ok {
			o.CloseErr = s
		}
		o.CallsAfter = v2Total(nd.s) - calls
		close(nd.stop)
		synctest.Wait()
		o.Left = repoGoroutines()
	})
}

func judgeV2(o *v2Obs) {
	switch {
	case o.Died != "":
		o.Verdict = "violation: the process did not survive a panic in " + o.Site + ": " + o.Died
	case !o.CloseRet:
		o.Verdict = "violation: v2 plugin.Close did not return"
	case len(o.Left) > 0:
		o.Verdict = "violation: goroutine left after v2 Close: " + o.Left[0]
	case o.CallsAfter > 0:
		o.Verdict = "violation: v2 providers still called after Close"
	case o.Site != "" && o.Site != "none" && !o.Fired:
		o.Verdict = "violation: harness: the panic was not injected"
	case o.Site != "" && o.Site != "none" && (o.ResumeNs < 0 || o.ResumeNs > int64(12*time.Second)):
		o.Verdict = fmt.Sprintf("violation: the v2 flow calling %s did not resume within the cool-down (+ one head) after the panic (resume_ns=%d)", o.Site, o.ResumeNs)
	case o.Site != "" && (o.Reg120 <= o.Reg60 || o.Log120 <= o.Log60):
		o.Verdict = fmt.Sprintf("violation: a v2 flow stopped ticking after a panic in %s (registry %d->%d, logs %d->%d)", o.Site, o.Reg60, o.Reg120, o.Log60, o.Log120)
	default:
		o.Verdict = "ok"
	}
}

func TestC18ChildV2(t *testing.T) {
	site := os.Getenv("C18_V2SITE")
	if site == "" {
		t.Skip("child of TestC18")
	}
	o := &v2Obs{Name: "v2-panic/" + site, Site: site}
	runV2(t, o, site, 0)
	b, _ := json.Marshal(o)
	fmt.Println("C18CHILD " + string(b))
}

func v2Cases(t *testing.T, run func(env []string, test string) (string, error)) []*v2Obs {
	var out []*v2Obs
	for _, ms := range []int{0, 1, 500, 1000, 1001, 5000, 30000, 30001} {
		o := &v2Obs{Name: fmt.Sprintf("v2-close-at-%dms", ms)}
		runV2(t, o, "", time.Duration(ms)*time.Millisecond)
		judgeV2(o)
		out = append(out, o)
	}
	for _, ms := range []int{1200, 2300, 5600} {
		// the log provider takes 700 ms per call (polls start every second): Close arrives while a poll is inside it
		o := &v2Obs{Name: fmt.Sprintf("v2-close-mid-poll-at-%dms", ms)}
		v2LogDelay = 700 * time.Millisecond
		runV2(t, o, "", time.Duration(ms)*time.Millisecond)
		v2LogDelay = 0
		judgeV2(o)
		out = append(out, o)
	}
	for _, ms := range []int{3500, 8000, 12900, 13100} {
		// the registry panics at its 3rd call (3 s): Close shortly after, inside and at the end of the cool-down
		o := &v2Obs{Name: fmt.Sprintf("v2-registry-panic-close-at-%dms", ms)}
		runV2(t, o, "v2-registry", time.Duration(ms)*time.Millisecond)
		judgeV2(o)
		out = append(out, o)
	}
	for _, site := range []string{"none", "v2-registry", "v2-logs", "v2-runner"} {
		o := &v2Obs{Name: "v2-panic/" + site, Site: site, ResumeNs: -1}
		txt, err := run([]string{"C18_V2SITE=" + site}, "^TestC18ChildV2$")
		found := false
		for _, l := range strings.Split(txt, "\n") {
			if strings.HasPrefix(l, "C18CHILD ") && json.Unmarshal([]byte(strings.TrimPrefix(l, "C18CHILD ")), o) == nil {
				found = true
			}
		}
		if err != nil || !found {
			s := txt
			if i := strings.Index(s, "panic:"); i >= 0 {
				s = s[i:]
			}
			if len(s) > 300 {
				s = s[:300]
			}
			o.Died = fmt.Sprintf("%v: %s", err, s)
		}
		judgeV2(o)
		out = append(out, o)
	}
	return out
}

var _ = EnvInt
