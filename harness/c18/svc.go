package c18

// Scripted services for the recoverer-level cases.  Three kinds, matching Model/Lifecycle.v:
//   once    the REAL tickers.NewTimeTicker (chainlink-common StateMachine start-once / stop-once, Close waits for done)
//   fresh   every Start is independent, Close reaches only the Start that is executing
//   sticky  a stop request made while no Start executes is kept for the next Start (buffered channel, like resultStore)
// Every kind is wrapped by `gated`, which can hold the service goroutine before it enters the
// inner Start (the goroutine exists, service.Start has not been entered) and keeps the counters the
// observation is built from.

import (
	"context"
	"io"
	"log"
	"sync"
	"sync/atomic"
	"time"

	"github.com/smartcontractkit/chainlink-automation/pkg/v3/stores"
	"github.com/smartcontractkit/chainlink-automation/pkg/v3/tickers"
)

type gate struct {
	mu   sync.Mutex
	open bool
	ch   chan struct{}
}

func newGate() *gate { return &gate{ch: make(chan struct{})} }
func (g *gate) set(open bool) {
	g.mu.Lock()
	defer g.mu.Unlock()
	if open && !g.open {
		g.open = true
		close(g.ch)
	} else if !open && g.open {
		g.open = false
		g.ch = make(chan struct{})
	}
}
func (g *gate) wait() {
	for {
		g.mu.Lock()
		if g.open {
			g.mu.Unlock()
			return
		}
		c := g.ch
		g.mu.Unlock()
		<-c
	}
}

type inner interface {
	Start(context.Context) error
	Close() error
	armPanic()
	armRet()
	kill()
}

type gated struct {
	in            inner
	g             *gate
	mu            sync.Mutex
	launched      int // goroutines that called Start
	atGate        int // ... and are held before the inner Start
	inStart       int // ... and are inside the inner Start
	entered       int // calls of the inner Start
	late          bool
	closeReturned atomic.Bool
	hc            *gate // closed: Close stops the service at once but does not return before the gate opens
}

func (w *gated) Start(ctx context.Context) error {
	w.mu.Lock()
	w.launched++
	w.atGate++
	w.mu.Unlock()
	w.g.wait()
	w.mu.Lock()
	w.atGate--
	w.entered++
	w.inStart++
	if w.closeReturned.Load() {
		w.late = true
	}
	w.mu.Unlock()
	defer func() {
		w.mu.Lock()
		w.inStart--
		w.mu.Unlock()
	}()
	return w.in.Start(ctx)
}
func (w *gated) Close() error {
	err := w.in.Close()
	w.hc.wait() // a slow Close: e.g. the restart cool-down can end while recoverer.Close is still in here
	return err
}

// ---- once: the real time ticker; a panic is raised by its getter function (called inline by Start)
type nopObserver struct{}

func (nopObserver) Process(context.Context, tickers.Tick[[]int]) error { return nil }

type nopTick struct{}

func (nopTick) Value(context.Context) ([]int, error) { return nil, nil }

type onceSvc struct {
	tk interface {
		Start(context.Context) error
		Close() error
	}
	preq atomic.Bool
}

func newOnce() *onceSvc {
	s := &onceSvc{}
	s.tk = tickers.NewTimeTicker[[]int](time.Second, nopObserver{}, func(context.Context, time.Time) (tickers.Tick[[]int], error) {
		if s.preq.CompareAndSwap(true, false) {
			panic("injected panic in the ticker's getter")
		}
		return nopTick{}, nil
	}, log.New(io.Discard, "", 0))
	return s
}
func (s *onceSvc) Start(ctx context.Context) error { return s.tk.Start(ctx) }
func (s *onceSvc) Close() error                    { return s.tk.Close() }
func (s *onceSvc) armPanic()                       { s.preq.Store(true) }
func (s *onceSvc) armRet()                         {}
func (s *onceSvc) kill()                           { _ = s.tk.Close() }

// ---- resultstore: the real result store of pkg/v3/stores, the one service of the plug-in whose Close leaves a
// request behind for a Start that has not reached its loop yet (the model's KSticky).  It cannot be made to panic
// or to return on its own, so its cases use start and call only; kill cancels the contexts its Starts run under.
type rsSvc struct {
	st interface {
		Start(context.Context) error
		Close() error
	}
	mu      sync.Mutex
	cancels []context.CancelFunc
}

func newRS() *rsSvc { return &rsSvc{st: stores.New(log.New(io.Discard, "", 0))} }
func (s *rsSvc) Start(ctx context.Context) error {
	c, cancel := context.WithCancel(ctx)
	s.mu.Lock()
	s.cancels = append(s.cancels, cancel)
	s.mu.Unlock()
	return s.st.Start(c)
}
func (s *rsSvc) Close() error { return s.st.Close() }
func (s *rsSvc) armPanic()    {}
func (s *rsSvc) armRet()      {}
func (s *rsSvc) kill() {
	s.mu.Lock()
	for _, c := range s.cancels {
		c()
	}
	s.mu.Unlock()
}

// ---- fresh / sticky
type scripted struct {
	sticky  bool
	mu      sync.Mutex
	cur     chan struct{} // fresh: stop channel of the executing Start (nil when none)
	stopCh  chan struct{} // sticky: buffered(1)
	panicCh chan struct{}
	retCh   chan struct{}
	dead    chan struct{}
}

func newScripted(sticky bool) *scripted {
	return &scripted{sticky: sticky, stopCh: make(chan struct{}, 1), panicCh: make(chan struct{}, 1),
		retCh: make(chan struct{}, 1), dead: make(chan struct{})}
}
func (s *scripted) Start(ctx context.Context) error {
	var stop chan struct{}
	if s.sticky {
		select {
		case <-s.stopCh: // a stop request made earlier is honoured
			return nil
		default:
		}
		stop = s.stopCh
	} else {
		s.mu.Lock()
		s.cur = make(chan struct{})
		stop = s.cur
		s.mu.Unlock()
		defer func() {
			s.mu.Lock()
			s.cur = nil
			s.mu.Unlock()
		}()
	}
	select {
	case <-stop:
		return nil
	case <-s.panicCh:
		panic("injected panic in service.Start")
	case <-s.retCh:
		return nil
	case <-s.dead:
		return nil
	}
}
func (s *scripted) Close() error {
	if s.sticky {
		select {
		case s.stopCh <- struct{}{}:
		default:
		}
		return nil
	}
	s.mu.Lock()
	if s.cur != nil {
		select {
		case <-s.cur:
		default:
			close(s.cur)
		}
	}
	s.mu.Unlock()
	return nil
}
func (s *scripted) armPanic() {
	select {
	case s.panicCh <- struct{}{}:
	default:
	}
}
func (s *scripted) armRet() {
	select {
	case s.retCh <- struct{}{}:
	default:
	}
}
func (s *scripted) kill() {
	select {
	case <-s.dead:
	default:
		close(s.dead)
	}
}
