package c18

import (
	"fmt"
	"os"
	"os/exec"
	"testing"
	"testing/synctest"
	"time"
)

func TestProbePanic(t *testing.T) {
	where := os.Getenv("C18_PANIC")
	if where == "" {
		for _, w := range []string{"none", "logprovider", "events", "recoverable", "builder", "getter", "pipeline", "postprocessor"} {
			cmd := exec.Command(os.Args[0], "-test.run", "^TestProbePanic$", "-test.v")
			cmd.Env = append(os.Environ(), "C18_PANIC="+w)
			out, err := cmd.CombinedOutput()
			s := string(out)
			if len(s) > 900 {
				s = s[:500] + "\n....\n" + s[len(s)-300:]
			}
			fmt.Printf("=== %s: err=%v\n%s\n", w, err, s)
		}
		return
	}
	synctest.Test(t, func(t *testing.T) {
		nd := newNode18(t)
		if st := nd.S.byName(where); st != nil {
			st.at.Store(3)
		}
		time.Sleep(60 * time.Second)
		s := nd.S
		fmt.Println("survived 60s; calls logs/events/recov/builder/getter/runnable/updater", s.logs.calls.Load(), s.events.calls.Load(), s.recov.calls.Load(), s.builder.calls.Load(), s.getter.calls.Load(), s.runnable.calls.Load(), s.updater.calls.Load())
		nd.Plugin.Close()
		time.Sleep(time.Hour)
		fmt.Println("left", len(repoGoroutines()))
	})
}
