package c18

// C18 - service life-cycle.  Three parts, all against the REAL code under testing/synctest:
//   A  recoverer-level cases: service.NewRecoverer around a gated scripted service (or the real time
//      ticker), driven through phase scripts; every observation is judged in Coq by the checker K and
//      must be an outcome of Model/Lifecycle.v for the same script (cases.v / cases.json);
//   B  plug-in level Close sweep with goroutine / subscription / call accounting (direct.json);
//   C  panics injected into provider / pipeline / post-processor calls of a real plug-in, each case in
//      a child process so that an uncontained panic is seen as a dead process (direct.json).

import (
	ocr2keepers "github.com/smartcontractkit/chainlink-automation/pkg/v3"
	common "github.com/smartcontractkit/chainlink-common/pkg/types/automation"
	"github.com/smartcontractkit/libocr/offchainreporting2plus/ocr3types"
	simutil "github.com/smartcontractkit/chainlink-automation/tools/simulator/util"
	pkgutil "github.com/smartcontractkit/chainlink-automation/pkg/util"
	"context"
	"encoding/json"
	"fmt"
	"io"
	"log"
	"os"
	"os/exec"
	"path/filepath"
	"runtime"
	"sort"
	"strings"
	"sync/atomic"
	"testing"
	"testing/synctest"
	"time"

	. "verifharness/h"

	"github.com/smartcontractkit/chainlink-automation/pkg/v3/runner"
	"github.com/smartcontractkit/chainlink-automation/pkg/v3/service"
)

// ---------------------------------------------------------------- goroutine accounting

func allStacks() []string {
	buf := make([]byte, 1<<22)
	for {
		n := runtime.Stack(buf, true)
		if n < len(buf) {
			return strings.Split(string(buf[:n]), "\n\n")
		}
		buf = make([]byte, 2*len(buf))
	}
}

func myBubble() string {
	buf := make([]byte, 512)
	n := runtime.Stack(buf, false)
	h := string(buf[:n])
	i := strings.Index(h, "synctest bubble ")
	if i < 0 {
		return ""
	}
	j := strings.IndexAny(h[i:], "],")
	if j < 0 {
		return ""
	}
	return h[i : i+j]
}

// repoGoroutines returns, for every goroutine of the calling bubble that has a frame in a repository
// package, the function of its innermost repository frame.
func repoGoroutines() []string {
	var out []string
	b := myBubble()
	if b == "" {
		return nil
	}
	for _, g := range allStacks() {
		lines := strings.Split(g, "\n")
		if len(lines) == 0 || !strings.Contains(lines[0], b+"]") && !strings.Contains(lines[0], b+",") {
			continue
		}
		for _, l := range lines[1:] {
			if strings.HasPrefix(l, "\t") || strings.HasPrefix(l, "created by") {
				continue
			}
			if strings.Contains(l, "chainlink-automation/pkg/") || strings.Contains(l, "chainlink-automation/internal/") {
				fn := l
				if k := strings.LastIndex(fn, "("); k > 0 {
					fn = fn[:k]
				}
				fn = strings.TrimPrefix(fn, "github.com/smartcontractkit/chainlink-automation/")
				out = append(out, fn)
				break
			}
		}
	}
	sort.Strings(out)
	return out
}

func bubble(t *testing.T, f func(*testing.T)) {
	defer func() {
		if r := recover(); r != nil {
			if !strings.Contains(fmt.Sprint(r), "blocked goroutines remain") {
				panic(r)
			}
		}
	}()
	synctest.Test(t, f)
}

// ---------------------------------------------------------------- part A: recoverer-level cases

type phaseJ struct {
	Acts   []string `json:"acts"` // start | call | panic | ret
	Gate   bool     `json:"gate"`
	Timer  bool     `json:"timer"`
	Hold   bool     `json:"hold,omitempty"` // a call of the wrapped service's Close() does not return during this phase
	Yields int      `json:"yields"` // runtime.Gosched() calls between actions (scheduling jitter; not in the model)
}

type obsJ struct {
	Close  int      `json:"close"`
	Start  int      `json:"start"`
	G      int      `json:"g"`
	Starts int      `json:"starts"`
	Late   bool     `json:"late"`
	Left   []string `json:"left,omitempty"` // repository goroutines left at the end (diagnostic)
}

type caseJ struct {
	Family string   `json:"family"`
	Kind   string   `json:"kind"` // once | fresh | sticky
	Phases []phaseJ `json:"phases"`
	Obs    *obsJ    `json:"obs,omitempty"`
}

const (
	shortSleep = 1500 * time.Millisecond // > one tick of the real ticker, < the cool-down even five times over
	longSleep  = 25 * time.Second        // > tick + cool-down
)

func errClass(err error) int {
	switch {
	case err == nil:
		return 1
	case strings.Contains(err.Error(), "recoverable service not running"):
		return 2
	default:
		return 3
	}
}

func startClass(err error) int {
	switch {
	case err == nil:
		return 1
	case strings.Contains(err.Error(), "already started"):
		return 2
	case strings.Contains(err.Error(), "recoverable service closed"):
		return 3
	default:
		return 4
	}
}

func runCase(t *testing.T, c *caseJ) {
	o := &obsJ{}
	c.Obs = o
	bubble(t, func(t *testing.T) {
		var in inner
		switch c.Kind {
		case "once":
			in = newOnce()
		case "fresh":
			in = newScripted(false)
		case "resultstore":
			in = newRS()
		default:
			in = newScripted(true)
		}
		w := &gated{in: in, g: newGate(), hc: newGate()}
		rec := service.NewRecoverer(w, log.New(io.Discard, "", 0))
		var startRes, closeRes atomic.Int32 // 0 = not returned
		started, called := false, false
		for _, ph := range c.Phases {
			w.g.set(ph.Gate)
			w.hc.set(!ph.Hold)
			for _, a := range ph.Acts {
				switch a {
				case "start":
					if !started {
						started = true
						go func() { startRes.Store(int32(startClass(rec.Start(context.Background())))) }()
					}
				case "call":
					if !called {
						called = true
						go func() {
							r := errClass(rec.Close())
							w.closeReturned.Store(true)
							closeRes.Store(int32(r))
						}()
					}
				case "panic":
					in.armPanic()
				case "ret":
					in.armRet()
				}
				for i := 0; i < ph.Yields; i++ {
					runtime.Gosched()
				}
			}
			if ph.Timer {
				time.Sleep(longSleep)
			} else {
				time.Sleep(shortSleep)
			}
			synctest.Wait()
		}
		// observation
		switch {
		case !called:
			o.Close = 0
		case closeRes.Load() == 0:
			o.Close = 4
		default:
			o.Close = int(closeRes.Load())
		}
		o.Start = int(startRes.Load())
		left := repoGoroutines()
		w.mu.Lock()
		switch {
		case w.atGate > 0:
			o.G = 1
		case w.inStart > 0:
			o.G = 2
		default:
			for _, f := range left {
				if strings.Contains(f, "recoverableStart") {
					o.G = 3
				}
			}
		}
		o.Starts = w.entered
		if o.Starts > 3 {
			o.Starts = 3
		}
		o.Late = w.late
		w.mu.Unlock()
		if len(left) > 0 {
			o.Left = left
		}
		// stop whatever is left so that the bubble can end (a watcher that is blocked for ever is absorbed by `bubble`)
		w.g.set(true)
		w.hc.set(true)
		in.kill()
		if !called {
			_ = rec.Close()
		}
		time.Sleep(longSleep)
		synctest.Wait()
		in.kill()
		time.Sleep(longSleep)
	})
}

func ph(gate, timer bool, acts ...string) phaseJ {
	return phaseJ{Acts: append([]string{}, acts...), Gate: gate, Timer: timer}
}

var kinds = []string{"once", "fresh", "sticky"}

func boundaryCases() []caseJ {
	var cs []caseJ
	settle := ph(true, true)
	for _, k := range append(append([]string{}, kinds...), "resultstore") {
		add := func(fam string, phs ...phaseJ) {
			if k == "resultstore" {
				for _, p := range phs {
					for _, a := range p.Acts {
						if a == "panic" || a == "ret" {
							return // the real store has no hook for either
						}
					}
				}
			}
			cs = append(cs, caseJ{Family: fam, Kind: k, Phases: phs})
		}
		add("clean", ph(true, false, "start"), ph(true, false, "call"), settle)
		add("start-only", ph(true, false, "start"), settle)
		add("close-before-start", ph(true, false, "call"), ph(true, false, "start"), settle)
		for y := 0; y < 6; y++ {
			p := ph(true, false, "start", "call")
			p.Yields = y
			add("close-races-start", p, settle)
			q := ph(true, false, "call", "start")
			q.Yields = y
			add("close-races-start", q, settle)
		}
		add("close-before-service-start", ph(false, false, "start"), ph(false, false, "call"), settle)
		add("close-during-cooldown", ph(true, false, "start"), ph(true, false, "panic"), ph(true, false, "call"), settle)
		// the cool-down ends while recoverer.Close is still inside the wrapped service's Close
		hold := func(p phaseJ) phaseJ { p.Hold = true; return p }
		add("slow-close-during-cooldown", ph(true, false, "start"), ph(true, false, "panic"), hold(ph(true, false, "call")), hold(ph(true, true)), settle)
		add("slow-close-during-cooldown", ph(true, false, "start"), hold(ph(true, false, "panic", "call")), hold(ph(true, true)), settle)
		add("slow-close-during-cooldown", ph(true, false, "start"), hold(ph(true, false, "call", "panic")), hold(ph(true, true)), settle)
		add("slow-close-during-cooldown", ph(true, false, "start"), ph(true, false, "panic"), hold(ph(true, true, "call")), settle)
		add("slow-close-while-running", ph(true, false, "start"), hold(ph(true, false, "call")), settle)
		add("slow-close-restart-held", ph(true, false, "start"), ph(false, true, "panic"), hold(ph(false, false, "call")), hold(ph(true, false)), settle)
		add("slow-close-before-start", hold(ph(true, false, "call")), hold(ph(true, false, "start")), settle)
		add("panic-recovers", ph(true, false, "start"), ph(true, true, "panic"))
		add("panic-recovers-close", ph(true, false, "start"), ph(true, true, "panic"), ph(true, false, "call"), settle)
		add("panic-twice", ph(true, false, "start"), ph(true, true, "panic"), ph(true, true, "panic"))
		for y := 0; y < 3; y++ {
			p := ph(true, false, "panic", "call")
			p.Yields = y
			add("panic-races-close", ph(true, false, "start"), p, settle)
			q := ph(true, false, "call", "panic")
			q.Yields = y
			add("panic-races-close", ph(true, false, "start"), q, settle)
		}
		add("restart-held-close", ph(true, false, "start"), ph(false, true, "panic"), ph(false, false, "call"), settle)
		add("close-at-end-of-cooldown", ph(true, false, "start"), ph(true, false, "panic"), ph(true, true, "call"))
		if k != "once" {
			add("return-then-close", ph(true, false, "start"), ph(true, false, "ret"), ph(true, false, "call"), settle)
			for y := 0; y < 3; y++ {
				p := ph(true, false, "ret", "call")
				p.Yields = y
				add("close-races-return", ph(true, false, "start"), p, settle)
				q := ph(true, false, "call", "ret")
				q.Yields = y
				add("close-races-return", ph(true, false, "start"), q, settle)
			}
			add("return-only", ph(true, false, "start"), ph(true, false, "ret"), settle)
		}
		// the service's own return caused by Close, many times (the historic lost-stop race)
		reps := 4
		if k == "once" {
			reps = 40 // service.Close waits for Start to return: its nil result and Close's own signal race for the watcher
		}
		for y := 0; y < reps; y++ {
			p := ph(true, false, "call")
			p.Yields = y % 4
			add("close-while-running", ph(true, false, "start"), p, settle)
		}
	}
	return cs
}

func randomCase(r *Rng) caseJ {
	c := caseJ{Family: "random", Kind: append(append([]string{}, kinds...), "resultstore")[r.Intn(4)]}
	n := r.Range(1, 4)
	started, called, panics := false, false, 0
	for i := 0; i < n; i++ {
		p := phaseJ{Gate: !r.Chance(1, 4), Timer: r.Chance(1, 3), Yields: r.Intn(3)}
		if !started && (i == 0 || r.Chance(2, 3)) {
			p.Acts = append(p.Acts, "start")
			started = true
		}
		if c.Kind != "resultstore" && panics < 2 && r.Chance(1, 3) {
			p.Acts = append(p.Acts, "panic")
			panics++
		}
		if c.Kind != "once" && c.Kind != "resultstore" && r.Chance(1, 6) {
			p.Acts = append(p.Acts, "ret")
		}
		if !called && r.Chance(1, 3) {
			p.Acts = append(p.Acts, "call")
			called = true
		}
		p.Hold = r.Chance(1, 5)
		// random order of the actions of the phase
		perm := r.Perm(len(p.Acts))
		acts := make([]string, len(p.Acts))
		for j, k := range perm {
			acts[j] = p.Acts[k]
		}
		p.Acts = acts
		c.Phases = append(c.Phases, p)
	}
	if r.Chance(4, 5) {
		c.Phases = append(c.Phases, ph(true, true))
	}
	return c
}

func coqKind(k string) string {
	return map[string]string{"once": "KOnce", "fresh": "KFresh", "sticky": "KSticky", "resultstore": "KSticky"}[k]
}
func coqAct(a string) string {
	return map[string]string{"start": "AStart", "call": "ACall", "panic": "APanic", "ret": "ARet"}[a]
}
func coqCase(c caseJ) string {
	phs := CoqList(c.Phases, func(p phaseJ) string {
		return fmt.Sprintf("mkPhase %s %s %s %s", CoqList(p.Acts, coqAct), CoqBool(p.Gate), CoqBool(p.Timer), CoqBool(p.Hold))
	})
	o := c.Obs
	return fmt.Sprintf("mkCase %s %s (mkObs %d %d %d %d %s)", coqKind(c.Kind), phs, o.Close, o.Start, o.G, o.Starts, CoqBool(o.Late))
}

// ---------------------------------------------------------------- part B: plug-in level Close sweep

type plObs struct {
	Name        string   `json:"name"`
	CloseRet    bool     `json:"close_returned"`
	CloseErr    string   `json:"close_err,omitempty"`
	Before      int      `json:"goroutines_before_close"`
	InRun       int      `json:"pipeline_runs_in_progress_at_close"`
	Left        []string `json:"left,omitempty"`
	Subs        int      `json:"subscriptions_left"`
	CallsAfter  int      `json:"provider_calls_after_close"`
	InCallAfter int      `json:"calls_still_in_progress_once_close_returned"`
	Verdict     string   `json:"verdict"` // ok | close_before_service_start | violation: ...
	BaseNonZero bool     `json:"base_nonzero,omitempty"`
}

// classify decides whether what is left after Close is nothing, the known finding "Close reached a
// service before its Start had marked it running" (and only that), or a violation.
func classify(o *plObs) {
	if !o.CloseRet {
		o.Verdict = "violation: plugin.Close did not return"
		return
	}
	if len(o.Left) == 0 && o.Subs == 0 && o.CallsAfter == 0 && o.InCallAfter == 0 {
		o.Verdict = "ok"
		return
	}
	nRec, nTick, coord, runner, meta := 0, 0, false, false, false
	for _, l := range strings.Split(o.CloseErr, "\n") {
		switch {
		case l == "recoverable service not running":
			nRec++
		case strings.Contains(l, "timeTicker has not been started"):
			nTick++
		case strings.Contains(l, "Coordinator has not been started"):
			coord = true
		case l == "not running":
			runner = true
		case l == "service not running":
			meta = true
		}
	}
	allow := map[string]int{}
	if nRec > 0 || runner {
		allow["pkg/util.(*WorkerGroup[...]).runQueuing"] = 1
		allow["pkg/util.(*WorkerGroup[...]).runProcessing"] = 1
	}
	allow["pkg/v3/tickers.(*timeTicker[...]).Start"] = nTick
	if coord {
		allow["pkg/v3/coordinator.(*coordinator).run"] = 1
		allow["pkg/util.(*Cache[...]).Start"] += 2
	}
	if runner {
		allow["pkg/v3/runner.(*Runner).Start"] = 1
		allow["pkg/util.(*Cache[...]).Start"] += 1
	}
	if meta {
		allow["pkg/v3/stores.(*metadataStore).Start"] = 1
	}
	for _, f := range o.Left {
		if allow[f] <= 0 {
			o.Verdict = "violation: goroutine left after Close: " + f
			return
		}
		allow[f]--
	}
	if o.Subs > 0 && !(meta || nRec > 0) {
		o.Verdict = "violation: block subscription left after Close"
		return
	}
	if o.CallsAfter > 0 && nTick == 0 && !coord {
		o.Verdict = "violation: providers still called after Close"
		return
	}
	if o.InCallAfter > 0 && nTick == 0 && nRec == 0 {
		o.Verdict = "violation: a provider / pipeline call that was in progress at Close is still running (its context not cancelled) once Close has returned"
		return
	}
	o.Verdict = "close_before_service_start"
}

func totalCalls(s *sites) int {
	return int(s.logs.calls.Load() + s.events.calls.Load() + s.recov.calls.Load() + s.builder.calls.Load() +
		s.getter.calls.Load() + s.runnable.calls.Load() + s.updater.calls.Load())
}

type plCase struct {
	Name     string
	Yields   int           // runtime.Gosched() before Close
	Wait     bool          // synctest.Wait() before Close
	Sleep    time.Duration // virtual time before Close
	RunDelay time.Duration // virtual duration of one pipeline run
	ProvDelay time.Duration // virtual duration of one log-provider call
	OneP     bool          // GOMAXPROCS(1): Close runs before any service goroutine
}

func runPlCase(t *testing.T, c plCase) *plObs {
	o := &plObs{Name: c.Name}
	if c.OneP {
		defer runtime.GOMAXPROCS(runtime.GOMAXPROCS(1))
	}
	bubble(t, func(t *testing.T) {
		o.BaseNonZero = len(repoGoroutines()) != 0
		nd := newNode18(t, c.RunDelay, c.ProvDelay)
		for i := 0; i < c.Yields; i++ {
			runtime.Gosched()
		}
		if c.Wait {
			synctest.Wait()
		}
		if c.Sleep > 0 {
			time.Sleep(c.Sleep)
		}
		o.Before = len(repoGoroutines())
		o.InRun = int(nd.Run.inRun.Load())
		var ret atomic.Bool
		var cerr atomic.Value
		doClose := func() {
			if err := nd.Plugin.Close(); err != nil {
				cerr.Store(err.Error())
			}
			ret.Store(true)
		}
		if c.OneP {
			doClose() // on one P, without yielding: before any goroutine of startServices has run
		} else {
			go doClose()
		}
		synctest.Wait()
		if ret.Load() {
			// Close has returned and every goroutine is durably blocked: a call that is still sleeping was not cancelled
			o.InCallAfter = int(nd.Run.inRun.Load() + nd.Logs.inCall.Load())
		}
		time.Sleep(30 * time.Second) // in-flight pipeline runs and tick goroutines finish
		synctest.Wait()
		calls := totalCalls(nd.S)
		time.Sleep(time.Hour) // tickers, cache cleaners and the 10 s cool-down have had their time
		synctest.Wait()
		o.CloseRet = ret.Load()
		if s, ok := cerr.Load().(string); ok {
			o.CloseErr = s
		}
		o.Left = repoGoroutines()
		o.Subs = nd.Blocks.live()
		o.CallsAfter = totalCalls(nd.S) - calls
	})
	classify(o)
	return o
}

func plCases() []plCase {
	cs := []plCase{
		{Name: "immediately-after-creation-1P", OneP: true},
		{Name: "immediately-after-creation"},
		{Name: "after-1-yield", Yields: 1}, {Name: "after-3-yields", Yields: 3}, {Name: "after-20-yields", Yields: 20},
		{Name: "after-start-up", Wait: true},
	}
	for _, ms := range []int{1, 300, 999, 1000, 1001, 1500, 2999, 3000, 5000, 5001, 29999, 30000, 30001, 61000} {
		cs = append(cs, plCase{Name: fmt.Sprintf("at-%dms", ms), Wait: true, Sleep: time.Duration(ms) * time.Millisecond})
	}
	for _, ms := range []int{1200, 2500, 3700} {
		cs = append(cs, plCase{Name: fmt.Sprintf("during-pipeline-run-at-%dms", ms), Wait: true, Sleep: time.Duration(ms) * time.Millisecond, RunDelay: 2 * time.Second})
	}
	for _, ms := range []int{1200, 2500, 3700} {
		cs = append(cs, plCase{Name: fmt.Sprintf("during-provider-call-at-%dms", ms), Wait: true, Sleep: time.Duration(ms) * time.Millisecond, ProvDelay: 2 * time.Second})
	}
	return cs
}

// ---------------------------------------------------------------- part C: injected panics (child processes)

type childObs struct {
	Site       string         `json:"site"`
	At         int            `json:"at"`
	Fired      bool           `json:"fired"`
	ResumeNs   int64          `json:"resume_ns"` // virtual time between the panic and the next call of the same site (-1: never)
	Calls60    map[string]int `json:"calls_at_60s"`
	Calls120   map[string]int `json:"calls_at_120s"`
	CloseRet   bool           `json:"close_returned"`
	CloseErr   string         `json:"close_err,omitempty"`
	Left       []string       `json:"left,omitempty"`
	Subs       int            `json:"subscriptions_left"`
	CallsAfter int            `json:"provider_calls_after_close"`
	Died       string         `json:"died,omitempty"`
	HungObs    int            `json:"observation_calls_that_never_returned,omitempty"`
	Verdict    string         `json:"verdict"`
}

var siteNames = []string{"logprovider", "events", "recoverable", "builder", "getter", "pipeline", "postprocessor"}

func snapshotCalls(s *sites) map[string]int {
	m := map[string]int{}
	for _, n := range siteNames {
		m[n] = int(s.byName(n).calls.Load())
	}
	return m
}

func TestC18Child(t *testing.T) {
	site := os.Getenv("C18_SITE")
	if site == "" {
		t.Skip("child of TestC18")
	}
	at := EnvInt("C18_AT", 3)
	o := &childObs{Site: site, At: at, ResumeNs: -1}
	bubble(t, func(t *testing.T) {
		nd := newNode18(t, 0)
		st := nd.S.byName(site)
		if st != nil {
			st.at.Store(int32(at))
			st.times.Store(int32(EnvInt("C18_TIMES", 1)))
		}
		var hung atomic.Int32
		feed := func(k int) {
			// an outcome whose history surfaces two proposals on ever higher blocks keeps live records in the proposal
			// queue, so that Dequeue (final flows, every second) consults the type getter
			if site != "typegetter" {
				return
			}
			mk := func(typ uint8, n int) common.CoordinatedBlockProposal {
				id := UpkeepID(typ, n)
				var tr common.Trigger
				if typ == 1 {
					tr = common.NewLogTrigger(common.BlockNumber(1000+k), Hash32("b", 1000+k), &common.LogTriggerExtension{TxHash: Hash32("tx", n), Index: 1, BlockHash: Hash32("lb", n), BlockNumber: 5})
				} else {
					tr = common.NewTrigger(common.BlockNumber(1000+k), Hash32("b", 1000+k))
				}
				return common.CoordinatedBlockProposal{UpkeepID: id, Trigger: tr, WorkID: simutil.UpkeepWorkID(id, tr)}
			}
			raw, _ := ocr2keepers.AutomationOutcome{SurfacedProposals: [][]common.CoordinatedBlockProposal{{mk(1, 7), mk(0, 8)}}}.Encode()
			hung.Add(1)
			go func() {
				_, _ = nd.Plugin.Observation(context.Background(), ocr3types.OutcomeContext{SeqNr: uint64(2 + k), PreviousOutcome: raw}, nil)
				hung.Add(-1)
			}()
		}
		for k := 0; k < 30; k++ {
			feed(k)
			time.Sleep(2 * time.Second)
			synctest.Wait()
		}
		o.Calls60 = snapshotCalls(nd.S)
		for k := 30; k < 60; k++ {
			feed(k)
			time.Sleep(2 * time.Second)
			synctest.Wait()
		}
		o.Calls120 = snapshotCalls(nd.S)
		o.HungObs = int(hung.Load())
		if st != nil {
			o.Fired = st.fired.Load() > 0
			if o.Fired && st.nextAt.Load() != 0 {
				o.ResumeNs = st.nextAt.Load() - st.firedAt.Load()
			}
		}
		var ret atomic.Bool
		var cerr atomic.Value
		go func() {
			if err := nd.Plugin.Close(); err != nil {
				cerr.Store(err.Error())
			}
			ret.Store(true)
		}()
		synctest.Wait()
		time.Sleep(30 * time.Second)
		synctest.Wait()
		calls := totalCalls(nd.S)
		time.Sleep(time.Hour)
		synctest.Wait()
		o.CloseRet = ret.Load()
		if s, ok := cerr.Load().(string); ok {
			o.CloseErr = s
		}
		o.Left = repoGoroutines()
		o.Subs = nd.Blocks.live()
		o.CallsAfter = totalCalls(nd.S) - calls
	})
	b, _ := json.Marshal(o)
	fmt.Println("C18CHILD " + string(b))
}

func judgeChild(o *childObs) {
	switch {
	case o.Died != "":
		o.Verdict = "violation: the process did not survive a panic in " + o.Site + ": " + o.Died
	case o.HungObs > 0:
		o.Verdict = fmt.Sprintf("violation: after a panic in %s, %d Observation call(s) never returned", o.Site, o.HungObs)
	case o.Site != "none" && !o.Fired:
		o.Verdict = "violation: harness: the panic was not injected"
	case o.Site != "none" && (o.ResumeNs < 0 || o.ResumeNs > int64(10*time.Second)):
		o.Verdict = fmt.Sprintf("violation: the flow calling %s did not resume within the cool-down after the panic (resume_ns=%d)", o.Site, o.ResumeNs)
	default:
		for _, n := range siteNames {
			if o.Calls120[n] <= o.Calls60[n] {
				o.Verdict = fmt.Sprintf("violation: after a panic in %s the flow calling %s stopped ticking (%d calls at 60 s, %d at 120 s)", o.Site, n, o.Calls60[n], o.Calls120[n])
				return
			}
		}
		p := &plObs{CloseRet: o.CloseRet, CloseErr: o.CloseErr, Left: o.Left, Subs: o.Subs, CallsAfter: o.CallsAfter}
		classify(p)
		if p.Verdict != "ok" {
			o.Verdict = p.Verdict + " (Close after a panic in " + o.Site + ")"
			if !strings.HasPrefix(o.Verdict, "violation") {
				o.Verdict = "violation: " + o.Verdict
			}
			return
		}
		o.Verdict = "ok"
	}
}

func runChild(site string, at int, times ...int) *childObs {
	cmd := exec.Command(os.Args[0], "-test.run", "^TestC18Child$", "-test.v")
	cmd.Env = append(os.Environ(), "C18_SITE="+site, fmt.Sprintf("C18_AT=%d", at))
	if len(times) > 0 {
		cmd.Env = append(cmd.Env, fmt.Sprintf("C18_TIMES=%d", times[0]))
	}
	out, err := cmd.CombinedOutput()
	o := &childObs{Site: site, At: at, ResumeNs: -1}
	found := false
	for _, l := range strings.Split(string(out), "\n") {
		if strings.HasPrefix(l, "C18CHILD ") {
			if json.Unmarshal([]byte(strings.TrimPrefix(l, "C18CHILD ")), o) == nil {
				found = true
			}
		}
	}
	if err != nil || !found {
		s := string(out)
		if i := strings.Index(s, "panic:"); i >= 0 {
			s = s[i:]
		}
		if len(s) > 300 {
			s = s[:300]
		}
		o.Died = fmt.Sprintf("%v: %s", err, s)
	}
	judgeChild(o)
	return o
}

// ---------------------------------------------------------------- the test

func TestC18(t *testing.T) {
	dir := OutDir(t, "C18")
	r := NewRng(EnvSeed())
	var cases []caseJ
	if rp := ReplayFile(); rp != "" {
		cases = LoadReplayCases[caseJ](t, rp)
	} else {
		cases = append(cases, LoadCorpus[caseJ](t, "C18")...)
		cases = append(cases, boundaryCases()...)
		n := EnvInt("VERIF_N", 150)
		for i := 0; i < n; i++ {
			cases = append(cases, randomCase(r))
		}
	}
	cf := NewCaseFile("C18", "Base.Util", "Model.Lifecycle")
	fams := map[string]int{}
	outcomes := map[string]int{}
	for i := range cases {
		cases[i].Obs = nil
		runCase(t, &cases[i])
		cf.Add(coqCase(cases[i]))
		fams[cases[i].Family+"/"+cases[i].Kind]++
		o := cases[i].Obs
		outcomes[fmt.Sprintf("close=%d start=%d g=%d starts=%d late=%v", o.Close, o.Start, o.G, o.Starts, o.Late)]++
	}
	cf.Write(t, dir, "cases.v", "scase", [][2]string{
		{"mism", "find_idx (fun c => negb (model_allows c)) cases"},
		{"bad", "find_idx (fun c => negb (C18_check c)) cases"},
		{"kf_close_before_service_start", "find_idx kf_close_before_service_start cases"},
		{"kf_restart_start_once", "find_idx kf_restart_start_once cases"},
		{"nontriv", "find_idx case_nontrivial cases"},
		{"cov_closed_cases", "find_idx (fun c => has_act ACall (k_phases c)) cases"},
		{"cov_panic_cases", "find_idx (fun c => has_act APanic (k_phases c)) cases"},
		{"cov_gated_close", "find_idx (fun c => close_while_gated (k_phases c)) cases"},
	})
	WriteJSON(t, filepath.Join(dir, "cases.json"), map[string]any{"cases": cases, "families": fams, "distribution": outcomes})
	if ReplayFile() != "" {
		WriteJSON(t, filepath.Join(dir, "direct.json"), map[string]any{"evaluations": 0, "nontrivial_keys": []string{}, "violations": []any{}, "known": map[string]any{}})
		return
	}

	// parts B and C
	var violations []any
	known := map[string][]any{}
	var samples []any
	var keys []string
	dist := map[string]int{}
	evals := 0
	reps := 3
	if EnvTier() == "thorough" {
		reps = 10
	}
	for rep := 0; rep < reps; rep++ {
		for _, c := range plCases() {
			o := runPlCase(t, c)
			evals++
			keys = append(keys, "close-sweep/"+c.Name)
			dist["close-sweep: "+strings.SplitN(o.Verdict, ":", 2)[0]]++
			switch {
			case o.Verdict == "ok":
			case o.Verdict == "close_before_service_start":
				known["close_before_service_start"] = append(known["close_before_service_start"], o)
			default:
				violations = append(violations, o)
			}
			if len(samples) < 2 && c.Sleep > 0 {
				samples = append(samples, o)
			}
		}
	}
	for _, site := range append([]string{"none"}, siteNames...) {
		for _, at := range []int{1, 3} {
			if site == "none" && at != 1 {
				continue
			}
			o := runChild(site, at)
			evals++
			keys = append(keys, fmt.Sprintf("panic/%s/%d", site, at))
			dist["panic: "+strings.SplitN(o.Verdict, ":", 2)[0]]++
			if o.Verdict != "ok" {
				violations = append(violations, o)
			}
			if site == "pipeline" && at == 3 {
				samples = append(samples, o)
			}
		}
	}
	for _, site := range []string{"logprovider", "recoverable", "getter"} {
		// the same flow panics six times in a row (every call of its provider from the 3rd to the 8th): each panic is
		// contained, and the flow resumes and keeps ticking afterwards
		o := runChild(site, 3, 6)
		evals++
		keys = append(keys, fmt.Sprintf("panic/%s/3x6", site))
		dist["panic: "+strings.SplitN(o.Verdict, ":", 2)[0]]++
		if o.Verdict != "ok" {
			violations = append(violations, o)
		}
	}
	{
		// a panic in the injected UpkeepTypeGetter while the proposal queue's Dequeue calls it (final flows' tick goroutine)
		o := runChild("typegetter", 3)
		evals++
		keys = append(keys, "panic/typegetter-in-dequeue/3")
		dist["panic: "+strings.SplitN(o.Verdict, ":", 2)[0]]++
		if o.Verdict != "ok" {
			violations = append(violations, o)
		}
	}
	for _, o := range v2Cases(t, func(env []string, test string) (string, error) {
		cmd := exec.Command(os.Args[0], "-test.run", test, "-test.v")
		cmd.Env = append(os.Environ(), env...)
		out, err := cmd.CombinedOutput()
		return string(out), err
	}) {
		evals++
		keys = append(keys, o.Name)
		dist["v2: "+strings.SplitN(o.Verdict, ":", 2)[0]]++
		if o.Verdict != "ok" {
			violations = append(violations, o)
		}
	}
	// part D: the cache collector (pkg/util.Cache.Start), the one background goroutine every cache-owning service
	// (runner, coordinator) starts with `go` and stops from its own Close: Stop at every moment of the collector's
	// life - before the goroutine has run at all, after a few yields, while it is parked, exactly at a collection
	// tick, long after.  The goroutine must be gone afterwards.
	for _, cc := range cacheStopCases() {
		left := runCacheStop(t, cc)
		evals++
		keys = append(keys, "cache-collector/"+cc.Name)
		if len(left) > 0 {
			dist["cache-collector: violation"]++
			violations = append(violations, map[string]any{"name": "cache-collector/" + cc.Name, "verdict": "violation: the collector goroutine of a stopped cache is still running", "left": left})
		} else {
			dist["cache-collector: ok"]++
		}
	}
	// part E: every flow shares one runner.  A panic in the check pipeline is contained each time it happens: after more
	// contained panics than the runner has workers, a healthy check (of any flow) is still executed, and Close leaves
	// nothing behind.
	for _, workers := range []int{1, 3} {
		for _, panics := range []int{1, workers, workers + 2, 3 * workers} {
			name := fmt.Sprintf("runner-panics/%d-workers-%d-panics", workers, panics)
			verdict, left := runRunnerPanics(t, workers, panics)
			evals++
			keys = append(keys, name)
			if verdict != "ok" || len(left) > 0 {
				dist["runner-panics: violation"]++
				violations = append(violations, map[string]any{"name": name, "verdict": "violation: " + verdict, "left": left})
			} else {
				dist["runner-panics: ok"]++
			}
		}
	}
	if violations == nil {
		violations = []any{}
	}
	WriteJSON(t, filepath.Join(dir, "direct.json"), map[string]any{
		"evaluations": evals, "nontrivial_keys": keys, "violations": violations, "known": known,
		"samples": samples, "distribution": dist,
	})
}


// ---------------------------------------------------------------- part D: cache collector life cycle

type cacheStopCase struct {
	Name   string
	Yields int
	Wait   bool
	Sleep  time.Duration
	OneP   bool
}

func cacheStopCases() []cacheStopCase {
	cs := []cacheStopCase{{Name: "before-the-goroutine-ran-1P", OneP: true}, {Name: "immediately"}, {Name: "after-1-yield", Yields: 1},
		{Name: "after-5-yields", Yields: 5}, {Name: "parked", Wait: true}}
	for _, ms := range []int{999, 1000, 1001, 3000, 30000} {
		cs = append(cs, cacheStopCase{Name: fmt.Sprintf("at-%dms-of-1s-ticks", ms), Wait: true, Sleep: time.Duration(ms) * time.Millisecond})
	}
	return cs
}

func runCacheStop(t *testing.T, c cacheStopCase) (left []string) {
	if c.OneP {
		defer runtime.GOMAXPROCS(runtime.GOMAXPROCS(1))
	}
	bubble(t, func(t *testing.T) {
		ch := pkgutil.NewCache[int](time.Minute)
		for i := 0; i < 50; i++ {
			ch.Set(fmt.Sprint(i), i, time.Duration(i+1)*100*time.Millisecond)
		}
		go ch.Start(time.Second)
		for i := 0; i < c.Yields; i++ {
			runtime.Gosched()
		}
		if c.Wait {
			synctest.Wait()
		}
		if c.Sleep > 0 {
			time.Sleep(c.Sleep)
		}
		ch.Stop()
		synctest.Wait()
		time.Sleep(time.Minute)
		synctest.Wait()
		left = repoGoroutines()
	})
	return left
}

// ---------------------------------------------------------------- part E: contained panics in the shared runner

type panicky struct{ left atomic.Int32 }

func (p *panicky) CheckUpkeeps(_ context.Context, ps ...common.UpkeepPayload) ([]common.CheckResult, error) {
	if p.left.Add(-1) >= 0 {
		panic("injected pipeline panic")
	}
	out := make([]common.CheckResult, len(ps))
	for i, pl := range ps {
		out[i] = common.CheckResult{Eligible: true, UpkeepID: pl.UpkeepID, Trigger: pl.Trigger, WorkID: pl.WorkID, GasAllocated: 1}
	}
	return out, nil
}

func runRunnerPanics(t *testing.T, workers, panics int) (verdict string, left []string) {
	verdict = "ok"
	bubble(t, func(t *testing.T) {
		pipe := &panicky{}
		pipe.left.Store(int32(panics))
		rn, err := runner.NewRunner(log.New(io.Discard, "", 0), pipe, runner.RunnerConfig{Workers: workers, WorkerQueueLength: 100, CacheExpire: time.Minute, CacheClean: 30 * time.Second})
		if err != nil {
			t.Fatal(err)
		}
		go func() { _ = rn.Start(context.Background()) }()
		synctest.Wait()
		payload := func(i int) common.UpkeepPayload {
			id := UpkeepID(1, 9000+i)
			trg := common.NewLogTrigger(100, Hash32("blk", 100), &common.LogTriggerExtension{TxHash: Hash32("tx", i), Index: 1, BlockHash: Hash32("lb", i), BlockNumber: 99})
			return common.UpkeepPayload{UpkeepID: id, Trigger: trg, WorkID: simutil.UpkeepWorkID(id, trg)}
		}
		call := func(i int) (int, error, bool) {
			type ans struct {
				n   int
				err error
			}
			ch := make(chan ans, 1)
			go func() {
				rs, err := rn.CheckUpkeeps(context.Background(), payload(i))
				ch <- ans{len(rs), err}
			}()
			select {
			case a := <-ch:
				return a.n, a.err, true
			case <-time.After(2 * time.Minute):
				return 0, nil, false
			}
		}
		for i := 0; i < panics; i++ {
			if _, _, ok := call(i); !ok {
				verdict = fmt.Sprintf("the check call during contained panic %d of %d never returned", i+1, panics)
				break
			}
		}
		if verdict == "ok" {
			n, err, ok := call(1000)
			switch {
			case !ok:
				verdict = fmt.Sprintf("a healthy check after %d contained panics (%d workers) is never executed", panics, workers)
			case err != nil || n != 1:
				verdict = fmt.Sprintf("a healthy check after %d contained panics answered %d results, error %v", panics, n, err)
			}
		}
		_ = rn.Close()
		synctest.Wait()
		time.Sleep(time.Minute)
		synctest.Wait()
		if verdict == "ok" {
			left = repoGoroutines()
		}
	})
	return verdict, left
}
