package c18

import (
	"context"
	"fmt"
	"io"
	"log"
	"strings"
	"testing"
	"testing/synctest"
	"time"

	"github.com/smartcontractkit/chainlink-automation/pkg/v3/service"
	"github.com/smartcontractkit/chainlink-automation/pkg/v3/tickers"
)

type nopObs struct{}

func (nopObs) Process(context.Context, tickers.Tick[[]int]) error { return nil }

func TestProbeDrop(t *testing.T) {
	leaks := 0
	kinds := map[string]int{}
	for i := 0; i < 5000; i++ {
		func() {
			defer func() { recover() }()
			synctest.Test(t, func(t *testing.T) {
				tk := tickers.NewTimeTicker[[]int](time.Second, nopObs{}, nil, log.New(io.Discard, "", 0))
				rec := service.NewRecoverer(tk, log.New(io.Discard, "", 0))
				go rec.Start(context.Background())
				synctest.Wait()
				err := rec.Close()
				time.Sleep(time.Hour)
				g := repoGoroutines()
				if len(g) > 0 {
					leaks++
					for _, x := range g {
						kinds[strings.Split(x, "\n")[1]]++
					}
				}
				_ = err
			})
		}()
	}
	fmt.Println("leaks", leaks, kinds)
}
