package c18

import (
	"github.com/smartcontractkit/chainlink-automation/pkg/v3/types"
	"strings"
	"runtime"
	"context"
	"io"
	"log"
	"sync"
	"sync/atomic"
	"testing"
	"time"

	commontypes "github.com/smartcontractkit/libocr/commontypes"
	"github.com/smartcontractkit/libocr/offchainreporting2plus/ocr3types"

	. "verifharness/h"

	"github.com/smartcontractkit/chainlink-automation/pkg/v3/plugin"
	"github.com/smartcontractkit/chainlink-automation/pkg/v3/runner"
	simutil "github.com/smartcontractkit/chainlink-automation/tools/simulator/util"
	common "github.com/smartcontractkit/chainlink-common/pkg/types/automation"
)

// site is a named call site of a fake provider: it counts calls and panics on call number `at`
// (1-based) when armed.
type site struct {
	calls   atomic.Int32
	at      atomic.Int32
	times   atomic.Int32 // how many consecutive calls panic, starting with call `at` (0 = one)
	fired   atomic.Int32
	firedAt atomic.Int64 // virtual time (UnixNano) of the injected panic
	nextAt  atomic.Int64 // virtual time of the first call after the panic
}

func (s *site) hit(name string) {
	n := s.calls.Add(1)
	a, k := s.at.Load(), s.times.Load()
	if k < 1 {
		k = 1
	}
	will := a != 0 && n >= a && n < a+k
	if s.fired.Load() >= k && !will && s.nextAt.Load() == 0 {
		s.nextAt.CompareAndSwap(0, time.Now().UnixNano())
	}
	if will {
		s.fired.Add(1)
		s.firedAt.Store(time.Now().UnixNano())
		panic("injected panic in " + name)
	}
}

type sites struct {
	logs, events, recov, builder, getter, runnable, updater site
	tg site // the injected UpkeepTypeGetter as called from proposalQueue.Dequeue (a tick goroutine of the final flows)
}

// typeGetter is the UpkeepTypeGetter handed to the factory: the real one, plus the call site "typegetter" for calls
// that come from inside the proposal queue's Dequeue
func (s *sites) typeGetter(id common.UpkeepIdentifier) types.UpkeepType {
	pcs := make([]uintptr, 12)
	n := runtime.Callers(2, pcs)
	frames := runtime.CallersFrames(pcs[:n])
	for {
		f, more := frames.Next()
		if strings.Contains(f.Function, "proposalQueue).Dequeue") {
			s.tg.hit("typegetter")
			break
		}
		if !more {
			break
		}
	}
	return simutil.GetUpkeepType(id)
}

func (s *sites) byName(n string) *site {
	switch n {
	case "logprovider":
		return &s.logs
	case "events":
		return &s.events
	case "recoverable":
		return &s.recov
	case "builder":
		return &s.builder
	case "getter":
		return &s.getter
	case "pipeline":
		return &s.runnable
	case "postprocessor":
		return &s.updater
	case "typegetter":
		return &s.tg
	}
	return nil
}

type pLogs struct {
	s      *sites
	mu     sync.Mutex
	n      int
	delay  time.Duration // virtual time one call takes (it returns at once when its context is cancelled)
	inCall atomic.Int32
}

func (f *pLogs) GetLatestPayloads(ctx context.Context) ([]common.UpkeepPayload, error) {
	f.s.logs.hit("LogEventProvider.GetLatestPayloads")
	if f.delay > 0 {
		f.inCall.Add(1)
		select {
		case <-time.After(f.delay):
			f.inCall.Add(-1)
		case <-ctx.Done():
			f.inCall.Add(-1)
			return nil, ctx.Err()
		}
	}
	// one fresh log payload per call keeps the pipeline and the post-processors busy
	f.mu.Lock()
	f.n++
	n := f.n
	f.mu.Unlock()
	id := UpkeepID(1, 1000+n%3)
	ext := &common.LogTriggerExtension{TxHash: Hash32("tx", n), Index: uint32(n), BlockHash: Hash32("lb", n), BlockNumber: 7}
	tr := common.NewLogTrigger(10, Hash32("blk", 10), ext)
	return []common.UpkeepPayload{{UpkeepID: id, Trigger: tr, WorkID: simutil.UpkeepWorkID(id, tr)}}, nil
}
func (f *pLogs) SetConfig(common.LogEventProviderConfig) {}
func (f *pLogs) Start(context.Context) error             { return nil }
func (f *pLogs) Close() error                            { return nil }

type pEvents struct{ s *sites }

func (f *pEvents) GetLatestEvents(context.Context) ([]common.TransmitEvent, error) {
	f.s.events.hit("TransmitEventProvider.GetLatestEvents")
	return nil, nil
}

type pRecov struct{ s *sites }

func (f *pRecov) GetRecoveryProposals(context.Context) ([]common.UpkeepPayload, error) {
	f.s.recov.hit("RecoverableProvider.GetRecoveryProposals")
	return nil, nil
}

type pBuilder struct{ s *sites }

func (f *pBuilder) BuildPayloads(_ context.Context, ps ...common.CoordinatedBlockProposal) ([]common.UpkeepPayload, error) {
	f.s.builder.hit("PayloadBuilder.BuildPayloads")
	return nil, nil
}

type pGetter struct{ s *sites }

func (f *pGetter) GetActiveUpkeeps(context.Context) ([]common.UpkeepPayload, error) {
	f.s.getter.hit("ConditionalUpkeepProvider.GetActiveUpkeeps")
	return nil, nil
}

type pRunnable struct {
	s     *sites
	delay time.Duration // virtual time one pipeline run takes
	inRun atomic.Int32
}

func (f *pRunnable) CheckUpkeeps(ctx context.Context, ps ...common.UpkeepPayload) ([]common.CheckResult, error) {
	f.s.runnable.hit("Runnable.CheckUpkeeps (check pipeline)")
	if f.delay > 0 {
		f.inRun.Add(1)
		select {
		case <-time.After(f.delay):
		case <-ctx.Done():
		}
		f.inRun.Add(-1)
	}
	out := make([]common.CheckResult, len(ps))
	for i, p := range ps {
		// ineligible results go to the ineligible post-processor, which calls the state updater
		out[i] = common.CheckResult{UpkeepID: p.UpkeepID, Trigger: p.Trigger, WorkID: p.WorkID, Eligible: false}
	}
	return out, nil
}

type pUpdater struct{ s *sites }

func (f *pUpdater) SetUpkeepState(context.Context, common.CheckResult, common.UpkeepState) error {
	f.s.updater.hit("UpkeepStateUpdater.SetUpkeepState (post-processor)")
	return nil
}

// pBlocks counts live subscriptions (NewMetadataStore subscribes, metadataStore.Close unsubscribes)
type pBlocks struct {
	mu   sync.Mutex
	next int
	subs map[int]chan common.BlockHistory
}

func (f *pBlocks) Subscribe() (int, chan common.BlockHistory, error) {
	f.mu.Lock()
	defer f.mu.Unlock()
	if f.subs == nil {
		f.subs = map[int]chan common.BlockHistory{}
	}
	f.next++
	ch := make(chan common.BlockHistory, 8)
	f.subs[f.next] = ch
	return f.next, ch, nil
}
func (f *pBlocks) Unsubscribe(id int) error {
	f.mu.Lock()
	defer f.mu.Unlock()
	delete(f.subs, id)
	return nil
}
func (f *pBlocks) Start(context.Context) error { return nil }
func (f *pBlocks) Close() error                { return nil }
func (f *pBlocks) live() int {
	f.mu.Lock()
	defer f.mu.Unlock()
	return len(f.subs)
}

type node18 struct {
	Plugin ocr3types.ReportingPlugin[plugin.AutomationReportInfo]
	S      *sites
	Blocks *pBlocks
	Run    *pRunnable
	Logs   *pLogs
}

func newNode18(t *testing.T, runDelay time.Duration, provDelay ...time.Duration) *node18 {
	s := &sites{}
	nd := &node18{S: s, Blocks: &pBlocks{}, Run: &pRunnable{s: s, delay: runDelay}, Logs: &pLogs{s: s}}
	if len(provDelay) > 0 {
		nd.Logs.delay = provDelay[0]
	}
	fac := plugin.NewReportingPluginFactory(
		nd.Logs, &pEvents{s}, nd.Blocks, &pRecov{s}, &pBuilder{s}, &pGetter{s}, nd.Run,
		runner.RunnerConfig{Workers: 4, WorkerQueueLength: 100, CacheExpire: 20 * 60e9, CacheClean: 30e9},
		&RecEncoder{}, s.typeGetter, simutil.UpkeepWorkID, &pUpdater{s}, log.New(io.Discard, "", 0),
	)
	p, _, err := fac.NewReportingPlugin(context.Background(), ocr3types.ReportingPluginConfig{
		OracleID: commontypes.OracleID(0), N: 4, F: 1, OffchainConfig: []byte("{}"),
	})
	if err != nil {
		t.Fatalf("NewReportingPlugin: %v", err)
	}
	nd.Plugin = p
	return nd
}
