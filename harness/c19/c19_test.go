package c19

import (
	"context"
	"fmt"
	"io"
	"log"
	"math/big"
	"path/filepath"
	"runtime"
	"sort"
	"sync"
	"testing"
	"testing/synctest"
	"time"

	. "verifharness/h"

	"github.com/smartcontractkit/chainlink-automation/tools/simulator/config"
	"github.com/smartcontractkit/chainlink-automation/tools/simulator/simulate/chain"
	"github.com/smartcontractkit/chainlink-automation/tools/simulator/simulate/loader"
	"github.com/smartcontractkit/chainlink-automation/tools/simulator/simulate/ocr"
	simutil "github.com/smartcontractkit/chainlink-automation/tools/simulator/util"
	common "github.com/smartcontractkit/chainlink-common/pkg/types/automation"
)

var quiet = log.New(io.Discard, "", 0)

// ------------------------------------------------------------------ case forms

type c19Block struct {
	N uint64 `json:"n"`
	H int    `json:"h"` // hash number (Hash32("blk", H))
}

type c19Tx struct {
	From   int    `json:"from"`
	Report int    `json:"report"`
	Round  uint64 `json:"round"`
}

type c19Result struct {
	Upkeep int    `json:"upkeep"`
	Check  uint64 `json:"check"`
}

type c19Transmit struct {
	From    int         `json:"from"`
	Round   uint64      `json:"round"`
	Results []c19Result `json:"results"`
	Garbage bool        `json:"garbage,omitempty"` // the report bytes are not a report at all (the simulated contract accepts any bytes): no event
}

type c19Del struct {
	N         uint64        `json:"n"`
	Transmits []c19Transmit `json:"transmits,omitempty"` // nil: block without a PerformUpkeepTransaction
	HasTx     bool          `json:"has_tx"`
}

type c19Event struct {
	Block  uint64 `json:"block"`
	Conf   int64  `json:"conf"`
	Hash   int    `json:"hash"`
	Upkeep int    `json:"upkeep"`
	Check  uint64 `json:"check"`
}

type c19Wave struct {
	Txs    []c19Tx `json:"txs"`
	Ok     []bool  `json:"ok,omitempty"`     // observed
	Loaded []c19Tx `json:"loaded,omitempty"` // observed
}

type c19Case struct {
	Kind   string `json:"kind"` // hist | tx | conf
	Family string `json:"family"`
	// hist
	Arrival []c19Block `json:"arrival,omitempty"`
	Burst   bool       `json:"burst,omitempty"` // feed without waiting for quiescence between blocks (consistent chains only)
	// tx
	Waves []c19Wave `json:"waves,omitempty"`
	// conf
	Deliveries []c19Del `json:"deliveries,omitempty"`
	// observed
	Obs struct {
		History []c19Block `json:"history,omitempty"`
		Results []c19Tx    `json:"results,omitempty"`
		Events  []c19Event `json:"events,omitempty"`
	} `json:"obs"`
}

// ------------------------------------------------------------------ a block source the harness controls

// feedSource implements chain.Broadcaster: the Listener under test subscribes to it and the
// harness pushes blocks in the order it wants them to arrive.
type feedSource struct {
	mu sync.Mutex
	ch chan chain.Block
}

func newFeedSource() *feedSource { return &feedSource{ch: make(chan chain.Block)} }
func (f *feedSource) Subscribe(bool) (int, chan chain.Block) {
	return 1, f.ch
}
func (f *feedSource) Unsubscribe(int) {}

func mkBlock(n uint64, h int, txs ...interface{}) chain.Block {
	return chain.Block{Number: new(big.Int).SetUint64(n), Hash: Hash32("blk", h), Transactions: txs}
}

// The simulator's services stop themselves from a finalizer; the harness stops them explicitly
// (VerifStop) inside the synctest bubble, so the finalizers are cleared: a finalizer runs outside
// the bubble and would close the bubble's channels a second time.
func noFinalizer(objs ...any) {
	for _, o := range objs {
		runtime.SetFinalizer(o, nil)
	}
}

// ------------------------------------------------------------------ part A: history

type directObs struct {
	mu         sync.Mutex
	evals      int
	violations []map[string]any
	dist       map[string]int
	keys       map[string]bool
}

func newDirect() *directObs { return &directObs{dist: map[string]int{}, keys: map[string]bool{}} }
func (d *directObs) violate(what string, detail any) {
	d.mu.Lock()
	defer d.mu.Unlock()
	if len(d.violations) < 20 {
		d.violations = append(d.violations, map[string]any{"what": what, "detail": detail})
	}
}
func (d *directObs) count(k string, n int) {
	d.mu.Lock()
	defer d.mu.Unlock()
	d.dist[k] += n
}

func descending(h common.BlockHistory) bool {
	for i := 1; i < len(h); i++ {
		if !(h[i].Number < h[i-1].Number) {
			return false
		}
	}
	return true
}

func runHistCase(t *testing.T, c *c19Case, d *directObs) {
	hashIDs := map[[32]byte]int{}
	for _, b := range c.Arrival {
		hashIDs[Hash32("blk", b.H)] = b.H
	}
	synctest.Test(t, func(t *testing.T) {
		src := newFeedSource()
		lst := chain.NewListener(src, quiet)
		trk := chain.NewBlockHistoryTracker(lst, quiet)
		noFinalizer(lst, trk)
		id, ch, err := trk.Subscribe()
		if err != nil {
			t.Fatal(err)
		}
		synctest.Wait() // listener subscribed to the source, tracker subscribed to the listener
		var last common.BlockHistory
		drain := func() {
			for {
				select {
				case h := <-ch:
					last = h
					d.evals++
					if !descending(h) || len(h) > 256 {
						d.violate("intermediate history not strictly descending or longer than 256", map[string]any{"family": c.Family, "history": fmt.Sprint(h)})
					}
				default:
					return
				}
			}
		}
		for i, b := range c.Arrival {
			src.ch <- mkBlock(b.N, b.H)
			if !c.Burst || i%64 == 63 {
				synctest.Wait()
				drain()
			}
		}
		synctest.Wait()
		drain()
		c.Obs.History = nil
		for _, k := range last {
			c.Obs.History = append(c.Obs.History, c19Block{N: uint64(k.Number), H: hashIDs[k.Hash]})
		}
		_ = trk.Unsubscribe(id)
		trk.VerifStop()
		lst.VerifStop()
		synctest.Wait()
	})
}

func histTerm(c c19Case) string {
	blk := func(b c19Block) string { return fmt.Sprintf("mkBlock %d %d", b.N, b.H) }
	obs := func(b c19Block) string { return fmt.Sprintf("(%d, %d)", b.N, b.H) }
	return fmt.Sprintf("mkHCase %s %s", CoqList(c.Arrival, blk), CoqList(c.Obs.History, obs))
}

func seqBlocks(from uint64, n int) []c19Block {
	var bs []c19Block
	for i := 0; i < n; i++ {
		bs = append(bs, c19Block{N: from + uint64(i), H: int((from + uint64(i)) % 60000)})
	}
	return bs
}

func permuted(r *Rng, bs []c19Block) []c19Block {
	out := make([]c19Block, len(bs))
	for i, j := range r.Perm(len(bs)) {
		out[i] = bs[j]
	}
	return out
}

// local shuffle: every block is displaced by at most `w` positions (what bounded delivery delays do)
func jittered(r *Rng, bs []c19Block, w int) []c19Block {
	out := append([]c19Block(nil), bs...)
	for i := range out {
		j := i + r.Intn(w+1)
		if j < len(out) {
			out[i], out[j] = out[j], out[i]
		}
	}
	return out
}

func histBoundary(r *Rng) []c19Case {
	var cs []c19Case
	add := func(fam string, arr []c19Block, burst bool) {
		cs = append(cs, c19Case{Kind: "hist", Family: fam, Arrival: arr, Burst: burst})
	}
	add("defect9-98..101", seqBlocks(98, 4), false)
	add("cross-10", seqBlocks(7, 6), false)
	add("cross-100-reverse", func() []c19Block {
		b := seqBlocks(95, 12)
		sort.Slice(b, func(i, j int) bool { return b[i].N > b[j].N })
		return b
	}(), false)
	add("cross-1000-shuffled", permuted(r, seqBlocks(990, 25)), false)
	add("cross-100000", seqBlocks(99995, 11), false)
	add("cross-10^9", seqBlocks(999999995, 10), false)
	add("cross-2^32", seqBlocks(4294967290, 12), false)
	add("near-2^64", seqBlocks(18446744073709551600, 15), false)
	add("same-length", seqBlocks(128943862, 30), false)
	add("zero-start", seqBlocks(0, 12), false)
	add("single", seqBlocks(100, 1), false)
	add("depth-255", seqBlocks(900, 255), true)
	add("depth-256", seqBlocks(900, 256), true)
	add("depth-257", seqBlocks(900, 257), true)
	add("depth-300-cross-1000-shuffled", permuted(r, seqBlocks(850, 300)), true)
	add("depth-257-reverse", func() []c19Block {
		b := seqBlocks(9900, 257)
		sort.Slice(b, func(i, j int) bool { return b[i].N > b[j].N })
		return b
	}(), true)
	add("duplicates-same-block", append(seqBlocks(97, 6), seqBlocks(97, 6)...), false)
	// the same number delivered twice with different content: the later one wins
	add("duplicates-other-hash", []c19Block{{N: 99, H: 1}, {N: 100, H: 2}, {N: 99, H: 3}, {N: 101, H: 4}, {N: 100, H: 5}}, false)
	add("late-old-block", append(seqBlocks(100, 8), c19Block{N: 42, H: 42}), false)
	add("burst-cross-100", seqBlocks(90, 30), true)
	add("jittered-cross-1000", jittered(r, seqBlocks(985, 40), 3), false)
	return cs
}

func histRandom(r *Rng) c19Case {
	bases := []uint64{0, 5, 93, 97, 991, 9990, 99990, 999990, 128943862, 999999990, 4294967280, 18446744073709551500}
	base := bases[r.Intn(len(bases))] + uint64(r.Intn(5))
	n := []int{1, 2, 3, 5, 8, 13, 20, 40, 80, 270}[r.Intn(10)]
	bs := seqBlocks(base, n)
	c := c19Case{Kind: "hist", Family: "random"}
	switch r.Intn(6) {
	case 0:
		c.Arrival = bs
	case 1:
		c.Arrival = permuted(r, bs)
	case 2:
		c.Arrival = jittered(r, bs, 1+r.Intn(4))
	case 3: // gaps: drop some blocks
		for _, b := range permuted(r, bs) {
			if !r.Chance(1, 4) {
				c.Arrival = append(c.Arrival, b)
			}
		}
	case 4: // repeats of the same block
		c.Arrival = permuted(r, bs)
		for i := 0; i < 1+n/4; i++ {
			c.Arrival = append(c.Arrival, bs[r.Intn(len(bs))])
		}
		c.Arrival = jittered(r, c.Arrival, 5)
	case 5: // conflicting content for a number (not burst)
		c.Arrival = jittered(r, bs, 2)
		for i := 0; i < 1+n/8; i++ {
			b := bs[r.Intn(len(bs))]
			c.Arrival = append(c.Arrival, c19Block{N: b.N, H: 60001 + r.Intn(500)})
		}
		c.Family = "random-conflict"
	}
	if c.Family == "random" && (n > 100 || r.Chance(1, 3)) {
		c.Burst = true
	}
	return c
}

// ------------------------------------------------------------------ part B: transmit de-duplication

func txReport(id int) []byte { return []byte(fmt.Sprintf("report-%d", id)) }
func txFrom(id int) string   { return fmt.Sprintf("0xsender%d", id) }

func runTxCase(t *testing.T, c *c19Case) {
	tl, err := loader.NewOCR3TransmitLoader(config.SimulationPlan{}, nil, quiet)
	if err != nil {
		t.Fatal(err)
	}
	back := func(ev chain.TransmitEvent) c19Tx {
		out := c19Tx{From: -1, Report: -1, Round: ev.Round}
		fmt.Sscanf(ev.SendingAddress, "0xsender%d", &out.From)
		fmt.Sscanf(string(ev.Report), "report-%d", &out.Report)
		return out
	}
	for wi := range c.Waves {
		w := &c.Waves[wi]
		w.Ok = make([]bool, len(w.Txs))
		var wg sync.WaitGroup
		start := make(chan struct{})
		for i, tx := range w.Txs {
			wg.Add(1)
			go func(i int, tx c19Tx) {
				defer wg.Done()
				<-start
				w.Ok[i] = tl.Transmit(txFrom(tx.From), txReport(tx.Report), tx.Round) == nil
			}(i, tx)
		}
		close(start)
		wg.Wait()
		blk := mkBlock(uint64(1000+wi), 1000+wi)
		tl.Load(&blk)
		w.Loaded = nil
		for _, trx := range blk.Transactions {
			if p, ok := trx.(chain.PerformUpkeepTransaction); ok {
				for _, ev := range p.Transmits {
					if ev.BlockNumber == nil || ev.BlockNumber.Cmp(blk.Number) != 0 {
						w.Loaded = append(w.Loaded, c19Tx{From: -2, Report: -2})
						continue
					}
					w.Loaded = append(w.Loaded, back(ev))
				}
			}
		}
		// canonical order: by position of the submission in the wave
		pos := func(x c19Tx) int {
			for i, tx := range w.Txs {
				if tx == x {
					return i
				}
			}
			return len(w.Txs)
		}
		sort.SliceStable(w.Loaded, func(i, j int) bool { return pos(w.Loaded[i]) < pos(w.Loaded[j]) })
	}
	c.Obs.Results = nil
	for _, ev := range tl.Results() {
		c.Obs.Results = append(c.Obs.Results, back(ev))
	}
	sort.Slice(c.Obs.Results, func(i, j int) bool {
		a, b := c.Obs.Results[i], c.Obs.Results[j]
		if a.Report != b.Report {
			return a.Report < b.Report
		}
		if a.Round != b.Round {
			return a.Round < b.Round
		}
		return a.From < b.From
	})
}

func txTerm(c c19Case) string {
	tx := func(x c19Tx) string { return fmt.Sprintf("mkTx %d %d %d", x.From+10, x.Report+10, x.Round) }
	wave := func(w c19Wave) string {
		return fmt.Sprintf("mkWave %s %s %s", CoqList(w.Txs, tx), CoqList(w.Ok, CoqBool), CoqList(w.Loaded, tx))
	}
	return fmt.Sprintf("mkTxCase %s %s", CoqList(c.Waves, wave), CoqList(c.Obs.Results, tx))
}

func txBoundary() []c19Case {
	var cs []c19Case
	add := func(fam string, waves ...[]c19Tx) {
		c := c19Case{Kind: "tx", Family: fam}
		for _, w := range waves {
			c.Waves = append(c.Waves, c19Wave{Txs: w})
		}
		cs = append(cs, c)
	}
	add("four-nodes-one-report", []c19Tx{{1, 1, 7}, {2, 1, 7}, {3, 1, 7}, {4, 1, 7}})
	add("same-report-other-round", []c19Tx{{1, 1, 7}, {2, 1, 8}, {3, 1, 7}, {4, 1, 8}})
	add("same-round-other-report", []c19Tx{{1, 1, 7}, {1, 2, 7}, {2, 1, 7}, {2, 2, 7}})
	add("resubmit-after-load", []c19Tx{{1, 1, 7}, {2, 1, 7}}, []c19Tx{{3, 1, 7}, {4, 1, 7}, {3, 2, 7}})
	add("empty-wave", []c19Tx{}, []c19Tx{{1, 1, 1}}, []c19Tx{})
	add("sequential-singletons", []c19Tx{{1, 1, 1}}, []c19Tx{{2, 1, 1}}, []c19Tx{{1, 1, 2}}, []c19Tx{{1, 1, 1}})
	add("round-zero-and-max", []c19Tx{{1, 1, 0}, {2, 1, 18446744073709551615}, {3, 1, 0}, {4, 1, 18446744073709551615}})
	var big []c19Tx
	for i := 0; i < 40; i++ {
		big = append(big, c19Tx{From: i % 10, Report: i % 4, Round: uint64(i % 3)})
	}
	add("forty-concurrent", big)
	return cs
}

func txRandom(r *Rng) c19Case {
	c := c19Case{Kind: "tx", Family: "random"}
	nw := 1 + r.Intn(4)
	reports := 1 + r.Intn(4)
	rounds := 1 + r.Intn(3)
	for w := 0; w < nw; w++ {
		n := r.Intn(12)
		var txs []c19Tx
		for i := 0; i < n; i++ {
			txs = append(txs, c19Tx{From: 1 + r.Intn(7), Report: 1 + r.Intn(reports), Round: uint64(1 + r.Intn(rounds))})
		}
		c.Waves = append(c.Waves, c19Wave{Txs: txs})
	}
	return c
}

// ------------------------------------------------------------------ part C: report tracker

func runConfCase(t *testing.T, c *c19Case, dobs *directObs) {
	hashID := map[[32]byte]int{}
	upkeepNo := map[string]int{}
	synctest.Test(t, func(t *testing.T) {
		src := newFeedSource()
		lst := chain.NewListener(src, quiet)
		rt := ocr.NewReportTracker(lst, quiet)
		noFinalizer(lst, rt)
		tl, err := loader.NewOCR3TransmitLoader(config.SimulationPlan{}, nil, quiet)
		if err != nil {
			t.Fatal(err)
		}
		synctest.Wait()
		for di, d := range c.Deliveries {
			blk := mkBlock(d.N, int(d.N%60000))
			if d.HasTx {
				for ti, tr := range d.Transmits {
					var results []common.CheckResult
					for _, res := range tr.Results {
						id := UpkeepID(0, res.Upkeep)
						upkeepNo[id.String()] = res.Upkeep
						trg := common.NewTrigger(common.BlockNumber(res.Check), Hash32("blk", int(res.Check%60000)))
						results = append(results, common.CheckResult{UpkeepID: id, Trigger: trg, WorkID: simutil.UpkeepWorkID(id, trg)})
					}
					rep, err := simutil.EncodeCheckResultsToReportBytes(results)
					if err != nil {
						t.Fatal(err)
					}
					if tr.Garbage {
						rep = []byte("\x00not a report")
					}
					// round made unique per delivery so that the loader accepts each transmit
					if err := tl.Transmit(txFrom(tr.From), rep, uint64(di)*1000+uint64(ti)*10+tr.Round%10); err != nil {
						dobs.violate("transmit loader rejected a report in a round it had not seen", map[string]any{"family": c.Family, "delivery": di, "transmit": ti, "error": err.Error()})
					}
				}
				before := len(blk.Transactions)
				tl.Load(&blk)
				if len(d.Transmits) == 0 && len(blk.Transactions) == before {
					// a PerformUpkeepTransaction without transmits
					blk.Transactions = append(blk.Transactions, chain.PerformUpkeepTransaction{})
				}
				for _, trx := range blk.Transactions {
					if p, ok := trx.(chain.PerformUpkeepTransaction); ok {
						for ti, ev := range p.Transmits {
							hashID[ev.Hash] = confHashNo(di, ti)
						}
					}
				}
			}
			src.ch <- blk
			synctest.Wait()
			// the plug-in polls the tracker every second: what an earlier poll returned must not colour a later one
			// (confirmations are relative to the latest block at the time of the poll)
			if di%2 == 0 || d.HasTx {
				_, _ = rt.GetLatestEvents(context.Background())
			}
		}
		evs, err := rt.GetLatestEvents(context.Background())
		if err != nil {
			dobs.violate("the report tracker returned an error instead of the transmit events of the look-back", map[string]any{"family": c.Family, "deliveries": c.Deliveries, "error": err.Error()})
			evs = nil
		}
		c.Obs.Events = nil
		for _, e := range evs {
			c.Obs.Events = append(c.Obs.Events, c19Event{
				Block: uint64(e.TransmitBlock), Conf: e.Confirmations,
				Hash:   hashOr(hashID, e.TransactionHash),
				Upkeep: upkeepNo[e.UpkeepID.String()], Check: uint64(e.CheckBlock),
			})
			if e.Type != common.PerformEvent || e.WorkID == "" {
				c.Obs.Events[len(c.Obs.Events)-1].Upkeep = -1
			}
		}
		rt.VerifStop()
		lst.VerifStop()
		synctest.Wait()
	})
}

func confHashNo(di, ti int) int { return di*100 + ti + 1 }

func hashOr(m map[[32]byte]int, h [32]byte) int {
	if v, ok := m[h]; ok {
		return v
	}
	return 999999
}

// tx hashes are interned as (delivery index, transmit index): the harness reads each transmit's
// hash from the block the real loader filled, and maps the hash of every returned event back.
func confTerm(c c19Case) string {
	del := func(i int, d c19Del) string {
		if !d.HasTx {
			return fmt.Sprintf("mkDel %d None", d.N)
		}
		var ts []string
		for ti, tr := range d.Transmits {
			rs := tr.Results
			if tr.Garbage {
				rs = nil
			}
			res := CoqList(rs, func(r c19Result) string { return fmt.Sprintf("(%d, %d)", r.Upkeep, r.Check) })
			ts = append(ts, fmt.Sprintf("mkTev %d %d %s", d.N, confHashNo(i, ti), res))
		}
		return fmt.Sprintf("mkDel %d (Some %s)", d.N, CoqList(ts, func(s string) string { return s }))
	}
	var dels []string
	for i, d := range c.Deliveries {
		dels = append(dels, del(i, d))
	}
	ev := func(e c19Event) string {
		up := uint64(e.Upkeep)
		if e.Upkeep < 0 {
			up = 999999
		}
		return fmt.Sprintf("mkPev %d %s %d %d %d", e.Block, CoqZ(e.Conf), e.Hash, up, e.Check)
	}
	return fmt.Sprintf("mkCCase %s %s", CoqList(dels, func(s string) string { return s }), CoqList(c.Obs.Events, ev))
}

func confDeliveries(r *Rng, nums []uint64, txEvery int, maxRes int) []c19Del {
	var ds []c19Del
	for i, n := range nums {
		d := c19Del{N: n}
		if txEvery > 0 && i%txEvery == txEvery-1 {
			d.HasTx = true
			nt := 1 + r.Intn(2)
			for j := 0; j < nt; j++ {
				tr := c19Transmit{From: 1 + r.Intn(4), Round: uint64(r.Intn(10)), Garbage: r.Chance(1, 12)}
				for k := 0; k < 1+r.Intn(maxRes); k++ {
					chk := n
					if chk > 3 {
						chk = n - uint64(1+r.Intn(3))
					}
					tr.Results = append(tr.Results, c19Result{Upkeep: 1 + r.Intn(6), Check: chk})
				}
				d.Transmits = append(d.Transmits, tr)
			}
		}
		ds = append(ds, d)
	}
	return ds
}

func seqNums(from uint64, n int) []uint64 {
	var out []uint64
	for i := 0; i < n; i++ {
		out = append(out, from+uint64(i))
	}
	return out
}

func confBoundary(r *Rng) []c19Case {
	var cs []c19Case
	add := func(fam string, ds []c19Del) { cs = append(cs, c19Case{Kind: "conf", Family: fam, Deliveries: ds}) }
	add("no-blocks", nil)
	add("blocks-without-transmits", confDeliveries(r, seqNums(98, 5), 0, 1))
	add("one-transmit-two-confirmations", []c19Del{{N: 98}, {N: 99, HasTx: true, Transmits: []c19Transmit{{From: 1, Round: 3, Results: []c19Result{{Upkeep: 7, Check: 95}}}}}, {N: 100}, {N: 101}})
	add("transmit-in-latest-block", []c19Del{{N: 9}, {N: 10, HasTx: true, Transmits: []c19Transmit{{From: 1, Round: 3, Results: []c19Result{{Upkeep: 7, Check: 8}, {Upkeep: 8, Check: 8}}}}}})
	add("cross-100-every-block", confDeliveries(r, seqNums(95, 12), 1, 3))
	add("cross-1000-every-2nd", confDeliveries(r, seqNums(990, 30), 2, 2))
	// more transmit-bearing blocks than the look-back, crossing a power of ten
	add("lookback-101-cross-1000", confDeliveries(r, seqNums(950, 101), 1, 1))
	add("lookback-100", confDeliveries(r, seqNums(950, 100), 1, 1))
	add("lookback-130-cross-10000", confDeliveries(r, seqNums(9900, 130), 1, 1))
	// out-of-order delivery: latest goes backwards, confirmations may be negative
	add("out-of-order-latest-backwards", []c19Del{{N: 100}, {N: 102, HasTx: true, Transmits: []c19Transmit{{From: 2, Round: 1, Results: []c19Result{{Upkeep: 3, Check: 99}}}}}, {N: 101}})
	add("empty-perform-transaction", []c19Del{{N: 50}, {N: 51, HasTx: true}, {N: 52}})
	add("garbage-report-among-valid", []c19Del{{N: 50}, {N: 51, HasTx: true, Transmits: []c19Transmit{{From: 1, Round: 1, Garbage: true}, {From: 2, Round: 2, Results: []c19Result{{Upkeep: 1, Check: 49}}}}},
		{N: 52, HasTx: true, Transmits: []c19Transmit{{From: 3, Round: 3, Results: []c19Result{{Upkeep: 2, Check: 50}}}}}, {N: 53}})
	add("report-without-results", []c19Del{{N: 50}, {N: 51, HasTx: true, Transmits: []c19Transmit{{From: 1, Round: 1}, {From: 2, Round: 2, Results: []c19Result{{Upkeep: 1, Check: 49}}}}}, {N: 52}})
	return cs
}

func confRandom(r *Rng) c19Case {
	bases := []uint64{1, 90, 95, 985, 9980, 99990, 128943862}
	base := bases[r.Intn(len(bases))] + uint64(r.Intn(6))
	n := []int{1, 3, 6, 12, 25, 60, 120}[r.Intn(7)]
	nums := seqNums(base, n)
	fam := "random"
	if r.Chance(1, 4) { // bounded reordering
		for i := range nums {
			j := i + r.Intn(3)
			if j < len(nums) {
				nums[i], nums[j] = nums[j], nums[i]
			}
		}
		fam = "random-reordered"
	}
	return c19Case{Kind: "conf", Family: fam, Deliveries: confDeliveries(r, nums, 1+r.Intn(3), 3)}
}

// ------------------------------------------------------------------ part D: real broadcaster, delays (direct observations)

type bcastRun struct {
	Genesis   uint64 `json:"genesis"`
	Blocks    int    `json:"blocks"`
	Padding   int    `json:"padding"`
	Listeners int    `json:"listeners"`
	CadenceMs int    `json:"cadence_ms"`
	JitterMs  int    `json:"jitter_ms"`
	MaxDelay  int    `json:"max_delay_ms"`
}

func runBroadcast(t *testing.T, p bcastRun, d *directObs) {
	synctest.Test(t, func(t *testing.T) {
		conf := config.Blocks{
			Genesis: new(big.Int).SetUint64(p.Genesis), Cadence: config.Duration(time.Duration(p.CadenceMs) * time.Millisecond),
			Jitter: config.Duration(time.Duration(p.JitterMs) * time.Millisecond), Duration: p.Blocks, EndPadding: p.Padding,
		}
		// every block carries one transaction naming the block it was mined in (a loader, as the transmit and log loaders
		// of a real run add theirs): "identical hash and content for a given number" is judged on it
		tagLoader := func(b *chain.Block) {
			b.Transactions = append(b.Transactions, chain.Log{TxHash: Hash32("tag", int(b.Number.Uint64()%60000)), BlockNumber: new(big.Int).Set(b.Number), TriggerValue: b.Number.String()})
		}
		bb := chain.NewBlockBroadcaster(conf, p.MaxDelay, quiet, nil, tagLoader)
		type node struct {
			lst   *chain.Listener
			trk   *chain.BlockHistoryTracker
			id    int
			hist  chan common.BlockHistory
			mu    sync.Mutex
			got   []chain.Block
			last  common.BlockHistory
			stop  chan struct{}
			ended chan struct{}
		}
		nodes := make([]*node, p.Listeners)
		for i := range nodes {
			n := &node{stop: make(chan struct{}), ended: make(chan struct{})}
			n.lst = chain.NewListener(bb, quiet)
			n.trk = chain.NewBlockHistoryTracker(n.lst, quiet)
			noFinalizer(n.lst, n.trk)
			n.id, n.hist, _ = n.trk.Subscribe()
			events := n.lst.Subscribe(chain.BlockChannel)
			go func() {
				defer close(n.ended)
				for {
					select {
					case ev := <-events:
						if b, ok := ev.Event.(chain.Block); ok {
							n.mu.Lock()
							n.got = append(n.got, b)
							n.mu.Unlock()
						}
					case h := <-n.hist:
						n.mu.Lock()
						n.last = h
						if !descending(h) || len(h) > 256 {
							d.violate("history not strictly descending / longer than 256 (real broadcaster run)", map[string]any{"run": p, "history": fmt.Sprint(h)})
						}
						n.mu.Unlock()
					case <-n.stop:
						return
					}
				}
			}()
			nodes[i] = n
		}
		synctest.Wait()
		<-bb.Start()
		bb.Stop()
		time.Sleep(time.Duration(p.MaxDelay+5) * time.Millisecond)
		synctest.Wait()

		total := p.Blocks + p.Padding + 1 // genesis .. genesis+duration+padding
		ref := map[uint64][32]byte{}
		for ni, n := range nodes {
			n.mu.Lock()
			seen := map[uint64]int{}
			inOrder := true
			for i, b := range n.got {
				num := b.Number.Uint64()
				seen[num]++
				if h, ok := ref[num]; ok && h != b.Hash {
					d.violate("two listeners saw different hashes for one block number", map[string]any{"run": p, "block": num})
				}
				ref[num] = b.Hash
				tagged := 0
				for _, trx := range b.Transactions {
					if lg, ok := trx.(chain.Log); ok {
						tagged++
						if lg.TriggerValue != b.Number.String() {
							d.violate("a listener received a block whose content belongs to another block", map[string]any{"run": p, "listener": ni, "block": num, "content_of": lg.TriggerValue})
						}
					}
				}
				if tagged != 1 {
					d.violate("a listener received a block without (or with several copies of) the transaction its loader put in", map[string]any{"run": p, "listener": ni, "block": num, "transactions": tagged})
				}
				if i > 0 && n.got[i-1].Number.Uint64() > num {
					inOrder = false
				}
			}
			for k := 0; k < total; k++ {
				num := p.Genesis + uint64(k)
				if seen[num] != 1 {
					d.violate("a listener did not receive a block exactly once", map[string]any{"run": p, "listener": ni, "block": num, "times": seen[num]})
				}
			}
			if len(n.got) != total {
				d.violate("listener block count differs from blocks broadcast", map[string]any{"run": p, "listener": ni, "got": len(n.got), "want": total})
			}
			want := total
			if want > 256 {
				want = 256
			}
			if len(n.last) != want {
				d.violate("final history length wrong", map[string]any{"run": p, "listener": ni, "got": len(n.last), "want": want})
			}
			for i, k := range n.last {
				if uint64(k.Number) != p.Genesis+uint64(total-1-i) || ref[uint64(k.Number)] != k.Hash {
					d.violate("final history is not the newest blocks in descending order with their hashes", map[string]any{"run": p, "listener": ni, "index": i, "number": uint64(k.Number)})
					break
				}
			}
			if inOrder {
				d.count("listener_runs_in_order", 1)
			} else {
				d.count("listener_runs_out_of_order", 1)
			}
			d.evals += len(n.got)
			n.mu.Unlock()
		}
		for _, n := range nodes {
			_ = n.trk.Unsubscribe(n.id)
			close(n.stop)
			<-n.ended
			n.trk.VerifStop()
			n.lst.VerifStop()
		}
		synctest.Wait()
	})
}

// ------------------------------------------------------------------ part E: subscribe / unsubscribe churn on the real broadcaster

// churnOp happens in the quiet interval after block index After has been delivered.
type churnOp struct {
	After int    `json:"after"`
	Op    string `json:"op"`  // "sub" | "unsub"
	Who   int    `json:"who"` // subscriber number
}

type churnRun struct {
	Genesis  uint64    `json:"genesis"`
	Blocks   int       `json:"blocks"` // block indices 0..Blocks are broadcast
	Initial  int       `json:"initial"`
	MaxDelay int       `json:"max_delay_ms"` // must stay below half the cadence (40 ms)
	Ops      []churnOp `json:"ops"`
	Listener bool      `json:"listeners"` // attach real Listeners instead of raw subscriptions
}

const churnCadence = 40 * time.Millisecond

// guardedSource stands between a real Listener and the real BlockBroadcaster: Subscribe and
// Unsubscribe go to the broadcaster unchanged, blocks are forwarded one by one.  If the
// broadcaster closes the channel of a listener that did not unsubscribe, the listener is not
// shown the closed channel (it would spin on it forever, which would hide the finding behind a
// hang); the event is recorded instead.
type guardedSource struct {
	bb           *chain.BlockBroadcaster
	mu           sync.Mutex
	id           int
	unsubscribed bool
	closedEarly  bool
	stop         chan struct{}
}

func (g *guardedSource) Subscribe(delay bool) (int, chan chain.Block) {
	id, real := g.bb.Subscribe(delay)
	g.mu.Lock()
	g.id = id
	g.mu.Unlock()
	out := make(chan chain.Block)
	go func() {
		for {
			select {
			case b, ok := <-real:
				if !ok {
					g.mu.Lock()
					if !g.unsubscribed {
						g.closedEarly = true
					}
					g.mu.Unlock()
					return
				}
				select {
				case out <- b:
				case <-g.stop:
					return
				}
			case <-g.stop:
				return
			}
		}
	}()
	return id, out
}

func (g *guardedSource) Unsubscribe(id int) {
	g.mu.Lock()
	g.unsubscribed = true
	g.mu.Unlock()
	g.bb.Unsubscribe(id)
}

type churnSub struct {
	who      int
	id       int
	ch       chan chain.Block
	lst      *chain.Listener
	guard    *guardedSource
	events   <-chan chain.ChainEvent
	from, to int // first / last block index it is attached for (to = -1: until the end)
	mu       sync.Mutex
	got      []chain.Block
	closed   bool
	stop     chan struct{}
	ended    chan struct{}
}

func runChurn(t *testing.T, p churnRun, d *directObs) {
	defer func() {
		if r := recover(); r != nil {
			d.violate("a churn run on the real broadcaster did not end cleanly", map[string]any{"run": p, "panic": fmt.Sprint(r)})
		}
	}()
	synctest.Test(t, func(t *testing.T) {
		conf := config.Blocks{Genesis: new(big.Int).SetUint64(p.Genesis), Cadence: config.Duration(churnCadence), Duration: p.Blocks}
		bb := chain.NewBlockBroadcaster(conf, p.MaxDelay, quiet, nil)
		subs := map[int]*churnSub{}
		var all []*churnSub
		active := map[int]*churnSub{} // by subscription id
		attach := func(who, from int) {
			s := &churnSub{who: who, from: from, to: -1, stop: make(chan struct{}), ended: make(chan struct{})}
			if p.Listener {
				s.guard = &guardedSource{bb: bb, stop: make(chan struct{})}
				s.lst = chain.NewListener(s.guard, quiet)
				noFinalizer(s.lst)
				s.events = s.lst.Subscribe(chain.BlockChannel)
				synctest.Wait() // the listener has subscribed
				s.guard.mu.Lock()
				s.id = s.guard.id
				s.guard.mu.Unlock()
				if other, dup := active[s.id]; dup {
					d.violate("Subscribe handed out the id of a subscription that is still active", map[string]any{"run": p, "id": s.id, "new": who, "holder": other.who})
				}
				active[s.id] = s
			} else {
				s.id, s.ch = bb.Subscribe(p.MaxDelay > 0)
				if other, dup := active[s.id]; dup {
					d.violate("Subscribe handed out the id of a subscription that is still active", map[string]any{"run": p, "id": s.id, "new": who, "holder": other.who})
				}
				active[s.id] = s
			}
			go func() {
				defer close(s.ended)
				for {
					select {
					case b, ok := <-s.ch:
						if !ok {
							s.mu.Lock()
							s.closed = true
							s.mu.Unlock()
							return
						}
						s.mu.Lock()
						s.got = append(s.got, b)
						s.mu.Unlock()
					case ev := <-s.events:
						if b, ok := ev.Event.(chain.Block); ok {
							if b.Number == nil {
								// a Listener being stopped reads zero blocks from its closed source channel
								// until its done channel closes; only seen after VerifStop
								d.count("zero_blocks_from_stopping_listener", 1)
								continue
							}
							s.mu.Lock()
							s.got = append(s.got, b)
							s.mu.Unlock()
						}
					case <-s.stop:
						return
					}
				}
			}()
			subs[who] = s
			all = append(all, s)
		}
		detach := func(who, after int) {
			s := subs[who]
			if s == nil || s.to >= 0 {
				return
			}
			s.to = after
			if p.Listener {
				s.lst.VerifStop()
			} else {
				bb.Unsubscribe(s.id)
			}
			if active[s.id] == s {
				delete(active, s.id)
			}
		}
		for i := 0; i < p.Initial; i++ {
			attach(i, 0)
		}
		synctest.Wait()
		done := bb.Start()
		time.Sleep(3 * churnCadence / 4)
		for i := 0; i <= p.Blocks; i++ {
			synctest.Wait() // block i (broadcast at i*cadence) has been delivered to everyone attached
			for _, op := range p.Ops {
				if op.After != i {
					continue
				}
				if op.Op == "sub" {
					attach(op.Who, i+1)
				} else {
					detach(op.Who, i)
				}
				synctest.Wait()
			}
			if i < p.Blocks {
				time.Sleep(churnCadence)
			}
		}
		<-done
		bb.Stop()
		synctest.Wait()

		ref := map[uint64][32]byte{}
		for _, s := range all {
			s.mu.Lock()
			last := p.Blocks
			if s.to >= 0 {
				last = s.to
			}
			var want, got []uint64
			for i := s.from; i <= last; i++ {
				want = append(want, p.Genesis+uint64(i))
			}
			for _, b := range s.got {
				n := b.Number.Uint64()
				got = append(got, n)
				if h, ok := ref[n]; ok && h != b.Hash {
					d.violate("two subscribers saw different hashes for one block number (churn run)", map[string]any{"run": p, "block": n})
				}
				ref[n] = b.Hash
			}
			sort.Slice(got, func(i, j int) bool { return got[i] < got[j] })
			if fmt.Sprint(got) != fmt.Sprint(want) {
				d.violate("a subscriber did not receive exactly the blocks broadcast while it was attached", map[string]any{
					"run": p, "subscriber": s.who, "attached_from_index": s.from, "attached_to_index": last, "want": fmt.Sprint(want), "got": fmt.Sprint(got)})
			}
			if !p.Listener && s.to >= 0 && !s.closed {
				d.violate("the channel of an unsubscribed subscriber was not closed", map[string]any{"run": p, "subscriber": s.who})
			}
			if p.Listener {
				s.guard.mu.Lock()
				early := s.guard.closedEarly
				s.guard.mu.Unlock()
				if early {
					d.violate("the broadcaster closed the channel of a listener that had not unsubscribed", map[string]any{"run": p, "subscriber": s.who})
				}
			}
			if !p.Listener && s.to < 0 && s.closed {
				d.violate("the channel of a subscriber that is still attached was closed", map[string]any{"run": p, "subscriber": s.who})
			}
			d.evals += len(want)
			s.mu.Unlock()
		}
		for _, s := range all {
			if p.Listener && s.to < 0 {
				s.lst.VerifStop()
			}
			if p.Listener {
				close(s.guard.stop)
			}
			close(s.stop)
			<-s.ended
		}
		synctest.Wait()
	})
}

func churnRuns(r *Rng, extra int) []churnRun {
	runs := []churnRun{
		// subscribe A, subscribe B, unsubscribe A, subscribe C; later B leaves too
		{Genesis: 98, Blocks: 7, Initial: 2, Ops: []churnOp{{After: 1, Op: "unsub", Who: 0}, {After: 2, Op: "sub", Who: 2}, {After: 4, Op: "unsub", Who: 1}}},
		{Genesis: 98, Blocks: 7, Initial: 2, MaxDelay: 15, Ops: []churnOp{{After: 1, Op: "unsub", Who: 0}, {After: 2, Op: "sub", Who: 2}, {After: 4, Op: "unsub", Who: 1}}},
		{Genesis: 98, Blocks: 7, Initial: 2, MaxDelay: 15, Listener: true, Ops: []churnOp{{After: 1, Op: "unsub", Who: 0}, {After: 2, Op: "sub", Who: 2}}},
		{Genesis: 995, Blocks: 10, Initial: 0, Ops: []churnOp{{After: 0, Op: "sub", Who: 0}, {After: 0, Op: "sub", Who: 1}, {After: 3, Op: "unsub", Who: 0}, {After: 3, Op: "sub", Who: 2},
			{After: 5, Op: "unsub", Who: 2}, {After: 5, Op: "sub", Who: 3}, {After: 5, Op: "sub", Who: 4}, {After: 8, Op: "unsub", Who: 1}}},
		{Genesis: 5, Blocks: 6, Initial: 3, Ops: []churnOp{{After: 2, Op: "unsub", Who: 0}, {After: 2, Op: "unsub", Who: 1}, {After: 2, Op: "unsub", Who: 2}, {After: 4, Op: "sub", Who: 3}}},
	}
	for k := 0; k < extra; k++ {
		p := churnRun{Genesis: []uint64{3, 96, 990, 99995}[r.Intn(4)], Blocks: 6 + r.Intn(14), Initial: r.Intn(4), MaxDelay: []int{0, 0, 10, 19}[r.Intn(4)], Listener: r.Chance(1, 4)}
		next := p.Initial
		live := []int{}
		for i := 0; i < p.Initial; i++ {
			live = append(live, i)
		}
		for i := 0; i < p.Blocks; i++ {
			for k := 0; k < r.Intn(3); k++ {
				if len(live) > 0 && r.Bool() {
					j := r.Intn(len(live))
					p.Ops = append(p.Ops, churnOp{After: i, Op: "unsub", Who: live[j]})
					live = append(live[:j], live[j+1:]...)
				} else {
					p.Ops = append(p.Ops, churnOp{After: i, Op: "sub", Who: next})
					live = append(live, next)
					next++
				}
			}
		}
		runs = append(runs, p)
	}
	return runs
}

// ------------------------------------------------------------------ test

func TestC19(t *testing.T) {
	dir := OutDir(t, "C19")
	r := NewRng(EnvSeed())
	var cases []c19Case
	replay := ReplayFile() != ""
	if replay {
		cases = LoadReplayCases[c19Case](t, ReplayFile())
	} else {
		cases = append(cases, LoadCorpus[c19Case](t, "C19")...)
		cases = append(cases, histBoundary(r)...)
		cases = append(cases, txBoundary()...)
		cases = append(cases, confBoundary(r)...)
		n := EnvInt("VERIF_N", 120)
		for i := 0; i < n; i++ {
			cases = append(cases, histRandom(r))
		}
		for i := 0; i < n; i++ {
			cases = append(cases, txRandom(r))
		}
		for i := 0; i < n/2; i++ {
			cases = append(cases, confRandom(r))
		}
	}
	d := newDirect()
	files := map[string]*CaseFile{
		"hist": NewCaseFile("C19", "Model.SimChain"), "tx": NewCaseFile("C19", "Model.SimChain"), "conf": NewCaseFile("C19", "Model.SimChain"),
	}
	byKind := map[string][]c19Case{}
	fam := map[string]map[string]int{"hist": {}, "tx": {}, "conf": {}}
	for i := range cases {
		c := &cases[i]
		switch c.Kind {
		case "hist":
			runHistCase(t, c, d)
			files["hist"].Add(histTerm(*c))
		case "tx":
			runTxCase(t, c)
			files["tx"].Add(txTerm(*c))
		case "conf":
			runConfCase(t, c, d)
			files["conf"].Add(confTerm(*c))
		default:
			t.Fatalf("unknown case kind %q", c.Kind)
		}
		byKind[c.Kind] = append(byKind[c.Kind], *c)
		fam[c.Kind][c.Family]++
	}
	results := map[string][][2]string{
		"hist": {
			{"mism", "find_idx hc_mism cases"}, {"bad", "find_idx hc_bad cases"},
			{"nontriv", "find_idx hc_nontriv cases"},
			{"cov_string_order_differs", "length (find_idx hc_string_order_differs cases)"},
		},
		"tx": {
			{"mism", "find_idx tx_mism cases"}, {"bad", "find_idx tc_bad cases"},
			{"nontriv", "find_idx tc_nontriv cases"},
		},
		"conf": {
			{"mism", "find_idx cc_mism cases"}, {"bad", "find_idx cc_bad cases"},
			{"nontriv", "find_idx cc_nontriv cases"},
			{"cov_negative_confirmations", "length (find_idx (fun c => existsb (fun e => Z.ltb (pe_conf e) 0) (cc_obs c)) cases)"},
		},
	}
	types := map[string]string{"hist": "h_case", "tx": "tx_case", "conf": "c_case"}
	for kind, cf := range files {
		if cf.Len() == 0 {
			continue
		}
		cf.Imports = append(cf.Imports, "Base.Util")
		cf.Prelude = "Open Scope N_scope."
		cf.Write(t, dir, "cases_"+kind+".v", types[kind], results[kind])
		WriteJSON(t, filepath.Join(dir, "cases_"+kind+".json"), map[string]any{
			"property": "C19", "seed": EnvSeed(), "cases": byKind[kind], "families": fam[kind],
		})
	}

	// run-level observations on the real broadcaster (not in replay mode)
	var samples []any
	if !replay {
		runs := []bcastRun{
			{Genesis: 95, Blocks: 10, Padding: 3, Listeners: 4, CadenceMs: 20, JitterMs: 0, MaxDelay: 5},
			{Genesis: 990, Blocks: 30, Padding: 5, Listeners: 4, CadenceMs: 10, JitterMs: 4, MaxDelay: 60},
			{Genesis: 9900, Blocks: 280, Padding: 20, Listeners: 3, CadenceMs: 5, JitterMs: 2, MaxDelay: 40},
			{Genesis: 128943862, Blocks: 40, Padding: 10, Listeners: 7, CadenceMs: 1000, JitterMs: 200, MaxDelay: 600},
			{Genesis: 0, Blocks: 12, Padding: 0, Listeners: 1, CadenceMs: 3, JitterMs: 0, MaxDelay: 0},
		}
		extra := 3
		if EnvTier() == "thorough" {
			extra = 12
		}
		for i := 0; i < extra; i++ {
			runs = append(runs, bcastRun{
				Genesis: []uint64{7, 96, 993, 99980, 4294967290}[r.Intn(5)], Blocks: 5 + r.Intn(60), Padding: r.Intn(8),
				Listeners: 1 + r.Intn(6), CadenceMs: 1 + r.Intn(30), JitterMs: r.Intn(3), MaxDelay: r.Intn(120),
			})
		}
		for _, p := range runs {
			if p.JitterMs >= p.CadenceMs {
				p.JitterMs = 0
			}
			runBroadcast(t, p, d)
			d.count("broadcaster_runs", 1)
			d.keys[fmt.Sprintf("bcast/%d/%d/%d/%d", p.Genesis, p.Blocks, p.Listeners, p.MaxDelay)] = true
		}
		samples = append(samples, runs[1])
		churnExtra := 10
		if EnvTier() == "thorough" {
			churnExtra = 60
		}
		for _, p := range churnRuns(r, churnExtra) {
			runChurn(t, p, d)
			d.count("churn_runs", 1)
			d.count("churn_ops", len(p.Ops))
			d.keys[fmt.Sprintf("churn/%d/%d/%d/%d/%v", p.Genesis, p.Blocks, p.Initial, len(p.Ops), p.Listener)] = true
		}
	}
	keys := []string{}
	for k := range d.keys {
		keys = append(keys, k)
	}
	sort.Strings(keys)
	viol := d.violations
	if viol == nil {
		viol = []map[string]any{}
	}
	WriteJSON(t, filepath.Join(dir, "direct.json"), map[string]any{
		"evaluations": d.evals, "nontrivial_keys": keys, "violations": viol, "known": map[string]any{},
		"samples": samples, "distribution": d.dist,
	})
}
