package c20

import (
	"os"
	"os/exec"
	"path/filepath"
	"testing"
	"time"

	. "verifharness/h"
)

// TestC20Race: "repository code in the run is free of data races", component level.  The package ../c20race is built
// with -race against the same /repo tree and run as a child process; every report of the race detector whose access
// stacks touch repository code is a violation.  (The 4-node simulations of TestC20 are built with -race too, but a
// run orders most accesses through its 1 s polls; the stress keeps logs and polls microseconds apart.)
func TestC20Race(t *testing.T) {
	dir := OutDir(t, "C20")
	repo := repoDir(t)
	cmd := exec.Command(goTool(), "test", "-race", "-tags", "verif", "-count=1", "-timeout", "300s", "./c20race")
	cmd.Dir = ".."
	cmd.Env = append(os.Environ(), "GOFLAGS=-mod=mod", "GOPROXY=off", "GOSUMDB=off", "GOTOOLCHAIN=local")
	t0 := time.Now()
	out, err := cmd.CombinedOutput()
	inRepo, other := analyseRaces(string(out), repo)
	var viol []any
	for _, r := range dedupe(inRepo) {
		viol = append(viol, map[string]any{"kind": "data race in repository code (component stress under -race)", "between": r})
	}
	if err != nil && len(inRepo) == 0 {
		tail := string(out)
		if len(tail) > 1500 {
			tail = tail[len(tail)-1500:]
		}
		viol = append(viol, map[string]any{"kind": "the race stress did not run to completion", "error": err.Error(), "output": tail})
	}
	if viol == nil {
		viol = []any{}
	}
	WriteJSON(t, filepath.Join(dir, "direct_race_stress.json"), map[string]any{
		"evaluations": 6, "nontrivial_keys": []string{"race-stress/log-trigger-tracker", "race-stress/source-pollers"}, "violations": viol,
		"samples":      []any{map[string]any{"rounds": 6, "blocks_per_round": 118, "pollers": 3, "wall_ms": time.Since(t0).Milliseconds(), "races_outside_repository_code": len(other)}},
		"distribution": map[string]any{"in_repo_races": len(inRepo), "other_races": len(other)},
	})
}

func dedupe(l []string) []string {
	seen := map[string]bool{}
	var out []string
	for _, s := range l {
		if !seen[s] {
			seen[s] = true
			out = append(out, s)
		}
	}
	return out
}
