package c20

import (
	"bytes"
	"context"
	"encoding/json"
	"fmt"
	"math/big"
	"os"
	"os/exec"
	"path/filepath"
	"regexp"
	"sort"
	"strconv"
	"strings"
	"sync"
	"testing"
	"time"

	. "verifharness/h"

	"github.com/smartcontractkit/chainlink-automation/tools/simulator/config"
	"github.com/smartcontractkit/chainlink-automation/tools/simulator/simulate/chain"
	"github.com/smartcontractkit/chainlink-automation/tools/simulator/simulate/loader"
)

// Run-level observations (DESIGN §5 C20, "partial"): real reduced simulations with the real
// cmd/simulator binary built with -race.  What is compared:
//   exit status      vs. performs counted in simulation.log against the count the plan expects
//   every table row  vs. check lines of >= f+1 distinct nodes in the per-node contract.log
//   accepted transmits vs. table rows (a report without any upkeep leaves no row)
//   stderr           for panics and for data races whose access is in repository code

type simPlan struct {
	Name     string
	JSON     string
	Expected int64
	F        int
}

type simResult struct {
	Name          string   `json:"name"`
	Exit          int      `json:"exit"`
	Seconds       float64  `json:"seconds"`
	Expected      int64    `json:"expected"`
	PerformsInLog int64    `json:"performs_in_log"`
	PendingRows   int      `json:"pending_rows"`
	Transmits     int      `json:"transmits_accepted"`
	Rows          int      `json:"table_rows"`
	MinCheckers   int      `json:"min_distinct_checking_nodes"`
	Panic         string   `json:"panic,omitempty"`
	RacesRepo     []string `json:"races_in_repository_code,omitempty"`
	RacesOther    []string `json:"races_in_third_party_code,omitempty"`
	SummaryShown  bool     `json:"summary_printed"`
	SavedPlanOK   bool     `json:"saved_plan_loads_back"`
	TimedOut      bool     `json:"timed_out,omitempty"`
}

func repoDir(t *testing.T) string {
	b, err := os.ReadFile(filepath.Join("..", "go.mod"))
	if err != nil {
		t.Fatal(err)
	}
	m := regexp.MustCompile(`(?m)^replace github.com/smartcontractkit/chainlink-automation => (\S+)`).FindSubmatch(b)
	if m == nil {
		t.Fatal("no replace directive for chainlink-automation in harness go.mod")
	}
	return string(m[1])
}

const ocrConfigEvent = `{"type": "ocr3config", "eventBlockNumber": %d, "comment": "initial ocr config", "maxFaultyNodes": 1,
 "encodedOffchainConfig": "{\"version\":\"v3\",\"performLockoutWindow\":100000,\"targetProbability\":\"0.999\",\"targetInRounds\":4,\"minConfirmations\":1,\"gasLimitPerReport\":1000000,\"gasOverheadPerUpkeep\":300000,\"maxUpkeepBatchSize\":10}",
 "maxRoundsPerEpoch": 7, "deltaProgress": "10s", "deltaResend": "10s", "deltaInitial": "300ms", "deltaRound": "500ms", "deltaGrace": "100ms",
 "deltaCertifiedCommitRequest": "200ms", "deltaStage": "20s", "maxQueryTime": "50ms", "maxObservationTime": "100ms", "maxShouldAcceptTime": "50ms", "maxShouldTransmitTime": "50ms"}`

// jitterFor: legal jitters of every magnitude - none, a whole number of milliseconds, and less than a millisecond
func jitterFor(cadence string) string {
	switch cadence {
	case "300ms":
		return "500us"
	case "400ms":
		return "7ms"
	}
	return "0s"
}

func simPlans(t *testing.T, thorough bool) []simPlan {
	// genesis chosen so that the run crosses a power of ten (block keys change length mid-run)
	g := int64(99980)
	head := func(duration, padding int, cadence string) string {
		return fmt.Sprintf(`{"node": {"totalNodeCount": 4, "maxNodeServiceWorkers": 100, "maxNodeServiceQueueSize": 1000},
 "p2pNetwork": {"maxLatency": "50ms"},
 "rpc": {"maxBlockDelay": 100, "averageLatency": 50, "errorRate": 0.0, "rateLimitThreshold": 1000},
 "blocks": {"genesisBlock": %d, "blockCadence": "%s", "blockCadenceJitter": "%s", "durationInBlocks": %d, "endPadding": %d},
 "events": [`, g, cadence, jitterFor(cadence), duration, padding)
	}
	gens := func(expected string) string {
		return fmt.Sprintf(`{"type": "generateUpkeeps", "eventBlockNumber": %d, "comment": "conditionals", "count": 3, "startID": 200, "eligibilityFunc": "40x - 30", "offsetFunc": "2x + 1", "upkeepType": "conditional", "expected": "%s"},
 {"type": "generateUpkeeps", "eventBlockNumber": %d, "comment": "log upkeeps", "count": 3, "startID": 300, "eligibilityFunc": "always", "upkeepType": "logTrigger", "logTriggeredBy": "test_trigger_event", "expected": "%s"},
 {"type": "logTrigger", "eventBlockNumber": %d, "comment": "trigger", "triggerValue": "test_trigger_event"},
 {"type": "logTrigger", "eventBlockNumber": %d, "comment": "the same log again in the next block (inside one poll interval of the log flow)", "triggerValue": "test_trigger_event"},
 {"type": "logTrigger", "eventBlockNumber": %d, "comment": "and the block after", "triggerValue": "test_trigger_event"}`, g, expected, g, expected, g+10, g+11, g+12)
	}
	plans := []simPlan{
		{Name: "performs-expected", JSON: head(36, 14, "400ms") + fmt.Sprintf(ocrConfigEvent, g+1) + ",\n " + gens("all") + "]}", F: 1},
		{Name: "no-config-performs-expected", JSON: head(10, 4, "300ms") + gens("all") + "]}", F: 1},
		{Name: "no-config-none-expected", JSON: head(10, 4, "300ms") + gens("none") + "]}", F: 1},
		// the network is configured and performs, but the plan expects none: the run must fail
		{Name: "none-expected-but-performed", JSON: head(30, 8, "400ms") + fmt.Sprintf(ocrConfigEvent, g+1) + ",\n " + gens("none") + "]}", F: 1},
	}
	if thorough {
		for _, f := range []string{"simplan_fast_check.json", "only_log_trigger.json", "simplan_failed_rpc.json"} {
			b, err := os.ReadFile(filepath.Join(repoDir(t), "tools", "simulator", "plans", f))
			if err != nil {
				t.Fatal(err)
			}
			plans = append(plans, simPlan{Name: "shipped-" + strings.TrimSuffix(f, ".json"), JSON: string(b), F: 1})
		}
	}
	for i := range plans {
		p, err := config.DecodeSimulationPlan([]byte(plans[i].JSON))
		if err != nil {
			t.Fatalf("plan %s: %v", plans[i].Name, err)
		}
		rec := &recProgress{}
		if _, err := loader.NewOCR3TransmitLoader(p, rec, quiet); err != nil {
			t.Fatal(err)
		}
		plans[i].Expected = rec.total[0]
		if len(p.ConfigEvents) > 0 {
			plans[i].F = p.ConfigEvents[0].MaxFaultyNodesF
		}
		_ = chain.ConditionalType
	}
	return plans
}

var (
	rowRe   = regexp.MustCompile(`^\|\s*(\S+)\s*\|\s*(\d+)\s*\|\s*(\S+)\s*\|\s*(\S+)\s*\|\s*(\d+)\s*\|$`)
	checkRe = regexp.MustCompile(`pipeline\.go:\d+: (\d+) eligibility (true|false) at block (\d+)`)
	sentRe  = regexp.MustCompile(`transmit sent from \S+ in round \d+`)
)

func analyseRaces(stderr string, repo string) (inRepo, other []string) {
	goroot := ""
	if out, err := exec.Command(goTool(), "env", "GOROOT").Output(); err == nil {
		goroot = strings.TrimSpace(string(out))
	}
	for _, blk := range strings.Split(stderr, "WARNING: DATA RACE")[1:] {
		if i := strings.Index(blk, "=================="); i >= 0 {
			blk = blk[:i]
		}
		// the two access stacks: everything before the first "Goroutine ... created at" section
		if i := strings.Index(blk, "\nGoroutine "); i >= 0 {
			blk = blk[:i]
		}
		var sites []string
		isRepo := false
		for _, stack := range regexp.MustCompile(`\n(?:Read|Write|Previous read|Previous write|Atomic|Previous atomic)[^\n]*\n`).Split("\n"+blk, -1)[1:] {
			lines := strings.Split(strings.TrimRight(stack, "\n"), "\n")
			for i := 0; i+1 < len(lines); i += 2 {
				fn, file := strings.TrimSpace(lines[i]), strings.TrimSpace(lines[i+1])
				if goroot != "" && strings.HasPrefix(file, goroot) {
					continue // runtime / standard library frame: look at its caller
				}
				sites = append(sites, fn+" "+strings.Fields(file)[0])
				if strings.HasPrefix(file, repo+"/") || strings.Contains(fn, "smartcontractkit/chainlink-automation/") {
					isRepo = true
				}
				break
			}
		}
		desc := strings.Join(sites, "  <->  ")
		if isRepo {
			inRepo = append(inRepo, desc)
		} else {
			other = append(other, desc)
		}
	}
	return
}

func goTool() string {
	if v := os.Getenv("VERIF_GO"); v != "" {
		return v
	}
	return "go1.26.8"
}

func runOneSimulation(t *testing.T, bin, dir string, p simPlan, repo string) simResult {
	res := simResult{Name: p.Name, Expected: p.Expected, MinCheckers: -1}
	work := filepath.Join(dir, "sim-"+p.Name)
	_ = os.RemoveAll(work)
	if err := os.MkdirAll(work, 0o755); err != nil {
		t.Fatal(err)
	}
	planFile := filepath.Join(work, "plan.json")
	if err := os.WriteFile(planFile, []byte(p.JSON), 0o644); err != nil {
		t.Fatal(err)
	}
	ctx, cancel := context.WithTimeout(context.Background(), 240*time.Second)
	defer cancel()
	cmd := exec.CommandContext(ctx, bin, "--simulate", "--verbose", "-f", planFile, "-o", filepath.Join(work, "out"))
	cmd.Env = append(os.Environ(), "GORACE=exitcode=0 halt_on_error=0")
	var stdout, stderr bytes.Buffer
	cmd.Stdout, cmd.Stderr = &stdout, &stderr
	t0 := time.Now()
	err := cmd.Run()
	res.Seconds = time.Since(t0).Seconds()
	if ctx.Err() != nil {
		res.TimedOut = true
	}
	res.Exit = 0
	if ee, ok := err.(*exec.ExitError); ok {
		res.Exit = ee.ExitCode()
	} else if err != nil {
		res.Exit = -1
	}
	_ = os.WriteFile(filepath.Join(work, "stderr.txt"), stderr.Bytes(), 0o644)
	_ = os.WriteFile(filepath.Join(work, "stdout.txt"), stdout.Bytes(), 0o644)
	se := stderr.String()
	if i := strings.Index(se, "\npanic: "); i >= 0 || strings.HasPrefix(se, "panic: ") {
		if i < 0 {
			i = 0
		}
		end := i + 400
		if end > len(se) {
			end = len(se)
		}
		res.Panic = se[i:end]
	}
	res.RacesRepo, res.RacesOther = analyseRaces(se, repo)

	// transmit table and summary
	logb, _ := os.ReadFile(filepath.Join(work, "out", "simulation.log"))
	type row struct {
		block string
		id    string
		check uint64
	}
	var rows []row
	for _, line := range strings.Split(string(logb), "\n") {
		line = strings.TrimSpace(line)
		if m := rowRe.FindStringSubmatch(line); m != nil {
			chk, _ := strconv.ParseUint(m[5], 10, 64)
			rows = append(rows, row{block: m[1], id: m[4], check: chk})
			if _, ok := new(big.Int).SetString(m[1], 10); ok {
				res.PerformsInLog++
			} else {
				res.PendingRows++
			}
		}
		if sentRe.MatchString(line) {
			res.Transmits++
		}
		if strings.Contains(line, "================ end ================") {
			res.SummaryShown = true
		}
	}
	res.Rows = len(rows)
	// per-node check records
	nodeLogs, _ := filepath.Glob(filepath.Join(work, "out", "*", "contract.log"))
	type ck struct {
		id    string
		block uint64
	}
	checkedBy := map[ck]map[int]bool{}
	for ni, f := range nodeLogs {
		b, _ := os.ReadFile(f)
		for _, m := range checkRe.FindAllStringSubmatch(string(b), -1) {
			blk, _ := strconv.ParseUint(m[3], 10, 64)
			k := ck{m[1], blk}
			if checkedBy[k] == nil {
				checkedBy[k] = map[int]bool{}
			}
			checkedBy[k][ni] = true
		}
	}
	for _, r := range rows {
		nodes := map[int]bool{}
		for k, by := range checkedBy {
			if k.block == r.check && strings.HasPrefix(k.id, r.id) {
				for n := range by {
					nodes[n] = true
				}
			}
		}
		if res.MinCheckers < 0 || len(nodes) < res.MinCheckers {
			res.MinCheckers = len(nodes)
		}
	}
	// the plan saved by the run loads back
	if b, err := os.ReadFile(filepath.Join(work, "out", "simulation_plan.json")); err == nil {
		orig, _ := config.DecodeSimulationPlan([]byte(p.JSON))
		if saved, err := config.DecodeSimulationPlan(b); err == nil {
			o, _ := json.Marshal(orig.GenerateUpkeeps)
			s, _ := json.Marshal(saved.GenerateUpkeeps)
			res.SavedPlanOK = bytes.Equal(o, s) && len(orig.ConfigEvents) == len(saved.ConfigEvents) && len(orig.LogEvents) == len(saved.LogEvents) &&
				orig.Blocks.Genesis.Cmp(saved.Blocks.Genesis) == 0 && orig.Blocks.Duration == saved.Blocks.Duration
		}
	}
	return res
}

func runSimulations(t *testing.T, dir string, extra []map[string]any) {
	thorough := EnvTier() == "thorough"
	repo := repoDir(t)
	abs, _ := filepath.Abs(dir)
	bin := filepath.Join(abs, "simulator-race")
	build := exec.Command(goTool(), "build", "-race", "-o", bin, "./cmd/simulator")
	build.Dir = repo
	build.Env = append(os.Environ(), "GOFLAGS=-mod=mod", "GOPROXY=off", "GOSUMDB=off", "GOTOOLCHAIN=local", "CGO_ENABLED=1")
	violations := append([]map[string]any{}, extra...)
	if out, err := build.CombinedOutput(); err != nil {
		violations = append(violations, map[string]any{"what": "the simulator does not build with -race", "detail": string(out)})
		WriteJSON(t, filepath.Join(dir, "direct.json"), map[string]any{"evaluations": 0, "nontrivial_keys": []string{}, "violations": violations, "known": map[string]any{}})
		return
	}
	plans := simPlans(t, thorough)
	results := make([]simResult, len(plans))
	var wg sync.WaitGroup
	sem := make(chan struct{}, 4)
	for i := range plans {
		wg.Add(1)
		go func(i int) {
			defer wg.Done()
			sem <- struct{}{}
			defer func() { <-sem }()
			results[i] = runOneSimulation(t, bin, abs, plans[i], repo)
		}(i)
	}
	wg.Wait()

	keys := []string{}
	dist := map[string]int{}
	evals := 0
	for i, r := range results {
		p := plans[i]
		viol := func(what string) {
			violations = append(violations, map[string]any{"what": what, "run": r})
		}
		if r.TimedOut {
			viol("the simulation did not terminate within 240 s")
			continue
		}
		if r.Panic != "" {
			viol("the simulator crashed")
		}
		if !r.SummaryShown {
			viol("the simulator did not print its summary")
		}
		if len(r.RacesRepo) > 0 {
			viol("data race in repository code")
		}
		wantOK := (p.Expected > 0 && r.PerformsInLog >= p.Expected) || (p.Expected == 0 && r.PerformsInLog == 0 && r.PendingRows == 0)
		if (r.Exit == 0) != wantOK && r.Panic == "" {
			viol(fmt.Sprintf("exit status %d does not match the performs in the run's own log (%d on chain, %d expected)", r.Exit, r.PerformsInLog, p.Expected))
		}
		if r.Rows > 0 && r.MinCheckers < p.F+1 {
			viol(fmt.Sprintf("a transmitted upkeep was checked at its check block by %d node(s), fewer than f+1 = %d", r.MinCheckers, p.F+1))
		}
		if r.Rows < r.Transmits {
			viol(fmt.Sprintf("%d transmits were accepted but the table shows only %d upkeeps: a report without any upkeep was transmitted", r.Transmits, r.Rows))
		}
		if !r.SavedPlanOK {
			viol("the plan saved by the run does not load back to the plan that was run")
		}
		evals += 3 + r.Rows
		keys = append(keys, fmt.Sprintf("sim/%s/exit%d/performs%d", p.Name, r.Exit, r.PerformsInLog))
		dist["sim_runs"]++
		dist["sim_table_rows"] += r.Rows
		dist["sim_third_party_races"] += len(r.RacesOther)
		dist["sim_pending_transmit_rows"] += r.PendingRows
		if r.Exit == 0 {
			dist["sim_exit_0"]++
		} else {
			dist["sim_exit_nonzero"]++
		}
	}
	sort.Strings(keys)
	samples := []any{}
	for _, r := range results {
		samples = append(samples, r)
	}
	WriteJSON(t, filepath.Join(dir, "direct.json"), map[string]any{
		"evaluations": evals, "nontrivial_keys": keys, "violations": violations, "known": map[string]any{},
		"samples": samples, "distribution": dist,
	})
}
