package c20

import (
	"fmt"
	"io"
	"testing"

	"github.com/smartcontractkit/chainlink-automation/tools/simulator/telemetry"
)

func TestProbeVerdict(t *testing.T) {
	wrong := 0
	for i := 0; i < 300; i++ {
		pt := telemetry.NewProgressTelemetry(io.Discard)
		pt.Start()
		_ = pt.Register("x", 5)
		_ = pt.Close()
		if pt.AllProgressComplete() {
			wrong++
		}
	}
	fmt.Println("success reported for a tracker that never reached its total:", wrong, "of 300")
}
