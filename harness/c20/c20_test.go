package c20

import (
	"bytes"
	"encoding/json"
	"fmt"
	"io"
	"log"
	"math"
	"math/big"
	"os"
	"path/filepath"
	"reflect"
	"regexp"
	"sort"
	"strconv"
	"strings"
	"testing"
	"testing/synctest"
	"time"

	. "verifharness/h"

	ethcommon "github.com/ethereum/go-ethereum/common"
	"github.com/smartcontractkit/libocr/offchainreporting2plus/chains/evmutil"

	"github.com/smartcontractkit/chainlink-automation/tools/simulator/config"
	"github.com/smartcontractkit/chainlink-automation/tools/simulator/node"
	"github.com/smartcontractkit/chainlink-automation/tools/simulator/run"
	"github.com/smartcontractkit/chainlink-automation/tools/simulator/simulate/chain"
	"github.com/smartcontractkit/chainlink-automation/tools/simulator/simulate/loader"
	"github.com/smartcontractkit/chainlink-automation/tools/simulator/telemetry"
	simutil "github.com/smartcontractkit/chainlink-automation/tools/simulator/util"
	common "github.com/smartcontractkit/chainlink-common/pkg/types/automation"
)

var quiet = log.New(io.Discard, "", 0)

// ------------------------------------------------------------------ case forms (one union type, field Kind)

type c20Transmit struct {
	Upkeeps []int  `json:"upkeeps"` // indices (1-based) of generated upkeeps in the report
	Block   uint64 `json:"block"`   // 0: never loaded into a block (pending at the end of the run)
}

type c20Summary struct {
	Med4  int64 `json:"med4"`
	Q1    int64 `json:"q1_4"`
	Q3    int64 `json:"q3_4"`
	IQR   int64 `json:"iqr4"`
	LF    int64 `json:"lf4"`
	UF    int64 `json:"uf4"`
	InIQR int64 `json:"in_iqr"`
	Low   int64 `json:"low"`
	LowN  int64 `json:"low_n"`
	High  int64 `json:"high"`
	HighN int64 `json:"high_n"`
}

type c20Gen struct {
	Block    uint64 `json:"block"`
	Count    int    `json:"count"`
	StartID  int64  `json:"start_id"`
	Elig     string `json:"elig"`
	Offset   string `json:"offset"`
	Type     string `json:"type"`
	Trigger  string `json:"trigger"`
	Expected string `json:"expected"`
	EvType   string `json:"ev_type"` // the Type field before encoding (Encode overwrites it)
}

type c20Log struct {
	Block  uint64 `json:"block"`
	Value  string `json:"value"`
	EvType string `json:"ev_type"`
}

type c20Conf struct {
	Block  uint64 `json:"block"`
	F      int    `json:"f"`
	EvType string `json:"ev_type"`
}

type c20Tracker struct {
	Total int64   `json:"total"`
	Incs  []int64 `json:"incs"`
}

type c20Case struct {
	Kind   string `json:"kind"` // fms | report | expected | verdict | plan
	Family string `json:"family"`
	// fms
	Data []int `json:"data,omitempty"`
	// report: n conditional upkeeps eligible every `every` blocks, check-block counts per upkeep, transmits
	Upkeeps   int           `json:"upkeeps,omitempty"`
	Every     int           `json:"every,omitempty"`
	Checks    []int         `json:"checks,omitempty"`
	Transmits []c20Transmit `json:"transmits,omitempty"`
	// expected / plan
	Genesis  uint64    `json:"genesis,omitempty"`
	Duration int       `json:"duration,omitempty"`
	Confs    []c20Conf `json:"confs,omitempty"`
	Gens     []c20Gen  `json:"gens,omitempty"`
	Logs     []c20Log  `json:"logs,omitempty"`
	// plan: durations (ns) used, in turn, for every duration field of the plan; save + load through files
	Durs    []int64 `json:"durs,omitempty"`
	ViaFile bool    `json:"via_file,omitempty"`
	// wired: per Load, the number of upkeeps in each report transmitted before it
	Loads [][]int `json:"loads,omitempty"`
	Late     []int    `json:"late,omitempty"` // wired: reports (upkeep counts) transmitted after the last block was assembled: accepted, never in a block, not performs
	Dups     int      `json:"dups,omitempty"` // wired: every report is submitted again, same round, by this many other nodes (as all nodes of a real run do)
	// verdict
	Trackers        []c20Tracker `json:"trackers,omitempty"`
	RegisterDelayMs int          `json:"register_delay_ms,omitempty"`
	// observed
	Obs struct {
		Panic    bool        `json:"panic,omitempty"`
		PanicMsg string      `json:"panic_msg,omitempty"`
		Med2     int64       `json:"med2,omitempty"`
		A        []int       `json:"a,omitempty"`
		B        []int       `json:"b,omitempty"`
		Summary  *c20Summary `json:"summary,omitempty"`
		Negative bool        `json:"negative,omitempty"`
		Total    int64       `json:"total,omitempty"`
		Success  bool        `json:"success,omitempty"`
		Wire     []int       `json:"wire,omitempty"`
		DecErr   string      `json:"dec_err,omitempty"`
		RestOK   bool        `json:"rest_ok,omitempty"`
		Dec      *struct {
			Confs []c20Conf `json:"confs"`
			Gens  []c20Gen  `json:"gens"`
			Logs  []c20Log  `json:"logs"`
		} `json:"dec,omitempty"`
	} `json:"obs"`
	// filled while running, for the Gallina term only
	term string
}

func zlist(xs []int) string { return CoqList(xs, func(i int) string { return CoqZ(int64(i)) }) }

// ------------------------------------------------------------------ part A: findMedianAndSplitData

func runFmsCase(c *c20Case) {
	data := append([]int(nil), c.Data...)
	func() {
		defer func() {
			if r := recover(); r != nil {
				c.Obs.Panic, c.Obs.PanicMsg = true, fmt.Sprint(r)
			}
		}()
		m, a, b := node.VerifFindMedianAndSplitData(data)
		c.Obs.Med2 = int64(math.Round(m * 2))
		c.Obs.A, c.Obs.B = append([]int{}, a...), append([]int{}, b...)
	}()
	obs := "None"
	if !c.Obs.Panic {
		obs = fmt.Sprintf("(Some (%s, %s, %s))", CoqZ(c.Obs.Med2), zlist(c.Obs.A), zlist(c.Obs.B))
	}
	c.term = fmt.Sprintf("mkFCase %s %s", zlist(c.Data), obs)
}

func fmsBoundary(r *Rng) []c20Case {
	var cs []c20Case
	for n := 0; n <= 40; n++ {
		iota := make([]int, n)
		same := make([]int, n)
		dup := make([]int, n)
		rnd := make([]int, n)
		for i := range iota {
			iota[i], same[i], dup[i], rnd[i] = 3*i+1, 7, i/2, r.Intn(50)
		}
		sort.Ints(rnd)
		cs = append(cs, c20Case{Kind: "fms", Family: "len-iota", Data: iota}, c20Case{Kind: "fms", Family: "len-same", Data: same},
			c20Case{Kind: "fms", Family: "len-dup", Data: dup}, c20Case{Kind: "fms", Family: "len-random-sorted", Data: rnd})
	}
	cs = append(cs, c20Case{Kind: "fms", Family: "negative-values", Data: []int{-9, -4, -4, 0, 3}})
	cs = append(cs, c20Case{Kind: "fms", Family: "unsorted", Data: []int{5, 1, 4, 2, 3, 9}})
	return cs
}

func fmsRandom(r *Rng) c20Case {
	n := r.Intn(41)
	d := make([]int, n)
	for i := range d {
		d[i] = r.Intn(1+r.Intn(200)) - r.Intn(3)
	}
	if !r.Chance(1, 6) {
		sort.Ints(d)
	}
	return c20Case{Kind: "fms", Family: "random", Data: d}
}

// ------------------------------------------------------------------ part B: ReportResults on a real Group

var floatLine = regexp.MustCompile(`^(IQR|IQR percent of whole|Lower Fence \(Q1 - 1\.5\*IQR\)|Q1|Median|Q3|Upper Fence \(Q3 \+ 1\.5\*IQR\)): (-?[0-9.]+|NaN|[+-]?Inf)%?$`)
var intLine = regexp.MustCompile(`^(lowest value|lower outliers \(count\)|highest value|upper outliers \(count\)): (-?[0-9]+)$`)

func q4(s string) int64 {
	f, err := strconv.ParseFloat(s, 64)
	if err != nil || math.IsNaN(f) || math.IsInf(f, 0) {
		return 0
	}
	return int64(math.Round(f * 4))
}

func reportPlan(c *c20Case) config.SimulationPlan {
	plan := config.SimulationPlan{
		Node:   config.Node{Count: 4, MaxServiceWorkers: 10, MaxQueueSize: 100},
		Blocks: config.Blocks{Genesis: big.NewInt(100), Cadence: config.Duration(time.Second), Duration: 60, EndPadding: 5},
	}
	if c.Upkeeps > 0 {
		plan.GenerateUpkeeps = []config.GenerateUpkeepEvent{{
			Event: config.Event{Type: config.GenerateUpkeepEventType, TriggerBlock: big.NewInt(100)},
			Count: c.Upkeeps, StartID: big.NewInt(200), EligibilityFunc: fmt.Sprintf("%dx", c.Every), OffsetFunc: "x",
			UpkeepType: config.ConditionalUpkeepType, Expected: config.AllExpected,
		}}
	}
	return plan
}

func runReportCase(t *testing.T, c *c20Case) {
	plan := reportPlan(c)
	upkeeps, err := chain.GenerateAllUpkeeps(plan)
	if err != nil {
		t.Fatal(err)
	}
	var out bytes.Buffer
	// assembled the way cmd/simulator/main.go does it (non-verbose outputs, EVM digester)
	outputs, err := run.SetupOutput("", true, false, plan)
	if err != nil {
		t.Fatal(err)
	}
	events := outputs.EventCollector
	_ = events.AddNode("n1")
	_ = events.AddNode("n2")
	pt := telemetry.NewProgressTelemetry(io.Discard)
	g, err := node.NewGroup(node.GroupConfig{
		SimulationPlan: plan,
		Digester:       evmutil.EVMOffchainConfigDigester{ChainID: 1, ContractAddress: ethcommon.BigToAddress(big.NewInt(12))},
		Upkeeps:        upkeeps,
		Collectors:     []telemetry.Collector{outputs.RPCCollector, outputs.LogCollector, events},
		Logger:         log.New(&out, "", 0),
	}, pt)
	if err != nil {
		t.Fatal(err)
	}
	defer pt.Close()
	idStr := func(i int) string { return common.UpkeepIdentifier(upkeeps[i].UpkeepID).String() }
	// check records: upkeep i was checked at Checks[i] distinct blocks, spread over two nodes
	for i := 0; i < len(upkeeps) && i < len(c.Checks); i++ {
		for k := 0; k < c.Checks[i]; k++ {
			events.ContractEventCollectorNode([]string{"n1", "n2"}[k%2]).CheckID(idStr(i), uint64(101+k), [32]byte{})
		}
	}
	tl := g.VerifTransmitter()
	// transmits, loaded block by block in ascending block order; Block 0 stays queued
	order := append([]c20Transmit(nil), c.Transmits...)
	sort.SliceStable(order, func(i, j int) bool {
		bi, bj := order[i].Block, order[j].Block
		if bi == 0 {
			return false
		}
		if bj == 0 {
			return true
		}
		return bi < bj
	})
	var cur uint64
	flush := func() {
		if cur != 0 {
			blk := chain.Block{Number: new(big.Int).SetUint64(cur), Hash: Hash32("blk", int(cur))}
			tl.Load(&blk)
		}
	}
	for ti, tr := range order {
		if tr.Block != cur {
			flush()
			cur = tr.Block
		}
		var results []common.CheckResult
		for _, u := range tr.Upkeeps {
			if u < 1 || u > len(upkeeps) {
				continue
			}
			id := common.UpkeepIdentifier(upkeeps[u-1].UpkeepID)
			trg := common.NewTrigger(common.BlockNumber(100), Hash32("blk", 100))
			results = append(results, common.CheckResult{UpkeepID: id, Trigger: trg, WorkID: simutil.UpkeepWorkID(id, trg)})
		}
		rep, err := simutil.EncodeCheckResultsToReportBytes(results)
		if err != nil {
			t.Fatal(err)
		}
		_ = tl.Transmit(fmt.Sprintf("0xsender%d", ti%4), rep, uint64(1000+ti))
	}
	flush()

	func() {
		defer func() {
			if r := recover(); r != nil {
				c.Obs.Panic, c.Obs.PanicMsg = true, fmt.Sprint(r)
			}
		}()
		// the end of Group.Start: transmit chart, then the summary
		g.WriteTransmitChart()
		g.ReportResults()
	}()
	if !c.Obs.Panic && !strings.Contains(out.String(), "Transmitted Results") {
		c.Obs.Panic, c.Obs.PanicMsg = true, "the transmit chart was not written"
	}
	if !c.Obs.Panic {
		s := &c20Summary{Low: -1, High: -1}
		n := int64(len(upkeeps))
		for _, line := range strings.Split(out.String(), "\n") {
			line = strings.TrimSpace(line)
			if m := floatLine.FindStringSubmatch(line); m != nil {
				switch {
				case m[1] == "IQR":
					s.IQR = q4(m[2])
				case m[1] == "IQR percent of whole":
					f, err := strconv.ParseFloat(m[2], 64)
					if err == nil && !math.IsNaN(f) {
						s.InIQR = int64(math.Round(f * float64(n) / 100))
					}
				case strings.HasPrefix(m[1], "Lower Fence"):
					s.LF = q4(m[2])
				case m[1] == "Q1":
					s.Q1 = q4(m[2])
				case m[1] == "Median":
					s.Med4 = q4(m[2])
				case m[1] == "Q3":
					s.Q3 = q4(m[2])
				case strings.HasPrefix(m[1], "Upper Fence"):
					s.UF = q4(m[2])
				}
			}
			if m := intLine.FindStringSubmatch(line); m != nil {
				v, _ := strconv.ParseInt(m[2], 10, 64)
				switch m[1] {
				case "lowest value":
					s.Low = v
				case "lower outliers (count)":
					s.LowN = v
				case "highest value":
					s.High = v
				case "upper outliers (count)":
					s.HighN = v
				}
			}
		}
		c.Obs.Summary = s
	}
	// Gallina term
	ups := make([]string, len(upkeeps))
	for i, u := range upkeeps {
		el := make([]uint64, len(u.EligibleAt))
		for j, e := range u.EligibleAt {
			el[j] = e.Uint64()
		}
		ups[i] = fmt.Sprintf("mkSU %d %s", i+1, CoqList(el, CoqN))
	}
	var trs []string
	for _, tr := range c.Transmits {
		var ids []uint64
		for _, u := range tr.Upkeeps {
			if u >= 1 && u <= len(upkeeps) {
				ids = append(ids, uint64(u))
			}
		}
		blk := "None"
		if tr.Block != 0 {
			blk = fmt.Sprintf("(Some %s)", CoqN(tr.Block))
		}
		trs = append(trs, fmt.Sprintf("mkST %s %s", blk, CoqList(ids, CoqN)))
	}
	var chk []string
	for i := 0; i < len(upkeeps) && i < len(c.Checks); i++ {
		if c.Checks[i] == 0 {
			continue // never checked: no entry in the lookup
		}
		var bl []uint64
		for k := 0; k < c.Checks[i]; k++ {
			bl = append(bl, uint64(101+k))
		}
		chk = append(chk, fmt.Sprintf("(%s, %s)", CoqN(uint64(i+1)), CoqList(bl, CoqN)))
	}
	id := func(s string) string { return s }
	obs := "None"
	if s := c.Obs.Summary; s != nil {
		obs = fmt.Sprintf("(Some (mkSum %s %s %s %s %s %s %s (%s, %s) (%s, %s)))", CoqZ(s.Med4), CoqZ(s.Q1), CoqZ(s.Q3), CoqZ(s.IQR),
			CoqZ(s.LF), CoqZ(s.UF), CoqZ(s.InIQR), CoqZ(s.Low), CoqZ(s.LowN), CoqZ(s.High), CoqZ(s.HighN))
	}
	c.term = fmt.Sprintf("mkRCase %s %s %s %s []", CoqList(ups, id), CoqList(trs, id), CoqList(chk, id), obs)
}

func reportBoundary(r *Rng) []c20Case {
	var cs []c20Case
	for n := 0; n <= 40; n++ {
		chk := make([]int, n)
		for i := range chk {
			chk[i] = []int{0, 1, 2, 3, 5, 8, 13, 30}[(i*7+n)%8]
		}
		c := c20Case{Kind: "report", Family: "ids-" + strconv.Itoa(n), Upkeeps: n, Every: 10, Checks: chk}
		if n > 0 {
			c.Transmits = []c20Transmit{{Upkeeps: []int{1}, Block: 120}, {Upkeeps: []int{n, 1}, Block: 131}}
		}
		cs = append(cs, c)
	}
	// the four-id run that crashed a real simulation (checks 3,7,10,12)
	cs = append(cs, c20Case{Kind: "report", Family: "real-run-four-ids", Upkeeps: 4, Every: 20, Checks: []int{3, 7, 10, 12}})
	// a transmit that never reached a block (defect 10c), alone and next to loaded ones
	cs = append(cs, c20Case{Kind: "report", Family: "pending-transmit-only", Upkeeps: 8, Every: 10, Checks: []int{1, 2, 3, 4, 5, 6, 7, 8}, Transmits: []c20Transmit{{Upkeeps: []int{1}}}})
	cs = append(cs, c20Case{Kind: "report", Family: "pending-transmit-mixed", Upkeeps: 9, Every: 7, Checks: []int{4, 4, 4, 9, 9, 1, 0, 2, 3},
		Transmits: []c20Transmit{{Upkeeps: []int{1, 2}, Block: 109}, {Upkeeps: []int{2}, Block: 118}, {Upkeeps: []int{2, 3}}, {Upkeeps: []int{9}, Block: 150}}})
	cs = append(cs, c20Case{Kind: "report", Family: "outliers", Upkeeps: 12, Every: 10, Checks: []int{0, 10, 10, 11, 11, 12, 12, 12, 13, 13, 14, 60}})
	cs = append(cs, c20Case{Kind: "report", Family: "never-checked", Upkeeps: 10, Every: 10, Checks: nil})
	return cs
}

func reportRandom(r *Rng) c20Case {
	n := r.Intn(41)
	c := c20Case{Kind: "report", Family: "random", Upkeeps: n, Every: 5 + r.Intn(20)}
	for i := 0; i < n; i++ {
		c.Checks = append(c.Checks, r.Intn(1+r.Intn(40)))
	}
	if n > 0 {
		for i := 0; i < r.Intn(6); i++ {
			tr := c20Transmit{}
			if !r.Chance(1, 4) {
				tr.Block = uint64(101 + r.Intn(60))
			}
			for k := 0; k <= r.Intn(3); k++ {
				tr.Upkeeps = append(tr.Upkeeps, 1+r.Intn(n))
			}
			c.Transmits = append(c.Transmits, tr)
		}
	}
	return c
}

// ------------------------------------------------------------------ part C: expected performs

type recProgress struct {
	ns    []string
	total []int64
}

func (p *recProgress) Register(ns string, total int64) error {
	p.ns, p.total = append(p.ns, ns), append(p.total, total)
	return nil
}
func (p *recProgress) Increment(string, int64) {}

func buildPlan(c *c20Case) config.SimulationPlan {
	di := 0
	dur := func(def time.Duration) config.Duration {
		if len(c.Durs) == 0 {
			return config.Duration(def)
		}
		d := c.Durs[di%len(c.Durs)]
		di++
		return config.Duration(d)
	}
	plan := config.SimulationPlan{
		Node:    config.Node{Count: 4, MaxServiceWorkers: 10, MaxQueueSize: 100},
		Network: config.Network{MaxLatency: dur(100 * time.Millisecond)},
		RPC:     config.RPC{MaxBlockDelay: 600, AverageLatency: 300, ErrorRate: 0.02, RateLimitThreshold: 1000},
		Blocks: config.Blocks{Genesis: new(big.Int).SetUint64(c.Genesis), Cadence: dur(time.Second),
			Jitter: dur(200 * time.Millisecond), Duration: c.Duration, EndPadding: 20},
		ConfigEvents: []config.OCR3ConfigEvent{}, GenerateUpkeeps: []config.GenerateUpkeepEvent{}, LogEvents: []config.LogTriggerEvent{},
	}
	for _, e := range c.Confs {
		plan.ConfigEvents = append(plan.ConfigEvents, config.OCR3ConfigEvent{
			Event:           config.Event{Type: config.EventType(e.EvType), TriggerBlock: new(big.Int).SetUint64(e.Block), Comment: "c"},
			MaxFaultyNodesF: e.F, Offchain: `{"version":"v3"}`, Rmax: 7,
			DeltaProgress: dur(10 * time.Second), DeltaResend: dur(10 * time.Second), DeltaInitial: dur(300 * time.Millisecond),
			DeltaRound: dur(1100 * time.Millisecond), DeltaGrace: dur(300 * time.Millisecond), DeltaRequest: dur(200 * time.Millisecond),
			DeltaStage: dur(20 * time.Second), MaxQuery: dur(50 * time.Millisecond), MaxObservation: dur(100 * time.Millisecond),
			MaxAccept: dur(50 * time.Millisecond), MaxTransmit: dur(50 * time.Millisecond),
		})
	}
	for _, e := range c.Gens {
		plan.GenerateUpkeeps = append(plan.GenerateUpkeeps, config.GenerateUpkeepEvent{
			Event: config.Event{Type: config.EventType(e.EvType), TriggerBlock: new(big.Int).SetUint64(e.Block)},
			Count: e.Count, StartID: big.NewInt(e.StartID), EligibilityFunc: e.Elig, OffsetFunc: e.Offset,
			UpkeepType: config.UpkeepType(e.Type), LogTriggeredBy: e.Trigger, Expected: e.Expected,
		})
	}
	for _, e := range c.Logs {
		plan.LogEvents = append(plan.LogEvents, config.LogTriggerEvent{
			Event: config.Event{Type: config.EventType(e.EvType), TriggerBlock: new(big.Int).SetUint64(e.Block)}, TriggerValue: e.Value,
		})
	}
	return plan
}

func runExpectedCase(t *testing.T, c *c20Case) {
	plan := buildPlan(c)
	rec := &recProgress{}
	if _, err := loader.NewOCR3TransmitLoader(plan, rec, quiet); err != nil {
		t.Fatalf("%s: %v", c.Family, err)
	}
	if len(rec.ns) != 1 {
		t.Fatalf("expected one Register call, got %d", len(rec.ns))
	}
	c.Obs.Total = rec.total[0]
	c.Obs.Negative = rec.ns[0] == "No upkeep perform events expected"
	ups, err := chain.GenerateAllUpkeeps(plan)
	if err != nil {
		t.Fatal(err)
	}
	logs, _ := chain.GenerateLogTriggers(plan)
	trig := NewInterner()
	var us, ls []string
	for _, u := range ups {
		el := make([]uint64, len(u.EligibleAt))
		for j, e := range u.EligibleAt {
			el[j] = e.Uint64()
		}
		us = append(us, fmt.Sprintf("mkGU %d %s %s %s %s %d", int(u.Type), CoqBool(u.Expected), CoqN(u.CreateInBlock.Uint64()),
			CoqBool(u.AlwaysEligible), CoqList(el, CoqN), trig.ID(u.TriggeredBy)))
	}
	for _, l := range logs {
		ls = append(ls, fmt.Sprintf("mkGL %s %d", CoqN(l.TriggerAt.Uint64()), trig.ID(l.TriggerValue)))
	}
	id := func(s string) string { return s }
	c.term = fmt.Sprintf("mkECase %s %s %s %s", CoqList(us, id), CoqList(ls, id), CoqBool(c.Obs.Negative), CoqZ(c.Obs.Total))
}

func expectedBoundary() []c20Case {
	g := uint64(1000)
	gen := func(count int, elig, off, typ, trig, exp string) c20Gen {
		return c20Gen{Block: g, Count: count, StartID: 200, Elig: elig, Offset: off, Type: typ, Trigger: trig, Expected: exp, EvType: "generateUpkeeps"}
	}
	mk := func(fam string, gens []c20Gen, logs []c20Log) c20Case {
		return c20Case{Kind: "expected", Family: fam, Genesis: g, Duration: 60, Gens: gens, Logs: logs}
	}
	return []c20Case{
		mk("no-upkeeps", nil, nil),
		mk("conditional-3-per-upkeep", []c20Gen{gen(10, "30x - 15", "2x + 1", "conditional", "", "all")}, nil),
		mk("conditional-none-expected", []c20Gen{gen(4, "10x", "x", "conditional", "", "none")}, nil),
		mk("conditional-never", []c20Gen{gen(3, "never", "", "conditional", "", "all")}, nil),
		mk("conditional-empty-expected-field", []c20Gen{gen(3, "10x", "x", "conditional", "", "")}, nil),
		mk("log-always-one-log", []c20Gen{gen(2, "always", "", "logTrigger", "t", "all")}, []c20Log{{Block: g + 10, Value: "t", EvType: "logTrigger"}}),
		mk("log-always-log-before-creation", []c20Gen{{Block: g + 20, Count: 1, StartID: 300, Elig: "always", Type: "logTrigger", Trigger: "t", Expected: "all", EvType: "generateUpkeeps"}},
			[]c20Log{{Block: g + 10, Value: "t"}, {Block: g + 20, Value: "t"}, {Block: g + 30, Value: "t"}}),
		mk("log-other-trigger-value", []c20Gen{gen(2, "always", "", "logTrigger", "t", "all")}, []c20Log{{Block: g + 10, Value: "u"}}),
		mk("log-never", []c20Gen{gen(2, "never", "", "logTrigger", "t", "all")}, []c20Log{{Block: g + 10, Value: "t"}}),
		mk("log-eligible-window", []c20Gen{gen(2, "20x", "x", "logTrigger", "t", "all")},
			[]c20Log{{Block: g + 5, Value: "t"}, {Block: g + 25, Value: "t"}, {Block: g + 59, Value: "t"}}),
		mk("mixed-expected-and-not", []c20Gen{gen(3, "15x", "x", "conditional", "", "all"), {Block: g, Count: 2, StartID: 400, Elig: "15x", Offset: "x", Type: "conditional", Expected: "none", EvType: "generateUpkeeps"},
			{Block: g, Count: 1, StartID: 500, Elig: "always", Type: "logTrigger", Trigger: "t", Expected: "all", EvType: "generateUpkeeps"}},
			[]c20Log{{Block: g + 3, Value: "t"}, {Block: g + 4, Value: "t"}}),
		mk("empty-trigger-value", []c20Gen{gen(1, "always", "", "logTrigger", "", "all")}, []c20Log{{Block: g + 3, Value: ""}}),
	}
}

func expectedRandom(r *Rng) c20Case {
	g := []uint64{3, 95, 1000, 99990}[r.Intn(4)]
	c := c20Case{Kind: "expected", Family: "random", Genesis: g, Duration: 20 + r.Intn(80)}
	vals := []string{"a", "b", ""}
	ngen := r.Intn(4)
	if r.Chance(2, 3) {
		ngen = 1 + r.Intn(3)
	}
	for i := 0; i < ngen; i++ {
		e := c20Gen{Block: g + uint64(r.Intn(30)), Count: r.Intn(6), StartID: int64(100 * (i + 1)), EvType: "generateUpkeeps"}
		e.Type = []string{"conditional", "logTrigger"}[r.Intn(2)]
		switch r.Intn(4) {
		case 0:
			e.Elig = "always"
		case 1:
			e.Elig = "never"
		default:
			a := 5 + r.Intn(30)
			e.Elig = fmt.Sprintf("%dx", a)
			if r.Bool() {
				e.Elig = fmt.Sprintf("%dx - %d", a, r.Intn(a))
			}
			e.Offset = []string{"x", "2x + 1", "3x"}[r.Intn(3)]
		}
		e.Trigger = vals[r.Intn(3)]
		e.Expected = []string{"all", "all", "all", "all", "none", ""}[r.Intn(6)]
		c.Gens = append(c.Gens, e)
	}
	for i := 0; i < r.Intn(6); i++ {
		c.Logs = append(c.Logs, c20Log{Block: g + uint64(r.Intn(c.Duration)), Value: vals[r.Intn(3)], EvType: "logTrigger"})
	}
	return c
}

// ------------------------------------------------------------------ part D: the progress tracker / verdict

// leaked counts verdict cases after which the telemetry left goroutines running in the bubble
// (the renderer is never stopped when the result was decided before it started).
var leaked []string

// runVerdictLong: a tracker that is decided long before the increments stop (a plan that expects no performs and is
// performed in 150 blocks; 150 blocks of surplus performs).  The block broadcaster calls Increment from inside its
// loaders: it must return whatever the tracker does with the value.  Real time (the increments beyond the channel
// buffer park goroutines for the life of the process, which a bubble would report).
func runVerdictLong(t *testing.T, c *c20Case) {
	pt := telemetry.NewProgressTelemetry(io.Discard)
	pt.Start()
	for i, tr := range c.Trackers {
		_ = pt.Register(fmt.Sprintf("tracker-%d", i), tr.Total)
	}
	time.Sleep(20 * time.Millisecond)
	blocked := false
	for k := 0; !blocked; k++ {
		sent := false
		for i, tr := range c.Trackers {
			if k < len(tr.Incs) {
				done := make(chan struct{})
				go func() { pt.Increment(fmt.Sprintf("tracker-%d", i), tr.Incs[k]); close(done) }()
				select {
				case <-done:
				case <-time.After(3 * time.Second):
					blocked = true
				}
				sent = true
			}
		}
		if !sent {
			break
		}
		time.Sleep(time.Millisecond)
	}
	if blocked {
		leaked = append(leaked, c.Family+": ProgressTelemetry.Increment did not return (the caller is the block broadcaster: no further block is produced)")
	}
	_ = pt.Close()
	c.Obs.Success = pt.AllProgressComplete()
	c.term = verdictTerm(c)
}

func runVerdictCase(t *testing.T, c *c20Case) {
	if strings.HasPrefix(c.Family, "long-") {
		runVerdictLong(t, c)
		return
	}
	defer func() {
		if r := recover(); r != nil {
			leaked = append(leaked, c.Family+": "+fmt.Sprint(r))
			c.term = verdictTerm(c)
		}
	}()
	synctest.Test(t, func(t *testing.T) {
		pt := telemetry.NewProgressTelemetry(io.Discard)
		pt.Start()
		if c.RegisterDelayMs > 0 {
			time.Sleep(time.Duration(c.RegisterDelayMs) * time.Millisecond)
		}
		for i, tr := range c.Trackers {
			_ = pt.Register(fmt.Sprintf("tracker-%d", i), tr.Total)
		}
		synctest.Wait()
		// round-robin over the trackers, one increment at a time, each taken before the next is sent
		for k := 0; ; k++ {
			sent := false
			for i, tr := range c.Trackers {
				if k < len(tr.Incs) {
					pt.Increment(fmt.Sprintf("tracker-%d", i), tr.Incs[k])
					synctest.Wait()
					sent = true
				}
			}
			if !sent {
				break
			}
			time.Sleep(30 * time.Millisecond)
		}
		_ = pt.Close()
		c.Obs.Success = pt.AllProgressComplete()
		time.Sleep(2 * time.Second)
		synctest.Wait()
	})
	c.term = verdictTerm(c)
}

func verdictTerm(c *c20Case) string {
	trk := func(tr c20Tracker) string {
		return fmt.Sprintf("(%s, %s)", CoqZ(tr.Total), CoqList(tr.Incs, CoqZ))
	}
	return fmt.Sprintf("mkVCase %s %s", CoqList(c.Trackers, trk), CoqBool(c.Obs.Success))
}

func ones(n int) []int64 {
	out := make([]int64, n)
	for i := range out {
		out[i] = 1
	}
	return out
}

func verdictBoundary() []c20Case {
	mk := func(fam string, delay int, ts ...c20Tracker) c20Case {
		return c20Case{Kind: "verdict", Family: fam, Trackers: ts, RegisterDelayMs: delay}
	}
	return []c20Case{
		mk("long-negative-broken-then-150-more-blocks", 0, c20Tracker{Total: 0, Incs: ones(151)}),
		mk("long-reached-then-150-surplus-blocks", 0, c20Tracker{Total: 2, Incs: ones(152)}),
		mk("exactly-reached", 0, c20Tracker{Total: 3, Incs: []int64{1, 1, 1}}),
		mk("one-short", 0, c20Tracker{Total: 3, Incs: []int64{1, 1}}),
		mk("exceeded-in-one-step", 0, c20Tracker{Total: 3, Incs: []int64{2, 5}}),
		mk("more-after-reached", 0, c20Tracker{Total: 2, Incs: []int64{1, 1, 1, 1}}),
		mk("nothing-performed", 0, c20Tracker{Total: 4, Incs: nil}),
		mk("negative-held", 0, c20Tracker{Total: 0, Incs: nil}),
		mk("negative-broken", 0, c20Tracker{Total: 0, Incs: []int64{1}}),
		mk("negative-broken-by-zero-increment", 0, c20Tracker{Total: 0, Incs: []int64{0}}),
		mk("zero-increments-then-reached", 0, c20Tracker{Total: 2, Incs: []int64{0, 0, 2}}),
		mk("blocks-and-performs-ok", 0, c20Tracker{Total: 5, Incs: []int64{1, 1, 1, 1, 1, 1}}, c20Tracker{Total: 2, Incs: []int64{2}}, c20Tracker{Total: 0}),
		mk("blocks-ok-performs-short", 0, c20Tracker{Total: 5, Incs: []int64{1, 1, 1, 1, 1, 1}}, c20Tracker{Total: 7, Incs: []int64{2, 1}}, c20Tracker{Total: 0}),
		mk("performs-ok-negative-broken", 0, c20Tracker{Total: 2, Incs: []int64{1, 1}}, c20Tracker{Total: 0, Incs: []int64{3}}),
		// trackers registered later than the first progress tick (a slow NewGroup)
		mk("late-registration-short", 150, c20Tracker{Total: 5, Incs: []int64{1}}),
		mk("late-registration-reached", 350, c20Tracker{Total: 2, Incs: []int64{1, 1}}),
	}
}

func verdictRandom(r *Rng) c20Case {
	c := c20Case{Kind: "verdict", Family: "random"}
	if r.Chance(1, 6) {
		c.RegisterDelayMs = 50 + r.Intn(400)
	}
	for i := 0; i < 1+r.Intn(4); i++ {
		tr := c20Tracker{Total: int64(r.Intn(8))}
		if r.Chance(1, 4) {
			tr.Total = 0
		}
		n := r.Intn(7)
		if tr.Total == 0 && r.Chance(2, 3) {
			n = 0
		}
		for k := 0; k < n; k++ {
			tr.Incs = append(tr.Incs, int64(r.Intn(4)))
		}
		c.Trackers = append(c.Trackers, tr)
	}
	return c
}

// ------------------------------------------------------------------ part D2: the real loader wired to the real telemetry

// As in a run: NewOCR3TransmitLoader registers the plan's expectation with the real
// ProgressTelemetry, reports are transmitted and loaded into blocks, main.go closes the telemetry and
// asks AllProgressComplete.  Loads[i] lists the number of upkeeps in each report of the i-th block.
func runWiredCase(t *testing.T, c *c20Case) {
	plan := buildPlan(c)
	ups, err := chain.GenerateAllUpkeeps(plan)
	if err != nil {
		t.Fatal(err)
	}
	logs, _ := chain.GenerateLogTriggers(plan)
	var loads []int64
	defer func() {
		if r := recover(); r != nil {
			leaked = append(leaked, c.Family+": "+fmt.Sprint(r))
		}
		trig := NewInterner()
		var us, ls []string
		for _, u := range ups {
			el := make([]uint64, len(u.EligibleAt))
			for j, e := range u.EligibleAt {
				el[j] = e.Uint64()
			}
			us = append(us, fmt.Sprintf("mkGU %d %s %s %s %s %d", int(u.Type), CoqBool(u.Expected), CoqN(u.CreateInBlock.Uint64()),
				CoqBool(u.AlwaysEligible), CoqList(el, CoqN), trig.ID(u.TriggeredBy)))
		}
		for _, l := range logs {
			ls = append(ls, fmt.Sprintf("mkGL %s %d", CoqN(l.TriggerAt.Uint64()), trig.ID(l.TriggerValue)))
		}
		id := func(s string) string { return s }
		c.term = fmt.Sprintf("mkWCase %s %s %s %s", CoqList(us, id), CoqList(ls, id), CoqList(loads, CoqZ), CoqBool(c.Obs.Success))
	}()
	synctest.Test(t, func(t *testing.T) {
		pt := telemetry.NewProgressTelemetry(io.Discard)
		pt.Start()
		tl, err := loader.NewOCR3TransmitLoader(plan, pt, quiet)
		if err != nil {
			t.Fatal(err)
		}
		synctest.Wait()
		round := uint64(0)
		for bi, reports := range c.Loads {
			var n int64
			for _, k := range reports {
				var results []common.CheckResult
				for j := 0; j < k; j++ {
					id := UpkeepID(0, 1+j)
					if len(ups) > 0 {
						id = common.UpkeepIdentifier(ups[j%len(ups)].UpkeepID)
					}
					trg := common.NewTrigger(common.BlockNumber(c.Genesis+uint64(bi)), Hash32("blk", bi))
					results = append(results, common.CheckResult{UpkeepID: id, Trigger: trg, WorkID: simutil.UpkeepWorkID(id, trg)})
				}
				rep, err := simutil.EncodeCheckResultsToReportBytes(results)
				if err != nil {
					t.Fatal(err)
				}
				round++
				if err := tl.Transmit("0xsender", rep, round); err != nil {
					t.Fatal(err)
				}
				for d := 0; d < c.Dups; d++ {
					// the other nodes submit the same attested report of the same round: recorded (and counted) once
					_ = tl.Transmit(fmt.Sprintf("0xsender-%d", d+2), append([]byte(nil), rep...), round)
				}
				n += int64(k)
			}
			blk := chain.Block{Number: new(big.Int).SetUint64(c.Genesis + uint64(bi) + 1), Hash: Hash32("blk", bi+1)}
			tl.Load(&blk)
			if len(reports) > 0 {
				loads = append(loads, n)
			}
			synctest.Wait()
			time.Sleep(20 * time.Millisecond)
		}
		for li, k := range c.Late {
			// a transmit that arrives after the last block of the run was assembled never reaches the chain
			var results []common.CheckResult
			for j := 0; j < k; j++ {
				id := UpkeepID(0, 1+j)
				if len(ups) > 0 {
					id = common.UpkeepIdentifier(ups[(j+li)%len(ups)].UpkeepID)
				}
				trg := common.NewTrigger(common.BlockNumber(c.Genesis+uint64(len(c.Loads)+li)), Hash32("late", li))
				results = append(results, common.CheckResult{UpkeepID: id, Trigger: trg, WorkID: simutil.UpkeepWorkID(id, trg)})
			}
			rep, err := simutil.EncodeCheckResultsToReportBytes(results)
			if err != nil {
				t.Fatal(err)
			}
			round++
			_ = tl.Transmit("0xsender", rep, round)
			synctest.Wait()
		}
		_ = pt.Close()
		c.Obs.Success = pt.AllProgressComplete()
		time.Sleep(2 * time.Second)
		synctest.Wait()
	})
}

func late(c c20Case, ks ...int) c20Case { c.Late = ks; return c }

func wiredBoundary() []c20Case {
	g := uint64(1000)
	gen := func(exp string) []c20Gen {
		return []c20Gen{{Block: g, Count: 2, StartID: 200, Elig: "20x", Offset: "x", Type: "conditional", Expected: exp, EvType: "generateUpkeeps"}}
	}
	mk := func(fam string, gens []c20Gen, loads ...[]int) c20Case {
		return c20Case{Kind: "wired", Family: fam, Genesis: g, Duration: 50, Gens: gens, Loads: loads, Dups: 3}
	}
	// 2 upkeeps eligible at +21/+41 and +22/+42: 4 performs expected
	return []c20Case{
		mk("expected-4-performed-4", gen("all"), []int{1}, []int{1, 1}, []int{}, []int{1}),
		mk("expected-4-performed-3", gen("all"), []int{1}, []int{2}),
		mk("expected-4-performed-5", gen("all"), []int{2, 3}),
		mk("expected-4-nothing-performed", gen("all")),
		mk("none-expected-nothing-performed", gen("none")),
		mk("none-expected-but-performed", gen("none"), []int{}, []int{1}),
		mk("none-expected-but-performed-twice", gen("none"), []int{1}, []int{2}),
		mk("no-upkeeps-but-performed", nil, []int{1}),
		mk("never-eligible-but-performed", []c20Gen{{Block: g, Count: 3, StartID: 200, Elig: "never", Type: "conditional", Expected: "all", EvType: "generateUpkeeps"}}, []int{1}),
		mk("none-expected-empty-report-loaded", gen("none"), []int{0}),
		late(mk("expected-4-performed-3-and-1-never-in-a-block", gen("all"), []int{1}, []int{2}), 1),
		late(mk("expected-4-performed-0-and-4-never-in-a-block", gen("all")), 2, 2),
		late(mk("none-expected-one-never-in-a-block", gen("none"), []int{}), 1),
		late(mk("expected-4-performed-4-and-more-never-in-a-block", gen("all"), []int{2}, []int{2}), 1, 3),
	}
}

func wiredRandom(r *Rng) c20Case {
	e := expectedRandom(r)
	c := c20Case{Kind: "wired", Family: "random", Genesis: e.Genesis, Duration: e.Duration, Gens: e.Gens, Logs: e.Logs, Dups: r.Intn(4)}
	if r.Chance(1, 3) {
		for i := range c.Gens {
			c.Gens[i].Expected = "none"
		}
	}
	for i := 0; i < r.Intn(5); i++ {
		var reports []int
		for k := 0; k < r.Intn(3); k++ {
			reports = append(reports, 1+r.Intn(3))
		}
		c.Loads = append(c.Loads, reports)
	}
	if r.Chance(1, 3) {
		for k := 0; k < 1+r.Intn(2); k++ {
			c.Late = append(c.Late, 1+r.Intn(3))
		}
	}
	return c
}

// ------------------------------------------------------------------ part E: plan codec

func tagOf(t config.EventType) int {
	switch t {
	case "":
		return 0
	case config.OCR3ConfigEventType:
		return 1
	case config.GenerateUpkeepEventType:
		return 2
	case config.LogTriggerEventType:
		return 3
	}
	return 9
}

func expectedOf(s string) int {
	switch s {
	case "":
		return 0
	case config.AllExpected:
		return 1
	case config.NoneExpected:
		return 2
	}
	return 3
}

// canon renders a value structurally (field by field; durations as nanoseconds, big integers in
// decimal), so that two events are equal exactly when their Go values are.  It does not go through
// the JSON codec under test.
func canon(v reflect.Value) string {
	switch v.Kind() {
	case reflect.Struct:
		var b strings.Builder
		b.WriteString("{")
		for i := 0; i < v.NumField(); i++ {
			b.WriteString(v.Type().Field(i).Name + ":" + canon(v.Field(i)) + ";")
		}
		b.WriteString("}")
		return b.String()
	case reflect.Ptr:
		if v.IsNil() {
			return "nil"
		}
		if bi, ok := v.Interface().(*big.Int); ok {
			return bi.String()
		}
		return "&" + canon(v.Elem())
	case reflect.Slice:
		var parts []string
		for i := 0; i < v.Len(); i++ {
			parts = append(parts, canon(v.Index(i)))
		}
		return "[" + strings.Join(parts, ",") + "]"
	case reflect.String:
		return strconv.Quote(v.String())
	case reflect.Int, reflect.Int8, reflect.Int16, reflect.Int32, reflect.Int64:
		return strconv.FormatInt(v.Int(), 10)
	case reflect.Uint, reflect.Uint8, reflect.Uint16, reflect.Uint32, reflect.Uint64:
		return strconv.FormatUint(v.Uint(), 10)
	case reflect.Float32, reflect.Float64:
		return strconv.FormatFloat(v.Float(), 'g', -1, 64)
	case reflect.Bool:
		return strconv.FormatBool(v.Bool())
	}
	return fmt.Sprintf("<%s>", v.Kind())
}

// an event's content without its type tag and `expected`
func eventBody(v any) string {
	switch e := v.(type) {
	case config.OCR3ConfigEvent:
		e.Type = ""
		return canon(reflect.ValueOf(e))
	case config.GenerateUpkeepEvent:
		e.Type, e.Expected = "", ""
		return canon(reflect.ValueOf(e))
	case config.LogTriggerEvent:
		e.Type = ""
		return canon(reflect.ValueOf(e))
	}
	return "?"
}

// everything of a plan but its events
func planRest(p config.SimulationPlan) string {
	p.ConfigEvents, p.GenerateUpkeeps, p.LogEvents = nil, nil, nil
	return canon(reflect.ValueOf(p))
}

func runPlanCase(t *testing.T, c *c20Case) {
	plan := buildPlan(c)
	bodies := NewInterner()
	ev := func(tag, exp int, body string) string { return fmt.Sprintf("mkEv %d %d %d", tag, exp, bodies.ID(body)) }
	planTerm := func(p config.SimulationPlan) string {
		var a, b, l []string
		for _, e := range p.ConfigEvents {
			a = append(a, ev(tagOf(e.Type), 0, eventBody(e)))
		}
		for _, e := range p.GenerateUpkeeps {
			b = append(b, ev(tagOf(e.Type), expectedOf(e.Expected), eventBody(e)))
		}
		for _, e := range p.LogEvents {
			l = append(l, ev(tagOf(e.Type), 0, eventBody(e)))
		}
		id := func(s string) string { return s }
		return fmt.Sprintf("(mkPlan %s %s %s)", CoqList(a, id), CoqList(b, id), CoqList(l, id))
	}
	in := planTerm(plan)
	var enc []byte
	var err error
	planFile := ""
	if c.ViaFile {
		// what a verbose run does: SetupOutput saves the plan, a later run loads it
		// ... into an output directory that an earlier run with a LONGER plan has used already
		dir := t.TempDir()
		longer := plan
		for k := 0; k < 3; k++ {
			longer.ConfigEvents = append(append([]config.OCR3ConfigEvent{}, longer.ConfigEvents...), plan.ConfigEvents...)
			longer.GenerateUpkeeps = append(append([]config.GenerateUpkeepEvent{}, longer.GenerateUpkeeps...), plan.GenerateUpkeeps...)
			longer.LogEvents = append(append([]config.LogTriggerEvent{}, longer.LogEvents...), plan.LogEvents...)
		}
		if prev, perr := run.SetupOutput(dir, true, true, longer); perr == nil {
			_ = prev.Close()
		}
		outputs, oerr := run.SetupOutput(dir, true, true, plan)
		if oerr != nil {
			t.Fatal(oerr)
		}
		_ = outputs.Close()
		planFile = filepath.Join(dir, "simulation_plan.json")
		enc, err = os.ReadFile(planFile)
	} else {
		enc, err = plan.Encode()
	}
	if err != nil {
		t.Fatal(err)
	}
	var wire struct {
		Events []json.RawMessage `json:"events"`
	}
	if err := json.Unmarshal(enc, &wire); err != nil && !c.ViaFile {
		t.Fatal(err)
	}
	c.Obs.Wire = nil
	for _, raw := range wire.Events {
		var e config.Event
		if string(raw) == "null" {
			c.Obs.Wire = append(c.Obs.Wire, 0)
			continue
		}
		_ = json.Unmarshal(raw, &e)
		c.Obs.Wire = append(c.Obs.Wire, tagOf(e.Type))
	}
	var dec config.SimulationPlan
	var derr error
	if c.ViaFile {
		dec, derr = run.LoadSimulationPlan(planFile)
	} else {
		dec, derr = config.DecodeSimulationPlan(enc)
	}
	decTerm := "None"
	c.Obs.RestOK = false
	if derr != nil {
		c.Obs.DecErr = derr.Error()
	} else {
		decTerm = "(Some " + planTerm(dec) + ")"
		c.Obs.RestOK = planRest(plan) == planRest(dec)
		// a second round trip must be the identity
		enc2, err2 := dec.Encode()
		dec2, err3 := config.DecodeSimulationPlan(enc2)
		if err2 != nil || err3 != nil || planTerm(dec2) != planTerm(dec) {
			c.Obs.RestOK = false
		}
	}
	c.term = fmt.Sprintf("mkPCase %s %s %s %s", in, CoqList(c.Obs.Wire, func(i int) string { return CoqN(uint64(i)) }), decTerm, CoqBool(c.Obs.RestOK))
}

func planBoundary() []c20Case {
	g := uint64(128943862)
	conf := c20Conf{Block: g + 1, F: 1, EvType: "ocr3config"}
	gen := c20Gen{Block: g, Count: 10, StartID: 200, Elig: "30x - 15", Offset: "2x + 1", Type: "conditional", Expected: "all", EvType: "generateUpkeeps"}
	lg := c20Log{Block: g + 10, Value: "test_trigger_event", EvType: "logTrigger"}
	mk := func(fam string, cs []c20Conf, gs []c20Gen, ls []c20Log) c20Case {
		return c20Case{Kind: "plan", Family: fam, Genesis: g, Duration: 60, Confs: cs, Gens: gs, Logs: ls}
	}
	gNone, gEmpty, gNoType := gen, gen, gen
	gNone.Expected, gEmpty.Expected, gNoType.EvType = "none", "", ""
	return []c20Case{
		mk("no-events", nil, nil, nil),
		mk("only-logs", nil, nil, []c20Log{lg, lg}),
		mk("one-config", []c20Conf{conf}, nil, nil),
		mk("one-generate", nil, []c20Gen{gen}, nil),
		mk("shipped-shape", []c20Conf{conf}, []c20Gen{gen, gNone}, []c20Log{lg}),
		mk("expected-empty-defaults-to-all", nil, []c20Gen{gEmpty}, nil),
		mk("type-tags-unset", []c20Conf{{Block: g, F: 1}}, []c20Gen{gNoType}, []c20Log{{Block: g, Value: "v"}}),
		mk("type-tags-wrong", []c20Conf{{Block: g, F: 2, EvType: "logTrigger"}}, []c20Gen{gen}, []c20Log{{Block: g, Value: "v", EvType: "ocr3config"}}),
		mk("many", []c20Conf{conf, conf, conf}, []c20Gen{gen, gNone, gEmpty, gen}, []c20Log{lg, lg, lg}),
		// durations that are not a whole number of milliseconds, in every duration field
		withDurs(mk("durations-sub-millisecond", []c20Conf{conf}, []c20Gen{gen}, []c20Log{lg}), false,
			2500000, 750000, 1, 999999, 1000500000, 1500, 10000000001, 300000001, 1100000500, 299999999, 200000250, 20000000000, 50000, 100500000),
		withDurs(mk("durations-sub-millisecond-saved-file", []c20Conf{conf, conf}, []c20Gen{gen}, nil), true,
			2500000, 750000, 1, 999999, 1000500000, 1500, 10000000001, 300000001, 1100000500, 299999999, 200000250, 20000000000, 50000, 100500000),
		withDurs(mk("durations-whole-units-saved-file", []c20Conf{conf}, []c20Gen{gen, gNone}, []c20Log{lg}), true,
			100000000, 1000000000, 200000000, 60000000000, 3600000000000, 0),
		withDurs(mk("durations-no-events", nil, nil, nil), false, 2500000, 750000, 123456789),
	}
}

func withDurs(c c20Case, viaFile bool, durs ...int64) c20Case {
	c.Durs, c.ViaFile = durs, viaFile
	return c
}

func planRandom(r *Rng) c20Case {
	g := []uint64{3, 95, 1000, 128943862}[r.Intn(4)]
	c := c20Case{Kind: "plan", Family: "random", Genesis: g, Duration: 20 + r.Intn(60)}
	types := []string{"", "ocr3config", "generateUpkeeps", "logTrigger", "bogus"}
	for i := 0; i < r.Intn(3); i++ {
		c.Confs = append(c.Confs, c20Conf{Block: g + uint64(r.Intn(5)), F: 1 + r.Intn(2), EvType: types[r.Intn(5)]})
	}
	e := expectedRandom(r)
	for _, x := range e.Gens {
		x.EvType = types[r.Intn(5)]
		x.Expected = []string{"all", "none", "", "all"}[r.Intn(4)]
		c.Gens = append(c.Gens, x)
	}
	for _, x := range e.Logs {
		x.EvType = types[r.Intn(5)]
		c.Logs = append(c.Logs, x)
	}
	if r.Chance(2, 3) {
		for i := 0; i < 3+r.Intn(12); i++ {
			var d int64
			switch r.Intn(5) {
			case 0: // whole milliseconds
				d = int64(r.Intn(5000)) * 1000000
			case 1: // microsecond part
				d = int64(r.Intn(5000))*1000000 + int64(1+r.Intn(999))*1000
			case 2: // nanosecond part
				d = int64(r.Intn(2000))*1000000 + int64(1+r.Intn(999999))
			case 3: // below one millisecond
				d = int64(r.Intn(1000000))
			default: // seconds .. hours with a fraction
				d = int64(1+r.Intn(7200))*1000000000 + int64(r.Intn(2))*500000
			}
			c.Durs = append(c.Durs, d)
		}
		c.ViaFile = r.Chance(1, 4)
	}
	return c
}

// ------------------------------------------------------------------ test

func TestC20(t *testing.T) {
	dir := OutDir(t, "C20")
	r := NewRng(EnvSeed())
	var cases []c20Case
	replay := ReplayFile() != ""
	if replay {
		cases = LoadReplayCases[c20Case](t, ReplayFile())
	} else {
		cases = append(cases, LoadCorpus[c20Case](t, "C20")...)
		cases = append(cases, fmsBoundary(r)...)
		cases = append(cases, reportBoundary(r)...)
		cases = append(cases, expectedBoundary()...)
		cases = append(cases, verdictBoundary()...)
		cases = append(cases, wiredBoundary()...)
		cases = append(cases, planBoundary()...)
		n := EnvInt("VERIF_N", 100)
		for i := 0; i < n; i++ {
			cases = append(cases, fmsRandom(r))
		}
		for i := 0; i < n/2; i++ {
			cases = append(cases, reportRandom(r))
		}
		for i := 0; i < n; i++ {
			cases = append(cases, expectedRandom(r))
		}
		for i := 0; i < n/2; i++ {
			cases = append(cases, verdictRandom(r))
		}
		for i := 0; i < n/2; i++ {
			cases = append(cases, wiredRandom(r))
		}
		for i := 0; i < n; i++ {
			cases = append(cases, planRandom(r))
		}
	}
	kinds := []string{"fms", "report", "expected", "verdict", "wired", "plan"}
	files := map[string]*CaseFile{}
	byKind := map[string][]c20Case{}
	fam := map[string]map[string]int{}
	for _, k := range kinds {
		files[k] = NewCaseFile("C20", "Model.SimVerdict")
		fam[k] = map[string]int{}
	}
	for i := range cases {
		c := &cases[i]
		c.Obs = c20Case{}.Obs
		switch c.Kind {
		case "fms":
			runFmsCase(c)
		case "report":
			runReportCase(t, c)
		case "expected":
			runExpectedCase(t, c)
		case "verdict":
			runVerdictCase(t, c)
		case "wired":
			runWiredCase(t, c)
		case "plan":
			runPlanCase(t, c)
		default:
			t.Fatalf("unknown case kind %q", c.Kind)
		}
		files[c.Kind].Add(c.term)
		byKind[c.Kind] = append(byKind[c.Kind], *c)
		fam[c.Kind][c.Family]++
	}
	results := map[string][][2]string{
		"fms": {{"mism", "find_idx fc_mism cases"}, {"bad", "find_idx fc_bad cases"},
			{"nontriv", "find_idx (fun c => Nat.ltb 2 (length (fc_data c))) cases"},
			{"cov_old_code_panics", "length (find_idx fc_old_panics cases)"}},
		"report": {{"mism", "find_idx rc_mism cases"}, {"bad", "find_idx rc_bad cases"},
			{"nontriv", "find_idx (fun c => Nat.ltb 0 (length (rc_ups c))) cases"},
			{"cov_old_median_panics", "length (find_idx rc_old_median_panics cases)"},
			{"cov_old_nil_panics", "length (find_idx rc_old_nil_panics cases)"}},
		"expected": {{"mism", "find_idx ec_mism cases"}, {"bad", "find_idx ec_bad cases"},
			{"nontriv", "find_idx (fun c => Z.ltb 0 (ec_total c)) cases"},
			{"cov_negative_namespace", "length (find_idx ec_neg cases)"}},
		"verdict": {{"mism", "find_idx vc_mism cases"}, {"bad", "find_idx vc_bad cases"},
			{"nontriv", "find_idx (fun c => Nat.ltb 0 (length (concat (map snd (vc_trackers c))))) cases"},
			{"cov_success", "length (find_idx vc_obs cases)"}},
		"wired": {{"mism", "find_idx wc_mism cases"}, {"bad", "find_idx wc_bad cases"},
			{"nontriv", "find_idx (fun c => Nat.ltb 0 (length (wc_loads c))) cases"},
			{"cov_negative_assertion_broken", "length (find_idx wc_negative_broken cases)"},
			{"cov_success", "length (find_idx wc_obs cases)"}},
		"plan": {{"mism", "find_idx pc_mism cases"}, {"bad", "find_idx pc_bad cases"},
			{"nontriv", "find_idx (fun c => Nat.ltb 0 (length (pc_wire c))) cases"},
			{"cov_old_encode_fails", "length (find_idx pc_old_fails cases)"}},
	}
	types := map[string]string{"fms": "f_case", "report": "r_case", "expected": "e_case", "verdict": "v_case", "wired": "w_case", "plan": "p_case"}
	for _, k := range kinds {
		cf := files[k]
		if cf.Len() == 0 {
			continue
		}
		cf.Imports = append(cf.Imports, "Base.Util")
		cf.Prelude = "Open Scope Z_scope."
		cf.Write(t, dir, "cases_"+k+".v", types[k], results[k])
		WriteJSON(t, filepath.Join(dir, "cases_"+k+".json"), map[string]any{
			"property": "C20", "seed": EnvSeed(), "cases": byKind[k], "families": fam[k],
		})
	}
	var extra []map[string]any
	for _, l := range leaked {
		extra = append(extra, map[string]any{"what": "progress telemetry left goroutines running after AllProgressComplete returned", "detail": l})
	}
	if !replay {
		runSimulations(t, dir, extra)
	} else if len(extra) > 0 {
		WriteJSON(t, filepath.Join(dir, "direct.json"), map[string]any{"evaluations": 0, "nontrivial_keys": []string{}, "violations": extra, "known": map[string]any{}})
	}
}
