// Package c17 drives the real OCR2 (v2) report coordinator (pkg/v2/coordinator) with the real
// BasicEncoder inside testing/synctest bubbles: Start() runs the 1 s log poller and the two cache
// cleaners on the virtual clock, a fake LogProvider hands the scripted perform / stale logs to
// exactly one poll, Accept / IsPending / IsTransmissionConfirmed are called directly.  One run =
// one bubble on a fresh coordinator; every random history is additionally replayed in ~20
// admissible re-orderings (every log still after an accept of its key), each on a fresh
// coordinator, for the convergence clause of the checker.
package c17

import (
	"context"
	"encoding/json"
	"fmt"
	"io"
	"log"
	"math/big"
	"path/filepath"
	"sort"
	"strings"
	"sync"
	"testing"
	"testing/synctest"
	"time"

	. "verifharness/h"

	ocr2keepers "github.com/smartcontractkit/chainlink-automation/pkg/v2"
	"github.com/smartcontractkit/chainlink-automation/pkg/v2/coordinator"
	"github.com/smartcontractkit/chainlink-automation/pkg/v2/encoding"
)

// ---------------------------------------------------------------- generator form

type c17Key struct {
	Blk string `json:"blk"` // canonical decimal string
	ID  int    `json:"id"`  // small upkeep number; the upkeep identifier string is its decimal form
}

type c17Log struct {
	Stale bool   `json:"stale"`
	Key   c17Key `json:"key"`
	TB    string `json:"tb"` // TransmitBlock of the log (ignored by the code for stale logs)
	Confs int64  `json:"confs"`
}

// one step of a history: "accept" (Key), "poll" (Logs delivered to the next poll: all performs,
// then all stales), "sleep" (Dur ns of virtual time)
type c17Step struct {
	Kind string   `json:"kind"`
	Key  *c17Key  `json:"key,omitempty"`
	Logs []c17Log `json:"logs,omitempty"`
	Dur  int64    `json:"dur,omitempty"`
}

type c17Case struct {
	Family   string    `json:"family"`
	MinConfs int       `json:"min_confs"`
	Window   int64     `json:"window"` // ns; < 1 = the coordinator's default (20 min)
	Clean    int64     `json:"clean"`  // cache clean interval ns; < 1 = default (30 s)
	Steps    []c17Step `json:"steps"`
	QDelay   int64     `json:"qdelay"` // extra virtual ns between the last step and the queries
	Queries  []c17Key  `json:"queries"`
	// admissible re-orderings: each is a list of groups of indices into the flattened event list
	// of Steps (a group is one accept, or the logs of one poll)
	Perms [][][]int `json:"perms,omitempty"`
	// observed
	Obs *c17Obs `json:"obs,omitempty"`
}

type c17Op struct {
	T   int64   `json:"t"`
	Acc *c17Key `json:"acc,omitempty"`
	Log *c17Log `json:"log,omitempty"`
}

type c17Run struct {
	Ops  []c17Op `json:"ops"`
	Idx  []int   `json:"idx,omitempty"` // for a re-ordering: position of each op in the original event list
	QT   int64   `json:"qt"`
	Code string  `json:"code"` // packed answers (decimal), 3 bits per query
	Leak string  `json:"leak,omitempty"`
}

type c17Obs struct {
	Run   c17Run   `json:"run"`
	Perms []c17Run `json:"perms,omitempty"`
}

// ---------------------------------------------------------------- fake log provider

type fakeLogs struct {
	mu       sync.Mutex
	performs []ocr2keepers.PerformLog
	stales   []ocr2keepers.StaleReportLog
	start    time.Time
	tPerf    int64
	tStale   int64
	polls    int
}

func (f *fakeLogs) PerformLogs(context.Context) ([]ocr2keepers.PerformLog, error) {
	f.mu.Lock()
	defer f.mu.Unlock()
	f.polls++
	p := f.performs
	f.performs = nil
	if len(p) > 0 {
		f.tPerf = int64(time.Since(f.start))
	}
	return p, nil
}

func (f *fakeLogs) StaleReportLogs(context.Context) ([]ocr2keepers.StaleReportLog, error) {
	f.mu.Lock()
	defer f.mu.Unlock()
	s := f.stales
	f.stales = nil
	if len(s) > 0 {
		f.tStale = int64(time.Since(f.start))
	}
	return s, nil
}

// stage: consecutive logs of one poll share a transaction hash (one transaction performs a batch of upkeeps; a re-orged
// perform keeps its hash in another block) - the hash carries no information for the coordinator
func (f *fakeLogs) stage(logs []c17Log) {
	f.mu.Lock()
	defer f.mu.Unlock()
	for i, l := range logs {
		if l.Stale {
			f.stales = append(f.stales, ocr2keepers.StaleReportLog{Key: upkeepKey(l.Key), TransmitBlock: ocr2keepers.BlockKey(l.TB), Confirmations: l.Confs, TransactionHash: fmt.Sprintf("0xs%d", i/2)})
		} else {
			f.performs = append(f.performs, ocr2keepers.PerformLog{Key: upkeepKey(l.Key), TransmitBlock: ocr2keepers.BlockKey(l.TB), Confirmations: l.Confs, TransactionHash: fmt.Sprintf("0xp%d", i/2)})
		}
	}
}

func (f *fakeLogs) pending() int {
	f.mu.Lock()
	defer f.mu.Unlock()
	return len(f.performs) + len(f.stales)
}

func idString(id int) string { return fmt.Sprintf("%d", 1000+id) }

func upkeepKey(k c17Key) ocr2keepers.UpkeepKey {
	return encoding.BasicEncoder{}.MakeUpkeepKey(ocr2keepers.BlockKey(k.Blk), ocr2keepers.UpkeepIdentifier(idString(k.ID)))
}

// ---------------------------------------------------------------- one run on a fresh coordinator

// the order in which the code processes the logs of one poll: all performs, then all stales
func pollOrder(logs []c17Log) []int {
	var idx []int
	for i, l := range logs {
		if !l.Stale {
			idx = append(idx, i)
		}
	}
	for i, l := range logs {
		if l.Stale {
			idx = append(idx, i)
		}
	}
	return idx
}

// flatten returns the events of the steps in processing order
func flatten(steps []c17Step) []c17Op {
	var ev []c17Op
	for _, s := range steps {
		switch s.Kind {
		case "accept":
			k := *s.Key
			ev = append(ev, c17Op{Acc: &k})
		case "poll":
			for _, i := range pollOrder(s.Logs) {
				l := s.Logs[i]
				ev = append(ev, c17Op{Log: &l})
			}
		}
	}
	return ev
}

func runSteps(t *testing.T, c *c17Case, steps []c17Step) (run c17Run) {
	defer func() {
		if r := recover(); r != nil {
			run.Leak = fmt.Sprint(r)
		}
	}()
	synctest.Test(t, func(t *testing.T) {
		start := time.Now()
		lp := &fakeLogs{start: start}
		rc := coordinator.NewReportCoordinator(time.Duration(c.Window), time.Duration(c.Clean), lp, c.MinConfs,
			log.New(io.Discard, "", 0), encoding.BasicEncoder{})
		rc.Start()
		// the poller ticks at exactly k seconds of virtual time; the harness acts half a second off
		time.Sleep(500 * time.Millisecond)
		synctest.Wait()
		for _, s := range steps {
			switch s.Kind {
			case "accept":
				now := int64(time.Since(start))
				if err := rc.Accept(upkeepKey(*s.Key)); err != nil {
					t.Errorf("Accept(%v): %v", *s.Key, err)
				}
				k := *s.Key
				run.Ops = append(run.Ops, c17Op{T: now, Acc: &k})
			case "poll":
				before := lp.polls
				lp.stage(s.Logs)
				// sleep to just after the next tick
				rel := time.Since(start)
				time.Sleep(time.Second - rel%time.Second + time.Millisecond)
				synctest.Wait()
				if lp.pending() != 0 || lp.polls != before+1 {
					t.Errorf("poll step: %d logs left, %d polls", lp.pending(), lp.polls-before)
				}
				for _, i := range pollOrder(s.Logs) {
					l := s.Logs[i]
					tm := lp.tPerf
					if l.Stale {
						tm = lp.tStale
					}
					run.Ops = append(run.Ops, c17Op{T: tm, Log: &l})
				}
			case "sleep":
				time.Sleep(time.Duration(s.Dur))
				synctest.Wait()
			}
		}
		if c.QDelay > 0 {
			time.Sleep(time.Duration(c.QDelay))
			synctest.Wait()
		}
		run.QT = int64(time.Since(start))
		code := new(big.Int)
		for i, q := range c.Queries {
			key := upkeepKey(q)
			pend, err := rc.IsPending(key)
			conf := rc.IsTransmissionConfirmed(key)
			if pend {
				code.SetBit(code, 3*i, 1)
			}
			if err != nil {
				code.SetBit(code, 3*i+1, 1)
			}
			if conf {
				code.SetBit(code, 3*i+2, 1)
			}
		}
		run.Code = code.String()
		if err := rc.Close(); err != nil {
			t.Errorf("Close: %v", err)
		}
		synctest.Wait()
	})
	return run
}

func permSteps(ev []c17Op, groups [][]int) ([]c17Step, []int) {
	var steps []c17Step
	var idx []int
	for _, g := range groups {
		if len(g) == 1 && ev[g[0]].Acc != nil {
			k := *ev[g[0]].Acc
			steps = append(steps, c17Step{Kind: "accept", Key: &k})
			idx = append(idx, g[0])
			continue
		}
		var logs []c17Log
		for _, i := range g {
			logs = append(logs, *ev[i].Log)
		}
		steps = append(steps, c17Step{Kind: "poll", Logs: logs})
		for _, j := range pollOrder(logs) {
			idx = append(idx, g[j])
		}
	}
	return steps, idx
}

func runC17Case(t *testing.T, c *c17Case) {
	obs := &c17Obs{}
	obs.Run = runSteps(t, c, c.Steps)
	ev := flatten(c.Steps)
	for _, groups := range c.Perms {
		steps, idx := permSteps(ev, groups)
		r := runSteps(t, c, steps)
		r.Idx = idx
		obs.Perms = append(obs.Perms, r)
	}
	c.Obs = obs
}

// ---------------------------------------------------------------- generators

const two64 = "18446744073709551616"

func blk(n uint64) string { return fmt.Sprintf("%d", n) }

func bigAdd(s string, d int64) string {
	v, _ := new(big.Int).SetString(s, 10)
	v.Add(v, big.NewInt(d))
	if v.Sign() < 0 {
		return "0"
	}
	return v.String()
}

func acc(b string, id int) c17Step { return c17Step{Kind: "accept", Key: &c17Key{Blk: b, ID: id}} }
func perf(b string, id int, tb string, confs int64) c17Log {
	return c17Log{Key: c17Key{Blk: b, ID: id}, TB: tb, Confs: confs}
}
func stale(b string, id int, tb string, confs int64) c17Log {
	return c17Log{Stale: true, Key: c17Key{Blk: b, ID: id}, TB: tb, Confs: confs}
}
func poll(logs ...c17Log) c17Step   { return c17Step{Kind: "poll", Logs: logs} }
func sleep(d time.Duration) c17Step { return c17Step{Kind: "sleep", Dur: int64(d)} }

// defaultQueries: for every id of the history the interesting blocks around every check block and
// transmit block, the blocks around 2^64, plus one never-accepted key.  At most max (0 = all),
// the keys of the history always included.
func defaultQueries(steps []c17Step, r *Rng, max int) []c17Key {
	seen := map[string]bool{}
	var must, opt []c17Key
	add := func(dst *[]c17Key, b string, id int) {
		k := fmt.Sprintf("%s|%d", b, id)
		if !seen[k] {
			seen[k] = true
			*dst = append(*dst, c17Key{Blk: b, ID: id})
		}
	}
	ids := map[int]bool{}
	for _, e := range flatten(steps) {
		var k c17Key
		if e.Acc != nil {
			k = *e.Acc
		} else {
			k = e.Log.Key
		}
		ids[k.ID] = true
		add(&must, k.Blk, k.ID)
	}
	for _, e := range flatten(steps) {
		var k c17Key
		if e.Acc != nil {
			k = *e.Acc
		} else {
			k = e.Log.Key
		}
		for _, d := range []int64{-1, 1, 2} {
			add(&opt, bigAdd(k.Blk, d), k.ID)
		}
		if e.Log != nil {
			for _, d := range []int64{-1, 0, 1} {
				add(&opt, bigAdd(e.Log.TB, d), k.ID)
			}
		}
	}
	var idl []int
	for id := range ids {
		idl = append(idl, id)
	}
	sort.Ints(idl)
	for _, id := range idl {
		for _, d := range []int64{-1, 0, 1} {
			add(&opt, bigAdd(two64, d), id)
		}
	}
	add(&must, "999999", 77) // never accepted, unknown id
	if max > 0 && len(must)+len(opt) > max && r != nil {
		p := r.Perm(len(opt))
		keep := max - len(must)
		if keep < 0 {
			keep = 0
		}
		var o2 []c17Key
		for _, i := range p[:keep] {
			o2 = append(o2, opt[i])
		}
		opt = o2
	}
	return append(must, opt...)
}

func isAcceptFirst(ev []c17Op) bool {
	accd := map[c17Key]bool{}
	for _, e := range ev {
		if e.Acc != nil {
			accd[*e.Acc] = true
		} else if !accd[e.Log.Key] {
			return false
		}
	}
	return true
}

// randomAdmissible samples a re-ordering in which every log still has an accept of its key before
// it (random topological order), then groups consecutive logs into polls at random such that the
// processing order inside a poll (performs before stales) is the sampled order.
func randomAdmissible(r *Rng, ev []c17Op) [][]int {
	n := len(ev)
	used := make([]bool, n)
	accd := map[c17Key]int{}
	var order []int
	for len(order) < n {
		var avail []int
		for i, e := range ev {
			if used[i] {
				continue
			}
			if e.Acc != nil || accd[e.Log.Key] > 0 {
				avail = append(avail, i)
			}
		}
		i := avail[r.Intn(len(avail))]
		used[i] = true
		order = append(order, i)
		if ev[i].Acc != nil {
			accd[*ev[i].Acc]++
		}
	}
	var groups [][]int
	for p := 0; p < len(order); {
		i := order[p]
		if ev[i].Acc != nil {
			groups = append(groups, []int{i})
			p++
			continue
		}
		g := []int{i}
		sawStale := ev[i].Log.Stale
		p++
		for p < len(order) && ev[order[p]].Log != nil && r.Chance(1, 3) {
			l := ev[order[p]].Log
			if !l.Stale && sawStale {
				break
			}
			sawStale = sawStale || l.Stale
			g = append(g, order[p])
			p++
		}
		groups = append(groups, g)
	}
	return groups
}

func c17Boundary(r *Rng) []c17Case {
	var cs []c17Case
	add := func(fam string, minc int, window time.Duration, qdelay time.Duration, steps ...c17Step) *c17Case {
		c := c17Case{Family: fam, MinConfs: minc, Window: int64(window), Clean: int64(time.Second), Steps: steps, QDelay: int64(qdelay)}
		c.Queries = defaultQueries(steps, nil, 0)
		cs = append(cs, c)
		return &cs[len(cs)-1]
	}
	withPerms := func(c *c17Case, n int) {
		ev := flatten(c.Steps)
		if !isAcceptFirst(ev) {
			return
		}
		for i := 0; i < n; i++ {
			c.Perms = append(c.Perms, randomAdmissible(r, ev))
		}
	}
	add("empty", 1, 0, 0)
	add("single-accept", 1, 0, 0, acc("10", 1))
	withPerms(add("accept-perform", 1, 0, 0, acc("10", 1), poll(perf("10", 1, "14", 1))), 2)
	withPerms(add("accept-stale", 1, 0, 0, acc("10", 1), poll(stale("10", 1, "40", 1))), 2)
	add("perform-below-minconf-then-enough", 3, 0, 0, acc("10", 1), poll(perf("10", 1, "14", 2)), poll(perf("10", 1, "14", 3)))
	add("perform-below-minconf-only", 3, 0, 0, acc("10", 1), poll(perf("10", 1, "14", 2)))
	add("stale-below-minconf-then-enough", 3, 0, 0, acc("10", 1), poll(stale("10", 1, "40", 0)), poll(stale("10", 1, "40", 5)))
	add("log-before-accept-ignored", 1, 0, 0, poll(perf("10", 1, "14", 9)), acc("10", 1))
	add("stale-before-accept-ignored", 1, 0, 0, poll(stale("10", 1, "40", 9)), acc("10", 1))
	add("log-unknown-key-other-block", 1, 0, 0, acc("10", 1), poll(perf("11", 1, "14", 9), stale("9", 1, "14", 9)))
	withPerms(add("reorg-perform-later-block", 1, 0, 0, acc("10", 1), poll(perf("10", 1, "14", 1)), poll(perf("10", 1, "17", 1))), 4)
	withPerms(add("reorg-perform-earlier-block", 1, 0, 0, acc("10", 1), poll(perf("10", 1, "17", 1)), poll(perf("10", 1, "14", 1))), 4)
	withPerms(add("reorg-perform-same-block-again", 1, 0, 0, acc("10", 1), poll(perf("10", 1, "14", 1)), poll(perf("10", 1, "14", 4))), 2)
	withPerms(add("perform-then-stale", 1, 0, 0, acc("10", 1), poll(perf("10", 1, "14", 1)), poll(stale("10", 1, "40", 1))), 4)
	withPerms(add("stale-then-perform", 1, 0, 0, acc("10", 1), poll(stale("10", 1, "40", 1)), poll(perf("10", 1, "14", 1))), 4)
	withPerms(add("stale-then-perform-at-check-block", 1, 0, 0, acc("10", 1), poll(stale("10", 1, "40", 1)), poll(perf("10", 1, "10", 1))), 4)
	withPerms(add("perform-and-stale-one-poll", 1, 0, 0, acc("10", 1), poll(stale("10", 1, "40", 1), perf("10", 1, "14", 1))), 4)
	withPerms(add("several-logs-one-poll", 1, 0, 0, acc("10", 1), acc("20", 2), acc("12", 1),
		poll(stale("12", 1, "50", 1), perf("10", 1, "14", 1), stale("20", 2, "50", 2), perf("20", 2, "23", 1), perf("12", 1, "19", 1))), 10)
	withPerms(add("two-keys-crossing-late-log-for-older", 1, 0, 0, acc("10", 1), acc("20", 1), poll(perf("20", 1, "25", 1)), poll(perf("10", 1, "30", 1))), 10)
	withPerms(add("two-keys-older-accepted-later", 1, 0, 0, acc("20", 1), poll(perf("20", 1, "25", 1)), acc("10", 1), poll(stale("10", 1, "30", 1))), 10)
	withPerms(add("superseded-key-unlogged", 1, 0, 0, acc("10", 1), acc("20", 1), poll(perf("20", 1, "25", 5))), 6)
	withPerms(add("older-performed-then-newer-accepted", 1, 0, 0, acc("10", 1), poll(perf("10", 1, "14", 1)), acc("20", 1)), 6)
	withPerms(add("accept-again-after-confirmation", 1, 0, 0, acc("10", 1), poll(perf("10", 1, "14", 1)), acc("10", 1)), 3)
	withPerms(add("accept-twice", 1, 0, 0, acc("10", 1), acc("10", 1), poll(stale("10", 1, "1", 1))), 3)
	withPerms(add("two-ids-independent", 2, 0, 0, acc("10", 1), acc("10", 2), poll(perf("10", 1, "14", 2)), poll(stale("10", 2, "14", 1))), 6)
	withPerms(add("transmit-block-literal-2^64", 1, 0, 0, acc("10", 1), poll(perf("10", 1, two64, 1))), 2)
	withPerms(add("transmit-2^64-then-real", 1, 0, 0, acc("10", 1), poll(perf("10", 1, two64, 1)), poll(perf("10", 1, "14", 1))), 4)
	withPerms(add("transmit-real-then-2^64", 1, 0, 0, acc("10", 1), poll(perf("10", 1, "14", 1)), poll(perf("10", 1, two64, 1))), 4)
	withPerms(add("transmit-above-2^64", 1, 0, 0, acc("10", 1), poll(perf("10", 1, bigAdd(two64, 5), 1)), poll(perf("10", 1, "14", 1))), 4)
	withPerms(add("check-block-2^64-1-stale", 1, 0, 0, acc(bigAdd(two64, -1), 1), poll(stale(bigAdd(two64, -1), 1, "3", 1))), 2)
	withPerms(add("check-block-above-2^64", 1, 0, 0, acc(bigAdd(two64, 3), 1), acc("10", 1), poll(perf(bigAdd(two64, 3), 1, bigAdd(two64, 9), 1))), 4)
	withPerms(add("check-block-zero", 1, 0, 0, acc("0", 1), poll(stale("0", 1, "9", 1))), 2)
	withPerms(add("minconfs-zero", 0, 0, 0, acc("10", 1), poll(perf("10", 1, "14", 0))), 2)
	add("minconfs-zero-negative-confs", 0, 0, 0, acc("10", 1), poll(perf("10", 1, "14", -1)))
	withPerms(add("minconfs-negative", -2, 0, 0, acc("10", 1), poll(perf("10", 1, "14", -2)), acc("10", 2), poll(stale("10", 2, "14", -3))), 4)
	// lockout expiry: window 5 s, accept at 0.5 s => expires at 5.5 s; `now > expires` is strict
	for _, d := range []time.Duration{5*time.Second - 1, 5 * time.Second, 5*time.Second + 1, 8 * time.Second} {
		add("lockout-expiry-5s", 1, 5*time.Second, d, acc("10", 1))
	}
	// the entry is re-armed by every Set: perform log at 3 s => expires at 8 s
	for _, d := range []time.Duration{5*time.Second - time.Millisecond - 1, 5*time.Second - time.Millisecond, 5*time.Second - time.Millisecond + 1} {
		add("lockout-rearmed-by-log", 1, 5*time.Second, d, acc("10", 1), sleep(2*time.Second), poll(perf("10", 1, "14", 1)))
	}
	// an ignored accept (key still active) does not re-arm the lockout
	add("lockout-not-rearmed-by-ignored-accept", 1, 5*time.Second, 2*time.Second, acc("10", 1), sleep(4*time.Second), acc("10", 1))
	// after the lockout expired the id starts afresh: a lower check block is taken again
	add("lockout-expired-then-lower-block", 1, 5*time.Second, 0, acc("20", 1), sleep(6*time.Second), acc("10", 1))
	// confirmed key, id entry expired, late re-orged log: the confirmed arm finds no entry
	add("lockout-expired-then-reorg-log", 1, 5*time.Second, 0, acc("10", 1), poll(perf("10", 1, "14", 1)), sleep(6*time.Second), poll(perf("10", 1, "17", 1)))
	add("lockout-expired-lower-accept-then-old-log", 1, 5*time.Second, 0, acc("20", 1), poll(perf("20", 1, "24", 1)), sleep(6*time.Second), acc("10", 1), poll(perf("20", 1, "27", 1)))
	add("window-one-ns", 1, 1, 0, acc("10", 1))
	add("window-negative-is-default", 1, -5, 30*time.Second, acc("10", 1))
	// activeKeys entries live 1 h
	add("active-key-1h-exact", 1, 0, 0, acc("10", 1), sleep(time.Hour), acc("10", 1))
	add("active-key-1h-plus-1ns", 1, 0, 0, acc("10", 1), sleep(time.Hour+1), acc("10", 1))
	add("active-key-expired-log-ignored", 1, 0, 0, acc("10", 1), sleep(time.Hour+time.Second), poll(perf("10", 1, "14", 1)))
	add("active-key-expired-confirmed-query", 1, 0, time.Hour, acc("10", 1), poll(perf("10", 1, "14", 1)))
	add("window-2h-active-key-expires-first", 1, 2*time.Hour, 0, acc("10", 1), sleep(time.Hour+time.Second), poll(perf("10", 1, "14", 1)), acc("10", 1), poll(perf("10", 1, "15", 1)))
	return cs
}

func c17Random(r *Rng, nperms int) c17Case {
	c := c17Case{Family: "random", Clean: int64([]time.Duration{time.Second, 7 * time.Second, 0}[r.Intn(3)])}
	c.MinConfs = []int{0, 1, 1, 2, 3}[r.Intn(5)]
	nid := r.Range(1, 3)
	nblk := r.Range(1, 4)
	base := uint64(r.Range(5, 60))
	blocks := make([]string, nblk)
	for i := range blocks {
		blocks[i] = blk(base + uint64(i)*uint64(r.Range(1, 4)))
	}
	key := func() c17Key { return c17Key{Blk: blocks[r.Intn(nblk)], ID: 1 + r.Intn(nid)} }
	acceptFirst := r.Chance(4, 5)
	accd := map[c17Key]bool{}
	var accl []c17Key
	nops := r.Range(3, 12)
	mkLog := func() c17Log {
		var k c17Key
		if len(accl) > 0 && (acceptFirst || r.Chance(3, 4)) {
			k = accl[r.Intn(len(accl))]
		} else {
			k = key()
		}
		l := c17Log{Key: k, Stale: r.Chance(1, 3)}
		kb, _ := new(big.Int).SetString(k.Blk, 10)
		switch r.Intn(10) {
		case 0:
			l.TB = two64
		case 1:
			l.TB = bigAdd(two64, int64(r.Range(1, 3)))
		case 2:
			l.TB = k.Blk
		default:
			l.TB = bigAdd(kb.String(), int64(r.Range(1, 9)))
		}
		l.Confs = int64(c.MinConfs + r.Range(-1, 2))
		if r.Chance(1, 2) {
			l.Confs = int64(c.MinConfs + r.Range(0, 3))
		}
		return l
	}
	for n := 0; n < nops; {
		if len(accl) == 0 && acceptFirst || r.Chance(2, 5) {
			k := key()
			if accd[k] && r.Chance(1, 2) {
				k = key()
			}
			c.Steps = append(c.Steps, c17Step{Kind: "accept", Key: &k})
			if !accd[k] {
				accd[k] = true
				accl = append(accl, k)
			}
			n++
			continue
		}
		m := 1
		if r.Chance(1, 4) {
			m = r.Range(2, 3)
		}
		var logs []c17Log
		for i := 0; i < m; i++ {
			logs = append(logs, mkLog())
		}
		c.Steps = append(c.Steps, poll(logs...))
		n += m
	}
	c.Queries = defaultQueries(c.Steps, r, 24)
	ev := flatten(c.Steps)
	if isAcceptFirst(ev) {
		for i := 0; i < nperms; i++ {
			c.Perms = append(c.Perms, randomAdmissible(r, ev))
		}
	}
	return c
}

// ---------------------------------------------------------------- Gallina emission

func coqKey(k c17Key) string { return fmt.Sprintf("(%s,%d)", k.Blk, k.ID) }

func coqEv(o c17Op) string {
	if o.Acc != nil {
		return "EAccept " + coqKey(*o.Acc)
	}
	kind := "EPerform"
	if o.Log.Stale {
		kind = "EStale"
	}
	return fmt.Sprintf("%s %s %s (%d)", kind, coqKey(o.Log.Key), o.Log.TB, o.Log.Confs)
}

func effWindow(c c17Case) int64 {
	if c.Window < 1 {
		return int64(coordinator.DefaultLockoutWindow)
	}
	return c.Window
}

func c17Term(c c17Case) string {
	var b strings.Builder
	fmt.Fprintf(&b, "mkCase (mkCfg (%d) %d) ", c.MinConfs, effWindow(c))
	b.WriteString(CoqList(c.Obs.Run.Ops, func(o c17Op) string { return fmt.Sprintf("(%d%%Z,%s)", o.T, coqEv(o)) }))
	fmt.Fprintf(&b, " %d ", c.Obs.Run.QT)
	b.WriteString(CoqList(c.Queries, coqKey))
	fmt.Fprintf(&b, " %s ", c.Obs.Run.Code)
	b.WriteString(CoqList(c.Obs.Perms, func(p c17Run) string {
		type it struct {
			i int
			t int64
		}
		its := make([]it, len(p.Ops))
		for j := range p.Ops {
			its[j] = it{p.Idx[j], p.Ops[j].T}
		}
		return fmt.Sprintf("mkPerm %s %d %s", CoqList(its, func(x it) string { return fmt.Sprintf("(%d%%nat,%d%%Z)", x.i, x.t) }), p.QT, p.Code)
	}))
	return b.String()
}

func TestC17(t *testing.T) {
	dir := OutDir(t, "C17")
	var cases []c17Case
	if rf := ReplayFile(); rf != "" {
		// a replay file holds cases of one of the two parts (see c17_plugin_test.go)
		for _, raw := range LoadReplayCases[json.RawMessage](t, rf) {
			var probe struct {
				Part string `json:"part"`
			}
			_ = json.Unmarshal(raw, &probe)
			if probe.Part == "plugin" {
				continue
			}
			var c c17Case
			if err := json.Unmarshal(raw, &c); err != nil {
				t.Fatal(err)
			}
			cases = append(cases, c)
		}
		if len(cases) == 0 {
			return // the replay file belongs to TestC17Plugin
		}
	} else {
		cases = append(cases, LoadCorpus[c17Case](t, "C17")...)
		// h.NewRng's streams for seeds k and k+1 are the same sequence shifted by one draw; re-seed
		// from the first (mixed) output so that different VERIF_SEEDs give unrelated streams
		r := NewRng(NewRng(EnvSeed()).U64())
		cases = append(cases, c17Boundary(r)...)
		n := EnvInt("VERIF_N", 120)
		for i := 0; i < n; i++ {
			cases = append(cases, c17Random(r, 20))
		}
	}
	cf := NewCaseFile("C17", "Model.V2Coord")
	cf.Prelude = "Open Scope N_scope."
	fam := map[string]int{}
	dist := map[string]int{}
	violations := []map[string]any{}
	runs := 0
	for i := range cases {
		cases[i].Obs = nil // a replay file may carry observed fields; they are recomputed
		runC17Case(t, &cases[i])
		c := cases[i]
		cf.Add(c17Term(c))
		fam[c.Family]++
		dist[fmt.Sprintf("ops=%d", len(c.Obs.Run.Ops))]++
		dist[fmt.Sprintf("perms=%d", len(c.Perms))]++
		runs += 1 + len(c.Perms)
		for _, r := range append([]c17Run{c.Obs.Run}, c.Obs.Perms...) {
			if r.Leak != "" {
				violations = append(violations, map[string]any{"what": "coordinator goroutines left after Close (or panic) in the bubble", "detail": r.Leak, "case": c})
				break
			}
		}
	}
	arms := []string{"accept_new", "accept_again", "log_skipped_minconf", "log_unknown_key", "perform_unconfirmed",
		"perform_confirmed_update", "perform_confirmed_noop", "stale_unconfirmed", "stale_confirmed_update",
		"stale_confirmed_noop", "expired_entry_hit_by_op", "expired_entry_hit_by_query"}
	results := [][2]string{
		{"mism", "find_idx cc_mism cases"},
		{"bad", "find_idx cc_bad cases"},
		{"nontriv", "find_idx cc_nontriv cases"},
		{"cov_perm_runs", "cov_perms cases"},
	}
	for i, a := range arms {
		results = append(results, [2]string{"cov_" + a, fmt.Sprintf("cov_count %d cases", i)})
	}
	cf.Write(t, dir, "cases.v", "c17_case", results)
	WriteJSON(t, filepath.Join(dir, "cases.json"), map[string]any{
		"property": "C17", "seed": EnvSeed(), "cases": cases, "families": fam, "distribution": dist,
	})
	WriteJSON(t, filepath.Join(dir, "direct.json"), map[string]any{
		"evaluations": runs - len(cases), "nontrivial_keys": []string{}, "violations": violations, "known": map[string]any{},
		"samples": []any{}, "distribution": map[string]int{"coordinator_runs_each_in_its_own_bubble": runs},
	})
}
