package c17

// Plug-in level part of C17: ShouldAcceptFinalizedReport / ShouldTransmitAcceptedReport of the v2
// plug-in built through ocr2keepers.NewReportingPluginFactory, over the real report coordinator
// (coordinator.CoordinatorFactory) and the real BasicEncoder, on reports that carry several keys
// with unevenly confirmed keys.

import (
	"context"
	"encoding/json"
	"fmt"
	"io"
	"log"
	"path/filepath"
	"strings"
	"testing"
	"testing/synctest"
	"time"

	. "verifharness/h"

	ocr2types "github.com/smartcontractkit/libocr/offchainreporting2plus/types"

	ocr2keepers "github.com/smartcontractkit/chainlink-automation/pkg/v2"
	"github.com/smartcontractkit/chainlink-automation/pkg/v2/config"
	"github.com/smartcontractkit/chainlink-automation/pkg/v2/coordinator"
	"github.com/smartcontractkit/chainlink-automation/pkg/v2/encoding"
)

// ---------------------------------------------------------------- stand-ins for the chain-facing parts

// plEncoder: the real BasicEncoder plus a trivial report codec (a report is the JSON list of its keys).
type plEncoder struct{ encoding.BasicEncoder }

func (plEncoder) EncodeReport([]ocr2keepers.UpkeepResult) ([]byte, error) { return nil, nil }
func (plEncoder) KeysFromReport(b []byte) ([]ocr2keepers.UpkeepKey, error) {
	var strs []string
	if err := json.Unmarshal(b, &strs); err != nil {
		return nil, err
	}
	out := make([]ocr2keepers.UpkeepKey, len(strs))
	for i, s := range strs {
		out[i] = ocr2keepers.UpkeepKey(s)
	}
	return out, nil
}
func (plEncoder) Eligible(ocr2keepers.UpkeepResult) (bool, error) { return false, nil }
func (plEncoder) Detail(ocr2keepers.UpkeepResult) (ocr2keepers.UpkeepKey, uint32, error) {
	return nil, 0, fmt.Errorf("unused")
}

type plRunner struct{}

func (plRunner) CheckUpkeep(context.Context, bool, ...ocr2keepers.UpkeepKey) ([]ocr2keepers.UpkeepResult, error) {
	return nil, nil
}

type plObserver struct{}

func (plObserver) Observe() (ocr2keepers.BlockKey, []ocr2keepers.UpkeepIdentifier, error) {
	return "1", nil, nil
}

type plObserverFactory struct{}

func (plObserverFactory) NewConditionalObserver(config.OffchainConfig, ocr2types.ReportingPluginConfig, ocr2keepers.Coordinator) (ocr2keepers.ConditionalObserver, error) {
	return plObserver{}, nil
}

// ---------------------------------------------------------------- generator-form cases

// plKey: Bad != "" is a key string that does not split into block|id (sent verbatim).
type plKey struct {
	Blk string `json:"blk,omitempty"`
	ID  int    `json:"id,omitempty"`
	Bad string `json:"bad,omitempty"`
}

type plReport struct {
	Kind string  `json:"kind"` // keys | empty | undec
	Keys []plKey `json:"keys,omitempty"`
}

type plStep struct {
	Kind   string    `json:"kind"` // accept | poll
	Report *plReport `json:"report,omitempty"`
	Logs   []c17Log  `json:"logs,omitempty"`
}

type plOp struct {
	T   int64     `json:"t"`
	Acc *plReport `json:"acc,omitempty"`
	Ok  bool      `json:"ok,omitempty"`
	Err bool      `json:"err,omitempty"`
	Log *c17Log   `json:"log,omitempty"`
}

type plObs struct {
	Ops  []plOp    `json:"ops"`
	QT   int64     `json:"qt"`
	Ans  [][2]bool `json:"ans"` // per query: (transmit, error)
	Leak string    `json:"leak,omitempty"`
}

type plCase struct {
	Part     string     `json:"part"` // always "plugin"
	Family   string     `json:"family"`
	MinConfs int        `json:"min_confs"`
	Steps    []plStep   `json:"steps"`
	Queries  []plReport `json:"queries"`
	Obs      *plObs     `json:"obs,omitempty"`
}

func (k plKey) str() string {
	if k.Bad != "" {
		return k.Bad
	}
	return string(upkeepKey(c17Key{Blk: k.Blk, ID: k.ID}))
}

func (r plReport) bytes() []byte {
	switch r.Kind {
	case "empty":
		return []byte{}
	case "undec":
		return []byte("not a report")
	}
	strs := make([]string, len(r.Keys))
	for i, k := range r.Keys {
		strs[i] = k.str()
	}
	b, _ := json.Marshal(strs)
	return b
}

const plWindowNs = int64(20 * time.Minute) // performLockoutWindow default of the off-chain config

// ---------------------------------------------------------------- one run on a fresh plug-in

func runPlCase(t *testing.T, c *plCase) {
	obs := &plObs{}
	defer func() {
		if r := recover(); r != nil {
			obs.Leak = fmt.Sprint(r)
		}
		c.Obs = obs
	}()
	synctest.Test(t, func(t *testing.T) {
		start := time.Now()
		lp := &fakeLogs{start: start}
		lg := log.New(io.Discard, "", 0)
		enc := plEncoder{}
		fac := ocr2keepers.NewReportingPluginFactory(enc, plRunner{},
			&coordinator.CoordinatorFactory{Logger: lg, Encoder: encoding.BasicEncoder{}, Logs: lp, CacheClean: 30 * time.Second},
			plObserverFactory{}, lg)
		off := fmt.Sprintf(`{"minConfirmations":%d,"targetProbability":"0.999","targetInRounds":1,"maxUpkeepBatchSize":10}`, c.MinConfs)
		plugin, _, err := fac.NewReportingPlugin(context.Background(), ocr2types.ReportingPluginConfig{N: 4, F: 1, OffchainConfig: []byte(off)})
		if err != nil {
			t.Fatalf("NewReportingPlugin: %v", err)
		}
		ctx := context.Background()
		// the coordinator's poller ticks at k seconds of virtual time; the harness acts half a second off
		time.Sleep(500 * time.Millisecond)
		synctest.Wait()
		for _, s := range c.Steps {
			switch s.Kind {
			case "accept":
				now := int64(time.Since(start))
				ok, aerr := plugin.ShouldAcceptFinalizedReport(ctx, ocr2types.ReportTimestamp{}, s.Report.bytes())
				r := *s.Report
				obs.Ops = append(obs.Ops, plOp{T: now, Acc: &r, Ok: ok, Err: aerr != nil})
			case "poll":
				before := lp.polls
				lp.stage(s.Logs)
				rel := time.Since(start)
				time.Sleep(time.Second - rel%time.Second + time.Millisecond)
				synctest.Wait()
				if lp.pending() != 0 || lp.polls != before+1 {
					t.Errorf("poll step: %d logs left, %d polls", lp.pending(), lp.polls-before)
				}
				for _, i := range pollOrder(s.Logs) {
					l := s.Logs[i]
					tm := lp.tPerf
					if l.Stale {
						tm = lp.tStale
					}
					obs.Ops = append(obs.Ops, plOp{T: tm, Log: &l})
				}
			default:
				t.Fatalf("unknown step %q", s.Kind)
			}
		}
		obs.QT = int64(time.Since(start))
		for _, q := range c.Queries {
			tr, terr := plugin.ShouldTransmitAcceptedReport(ctx, ocr2types.ReportTimestamp{}, q.bytes())
			obs.Ans = append(obs.Ans, [2]bool{tr, terr != nil})
		}
		if err := plugin.Close(); err != nil {
			t.Errorf("Close: %v", err)
		}
		synctest.Wait()
	})
}

// ---------------------------------------------------------------- Gallina emission

func plKeyTerm(k plKey) string {
	if k.Bad != "" {
		return "None"
	}
	return fmt.Sprintf("Some (%s,%d)", k.Blk, 1000+k.ID)
}

func plReportTerm(r plReport) string {
	switch r.Kind {
	case "empty":
		return "REmpty"
	case "undec":
		return "RUndec"
	}
	return "RKeys " + CoqList(r.Keys, plKeyTerm)
}

func bbTerm(a, b bool) string { return "(" + CoqBool(a) + "," + CoqBool(b) + ")" }

func plTerm(c plCase) string {
	var ops, acc []string
	for _, o := range c.Obs.Ops {
		if o.Acc != nil {
			ops = append(ops, fmt.Sprintf("PAccept %d%%Z (%s)", o.T, plReportTerm(*o.Acc)))
			acc = append(acc, bbTerm(o.Ok, o.Err))
			continue
		}
		l := o.Log
		ctor := "EPerform"
		if l.Stale {
			ctor = "EStale"
		}
		ops = append(ops, fmt.Sprintf("PLog (%d%%Z, %s (%s,%d) %s (%d)%%Z)", o.T, ctor, l.Key.Blk, 1000+l.Key.ID, l.TB, l.Confs))
	}
	mc := c.MinConfs
	if mc < 0 {
		mc = 0 // validateMinConfirmations
	}
	return fmt.Sprintf("mkPlCase (mkCfg (%d)%%Z %d%%Z) [%s] [%s] %d%%Z %s %s",
		mc, plWindowNs, strings.Join(ops, "; "), strings.Join(acc, "; "), c.Obs.QT,
		CoqList(c.Queries, func(r plReport) string { return "(" + plReportTerm(r) + ")" }),
		CoqList(c.Obs.Ans, func(a [2]bool) string { return bbTerm(a[0], a[1]) }))
}

// ---------------------------------------------------------------- generators

func permsOf(n int) [][]int {
	if n == 1 {
		return [][]int{{0}}
	}
	var out [][]int
	for _, p := range permsOf(n - 1) {
		for pos := 0; pos <= len(p); pos++ {
			q := append(append(append([]int{}, p[:pos]...), n-1), p[pos:]...)
			out = append(out, q)
		}
	}
	return out
}

func keysReport(ks ...plKey) plReport { return plReport{Kind: "keys", Keys: ks} }

func plBoundary() []plCase {
	var cs []plCase
	key := func(i int) plKey { return plKey{Blk: "100", ID: 11 * (i + 1)} }
	// reports with 2..4 keys, every subset of keys confirmed (alternating perform / stale logs),
	// queried in every arrangement (all permutations; for 4 keys rotations of both directions), plus
	// every single key and every pair
	for n := 2; n <= 4; n++ {
		for mask := 0; mask < 1<<n; mask++ {
			var ks []plKey
			for i := 0; i < n; i++ {
				ks = append(ks, key(i))
			}
			c := plCase{Part: "plugin", Family: fmt.Sprintf("subset-n%d-mask%d", n, mask), MinConfs: 1}
			rep := keysReport(ks...)
			c.Steps = append(c.Steps, plStep{Kind: "accept", Report: &rep})
			var logs []c17Log
			for i := 0; i < n; i++ {
				if mask&(1<<i) != 0 {
					logs = append(logs, c17Log{Stale: i%2 == 1, Key: c17Key{Blk: "100", ID: ks[i].ID}, TB: "104", Confs: 1})
				}
			}
			if len(logs) > 0 {
				c.Steps = append(c.Steps, plStep{Kind: "poll", Logs: logs})
			}
			var arr [][]int
			if n <= 3 {
				arr = permsOf(n)
			} else {
				for r := 0; r < n; r++ {
					var a, b []int
					for i := 0; i < n; i++ {
						a = append(a, (r+i)%n)
						b = append(b, (r+n-i)%n)
					}
					arr = append(arr, a, b)
				}
			}
			for _, p := range arr {
				var q []plKey
				for _, i := range p {
					q = append(q, ks[i])
				}
				c.Queries = append(c.Queries, keysReport(q...))
			}
			for i := 0; i < n; i++ {
				c.Queries = append(c.Queries, keysReport(ks[i]))
				for j := 0; j < n; j++ {
					if i != j {
						c.Queries = append(c.Queries, keysReport(ks[i], ks[j]))
					}
				}
			}
			cs = append(cs, c)
		}
	}
	a, b, d := key(0), key(1), key(2)
	never := plKey{Blk: "100", ID: 99}
	bad1, bad2 := plKey{Bad: "12345"}, plKey{Bad: "1|2|3"}
	repAB, repABD := keysReport(a, b), keysReport(a, b, d)
	logB := c17Log{Key: c17Key{Blk: "100", ID: b.ID}, TB: "104", Confs: 1}
	logBlow := c17Log{Key: c17Key{Blk: "100", ID: b.ID}, TB: "104", Confs: 0}
	logA := c17Log{Key: c17Key{Blk: "100", ID: a.ID}, TB: "105", Confs: 3}
	qs := []plReport{keysReport(a, b), keysReport(b, a), keysReport(a), keysReport(b), keysReport(never), keysReport(never, a), keysReport(a, never),
		keysReport(never, b), keysReport(b, never), keysReport(bad1), keysReport(bad1, a), keysReport(a, bad2), keysReport(b, bad1), keysReport(a, a), keysReport(b, a, b),
		keysReport(), {Kind: "undec"}, {Kind: "empty"}}
	cs = append(cs, plCase{Part: "plugin", Family: "log-below-minconfs", MinConfs: 1, Steps: []plStep{{Kind: "accept", Report: &repAB}, {Kind: "poll", Logs: []c17Log{logBlow}}}, Queries: qs})
	cs = append(cs, plCase{Part: "plugin", Family: "never-accepted-and-malformed-keys", MinConfs: 1, Steps: []plStep{{Kind: "accept", Report: &repAB}, {Kind: "poll", Logs: []c17Log{logB}}}, Queries: qs})
	cs = append(cs, plCase{Part: "plugin", Family: "all-confirmed", MinConfs: 0, Steps: []plStep{{Kind: "accept", Report: &repAB}, {Kind: "poll", Logs: []c17Log{logB, logA}}}, Queries: qs})
	cs = append(cs, plCase{Part: "plugin", Family: "nothing-accepted", MinConfs: 1, Queries: qs})
	repA, repB := keysReport(a), keysReport(b)
	cs = append(cs, plCase{Part: "plugin", Family: "keys-from-different-reports", MinConfs: 1, Steps: []plStep{{Kind: "accept", Report: &repA}, {Kind: "poll", Logs: []c17Log{logA}}, {Kind: "accept", Report: &repB}}, Queries: qs})
	cs = append(cs, plCase{Part: "plugin", Family: "log-before-accept-ignored", MinConfs: 1, Steps: []plStep{{Kind: "poll", Logs: []c17Log{logB}}, {Kind: "accept", Report: &repAB}}, Queries: qs})
	cs = append(cs, plCase{Part: "plugin", Family: "re-accept-after-confirmation", MinConfs: 1, Steps: []plStep{{Kind: "accept", Report: &repAB}, {Kind: "poll", Logs: []c17Log{logB}}, {Kind: "accept", Report: &repABD}}, Queries: append(append([]plReport{}, qs...), keysReport(b, d), keysReport(d, b), keysReport(b, a, d), keysReport(d, a, b))})
	// accept: malformed key first / in the middle / last (the keys before it stay accepted), empty, undecodable, no keys
	for i, r := range []plReport{keysReport(bad1, a, b), keysReport(a, bad2, b), keysReport(a, b, bad1), {Kind: "empty"}, {Kind: "undec"}, keysReport(), keysReport(a, a, b)} {
		r := r
		cs = append(cs, plCase{Part: "plugin", Family: fmt.Sprintf("accept-variant-%d", i), MinConfs: 1, Steps: []plStep{{Kind: "accept", Report: &r}, {Kind: "poll", Logs: []c17Log{logB}}}, Queries: qs})
	}
	return cs
}

func plRandom(r *Rng) plCase {
	c := plCase{Part: "plugin", Family: "random", MinConfs: r.Intn(3)}
	pool := []plKey{}
	for i := 0; i < 2+r.Intn(4); i++ {
		pool = append(pool, plKey{Blk: fmt.Sprintf("%d", 100+r.Intn(3)), ID: 1 + r.Intn(4)})
	}
	pick := func() plKey {
		if r.Chance(1, 15) {
			return plKey{Bad: []string{"777", "1|2|3", ""}[r.Intn(2)]}
		}
		return pool[r.Intn(len(pool))]
	}
	rndReport := func() plReport {
		switch r.Intn(20) {
		case 0:
			return plReport{Kind: "undec"}
		case 1:
			return keysReport()
		}
		var ks []plKey
		for n := 1 + r.Intn(4); n > 0; n-- {
			ks = append(ks, pick())
		}
		return keysReport(ks...)
	}
	for n := 2 + r.Intn(5); n > 0; n-- {
		if r.Chance(1, 2) {
			rep := rndReport()
			c.Steps = append(c.Steps, plStep{Kind: "accept", Report: &rep})
			continue
		}
		var logs []c17Log
		for m := 1 + r.Intn(3); m > 0; m-- {
			k := pool[r.Intn(len(pool))]
			logs = append(logs, c17Log{Stale: r.Chance(1, 3), Key: c17Key{Blk: k.Blk, ID: k.ID}, TB: fmt.Sprintf("%d", 103+r.Intn(5)), Confs: int64(r.Intn(4))})
		}
		c.Steps = append(c.Steps, plStep{Kind: "poll", Logs: logs})
	}
	for n := 6 + r.Intn(6); n > 0; n-- {
		c.Queries = append(c.Queries, rndReport())
	}
	return c
}

// ---------------------------------------------------------------- the test

func TestC17Plugin(t *testing.T) {
	dir := OutDir(t, "C17")
	var cases []plCase
	isPlugin := func(raw json.RawMessage) (plCase, bool) {
		var c plCase
		if err := json.Unmarshal(raw, &c); err != nil || c.Part != "plugin" {
			return c, false
		}
		return c, true
	}
	if rf := ReplayFile(); rf != "" {
		for _, raw := range LoadReplayCases[json.RawMessage](t, rf) {
			if c, ok := isPlugin(raw); ok {
				cases = append(cases, c)
			}
		}
		if len(cases) == 0 {
			return // the replay file belongs to TestC17
		}
	} else {
		for _, raw := range LoadCorpus[json.RawMessage](t, "C17") {
			if c, ok := isPlugin(raw); ok {
				cases = append(cases, c)
			}
		}
		cases = append(cases, plBoundary()...)
		r := NewRng(NewRng(EnvSeed() + 7777).U64())
		n := EnvInt("VERIF_N", 120)
		for i := 0; i < n; i++ {
			cases = append(cases, plRandom(r))
		}
	}
	cf := NewCaseFile("C17", "Base.Util", "Model.V2Coord", "Model.V2CoordPlugin")
	cf.Prelude = "Open Scope N_scope."
	fam := map[string]int{}
	queries := 0
	violations := []map[string]any{}
	for i := range cases {
		cases[i].Obs = nil
		runPlCase(t, &cases[i])
		c := cases[i]
		if c.Obs.Leak != "" {
			violations = append(violations, map[string]any{"what": "plug-in goroutines left after Close (or panic) in the bubble", "detail": c.Obs.Leak, "case": c})
		}
		cf.Add(plTerm(c))
		fam[c.Family]++
		queries += len(c.Queries)
	}
	cf.Write(t, dir, "cases_plugin.v", "pl_case", [][2]string{
		{"mism", "find_idx pl_mism cases"},
		{"bad", "find_idx pl_bad cases"},
		{"nontriv", "find_idx pl_nontriv cases"},
		{"cov_transmit_notransmit_error_mixedqueries", "pl_cov_sum (map pl_cov cases)"},
	})
	WriteJSON(t, filepath.Join(dir, "cases_plugin.json"), map[string]any{
		"property": "C17", "part": "plugin", "seed": EnvSeed(), "cases": cases, "families": fam,
		"distribution": map[string]int{"transmit_queries": queries},
	})
	WriteJSON(t, filepath.Join(dir, "direct_plugin.json"), map[string]any{
		"evaluations": 0, "nontrivial_keys": []string{}, "violations": violations, "known": map[string]any{},
		"samples": []any{}, "distribution": map[string]int{"plugin_runs_each_in_its_own_bubble": len(cases)},
	})
}
