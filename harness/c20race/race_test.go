// Package c20race is compiled with -race (by TestC20Race in harness/c20, which runs this binary as a child process) and
// drives the simulator's shared components the way a run does, but faster and with more overlap than a 4-node
// simulation produces: blocks with logs in consecutive blocks fed to a real chain.Listener, the real ActiveTracker /
// PerformTracker / LogTriggerTracker following them, while another goroutine polls the real upkeep.Source as the
// plug-in's log flow, recovery flow and sampling flow do.  "Repository code in the run is free of data races": the
// race detector's report (if any) on repository frames is the observation.
package c20race

import (
	"context"
	"fmt"
	"io"
	"log"
	"math/big"
	"sync"
	"testing"
	"time"

	"github.com/smartcontractkit/chainlink-automation/tools/simulator/simulate/chain"
	"github.com/smartcontractkit/chainlink-automation/tools/simulator/simulate/upkeep"
	simutil "github.com/smartcontractkit/chainlink-automation/tools/simulator/util"
	common "github.com/smartcontractkit/chainlink-common/pkg/types/automation"
)

type feed struct{ ch chan chain.Block }

func (f *feed) Subscribe(bool) (int, chan chain.Block) { return 1, f.ch }
func (f *feed) Unsubscribe(int)                        {}

func h32(tag string, n int) (h [32]byte) {
	copy(h[:], fmt.Sprintf("%s-%d", tag, n))
	return
}

func TestC20RaceStress(t *testing.T) {
	lg := log.New(io.Discard, "", 0)
	for round := 0; round < 6; round++ {
		f := &feed{ch: make(chan chain.Block, 4)}
		lis := chain.NewListener(f, lg)
		active := upkeep.NewActiveTracker(lis, lg)
		performs := upkeep.NewPerformTracker(lis, lg)
		trig := upkeep.NewLogTriggerTracker(lis, active, performs, lg)
		src := upkeep.NewSource(active, trig, 100, lg)
		// block 1 creates the upkeeps
		b1 := chain.Block{Hash: h32("b", 1), Number: big.NewInt(1)}
		for u := 0; u < 24; u++ {
			up := chain.SimulatedUpkeep{ID: big.NewInt(int64(300 + u)), CreateInBlock: big.NewInt(1), UpkeepID: h32("u", u), Type: chain.LogTriggerType,
				AlwaysEligible: true, TriggeredBy: "ev", Expected: true}
			if u%4 == 0 {
				up.Type, up.TriggeredBy = chain.ConditionalType, ""
			}
			b1.Transactions = append(b1.Transactions, chain.UpkeepCreatedTransaction{Upkeep: up})
		}
		f.ch <- b1
		time.Sleep(5 * time.Millisecond)
		var wg sync.WaitGroup
		stop := make(chan struct{})
		for p := 0; p < 3; p++ { // the pollers: log flow, recovery flow, sampling flow
			wg.Add(1)
			go func(p int) {
				defer wg.Done()
				for {
					select {
					case <-stop:
						return
					default:
					}
					switch p {
					case 0:
						ps, _ := src.GetLatestPayloads(context.Background())
						for i := range ps {
							_ = ps[i].WorkID
						}
					case 1:
						_, _ = src.GetRecoveryProposals(context.Background())
					default:
						_, _ = src.GetActiveUpkeeps(context.Background())
						// what the check pipeline does with the perform history of an upkeep: walk it
						sum := int64(0)
						for _, blk := range performs.PerformsForUpkeepID(common.UpkeepIdentifier(h32("u", 0)).String()) {
							sum += blk.Int64()
						}
						_ = sum
						_ = performs.IsWorkIDPerformed("none")
					}
					time.Sleep(time.Duration(50+37*p) * time.Microsecond)
				}
			}(p)
		}
		for n := 2; n < 120; n++ {
			b := chain.Block{Hash: h32("b", n), Number: big.NewInt(int64(n))}
			if n%3 != 0 { // logs in consecutive blocks, well inside one poll interval
				b.Transactions = append(b.Transactions, chain.Log{TxHash: h32("tx", n), BlockNumber: big.NewInt(int64(n)), BlockHash: b.Hash, Idx: uint32(n), TriggerValue: "ev"})
			}
			if n%2 == 0 {
				// the same conditional upkeep performed again and again (more often than any shipped plan does)
				id := common.UpkeepIdentifier(h32("u", 0))
				trg := common.NewTrigger(common.BlockNumber(n), b.Hash)
				rep, _ := simutil.EncodeCheckResultsToReportBytes([]common.CheckResult{{UpkeepID: id, Trigger: trg, WorkID: simutil.UpkeepWorkID(id, trg), Eligible: true}})
				b.Transactions = append(b.Transactions, chain.PerformUpkeepTransaction{Transmits: []chain.TransmitEvent{{
					SendingAddress: "0x1", Report: rep, Hash: h32("rep", n), Round: uint64(n), BlockNumber: big.NewInt(int64(n)), BlockHash: b.Hash}}})
			}
			f.ch <- b
			time.Sleep(300 * time.Microsecond)
		}
		close(stop)
		wg.Wait()
		lis.VerifStop()
	}
}
