package c15

import (
	"bytes"
	"context"
	"crypto/sha256"
	"encoding/hex"
	"encoding/json"
	"fmt"
	"math/big"
	"os"
	"os/exec"
	"path/filepath"
	"sort"
	"strings"
	"testing"

	. "verifharness/h"

	ocr2keepers "github.com/smartcontractkit/chainlink-automation/pkg/v3"
	"github.com/smartcontractkit/libocr/offchainreporting2plus/ocr3types"
	ocr2plustypes "github.com/smartcontractkit/libocr/offchainreporting2plus/types"
	simutil "github.com/smartcontractkit/chainlink-automation/tools/simulator/util"
	common "github.com/smartcontractkit/chainlink-common/pkg/types/automation"
)

// ---------------------------------------------------------------- generator-form values
// (explicit and JSON-serialisable, so that a replay file reconstructs the exact input)

type extG struct {
	Tx    string `json:"tx"` // hex, 32 bytes
	Index uint32 `json:"index"`
	BHash string `json:"bhash"`
	BNum  uint64 `json:"bnum"`
}
type trigG struct {
	Num  uint64 `json:"num"`
	Hash string `json:"hash"`
	Ext  *extG  `json:"ext"`
}
type resG struct {
	State     uint8   `json:"state"`
	Retryable bool    `json:"retryable"`
	Eligible  bool    `json:"eligible"`
	Reason    uint8   `json:"reason"`
	Upk       string  `json:"upk"`
	Trig      trigG   `json:"trig"`
	Wid       string  `json:"wid"`
	Gas       uint64  `json:"gas"`
	PData     *string `json:"pdata"` // hex; nil = nil slice
	FGW       *string `json:"fgw"`   // decimal; nil = nil
	LN        *string `json:"ln"`
}
type propG struct {
	Upk  string `json:"upk"`
	Trig trigG  `json:"trig"`
	Wid  string `json:"wid"`
}
type bkG struct {
	Num  uint64 `json:"num"`
	Hash string `json:"hash"`
}
type obsG struct {
	Perf  []resG  `json:"perf"`
	Props []propG `json:"props"`
	Hist  []bkG   `json:"hist"`
}
type outG struct {
	Agreed   []resG    `json:"agreed"`
	Surfaced [][]propG `json:"surfaced"`
}

type observedG struct {
	Code    int    `json:"code"` // 0 accepted, 1..20 error kind, 99 other error
	Same    bool   `json:"same"`
	ErrText string `json:"errtext,omitempty"`
	Bytes   string `json:"bytes,omitempty"` // hex of Encode() (byte-level cases only)
}

type c15Case struct {
	Family    string `json:"family"`
	Kind      string `json:"kind"`  // "obs" | "out"
	Level     string `json:"level"` // "val" (interned ids, validation model) | "wire" (bytes)
	Mut       string `json:"mut"`   // which single rule was broken ("" = none)
	WidPrefix string `json:"wid_prefix"`
	// RawHex, if set, is decoded instead of Encode(value): a hand-written JSON text of the same
	// value (other key order, zero tails of byte arrays left out)
	RawHex   string    `json:"raw_hex,omitempty"`
	VObs     *obsG     `json:"vobs,omitempty"`
	VOut     *outG     `json:"vout,omitempty"`
	Observed observedG `json:"observed"`
}

// ---------------------------------------------------------------- conversions

func h32(s string) (out [32]byte) {
	b, _ := hex.DecodeString(s)
	copy(out[:], b)
	return
}
func x32(b [32]byte) string { return hex.EncodeToString(b[:]) }

func bigOf(s *string) *big.Int {
	if s == nil {
		return nil
	}
	v, ok := new(big.Int).SetString(*s, 10)
	if !ok {
		panic("bad big int " + *s)
	}
	return v
}
func strOfBig(v *big.Int) *string {
	if v == nil {
		return nil
	}
	s := v.String()
	return &s
}

func (t trigG) toGo() common.Trigger {
	tr := common.Trigger{BlockNumber: common.BlockNumber(t.Num), BlockHash: h32(t.Hash)}
	if t.Ext != nil {
		tr.LogTriggerExtension = &common.LogTriggerExtension{TxHash: h32(t.Ext.Tx), Index: t.Ext.Index,
			BlockHash: h32(t.Ext.BHash), BlockNumber: common.BlockNumber(t.Ext.BNum)}
	}
	return tr
}
func trigFromGo(t common.Trigger) trigG {
	g := trigG{Num: uint64(t.BlockNumber), Hash: x32(t.BlockHash)}
	if e := t.LogTriggerExtension; e != nil {
		g.Ext = &extG{Tx: x32(e.TxHash), Index: e.Index, BHash: x32(e.BlockHash), BNum: uint64(e.BlockNumber)}
	}
	return g
}
func (r resG) toGo() common.CheckResult {
	c := common.CheckResult{PipelineExecutionState: r.State, Retryable: r.Retryable, Eligible: r.Eligible,
		IneligibilityReason: r.Reason, UpkeepID: h32(r.Upk), Trigger: r.Trig.toGo(), WorkID: r.Wid, GasAllocated: r.Gas,
		FastGasWei: bigOf(r.FGW), LinkNative: bigOf(r.LN)}
	if r.PData != nil {
		b, _ := hex.DecodeString(*r.PData)
		if b == nil {
			b = []byte{}
		}
		c.PerformData = b
	}
	return c
}
func resFromGo(c common.CheckResult) resG {
	g := resG{State: c.PipelineExecutionState, Retryable: c.Retryable, Eligible: c.Eligible, Reason: c.IneligibilityReason,
		Upk: x32(c.UpkeepID), Trig: trigFromGo(c.Trigger), Wid: c.WorkID, Gas: c.GasAllocated,
		FGW: strOfBig(c.FastGasWei), LN: strOfBig(c.LinkNative)}
	if c.PerformData != nil {
		s := hex.EncodeToString(c.PerformData)
		g.PData = &s
	}
	return g
}
func (p propG) toGo() common.CoordinatedBlockProposal {
	return common.CoordinatedBlockProposal{UpkeepID: h32(p.Upk), Trigger: p.Trig.toGo(), WorkID: p.Wid}
}
func propFromGo(p common.CoordinatedBlockProposal) propG {
	return propG{Upk: x32(p.UpkeepID), Trig: trigFromGo(p.Trigger), Wid: p.WorkID}
}

func (o obsG) toGo() ocr2keepers.AutomationObservation {
	var a ocr2keepers.AutomationObservation
	if o.Perf != nil {
		a.Performable = make([]common.CheckResult, 0, len(o.Perf))
		for _, r := range o.Perf {
			a.Performable = append(a.Performable, r.toGo())
		}
	}
	if o.Props != nil {
		a.UpkeepProposals = make([]common.CoordinatedBlockProposal, 0, len(o.Props))
		for _, p := range o.Props {
			a.UpkeepProposals = append(a.UpkeepProposals, p.toGo())
		}
	}
	if o.Hist != nil {
		a.BlockHistory = make(common.BlockHistory, 0, len(o.Hist))
		for _, b := range o.Hist {
			a.BlockHistory = append(a.BlockHistory, common.BlockKey{Number: common.BlockNumber(b.Num), Hash: h32(b.Hash)})
		}
	}
	return a
}
func obsFromGo(a ocr2keepers.AutomationObservation) obsG {
	var o obsG
	if a.Performable != nil {
		o.Perf = []resG{}
		for _, r := range a.Performable {
			o.Perf = append(o.Perf, resFromGo(r))
		}
	}
	if a.UpkeepProposals != nil {
		o.Props = []propG{}
		for _, p := range a.UpkeepProposals {
			o.Props = append(o.Props, propFromGo(p))
		}
	}
	if a.BlockHistory != nil {
		o.Hist = []bkG{}
		for _, b := range a.BlockHistory {
			o.Hist = append(o.Hist, bkG{Num: uint64(b.Number), Hash: x32(b.Hash)})
		}
	}
	return o
}
func (o outG) toGo() ocr2keepers.AutomationOutcome {
	var a ocr2keepers.AutomationOutcome
	if o.Agreed != nil {
		a.AgreedPerformables = make([]common.CheckResult, 0, len(o.Agreed))
		for _, r := range o.Agreed {
			a.AgreedPerformables = append(a.AgreedPerformables, r.toGo())
		}
	}
	if o.Surfaced != nil {
		a.SurfacedProposals = make([][]common.CoordinatedBlockProposal, 0, len(o.Surfaced))
		for _, rd := range o.Surfaced {
			var g []common.CoordinatedBlockProposal
			if rd != nil {
				g = make([]common.CoordinatedBlockProposal, 0, len(rd))
				for _, p := range rd {
					g = append(g, p.toGo())
				}
			}
			a.SurfacedProposals = append(a.SurfacedProposals, g)
		}
	}
	return a
}
func outFromGo(a ocr2keepers.AutomationOutcome) outG {
	var o outG
	if a.AgreedPerformables != nil {
		o.Agreed = []resG{}
		for _, r := range a.AgreedPerformables {
			o.Agreed = append(o.Agreed, resFromGo(r))
		}
	}
	if a.SurfacedProposals != nil {
		o.Surfaced = [][]propG{}
		for _, rd := range a.SurfacedProposals {
			var g []propG
			if rd != nil {
				g = []propG{}
				for _, p := range rd {
					g = append(g, propFromGo(p))
				}
			}
			o.Surfaced = append(o.Surfaced, g)
		}
	}
	return o
}

// exact, field-by-field equality including nil-ness of slices and big integers (written out,
// not reflect.DeepEqual: big.Int has several representations of one value)
func eqBig(a, b *big.Int) bool {
	if a == nil || b == nil {
		return a == nil && b == nil
	}
	return a.Cmp(b) == 0
}
func eqTrig(a, b common.Trigger) bool {
	if a.BlockNumber != b.BlockNumber || a.BlockHash != b.BlockHash {
		return false
	}
	if (a.LogTriggerExtension == nil) != (b.LogTriggerExtension == nil) {
		return false
	}
	return a.LogTriggerExtension == nil || *a.LogTriggerExtension == *b.LogTriggerExtension
}
func eqRes(a, b common.CheckResult) bool {
	return a.PipelineExecutionState == b.PipelineExecutionState && a.Retryable == b.Retryable && a.Eligible == b.Eligible &&
		a.IneligibilityReason == b.IneligibilityReason && a.UpkeepID == b.UpkeepID && eqTrig(a.Trigger, b.Trigger) &&
		a.WorkID == b.WorkID && a.GasAllocated == b.GasAllocated && (a.PerformData == nil) == (b.PerformData == nil) &&
		bytes.Equal(a.PerformData, b.PerformData) && eqBig(a.FastGasWei, b.FastGasWei) && eqBig(a.LinkNative, b.LinkNative) &&
		a.RetryInterval == b.RetryInterval
}
func eqProp(a, b common.CoordinatedBlockProposal) bool {
	return a.UpkeepID == b.UpkeepID && eqTrig(a.Trigger, b.Trigger) && a.WorkID == b.WorkID
}
func eqResList(a, b []common.CheckResult) bool {
	if (a == nil) != (b == nil) || len(a) != len(b) {
		return false
	}
	for i := range a {
		if !eqRes(a[i], b[i]) {
			return false
		}
	}
	return true
}
func eqPropList(a, b []common.CoordinatedBlockProposal) bool {
	if (a == nil) != (b == nil) || len(a) != len(b) {
		return false
	}
	for i := range a {
		if !eqProp(a[i], b[i]) {
			return false
		}
	}
	return true
}
func eqObs(a, b ocr2keepers.AutomationObservation) bool {
	if !eqResList(a.Performable, b.Performable) || !eqPropList(a.UpkeepProposals, b.UpkeepProposals) {
		return false
	}
	if (a.BlockHistory == nil) != (b.BlockHistory == nil) || len(a.BlockHistory) != len(b.BlockHistory) {
		return false
	}
	for i := range a.BlockHistory {
		if a.BlockHistory[i] != b.BlockHistory[i] {
			return false
		}
	}
	return true
}
func eqOut(a, b ocr2keepers.AutomationOutcome) bool {
	if !eqResList(a.AgreedPerformables, b.AgreedPerformables) {
		return false
	}
	if (a.SurfacedProposals == nil) != (b.SurfacedProposals == nil) || len(a.SurfacedProposals) != len(b.SurfacedProposals) {
		return false
	}
	for i := range a.SurfacedProposals {
		if !eqPropList(a.SurfacedProposals[i], b.SurfacedProposals[i]) {
			return false
		}
	}
	return true
}

// ---------------------------------------------------------------- error kinds

var errKinds = []struct {
	sub  string
	code int
}{
	{"block history length cannot be greater", 1},
	{"block history cannot have duplicate block numbers", 2},
	{"performable length cannot be greater", 3},
	{"check result cannot have failed execution state", 4},
	{"check result cannot be ineligible", 5},
	{"log trigger extension cannot be present for condition upkeep", 6},
	{"log trigger extension cannot be empty for log upkeep", 7},
	{"incorrect workID within", 8},
	{"gas allocated cannot be zero", 9},
	{"fast gas wei must be present", 10},
	{"fast gas wei must be in uint256 range", 11},
	{"link native must be present", 12},
	{"link native must be in uint256 range", 13},
	{"performable cannot have duplicate workIDs", 14},
	{"conditional upkeep proposals length cannot be greater", 17},
	{"log upkeep proposals length cannot be greater", 18},
	{"upkeep proposals length cannot be greater", 15},
	{"proposals cannot have duplicate workIDs", 16},
	{"number of rounds for surfaced proposals cannot be greater", 19},
	{"number of surfaced proposals in a round cannot be greater", 20},
}

func errCode(err error) int {
	if err == nil {
		return 0
	}
	s := err.Error()
	for _, k := range errKinds {
		if strings.Contains(s, k.sub) {
			return k.code
		}
	}
	return 99
}

// ---------------------------------------------------------------- the real oracles

func wgFor(prefix string) func(common.UpkeepIdentifier, common.Trigger) string {
	if prefix == "" {
		return simutil.UpkeepWorkID
	}
	return func(u common.UpkeepIdentifier, t common.Trigger) string { return prefix + simutil.UpkeepWorkID(u, t) }
}

// ---------------------------------------------------------------- generation of valid values

type gen struct {
	r      *Rng
	prefix string
	nextU  int
	nextL  int
	wire   bool // byte-level case: keep things small
}

func (g *gen) wg(u string, t trigG) string {
	return wgFor(g.prefix)(h32(u), t.toGo())
}

// upkeep id of a kind: 0 condition, 1 log, 2 another type (no extension rule), 3 "old" id
// (bytes 4..14 not all zero: GetUpkeepType says condition)
func (g *gen) upk(kind int) string {
	g.nextU++
	switch kind {
	case 3:
		id := simutil.NewUpkeepID([]byte(fmt.Sprintf("old-%d", g.nextU)), 1)
		id[7] = 0x5a
		return x32(id)
	default:
		return x32(UpkeepID(uint8(kind), g.nextU))
	}
}

func (g *gen) hash(tag string) string {
	if g.r.Chance(1, 6) {
		var h [32]byte
		copy(h[:], g.r.Bytes(32)) // full-range bytes incl. 0 and 255
		if g.r.Bool() {
			h[0], h[31] = 255, 0
		}
		return x32(h)
	}
	return x32(Hash32(tag, g.r.Intn(50)))
}

func (g *gen) trig(withExt bool) trigG {
	t := trigG{Num: uint64(g.r.Intn(1000)), Hash: g.hash("blk")}
	if g.r.Chance(1, 10) {
		t.Num = ^uint64(0) - uint64(g.r.Intn(3))
	}
	if withExt {
		g.nextL++
		e := &extG{Tx: x32(Hash32("tx", g.nextL)), Index: uint32(g.r.Intn(5)), BHash: g.hash("lb"), BNum: uint64(g.r.Intn(1000))}
		if g.r.Chance(1, 10) {
			e.Index = ^uint32(0)
		}
		if g.r.Chance(1, 12) {
			// log data that is present but all zero: present is what the rules ask about, not non-zero
			e = &extG{Tx: x32([32]byte{}), BHash: x32([32]byte{})}
		}
		t.Ext = e
	}
	return t
}

var uint256Max = new(big.Int).Sub(new(big.Int).Lsh(big.NewInt(1), 256), big.NewInt(1))

func (g *gen) price() *string {
	var v *big.Int
	switch g.r.Intn(6) {
	case 0:
		v = big.NewInt(0)
	case 1:
		v = new(big.Int).Set(uint256Max)
	case 2:
		v = new(big.Int).SetBytes(g.r.Bytes(32))
	case 3:
		v = new(big.Int).SetUint64(g.r.U64())
	default:
		v = big.NewInt(int64(g.r.Intn(100000)))
	}
	return strOfBig(v)
}

func (g *gen) pdata() *string {
	switch g.r.Intn(6) {
	case 0:
		return nil
	case 1:
		s := ""
		return &s
	}
	n := g.r.Range(1, 9)
	if g.wire && g.r.Chance(1, 4) {
		n = g.r.Range(10, 40)
	}
	b := g.r.Bytes(n)
	if g.r.Chance(1, 4) {
		b[0] = 255
		b[len(b)-1] = 0
	}
	s := hex.EncodeToString(b)
	return &s
}

// kindOf picks an upkeep kind and whether the trigger carries an extension (always rule-abiding)
func (g *gen) kindExt() (int, bool) {
	switch g.r.Intn(10) {
	case 0, 1, 2:
		return 1, true
	case 3:
		return 2, g.r.Bool()
	case 4:
		return 3, false
	}
	return 0, false
}

func (g *gen) resOf(kind int, ext bool) resG {
	r := resG{Eligible: true, Upk: g.upk(kind), Trig: g.trig(ext), PData: g.pdata(), FGW: g.price(), LN: g.price()}
	switch g.r.Intn(6) {
	case 0:
		r.Gas = 1
	case 1:
		r.Gas = ^uint64(0)
	default:
		r.Gas = 1 + uint64(g.r.Intn(5_000_000))
	}
	r.Wid = g.wg(r.Upk, r.Trig)
	return r
}
func (g *gen) res() resG { k, e := g.kindExt(); return g.resOf(k, e) }

func (g *gen) propOf(kind int, ext bool) propG {
	p := propG{Upk: g.upk(kind), Trig: g.trig(ext)}
	p.Wid = g.wg(p.Upk, p.Trig)
	return p
}

// proposals respecting 5 conditional (kinds 0,3) / 5 log / 10 total
func (g *gen) props(n int) []propG {
	ps := []propG{}
	nc, nl := 0, 0
	for len(ps) < n {
		k, e := g.kindExt()
		switch {
		case (k == 0 || k == 3) && nc < 5:
			nc++
		case k == 1 && nl < 5:
			nl++
		case k == 2:
		default:
			if nc >= 5 && nl >= 5 {
				k, e = 2, false
			} else {
				continue
			}
		}
		ps = append(ps, g.propOf(k, e))
	}
	return ps
}

func (g *gen) hist(n int) []bkG {
	hs := []bkG{}
	start := uint64(g.r.Intn(1_000_000)) + uint64(n)
	for i := 0; i < n; i++ {
		hs = append(hs, bkG{Num: start - uint64(i), Hash: g.hash("bh")})
	}
	return hs
}

func (g *gen) obs(np, nq, nh int) obsG {
	o := obsG{Perf: []resG{}, Props: g.props(nq), Hist: g.hist(nh)}
	for i := 0; i < np; i++ {
		o.Perf = append(o.Perf, g.res())
	}
	// nil instead of empty, sometimes
	if np == 0 && g.r.Bool() {
		o.Perf = nil
	}
	if nq == 0 && g.r.Bool() {
		o.Props = nil
	}
	if nh == 0 && g.r.Bool() {
		o.Hist = nil
	}
	return o
}

func (g *gen) out(na int, rounds []int) outG {
	o := outG{Agreed: []resG{}, Surfaced: [][]propG{}}
	for i := 0; i < na; i++ {
		o.Agreed = append(o.Agreed, g.res())
	}
	for _, n := range rounds {
		rd := []propG{}
		for i := 0; i < n; i++ {
			k, e := g.kindExt()
			rd = append(rd, g.propOf(k, e))
		}
		if n == 0 && g.r.Bool() {
			rd = nil
		}
		o.Surfaced = append(o.Surfaced, rd)
	}
	if na == 0 && g.r.Bool() {
		o.Agreed = nil
	}
	if len(rounds) == 0 && g.r.Bool() {
		o.Surfaced = nil
	}
	return o
}

// ---------------------------------------------------------------- single-rule violations

func cloneObs(o obsG) obsG {
	b, _ := json.Marshal(o)
	var c obsG
	_ = json.Unmarshal(b, &c)
	return c
}
func cloneOut(o outG) outG {
	b, _ := json.Marshal(o)
	var c outG
	_ = json.Unmarshal(b, &c)
	return c
}

func sp(s string) *string { return &s }

// result mutators: each breaks exactly one rule of validateCheckResult on a result that is valid
// for the given generator (work ids are recomputed where the trigger changes, so that only the
// named rule is broken)
type resMut struct {
	name string
	f    func(g *gen, r *resG)
	make func(g *gen) resG // a valid result suitable for this mutation
}

func resMuts() []resMut {
	anyRes := func(g *gen) resG { return g.res() }
	over := new(big.Int).Add(uint256Max, big.NewInt(1)).String()
	return []resMut{
		{"state", func(g *gen, r *resG) { r.State = uint8(1 + g.r.Intn(255)) }, anyRes},
		{"retryable", func(g *gen, r *resG) { r.Retryable = true }, anyRes},
		{"ineligible", func(g *gen, r *resG) { r.Eligible = false }, anyRes},
		{"reason", func(g *gen, r *resG) { r.Reason = uint8(1 + g.r.Intn(255)) }, anyRes},
		{"ext-on-cond", func(g *gen, r *resG) {
			t := g.trig(true)
			r.Trig.Ext = t.Ext
			r.Wid = g.wg(r.Upk, r.Trig)
		}, func(g *gen) resG { return g.resOf([]int{0, 3}[g.r.Intn(2)], false) }},
		{"no-ext-on-log", func(g *gen, r *resG) { r.Trig.Ext = nil; r.Wid = g.wg(r.Upk, r.Trig) },
			func(g *gen) resG { return g.resOf(1, true) }},
		{"workid", func(g *gen, r *resG) {
			switch g.r.Intn(4) {
			case 3:
				// same hex digits, other letter case: a different string, hence a different unit of work
				if up := strings.ToUpper(r.Wid); up != r.Wid {
					r.Wid = up
					return
				}
				fallthrough
			case 0:
				r.Wid = r.Wid[:len(r.Wid)-1] + map[bool]string{true: "0", false: "1"}[r.Wid[len(r.Wid)-1] != '0']
			case 1:
				r.Wid = ""
			default:
				r.Wid = g.wg(g.upk(0), r.Trig)
			}
		}, anyRes},
		{"gas", func(g *gen, r *resG) { r.Gas = 0 }, anyRes},
		{"fgw-nil", func(g *gen, r *resG) { r.FGW = nil }, anyRes},
		{"fgw-neg", func(g *gen, r *resG) { r.FGW = sp([]string{"-1", "-" + over}[g.r.Intn(2)]) }, anyRes},
		{"fgw-over", func(g *gen, r *resG) { r.FGW = sp([]string{over, over + "000"}[g.r.Intn(2)]) }, anyRes},
		{"ln-nil", func(g *gen, r *resG) { r.LN = nil }, anyRes},
		{"ln-neg", func(g *gen, r *resG) { r.LN = sp([]string{"-1", "-" + over}[g.r.Intn(2)]) }, anyRes},
		{"ln-over", func(g *gen, r *resG) { r.LN = sp([]string{over, over + "000"}[g.r.Intn(2)]) }, anyRes},
	}
}

type propMut struct {
	name string
	f    func(g *gen, p *propG)
	make func(g *gen) propG
}

func propMuts() []propMut {
	return []propMut{
		{"prop-ext-on-cond", func(g *gen, p *propG) {
			t := g.trig(true)
			p.Trig.Ext = t.Ext
			p.Wid = g.wg(p.Upk, p.Trig)
		}, func(g *gen) propG { return g.propOf([]int{0, 3}[g.r.Intn(2)], false) }},
		{"prop-no-ext-on-log", func(g *gen, p *propG) { p.Trig.Ext = nil; p.Wid = g.wg(p.Upk, p.Trig) },
			func(g *gen) propG { return g.propOf(1, true) }},
		{"prop-workid", func(g *gen, p *propG) {
			if up := strings.ToUpper(p.Wid); up != p.Wid && g.r.Intn(3) == 0 {
				p.Wid = up
			} else if g.r.Bool() {
				p.Wid = g.wg(g.upk(0), p.Trig)
			} else {
				p.Wid = p.Wid + "0"
			}
		}, func(g *gen) propG { k, e := g.kindExt(); return g.propOf(k, e) }},
	}
}

// insertRes puts a result suitable for the mutation at a random position and returns its index
func insertRes(g *gen, l []resG, r resG) ([]resG, int) {
	i := g.r.Intn(len(l) + 1)
	l = append(l, resG{})
	copy(l[i+1:], l[i:])
	l[i] = r
	return l, i
}
func insertProp(g *gen, l []propG, p propG) ([]propG, int) {
	i := g.r.Intn(len(l) + 1)
	l = append(l, propG{})
	copy(l[i+1:], l[i:])
	l[i] = p
	return l, i
}

type named[T any] struct {
	name string
	v    T
}

// obsMutants returns every single-rule violation of a valid observation. big says whether the
// (large) limit mutants are wanted too.
func obsMutants(g *gen, base obsG, big bool) []named[obsG] {
	var ms []named[obsG]
	add := func(n string, o obsG) { ms = append(ms, named[obsG]{n, o}) }
	room := func(o obsG) bool { return len(o.Perf) < 100 }
	for _, m := range resMuts() {
		o := cloneObs(base)
		if !room(o) {
			o.Perf = o.Perf[:99]
		}
		var i int
		o.Perf, i = insertRes(g, o.Perf, m.make(g))
		m.f(g, &o.Perf[i])
		add(m.name, o)
	}
	{ // duplicate work id among performables (exact copy, or same unit of work seen at another block)
		o := cloneObs(base)
		if len(o.Perf) >= 99 {
			o.Perf = o.Perf[:98]
		}
		var i int
		o.Perf, i = insertRes(g, o.Perf, g.res())
		d := o.Perf[i]
		if g.r.Bool() {
			d.Trig.Num++
			d.Gas++
		}
		o.Perf, _ = insertRes(g, o.Perf, d)
		add("perf-dup", o)
	}
	for _, m := range propMuts() {
		o := cloneObs(base)
		// make room within the per-type limits: replace an existing proposal of the same kind if any
		p := m.make(g)
		kind := simutil.GetUpkeepType(h32(p.Upk))
		replaced := false
		for j := range o.Props {
			if simutil.GetUpkeepType(h32(o.Props[j].Upk)) == kind {
				o.Props[j] = p
				m.f(g, &o.Props[j])
				replaced = true
				break
			}
		}
		if !replaced {
			if len(o.Props) >= 10 {
				o.Props = o.Props[:9]
			}
			var i int
			o.Props, i = insertProp(g, o.Props, p)
			m.f(g, &o.Props[i])
		}
		add(m.name, o)
	}
	{ // duplicate proposal work id (keeps per-type counts within limits by replacing)
		o := cloneObs(base)
		if len(o.Props) == 0 {
			o.Props = []propG{g.propOf(2, false)}
		}
		src := o.Props[g.r.Intn(len(o.Props))]
		d := src
		if g.r.Bool() {
			d.Trig.Num++
		}
		kind := simutil.GetUpkeepType(h32(src.Upk))
		done := false
		for j := range o.Props {
			if o.Props[j].Wid != src.Wid && simutil.GetUpkeepType(h32(o.Props[j].Upk)) == kind {
				o.Props[j] = d
				done = true
				break
			}
		}
		if !done {
			// need one more of this kind: only possible if the type count stays <= 5 and total <= 10
			cnt := 0
			for _, q := range o.Props {
				if simutil.GetUpkeepType(h32(q.Upk)) == kind {
					cnt++
				}
			}
			if len(o.Props) >= 10 || (cnt >= 5 && kind <= 1) {
				// shrink: drop one of another kind, or restart with just the pair
				o.Props = []propG{src}
			}
			o.Props = append(o.Props, d)
		}
		add("prop-dup", o)
	}
	{ // duplicate block number (different hash or same)
		o := cloneObs(base)
		if len(o.Hist) >= 256 {
			o.Hist = o.Hist[:255]
		}
		if len(o.Hist) == 0 {
			o.Hist = g.hist(1)
		}
		d := o.Hist[g.r.Intn(len(o.Hist))]
		if g.r.Bool() {
			d.Hash = g.hash("dup")
		}
		i := g.r.Intn(len(o.Hist) + 1)
		o.Hist = append(o.Hist, bkG{})
		copy(o.Hist[i+1:], o.Hist[i:])
		o.Hist[i] = d
		add("hist-dup", o)
	}
	{ // 6 conditional proposals (total <= 10)
		o := cloneObs(base)
		o.Props = nil
		for i := 0; i < 6; i++ {
			o.Props = append(o.Props, g.propOf([]int{0, 3}[g.r.Intn(2)], false))
		}
		for i := 0; i < g.r.Intn(5); i++ {
			o.Props, _ = insertProp(g, o.Props, g.propOf(1+g.r.Intn(2), true))
		}
		add("cond-6", o)
	}
	{ // 6 log proposals
		o := cloneObs(base)
		o.Props = nil
		for i := 0; i < 6; i++ {
			o.Props = append(o.Props, g.propOf(1, true))
		}
		for i := 0; i < g.r.Intn(5); i++ {
			o.Props, _ = insertProp(g, o.Props, g.propOf([]int{0, 2, 3}[g.r.Intn(3)], false))
		}
		add("log-6", o)
	}
	{ // 11 proposals with at most 5 conditional and 5 log ones (the rest of another type)
		o := cloneObs(base)
		o.Props = nil
		nc, nl := g.r.Intn(6), g.r.Intn(6)
		for i := 0; i < nc; i++ {
			o.Props = append(o.Props, g.propOf(0, false))
		}
		for i := 0; i < nl; i++ {
			o.Props, _ = insertProp(g, o.Props, g.propOf(1, true))
		}
		for len(o.Props) < 11 {
			o.Props, _ = insertProp(g, o.Props, g.propOf(2, g.r.Bool()))
		}
		add("props-11", o)
	}
	if big {
		o := cloneObs(base)
		for len(o.Perf) < 101 {
			o.Perf = append(o.Perf, g.res())
		}
		add("perf-101", o)
		o = cloneObs(base)
		o.Hist = g.hist(257)
		add("hist-257", o)
	}
	return ms
}

func outMutants(g *gen, base outG, big bool) []named[outG] {
	var ms []named[outG]
	add := func(n string, o outG) { ms = append(ms, named[outG]{n, o}) }
	for _, m := range resMuts() {
		o := cloneOut(base)
		if len(o.Agreed) >= 100 {
			o.Agreed = o.Agreed[:99]
		}
		var i int
		o.Agreed, i = insertRes(g, o.Agreed, m.make(g))
		m.f(g, &o.Agreed[i])
		add(m.name, o)
	}
	{
		o := cloneOut(base)
		if len(o.Agreed) >= 99 {
			o.Agreed = o.Agreed[:98]
		}
		var i int
		o.Agreed, i = insertRes(g, o.Agreed, g.res())
		d := o.Agreed[i]
		if g.r.Bool() {
			d.Trig.Num++
		}
		o.Agreed, _ = insertRes(g, o.Agreed, d)
		add("agreed-dup", o)
	}
	pickRound := func(o *outG) int {
		if len(o.Surfaced) == 0 {
			o.Surfaced = [][]propG{{}}
		}
		j := g.r.Intn(len(o.Surfaced))
		if len(o.Surfaced[j]) >= 50 {
			o.Surfaced[j] = o.Surfaced[j][:49]
		}
		return j
	}
	for _, m := range propMuts() {
		o := cloneOut(base)
		j := pickRound(&o)
		var i int
		o.Surfaced[j], i = insertProp(g, o.Surfaced[j], m.make(g))
		m.f(g, &o.Surfaced[j][i])
		add(m.name, o)
	}
	{ // duplicate within one round
		o := cloneOut(base)
		j := pickRound(&o)
		if len(o.Surfaced[j]) >= 49 {
			o.Surfaced[j] = o.Surfaced[j][:48]
		}
		k, e := g.kindExt()
		p := g.propOf(k, e)
		o.Surfaced[j], _ = insertProp(g, o.Surfaced[j], p)
		o.Surfaced[j], _ = insertProp(g, o.Surfaced[j], p)
		add("round-dup", o)
	}
	{ // duplicate across two different rounds
		o := cloneOut(base)
		for len(o.Surfaced) < 2 {
			o.Surfaced = append(o.Surfaced, []propG{})
		}
		a := g.r.Intn(len(o.Surfaced))
		b := (a + 1 + g.r.Intn(len(o.Surfaced)-1)) % len(o.Surfaced)
		for _, j := range []int{a, b} {
			if len(o.Surfaced[j]) >= 50 {
				o.Surfaced[j] = o.Surfaced[j][:49]
			}
		}
		k, e := g.kindExt()
		p := g.propOf(k, e)
		q := p
		if g.r.Bool() {
			q.Trig.Num++ // same unit of work bound to another block
		}
		o.Surfaced[a], _ = insertProp(g, o.Surfaced[a], p)
		o.Surfaced[b], _ = insertProp(g, o.Surfaced[b], q)
		add("cross-round-dup", o)
	}
	{ // 21 rounds
		o := cloneOut(base)
		for len(o.Surfaced) < 21 {
			var rd []propG
			if g.r.Bool() {
				rd = []propG{}
			}
			i := g.r.Intn(len(o.Surfaced) + 1)
			o.Surfaced = append(o.Surfaced, nil)
			copy(o.Surfaced[i+1:], o.Surfaced[i:])
			o.Surfaced[i] = rd
		}
		add("rounds-21", o)
	}
	if big {
		o := cloneOut(base)
		for len(o.Agreed) < 101 {
			o.Agreed = append(o.Agreed, g.res())
		}
		add("agreed-101", o)
		o = cloneOut(base)
		j := pickRound(&o)
		for len(o.Surfaced[j]) < 51 {
			k, e := g.kindExt()
			o.Surfaced[j] = append(o.Surfaced[j], g.propOf(k, e))
		}
		add("round-51", o)
	}
	return ms
}

// ---------------------------------------------------------------- running the real code

// the last few values the decoders returned, with the values they have to equal: a decoded value belongs to the
// caller (Outcome keeps every observation's proposals while it decodes the next ones), so it must still equal its
// original after later decodes
type keptDecode struct {
	obsV, obsD *ocr2keepers.AutomationObservation
	outV, outD *ocr2keepers.AutomationOutcome
}

var kept []keptDecode

func keptStillEqual() bool {
	for _, k := range kept {
		if k.obsV != nil && !eqObs(*k.obsV, *k.obsD) {
			return false
		}
		if k.outV != nil && !eqOut(*k.outV, *k.outD) {
			return false
		}
	}
	return true
}

func keep(k keptDecode) {
	kept = append(kept, k)
	if len(kept) > 6 {
		kept = kept[1:]
	}
}

// validator: a plug-in instance that lives for the whole run.  ReportingPlugin.ValidateObservation is a function of the
// bytes it is handed: for one sequence number and one oracle (a round retried in a later epoch delivers other bytes
// under the same pair) its verdict must be the decoder's verdict on those bytes, whatever it was asked before.
var validator *Node

func validatorAgrees(b []byte, decodeErr error) (bool, string) {
	if validator == nil {
		return true, ""
	}
	verr := validator.Plugin.ValidateObservation(context.Background(), ocr3types.OutcomeContext{SeqNr: 7}, nil,
		ocr2plustypes.AttributedObservation{Observation: b, Observer: 2})
	if (verr == nil) != (decodeErr == nil) {
		return false, fmt.Sprintf("ValidateObservation says %v, the decoder says %v for the same bytes", verr, decodeErr)
	}
	return true, ""
}

// heldEnc: the bytes the last few Encode calls returned, with private copies.  What Encode hands out is the caller's
// (libocr keeps an observation while it is being sent): later Encode calls must leave it alone.
var heldEnc [][2][]byte

func holdEncoded(b []byte) {
	heldEnc = append(heldEnc, [2][]byte{b, append([]byte(nil), b...)})
	if len(heldEnc) > 4 {
		heldEnc = heldEnc[1:]
	}
}

func heldEncodedIntact() bool {
	for _, h := range heldEnc {
		if !bytes.Equal(h[0], h[1]) {
			return false
		}
	}
	return true
}

func runCase(c *c15Case) (encoded []byte) {
	wg := wgFor(c.WidPrefix)
	c.Observed = observedG{}
	defer func() {
		if encoded != nil {
			if !heldEncodedIntact() {
				c.Observed.Code, c.Observed.Same = 95, false
				c.Observed.ErrText = "bytes returned by an earlier Encode changed when this value was encoded"
				heldEnc = nil
			}
			holdEncoded(encoded)
		}
	}()
	defer func() {
		if c.Observed.Code == 0 && c.Observed.Same && !keptStillEqual() {
			c.Observed.Same = false
			c.Observed.ErrText = "a value returned by an earlier decode changed when this message was decoded"
			kept = nil
		}
	}()
	defer func() {
		if r := recover(); r != nil {
			c.Observed.Code = 98
			c.Observed.ErrText = fmt.Sprintf("PANIC: %v", r)
		}
	}()
	if c.Kind == "obs" {
		v := c.VObs.toGo()
		b, err := v.Encode()
		if err != nil {
			c.Observed.Code, c.Observed.ErrText = 97, err.Error()
			return nil
		}
		encoded = b
		if c.RawHex != "" {
			b, _ = hex.DecodeString(c.RawHex)
		}
		mark("obs", "case:"+c.Family+"/"+c.Mut, b)
		d, err := ocr2keepers.DecodeAutomationObservation(b, simutil.GetUpkeepType, wg)
		c.Observed.Code = errCode(err)
		if err != nil {
			c.Observed.ErrText = err.Error()
		} else {
			c.Observed.Same = eqObs(v, d)
			if c.Observed.Same {
				keep(keptDecode{obsV: &v, obsD: &d})
			}
			// what a decode returns belongs to its caller, and the answer depends on the arguments alone: a caller
			// that writes into its result, or one that decodes with another work-id generator, changes nothing
			// about the next decode of the same bytes
			if d2, err2 := ocr2keepers.DecodeAutomationObservation(b, simutil.GetUpkeepType, wg); err2 == nil {
				scribbleObs(&d2)
			}
			_, errO := ocr2keepers.DecodeAutomationObservation(b, simutil.GetUpkeepType, wgFor(c.WidPrefix+"zz"))
			if errO == nil && len(v.Performable)+len(v.UpkeepProposals) > 0 {
				c.Observed.Code, c.Observed.Same = 96, false
				c.Observed.ErrText = "accepted with another work-id generator, under which every work id is wrong"
			}
			if d3, err3 := ocr2keepers.DecodeAutomationObservation(b, simutil.GetUpkeepType, wg); c.Observed.Same && (err3 != nil || !eqObs(v, d3)) {
				c.Observed.Same = false
				c.Observed.ErrText = fmt.Sprint("decoding the same bytes again, after the earlier result was written to, gave another value: ", err3)
			}
		}
		if c.WidPrefix == "" { // the plug-in is built with the standard work-id generator
			if ok, why := validatorAgrees(b, err); !ok {
				// judged as the plug-in's answer: accepted (code 0) where the decoder refused, refused (96) where it accepted
				code := 96
				if err != nil {
					code = 0
				}
				c.Observed.Code, c.Observed.Same, c.Observed.ErrText = code, false, why
			}
		}
	} else {
		v := c.VOut.toGo()
		b, err := v.Encode()
		if err != nil {
			c.Observed.Code, c.Observed.ErrText = 97, err.Error()
			return nil
		}
		encoded = b
		if c.RawHex != "" {
			b, _ = hex.DecodeString(c.RawHex)
		}
		mark("out", "case:"+c.Family+"/"+c.Mut, b)
		d, err := ocr2keepers.DecodeAutomationOutcome(b, simutil.GetUpkeepType, wg)
		c.Observed.Code = errCode(err)
		if err != nil {
			c.Observed.ErrText = err.Error()
		} else {
			c.Observed.Same = eqOut(v, d)
			if c.Observed.Same {
				keep(keptDecode{outV: &v, outD: &d})
			}
			if d2, err2 := ocr2keepers.DecodeAutomationOutcome(b, simutil.GetUpkeepType, wg); err2 == nil {
				scribbleOut(&d2)
			}
			items := len(v.AgreedPerformables)
			for _, sp := range v.SurfacedProposals {
				items += len(sp)
			}
			_, errO := ocr2keepers.DecodeAutomationOutcome(b, simutil.GetUpkeepType, wgFor(c.WidPrefix+"zz"))
			if errO == nil && items > 0 {
				c.Observed.Code, c.Observed.Same = 96, false
				c.Observed.ErrText = "accepted with another work-id generator, under which every work id is wrong"
			}
			if d3, err3 := ocr2keepers.DecodeAutomationOutcome(b, simutil.GetUpkeepType, wg); c.Observed.Same && (err3 != nil || !eqOut(v, d3)) {
				c.Observed.Same = false
				c.Observed.ErrText = fmt.Sprint("decoding the same bytes again, after the earlier result was written to, gave another value: ", err3)
			}
		}
	}
	if c.Level == "wire" {
		c.Observed.Bytes = hex.EncodeToString(encoded)
	}
	return encoded
}

// scribbleObs / scribbleOut write into everything a decoded value points to, as a caller that owns it may
func scribbleRes(r *common.CheckResult) {
	r.GasAllocated, r.Eligible, r.WorkID = 0, false, ""
	for i := range r.PerformData {
		r.PerformData[i] ^= 0xff
	}
	if r.FastGasWei != nil {
		r.FastGasWei.SetInt64(-1)
	}
	if r.LinkNative != nil {
		r.LinkNative.SetInt64(-1)
	}
	if r.Trigger.LogTriggerExtension != nil {
		r.Trigger.LogTriggerExtension.Index++
	}
}
func scribbleProp(p *common.CoordinatedBlockProposal) {
	p.WorkID = ""
	if p.Trigger.LogTriggerExtension != nil {
		p.Trigger.LogTriggerExtension.Index++
	}
}
func scribbleObs(o *ocr2keepers.AutomationObservation) {
	for i := range o.Performable {
		scribbleRes(&o.Performable[i])
	}
	for i := range o.UpkeepProposals {
		scribbleProp(&o.UpkeepProposals[i])
	}
	for i := range o.BlockHistory {
		o.BlockHistory[i].Number++
	}
}
func scribbleOut(o *ocr2keepers.AutomationOutcome) {
	for i := range o.AgreedPerformables {
		scribbleRes(&o.AgreedPerformables[i])
	}
	for i := range o.SurfacedProposals {
		for j := range o.SurfacedProposals[i] {
			scribbleProp(&o.SurfacedProposals[i][j])
		}
	}
}

// ---------------------------------------------------------------- Gallina emission

// intern numbers keys 1,2,... in first-seen order and remembers them
type intern struct {
	m    map[string]int
	keys []string
}

func (in *intern) ID(k string) int {
	if v, ok := in.m[k]; ok {
		return v
	}
	in.keys = append(in.keys, k)
	in.m[k] = len(in.keys)
	return len(in.keys)
}

type tables struct {
	ids  *intern // 32-byte ids / hashes (hex) and work ids ("w:"+string): one numbering
	utg  map[int]int
	wgk  []string // keys in first-seen order
	wgv  map[string]int
	pref string
	bad  int // wg depended on a field outside the table key
}

func newTables(prefix string) *tables {
	return &tables{ids: &intern{m: map[string]int{}}, utg: map[int]int{}, wgv: map[string]int{}, pref: prefix}
}
func (t *tables) id(hexs string) int { return t.ids.ID("h:" + hexs) }
func (t *tables) wid(s string) int   { return t.ids.ID("w:" + s) }

func (t *tables) noteUpkTrig(upk string, tr trigG) {
	u := t.id(upk)
	t.utg[u] = int(simutil.GetUpkeepType(h32(upk)))
	key := fmt.Sprintf("(%d%%N, None)", u)
	if tr.Ext != nil {
		key = fmt.Sprintf("(%d%%N, Some (%d%%N, %d%%N, %d%%N))", u, t.id(tr.Ext.Tx), tr.Ext.Index, t.id(tr.Ext.BHash))
	}
	real := wgFor(t.pref)(h32(upk), tr.toGo())
	if _, ok := t.wgv[key]; !ok {
		t.wgk = append(t.wgk, key)
		t.wgv[key] = t.wid(real)
		// the table key leaves out the check block, its hash and the log's block number:
		// make sure the real generator ignores them
		alt := tr
		alt.Num, alt.Hash = tr.Num+1, x32(Hash32("other", 1))
		if tr.Ext != nil {
			e := *tr.Ext
			e.BNum++
			alt.Ext = &e
		}
		if wgFor(t.pref)(h32(upk), alt.toGo()) != real {
			t.bad++
		}
	}
}

func (t *tables) trig(tr trigG) string {
	ext := "None"
	if tr.Ext != nil {
		ext = fmt.Sprintf("(Some (mkExt %d %d %d %d))", t.id(tr.Ext.Tx), tr.Ext.Index, t.id(tr.Ext.BHash), tr.Ext.BNum)
	}
	return fmt.Sprintf("(mkTrig %d %d %s)", tr.Num, t.id(tr.Hash), ext)
}
func coqOptZ(s *string) string {
	if s == nil {
		return "None"
	}
	return "(Some (" + *s + ")%Z)"
}
func coqBytes(b []byte) string {
	var sb strings.Builder
	sb.WriteString("[")
	for i, x := range b {
		if i > 0 {
			sb.WriteString(";")
		}
		fmt.Fprintf(&sb, "%d", x)
	}
	sb.WriteString("]")
	return sb.String()
}
func hexBytes(s string) []byte { b, _ := hex.DecodeString(s); return b }

func (t *tables) res(r resG) string {
	t.noteUpkTrig(r.Upk, r.Trig)
	pd := "[]"
	if r.PData != nil {
		pd = coqBytes(hexBytes(*r.PData))
	}
	return fmt.Sprintf("mkRes %d %s %s %d %d %s %d %d %s %s %s", r.State, CoqBool(r.Retryable), CoqBool(r.Eligible), r.Reason,
		t.id(r.Upk), t.trig(r.Trig), t.wid(r.Wid), r.Gas, pd, coqOptZ(r.FGW), coqOptZ(r.LN))
}
func (t *tables) prop(p propG) string {
	t.noteUpkTrig(p.Upk, p.Trig)
	return fmt.Sprintf("mkProp %d %s %d", t.id(p.Upk), t.trig(p.Trig), t.wid(p.Wid))
}
func (t *tables) utgTab() string {
	ks := make([]int, 0, len(t.utg))
	for k := range t.utg {
		ks = append(ks, k)
	}
	sort.Ints(ks)
	return CoqList(ks, func(k int) string { return fmt.Sprintf("(%d,%d)", k, t.utg[k]) })
}
func (t *tables) wgTab() string {
	return CoqList(t.wgk, func(k string) string { return fmt.Sprintf("(%s,%d)", k, t.wgv[k]) })
}

func valTermObs(c c15Case, bad *int) string {
	t := newTables(c.WidPrefix)
	o := c.VObs
	val := fmt.Sprintf("(mkObs %s %s %s)", CoqList(o.Perf, t.res), CoqList(o.Props, t.prop),
		CoqList(o.Hist, func(b bkG) string { return fmt.Sprintf("mkBK %d %d", b.Num, t.id(b.Hash)) }))
	*bad += t.bad
	return fmt.Sprintf("mkVO %s %s %s %d %s", t.utgTab(), t.wgTab(), val, c.Observed.Code, CoqBool(c.Observed.Same))
}
func valTermOut(c c15Case, bad *int) string {
	t := newTables(c.WidPrefix)
	o := c.VOut
	val := fmt.Sprintf("(mkOut %s %s)", CoqList(o.Agreed, t.res),
		CoqList(o.Surfaced, func(rd []propG) string { return CoqList(rd, t.prop) }))
	*bad += t.bad
	return fmt.Sprintf("mkVC %s %s %s %d %s", t.utgTab(), t.wgTab(), val, c.Observed.Code, CoqBool(c.Observed.Same))
}

// wire-level terms: real bytes everywhere
func wTrig(tr trigG) string {
	ext := "None"
	if tr.Ext != nil {
		ext = fmt.Sprintf("(Some (mkWExt %s %d %s %d))", coqBytes(hexBytes(tr.Ext.Tx)), tr.Ext.Index, coqBytes(hexBytes(tr.Ext.BHash)), tr.Ext.BNum)
	}
	return fmt.Sprintf("(mkWTrig %d %s %s)", tr.Num, coqBytes(hexBytes(tr.Hash)), ext)
}
func wRes(r resG) string {
	pd := "None"
	if r.PData != nil {
		pd = "(Some " + coqBytes(hexBytes(*r.PData)) + ")"
	}
	return fmt.Sprintf("mkWRes %d %s %s %d %s %s %s %d %s %s %s", r.State, CoqBool(r.Retryable), CoqBool(r.Eligible), r.Reason,
		coqBytes(hexBytes(r.Upk)), wTrig(r.Trig), coqBytes([]byte(r.Wid)), r.Gas, pd, coqOptZ(r.FGW), coqOptZ(r.LN))
}
func wProp(p propG) string {
	return fmt.Sprintf("mkWProp %s %s %s", coqBytes(hexBytes(p.Upk)), wTrig(p.Trig), coqBytes([]byte(p.Wid)))
}
func coqOptList[T any](l []T, f func(T) string) string {
	if l == nil {
		return "None"
	}
	return "(Some " + CoqList(l, f) + ")"
}
func (t *tables) idTab() string {
	// every interned key with its bytes
	var sb strings.Builder
	sb.WriteString("[")
	for i, k := range t.ids.keys {
		if i > 0 {
			sb.WriteString("; ")
		}
		var b []byte
		if strings.HasPrefix(k, "h:") {
			b = hexBytes(k[2:])
		} else {
			b = []byte(k[2:])
		}
		fmt.Fprintf(&sb, "(%s,%d)", coqBytes(b), i+1)
	}
	sb.WriteString("]")
	return sb.String()
}

func newWireTables(prefix string) *tables { return newTables(prefix) }

func (t *tables) see(k string) { t.ids.ID(k) }
func (t *tables) seeTrig(upk string, tr trigG) {
	t.see("h:" + upk)
	t.see("h:" + tr.Hash)
	if tr.Ext != nil {
		t.see("h:" + tr.Ext.Tx)
		t.see("h:" + tr.Ext.BHash)
	}
	t.see("w:" + wgFor(t.pref)(h32(upk), tr.toGo()))
	t.noteUpkTrig(upk, tr)
}

func wireTermObs(c c15Case, enc []byte, bad *int) string {
	t := newWireTables(c.WidPrefix)
	o := c.VObs
	for _, r := range o.Perf {
		t.seeTrig(r.Upk, r.Trig)
		t.see("w:" + r.Wid)
	}
	for _, p := range o.Props {
		t.seeTrig(p.Upk, p.Trig)
		t.see("w:" + p.Wid)
	}
	for _, b := range o.Hist {
		t.see("h:" + b.Hash)
	}
	val := fmt.Sprintf("(mkWObs %s %s %s)", coqOptList(o.Perf, wRes), coqOptList(o.Props, wProp),
		coqOptList(o.Hist, func(b bkG) string { return fmt.Sprintf("mkWBK %d %s", b.Num, coqBytes(hexBytes(b.Hash))) }))
	*bad += t.bad
	return fmt.Sprintf("mkWO %s %s %s %s %s %d %s", val, coqBytes(enc), t.idTab(), t.utgTab(), t.wgTab(), c.Observed.Code, CoqBool(c.Observed.Same))
}
func wireTermOut(c c15Case, enc []byte, bad *int) string {
	t := newWireTables(c.WidPrefix)
	o := c.VOut
	for _, r := range o.Agreed {
		t.seeTrig(r.Upk, r.Trig)
		t.see("w:" + r.Wid)
	}
	for _, rd := range o.Surfaced {
		for _, p := range rd {
			t.seeTrig(p.Upk, p.Trig)
			t.see("w:" + p.Wid)
		}
	}
	val := fmt.Sprintf("(mkWOut %s %s)", coqOptList(o.Agreed, wRes),
		coqOptList(o.Surfaced, func(rd []propG) string { return coqOptList(rd, wProp) }))
	*bad += t.bad
	return fmt.Sprintf("mkWC %s %s %s %s %s %d %s", val, coqBytes(enc), t.idTab(), t.utgTab(), t.wgTab(), c.Observed.Code, CoqBool(c.Observed.Same))
}

// ---------------------------------------------------------------- case lists

// all 128 ASCII characters in 8 prefixes of 16: work ids with every escape class
func asciiPrefix(k int) string {
	b := make([]byte, 16)
	for i := range b {
		b[i] = byte((k%8)*16 + i)
	}
	return string(b)
}

func boundaryCases(r *Rng) []c15Case {
	var cs []c15Case
	addObs := func(fam string, level string, g *gen, o obsG, muts bool, big bool) {
		cs = append(cs, c15Case{Family: fam, Kind: "obs", Level: level, WidPrefix: g.prefix, VObs: &o})
		if muts {
			for _, m := range obsMutants(g, o, big) {
				v := m.v
				cs = append(cs, c15Case{Family: fam, Kind: "obs", Level: level, Mut: m.name, WidPrefix: g.prefix, VObs: &v})
			}
		}
	}
	addOut := func(fam string, level string, g *gen, o outG, muts bool, big bool) {
		cs = append(cs, c15Case{Family: fam, Kind: "out", Level: level, WidPrefix: g.prefix, VOut: &o})
		if muts {
			for _, m := range outMutants(g, o, big) {
				v := m.v
				cs = append(cs, c15Case{Family: fam, Kind: "out", Level: level, Mut: m.name, WidPrefix: g.prefix, VOut: &v})
			}
		}
	}
	// validation level
	g := &gen{r: r}
	addObs("empty", "val", g, obsG{}, true, true)
	addObs("empty-non-nil", "val", g, obsG{Perf: []resG{}, Props: []propG{}, Hist: []bkG{}}, false, false)
	addObs("small", "val", g, g.obs(3, 4, 5), true, true)
	// exactly at every limit: accepted
	{
		o := g.obs(100, 0, 256)
		o.Props = nil
		for i := 0; i < 5; i++ {
			o.Props = append(o.Props, g.propOf([]int{0, 3}[i%2], false))
		}
		for i := 0; i < 5; i++ {
			o.Props = append(o.Props, g.propOf(1, true))
		}
		addObs("at-limits", "val", g, o, false, false)
		// one more of each, separately
		p := cloneObs(o)
		p.Perf = append(p.Perf, g.res())
		addObs("at-limits", "val", g, p, false, false)
		cs[len(cs)-1].Mut = "perf-101"
		p = cloneObs(o)
		p.Hist = g.hist(257)
		addObs("at-limits", "val", g, p, false, false)
		cs[len(cs)-1].Mut = "hist-257"
		p = cloneObs(o)
		p.Props = append(p.Props, g.propOf(2, false))
		addObs("at-limits", "val", g, p, false, false)
		cs[len(cs)-1].Mut = "props-11"
	}
	// 10 proposals of a third type, 5+5 of the two known ones: all fine
	{
		o := g.obs(0, 0, 0)
		o.Props = nil
		for i := 0; i < 10; i++ {
			o.Props = append(o.Props, g.propOf(2, i%2 == 0))
		}
		addObs("ten-other-type", "val", g, o, false, false)
	}
	// price and gas boundaries
	{
		o := g.obs(0, 0, 1)
		for _, fg := range []string{"0", uint256Max.String()} {
			for _, ln := range []string{"0", uint256Max.String()} {
				r := g.res()
				r.FGW, r.LN = sp(fg), sp(ln)
				o.Perf = append(o.Perf, r)
			}
		}
		o.Perf[0].Gas = 1
		o.Perf[1].Gas = ^uint64(0)
		addObs("price-gas-boundaries", "val", g, o, true, false)
	}
	// same work id in performables and proposals: allowed (separate maps)
	{
		o := g.obs(2, 0, 2)
		o.Props = []propG{{Upk: o.Perf[0].Upk, Trig: o.Perf[0].Trig, Wid: o.Perf[0].Wid}}
		addObs("same-wid-perf-and-prop", "val", g, o, false, false)
	}
	// outcomes
	addOut("empty", "val", g, outG{}, true, true)
	addOut("small", "val", g, g.out(3, []int{2, 0, 3}), true, true)
	{
		rounds := make([]int, 20)
		rounds[3] = 50
		rounds[19] = 2
		o := g.out(100, rounds)
		addOut("at-limits", "val", g, o, false, false)
		p := cloneOut(o)
		p.Agreed = append(p.Agreed, g.res())
		addOut("at-limits", "val", g, p, false, false)
		cs[len(cs)-1].Mut = "agreed-101"
		p = cloneOut(o)
		p.Surfaced = append(p.Surfaced, []propG{})
		addOut("at-limits", "val", g, p, false, false)
		cs[len(cs)-1].Mut = "rounds-21"
		p = cloneOut(o)
		k, e := g.kindExt()
		p.Surfaced[3] = append(p.Surfaced[3], g.propOf(k, e))
		addOut("at-limits", "val", g, p, false, false)
		cs[len(cs)-1].Mut = "round-51"
		// the same work id in agreed performables and in a surfaced round: allowed
		p = cloneOut(o)
		p.Surfaced[0] = []propG{{Upk: p.Agreed[0].Upk, Trig: p.Agreed[0].Trig, Wid: p.Agreed[0].Wid}}
		addOut("same-wid-agreed-and-surfaced", "val", g, p, false, false)
	}
	// byte level
	gw := &gen{r: r, wire: true}
	addObs("w-empty", "wire", gw, obsG{}, false, false)
	addObs("w-empty-non-nil", "wire", gw, obsG{Perf: []resG{}, Props: []propG{}, Hist: []bkG{}}, false, false)
	addOut("w-empty", "wire", gw, outG{}, false, false)
	addOut("w-nil-and-empty-rounds", "wire", gw, outG{Agreed: []resG{}, Surfaced: [][]propG{nil, {}, nil}}, false, false)
	{
		o := gw.obs(2, 2, 2)
		addObs("w-small", "wire", gw, o, false, false)
		// the encodings that differ in shape: nil / negative / huge prices, nil / empty perform data, extension on/off
		for _, name := range []string{"fgw-nil", "fgw-neg", "fgw-over", "ln-nil", "ln-neg", "ln-over", "ext-on-cond", "no-ext-on-log", "state", "retryable", "ineligible", "reason", "gas", "workid"} {
			for _, m := range resMuts() {
				if m.name == name {
					p := cloneObs(o)
					var i int
					p.Perf, i = insertRes(gw, p.Perf, m.make(gw))
					m.f(gw, &p.Perf[i])
					cs = append(cs, c15Case{Family: "w-small", Kind: "obs", Level: "wire", Mut: name, VObs: &p})
				}
			}
		}
	}
	// perform data of every length mod 3, all byte values
	{
		o := gw.obs(0, 0, 0)
		o.Perf = []resG{}
		all := make([]byte, 256)
		for i := range all {
			all[i] = byte(i)
		}
		for _, b := range [][]byte{{}, {0}, {255}, {0, 0}, {255, 255}, {251, 239, 190}, {1, 2, 3, 4}, all, all[:255], all[1:255]} {
			r := gw.resOf(0, false)
			r.PData = sp(hex.EncodeToString(b))
			o.Perf = append(o.Perf, r)
		}
		r := gw.resOf(0, false)
		r.PData = nil
		o.Perf = append(o.Perf, r)
		addObs("w-perform-data", "wire", gw, o, false, false)
	}
	// work ids over every ASCII character (both string escapers), via a wrapped generator
	for k := 0; k < 8; k++ {
		gp := &gen{r: r, wire: true, prefix: asciiPrefix(k)}
		addObs("w-ascii-workid", "wire", gp, gp.obs(1, 1, 0), false, false)
	}
	{
		gp := &gen{r: r, wire: true, prefix: asciiPrefix(3)}
		addOut("w-ascii-workid", "wire", gp, gp.out(1, []int{1}), false, false)
	}
	// numbers at the edges of their Go types
	{
		o := gw.obs(0, 0, 0)
		r1 := gw.resOf(1, true)
		r1.Trig.Num, r1.Trig.Ext.BNum, r1.Trig.Ext.Index, r1.Gas = ^uint64(0), ^uint64(0), ^uint32(0), ^uint64(0)
		r1.FGW, r1.LN = sp(uint256Max.String()), sp("0")
		r1.Wid = gw.wg(r1.Upk, r1.Trig)
		o.Perf = []resG{r1}
		o.Hist = []bkG{{Num: ^uint64(0), Hash: x32([32]byte{255, 255, 255})}, {Num: 0, Hash: x32([32]byte{})}}
		addObs("w-number-edges", "wire", gw, o, false, false)
	}
	return cs
}

// ---- hand-written JSON of proposals / block keys: members in another order, zero tails of the
// byte arrays left out (a shorter JSON array leaves the rest of a Go array zero)

func rawArr(hexs string, trim bool) string {
	b := hexBytes(hexs)
	if trim {
		for len(b) > 0 && b[len(b)-1] == 0 {
			b = b[:len(b)-1]
		}
	}
	parts := make([]string, len(b))
	for i, x := range b {
		parts[i] = fmt.Sprint(x)
	}
	return "[" + strings.Join(parts, ",") + "]"
}

// order: a permutation code; trim: leave out zero tails
func rawExt(e *extG, order int, trim bool) string {
	if e == nil {
		return "null"
	}
	m := []string{`"TxHash":` + rawArr(e.Tx, trim), fmt.Sprintf(`"Index":%d`, e.Index), `"BlockHash":` + rawArr(e.BHash, trim), fmt.Sprintf(`"BlockNumber":%d`, e.BNum)}
	switch order {
	case 1:
		m = []string{m[1], m[3], m[2], m[0]} // TxHash after Index, BlockHash after BlockNumber
	case 2:
		m = []string{m[3], m[2], m[1], m[0]}
	}
	return "{" + strings.Join(m, ",") + "}"
}
func rawTrig(t trigG, order int, trim bool) string {
	m := []string{fmt.Sprintf(`"BlockNumber":%d`, t.Num), `"BlockHash":` + rawArr(t.Hash, trim), `"LogTriggerExtension":` + rawExt(t.Ext, order, trim)}
	if order != 0 {
		m = []string{m[2], m[0], m[1]} // extension before the block hash
	}
	return "{" + strings.Join(m, ",") + "}"
}
func rawProp(p propG, order int, trim bool) string {
	q, _ := json.Marshal(p.Wid)
	m := []string{`"UpkeepID":` + rawArr(p.Upk, trim), `"Trigger":` + rawTrig(p.Trig, order, trim), `"WorkID":` + string(q)}
	if order != 0 {
		m = []string{m[1], m[2], m[0]} // upkeep id after the trigger
	}
	return "{" + strings.Join(m, ",") + "}"
}
func rawProps(ps []propG, order int, trim bool) string {
	if ps == nil {
		return "null"
	}
	parts := make([]string, len(ps))
	for i, p := range ps {
		parts[i] = rawProp(p, order, trim)
	}
	return "[" + strings.Join(parts, ",") + "]"
}
func rawObs(o obsG, order int, trim bool) string {
	hist := "null"
	if o.Hist != nil {
		parts := make([]string, len(o.Hist))
		for i, b := range o.Hist {
			parts[i] = fmt.Sprintf(`{"Number":%d,"Hash":%s}`, b.Num, rawArr(b.Hash, trim))
			if order != 0 {
				parts[i] = fmt.Sprintf(`{"Hash":%s,"Number":%d}`, rawArr(b.Hash, trim), b.Num)
			}
		}
		hist = "[" + strings.Join(parts, ",") + "]"
	}
	return `{"Performable":null,"UpkeepProposals":` + rawProps(o.Props, order, trim) + `,"BlockHistory":` + hist + `}`
}
func rawOut(o outG, order int, trim bool) string {
	sp := "null"
	if o.Surfaced != nil {
		parts := make([]string, len(o.Surfaced))
		for i, rd := range o.Surfaced {
			parts[i] = rawProps(rd, order, trim)
		}
		sp = "[" + strings.Join(parts, ",") + "]"
	}
	return `{"AgreedPerformables":null,"SurfacedProposals":` + sp + `}`
}

// zeroTail keeps the first n bytes of a hash
func zeroTail(hexs string, n int) string {
	b := hexBytes(hexs)
	for i := n; i < len(b); i++ {
		b[i] = 0
	}
	return hex.EncodeToString(b)
}

// reorderedCases: valid values whose hashes end in zeros, written by hand with the zero tails
// left out and the members in another order.  They meet every rule, so the decoder has to accept
// them and return exactly the value.
func reorderedCases(r *Rng) []c15Case {
	var cs []c15Case
	g := &gen{r: r}
	mk := func(keep int) []propG {
		var ps []propG
		for _, k := range []int{1, 0, 2, 1} {
			p := g.propOf(k, k == 1)
			p.Trig.Num = 1 + uint64(r.Intn(1000))
			p.Trig.Hash = zeroTail(p.Trig.Hash, keep)
			if p.Trig.Ext != nil {
				p.Trig.Ext.Tx = zeroTail(p.Trig.Ext.Tx, keep)
				p.Trig.Ext.BHash = zeroTail(p.Trig.Ext.BHash, keep)
				p.Trig.Ext.Index = 1 + uint32(r.Intn(1000))
				p.Trig.Ext.BNum = 1 + uint64(r.Intn(1000))
			}
			p.Wid = g.wg(p.Upk, p.Trig)
			ps = append(ps, p)
		}
		return ps
	}
	for _, keep := range []int{0, 1, 31, 32} {
		for _, order := range []int{0, 1, 2} {
			for _, trim := range []bool{false, true} {
				if !trim && order == 0 {
					continue // that is the ordinary encoding
				}
				fam := fmt.Sprintf("handwritten-json/order%d/trim=%v/keep%d", order, trim, keep)
				o := obsG{Props: mk(keep), Hist: []bkG{{Num: 7, Hash: zeroTail(g.hash("bh"), keep)}, {Num: 6, Hash: zeroTail(g.hash("bh"), keep)}}}
				cs = append(cs, c15Case{Family: fam, Kind: "obs", Level: "val", VObs: &o, RawHex: hex.EncodeToString([]byte(rawObs(o, order, trim)))})
				u := outG{Surfaced: [][]propG{mk(keep), {}, mk(keep)}}
				cs = append(cs, c15Case{Family: fam, Kind: "out", Level: "val", VOut: &u, RawHex: hex.EncodeToString([]byte(rawOut(u, order, trim)))})
			}
		}
	}
	// array elements with every member absent, decoded right after valid messages: an absent member is the zero value
	// whatever was decoded before (the decoder is a function of the bytes alone); a proposal with an empty work id is
	// rejected
	zero := x32([32]byte{})
	for rep := 0; rep < 4; rep++ {
		zp := propG{Upk: zero, Trig: trigG{Hash: zero}}
		o := obsG{Props: []propG{zp}, Hist: []bkG{{Hash: zero}}}
		cs = append(cs, c15Case{Family: "absent-members-after-valid-decodes", Kind: "obs", Level: "val", Mut: "workid", VObs: &o,
			RawHex: hex.EncodeToString([]byte(`{"Performable":[],"UpkeepProposals":[{}],"BlockHistory":[{}]}`))})
		u := outG{Surfaced: [][]propG{{zp}}}
		cs = append(cs, c15Case{Family: "absent-members-after-valid-decodes", Kind: "out", Level: "val", Mut: "workid", VOut: &u,
			RawHex: hex.EncodeToString([]byte(`{"AgreedPerformables":[],"SurfacedProposals":[[{}]]}`))})
		o2 := obsG{Hist: []bkG{{Num: 7, Hash: zero}, {Hash: zero}}}
		cs = append(cs, c15Case{Family: "absent-members-after-valid-decodes", Kind: "obs", Level: "val", VObs: &o2,
			RawHex: hex.EncodeToString([]byte(`{"BlockHistory":[{"Number":7},{}]}`))})
		ov := obsG{Props: mk(32), Hist: []bkG{{Num: 9, Hash: g.hash("bh")}, {Num: 8, Hash: g.hash("bh")}}}
		cs = append(cs, c15Case{Family: "absent-members-after-valid-decodes", Kind: "obs", Level: "val", VObs: &ov, RawHex: hex.EncodeToString([]byte(rawObs(ov, 0, false)))})
	}
	return cs
}

func randomCases(r *Rng, n int) []c15Case {
	var cs []c15Case
	for i := 0; i < n; i++ {
		g := &gen{r: r}
		big := i%4 == 0
		if i%2 == 0 {
			o := g.obs([]int{0, 1, 2, 3, 5, 8}[r.Intn(6)], r.Intn(8), []int{0, 1, 3, 6}[r.Intn(4)])
			cs = append(cs, c15Case{Family: "random", Kind: "obs", Level: "val", VObs: &o})
			for _, m := range obsMutants(g, o, big) {
				v := m.v
				cs = append(cs, c15Case{Family: "random", Kind: "obs", Level: "val", Mut: m.name, VObs: &v})
			}
		} else {
			nr := r.Intn(5)
			rounds := make([]int, nr)
			for j := range rounds {
				rounds[j] = r.Intn(5)
			}
			o := g.out([]int{0, 1, 2, 3, 5, 8}[r.Intn(6)], rounds)
			cs = append(cs, c15Case{Family: "random", Kind: "out", Level: "val", VOut: &o})
			for _, m := range outMutants(g, o, big) {
				v := m.v
				cs = append(cs, c15Case{Family: "random", Kind: "out", Level: "val", Mut: m.name, VOut: &v})
			}
		}
	}
	// byte-level random values, each with one randomly chosen single-rule mutant
	for i := 0; i < 2*n; i++ {
		g := &gen{r: r, wire: true}
		if r.Chance(1, 4) {
			g.prefix = asciiPrefix(r.Intn(8))
		}
		if i%2 == 0 {
			o := g.obs(r.Intn(4), r.Intn(4), r.Intn(4))
			cs = append(cs, c15Case{Family: "w-random", Kind: "obs", Level: "wire", WidPrefix: g.prefix, VObs: &o})
			ms := obsMutants(g, o, false)
			m := ms[r.Intn(len(ms))]
			cs = append(cs, c15Case{Family: "w-random", Kind: "obs", Level: "wire", Mut: m.name, WidPrefix: g.prefix, VObs: &m.v})
		} else {
			rounds := make([]int, r.Intn(4))
			for j := range rounds {
				rounds[j] = r.Intn(3)
			}
			o := g.out(r.Intn(4), rounds)
			cs = append(cs, c15Case{Family: "w-random", Kind: "out", Level: "wire", WidPrefix: g.prefix, VOut: &o})
			ms := outMutants(g, o, false)
			m := ms[r.Intn(len(ms))]
			cs = append(cs, c15Case{Family: "w-random", Kind: "out", Level: "wire", Mut: m.name, WidPrefix: g.prefix, VOut: &m.v})
		}
	}
	return cs
}

// ---------------------------------------------------------------- the test

type part struct {
	name  string // file suffix
	ty    string
	mism  string
	bad   string
	cf    *CaseFile
	cases []c15Case
	codes map[int]int
	muts  map[string]int
	fams  map[string]int
}

// Process layout.  The test process itself (the supervisor) generates the cases, computes the
// oracle tables with the real utg / wg and writes the Gallina files, but NEVER calls a decoder.
// All decoding happens in child copies of this test binary, which report one JSON line per
// case as soon as it is done.  Reason: a fault inside the decoder's unsafe code is not a Go
// panic (recover() does not see it) and may silently damage unrelated heap objects; the
// supervisor must stay able to name the input and to write intact files.

// mark records the input about to be decoded, so that the supervisor can name it if the decoder
// takes the whole process down.
var markDir string

func mark(kind, how string, data []byte) {
	if markDir == "" {
		return
	}
	_ = os.WriteFile(filepath.Join(markDir, "current.bin"), data, 0o644)
	_ = os.WriteFile(filepath.Join(markDir, "current.txt"), []byte(kind+"\n"+how), 0o644)
}

type caseLine struct {
	I        int       `json:"i"`
	Observed observedG `json:"observed"`
	Check    string    `json:"check"` // hash of the generator-form input as the child saw it
}

func caseDigest(c c15Case) string {
	c.Observed = observedG{}
	b, _ := json.Marshal(c)
	return fmt.Sprintf("%x", sha256.Sum256(b))[:16]
}

// child entry points
func childCases(t *testing.T, dir string) {
	cases := LoadCasesFile[c15Case](t, filepath.Join(dir, "work_cases.json"))
	f, err := os.OpenFile(filepath.Join(dir, "work_results.jsonl"), os.O_CREATE|os.O_WRONLY|os.O_APPEND, 0o644)
	if err != nil {
		t.Fatal(err)
	}
	defer f.Close()
	start := EnvInt("VERIF_C15_START", 0)
	validator = NewNode(t, NodeOpts{N: 4, F: 1}) // one long-lived instance: ReportingPlugin.ValidateObservation for every obs case
	defer validator.Plugin.Close()
	for i := start; i < len(cases); i++ {
		c := cases[i]
		runCase(&c)
		line, _ := json.Marshal(caseLine{I: i, Observed: c.Observed, Check: caseDigest(cases[i])})
		if _, err := f.Write(append(line, '\n')); err != nil {
			t.Fatal(err)
		}
	}
}

func childFuzz(t *testing.T, dir string) {
	cases := LoadCasesFile[c15Case](t, filepath.Join(dir, "work_cases.json"))
	var replay []fuzzInput
	if rf := ReplayFile(); rf != "" {
		replay = loadFuzzReplay(t, rf)
	}
	fz := runFuzz(t, cases, replay)
	WriteJSON(t, filepath.Join(dir, "work_fuzz.json"), fz.export())
}

type crash struct {
	Kind, How, BytesHex, Text string
}

// runChild runs one child phase; returns a crash description if the process died inside a decode
func runChild(t *testing.T, dir, phase string, extra ...string) *crash {
	_ = os.Remove(filepath.Join(dir, "current.bin"))
	_ = os.Remove(filepath.Join(dir, "current.txt"))
	cmd := exec.Command(os.Args[0], "-test.run", "^TestC15$", "-test.timeout", "3000s")
	cmd.Env = append(append(os.Environ(), "VERIF_C15_CHILD="+phase, "VERIF_OUT="+dir), extra...)
	var out bytes.Buffer
	cmd.Stdout, cmd.Stderr = &out, &out
	err := cmd.Run()
	if err == nil {
		return nil
	}
	data, rerr := os.ReadFile(filepath.Join(dir, "current.bin"))
	meta, _ := os.ReadFile(filepath.Join(dir, "current.txt"))
	txt := out.String()
	crashed := strings.Contains(txt, "fatal error:") || strings.Contains(txt, "SIGSEGV") || strings.Contains(txt, "unexpected fault address") || strings.Contains(txt, "panic:")
	if rerr != nil || !crashed {
		t.Fatalf("child phase %s failed: %v\n%s", phase, err, tail(txt, 3000))
	}
	parts := strings.SplitN(string(meta), "\n", 2)
	for len(parts) < 2 {
		parts = append(parts, "")
	}
	head := txt
	if i := strings.Index(head, "goroutine "); i > 0 {
		head = head[:i]
	}
	return &crash{Kind: parts[0], How: parts[1], BytesHex: hex.EncodeToString(data), Text: tail(strings.TrimSpace(head), 600)}
}

func tail(s string, n int) string {
	if len(s) > n {
		return s[len(s)-n:]
	}
	return s
}

func TestC15(t *testing.T) {
	dir := OutDir(t, "C15")
	switch os.Getenv("VERIF_C15_CHILD") {
	case "cases":
		markDir = dir
		childCases(t, dir)
		return
	case "fuzz":
		markDir = dir
		childFuzz(t, dir)
		return
	}
	// ------------------------------------------------------------ supervisor
	var cases []c15Case
	if rf := ReplayFile(); rf != "" {
		cases = LoadReplayCases[c15Case](t, rf)
	} else {
		cases = append(cases, LoadCorpus[c15Case](t, "C15")...)
		r := NewRng(EnvSeed())
		cases = append(cases, boundaryCases(r)...)
		cases = append(cases, randomCases(r, EnvInt("VERIF_N", 24))...)
		// hand-written JSON (short arrays, other member order) last: on a decoder that mishandles
		// them the earlier results are already safe on disk
		cases = append(cases, reorderedCases(r)...)
	}
	for i, c := range cases {
		if (c.Kind == "obs") != (c.VObs != nil) || (c.Kind == "out") != (c.VOut != nil) {
			t.Fatalf("case %d: malformed (kind %q)", i, c.Kind)
		}
		cases[i].Observed = observedG{}
	}
	for _, f := range []string{"work_cases.json", "work_results.jsonl", "work_fuzz.json"} {
		_ = os.Remove(filepath.Join(dir, f))
	}
	WriteJSON(t, filepath.Join(dir, "work_cases.json"), map[string]any{"cases": cases})

	var direct []any
	directKeys := map[string]bool{}
	addCrash := func(c *crash) {
		direct = append(direct, fuzzInput{Kind: c.Kind, Bytes: c.BytesHex, How: c.How, Panic: "PROCESS CRASH (not recoverable): " + c.Text})
		directKeys["crash:"+c.How] = true
	}

	// phase 1: every case through the real Encode / Decode; restart after a crash (at most 3 times)
	have := map[int]observedG{}
	start := 0
	for attempt := 0; attempt < 4 && start < len(cases); attempt++ {
		cr := runChild(t, dir, "cases", fmt.Sprintf("VERIF_C15_START=%d", start))
		b, _ := os.ReadFile(filepath.Join(dir, "work_results.jsonl"))
		last := start - 1
		for _, ln := range strings.Split(string(b), "\n") {
			if strings.TrimSpace(ln) == "" {
				continue
			}
			var cl caseLine
			if err := json.Unmarshal([]byte(ln), &cl); err != nil || cl.I < 0 || cl.I >= len(cases) || cl.Check != caseDigest(cases[cl.I]) {
				// a damaged report: the child's memory was corrupted while decoding
				direct = append(direct, fuzzInput{Kind: "?", How: "case-report-damaged", Panic: "child reported an unreadable / altered result line: " + tail(ln, 200)})
				directKeys["damaged-report"] = true
				continue
			}
			have[cl.I] = cl.Observed
			if cl.I > last {
				last = cl.I
			}
		}
		if cr == nil {
			break
		}
		addCrash(cr)
		start = last + 2 // skip the case that killed the child
	}

	// phase 2: fuzz stream
	var fz fuzzExport
	if cr := runChild(t, dir, "fuzz"); cr != nil {
		addCrash(cr)
	} else {
		b, err := os.ReadFile(filepath.Join(dir, "work_fuzz.json"))
		if err != nil || json.Unmarshal(b, &fz) != nil {
			direct = append(direct, fuzzInput{Kind: "?", How: "fuzz-report-damaged", Panic: "fuzz child wrote an unreadable report"})
			directKeys["damaged-report"] = true
		}
	}
	for _, v := range fz.Violations {
		direct = append(direct, v)
	}

	// ------------------------------------------------------------ Gallina files
	var all []c15Case
	for i := range cases {
		if o, ok := have[i]; ok {
			c := cases[i]
			c.Observed = o
			all = append(all, c)
		}
	}
	if ReplayFile() == "" {
		all = append(all, fz.Accepted...)
	}
	nWire := 4
	parts := map[string]*part{}
	get := func(name, ty, mism, bad string) *part {
		if p, ok := parts[name]; ok {
			return p
		}
		imp := "Model.Validate"
		if strings.HasPrefix(name, "wire") {
			imp = "Model.Wire"
		}
		p := &part{name: name, ty: ty, mism: mism, bad: bad, cf: NewCaseFile("C15", imp), codes: map[int]int{}, muts: map[string]int{}, fams: map[string]int{}}
		parts[name] = p
		return p
	}
	wgBad := 0
	seq := map[string]int{}
	nVal := 3
	for i := range all {
		c := &all[i]
		if (c.Kind == "obs") != (c.VObs != nil) || (c.Kind == "out") != (c.VOut != nil) {
			continue // a damaged fuzz-accepted record
		}
		var p *part
		var term string
		enc, _ := hex.DecodeString(c.Observed.Bytes)
		switch {
		case c.Level == "val" && c.Kind == "obs":
			p = get(fmt.Sprintf("val_obs%d", seq["vo"]%nVal), "vo_case", "vo_mism", "vo_bad")
			seq["vo"]++
			term = valTermObs(*c, &wgBad)
		case c.Level == "val":
			p = get(fmt.Sprintf("val_out%d", seq["vc"]%nVal), "vc_case", "vc_mism", "vc_bad")
			seq["vc"]++
			term = valTermOut(*c, &wgBad)
		case c.Kind == "obs":
			p = get(fmt.Sprintf("wire_obs%d", seq["wo"]%nWire), "wo_case", "wo_mism", "wo_bad")
			seq["wo"]++
			term = wireTermObs(*c, enc, &wgBad)
		default:
			p = get(fmt.Sprintf("wire_out%d", seq["wc"]%nWire), "wc_case", "wc_mism", "wc_bad")
			seq["wc"]++
			term = wireTermOut(*c, enc, &wgBad)
		}
		p.cf.Add(term)
		p.cases = append(p.cases, *c)
		p.codes[c.Observed.Code]++
		p.muts[c.Mut]++
		p.fams[strings.SplitN(c.Family, "/", 2)[0]]++
	}
	if wgBad != 0 {
		t.Fatalf("work id generator depends on a trigger field outside the table key (%d times): tabulation unsound", wgBad)
	}
	for _, p := range parts {
		p.cf.Imports = append(p.cf.Imports, "Base.Util", "Model.Types")
		p.cf.Prelude = "Open Scope N_scope."
		codeExpr := map[string]string{
			"vo_case": "map (fun k => verr_code (obs_err (utg_of (vo_utg k)) (wg_of (vo_wg k)) (vo_val k))) cases",
			"vc_case": "map (fun k => verr_code (outcome_err (utg_of (vc_utg k)) (wg_of (vc_wg k)) (vc_val k))) cases",
			"wo_case": "map wo_code cases",
			"wc_case": "map wc_code cases",
		}[p.ty]
		nontriv := map[string]string{
			"vo_case": "find_idx (fun k => negb (Nat.eqb (length (o_perf (vo_val k)) + length (o_props (vo_val k))) 0)) cases",
			"vc_case": "find_idx (fun k => negb (Nat.eqb (length (oc_agreed (vc_val k)) + length (oc_surfaced (vc_val k))) 0)) cases",
			"wo_case": "find_idx (fun k => Nat.ltb 70 (length (wo_bytes k))) cases",
			"wc_case": "find_idx (fun k => Nat.ltb 60 (length (wc_bytes k))) cases",
		}[p.ty]
		p.cf.Write(t, dir, "cases_"+p.name+".v", p.ty, [][2]string{
			{"mism", "find_idx " + p.mism + " cases"},
			{"bad", "find_idx " + p.bad + " cases"},
			{"nontriv", nontriv},
			{"cov_codes", "code_hist (" + codeExpr + ")"},
		})
		WriteJSON(t, filepath.Join(dir, "cases_"+p.name+".json"), map[string]any{
			"property": "C15", "seed": EnvSeed(), "cases": p.cases,
			"families": p.fams, "distribution": map[string]any{"observed_codes": p.codes, "mutations": p.muts},
		})
	}
	// ------------------------------------------------------------ direct.json
	keys := append([]string{}, fz.Keys...)
	for k := range directKeys {
		keys = append(keys, k)
	}
	sort.Strings(keys)
	if len(direct) > 5 {
		direct = direct[:5]
	}
	if direct == nil {
		direct = []any{}
	}
	if fz.Samples == nil {
		fz.Samples = []any{}
	}
	dist := map[string]any{"mutation": fz.ByHow, "decoder_answer": fz.ByOutcome}
	WriteJSON(t, filepath.Join(dir, "direct.json"), map[string]any{
		"evaluations": fz.Evals, "nontrivial_keys": keys, "violations": direct, "known": map[string]any{},
		"samples": fz.Samples, "distribution": dist,
	})
	for _, f := range []string{"work_cases.json", "work_results.jsonl", "work_fuzz.json", "current.bin", "current.txt"} {
		_ = os.Remove(filepath.Join(dir, f))
	}
}

// ---------------------------------------------------------------- fuzz stream (no panic on arbitrary bytes)

type fuzzInput struct {
	Kind  string `json:"kind"` // "obs" | "out"
	Bytes string `json:"bytes_hex"`
	How   string `json:"how"`
	Panic string `json:"panic,omitempty"`
}

type fuzzResult struct {
	evals      int
	violations []fuzzInput
	byHow      map[string]int
	byOutcome  map[string]int
	accepted   []c15Case
	keys       map[string]bool
	samples    []any
}

func loadFuzzReplay(t *testing.T, path string) []fuzzInput {
	b, err := os.ReadFile(path)
	if err != nil {
		return nil
	}
	var f struct {
		Violations []fuzzInput `json:"violations"`
	}
	_ = json.Unmarshal(b, &f)
	return f.Violations
}

func decodeGuard(kind, how string, data []byte) (code int, val any, pan string) {
	defer func() {
		if r := recover(); r != nil {
			pan = fmt.Sprintf("%v", r)
		}
	}()
	mark(kind, how, data)
	if kind == "obs" {
		d, err := ocr2keepers.DecodeAutomationObservation(data, simutil.GetUpkeepType, simutil.UpkeepWorkID)
		return errCode(err), d, ""
	}
	d, err := ocr2keepers.DecodeAutomationOutcome(data, simutil.GetUpkeepType, simutil.UpkeepWorkID)
	return errCode(err), d, ""
}

var wrongValues = []string{`"x"`, `[]`, `{}`, `true`, `null`, `-1`, `1.5`, `1e2`, `1e400`, `99999999999999999999999999`, `18446744073709551616`, `256`, `4294967296`,
	`[1,2,3]`, `{"a":{"b":[{}]}}`, `"\ud800"`, `"\u0000"`, `"!!!not-base64!!!"`, `0x10`, `01`, `-0`, `+1`, `NaN`, `Infinity`, `[[[[[[[[[[]]]]]]]]]]`,
	`115792089237316195423570985008687907853269984665640564039457584007913129639936`}

func mutateBytes(r *Rng, seeds [][]byte) ([]byte, string) {
	s := append([]byte(nil), seeds[r.Intn(len(seeds))]...)
	if len(s) == 0 {
		return s, "empty"
	}
	// positions of JSON values (after ':' or '[' or ',')
	valuePos := func() int {
		for k := 0; k < 20; k++ {
			i := r.Intn(len(s))
			if s[i] == ':' || s[i] == '[' || s[i] == ',' {
				return i + 1
			}
		}
		return r.Intn(len(s))
	}
	valueEnd := func(i int) int {
		depth := 0
		inStr := false
		for j := i; j < len(s); j++ {
			c := s[j]
			if inStr {
				if c == '\\' {
					j++
				} else if c == '"' {
					inStr = false
				}
				continue
			}
			switch c {
			case '"':
				inStr = true
			case '[', '{':
				depth++
			case ']', '}':
				if depth == 0 {
					return j
				}
				depth--
			case ',':
				if depth == 0 {
					return j
				}
			}
		}
		return len(s)
	}
	switch r.Intn(15) {
	case 12, 13:
		// shorten (or lengthen) one array of numbers
		if out, ok := resizeArray(r, s); ok {
			return out, "array-length"
		}
		return s, "array-length"
	case 14:
		if out, ok := reorderKeys(r, s); ok {
			if r.Bool() {
				if out2, ok2 := resizeArray(r, out); ok2 {
					return out2, "reorder-keys+array-length"
				}
			}
			return out, "reorder-keys"
		}
		return s, "reorder-keys"
	case 0:
		i := r.Intn(len(s))
		s[i] ^= 1 << uint(r.Intn(8))
		return s, "bitflip"
	case 1:
		for k := 0; k < 1+r.Intn(4); k++ {
			s[r.Intn(len(s))] = byte(r.U64())
		}
		return s, "bytes"
	case 2:
		return s[:r.Intn(len(s))], "truncate"
	case 3:
		i := r.Intn(len(s))
		j := i + r.Intn(len(s)-i)
		return append(s[:i], s[j:]...), "delete"
	case 4:
		o := seeds[r.Intn(len(seeds))]
		if len(o) == 0 {
			return s, "splice"
		}
		i, j := r.Intn(len(s)), r.Intn(len(o))
		return append(append([]byte(nil), s[:i]...), o[j:]...), "splice"
	case 5:
		i := valuePos()
		j := valueEnd(i)
		w := wrongValues[r.Intn(len(wrongValues))]
		return append(append(append([]byte(nil), s[:i]...), w...), s[j:]...), "wrong-value"
	case 6:
		i := valuePos()
		j := valueEnd(i)
		n := []int{10, 1000, 9999, 10001, 100000}[r.Intn(5)]
		open, cl := "[", "]"
		if r.Bool() {
			open, cl = `{"a":`, "}"
		}
		deep := strings.Repeat(open, n) + "1" + strings.Repeat(cl, n)
		if r.Chance(1, 4) {
			deep = strings.Repeat(open, n) // unterminated
		}
		return append(append(append([]byte(nil), s[:i]...), deep...), s[j:]...), "deep-nesting"
	case 7:
		i := valuePos()
		j := valueEnd(i)
		huge := strings.Repeat("9", []int{30, 80, 400, 5000}[r.Intn(4)])
		if r.Bool() {
			huge = "-" + huge
		}
		return append(append(append([]byte(nil), s[:i]...), huge...), s[j:]...), "huge-number"
	case 8:
		// duplicate a key/value region
		i := r.Intn(len(s))
		j := i + r.Intn(len(s)-i)
		return append(append(append([]byte(nil), s[:j]...), s[i:j]...), s[j:]...), "duplicate-region"
	case 9:
		// unknown / duplicate key injected after an opening brace
		for k := 0; k < 20; k++ {
			i := r.Intn(len(s))
			if s[i] == '{' {
				inj := []string{`"X":1,`, `"Performable":[],`, `"WorkID":"dup",`, `"Trigger":null,`, `"":{},`, `"UpkeepID":"AAAA",`}[r.Intn(6)]
				return append(append(append([]byte(nil), s[:i+1]...), inj...), s[i+1:]...), "inject-key"
			}
		}
		return s, "inject-key"
	case 10:
		ws := []string{" ", "\n", "\t", "\r\n", "\x00", "\xef\xbb\xbf", "/**/"}[r.Intn(7)]
		i := r.Intn(len(s))
		return append(append(append([]byte(nil), s[:i]...), ws...), s[i:]...), "whitespace"
	default:
		return r.Bytes(r.Intn(64)), "random"
	}
}

// resizeArray picks one `[n,n,...]` array of numbers and changes its element count
func resizeArray(r *Rng, s []byte) ([]byte, bool) {
	var starts []int
	for i := 0; i+1 < len(s); i++ {
		if s[i] == '[' && s[i+1] >= '0' && s[i+1] <= '9' {
			starts = append(starts, i)
		}
	}
	if len(starts) == 0 {
		return nil, false
	}
	i := starts[r.Intn(len(starts))]
	j := bytes.IndexByte(s[i:], ']')
	if j < 0 {
		return nil, false
	}
	j += i
	elems := strings.Split(string(s[i+1:j]), ",")
	var n int
	switch r.Intn(6) {
	case 0:
		n = 0
	case 1:
		n = 1
	case 2:
		n = len(elems) - 1
	case 3:
		n = len(elems) + 1 + r.Intn(40)
	default:
		n = r.Intn(len(elems) + 1)
	}
	for len(elems) < n {
		elems = append(elems, fmt.Sprint(r.Intn(256)))
	}
	elems = elems[:n]
	out := append([]byte(nil), s[:i+1]...)
	out = append(out, strings.Join(elems, ",")...)
	return append(out, s[j:]...), true
}

// reorderKeys rotates the members of one JSON object (same members, other order)
func reorderKeys(r *Rng, s []byte) ([]byte, bool) {
	var opens []int
	for i := range s {
		if s[i] == '{' {
			opens = append(opens, i)
		}
	}
	if len(opens) == 0 {
		return nil, false
	}
	i := opens[r.Intn(len(opens))]
	// split the members at top-level commas
	depth, inStr := 0, false
	var cuts []int
	end := -1
	for j := i + 1; j < len(s) && end < 0; j++ {
		c := s[j]
		if inStr {
			if c == '\\' {
				j++
			} else if c == '"' {
				inStr = false
			}
			continue
		}
		switch c {
		case '"':
			inStr = true
		case '[', '{':
			depth++
		case ']', '}':
			if depth == 0 {
				end = j
			} else {
				depth--
			}
		case ',':
			if depth == 0 {
				cuts = append(cuts, j)
			}
		}
	}
	if end < 0 || len(cuts) == 0 {
		return nil, false
	}
	var members []string
	prev := i + 1
	for _, c := range cuts {
		members = append(members, string(s[prev:c]))
		prev = c + 1
	}
	members = append(members, string(s[prev:end]))
	k := 1 + r.Intn(len(members)-1)
	members = append(members[k:], members[:k]...)
	out := append([]byte(nil), s[:i+1]...)
	out = append(out, strings.Join(members, ",")...)
	return append(out, s[end:]...), true
}

func runFuzz(t *testing.T, cases []c15Case, replay []fuzzInput) *fuzzResult {
	fz := &fuzzResult{byHow: map[string]int{}, byOutcome: map[string]int{}, keys: map[string]bool{}}
	note := func(kind string, data []byte, how string) {
		code, val, pan := decodeGuard(kind, how, data)
		fz.evals++
		fz.byHow[how]++
		switch {
		case pan != "":
			fz.byOutcome["panic"]++
			fz.violations = append(fz.violations, fuzzInput{Kind: kind, Bytes: hex.EncodeToString(data), How: how, Panic: pan})
		case code == 0:
			fz.byOutcome["accepted"]++
			if how != "seed" && len(fz.accepted) < 40 {
				c := c15Case{Family: "fuzz-accepted", Kind: kind, Level: "val", Mut: "fuzz:" + how}
				if kind == "obs" {
					o := obsFromGo(val.(ocr2keepers.AutomationObservation))
					c.VObs = &o
				} else {
					o := outFromGo(val.(ocr2keepers.AutomationOutcome))
					c.VOut = &o
				}
				// the decoder said "valid": checker K will judge the decoded value against the rules;
				// "same" = the accepted value survives its own Encode -> Decode round trip
				c2 := c
				runCase(&c2)
				c.Observed = observedG{Code: 0, Same: c2.Observed.Code == 0 && c2.Observed.Same}
				fz.accepted = append(fz.accepted, c)
			}
		case code == 99:
			fz.byOutcome["json-error"]++
		default:
			fz.byOutcome[fmt.Sprintf("rule-%d", code)]++
		}
		if code != 99 || pan != "" {
			fz.keys[fmt.Sprintf("%s/%s/%d", kind, how, code)] = true
		}
	}
	if len(replay) > 0 {
		for _, f := range replay {
			b, _ := hex.DecodeString(f.Bytes)
			note(f.Kind, b, "replay:"+f.How)
		}
		return fz
	}
	if ReplayFile() != "" {
		return fz
	}
	// seeds: real encodings of the generated values (valid and rule-breaking)
	var seedsObs, seedsOut [][]byte
	for i := range cases {
		c := cases[i]
		if c.Kind == "obs" && len(seedsObs) < 60 && len(c.VObs.Perf) <= 8 && len(c.VObs.Hist) <= 8 {
			if b, err := c.VObs.toGo().Encode(); err == nil {
				seedsObs = append(seedsObs, b)
			}
		}
		if c.Kind == "out" && len(seedsOut) < 60 && len(c.VOut.Agreed) <= 8 && len(c.VOut.Surfaced) <= 8 {
			if b, err := c.VOut.toGo().Encode(); err == nil {
				seedsOut = append(seedsOut, b)
			}
		}
	}
	if len(seedsObs) == 0 || len(seedsOut) == 0 {
		return fz
	}
	for _, s := range seedsObs {
		note("obs", s, "seed")
		note("out", s, "cross-kind")
	}
	for _, s := range seedsOut {
		note("out", s, "seed")
		note("obs", s, "cross-kind")
	}
	r := NewRng(EnvSeed() ^ 0xC15F)
	n := EnvInt("VERIF_FUZZ", 0)
	if n == 0 {
		n = 400 * EnvInt("VERIF_N", 24)
	}
	for i := 0; i < n; i++ {
		if i%2 == 0 {
			b, how := mutateBytes(r, seedsObs)
			if r.Chance(1, 3) { // stack a second mutation
				b2, how2 := mutateBytes(r, [][]byte{b})
				b, how = b2, how+"+"+how2
			}
			note("obs", b, how)
		} else {
			b, how := mutateBytes(r, seedsOut)
			if r.Chance(1, 3) {
				b2, how2 := mutateBytes(r, [][]byte{b})
				b, how = b2, how+"+"+how2
			}
			note("out", b, how)
		}
	}
	fz.samples = []any{map[string]any{"note": "fuzz stream", "seeds_obs": len(seedsObs), "seeds_out": len(seedsOut), "mutated_inputs": n}}
	return fz
}

type fuzzExport struct {
	Evals      int            `json:"evals"`
	Violations []fuzzInput    `json:"violations"`
	ByHow      map[string]int `json:"by_how"`
	ByOutcome  map[string]int `json:"by_outcome"`
	Accepted   []c15Case      `json:"accepted"`
	Keys       []string       `json:"keys"`
	Samples    []any          `json:"samples"`
}

func (fz *fuzzResult) export() fuzzExport {
	keys := make([]string, 0, len(fz.keys))
	for k := range fz.keys {
		keys = append(keys, "fuzz:"+k)
	}
	sort.Strings(keys)
	// collapse stacked-mutation labels for the distribution
	how := map[string]int{}
	for k, v := range fz.byHow {
		how[strings.SplitN(k, "+", 2)[0]] += v
	}
	return fuzzExport{Evals: fz.evals, Violations: fz.violations, ByHow: how, ByOutcome: fz.byOutcome,
		Accepted: fz.accepted, Keys: keys, Samples: fz.samples}
}
