package c10

import (
	"fmt"
	"io"
	"log"
	"math/big"
	"path/filepath"
	"sync"
	"testing"
	"time"

	. "verifharness/h"

	"github.com/smartcontractkit/chainlink-automation/pkg/v3/stores"
	common "github.com/smartcontractkit/chainlink-common/pkg/types/automation"
)

// TestC10GCRace: real clock, real goroutines. Entries age past a (shortened) TTL; one goroutine runs
// gc passes while others hand fresh results for the same work ids to the store. "Kept until removed,
// expired or replaced ... when adds and garbage collection run concurrently": every fresh result must be
// in the view taken right afterwards. A two-phase gc that deletes keys it collected earlier without
// re-checking loses fresh results here.
func TestC10GCRace(t *testing.T) {
	dir := OutDir(t, "C10")
	old := stores.VerifSetStoreTTL(150 * time.Millisecond)
	defer stores.VerifSetStoreTTL(old)
	rounds := 6
	if EnvTier() == "thorough" {
		rounds = 40
	}
	const ids = 1500
	lost, evals, skipped := 0, 0, 0
	var sample []string
	for r := 0; r < rounds; r++ {
		st := stores.New(log.New(io.Discard, "", 0))
		gc := any(st).(interface{ VerifGC() })
		mk := func(i int, blk uint64, tag byte) common.CheckResult {
			return common.CheckResult{Eligible: true, WorkID: fmt.Sprintf("w-%d-%d", r, i), Trigger: common.NewTrigger(common.BlockNumber(blk), [32]byte{1}),
				GasAllocated: 1, PerformData: []byte{tag}, FastGasWei: big.NewInt(1), LinkNative: big.NewInt(1)}
		}
		for i := 0; i < ids; i++ {
			st.Add(mk(i, 10, 0))
		}
		time.Sleep(160 * time.Millisecond) // all entries are now past the TTL, none collected
		var wg sync.WaitGroup
		t0 := time.Now()
		wg.Add(5)
		go func() {
			defer wg.Done()
			for k := 0; k < 3; k++ {
				gc.VerifGC()
			}
		}()
		for g := 0; g < 4; g++ {
			go func(g int) {
				defer wg.Done()
				for i := g; i < ids; i += 4 {
					st.Add(mk(i, 10, 1)) // same block: accepted because the stored entry is expired
				}
			}(g)
		}
		wg.Wait()
		view, _ := st.View()
		if time.Since(t0) > 100*time.Millisecond {
			// the machine was too slow: the fresh results may legitimately have expired again; not a verdict
			skipped++
			continue
		}
		fresh := map[string]bool{}
		for _, v := range view {
			if len(v.PerformData) == 1 && v.PerformData[0] == 1 {
				fresh[v.WorkID] = true
			}
		}
		evals += ids
		for i := 0; i < ids; i++ {
			if !fresh[fmt.Sprintf("w-%d-%d", r, i)] {
				lost++
				if len(sample) < 5 {
					sample = append(sample, fmt.Sprintf("round %d id %d", r, i))
				}
			}
		}
	}
	var viol []any
	if lost > 0 {
		viol = append(viol, map[string]any{"kind": "fresh result handed over during a gc pass is missing from the next view", "lost": lost, "of": evals, "examples": sample})
	}
	WriteJSON(t, filepath.Join(dir, "direct_gcrace.json"), map[string]any{
		"evaluations": evals + 1, "nontrivial_keys": []string{"gcrace-rounds", "gcrace-ids"}, "violations": viol,
		"samples":      []any{map[string]any{"rounds": rounds, "ids_per_round": ids, "ttl_ms": 150, "adders": 4, "gc_passes": 3}},
		"distribution": map[string]any{"rounds": rounds, "ids": ids, "rounds_skipped_too_slow": skipped},
	})
}
