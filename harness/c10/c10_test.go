// Package c10 drives the REAL staging result store (stores.New + Start/gc ticker, the eligible
// post-processor as the adder, the remove-from-staging hook as the remover) inside
// testing/synctest bubbles, sequentially and from several goroutines, and writes what it
// observed for the Coq model/checker in coq/Model/ResultStore.v.
package c10

import (
	"context"
	"fmt"
	"io"
	"log"
	"path/filepath"
	"sort"
	"strings"
	"sync"
	"sync/atomic"
	"testing"
	"testing/synctest"
	"time"

	. "verifharness/h"

	ocr2keepersv3 "github.com/smartcontractkit/chainlink-automation/pkg/v3"
	"github.com/smartcontractkit/chainlink-automation/pkg/v3/plugin/hooks"
	"github.com/smartcontractkit/chainlink-automation/pkg/v3/postprocessors"
	"github.com/smartcontractkit/chainlink-automation/pkg/v3/stores"
	common "github.com/smartcontractkit/chainlink-common/pkg/types/automation"
)

const (
	sec       = int64(time.Second)
	ttlNs     = 300 * sec // storeTTL as the generators aim at it; the Coq side reads the real value from the source
	gcEveryNs = 30 * sec  // gcInterval, only used to place the (invisible) gc ticks in the emitted trace
)

// c10Res is one check result in generator form.
type c10Res struct {
	W    int    `json:"w"`              // work id number
	B    uint64 `json:"b"`              // check block
	U    int    `json:"u"`              // distinguishes result values with equal (w, b)
	Inel int    `json:"inel,omitempty"` // 0 eligible; 1 not eligible; 2 pipeline error state (both must not be staged)
}

type c10Op struct {
	K   string   `json:"k"` // add | remove | view | sleep
	Rs  []c10Res `json:"rs,omitempty"`
	Ids []int    `json:"ids,omitempty"`
	D   int64    `json:"d,omitempty"` // sleep, ns
}

type c10Ev struct {
	G    int      `json:"g"`
	Op   c10Op    `json:"op"`
	At   int64    `json:"at"` // virtual ns since the store was created
	Inv  uint64   `json:"inv"`
	Res  uint64   `json:"res"`
	View []c10Res `json:"view,omitempty"`
}

type c10Obs struct {
	// sequential: one entry per emitted operation (sleeps dropped, gc ticks inserted)
	Trace []c10Ev `json:"trace,omitempty"`
	// concurrent: recorded events
	Events []c10Ev `json:"events,omitempty"`
}

type c10Case struct {
	Kind    string    `json:"kind"` // seq | conc
	Family  string    `json:"family"`
	Direct  bool      `json:"direct,omitempty"` // call store.Add/Remove directly instead of through post-processor / hook
	Ops     []c10Op   `json:"ops,omitempty"`
	Scripts [][]c10Op `json:"scripts,omitempty"`
	Obs     *c10Obs   `json:"obs,omitempty"`
}

func workID(w int) string { return fmt.Sprintf("work-%04d", w) }

func c10Result(r c10Res) common.CheckResult {
	var cr common.CheckResult
	cr.UpkeepID = UpkeepID(0, r.W)
	// results with equal (work id, check block) and different U may sit on different forks: the block hash follows
	// U mod 3, so "equal check block, other hash" occurs; it is still an EQUAL check block and never overwrites
	cr.Trigger = common.NewTrigger(common.BlockNumber(r.B), Hash32("blk", int(r.B)*8+r.U%3))
	cr.WorkID = workID(r.W)
	cr.Eligible = r.Inel != 1
	if r.Inel == 2 {
		cr.PipelineExecutionState = 3
	}
	cr.GasAllocated = uint64(1000 + r.U)
	cr.PerformData = []byte{byte(r.U), byte(r.U >> 8)}
	return cr
}

func resKey(cr common.CheckResult) string {
	return fmt.Sprintf("%s|%d|%x|%d|%x|%v|%d", cr.WorkID, cr.Trigger.BlockNumber, cr.Trigger.BlockHash, cr.GasAllocated, cr.PerformData, cr.Eligible, cr.PipelineExecutionState)
}

// real store plus the real adder / remover around it
type rig struct {
	store interface {
		Add(...common.CheckResult)
		Remove(...string)
		View() ([]common.CheckResult, error)
		Start(context.Context) error
	}
	post     postprocessors.PostProcessor
	hook     hooks.RemoveFromStagingHook
	direct   bool
	table    map[string]c10Res
	t0       time.Time
	lastView []common.CheckResult // raw slice returned by the last "view" operation
}

func newRig(direct bool) *rig {
	lg := log.New(io.Discard, "", 0)
	st := stores.New(lg)
	return &rig{store: st, post: postprocessors.NewEligiblePostProcessor(st, lg), hook: hooks.NewRemoveFromStagingHook(st, lg),
		direct: direct, table: map[string]c10Res{}}
}

type heldView struct {
	at int
	v  []common.CheckResult
}

func (rg *rig) learn(ops []c10Op) {
	for _, o := range ops {
		for _, r := range o.Rs {
			rg.table[resKey(c10Result(r))] = r
		}
	}
}

// do executes one non-sleep operation on the real code; returns the projected view for "view".
func (rg *rig) do(o c10Op) []c10Res {
	switch o.K {
	case "add":
		rs := make([]common.CheckResult, len(o.Rs))
		for i, r := range o.Rs {
			rs[i] = c10Result(r)
		}
		if rg.direct {
			var el []common.CheckResult
			for _, r := range rs {
				if r.Eligible && r.PipelineExecutionState == 0 {
					el = append(el, r)
				}
			}
			rg.store.Add(el...)
		} else {
			_ = rg.post.PostProcess(context.Background(), rs, nil)
		}
	case "remove":
		if rg.direct {
			ids := make([]string, len(o.Ids))
			for i, w := range o.Ids {
				ids[i] = workID(w)
			}
			rg.store.Remove(ids...)
		} else {
			var out ocr2keepersv3.AutomationOutcome
			for _, w := range o.Ids {
				out.AgreedPerformables = append(out.AgreedPerformables, common.CheckResult{WorkID: workID(w)})
			}
			rg.hook.RunHook(out)
		}
	case "view":
		v, err := rg.store.View()
		if err != nil {
			return []c10Res{{W: 0, B: 0, U: 999}}
		}
		rg.lastView = v
		return rg.project(v)
	}
	return nil
}

func (rg *rig) project(v []common.CheckResult) []c10Res {
	out := []c10Res{}
	for _, cr := range v {
		if r, ok := rg.table[resKey(cr)]; ok {
			out = append(out, r)
		} else {
			out = append(out, c10Res{W: 0, B: 0, U: 0}) // foreign value
		}
	}
	return out
}

func runSeq(t *testing.T, c *c10Case) {
	synctest.Test(t, func(t *testing.T) {
		rg := newRig(c.Direct)
		rg.learn(c.Ops)
		ctx, cancel := context.WithCancel(context.Background())
		done := make(chan struct{})
		go func() { _ = rg.store.Start(ctx); close(done) }()
		synctest.Wait() // gc ticker now armed at virtual t0
		rg.t0 = time.Now()
		obs := &c10Obs{}
		lastOp := int64(-1)
		var held []heldView
		for _, o := range c.Ops {
			if o.K == "sleep" {
				time.Sleep(time.Duration(o.D))
				synctest.Wait()
				continue
			}
			at := int64(time.Since(rg.t0))
			// the last gc tick strictly between the previous operation and this one
			if k := (at - 1) / gcEveryNs; k >= 1 && k*gcEveryNs > lastOp && k*gcEveryNs < at {
				obs.Trace = append(obs.Trace, c10Ev{Op: c10Op{K: "gc"}, At: k * gcEveryNs})
			}
			rg.lastView = nil
			v := rg.do(o)
			obs.Trace = append(obs.Trace, c10Ev{Op: o, At: at, View: v})
			if rg.lastView != nil {
				held = append(held, heldView{len(obs.Trace) - 1, rg.lastView})
			}
			lastOp = at
		}
		cancel()
		<-done
		// what View handed out is the caller's (the observation hook sorts and trims it): it is judged with the content
		// it has after all later operations of the case
		for _, h := range held {
			obs.Trace[h.at].View = rg.project(h.v)
		}
		c.Obs = obs
	})
}

func runConc(t *testing.T, c *c10Case) {
	synctest.Test(t, func(t *testing.T) {
		rg := newRig(c.Direct)
		for _, s := range c.Scripts {
			rg.learn(s)
		}
		ctx, cancel := context.WithCancel(context.Background())
		done := make(chan struct{})
		go func() { _ = rg.store.Start(ctx); close(done) }()
		synctest.Wait()
		rg.t0 = time.Now()
		var ctr atomic.Uint64
		var wg sync.WaitGroup
		evs := make([][]c10Ev, len(c.Scripts))
		for g := range c.Scripts {
			wg.Add(1)
			go func(g int) {
				defer wg.Done()
				time.Sleep(time.Second) // common start instant: all goroutines are released together
				for _, o := range c.Scripts[g] {
					if o.K == "sleep" {
						time.Sleep(time.Duration(o.D))
						continue
					}
					// PostProcess hands results to Add one call at a time (each call takes the lock
					// separately), so through the post-processor every result is its own recorded operation;
					// the direct path records the atomic multi-result Add.
					parts := []c10Op{o}
					if o.K == "add" && !rg.direct && len(o.Rs) > 1 {
						parts = nil
						for _, r := range o.Rs {
							parts = append(parts, add(r))
						}
					}
					for _, po := range parts {
						at := int64(time.Since(rg.t0))
						inv := ctr.Add(1)
						v := rg.do(po)
						res := ctr.Add(1)
						at2 := int64(time.Since(rg.t0))
						if at2 != at {
							// an operation never blocks durably, so the virtual clock cannot move inside it
							v = append(v, c10Res{W: 0, B: 0, U: 998})
						}
						evs[g] = append(evs[g], c10Ev{G: g, Op: po, At: at, Inv: inv, Res: res, View: v})
					}
				}
			}(g)
		}
		wg.Wait()
		cancel()
		<-done
		obs := &c10Obs{}
		for _, e := range evs {
			obs.Events = append(obs.Events, e...)
		}
		sort.Slice(obs.Events, func(i, j int) bool { return obs.Events[i].Inv < obs.Events[j].Inv })
		c.Obs = obs
	})
}

// ---------------------------------------------------------------- generators

func add(rs ...c10Res) c10Op          { return c10Op{K: "add", Rs: rs} }
func rem(ids ...int) c10Op            { return c10Op{K: "remove", Ids: ids} }
func view() c10Op                     { return c10Op{K: "view"} }
func sleep(d int64) c10Op             { return c10Op{K: "sleep", D: d} }
func R(w int, b uint64, u int) c10Res { return c10Res{W: w, B: b, U: u} }

func c10Boundary() []c10Case {
	var cs []c10Case
	seq := func(fam string, ops ...c10Op) { cs = append(cs, c10Case{Kind: "seq", Family: fam, Ops: ops}) }
	seq("empty-view", view())
	seq("ttl-exact", add(R(1, 10, 1)), view(), sleep(ttlNs), view(), sleep(1), view())
	seq("ttl-minus-1", add(R(1, 10, 1)), sleep(ttlNs-1), view(), sleep(2), view())
	seq("replace-higher", add(R(1, 10, 1)), add(R(1, 11, 2)), view())
	seq("drop-lower", add(R(1, 10, 1)), add(R(1, 9, 2)), view())
	seq("drop-equal", add(R(1, 10, 1)), sleep(sec), add(R(1, 10, 2)), view())
	seq("replace-rearms-ttl", add(R(1, 10, 1)), sleep(200*sec), add(R(1, 11, 2)), sleep(200*sec), view(), sleep(100*sec+1), view())
	seq("dropped-does-not-rearm", add(R(1, 10, 1)), sleep(200*sec), add(R(1, 9, 2)), sleep(100*sec+1), view())
	// finding 12: expired but not yet collected entry (gc ticks at 300 s and 330 s), same / lower block handed over
	seq("expired-uncollected-same-block", add(R(1, 10, 1)), sleep(ttlNs+1), add(R(1, 10, 2)), view(), sleep(60*sec), view())
	seq("expired-uncollected-lower-block", add(R(1, 10, 1)), sleep(ttlNs+sec), add(R(1, 7, 2)), view(), sleep(29*sec), view())
	seq("expired-uncollected-higher-block", add(R(1, 10, 1)), sleep(ttlNs+sec), add(R(1, 12, 2)), view())
	seq("expired-collected-lower-block", add(R(1, 10, 1)), sleep(ttlNs+31*sec), add(R(1, 7, 2)), view())
	seq("dropped-then-blocker-expires", add(R(1, 10, 1)), sleep(250*sec), add(R(1, 5, 2)), sleep(51*sec), view(), add(R(1, 4, 3)), view())
	seq("remove-then-lower", add(R(1, 10, 1)), rem(1), view(), add(R(1, 3, 2)), view())
	seq("remove-absent-twice", rem(7), add(R(1, 10, 1)), rem(7, 7), view(), rem(1, 1), view())
	seq("batch-dup-up", add(R(1, 5, 1), R(1, 6, 2), R(2, 1, 3)), view())
	seq("batch-dup-down", add(R(1, 6, 1), R(1, 5, 2), R(1, 6, 3)), view())
	seq("gc-then-readd", add(R(1, 10, 1), R(2, 10, 2)), sleep(ttlNs+40*sec), view(), add(R(1, 10, 1)), view())
	seq("ineligible-not-staged", add(c10Res{W: 1, B: 10, U: 1, Inel: 1}, c10Res{W: 2, B: 10, U: 2, Inel: 2}, R(3, 10, 3)), view(),
		add(c10Res{W: 3, B: 11, U: 4, Inel: 1}), view())
	{
		var many []c10Res
		for i := 1; i <= 20; i++ {
			many = append(many, R(i, uint64(i), i))
		}
		var late []c10Res
		for i := 1; i <= 20; i += 2 {
			late = append(late, R(i, uint64(i+1), 100+i))
		}
		seq("twenty-mixed-expiry", add(many...), sleep(150*sec), add(late...), view(), sleep(151*sec), view(), rem(1, 3, 5), view())
	}
	seq("view-at-gc-instant", add(R(1, 10, 1)), sleep(30*sec), view(), sleep(270*sec), view(), sleep(30*sec), view())
	cs = append(cs, c10Case{Kind: "seq", Family: "direct-api", Direct: true,
		Ops: []c10Op{add(R(1, 10, 1), R(2, 3, 2)), rem(2), add(R(2, 2, 3)), view(), sleep(ttlNs + 1), add(R(1, 10, 4)), view()}})

	conc := func(fam string, scripts ...[]c10Op) {
		cs = append(cs, c10Case{Kind: "conc", Family: fam, Scripts: scripts})
	}
	conc("conc-ttl-crossing",
		[]c10Op{add(R(1, 10, 1)), sleep(ttlNs), view(), sleep(1), view()},
		[]c10Op{sleep(ttlNs), view(), sleep(1), add(R(1, 10, 2)), view()},
		[]c10Op{sleep(ttlNs), add(R(2, 5, 3)), sleep(1), view(), rem(2)},
		[]c10Op{sleep(ttlNs + 1), view(), add(R(1, 9, 4)), view()})
	conc("conc-same-instant",
		[]c10Op{add(R(1, 1, 1)), view(), add(R(1, 3, 2)), view()},
		[]c10Op{add(R(1, 2, 3)), view(), rem(1), view()},
		[]c10Op{view(), add(R(1, 2, 4)), view(), view()},
		[]c10Op{add(R(2, 1, 5)), view(), rem(2), view()},
		[]c10Op{view(), view(), add(R(2, 1, 6)), view()})
	return cs
}

var c10Sleeps = []int64{1, sec, 29 * sec, 30 * sec, 100 * sec, 150 * sec, 150 * sec, ttlNs - 1, ttlNs, ttlNs + 1, 301 * sec, 600 * sec}

func c10RandOp(r *Rng, nw int, uid *int) c10Op {
	switch r.Intn(10) {
	case 0, 1, 2, 3:
		n := 1 + r.Intn(3)
		var rs []c10Res
		for i := 0; i < n; i++ {
			*uid++
			x := R(1+r.Intn(nw), uint64(1+r.Intn(5)), *uid)
			if r.Chance(1, 12) {
				x.Inel = 1 + r.Intn(2)
			}
			rs = append(rs, x)
		}
		return add(rs...)
	case 4:
		n := 1 + r.Intn(2)
		var ids []int
		for i := 0; i < n; i++ {
			ids = append(ids, 1+r.Intn(nw+1))
		}
		return rem(ids...)
	default:
		return view()
	}
}

func c10RandomSeq(r *Rng) c10Case {
	c := c10Case{Kind: "seq", Family: "random", Direct: r.Chance(1, 4)}
	nw := 2 + r.Intn(3)
	n := 8 + r.Intn(14)
	uid := 0
	for i := 0; i < n; i++ {
		if r.Chance(2, 5) {
			c.Ops = append(c.Ops, sleep(c10Sleeps[r.Intn(len(c10Sleeps))]))
		}
		c.Ops = append(c.Ops, c10RandOp(r, nw, &uid))
	}
	c.Ops = append(c.Ops, view())
	return c
}

func c10RandomConc(r *Rng) c10Case {
	c := c10Case{Kind: "conc", Family: "random-conc", Direct: r.Chance(1, 4)}
	g := 4 + r.Intn(3)
	nw := 1 + r.Intn(3)
	uid := 0
	steps := []int64{100 * sec, 150 * sec, 150 * sec, 50 * sec, 1, ttlNs, ttlNs + 1}
	for i := 0; i < g; i++ {
		var s []c10Op
		n := 3 + r.Intn(3)
		for j := 0; j < n; j++ {
			if r.Chance(1, 2) {
				s = append(s, sleep(steps[r.Intn(len(steps))]))
			}
			s = append(s, c10RandOp(r, nw, &uid))
		}
		c.Scripts = append(c.Scripts, s)
	}
	return c
}

// ---------------------------------------------------------------- Gallina emission

func resTerm(r c10Res) string { return fmt.Sprintf("mkRes %d %d %d", r.W, r.B, r.U) }

func eligibleOnly(rs []c10Res) []c10Res {
	out := []c10Res{}
	for _, r := range rs {
		if r.Inel == 0 {
			out = append(out, r)
		}
	}
	return out
}

func aopTerm(at int64, o c10Op) string {
	switch o.K {
	case "add":
		return fmt.Sprintf("(%d, AAdd %s)", at, CoqList(eligibleOnly(o.Rs), resTerm))
	case "remove":
		return fmt.Sprintf("(%d, ARemove %s)", at, CoqList(o.Ids, func(w int) string { return fmt.Sprint(w) + "%N" }))
	case "view":
		return fmt.Sprintf("(%d, AView)", at)
	default:
		return fmt.Sprintf("(%d, AGC)", at)
	}
}

func seqTerm(c c10Case) string {
	var ops, views []string
	for _, e := range c.Obs.Trace {
		ops = append(ops, aopTerm(e.At, e.Op))
		if e.Op.K == "view" {
			views = append(views, CoqList(e.View, resTerm))
		}
	}
	return "mkRsCase [" + strings.Join(ops, "; ") + "] [" + strings.Join(views, "; ") + "]"
}

func concTerm(c c10Case) string {
	var evs []string
	for _, e := range c.Obs.Events {
		evs = append(evs, fmt.Sprintf("mkEv %s %s %d %d", aopTerm(e.At, e.Op), CoqList(e.View, resTerm), e.Inv, e.Res))
	}
	return "mkRsHist [" + strings.Join(evs, "; ") + "]"
}

func TestC10(t *testing.T) {
	dir := OutDir(t, "C10")
	var cases []c10Case
	if rf := ReplayFile(); rf != "" {
		cases = LoadReplayCases[c10Case](t, rf)
	} else {
		cases = append(cases, LoadCorpus[c10Case](t, "C10")...)
		cases = append(cases, c10Boundary()...)
		r := NewRng(EnvSeed())
		n := EnvInt("VERIF_N", 120)
		for i := 0; i < n; i++ {
			cases = append(cases, c10RandomSeq(r))
		}
		for i := 0; i < n/3; i++ {
			cases = append(cases, c10RandomConc(r))
		}
	}
	seqF := NewCaseFile("C10", "Base.Util", "Model.ResultStore", "Gen.Generated")
	seqF.Prelude = "Open Scope Z_scope."
	concF := NewCaseFile("C10", "Base.Util", "Model.ResultStore", "Gen.Generated")
	concF.Prelude = "Open Scope Z_scope."
	var seqCases, concCases []c10Case
	fam := map[string]int{}
	sizes := map[int]int{}
	overl := 0
	for i := range cases {
		c := &cases[i]
		c.Obs = nil
		if c.Kind == "conc" {
			runConc(t, c)
			concF.Add(concTerm(*c))
			concCases = append(concCases, *c)
			sizes[len(c.Obs.Events)]++
			last := uint64(0)
			for _, e := range c.Obs.Events {
				if e.Inv < last {
					overl++
					break
				}
				if e.Res > last {
					last = e.Res
				}
			}
		} else {
			runSeq(t, c)
			seqF.Add(seqTerm(*c))
			seqCases = append(seqCases, *c)
			sizes[len(c.Obs.Trace)]++
		}
		fam[c.Family]++
	}
	seqF.Write(t, dir, "cases.v", "rs_case", [][2]string{
		{"mism", "find_idx (rs_mism ResultStoreTTL) cases"},
		{"bad", "find_idx (rs_bad ResultStoreTTL) cases"},
		{"kf_expired_blocks", "find_idx (rs_kf_expired_blocks ResultStoreTTL) cases"},
		{"nontriv", "find_idx rs_nontriv cases"},
		{"cov_fresh_replace_expired_dropped_gc_hidden", "rs_cov ResultStoreTTL cases"},
	})
	WriteJSON(t, filepath.Join(dir, "cases.json"), map[string]any{
		"property": "C10", "seed": EnvSeed(), "cases": seqCases, "families": fam, "sizes": sizes,
	})
	concF.Write(t, dir, "cases_hist.v", "rs_hist", [][2]string{
		{"mism", "find_idx (rs_hist_nofuel ResultStoreTTL 300000) cases"},
		{"bad", "find_idx (rs_hist_bad ResultStoreTTL 300000) cases"},
		{"nontriv", "find_idx (fun k => Nat.ltb 5 (length (rh_evs k))) cases"},
		{"cov_overlapping", "find_idx rs_hist_overlap cases"},
	})
	WriteJSON(t, filepath.Join(dir, "cases_hist.json"), map[string]any{
		"property": "C10", "seed": EnvSeed(), "cases": concCases,
		"distribution": map[string]any{"histories": len(concCases), "with_overlapping_operations": overl},
	})
}
