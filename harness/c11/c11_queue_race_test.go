package c11

import (
	"fmt"
	"path/filepath"
	"sync"
	"testing"
	"time"

	. "verifharness/h"

	"github.com/smartcontractkit/chainlink-automation/pkg/v3/stores"
	"github.com/smartcontractkit/chainlink-automation/pkg/v3/types"
	common "github.com/smartcontractkit/chainlink-common/pkg/types/automation"
)

// TestC11QueueRace: real clock, real goroutines on the real proposal queue (the two finalisation flows poll it from
// their own goroutines while the plug-in enqueues).  (a) Several polls of one upkeep type overlap over a queue large
// enough for a walk to take a while: "handed to the finalisation flow at most once per coordinated check block" -
// no (work id, block) may come out twice.  (b) A poll races an Enqueue of the same units on a HIGHER block: "a
// re-coordination on a higher block supersedes the queued one" - the higher block must be handed out, by the racing
// poll or by a later one, exactly once.
func TestC11QueueRace(t *testing.T) {
	dir := OutDir(t, "C11")
	rounds := 40
	if EnvTier() == "thorough" {
		rounds = 300
	}
	const filler = 20000
	const units = 16
	mk := func(n int, blk uint64) common.CoordinatedBlockProposal {
		id := UpkeepID(1, n)
		tr := common.NewLogTrigger(common.BlockNumber(blk), Hash32("b", int(blk)), &common.LogTriggerExtension{TxHash: Hash32("tx", n), Index: 1, BlockHash: Hash32("lb", n), BlockNumber: 5})
		return common.CoordinatedBlockProposal{UpkeepID: id, Trigger: tr, WorkID: WG(id, tr)}
	}
	twice, lost, evals := 0, 0, 0
	var sample []string
	for r := 0; r < rounds; r++ {
		q := stores.NewProposalQueue(UTG)
		var fill []common.CoordinatedBlockProposal
		for i := 0; i < filler; i++ {
			id := UpkeepID(0, 100000+i) // conditional: never returned to a log poll, only walked over
			tr := common.NewTrigger(7, Hash32("b", 7))
			fill = append(fill, common.CoordinatedBlockProposal{UpkeepID: id, Trigger: tr, WorkID: WG(id, tr)})
		}
		_ = q.Enqueue(fill...)
		for u := 0; u < units; u++ {
			_ = q.Enqueue(mk(u, 100))
		}
		handed := map[string]int{}
		var mu sync.Mutex
		note := func(ps []common.CoordinatedBlockProposal) {
			mu.Lock()
			for _, p := range ps {
				handed[fmt.Sprintf("%s@%d", p.WorkID, p.Trigger.BlockNumber)]++
			}
			mu.Unlock()
		}
		var wg sync.WaitGroup
		start := make(chan struct{})
		pollers := 4
		wg.Add(pollers + 1)
		for g := 0; g < pollers; g++ {
			go func() {
				defer wg.Done()
				<-start
				ps, _ := q.Dequeue(types.LogTrigger, units)
				note(ps)
			}()
		}
		go func() {
			defer wg.Done()
			<-start
			time.Sleep(time.Duration(r%9) * 150 * time.Microsecond) // land inside the walks at different points
			for u := 0; u < units; u += 2 {
				_ = q.Enqueue(mk(u, 200)) // every second unit is coordinated again on a higher block
			}
		}()
		close(start)
		wg.Wait()
		for k := 0; k < 2; k++ {
			ps, _ := q.Dequeue(types.LogTrigger, units)
			note(ps)
		}
		for u := 0; u < units; u++ {
			evals++
			lo, hi := handed[fmt.Sprintf("%s@%d", mk(u, 100).WorkID, 100)], handed[fmt.Sprintf("%s@%d", mk(u, 200).WorkID, 200)]
			if lo > 1 || hi > 1 {
				twice++
				if len(sample) < 5 {
					sample = append(sample, fmt.Sprintf("round %d unit %d: block 100 handed out %d times, block 200 %d times", r, u, lo, hi))
				}
			}
			if u%2 == 0 && hi != 1 {
				lost++
				if len(sample) < 5 {
					sample = append(sample, fmt.Sprintf("round %d unit %d: the higher block was handed out %d times", r, u, hi))
				}
			}
		}
	}
	var viol []any
	if twice > 0 {
		viol = append(viol, map[string]any{"kind": "overlapping polls handed a proposal out more than once for one coordinated block", "count": twice, "of": evals, "examples": sample})
	}
	if lost > 0 {
		viol = append(viol, map[string]any{"kind": "a proposal enqueued on a higher block while a poll was under way was not handed out exactly once", "count": lost, "of": evals, "examples": sample})
	}
	WriteJSON(t, filepath.Join(dir, "direct_queue_race.json"), map[string]any{
		"evaluations": evals, "nontrivial_keys": []string{"proposal-queue-race-rounds", "proposal-queue-race-units"}, "violations": viol,
		"samples":      []any{map[string]any{"rounds": rounds, "filler_records": filler, "units_per_round": units, "pollers": 4}},
		"distribution": map[string]any{"rounds": rounds},
	})
}
