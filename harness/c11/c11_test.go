// Package c11 drives the REAL proposal metadata store (stores.NewMetadataStore, the
// remove-from-metadata hook, the proposal filterer) and the REAL proposal queue
// (stores.NewProposalQueue, the add-to-proposalq hook) inside testing/synctest bubbles so that
// the 24 h proposal expiry and the 20 s queue window run on the virtual clock, and writes what
// it observed for the Coq models/checkers in coq/Model/Metadata.v and coq/Model/ProposalQueue.v.
package c11

import (
	"context"
	"fmt"
	"io"
	"log"
	"path/filepath"
	"sort"
	"strings"
	"testing"
	"testing/synctest"
	"time"

	. "verifharness/h"

	ocr2keepersv3 "github.com/smartcontractkit/chainlink-automation/pkg/v3"
	"github.com/smartcontractkit/chainlink-automation/pkg/v3/plugin/hooks"
	"github.com/smartcontractkit/chainlink-automation/pkg/v3/preprocessors"
	"github.com/smartcontractkit/chainlink-automation/pkg/v3/stores"
	"github.com/smartcontractkit/chainlink-automation/pkg/v3/types"
	common "github.com/smartcontractkit/chainlink-common/pkg/types/automation"
)

const (
	sec  = int64(time.Second)
	hour = int64(time.Hour)
	day  = 24 * hour // logRecoveryExpiry / conditionalExpiry as the generators aim at them
	win  = 20 * sec  // proposalExpiry of the queue
)

// c11Prop is one coordinated block proposal in generator form.
type c11Prop struct {
	T int    `json:"t"` // upkeep type byte: 0 conditional, 1 log trigger, 2 neither (ignored by the store)
	W int    `json:"w"` // work id number (zero-padded in the string so that string order = numeric order)
	B uint64 `json:"b"` // check block
	U int    `json:"u"` // distinguishes values with equal (t, w, b)
}

type c11Op struct {
	K      string      `json:"k"` // add | remove | hookremove | view | filter | sleep   /   enq | hook | deq | sleep
	Ps     []c11Prop   `json:"ps,omitempty"`
	Rounds [][]c11Prop `json:"rounds,omitempty"`
	Typ    int         `json:"typ,omitempty"`
	N      int         `json:"n,omitempty"`
	D      int64       `json:"d,omitempty"`
}

type c11Ev struct {
	Op  c11Op     `json:"op"`
	At  int64     `json:"at"`
	Out []c11Prop `json:"out,omitempty"`
}

type c11Case struct {
	Kind   string  `json:"kind"` // meta | queue
	Family string  `json:"family"`
	Ops    []c11Op `json:"ops,omitempty"`
	E2E    *e2eCfg `json:"e2e,omitempty"`
	Obs    []c11Ev `json:"obs,omitempty"`
}

func widStr(w int) string { return fmt.Sprintf("w%05d", w) }

func c11Proposal(p c11Prop) common.CoordinatedBlockProposal {
	var h [32]byte
	copy(h[:], fmt.Sprintf("hash-%d-%d", p.B, p.U))
	return common.CoordinatedBlockProposal{
		UpkeepID: UpkeepID(uint8(p.T), p.W),
		Trigger:  common.NewTrigger(common.BlockNumber(p.B), h),
		WorkID:   widStr(p.W),
	}
}

func propKey(cp common.CoordinatedBlockProposal) string {
	return fmt.Sprintf("%x|%s|%d|%x", cp.UpkeepID, cp.WorkID, cp.Trigger.BlockNumber, cp.Trigger.BlockHash)
}

type table map[string]c11Prop

func (tb table) learn(ops []c11Op) {
	for _, o := range ops {
		for _, p := range o.Ps {
			tb[propKey(c11Proposal(p))] = p
		}
		for _, r := range o.Rounds {
			for _, p := range r {
				tb[propKey(c11Proposal(p))] = p
			}
		}
	}
}

func (tb table) project(cps []common.CoordinatedBlockProposal) []c11Prop {
	out := []c11Prop{}
	for _, cp := range cps {
		if p, ok := tb[propKey(cp)]; ok {
			out = append(out, p)
		} else {
			out = append(out, c11Prop{T: 9, W: 0, B: 0, U: 0}) // foreign value
		}
	}
	return out
}

func proposals(ps []c11Prop) []common.CoordinatedBlockProposal {
	out := make([]common.CoordinatedBlockProposal, len(ps))
	for i, p := range ps {
		out[i] = c11Proposal(p)
	}
	return out
}

func outcomeOf(rounds [][]c11Prop) ocr2keepersv3.AutomationOutcome {
	var o ocr2keepersv3.AutomationOutcome
	for _, r := range rounds {
		o.SurfacedProposals = append(o.SurfacedProposals, proposals(r))
	}
	return o
}

type directViolation struct {
	Family string `json:"family"`
	What   string `json:"what"`
}

// ---------------------------------------------------------------- metadata store

func runMeta(t *testing.T, c *c11Case, viol *[]directViolation) {
	synctest.Test(t, func(t *testing.T) {
		lg := log.New(io.Discard, "", 0)
		ms, err := stores.NewMetadataStore(NewFakeBlocks(), UTG)
		if err != nil {
			t.Fatal(err)
		}
		hook := hooks.NewRemoveFromMetadataHook(ms, lg)
		tb := table{}
		tb.learn(c.Ops)
		t0 := time.Now()
		c.Obs = nil
		// a view handed out is the caller's (the observation hooks shuffle and trim it): it is re-read after the later
		// operations of the case and judged with its later content
		type heldView struct {
			at int
			v  []common.CoordinatedBlockProposal
		}
		var held []heldView
		defer func() {
			for _, h := range held {
				c.Obs[h.at].Out = tb.project(h.v)
			}
		}()
		for _, o := range c.Ops {
			at := int64(time.Since(t0))
			switch o.K {
			case "sleep":
				time.Sleep(time.Duration(o.D))
				continue
			case "add":
				ms.AddProposals(proposals(o.Ps)...)
			case "remove":
				ms.RemoveProposals(proposals(o.Ps)...)
			case "hookremove":
				hook.RunHook(outcomeOf(o.Rounds))
			case "view":
				v := ms.ViewProposals(types.UpkeepType(o.Typ))
				c.Obs = append(c.Obs, c11Ev{Op: o, At: at, Out: tb.project(v)})
				held = append(held, heldView{len(c.Obs) - 1, v})
				continue
			case "filter":
				// the proposal filterer drops the payloads whose work id is pending; it views (and purges) inside
				var payloads []common.UpkeepPayload
				for _, p := range o.Ps {
					payloads = append(payloads, common.UpkeepPayload{UpkeepID: UpkeepID(uint8(p.T), p.W), WorkID: widStr(p.W)})
				}
				kept, ferr := preprocessors.NewProposalFilterer(ms, types.UpkeepType(o.Typ)).PreProcess(context.Background(), payloads)
				v := ms.ViewProposals(types.UpkeepType(o.Typ))
				pend := map[string]bool{}
				for _, cp := range v {
					pend[cp.WorkID] = true
				}
				var want []string
				for _, pl := range payloads {
					if !pend[pl.WorkID] {
						want = append(want, pl.WorkID)
					}
				}
				var got []string
				for _, pl := range kept {
					got = append(got, pl.WorkID)
				}
				if ferr != nil || strings.Join(want, ",") != strings.Join(got, ",") {
					*viol = append(*viol, directViolation{c.Family, fmt.Sprintf("proposal filterer kept %v, pending view says %v (err %v)", got, want, ferr)})
				}
				c.Obs = append(c.Obs, c11Ev{Op: c11Op{K: "view", Typ: o.Typ}, At: at, Out: tb.project(v)})
				continue
			}
			c.Obs = append(c.Obs, c11Ev{Op: o, At: at})
		}
	})
}

// ---------------------------------------------------------------- proposal queue

func runQueue(t *testing.T, c *c11Case) {
	synctest.Test(t, func(t *testing.T) {
		lg := log.New(io.Discard, "", 0)
		q := stores.NewProposalQueue(UTG)
		hook := hooks.NewAddToProposalQHook(q, lg)
		tb := table{}
		tb.learn(c.Ops)
		t0 := time.Now()
		c.Obs = nil
		// what Dequeue handed out belongs to the caller (the two finalisation flows share the queue and keep the slice
		// while they build payloads): it is re-read after the later operations and judged with its later content
		type held struct {
			at int
			v  []common.CoordinatedBlockProposal
		}
		var kept []held
		defer func() {
			for _, h := range kept {
				c.Obs[h.at].Out = tb.project(h.v)
			}
		}()
		for _, o := range c.Ops {
			at := int64(time.Since(t0))
			switch o.K {
			case "sleep":
				time.Sleep(time.Duration(o.D))
				continue
			case "enq":
				if err := q.Enqueue(proposals(o.Ps)...); err != nil {
					t.Fatalf("Enqueue: %v", err)
				}
				c.Obs = append(c.Obs, c11Ev{Op: o, At: at})
			case "hook":
				hook.RunHook(outcomeOf(o.Rounds))
				c.Obs = append(c.Obs, c11Ev{Op: o, At: at})
			case "deq":
				v, err := q.Dequeue(types.UpkeepType(o.Typ), o.N)
				if err != nil {
					t.Fatalf("Dequeue: %v", err)
				}
				c.Obs = append(c.Obs, c11Ev{Op: o, At: at, Out: tb.project(v)})
				kept = append(kept, held{len(c.Obs) - 1, v})
			}
		}
	})
}

// ---------------------------------------------------------------- generators

func P(t, w int, b uint64, u int) c11Prop { return c11Prop{T: t, W: w, B: b, U: u} }
func mAdd(ps ...c11Prop) c11Op           { return c11Op{K: "add", Ps: ps} }
func mRem(ps ...c11Prop) c11Op           { return c11Op{K: "remove", Ps: ps} }
func mHook(rounds ...[]c11Prop) c11Op    { return c11Op{K: "hookremove", Rounds: rounds} }
func mView(typ int) c11Op                { return c11Op{K: "view", Typ: typ} }
func mFilter(typ int, ps ...c11Prop) c11Op {
	return c11Op{K: "filter", Typ: typ, Ps: ps}
}
func slp(d int64) c11Op                   { return c11Op{K: "sleep", D: d} }
func qEnq(ps ...c11Prop) c11Op            { return c11Op{K: "enq", Ps: ps} }
func qHook(rounds ...[]c11Prop) c11Op     { return c11Op{K: "hook", Rounds: rounds} }
func qDeq(typ, n int) c11Op               { return c11Op{K: "deq", Typ: typ, N: n} }

func c11Boundary() []c11Case {
	var cs []c11Case
	meta := func(fam string, ops ...c11Op) { cs = append(cs, c11Case{Kind: "meta", Family: fam, Ops: ops}) }
	a, b, c, d, e := P(1, 1, 5, 1), P(1, 2, 5, 2), P(1, 3, 5, 3), P(1, 4, 5, 4), P(1, 5, 5, 5)
	// finding 4: an expired key sorted BEFORE live ones (pinned commit: [c c], b omitted)
	meta("expired-first", mAdd(a), slp(2*hour), mAdd(b, c), slp(23*hour), mView(1), mView(1))
	meta("expired-first-conditional", mAdd(P(0, 1, 5, 1)), slp(2*hour), mAdd(P(0, 2, 5, 2), P(0, 3, 5, 3)), slp(23*hour), mView(0), mView(0))
	meta("expired-between", mAdd(a, c), mAdd(e), slp(2*hour), mAdd(b, d), slp(23*hour), mView(1), mView(1))
	meta("expired-after", mAdd(a, b), slp(2*hour), mAdd(c), slp(22*hour+1), mAdd(d), mView(1), slp(2*hour), mView(1), slp(23*hour), mView(1))
	meta("two-expired-first", mAdd(a, b), slp(2*hour), mAdd(c), slp(23*hour), mView(1), mView(1))
	meta("expired-live-expired-live", mAdd(a, c), slp(2*hour), mAdd(b, d), slp(23*hour), mView(1), mView(1))
	meta("all-expired", mAdd(a, b, c), slp(day+1), mView(1), mAdd(b), mView(1))
	meta("expiry-exact", mAdd(a, b), slp(day), mView(1), slp(1), mView(1))
	meta("unsorted-inserts", mAdd(e, c, a, d, b), mView(1), mRem(c), mView(1), mAdd(c), mView(1))
	meta("readd-refreshes-time", mAdd(a, b), slp(23*hour), mAdd(P(1, 1, 6, 9)), slp(2*hour), mView(1), slp(22*hour+1), mView(1))
	meta("hook-removes-surfaced", mAdd(a, b, c, P(0, 1, 5, 7)), mHook([]c11Prop{b}, []c11Prop{}, []c11Prop{c, P(0, 1, 5, 7)}), mView(1), mView(0), mAdd(b), mView(1))
	meta("hook-latest-round-empty", mAdd(a, b, c, d), mHook([]c11Prop{}, []c11Prop{b}, []c11Prop{}, []c11Prop{c}), mView(1), mAdd(b), mView(1))
	meta("hook-only-old-rounds", mAdd(a, b, c), mHook(nil, nil, []c11Prop{a, c}), mView(1), mHook(), mView(1))
	meta("remove-absent", mRem(a), mAdd(a), mRem(b, b), mView(1), mRem(a, a), mView(1))
	meta("types-kept-apart", mAdd(P(0, 1, 5, 1), P(1, 1, 5, 2), P(2, 1, 5, 3)), mView(0), mView(1), mView(2), mRem(P(0, 1, 5, 1)), mView(0), mView(1))
	meta("filterer", mAdd(a, c), slp(2*hour), mAdd(b), slp(23*hour), mFilter(1, a, b, c, d), mFilter(1, a, b, c, d))
	{
		var many, late []c11Prop
		for i := 1; i <= 30; i++ {
			many = append(many, P(1, 31-i, uint64(i), i))
		}
		for i := 2; i <= 30; i += 3 {
			late = append(late, P(1, i, 99, 100+i))
		}
		meta("thirty-mixed-expiry", mAdd(many...), slp(12*hour), mAdd(late...), slp(13*hour), mView(1), mView(1))
	}

	queue := func(fam string, ops ...c11Op) { cs = append(cs, c11Case{Kind: "queue", Family: fam, Ops: ops}) }
	p40, p41, p39 := P(1, 7, 40, 1), P(1, 7, 41, 2), P(1, 7, 39, 3)
	queue("dequeue-once", qEnq(p40), qDeq(1, 50), qDeq(1, 50), slp(sec), qDeq(1, 50))
	queue("same-block-reenqueue-in-window", qEnq(p40), qDeq(1, 50), slp(5*sec), qEnq(p40), qDeq(1, 50), qEnq(P(1, 7, 40, 8)), qDeq(1, 50))
	queue("higher-block-supersedes", qEnq(p40), qDeq(1, 50), slp(sec), qEnq(p41), qDeq(1, 50), qDeq(1, 50))
	queue("lower-block-ignored", qEnq(p40), slp(sec), qEnq(p39), qDeq(1, 50), qEnq(p39), qDeq(1, 50))
	queue("supersede-before-dequeue", qEnq(p40), qEnq(p41), qDeq(1, 50))
	queue("window-exact", qEnq(p40), slp(win), qDeq(1, 50))
	queue("window-plus-1", qEnq(p40), slp(win+1), qDeq(1, 50), qEnq(p40), qDeq(1, 50))
	queue("window-reopens", qEnq(p40), qDeq(1, 50), slp(win+1), qEnq(p40), qDeq(1, 50), qDeq(0, 50), qEnq(p40), qDeq(1, 50))
	queue("stale-record-blocks-until-a-dequeue", qEnq(p40), slp(win+sec), qEnq(p40), qDeq(1, 50), qEnq(p40), qDeq(1, 50))
	queue("types-kept-apart", qEnq(P(0, 1, 10, 1), P(1, 2, 10, 2), P(2, 3, 10, 3)), qDeq(0, 50), qDeq(1, 50), qDeq(2, 50), qDeq(0, 50))
	queue("limit-n", qEnq(P(1, 1, 10, 1), P(1, 2, 10, 2), P(1, 3, 10, 3), P(1, 4, 10, 4)), qDeq(1, 3), qDeq(1, 3), qDeq(1, 3), qDeq(1, 0))
	queue("dup-in-one-call", qEnq(P(1, 1, 10, 1), P(1, 1, 11, 2), P(1, 1, 10, 3)), qDeq(1, 50))
	{
		// chains of outcomes whose histories repeat the same proposals; one round and two ticks per second
		for _, cfg := range []struct {
			fam          string
			hist, rounds int
			period       int64
		}{{"history-repeat-6x14-1s", 6, 14, sec}, {"history-repeat-20x5-1s", 20, 5, sec}, {"history-repeat-5x12-5s", 5, 12, 5 * sec}} {
			var ops []c11Op
			var history [][]c11Prop
			for r := 0; r < cfg.rounds; r++ {
				var fresh []c11Prop
				if r%3 == 0 {
					fresh = append(fresh, P(1, 100+r, uint64(1000+r), r))
				}
				if r == 4 { // re-coordination of work id 100 on a higher block
					fresh = append(fresh, P(1, 100, 2000, 77))
				}
				if r%4 == 1 {
					fresh = append(fresh, P(0, 200+r, uint64(1000+r), r))
				}
				history = append([][]c11Prop{fresh}, history...)
				if len(history) > cfg.hist {
					history = history[:cfg.hist]
				}
				cp := make([][]c11Prop, len(history))
				copy(cp, history)
				ops = append(ops, qHook(cp...), slp(cfg.period/2), qDeq(1, 50), qDeq(0, 50), slp(cfg.period-cfg.period/2))
			}
			queue(cfg.fam, ops...)
		}
	}
	return cs
}

func c11RandomMeta(r *Rng) c11Case {
	c := c11Case{Kind: "meta", Family: "random-meta"}
	nw := 3 + r.Intn(5)
	n := 6 + r.Intn(12)
	uid := 0
	sleeps := []int64{1, hour, 2 * hour, 11 * hour, 12 * hour, 13 * hour, 23 * hour, day - 1, day, day + 1}
	mk := func() c11Prop {
		uid++
		typ := 1
		switch r.Intn(8) {
		case 0, 1:
			typ = 0
		case 2:
			if r.Chance(1, 3) {
				typ = 2
			}
		}
		return P(typ, 1+r.Intn(nw), uint64(1+r.Intn(4)), uid)
	}
	var added []c11Prop
	for i := 0; i < n; i++ {
		if r.Chance(1, 2) {
			c.Ops = append(c.Ops, slp(sleeps[r.Intn(len(sleeps))]))
		}
		switch r.Intn(10) {
		case 0, 1, 2, 3:
			k := 1 + r.Intn(4)
			var ps []c11Prop
			for j := 0; j < k; j++ {
				ps = append(ps, mk())
			}
			added = append(added, ps...)
			c.Ops = append(c.Ops, mAdd(ps...))
		case 4:
			var ps []c11Prop
			for j := 0; j < 1+r.Intn(2) && len(added) > 0; j++ {
				ps = append(ps, added[r.Intn(len(added))])
			}
			switch r.Intn(4) {
			case 0, 1:
				c.Ops = append(c.Ops, mRem(ps...))
			case 2:
				c.Ops = append(c.Ops, mHook(ps, nil))
			default:
				// surfaced in an older round only: the latest round of the outcome is empty
				c.Ops = append(c.Ops, mHook(nil, nil, ps))
			}
		case 5:
			var ps []c11Prop
			for w := 1; w <= nw; w++ {
				ps = append(ps, P(1, w, 0, 0))
			}
			c.Ops = append(c.Ops, mFilter(1, ps...))
		default:
			typ := 1
			if r.Chance(1, 4) {
				typ = 0
			}
			c.Ops = append(c.Ops, mView(typ))
		}
	}
	c.Ops = append(c.Ops, mView(1), mView(0))
	return c
}

func c11RandomQueue(r *Rng) c11Case {
	c := c11Case{Kind: "queue", Family: "random-queue"}
	nw := 2 + r.Intn(4)
	n := 8 + r.Intn(14)
	uid := 0
	sleeps := []int64{1, sec, sec, 5 * sec, 10 * sec, win - 1, win, win + 1, 21 * sec}
	mk := func() c11Prop {
		uid++
		typ := 1
		if r.Chance(1, 4) {
			typ = 0
		}
		w := 1 + r.Intn(nw)
		if typ == 0 {
			w += 50
		}
		return P(typ, w, uint64(1+r.Intn(3)), uid)
	}
	for i := 0; i < n; i++ {
		if r.Chance(1, 2) {
			c.Ops = append(c.Ops, slp(sleeps[r.Intn(len(sleeps))]))
		}
		switch r.Intn(10) {
		case 0, 1, 2:
			var ps []c11Prop
			for j := 0; j < 1+r.Intn(3); j++ {
				ps = append(ps, mk())
			}
			c.Ops = append(c.Ops, qEnq(ps...))
		case 3, 4:
			var rounds [][]c11Prop
			for k := 0; k < 1+r.Intn(3); k++ {
				var ps []c11Prop
				for j := 0; j < r.Intn(3); j++ {
					ps = append(ps, mk())
				}
				rounds = append(rounds, ps)
			}
			c.Ops = append(c.Ops, qHook(rounds...))
		default:
			typ := 1
			if r.Chance(1, 4) {
				typ = 0
			}
			nn := 50
			if r.Chance(1, 5) {
				nn = r.Intn(3)
			}
			c.Ops = append(c.Ops, qDeq(typ, nn))
		}
	}
	c.Ops = append(c.Ops, qDeq(1, 50), qDeq(0, 50))
	return c
}

// ---------------------------------------------------------------- Gallina emission

func propTerm(p c11Prop) string { return fmt.Sprintf("mkProp %d %d %d %d", p.T, p.W, p.B, p.U) }

func metaTerm(c c11Case) string {
	var ops, views []string
	for _, e := range c.Obs {
		switch e.Op.K {
		case "add":
			ops = append(ops, fmt.Sprintf("(%d, MAAdd %s)", e.At, CoqList(e.Op.Ps, propTerm)))
		case "remove":
			ops = append(ops, fmt.Sprintf("(%d, MARemove %s)", e.At, CoqList(e.Op.Ps, propTerm)))
		case "hookremove":
			var flat []c11Prop
			for _, r := range e.Op.Rounds {
				flat = append(flat, r...)
			}
			ops = append(ops, fmt.Sprintf("(%d, MARemove %s)", e.At, CoqList(flat, propTerm)))
		case "view":
			ops = append(ops, fmt.Sprintf("(%d, MAView %d%%N)", e.At, e.Op.Typ))
			views = append(views, CoqList(e.Out, propTerm))
		}
	}
	return "mkMsCase [" + strings.Join(ops, "; ") + "] [" + strings.Join(views, "; ") + "]"
}

func queueTerm(c c11Case) string {
	var ops, outs []string
	for _, e := range c.Obs {
		switch e.Op.K {
		case "enq":
			ops = append(ops, fmt.Sprintf("(%d, QAEnq %s)", e.At, CoqList(e.Op.Ps, propTerm)))
		case "hook":
			ops = append(ops, fmt.Sprintf("(%d, QAHook %s)", e.At, CoqList(e.Op.Rounds, func(r []c11Prop) string { return CoqList(r, propTerm) })))
		case "deq":
			ops = append(ops, fmt.Sprintf("(%d, QADeq %d%%N %d%%nat)", e.At, e.Op.Typ, e.Op.N))
			outs = append(outs, CoqList(e.Out, propTerm))
		}
	}
	return "mkPqCase [" + strings.Join(ops, "; ") + "] [" + strings.Join(outs, "; ") + "]"
}

func TestC11(t *testing.T) {
	dir := OutDir(t, "C11")
	var cases []c11Case
	if rf := ReplayFile(); rf != "" {
		cases = LoadReplayCases[c11Case](t, rf)
	} else {
		cases = append(cases, LoadCorpus[c11Case](t, "C11")...)
		cases = append(cases, c11Boundary()...)
		cases = append(cases, c11E2EFamilies()...)
		r := NewRng(EnvSeed())
		n := EnvInt("VERIF_N", 120)
		for i := 0; i < n; i++ {
			cases = append(cases, c11RandomMeta(r))
		}
		for i := 0; i < n; i++ {
			cases = append(cases, c11RandomQueue(r))
		}
	}
	metaF := NewCaseFile("C11", "Base.Util", "Model.Metadata", "Gen.Generated")
	metaF.Prelude = "Open Scope Z_scope."
	queueF := NewCaseFile("C11", "Base.Util", "Model.Metadata", "Model.ProposalQueue", "Gen.Generated")
	queueF.Prelude = "Open Scope Z_scope."
	var metaCases, queueCases []c11Case
	fam := map[string]int{}
	viol := []directViolation{}
	evals := 0
	for i := range cases {
		c := &cases[i]
		if c.Kind == "e2e" {
			runE2E(t, c, &viol)
			queueF.Add(queueTerm(*c))
			queueCases = append(queueCases, *c)
		} else if c.Kind == "queue" {
			runQueue(t, c)
			queueF.Add(queueTerm(*c))
			queueCases = append(queueCases, *c)
		} else {
			runMeta(t, c, &viol)
			metaF.Add(metaTerm(*c))
			metaCases = append(metaCases, *c)
			for _, o := range c.Ops {
				if o.K == "filter" {
					evals++
				}
			}
		}
		fam[c.Family]++
	}
	if ReplayFile() == "" {
		evals += runCarry(t, &viol)
	}
	ex := "(ConditionalExpiry, LogRecoveryExpiry)"
	metaF.Write(t, dir, "cases.v", "ms_case", [][2]string{
		{"mism", "find_idx (ms_mism " + ex + ") cases"},
		{"bad", "find_idx (ms_bad " + ex + ") cases"},
		{"kf_view_aliasing", "find_idx (ms_kf_view_aliasing " + ex + ") cases"},
		{"nontriv", "find_idx ms_nontriv cases"},
		{"cov_pinned_loop_would_differ", "find_idx (ms_cov_alias_differs " + ex + ") cases"},
	})
	WriteJSON(t, filepath.Join(dir, "cases.json"), map[string]any{
		"property": "C11", "seed": EnvSeed(), "cases": metaCases, "families": fam,
	})
	queueF.Write(t, dir, "cases_queue.v", "pq_case", [][2]string{
		{"mism", "find_idx (pq_mism ProposalQueueExpiry) cases"},
		{"bad", "find_idx (pq_bad ProposalQueueExpiry) cases"},
		{"nontriv", "find_idx pq_nontriv cases"},
		{"cov_handed_out_again_after_window", "find_idx pq_cov_rehanded cases"},
	})
	WriteJSON(t, filepath.Join(dir, "cases_queue.json"), map[string]any{
		"property": "C11", "seed": EnvSeed(), "cases": queueCases,
	})
	keys := []string{}
	for k := range fam {
		keys = append(keys, k)
	}
	sort.Strings(keys)
	WriteJSON(t, filepath.Join(dir, "direct.json"), map[string]any{
		"evaluations": evals, "nontrivial_keys": []string{}, "violations": viol, "known": map[string]any{},
		"samples": []any{}, "distribution": map[string]any{"proposal_filterer_calls_checked_against_view": evals},
	})
}
