package c11

// End-to-end family: a plug-in instance from the public factory (real AddToProposalQHook inside
// Observation, real proposal queue, real finalisation flows with their 1 s tickers and
// coordinatedProposalsTick.Value) is fed a chain of outcomes whose surfaced-proposal histories
// repeat proposals round after round.  What the two finalisation flows are handed is observed at
// the PayloadBuilder (the only thing between Dequeue and the flow's observer) and emitted as one
// more proposal-queue case: hook at the time of each Observation, one Dequeue per tick and flow.

import (
	"context"
	"encoding/json"
	"io"
	"log"
	"math/big"
	"sort"
	"sync"
	"testing"
	"testing/synctest"
	"time"

	. "verifharness/h"

	commontypes "github.com/smartcontractkit/libocr/commontypes"
	"github.com/smartcontractkit/libocr/offchainreporting2plus/ocr3types"

	ocr2keepersv3 "github.com/smartcontractkit/chainlink-automation/pkg/v3"
	"github.com/smartcontractkit/chainlink-automation/pkg/v3/flows"
	"github.com/smartcontractkit/chainlink-automation/pkg/v3/plugin"
	"github.com/smartcontractkit/chainlink-automation/pkg/v3/runner"
	common "github.com/smartcontractkit/chainlink-common/pkg/types/automation"
)

type e2eCfg struct {
	Rounds int   `json:"rounds"`
	Period int64 `json:"period"` // ns between two Observation calls
	Hist   int   `json:"hist"`   // rounds of history an outcome carries (<= 20)
	Every  int   `json:"every"`  // a fresh log proposal every k-th round (conditional every 2k-th)
}

type builderCall struct {
	at int64
	ps []common.CoordinatedBlockProposal
}

type recBuilder struct {
	mu    sync.Mutex
	t0    time.Time
	calls []builderCall
}

func (b *recBuilder) BuildPayloads(_ context.Context, ps ...common.CoordinatedBlockProposal) ([]common.UpkeepPayload, error) {
	b.mu.Lock()
	b.calls = append(b.calls, builderCall{at: int64(time.Since(b.t0)), ps: append([]common.CoordinatedBlockProposal(nil), ps...)})
	b.mu.Unlock()
	out := make([]common.UpkeepPayload, 0, len(ps))
	for _, p := range ps {
		out = append(out, common.UpkeepPayload{UpkeepID: p.UpkeepID, Trigger: p.Trigger, WorkID: p.WorkID})
	}
	return out, nil
}

// a valid proposal (work id from the real generator; log upkeeps carry a log extension)
func e2eProposal(typ, n int, blk uint64) common.CoordinatedBlockProposal {
	id := UpkeepID(uint8(typ), n)
	var tr common.Trigger
	if typ == 1 {
		ext := &common.LogTriggerExtension{TxHash: Hash32("tx", n), Index: uint32(n), BlockHash: Hash32("lb", n), BlockNumber: 7}
		tr = common.NewLogTrigger(common.BlockNumber(blk), Hash32("blk", int(blk)), ext)
	} else {
		tr = common.NewTrigger(common.BlockNumber(blk), Hash32("blk", int(blk)))
	}
	return common.CoordinatedBlockProposal{UpkeepID: id, Trigger: tr, WorkID: WG(id, tr)}
}

func runE2E(t *testing.T, c *c11Case, viol *[]directViolation) {
	cfg := c.E2E
	synctest.Test(t, func(t *testing.T) {
		bld := &recBuilder{t0: time.Now()}
		fac := plugin.NewReportingPluginFactory(
			&FakeLogProvider{}, &FakeEvents{}, NewFakeBlocks(), &FakeRecoverable{}, bld, &FakeGetter{}, &FakeRunnable{},
			runner.RunnerConfig{Workers: 4, WorkerQueueLength: 100, CacheExpire: 20 * 60e9, CacheClean: 30e9},
			&RecEncoder{}, UTG, WG, &FakeUpdater{}, log.New(io.Discard, "", 0),
		)
		plg, _, err := fac.NewReportingPlugin(context.Background(), ocr3types.ReportingPluginConfig{
			OracleID: commontypes.OracleID(0), N: 4, F: 1, OffchainConfig: []byte("{}"),
		})
		if err != nil {
			t.Fatalf("NewReportingPlugin: %v", err)
		}
		synctest.Wait() // all flows started; their tickers are armed at virtual t0
		time.Sleep(250 * time.Millisecond) // Observations at x.25 / x.75 s, ticks at whole seconds

		intern := map[string]c11Prop{} // work id + block -> generator-form proposal
		widNo := map[string]int{}
		proj := func(cp common.CoordinatedBlockProposal) c11Prop {
			k := propKey(cp)
			if p, ok := intern[k]; ok {
				return p
			}
			if _, ok := widNo[cp.WorkID]; !ok {
				widNo[cp.WorkID] = len(widNo) + 1
			}
			p := c11Prop{T: int(UTG(cp.UpkeepID)), W: widNo[cp.WorkID], B: uint64(cp.Trigger.BlockNumber), U: len(intern) + 1}
			intern[k] = p
			return p
		}
		type hookEv struct {
			at     int64
			rounds [][]c11Prop
		}
		var hooksSeen []hookEv
		var history [][]common.CoordinatedBlockProposal
		for r := 0; r < cfg.Rounds; r++ {
			var fresh []common.CoordinatedBlockProposal
			if cfg.Every > 0 && r%cfg.Every == 0 {
				fresh = append(fresh, e2eProposal(1, r, uint64(1000+r)))
			}
			if cfg.Every > 0 && r%(2*cfg.Every) == 1 {
				fresh = append(fresh, e2eProposal(0, r, uint64(1000+r)))
			}
			if r == cfg.Hist+2 {
				// work of round 0 has left the history: it is coordinated again, on a higher block
				fresh = append(fresh, e2eProposal(1, 0, 5000))
			}
			history = append([][]common.CoordinatedBlockProposal{fresh}, history...)
			if len(history) > cfg.Hist {
				history = history[:cfg.Hist]
			}
			out := ocr2keepersv3.AutomationOutcome{SurfacedProposals: history}
			raw, err := out.Encode()
			if err != nil {
				t.Fatal(err)
			}
			he := hookEv{at: int64(time.Since(bld.t0))}
			for _, round := range history {
				var rr []c11Prop
				for _, cp := range round {
					rr = append(rr, proj(cp))
				}
				he.rounds = append(he.rounds, rr)
			}
			if _, err := plg.Observation(context.Background(), ocr3types.OutcomeContext{SeqNr: uint64(r + 2), PreviousOutcome: raw}, nil); err != nil {
				*viol = append(*viol, directViolation{c.Family, "Observation rejected a valid previous outcome: " + err.Error()})
			}
			hooksSeen = append(hooksSeen, he)
			time.Sleep(time.Duration(cfg.Period))
		}
		synctest.Wait()
		if err := plg.Close(); err != nil {
			t.Logf("plugin close: %v", err)
		}
		synctest.Wait()

		// merge: hooks and builder calls by virtual time (hooks sit at x.5 s, ticks at whole seconds)
		bld.mu.Lock()
		calls := append([]builderCall(nil), bld.calls...)
		bld.mu.Unlock()
		sort.SliceStable(calls, func(i, j int) bool { return calls[i].at < calls[j].at })
		c.Obs = nil
		hi := 0
		flush := func(upto int64) {
			for hi < len(hooksSeen) && hooksSeen[hi].at <= upto {
				c.Obs = append(c.Obs, c11Ev{Op: c11Op{K: "hook", Rounds: hooksSeen[hi].rounds}, At: hooksSeen[hi].at})
				hi++
			}
		}
		for i := 0; i < len(calls); {
			j := i
			for j < len(calls) && calls[j].at == calls[i].at {
				j++
			}
			flush(calls[i].at - 1)
			// one call per finalisation flow and tick; an empty call carries no type: give it the one not seen
			used := map[int]bool{}
			typs := make([]int, j-i)
			for k := i; k < j; k++ {
				typs[k-i] = -1
				if len(calls[k].ps) > 0 {
					ty := int(UTG(calls[k].ps[0].UpkeepID))
					for _, cp := range calls[k].ps {
						if int(UTG(cp.UpkeepID)) != ty {
							*viol = append(*viol, directViolation{c.Family, "one finalisation tick was handed proposals of two upkeep types"})
						}
					}
					typs[k-i] = ty
					used[ty] = true
				}
			}
			for k := range typs {
				if typs[k] == -1 {
					ty := 1
					if used[1] && !used[0] {
						ty = 0
					}
					typs[k] = ty
					used[ty] = true
				}
			}
			if j-i != 2 {
				*viol = append(*viol, directViolation{c.Family, "expected one call per finalisation flow and tick"})
			}
			for k := i; k < j; k++ {
				var out []c11Prop
				for _, cp := range calls[k].ps {
					out = append(out, proj(cp))
				}
				if out == nil {
					out = []c11Prop{}
				}
				c.Obs = append(c.Obs, c11Ev{Op: c11Op{K: "deq", Typ: typs[k-i], N: flows.FinalRecoveryBatchSize}, At: calls[k].at, Out: out})
			}
			i = j
		}
		flush(1 << 62)
	})
}

func c11E2EFamilies() []c11Case {
	return []c11Case{
		{Kind: "e2e", Family: "e2e-plugin-20-round-history-1s", E2E: &e2eCfg{Rounds: 30, Period: sec, Hist: 20, Every: 5}},
		{Kind: "e2e", Family: "e2e-plugin-20-round-history-1.5s", E2E: &e2eCfg{Rounds: 24, Period: sec + sec/2, Hist: 20, Every: 6}},
		{Kind: "e2e", Family: "e2e-plugin-4-round-history-1s", E2E: &e2eCfg{Rounds: 30, Period: sec, Hist: 4, Every: 3}},
	}
}

// runCarry: "a proposal surfaced in an outcome is removed from the node's own pending set so it is not proposed
// again", through the plug-in's Observation (real pre-build hooks, real metadata store, real recovery-proposal and
// sampling flows).  The outcome that surfaces the work is handed to Observation several times, byte for byte (idle
// rounds carry an outcome over unchanged), and the node's own recoverer proposes the same work AFTER the hooks ran
// on that outcome for the first time.  The work is in the round history, so no observation may propose it.
func runCarry(t *testing.T, viol *[]directViolation) int {
	evals := 0
	for variant := 0; variant < 3; variant++ {
		synctest.Test(t, func(t *testing.T) {
			nd := NewNode(t, NodeOpts{N: 4, F: 1})
			nd.Runnable.SetFn(func(_ context.Context, ps ...common.UpkeepPayload) ([]common.CheckResult, error) {
				var out []common.CheckResult
				for _, p := range ps {
					out = append(out, common.CheckResult{Eligible: true, UpkeepID: p.UpkeepID, Trigger: p.Trigger, WorkID: p.WorkID,
						GasAllocated: 1, FastGasWei: big.NewInt(1), LinkNative: big.NewInt(1)})
				}
				return out, nil
			})
			proposedOther := false
			defer func() {
				if !proposedOther {
					*viol = append(*viol, directViolation{"carried-outcome", "harness: the control proposal never appeared in an observation (scenario did not exercise the pending set)"})
				}
			}()
			defer func() {
				time.Sleep(2 * time.Second)
				synctest.Wait()
				nd.Plugin.Close()
				synctest.Wait()
			}()
			mk := func(n int) common.UpkeepPayload {
				p := e2eProposal(1, 7000+n, 900)
				return common.UpkeepPayload{UpkeepID: p.UpkeepID, Trigger: p.Trigger, WorkID: p.WorkID}
			}
			w, other := mk(variant), mk(100+variant)
			surf := common.CoordinatedBlockProposal{UpkeepID: w.UpkeepID, Trigger: w.Trigger, WorkID: w.WorkID}
			hist := [][]common.CoordinatedBlockProposal{{}, {surf}}
			if variant == 1 {
				hist = [][]common.CoordinatedBlockProposal{{surf}}
			}
			raw, _ := ocr2keepersv3.AutomationOutcome{SurfacedProposals: hist}.Encode()
			observe := func(seq uint64, what string) {
				evals++
				ob, err := nd.Plugin.Observation(context.Background(), ocr3types.OutcomeContext{SeqNr: seq, PreviousOutcome: append([]byte(nil), raw...)}, nil)
				if err != nil {
					*viol = append(*viol, directViolation{"carried-outcome", what + ": Observation failed: " + err.Error()})
					return
				}
				var o ocr2keepersv3.AutomationObservation
				_ = gojsonUnmarshal(ob, &o)
				for _, p := range o.UpkeepProposals {
					if p.WorkID == other.WorkID {
						proposedOther = true
					}
					if p.WorkID == w.WorkID {
						*viol = append(*viol, directViolation{"carried-outcome", what + ": the observation proposes work that the previous outcome lists as surfaced"})
					}
				}
			}
			if variant != 2 {
				observe(2, "first observation on the outcome")
			}
			// the node's own recoverer proposes the surfaced work (and something else) only now
			nd.Recov.Push(w, other)
			time.Sleep(2500 * time.Millisecond)
			synctest.Wait()
			observe(3, "observation after the node proposed the work itself, same outcome carried over")
			time.Sleep(1500 * time.Millisecond)
			synctest.Wait()
			observe(4, "a further idle round on the same outcome")
			nd.Recov.Push(w)
			time.Sleep(2500 * time.Millisecond)
			synctest.Wait()
			observe(5, "proposed once more, same outcome carried over")
		})
	}
	return evals
}

func gojsonUnmarshal(b []byte, v any) error { return json.Unmarshal(b, v) }
