// Package c01 drives the real ocr3Plugin.Outcome (through the public factory) for the
// properties C01, C02, C05 and the outcome clauses of C03.  gen.go: generator-form cases,
// construction of the real values, interning to the Coq case record.
package c01

import (
	"encoding/json"
	"bytes"
	"encoding/hex"
	"fmt"
	"math/big"
	"sort"
	"strings"

	. "verifharness/h"

	ocr2keepers "github.com/smartcontractkit/chainlink-automation/pkg/v3"
	"github.com/smartcontractkit/chainlink-automation/pkg/v3/random"
	common "github.com/smartcontractkit/chainlink-common/pkg/types/automation"
)

// ---------------------------------------------------------------- generator form

type GRes struct {
	Kind   int    `json:"kind"` // 0 conditional, 1 log
	Upk    int    `json:"upk"`
	Log    int    `json:"log,omitempty"`
	Blk    uint64 `json:"blk"`
	Hash   int    `json:"hash"` // block hash tag; 0 = all-zero hash
	ExtBlk uint64 `json:"extblk,omitempty"`
	Gas    uint64 `json:"gas"`
	PD     string `json:"pd"`            // perform data, hex; "-" = nil
	Fgw    string `json:"fgw"`           // decimal; "" = nil
	Ln     string `json:"ln"`            // decimal; "" = nil
	State  uint8  `json:"state,omitempty"`
	Retry  bool   `json:"retry,omitempty"`
	Inelig bool   `json:"inelig,omitempty"`
	Reason uint8  `json:"reason,omitempty"`
	BadWid bool   `json:"badwid,omitempty"`
	Flip   bool   `json:"flip,omitempty"` // extension/type mismatch
	Fork   int    `json:"fork,omitempty"` // non-zero: the log was re-included on another fork (same tx hash and index, other log block hash)
}

type GProp struct {
	Kind   int    `json:"kind"`
	Upk    int    `json:"upk"`
	Log    int    `json:"log,omitempty"`
	Blk    uint64 `json:"blk"`
	Hash   int    `json:"hash"`
	ExtBlk uint64 `json:"extblk,omitempty"`
	BadWid bool   `json:"badwid,omitempty"`
	Flip   bool   `json:"flip,omitempty"`
	Fork   int    `json:"fork,omitempty"`
}

type GBlock struct {
	Num  uint64 `json:"num"`
	Hash int    `json:"hash"`
}

type GObs struct {
	Raw   string   `json:"raw,omitempty"` // if set: these bytes are sent instead
	Perf  []GRes   `json:"perf,omitempty"`
	Props []GProp  `json:"props,omitempty"`
	Hist  []GBlock `json:"hist,omitempty"`
}

type GOutcome struct {
	Agreed []GRes    `json:"agreed,omitempty"`
	Surf   [][]GProp `json:"surf,omitempty"`
}

type GCase struct {
	Family   string    `json:"family"`
	N        int       `json:"n"`
	F        int       `json:"f"`
	Seq      uint64    `json:"seq"`
	Digest   int       `json:"digest"`
	PrevKind int       `json:"prev_kind"` // 0 nil, 1 raw bytes (PrevRaw), 2 structured (Prev)
	PrevRaw  string    `json:"prev_raw,omitempty"`
	Prev     *GOutcome `json:"prev,omitempty"`
	Obs      []GObs    `json:"obs"`
	// observed
	OutErr  bool     `json:"out_err"`
	OutJSON string   `json:"out_json,omitempty"`
	NReports int     `json:"n_reports"`
	AltOuts []string `json:"alt_outs,omitempty"` // other distinct outcomes seen among the evaluations (map order!)
	Det     bool   `json:"det"`
	Evals   int    `json:"evals"`
}

// ---------------------------------------------------------------- real values

func blockHash(tag int) [32]byte {
	if tag == 0 {
		return [32]byte{}
	}
	return Hash32("blockhash", tag)
}

func trigOf(kind, logn int, blk uint64, hash int, extblk uint64, flip bool, fork ...int) common.Trigger {
	hasExt := kind == 1
	if flip {
		hasExt = !hasExt
	}
	if hasExt {
		lbh := Hash32("logblock", logn)
		if len(fork) > 0 && fork[0] != 0 {
			lbh = Hash32("logblock-fork", logn*16+fork[0])
		}
		return common.NewLogTrigger(common.BlockNumber(blk), blockHash(hash), &common.LogTriggerExtension{
			TxHash: Hash32("tx", logn), Index: uint32(logn % 7), BlockHash: lbh, BlockNumber: common.BlockNumber(extblk)})
	}
	return common.NewTrigger(common.BlockNumber(blk), blockHash(hash))
}

func bigOf(s string) *big.Int {
	if s == "" {
		return nil
	}
	v, ok := new(big.Int).SetString(s, 10)
	if !ok {
		panic("bad big int " + s)
	}
	return v
}

// pdBytes: perform data as hex, or "xN:HH" for N bytes of value HH (large payloads stay small in the case files)
func pdBytes(pd string) ([]byte, error) {
	if strings.HasPrefix(pd, "x") {
		var n int
		var v byte
		if _, err := fmt.Sscanf(pd, "x%d:%02x", &n, &v); err != nil {
			return nil, err
		}
		return bytes.Repeat([]byte{v}, n), nil
	}
	return hex.DecodeString(pd)
}

func (g GRes) real() common.CheckResult {
	r := common.CheckResult{
		PipelineExecutionState: g.State, Retryable: g.Retry, Eligible: !g.Inelig, IneligibilityReason: g.Reason,
		UpkeepID: UpkeepID(uint8(g.Kind), g.Upk), Trigger: trigOf(g.Kind, g.Log, g.Blk, g.Hash, g.ExtBlk, g.Flip, g.Fork),
		GasAllocated: g.Gas, FastGasWei: bigOf(g.Fgw), LinkNative: bigOf(g.Ln),
	}
	if g.PD != "-" {
		b, err := pdBytes(g.PD)
		if err != nil {
			panic(err)
		}
		r.PerformData = b
		if len(b) == 0 {
			r.PerformData = []byte{}
		}
	}
	r.WorkID = WG(r.UpkeepID, r.Trigger)
	if g.BadWid {
		r.WorkID = "00" + r.WorkID[2:]
		if r.WorkID == WG(r.UpkeepID, r.Trigger) {
			r.WorkID = "11" + r.WorkID[2:]
		}
	}
	return r
}

func (g GProp) real() common.CoordinatedBlockProposal {
	p := common.CoordinatedBlockProposal{UpkeepID: UpkeepID(uint8(g.Kind), g.Upk), Trigger: trigOf(g.Kind, g.Log, g.Blk, g.Hash, g.ExtBlk, g.Flip, g.Fork)}
	p.WorkID = WG(p.UpkeepID, p.Trigger)
	if g.BadWid {
		p.WorkID = "00" + p.WorkID[2:]
		if p.WorkID == WG(p.UpkeepID, p.Trigger) {
			p.WorkID = "11" + p.WorkID[2:]
		}
	}
	return p
}

func (g GObs) real() ocr2keepers.AutomationObservation {
	var o ocr2keepers.AutomationObservation
	for _, r := range g.Perf {
		o.Performable = append(o.Performable, r.real())
	}
	for _, p := range g.Props {
		o.UpkeepProposals = append(o.UpkeepProposals, p.real())
	}
	for _, b := range g.Hist {
		o.BlockHistory = append(o.BlockHistory, common.BlockKey{Number: common.BlockNumber(b.Num), Hash: blockHash(b.Hash)})
	}
	return o
}

func (g GOutcome) real() ocr2keepers.AutomationOutcome {
	var o ocr2keepers.AutomationOutcome
	for _, r := range g.Agreed {
		o.AgreedPerformables = append(o.AgreedPerformables, r.real())
	}
	for _, rd := range g.Surf {
		round := []common.CoordinatedBlockProposal{}
		for _, p := range rd {
			round = append(round, p.real())
		}
		o.SurfacedProposals = append(o.SurfacedProposals, round)
	}
	return o
}

func (g GObs) bytes() []byte {
	if g.Raw != "" {
		return []byte(g.Raw)
	}
	b, err := g.real().Encode()
	if err != nil {
		panic(err)
	}
	return b
}

// sparse returns the observation as raw JSON whose block keys lack the member [drop] ("Hash" or "Number"), or are
// null when drop is "": another encoder version or a faulty reporter may send that; a missing member is the zero value
func (g GObs) sparse(drop string) GObs {
	var m map[string]json.RawMessage
	if err := json.Unmarshal(g.bytes(), &m); err != nil {
		panic(err)
	}
	var hist []map[string]json.RawMessage
	if err := json.Unmarshal(m["BlockHistory"], &hist); err != nil {
		panic(err)
	}
	var out []any
	for _, h := range hist {
		if drop == "" {
			out = append(out, nil)
			continue
		}
		delete(h, drop)
		out = append(out, h)
	}
	hb, _ := json.Marshal(out)
	m["BlockHistory"] = hb
	b, _ := json.Marshal(m)
	return GObs{Raw: string(b)}
}

func digestOf(d int) (cd [32]byte) {
	cd[0], cd[1], cd[31] = byte(d), byte(d>>8), 0x5a
	return
}

// ---------------------------------------------------------------- interning for Coq

type interning struct {
	upk    *Interner
	wid    *Interner
	hashes map[[32]byte]bool
	hrank  map[[32]byte]int
	rows   []common.CheckResult
	rowKey map[string]int
	wgKeys map[string]wgEntry
	utgTab map[int]int
}

type wgEntry struct {
	upk int
	ext *common.LogTriggerExtension
	wid int
}

func resultKey(r common.CheckResult) string {
	pd := hex.EncodeToString(r.PerformData) // nil and empty are the same value for agreement
	f, l := "nil", "nil"
	if r.FastGasWei != nil {
		f = r.FastGasWei.String()
	}
	if r.LinkNative != nil {
		l = r.LinkNative.String()
	}
	return fmt.Sprintf("%d|%v|%v|%d|%x|%s|%s|%d|%s|%s|%s", r.PipelineExecutionState, r.Retryable, r.Eligible, r.IneligibilityReason,
		r.UpkeepID, r.Trigger.String(), r.WorkID, r.GasAllocated, pd, f, l)
}

func newInterning() *interning {
	return &interning{upk: NewInterner(), wid: NewInterner(), hashes: map[[32]byte]bool{}, rowKey: map[string]int{},
		wgKeys: map[string]wgEntry{}, utgTab: map[int]int{}}
}

func (in *interning) noteTrig(t common.Trigger) {
	in.hashes[t.BlockHash] = true
	if t.LogTriggerExtension != nil {
		in.hashes[t.LogTriggerExtension.TxHash] = true
		in.hashes[t.LogTriggerExtension.BlockHash] = true
	}
}

func (in *interning) noteUnit(id common.UpkeepIdentifier, t common.Trigger, wid string) {
	in.noteTrig(t)
	u := in.upk.ID(string(id[:]))
	in.utgTab[u] = int(UTG(id))
	in.wid.ID(wid)
	// tabulate the real work-id generator on (upkeep, extension identity)
	k := fmt.Sprintf("%d/", u)
	if t.LogTriggerExtension != nil {
		k += fmt.Sprintf("%x/%d/%x", t.LogTriggerExtension.TxHash, t.LogTriggerExtension.Index, t.LogTriggerExtension.BlockHash)
	}
	if _, ok := in.wgKeys[k]; !ok {
		real := WG(id, t)
		// oracle assumption wg_ignores_block, checked on the real function
		t2 := t
		t2.BlockNumber, t2.BlockHash = 0, [32]byte{}
		if t.LogTriggerExtension != nil {
			e := *t.LogTriggerExtension
			e.BlockNumber = 0
			t2.LogTriggerExtension = &e
		}
		if WG(id, t2) != real {
			panic("oracle assumption wg_ignores_block violated by the real WorkIDGenerator")
		}
		in.wgKeys[k] = wgEntry{upk: u, ext: t.LogTriggerExtension, wid: in.wid.ID(real)}
	}
}

func (in *interning) noteResult(r common.CheckResult) {
	in.noteUnit(r.UpkeepID, r.Trigger, r.WorkID)
	k := resultKey(r)
	if _, ok := in.rowKey[k]; !ok {
		in.rowKey[k] = len(in.rows)
		in.rows = append(in.rows, r)
	}
}

func (in *interning) finish() {
	var hs [][32]byte
	for h := range in.hashes {
		if h != ([32]byte{}) {
			hs = append(hs, h)
		}
	}
	sort.Slice(hs, func(i, j int) bool { return string(hs[i][:]) < string(hs[j][:]) })
	in.hrank = map[[32]byte]int{{}: 0}
	for i, h := range hs {
		in.hrank[h] = i + 1
	}
}

func (in *interning) trig(t common.Trigger) string {
	ext := "None"
	if e := t.LogTriggerExtension; e != nil {
		ext = fmt.Sprintf("(Some (mkExt %d %d %d %d))", in.hrank[e.TxHash], e.Index, in.hrank[e.BlockHash], uint64(e.BlockNumber))
	}
	return fmt.Sprintf("(mkTrig %d %d %s)", uint64(t.BlockNumber), in.hrank[t.BlockHash], ext)
}

func optZ(v *big.Int) string {
	if v == nil {
		return "None"
	}
	return "(Some (" + v.String() + ")%Z)"
}

func (in *interning) result(r common.CheckResult) string {
	pd := "[]"
	if len(r.PerformData) > 0 {
		pd = fmt.Sprintf("[%d]", in.upk.ID("pd:"+string(r.PerformData))+1000000)
	}
	return fmt.Sprintf("(mkRes %d %s %s %d %d %s %d %d %s %s %s)", r.PipelineExecutionState, CoqBool(r.Retryable), CoqBool(r.Eligible),
		r.IneligibilityReason, in.upk.ID(string(r.UpkeepID[:])), in.trig(r.Trigger), in.wid.ID(r.WorkID), r.GasAllocated, pd,
		optZ(r.FastGasWei), optZ(r.LinkNative))
}

func (in *interning) prop(p common.CoordinatedBlockProposal) string {
	return fmt.Sprintf("(mkProp %d %s %d)", in.upk.ID(string(p.UpkeepID[:])), in.trig(p.Trigger), in.wid.ID(p.WorkID))
}

func (in *interning) rowIdx(r common.CheckResult) int {
	if i, ok := in.rowKey[resultKey(r)]; ok {
		return i
	}
	return len(in.rows) + 7 // foreign result
}

// shufRanks: rank of ShuffleString(wid, key(digest, seq)) for every interned work id; the oracle
// assumption "shuf is injective" is checked on the real function.
func (in *interning) shufTable(cd [32]byte, seq uint64) string {
	key := random.GetRandomKeySource(cd[:], seq)
	var wids []string
	for _, k := range in.wid.Keys() {
		wids = append(wids, k)
	}
	sh := map[string]string{}
	seen := map[string]string{}
	var all []string
	for _, w := range wids {
		s := random.ShuffleString(w, key)
		if prev, ok := seen[s]; ok && prev != w {
			panic("oracle assumption shuf_inj violated by the real ShuffleString")
		}
		seen[s] = w
		sh[w] = s
		all = append(all, s)
	}
	rk := RankOf(all)
	var parts []string
	for _, w := range wids {
		parts = append(parts, fmt.Sprintf("(%d, %d)", in.wid.ID(w), rk[sh[w]]))
	}
	return "[" + strings.Join(parts, "; ") + "]"
}
