package c01

import (
	"sync"
	"bytes"
	"context"
	"encoding/json"
	"fmt"
	"path/filepath"
	"sort"
	"strings"
	"testing"
	"testing/synctest"
	"time"

	. "verifharness/h"

	"github.com/smartcontractkit/libocr/commontypes"
	"github.com/smartcontractkit/libocr/offchainreporting2plus/ocr3types"
	ocr2plustypes "github.com/smartcontractkit/libocr/offchainreporting2plus/types"

	ocr2keepers "github.com/smartcontractkit/chainlink-automation/pkg/v3"
	"github.com/smartcontractkit/chainlink-automation/pkg/v3/plugin"
	common "github.com/smartcontractkit/chainlink-common/pkg/types/automation"
)

// ---------------------------------------------------------------- running one case on the real code

// pool keeps, per (digest, f), three differently populated plug-in instances.
type pool struct {
	t     *testing.T
	nodes map[string][]*Node
	fresh []*Node // single-use reference instances (closed at the end of the bubble)
}

func (p *pool) get(n, f, digest int) []*Node {
	key := fmt.Sprintf("%d/%d", f, digest) // Outcome reads F and the digest only
	if ns, ok := p.nodes[key]; ok {
		return ns
	}
	var ns []*Node
	for i := 0; i < 3; i++ {
		nd := NewNode(p.t, NodeOpts{N: n, F: f, Oracle: i, Digest: ocr2plustypes.ConfigDigest(digestOf(digest))})
		ns = append(ns, nd)
	}
	// instance 1: staged results, block history, an accepted (in-flight) report, a later clock
	populate(p.t, ns[1], 1)
	// instance 2: different staged results and proposals, a much later clock
	populate(p.t, ns[2], 2)
	p.nodes[key] = ns
	return ns
}

func populate(t *testing.T, nd *Node, variant int) {
	var payloads []common.UpkeepPayload
	for i := 0; i < 12*variant; i++ {
		id := UpkeepID(1, 9000+i*variant)
		tr := trigOf(1, 9000+i, uint64(50+i), 3, 0, false)
		payloads = append(payloads, common.UpkeepPayload{UpkeepID: id, Trigger: tr, WorkID: WG(id, tr)})
	}
	nd.Runnable.SetFn(func(_ context.Context, ps ...common.UpkeepPayload) ([]common.CheckResult, error) {
		var out []common.CheckResult
		for _, p := range ps {
			out = append(out, common.CheckResult{Eligible: true, UpkeepID: p.UpkeepID, Trigger: p.Trigger, WorkID: p.WorkID,
				GasAllocated: 100, PerformData: []byte{byte(variant)}, FastGasWei: bigOf("1"), LinkNative: bigOf("1")})
		}
		return out, nil
	})
	nd.Logs.Push(payloads...)
	nd.Recov.Push(payloads[:3]...)
	nd.Blocks.Publish(common.BlockHistory{{Number: 77, Hash: blockHash(5)}, {Number: 76, Hash: blockHash(4)}})
	time.Sleep(time.Duration(4*variant) * time.Second)
	synctest.Wait()
	// an accepted report makes work in flight in the coordinator
	rep, _ := nd.Enc.Encode(common.CheckResult{Eligible: true, UpkeepID: payloads[0].UpkeepID, Trigger: payloads[0].Trigger, WorkID: payloads[0].WorkID, GasAllocated: 1, FastGasWei: bigOf("1"), LinkNative: bigOf("1")})
	_, _ = nd.Plugin.ShouldAcceptAttestedReport(context.Background(), 1, ocr3types.ReportWithInfo[plugin.AutomationReportInfo]{Report: rep})
	time.Sleep(time.Duration(variant*7) * time.Second)
	synctest.Wait()
}

func prevBytes(c *GCase) []byte {
	switch c.PrevKind {
	case 0:
		return nil
	case 1:
		return []byte(c.PrevRaw)
	default:
		b, err := c.Prev.real().Encode()
		if err != nil {
			panic(err)
		}
		return b
	}
}

func runCase(t *testing.T, p *pool, c *GCase) {
	nodes := p.get(c.N, c.F, c.Digest)
	var aobs []ocr2plustypes.AttributedObservation
	for i, o := range c.Obs {
		aobs = append(aobs, ocr2plustypes.AttributedObservation{Observation: o.bytes(), Observer: commontypes.OracleID(i)})
	}
	outctx := ocr3types.OutcomeContext{SeqNr: c.Seq, PreviousOutcome: prevBytes(c)}
	var first []byte
	var firstErr error
	c.Det, c.Evals, c.AltOuts, c.NReports = true, 0, nil, 0
	// Attempts that were abandoned (leader change / epoch timeout before commit) leave no trace in the value of the
	// round: instance 1 has validated, and computed an outcome from, OTHER observations for this very sequence number
	// (each observer's bytes swapped with its neighbour's); instance 2 has done the same for the previous sequence
	// number and then missed the committed attempt.  Instance 0 has seen neither.  All three must agree below.
	if len(aobs) >= 2 && len(nodes) >= 3 {
		decoy := make([]ocr2plustypes.AttributedObservation, len(aobs))
		for i := range aobs {
			decoy[i] = ocr2plustypes.AttributedObservation{Observation: append([]byte(nil), aobs[(i+1)%len(aobs)].Observation...), Observer: aobs[i].Observer}
		}
		// ... the first abandoned attempt on instance 1 even came with ANOTHER previous outcome of the very same
		// length (a valid, empty one, padded with blanks): what the round before committed is an argument too
		if empty := []byte(`{"AgreedPerformables":null,"SurfacedProposals":null}`); len(outctx.PreviousOutcome) >= len(empty) {
			other := append(empty, bytes.Repeat([]byte(" "), len(outctx.PreviousOutcome)-len(empty))...)
			_, _ = nodes[1].Plugin.Outcome(context.Background(), ocr3types.OutcomeContext{SeqNr: c.Seq, PreviousOutcome: other}, nil, decoy)
		}
		for _, ao := range decoy {
			_ = nodes[1].Plugin.ValidateObservation(context.Background(), outctx, nil, ao)
		}
		_, _ = nodes[1].Plugin.Outcome(context.Background(), outctx, nil, decoy)
		if c.Seq > 1 {
			_, _ = nodes[2].Plugin.Outcome(context.Background(), ocr3types.OutcomeContext{SeqNr: c.Seq - 1}, nil, decoy)
		}
	}
	for rep := 0; rep < 3; rep++ {
		for _, nd := range nodes {
			// fresh copies of the inputs for every evaluation (Outcome may alias what it decodes)
			in := make([]ocr2plustypes.AttributedObservation, len(aobs))
			for i := range aobs {
				in[i] = ocr2plustypes.AttributedObservation{Observation: append([]byte(nil), aobs[i].Observation...), Observer: aobs[i].Observer}
			}
			// the oracle's own clock must not influence the value: repetition 1 runs with a context that is already
			// cancelled, repetition 2 with an expired deadline (MaxDurationOutcome passed on a slow node).  Returning
			// an error then is legitimate; returning a DIFFERENT outcome is not
			ctx := context.Background()
			if rep == 1 {
				cctx, cancel := context.WithCancel(ctx)
				cancel()
				ctx = cctx
			} else if rep == 2 {
				dctx, cancel := context.WithDeadline(ctx, time.Now().Add(-time.Second))
				defer cancel()
				ctx = dctx
			}
			out, err := nd.Plugin.Outcome(ctx, outctx, nil, in)
			if rep > 0 && err != nil && firstErr == nil {
				c.Evals++
				continue
			}
			if c.Evals == 0 {
				first, firstErr = out, err
			} else if (err != nil) != (firstErr != nil) || !bytes.Equal(out, first) {
				c.Det = false
				if err == nil {
					seen := false
					for _, a := range c.AltOuts {
						seen = seen || a == string(out)
					}
					if !seen {
						c.AltOuts = append(c.AltOuts, string(out))
					}
				}
			}
			c.Evals++
		}
	}
	// ... and on every evaluation however many other evaluations are under way in the same process: the same round is
	// computed on instance 0 while two instances with ANOTHER config digest (another key source for every
	// pseudo-random ordering) compute theirs, several times over
	if firstErr == nil && len(nodes) >= 1 && len(aobs) > 0 {
		others := p.get(c.N, c.F, c.Digest+7)
		copyIn := func() []ocr2plustypes.AttributedObservation {
			in := make([]ocr2plustypes.AttributedObservation, len(aobs))
			for i := range aobs {
				in[i] = ocr2plustypes.AttributedObservation{Observation: append([]byte(nil), aobs[i].Observation...), Observer: aobs[i].Observer}
			}
			return in
		}
		var wg sync.WaitGroup
		var mu sync.Mutex
		for g := 0; g < 3; g++ {
			wg.Add(1)
			go func(g int) {
				defer wg.Done()
				for k := 0; k < 4; k++ {
					if g == 0 {
						out, err := nodes[0].Plugin.Outcome(context.Background(), outctx, nil, copyIn())
						mu.Lock()
						c.Evals++
						if err != nil || !bytes.Equal(out, first) {
							c.Det = false
							if err == nil {
								seen := false
								for _, a := range c.AltOuts {
									seen = seen || a == string(out)
								}
								if !seen {
									c.AltOuts = append(c.AltOuts, string(out))
								}
							}
						}
						mu.Unlock()
					} else {
						_, _ = others[g%len(others)].Plugin.Outcome(context.Background(), outctx, nil, copyIn())
					}
				}
			}(g)
		}
		wg.Wait()
	}
	c.OutErr = firstErr != nil
	c.OutJSON = string(first)
	if firstErr == nil {
		// reports: byte-identical on every evaluation, on instances that have handled other (higher and
		// lower) sequence numbers before, and on a brand-new instance
		ref := NewNode(p.t, NodeOpts{N: c.N, F: c.F, Oracle: 3, Digest: ocr2plustypes.ConfigDigest(digestOf(c.Digest))})
		p.fresh = append(p.fresh, ref)
		want, werr := ref.Plugin.Reports(context.Background(), c.Seq, first)
		c.NReports = len(want)
		for rep := 0; rep < 2; rep++ {
			for _, nd := range nodes {
				got, gerr := nd.Plugin.Reports(context.Background(), c.Seq, append([]byte(nil), first...))
				c.Evals++
				if (gerr != nil) != (werr != nil) || len(got) != len(want) {
					c.Det = false
					continue
				}
				for i := range got {
					if !bytes.Equal(got[i].ReportWithInfo.Report, want[i].ReportWithInfo.Report) {
						c.Det = false
					}
				}
			}
		}
	}
}

// ---------------------------------------------------------------- Coq term of a case

func caseTerm(c *GCase) string {
	in := newInterning()
	type dobs struct {
		ok bool
		o  ocr2keepers.AutomationObservation
	}
	var ds []dobs
	for _, g := range c.Obs {
		var o ocr2keepers.AutomationObservation
		err := json.Unmarshal(g.bytes(), &o) // JSON-level decode only; validation is the model's business
		ds = append(ds, dobs{err == nil, o})
		if err == nil {
			for _, r := range o.Performable {
				in.noteResult(r)
			}
			for _, p := range o.UpkeepProposals {
				in.noteUnit(p.UpkeepID, p.Trigger, p.WorkID)
			}
			for _, b := range o.BlockHistory {
				in.hashes[b.Hash] = true
			}
		}
	}
	var prev ocr2keepers.AutomationOutcome
	prevOK := false
	if c.PrevKind != 0 {
		pb := prevBytes(c)
		prevOK = len(pb) > 0 && json.Unmarshal(pb, &prev) == nil
		if prevOK {
			for _, r := range prev.AgreedPerformables {
				in.noteResult(r)
			}
			for _, rd := range prev.SurfacedProposals {
				for _, p := range rd {
					in.noteUnit(p.UpkeepID, p.Trigger, p.WorkID)
				}
			}
		}
	}
	var out ocr2keepers.AutomationOutcome
	if !c.OutErr {
		if err := json.Unmarshal([]byte(c.OutJSON), &out); err != nil {
			panic("outcome of the implementation does not JSON-decode: " + err.Error())
		}
		for _, r := range out.AgreedPerformables {
			in.noteUnit(r.UpkeepID, r.Trigger, r.WorkID)
		}
		for _, rd := range out.SurfacedProposals {
			for _, p := range rd {
				in.noteUnit(p.UpkeepID, p.Trigger, p.WorkID)
			}
		}
	}
	in.finish()

	// tables
	var utg []string
	var us []int
	for u := range in.utgTab {
		us = append(us, u)
	}
	sort.Ints(us)
	for _, u := range us {
		utg = append(utg, fmt.Sprintf("(%d, %d)", u, in.utgTab[u]))
	}
	var wgk []string
	var ks []string
	for k := range in.wgKeys {
		ks = append(ks, k)
	}
	sort.Strings(ks)
	for _, k := range ks {
		e := in.wgKeys[k]
		ext := "None"
		if e.ext != nil {
			ext = fmt.Sprintf("(Some (%d, %d, %d))", in.hrank[e.ext.TxHash], e.ext.Index, in.hrank[e.ext.BlockHash])
		}
		wgk = append(wgk, fmt.Sprintf("((%d, %s), %d)", e.upk, ext, e.wid))
	}
	var uids []string
	for _, r := range in.rows {
		uids = append(uids, r.UniqueID())
	}
	urank := RankOf(uids)
	var rows []string
	for i, r := range in.rows {
		rows = append(rows, fmt.Sprintf("(%s, %d)", in.result(r), urank[uids[i]]))
	}
	var obs []string
	for _, d := range ds {
		if !d.ok {
			obs = append(obs, "None")
			continue
		}
		perf := CoqList(d.o.Performable, func(r common.CheckResult) string { return CoqNat(in.rowIdx(r)) })
		props := CoqList(d.o.UpkeepProposals, in.prop)
		hist := CoqList(d.o.BlockHistory, func(b common.BlockKey) string {
			return fmt.Sprintf("mkBK %d %d", uint64(b.Number), in.hrank[b.Hash])
		})
		obs = append(obs, fmt.Sprintf("(Some (%s, %s, %s))", perf, props, hist))
	}
	prevT := "PrevNil"
	if c.PrevKind != 0 {
		if !prevOK {
			prevT = "PrevBad"
		} else {
			prevT = fmt.Sprintf("(PrevOk (mkOut %s %s))", CoqList(prev.AgreedPerformables, in.result),
				CoqList(prev.SurfacedProposals, func(rd []common.CoordinatedBlockProposal) string { return CoqList(rd, in.prop) }))
		}
	}
	outT := "None"
	if !c.OutErr {
		outT = fmt.Sprintf("(Some (%s, %s))", CoqList(out.AgreedPerformables, func(r common.CheckResult) string { return CoqNat(in.rowIdx(r)) }),
			CoqList(out.SurfacedProposals, func(rd []common.CoordinatedBlockProposal) string { return CoqList(rd, in.prop) }))
	}
	return fmt.Sprintf("mkOCase %s [%s] [%s] [%s] %s [%s] %s %s %d %d %s",
		CoqNat(c.F), strings.Join(utg, "; "), strings.Join(wgk, "; "), strings.Join(rows, ";\n      "),
		in.shufTable(digestOf(c.Digest), c.Seq), strings.Join(obs, ";\n      "), prevT, outT, len(c.OutJSON), c.NReports, CoqBool(c.Det))
}

// ---------------------------------------------------------------- test entry points

func hasPerformDataOver(c GCase, limit int) bool {
	for _, o := range c.Obs {
		for _, r := range o.Perf {
			if r.PD == "-" {
				continue
			}
			if b, err := pdBytes(r.PD); err == nil && len(b) > limit {
				return true
			}
		}
	}
	return false
}

func runAll(t *testing.T, prop, base string, results [][2]string) {
	dir := OutDir(t, prop)
	var cases []GCase
	if rf := ReplayFile(); rf != "" {
		cases = LoadReplayCases[GCase](t, rf)
	} else {
		cases = append(cases, LoadCorpus[GCase](t, prop)...)
		cases = append(cases, boundaryCases()...)
		r := NewRng(EnvSeed())
		n := EnvInt("VERIF_N", 120)
		for i := 0; i < n; i++ {
			cases = append(cases, randomCase(r))
		}
		if prop == "C03" {
			// C03 speaks about a well-behaved pipeline: perform data of at most 10,000 bytes (its size clauses are false
			// beyond that on any tree); rounds with larger payloads belong to C01 / C02 / C05 only
			kept := cases[:0]
			for _, c := range cases {
				if !hasPerformDataOver(c, 10000) {
					kept = append(kept, c)
				}
			}
			cases = kept
		}
	}
	synctest.Test(t, func(t *testing.T) {
		p := &pool{t: t, nodes: map[string][]*Node{}}
		n0 := len(cases)
		for i := 0; i < n0; i++ {
			runCase(t, p, &cases[i])
			// an evaluation that answered differently (Go's map order) is judged as a case of its own
			for _, alt := range cases[i].AltOuts {
				c := cases[i]
				c.Family, c.OutJSON, c.AltOuts, c.OutErr = c.Family+"/other-evaluation", alt, nil, false
				cases = append(cases, c)
			}
		}
		time.Sleep(3 * time.Second)
		synctest.Wait()
		for _, ns := range p.nodes {
			for _, nd := range ns {
				nd.Plugin.Close()
			}
		}
		for _, nd := range p.fresh {
			nd.Plugin.Close()
		}
		synctest.Wait()
	})
	cf := NewCaseFile(prop, "Base.Util", "Model.OutcomeCase")
	cf.Prelude = "Open Scope N_scope."
	fam := map[string]int{}
	sizes := map[string]int{}
	for i := range cases {
		cf.Add(caseTerm(&cases[i]))
		fam[cases[i].Family]++
		sizes[fmt.Sprintf("n=%d,f=%d,obs=%d", cases[i].N, cases[i].F, len(cases[i].Obs))]++
	}
	cf.Write(t, dir, base+".v", "o_case", results)
	WriteJSON(t, filepath.Join(dir, base+".json"), map[string]any{"property": prop, "seed": EnvSeed(), "cases": cases, "families": fam, "sizes": sizes})
}

func TestC01(t *testing.T) {
	runAll(t, "C01", "cases", [][2]string{
		{"mism", "find_idx k_mism_agreed cases"},
		{"bad", "find_idx (fun k => negb (K01 k)) cases"},
		{"kf_uid_collision", "find_idx k_kf_uid_collision cases"},
		{"nontriv", "find_idx k_nontriv cases"},
		{"cov", "sum_cov (map k_cov cases)"},
	})
}

func TestC02(t *testing.T) {
	runAll(t, "C02", "cases", [][2]string{
		{"mism", "find_idx k_mism cases"},
		{"bad", "find_idx (fun k => negb (K02 k)) cases"},
		{"nontriv", "find_idx k_nontriv cases"},
		{"cov", "sum_cov (map k_cov cases)"},
	})
}

func TestC05(t *testing.T) {
	runAll(t, "C05", "cases", [][2]string{
		{"mism", "find_idx k_mism_surfaced cases"},
		{"bad", "find_idx (fun k => negb (K05 k)) cases"},
		{"kf_zero_hash_quorum", "find_idx k_kf_zero_hash_quorum cases"},
		{"nontriv", "find_idx k_nontriv cases"},
		{"cov", "sum_cov (map k_cov cases)"},
	})
}

// outcome clauses of C03 on the same rounds
func TestC03(t *testing.T) {
	runAll(t, "C03", "cases_outcome", [][2]string{
		{"mism", "find_idx k_mism cases"},
		{"bad", "find_idx (fun k => negb (K03 k)) cases"},
		{"nontriv", "find_idx k_nontriv cases"},
		{"cov", "sum_cov (map k_cov cases)"},
	})
}
