package c01

import (
	"encoding/hex"
	"fmt"
	"math/big"
	"path/filepath"
	"strings"
	"testing"

	. "verifharness/h"

	common "github.com/smartcontractkit/chainlink-common/pkg/types/automation"
)

// UidCase: a byte-level result in generator form; the observed UniqueID() goes to the Coq term.
type UidCase struct {
	Family string `json:"family"`
	R      GRes   `json:"r"`
	Wid    string `json:"wid,omitempty"` // override of the work-id string (any bytes)
	Neg    bool   `json:"neg,omitempty"` // negative FastGasWei
	UID    string `json:"uid,omitempty"`
}

func bytesN(b []byte) string {
	var sb strings.Builder
	sb.WriteString("[")
	for i, x := range b {
		if i > 0 {
			sb.WriteString("; ")
		}
		fmt.Fprintf(&sb, "%d", x)
	}
	sb.WriteString("]")
	return sb.String()
}

func optZb(v *big.Int) string {
	if v == nil {
		return "None"
	}
	return "(Some (" + v.String() + ")%Z)"
}

func uidTerm(c *UidCase) string {
	r := c.R.real()
	if c.Wid != "" {
		r.WorkID = c.Wid
	}
	if c.Neg && r.FastGasWei != nil {
		r.FastGasWei = new(big.Int).Neg(r.FastGasWei)
	}
	c.UID = r.UniqueID()
	obs, err := hex.DecodeString(c.UID)
	if err != nil {
		panic(err)
	}
	ext := "None"
	if e := r.Trigger.LogTriggerExtension; e != nil {
		ext = fmt.Sprintf("(Some (mkBExt %s %d %s %d))", bytesN(e.TxHash[:]), e.Index, bytesN(e.BlockHash[:]), uint64(e.BlockNumber))
	}
	return fmt.Sprintf("mkUCase (mkBRes %d %s %s %d %s %d %s %s %s %d %s %s %s) %s",
		r.PipelineExecutionState, CoqBool(r.Retryable), CoqBool(r.Eligible), r.IneligibilityReason, bytesN(r.UpkeepID[:]),
		uint64(r.Trigger.BlockNumber), bytesN(r.Trigger.BlockHash[:]), ext, bytesN([]byte(r.WorkID)), r.GasAllocated,
		bytesN(r.PerformData), optZb(r.FastGasWei), optZb(r.LinkNative), bytesN(obs))
}

func TestC01Uid(t *testing.T) {
	dir := OutDir(t, "C01")
	var cases []UidCase
	if rf := ReplayFile(); rf != "" {
		cases = LoadReplayCases[UidCase](t, rf)
	} else {
		base := honest(1, 3, 4)
		cases = append(cases,
			UidCase{Family: "plain-log", R: base},
			UidCase{Family: "plain-cond", R: honest(0, 3, 0)},
			UidCase{Family: "delimiter-in-perform-data", R: GRes{Kind: 0, Upk: 70, Blk: 100, Hash: 2, Gas: 500, PD: "020903", Fgw: "5", Ln: "7"}},
			UidCase{Family: "delimiter-shift-twin", R: GRes{Kind: 0, Upk: 70, Blk: 100, Hash: 2, Gas: 500, PD: "02", Fgw: "198917", Ln: "7"}},
			UidCase{Family: "gas-1", R: GRes{Kind: 0, Upk: 71, Blk: 100, Hash: 2, Gas: 1, PD: "01", Fgw: "1", Ln: "1"}},
			UidCase{Family: "gas-2^64-1", R: GRes{Kind: 0, Upk: 71, Blk: 100, Hash: 2, Gas: 1<<64 - 1, PD: "01", Fgw: "1", Ln: "1"}},
			UidCase{Family: "gas-2^63", R: GRes{Kind: 0, Upk: 71, Blk: 1 << 63, Hash: 2, Gas: 1 << 63, PD: "01", Fgw: "1", Ln: "1"}},
			UidCase{Family: "zeros", R: GRes{Kind: 0, Upk: 71, Blk: 0, Hash: 0, Gas: 0, PD: "-", Fgw: "0", Ln: "0"}},
			UidCase{Family: "nil-prices", R: GRes{Kind: 1, Upk: 71, Log: 9, Blk: 5, Hash: 1, Gas: 7, PD: "", Fgw: "", Ln: "", ExtBlk: 77}},
			UidCase{Family: "negative-price", R: GRes{Kind: 0, Upk: 71, Blk: 5, Hash: 1, Gas: 7, PD: "aa", Fgw: "255", Ln: "256"}, Neg: true},
			UidCase{Family: "failed-flags", R: GRes{Kind: 1, Upk: 2, Log: 3, Blk: 5, Hash: 1, Gas: 7, PD: "aa", Fgw: "1", Ln: "1", State: 3, Retry: true, Inelig: true, Reason: 4}},
			UidCase{Family: "odd-workid", R: base, Wid: "w\t\x00\xffid"},
			UidCase{Family: "uint256-max", R: GRes{Kind: 0, Upk: 1, Blk: 5, Hash: 1, Gas: 7, PD: "aa", Fgw: "115792089237316195423570985008687907853269984665640564039457584007913129639935", Ln: "115792089237316195423570985008687907853269984665640564039457584007913129639936"}},
		)
		r := NewRng(EnvSeed())
		for i := 0; i < EnvInt("VERIF_N", 120)/2; i++ {
			g := honest(r.Intn(2), r.Intn(50), r.Intn(50))
			g.Blk = []uint64{0, 1, 255, 256, 65535, 1 << 40, 1<<63 - 1, 1 << 63, 1<<64 - 1}[r.Intn(9)]
			g.Hash = r.Intn(4)
			g.ExtBlk = uint64(r.Intn(100000))
			g.Gas = []uint64{0, 1, 9, 255, 256, 1 << 32, 1<<63 - 1, 1 << 63, 1<<64 - 2}[r.Intn(9)] + uint64(r.Intn(2))
			g.PD = hex.EncodeToString(r.Bytes(r.Intn(12)))
			if r.Chance(1, 4) {
				g.PD = "09" + g.PD + "09"
			}
			g.Fgw = new(big.Int).SetBytes(r.Bytes(r.Intn(33))).String()
			g.Ln = new(big.Int).SetBytes(r.Bytes(r.Intn(5))).String()
			if r.Chance(1, 10) {
				g.Fgw = ""
			}
			g.State, g.Retry, g.Inelig, g.Reason = uint8(r.Intn(3)), r.Chance(1, 5), r.Chance(1, 5), uint8(r.Intn(3))
			cases = append(cases, UidCase{Family: "random", R: g, Neg: r.Chance(1, 12)})
		}
	}
	cf := NewCaseFile("C01", "Base.Util", "Model.Uid")
	cf.Prelude = "Open Scope N_scope."
	fam := map[string]int{}
	for i := range cases {
		cf.Add(uidTerm(&cases[i]))
		fam[cases[i].Family]++
	}
	cf.Write(t, dir, "cases_uid.v", "u_case", [][2]string{
		{"mism", "find_idx u_mism cases"},
		{"bad", "@nil nat"},
		{"nontriv", "find_idx (fun k => Nat.ltb 60 (length (uc_obs k))) cases"},
	})
	WriteJSON(t, filepath.Join(dir, "cases_uid.json"), map[string]any{"property": "C01", "seed": EnvSeed(), "cases": cases, "families": fam})
	_ = common.CheckResult{}
}
