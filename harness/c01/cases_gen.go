package c01

import (
	"fmt"

	. "verifharness/h"
)

func honest(kind, upk, logn int) GRes {
	return GRes{Kind: kind, Upk: upk, Log: logn, Blk: 100, Hash: 2, Gas: uint64(1000 + upk), PD: "0102", Fgw: "1000", Ln: "2000"}
}

func chain(from, to uint64, tag int) []GBlock {
	var bs []GBlock
	for n := to; n >= from; n-- {
		bs = append(bs, GBlock{Num: n, Hash: tag + int(n%50)*3})
		if n == 0 {
			break
		}
	}
	return bs
}

func obsWith(perf []GRes, props []GProp, hist []GBlock) GObs {
	return GObs{Perf: perf, Props: props, Hist: hist}
}

// mutate returns a copy of r differing in exactly one of the eleven agreement fields.
func mutate(r GRes, field int) GRes {
	m := r
	switch field % 11 {
	case 0:
		m.Gas++
	case 1:
		if r.PD == "-" {
			m.PD = "ff"
		} else {
			m.PD = r.PD + "ff"
		}
	case 2:
		m.Fgw = r.Fgw + "1"
	case 3:
		m.Ln = r.Ln + "1"
	case 4:
		m.Blk++
	case 5:
		m.Hash++
	case 6:
		m.Upk += 10000 // different upkeep (and work id)
	case 7:
		m.Log += 10000
		if m.Kind == 0 {
			m.Gas += 2
		}
	case 8:
		m.ExtBlk++
		if m.Kind == 0 {
			m.Gas += 3
		}
	case 9:
		m.PD = "-"
		if r.PD == "-" || r.PD == "" {
			m.PD = "00"
		}
	case 10:
		m.Gas = r.Gas ^ (1 << 40)
	}
	return m
}

func nObs(n int, f func(i int) GObs) []GObs {
	var os []GObs
	for i := 0; i < n; i++ {
		os = append(os, f(i))
	}
	return os
}

func boundaryCases() []GCase {
	var cs []GCase
	add := func(c GCase) { cs = append(cs, c) }
	hist := chain(95, 100, 1)

	// exactly f and exactly f+1 vouchers, n = 4..13
	for _, nf := range [][2]int{{4, 1}, {7, 2}, {10, 3}, {13, 4}, {4, 0}} {
		n, f := nf[0], nf[1]
		a, b := honest(0, 1, 0), honest(1, 2, 5)
		add(GCase{Family: "exactly-f-and-f+1", N: n, F: f, Seq: 11, Digest: 1, Obs: nObs(n, func(i int) GObs {
			var perf []GRes
			if i < f+1 {
				perf = append(perf, a) // f+1 vouchers
			}
			if i < f {
				perf = append(perf, b) // only f vouchers
			}
			return obsWith(perf, nil, hist)
		})})
	}
	// one log upkeep, two logs: log A is at quorum at two different check blocks (half of the oracles each), log B at a
	// check block between them - in the sorted traversal the two versions of A are NOT adjacent, and A is agreed once
	for _, mid := range []uint64{101, 99, 103} {
		mid := mid
		add(GCase{Family: "two-versions-of-a-unit-with-another-unit-between", N: 4, F: 1, Seq: 18, Digest: 1, Obs: nObs(4, func(i int) GObs {
			a := honest(1, 5000, 1)
			b := honest(1, 5000, 2)
			b.Blk = mid
			if i < 2 {
				a.Blk = 100
			} else {
				a.Blk = 102
			}
			return obsWith([]GRes{a, b}, nil, chain(95, 103, 1))
		})})
	}
	// a re-org re-includes a log in another block: the same transaction hash and index under another log block hash is
	// another unit of work with another work id.  The long-lived instances see the log on the first fork in one round
	// (as a result and as a proposal) and on the second fork in the next: every observation of the second round is
	// valid, three of them share block 100, which is therefore the coordinated block of the new proposal
	for fork := 0; fork <= 1; fork++ {
		fork := fork
		add(GCase{Family: "log-re-included-on-another-fork", N: 4, F: 1, Seq: uint64(16 + fork), Digest: 1, Obs: nObs(4, func(i int) GObs {
			r := honest(1, 5100, 7)
			r.Fork = fork
			p := GProp{Kind: 1, Upk: 5101, Log: 8, Blk: 99, Hash: 1 + 49*3, ExtBlk: 3, Fork: fork}
			if i == 3 {
				return obsWith(nil, nil, hist)
			}
			return obsWith([]GRes{r}, []GProp{p}, hist)
		})})
	}
	// ... and both forks in ONE round: a straggler (processed first, or last) still reports the log on the old fork, the
	// others report it on the new fork next to a conditional result - every observation is valid on its own, the new
	// fork's result and the conditional one are each vouched for identically by three oracles
	for _, stragglerAt := range []int{0, 3} {
		stragglerAt := stragglerAt
		add(GCase{Family: "log-on-two-forks-in-one-round", N: 4, F: 1, Seq: 15, Digest: 1, Obs: nObs(4, func(i int) GObs {
			r := honest(1, 5200, 9)
			c := honest(0, 5201, 0)
			if i == stragglerAt {
				return obsWith([]GRes{r}, nil, hist)
			}
			r.Fork = 1
			return obsWith([]GRes{r, c}, nil, hist)
		})})
	}
	// block keys that lack a member (or are null) decode to zero values - whatever the instance decoded before, in this
	// round or an earlier one: one full observation first, then two whose keys have no hash / no number / are null;
	// the block the new proposal is bound to follows from the votes of THESE values
	for _, drop := range []string{"Hash", "Number", ""} {
		drop := drop
		for _, fullAt := range []int{0, 2} {
			fullAt := fullAt
			add(GCase{Family: "block-keys-with-missing-members", N: 4, F: 1, Seq: 14, Digest: 1, Obs: nObs(3, func(i int) GObs {
				o := obsWith(nil, []GProp{{Kind: 1, Upk: 5300, Log: 11, Blk: 1, Hash: 1, ExtBlk: 3}}, chain(98, 100, 1))
				if i == fullAt {
					return o
				}
				return o.sparse(drop)
			})})
		}
	}
	// the retained history holds an unperformed proposal coordinated on block 110 (since orphaned, or reported by
	// oracles that ran ahead); this round's observations share blocks up to 100 only: the new proposal is bound to 100,
	// the block f+1 of THIS round's observations list, never to a block taken from the history
	for _, histBlk := range []uint64{110, 101} {
		histBlk := histBlk
		add(GCase{Family: "history-coordinated-on-a-higher-block-than-this-round", N: 4, F: 1, Seq: 13, Digest: 1, PrevKind: 2,
			Prev: &GOutcome{Surf: [][]GProp{{}, {{Kind: 1, Upk: 5400, Log: 12, Blk: histBlk, Hash: 77, ExtBlk: 3}}}},
			Obs: nObs(4, func(i int) GObs {
				return obsWith(nil, []GProp{{Kind: 1, Upk: 5401, Log: 13, Blk: 1, Hash: 1, ExtBlk: 3}}, chain(95, 100, 1))
			})})
	}
	// perform data far above what a registry accepts: three disjoint pairs of oracles vouch for ten results of 70 KB
	// each; every observation is valid and under its size limit, all thirty results are at quorum and far below the cap
	// of 100 - agreement is by votes, never by a byte budget
	add(GCase{Family: "thirty-quorum-results-with-70KB-perform-data", N: 6, F: 1, Seq: 19, Digest: 1, Obs: nObs(6, func(i int) GObs {
		var perf []GRes
		for j := 0; j < 10; j++ {
			r := honest(1, 4000+(i/2)*10+j, (i/2)*10+j+1)
			r.PD = fmt.Sprintf("x70000:%02x", 16+(i/2)*10+j)
			perf = append(perf, r)
		}
		return obsWith(perf, nil, hist)
	})})
	// 100 and 101 quorum candidates (log upkeeps, distinct logs)
	for _, k := range []int{99, 100, 101, 130} {
		k := k
		add(GCase{Family: "cap-100", N: 4, F: 1, Seq: 20, Digest: 1, Obs: nObs(3, func(i int) GObs {
			var perf []GRes
			lo, hi := 0, 100
			if i == 1 {
				lo, hi = k-100, k // overlapping window so that each observation holds <= 100
			}
			if i == 2 {
				lo, hi = 0, k
				if hi-lo > 100 {
					lo = (k - 100) / 2
					hi = lo + 100
				}
			}
			for j := lo; j < hi && j < k; j++ {
				perf = append(perf, honest(1, 3000+j%7, j+1))
			}
			return obsWith(perf, nil, hist)
		})})
	}
	// 130 candidates at quorum and a previous outcome whose history proposes 50 of them: the ones the cap cuts are NOT
	// performed this round, so their proposals stay in the history
	{
		var surf []GProp
		for j := 0; j < 100; j += 2 {
			surf = append(surf, GProp{Kind: 1, Upk: 3000 + j%7, Log: j + 1, Blk: 90, Hash: 4, ExtBlk: 3})
		}
		for _, dg := range []int{1, 2} {
			add(GCase{Family: "cap-130-history-proposes-the-candidates", N: 4, F: 1, Seq: uint64(24 + dg), Digest: dg, PrevKind: 2, Prev: &GOutcome{Surf: [][]GProp{surf}},
				Obs: nObs(4, func(i int) GObs {
					var perf []GRes
					lo, hi := 0, 100 // oracles 0 and 1 vouch for 0..99, oracles 2 and 3 for 30..129: all 130 reach f+1
					if i >= 2 {
						lo, hi = 30, 130
					}
					for j := lo; j < hi; j++ {
						perf = append(perf, honest(1, 3000+j%7, j+1))
					}
					return obsWith(perf, nil, hist)
				})})
		}
	}
	// two blocks at quorum whose heights are exactly 2^63 apart (and 2^63 - 1, 2^63 + 1): "higher" must stay a total
	// order on uint64 heights; a new proposal makes the chosen block visible
	for _, d := range []uint64{1<<63 - 1, 1 << 63, 1<<63 + 1} {
		d := d
		add(GCase{Family: "quorum-heights-2^63-apart", N: 4, F: 1, Seq: 26, Digest: 1, Obs: nObs(4, func(i int) GObs {
			return obsWith(nil, []GProp{{Kind: 1, Upk: 95, Log: 45, Blk: 3, Hash: 9, ExtBlk: 17}}, []GBlock{{Num: 1000 + d, Hash: 6}, {Num: 1000, Hash: 5}, {Num: 999, Hash: 4}})
		})})
	}
	// 100 agreed performables each of which alone exceeds the default report gas limit (5.3M incl. 300k overhead):
	// one report per performable, never more reports than the advertised maximum
	add(GCase{Family: "hundred-heavy-performables", N: 4, F: 1, Seq: 22, Digest: 1, Obs: nObs(3, func(i int) GObs {
		var perf []GRes
		for j := 0; j < 100; j++ {
			g := honest(1, 3100+j%5, j+1)
			g.Gas = 5_200_000 + uint64(j)
			perf = append(perf, g)
		}
		return obsWith(perf, nil, hist)
	})})
	// f+1 observers each sending all of k candidates is impossible beyond 100; instead many oracles with shifted windows
	add(GCase{Family: "cap-100-many-oracles", N: 10, F: 3, Seq: 21, Digest: 2, Obs: nObs(10, func(i int) GObs {
		var perf []GRes
		for j := 0; j < 100; j++ {
			perf = append(perf, honest(1, 3000, (i/5)*60+j+1)) // two groups of five oracles, windows [1..100] and [61..160]
		}
		return obsWith(perf, nil, hist)
	})})
	// more than 100 digests at quorum, some of them being two versions of ONE unit of work: the work-id
	// de-duplication has to happen before the cap (102 / 110 digests over exactly 100 units: nothing may be cut;
	// 115 digests over 110 units: only the cap cuts)
	for _, v := range []struct{ units, vers, shift int }{{100, 2, 0}, {100, 10, 0}, {110, 5, 10}} {
		v := v
		add(GCase{Family: "cap-100-two-versions-of-a-unit", N: 4, F: 1, Seq: uint64(23 + v.vers), Digest: 1 + v.vers%2, Obs: nObs(4, func(i int) GObs {
			var perf []GRes
			lo := 0
			if i >= 2 {
				lo = v.shift
			}
			for j := lo; j < lo+100 && j < v.units; j++ {
				g := honest(1, 3200+j%6, j+1)
				if i >= 2 && j >= v.shift && j < v.shift+v.vers {
					g.PD = fmt.Sprintf("%02x%02x", 0xa0+j%16, j) // the other version, vouched for by oracles 2 and 3
				}
				perf = append(perf, g)
			}
			return obsWith(perf, nil, hist)
		})})
	}
	// two quorum results for one work id (same upkeep, different data)
	{
		a := honest(0, 7, 0)
		b := a
		b.PD = "99"
		c := a
		c.Gas = 5
		add(GCase{Family: "two-quorum-results-one-workid", N: 7, F: 2, Seq: 30, Digest: 1, Obs: nObs(7, func(i int) GObs {
			switch {
			case i < 3:
				return obsWith([]GRes{a}, nil, hist)
			case i < 6:
				return obsWith([]GRes{b}, nil, hist)
			default:
				return obsWith([]GRes{c}, nil, hist)
			}
		})})
	}
	// one observation holding two results for one work id is void as a whole
	{
		a := honest(0, 8, 0)
		b := a
		b.PD = "77"
		other := honest(0, 9, 0)
		add(GCase{Family: "duplicate-workid-voids-observation", N: 4, F: 1, Seq: 31, Digest: 1, Obs: []GObs{
			obsWith([]GRes{a, b, other}, nil, hist), obsWith([]GRes{a, other}, nil, hist), obsWith([]GRes{other}, nil, hist)}})
	}
	// all observations invalid / no observations / undecodable bytes
	add(GCase{Family: "all-invalid", N: 4, F: 1, Seq: 32, Digest: 1, Obs: []GObs{
		{Raw: "{"}, {Raw: "[]"}, obsWith([]GRes{{Kind: 0, Upk: 1, Gas: 0, PD: "01", Fgw: "1", Ln: "1", Blk: 1, Hash: 1}}, nil, hist),
		obsWith([]GRes{func() GRes { r := honest(0, 1, 0); r.BadWid = true; return r }()}, nil, hist)}})
	add(GCase{Family: "no-observations", N: 4, F: 1, Seq: 33, Digest: 1, Obs: nil})
	// previous outcome: nil / valid / undecodable / non-nil empty / invalid
	pv := &GOutcome{Agreed: []GRes{honest(0, 50, 0)}, Surf: [][]GProp{{{Kind: 1, Upk: 60, Log: 1, Blk: 90, Hash: 4}}, {{Kind: 0, Upk: 61, Blk: 89, Hash: 5}}}}
	for i, pk := range []GCase{{PrevKind: 0}, {PrevKind: 2, Prev: pv}, {PrevKind: 1, PrevRaw: "{"}, {PrevKind: 1, PrevRaw: ""},
		{PrevKind: 2, Prev: &GOutcome{Surf: [][]GProp{{{Kind: 0, Upk: 61, Blk: 1, Hash: 1}}, {{Kind: 0, Upk: 61, Blk: 2, Hash: 1}}}}}} {
		c := GCase{Family: "previous-outcome-kinds", N: 4, F: 1, Seq: uint64(40 + i), Digest: 1, PrevKind: pk.PrevKind, PrevRaw: pk.PrevRaw, Prev: pk.Prev,
			Obs: nObs(3, func(int) GObs {
				return obsWith([]GRes{honest(0, 1, 0)}, []GProp{{Kind: 1, Upk: 62, Log: 2, Blk: 1, Hash: 1}, {Kind: 1, Upk: 60, Log: 1, Blk: 1, Hash: 1}}, hist)
			})}
		add(c)
	}
	// UniqueID collisions (finding 1): f crafted copies listed first + one honest copy
	{
		hon := GRes{Kind: 0, Upk: 70, Blk: 100, Hash: 2, Gas: 500, PD: "02", Fgw: "198917", Ln: "7"} // fgw = 0x030905
		crafted := hon
		crafted.PD, crafted.Fgw = "020903", "5"
		add(GCase{Family: "uid-collision-delimiter-shift", N: 4, F: 1, Seq: 50, Digest: 1, Obs: []GObs{
			obsWith([]GRes{crafted}, nil, hist), obsWith([]GRes{hon}, nil, hist), obsWith(nil, nil, hist)}})
		h2 := GRes{Kind: 0, Upk: 71, Blk: 100, Hash: 2, Gas: 1, PD: "01", Fgw: "1", Ln: "1"}
		c2 := h2
		c2.Gas = 1<<64 - 1
		add(GCase{Family: "uid-collision-int64-cast", N: 7, F: 2, Seq: 51, Digest: 1, Obs: []GObs{
			obsWith([]GRes{c2}, nil, hist), obsWith([]GRes{c2}, nil, hist), obsWith([]GRes{h2}, nil, hist), obsWith(nil, nil, hist), obsWith(nil, nil, hist)}})
	}
	// near-duplicates differing in one field: f+1 honest copies, f mutants per field
	for field := 0; field < 11; field++ {
		field := field
		base := honest(1, 80, 3)
		add(GCase{Family: "one-field-mutants", N: 7, F: 2, Seq: uint64(60 + field), Digest: 2, Obs: nObs(7, func(i int) GObs {
			if i < 3 {
				return obsWith([]GRes{base}, nil, hist)
			}
			if i < 5 {
				return obsWith([]GRes{mutate(base, field)}, nil, hist)
			}
			return obsWith(nil, nil, hist)
		})})
	}
	// block coordination: forks at quorum, quorum exactly f+1, zero-hash block at quorum (finding 2b)
	prop := func(i int) GProp { return GProp{Kind: 1, Upk: 90 + i, Log: 40 + i, Blk: 3, Hash: 9, ExtBlk: 17} }
	add(GCase{Family: "fork-at-quorum", N: 7, F: 2, Seq: 70, Digest: 1, Obs: nObs(7, func(i int) GObs {
		h := []GBlock{{100, 10 + i%2}, {99, 3}, {98, 4}}
		return obsWith(nil, []GProp{prop(i % 3)}, h)
	})})
	// proposals that already sit on the quorum height (same number, another hash: fork at the tip / malicious
	// oracle) or carry the quorum block itself must still be re-stamped with the quorum block
	add(GCase{Family: "proposal-at-quorum-height-other-hash", N: 4, F: 1, Seq: 76, Digest: 1, Obs: nObs(4, func(i int) GObs {
		h := []GBlock{{100, 10}, {99, 3}}
		return obsWith(nil, []GProp{{Kind: 1, Upk: 95, Log: 45 + i, Blk: 100, Hash: 777 + i, ExtBlk: 5}, {Kind: 0, Upk: 96 + i, Blk: 100, Hash: 10}, {Kind: 0, Upk: 90 + i, Blk: 99, Hash: 3}}, h)
	})})
	// fork at the winning height: the minority sibling (no quorum) has the greater hash
	add(GCase{Family: "fork-minority-greater-hash", N: 4, F: 1, Seq: 79, Digest: 1, Obs: nObs(4, func(i int) GObs {
		h := []GBlock{{100, 5}, {99, 3}}
		if i == 2 {
			h = []GBlock{{100, 9}, {99, 3}}
		}
		return obsWith(nil, []GProp{prop(i)}, h)
	})})
	add(GCase{Family: "fork-minority-greater-hash", N: 7, F: 2, Seq: 80, Digest: 2, Obs: nObs(7, func(i int) GObs {
		h := []GBlock{{200, 5}, {199, 3}}
		if i >= 5 {
			h = []GBlock{{200, 900 + i}, {199, 3}}
		}
		return obsWith(nil, []GProp{prop(i)}, h)
	})})
	// several proposals of ONE history round are performed in this round (adjacent and not)
	for v, idx := range [][]int{{0, 1}, {1, 2}, {0, 2}, {0, 1, 2, 3}} {
		idx := idx
		round := []GProp{{Kind: 1, Upk: 300, Log: 61, Blk: 50, Hash: 7}, {Kind: 1, Upk: 300, Log: 62, Blk: 50, Hash: 7},
			{Kind: 1, Upk: 301, Log: 63, Blk: 50, Hash: 7}, {Kind: 0, Upk: 302, Blk: 50, Hash: 7}}
		add(GCase{Family: "several-performed-in-one-history-round", N: 4, F: 1, Seq: uint64(130 + v), Digest: 1, PrevKind: 2,
			Prev: &GOutcome{Surf: [][]GProp{{{Kind: 0, Upk: 399, Blk: 51, Hash: 7}}, round}},
			Obs: nObs(3, func(i int) GObs {
				var perf []GRes
				for _, j := range idx {
					p := round[j]
					perf = append(perf, honest(p.Kind, p.Upk, p.Log))
				}
				return obsWith(perf, nil, hist)
			})})
	}
	// results of an upkeep whose type is neither condition nor log: the duplicate-work-id rule still applies
	{
		x := honest(2, 880, 0)
		add(GCase{Family: "unknown-upkeep-type-duplicate", N: 4, F: 1, Seq: 140, Digest: 1, Obs: []GObs{
			obsWith([]GRes{x, x}, nil, hist), obsWith(nil, nil, hist), obsWith([]GRes{honest(0, 1, 0)}, nil, hist)}})
		add(GCase{Family: "unknown-upkeep-type-quorum", N: 4, F: 1, Seq: 141, Digest: 1, Obs: []GObs{
			obsWith([]GRes{x}, []GProp{{Kind: 2, Upk: 881, Blk: 3, Hash: 3}}, hist), obsWith([]GRes{x}, nil, hist), obsWith(nil, nil, hist)}})
	}
	// one oracle lists a block twice, not adjacently: the observation is invalid as a whole and must not
	// give that block two votes
	add(GCase{Family: "duplicate-block-number-non-adjacent", N: 4, F: 1, Seq: 77, Digest: 1, Obs: nObs(4, func(i int) GObs {
		if i == 3 {
			return obsWith(nil, []GProp{prop(9)}, []GBlock{{99, 50}, {98, 3}, {99, 50}})
		}
		return obsWith(nil, []GProp{prop(i)}, []GBlock{{98, 3}, {97, 4}})
	})})
	add(GCase{Family: "duplicate-block-number-adjacent", N: 4, F: 1, Seq: 78, Digest: 1, Obs: nObs(4, func(i int) GObs {
		if i == 3 {
			return obsWith(nil, []GProp{prop(9)}, []GBlock{{99, 50}, {99, 50}, {98, 3}})
		}
		return obsWith(nil, []GProp{prop(i)}, []GBlock{{98, 3}, {97, 4}})
	})})
	add(GCase{Family: "block-quorum-exactly-f+1", N: 7, F: 2, Seq: 71, Digest: 1, Obs: nObs(7, func(i int) GObs {
		h := []GBlock{{Num: uint64(100 + i), Hash: 20 + i}, {99, 3}}
		if i >= 3 {
			h = h[:1]
		}
		return obsWith(nil, []GProp{prop(i)}, h)
	})})
	add(GCase{Family: "no-block-quorum", N: 7, F: 2, Seq: 72, Digest: 1, PrevKind: 2, Prev: pv, Obs: nObs(7, func(i int) GObs {
		return obsWith([]GRes{honest(0, 50, 0)}, []GProp{prop(i)}, []GBlock{{Num: uint64(100 + i), Hash: 20 + i}})
	})})
	add(GCase{Family: "zero-hash-block-at-quorum-higher", N: 4, F: 1, Seq: 73, Digest: 1, Obs: nObs(3, func(i int) GObs {
		return obsWith(nil, []GProp{prop(i)}, []GBlock{{100, 0}, {50, 1}})
	})})
	add(GCase{Family: "zero-hash-block-at-quorum-lower", N: 4, F: 1, Seq: 74, Digest: 1, Obs: nObs(3, func(i int) GObs {
		return obsWith(nil, []GProp{prop(i)}, []GBlock{{100, 7}, {50, 0}})
	})})
	add(GCase{Family: "only-zero-hash-block-at-quorum", N: 4, F: 1, Seq: 75, Digest: 1, Obs: nObs(3, func(i int) GObs {
		return obsWith(nil, []GProp{prop(i)}, []GBlock{{100, 0}})
	})})
	// history of 19 / 20 rounds, 50 / 51 new proposals
	for _, rounds := range []int{18, 19, 20} {
		var surf [][]GProp
		for r := 0; r < rounds; r++ {
			surf = append(surf, []GProp{{Kind: 1, Upk: 200 + r, Log: 100 + r, Blk: uint64(10 + r), Hash: 30 + r}})
		}
		add(GCase{Family: "history-rounds", N: 4, F: 1, Seq: uint64(80 + rounds), Digest: 1, PrevKind: 2, Prev: &GOutcome{Surf: surf},
			Obs: nObs(3, func(i int) GObs {
				return obsWith([]GRes{func() GRes { r := honest(1, 200, 100); return r }()}, []GProp{prop(i), {Kind: 1, Upk: 205, Log: 105, Blk: 1, Hash: 1}}, hist)
			})})
	}
	for _, np := range []int{49, 50, 51, 70} {
		np := np
		add(GCase{Family: "per-round-cap-50", N: 31, F: 10, Seq: uint64(100 + np), Digest: 2, Obs: nObs(21, func(i int) GObs {
			var ps []GProp
			for j := 0; j < 5; j++ {
				k := (i*5 + j) % np
				ps = append(ps, GProp{Kind: 1, Upk: 400 + k%3, Log: 300 + k, Blk: uint64(i), Hash: 1 + i})
			}
			return obsWith(nil, ps, hist)
		})})
	}
	// proposal equal to an agreed performable; same proposal from several oracles and in an earlier round
	{
		r := honest(1, 500, 9)
		add(GCase{Family: "proposal-vs-performable", N: 4, F: 1, Seq: 120, Digest: 1, PrevKind: 2,
			Prev: &GOutcome{Surf: [][]GProp{{{Kind: 1, Upk: 500, Log: 9, Blk: 5, Hash: 5}, {Kind: 1, Upk: 501, Log: 10, Blk: 5, Hash: 5}}}},
			Obs: nObs(4, func(i int) GObs {
				return obsWith([]GRes{r}, []GProp{{Kind: 1, Upk: 500, Log: 9, Blk: 1, Hash: 1}, {Kind: 1, Upk: 501, Log: 10, Blk: 2, Hash: 2}, {Kind: 0, Upk: 502, Blk: 3, Hash: 3}}, hist)
			})})
	}
	// over-limit lists make an observation invalid
	add(GCase{Family: "over-limit-observation", N: 4, F: 1, Seq: 121, Digest: 1, Obs: nObs(3, func(i int) GObs {
		var perf []GRes
		k := 100
		if i == 0 {
			k = 101
		}
		for j := 0; j < k; j++ {
			perf = append(perf, honest(1, 600, j+1))
		}
		var ps []GProp
		if i == 1 {
			for j := 0; j < 6; j++ {
				ps = append(ps, GProp{Kind: 0, Upk: 700 + j, Blk: 1, Hash: 1})
			}
		}
		return obsWith(perf, ps, hist)
	})})
	return cs
}

// randomCapCase: around the 100-result cap, with some units of work present in two versions that both reach f+1
func randomCapCase(r *Rng) GCase {
	units := 96 + r.Intn(20)
	vers := r.Intn(9)
	shift := 0
	if units > 100 {
		shift = units - 100
	}
	n, f := 4, 1
	if r.Chance(1, 3) {
		n, f = 7, 2
	}
	half := f + 1
	hist := chain(95, 100, 1)
	c := GCase{Family: "random-near-cap", N: n, F: f, Seq: r.U64() % 100000, Digest: 1 + r.Intn(2)}
	vstart := r.Intn(90)
	for i := 0; i < 2*half; i++ {
		var perf []GRes
		lo := 0
		if i >= half {
			lo = shift
		}
		for j := lo; j < lo+100 && j < units; j++ {
			g := honest(1, 3300+j%9, j+1)
			if i >= half && j >= lo+vstart && j < lo+vstart+vers {
				g.PD = fmt.Sprintf("%02x%02x", 0xb0+j%16, j)
			}
			perf = append(perf, g)
		}
		c.Obs = append(c.Obs, obsWith(perf, nil, hist))
	}
	return c
}

func randomCase(r *Rng) GCase {
	if r.Chance(1, 8) {
		return randomCapCase(r)
	}
	n := []int{4, 4, 7, 7, 10, 13, 31}[r.Intn(7)]
	f := r.Intn((n-1)/3 + 1)
	m := 2*f + 1 + r.Intn(n-2*f)
	if r.Chance(1, 10) {
		m = r.Intn(n + 1)
	}
	c := GCase{Family: "random", N: n, F: f, Seq: r.U64() % 100000, Digest: 1 + r.Intn(2)}
	// candidate results
	k := []int{0, 1, 2, 3, 5, 8, 13, 30, 60}[r.Intn(9)]
	var cands []GRes
	for i := 0; i < k; i++ {
		g := honest(r.Intn(2), 1+r.Intn(k+3), 0)
		if r.Chance(1, 12) {
			g.Kind = 2 // an upkeep type that is neither condition nor log
		}
		if g.Kind == 1 {
			g.Log = 1 + r.Intn(2*k+2)
		}
		g.Blk = 95 + uint64(r.Intn(6))
		g.Hash = 1 + r.Intn(4)
		g.Gas = 1 + uint64(r.Intn(5000000))
		g.PD = []string{"-", "", "01", "0102", "09", "0209"}[r.Intn(6)]
		g.Fgw = []string{"0", "1", "1000000000", "115792089237316195423570985008687907853269984665640564039457584007913129639935"}[r.Intn(4)]
		g.Ln = []string{"0", "5", "123456789012345678901234567890"}[r.Intn(3)]
		cands = append(cands, g)
	}
	// blocks: a main chain and a fork
	top := 100 + uint64(r.Intn(900))
	depth := 1 + r.Intn(8)
	mainc := chain(top-uint64(depth), top, 1)
	forkc := append([]GBlock(nil), mainc...)
	for i := range forkc {
		if i < 1+r.Intn(3) {
			forkc[i].Hash += 1000
		}
	}
	if r.Chance(1, 12) {
		mainc[0].Hash = 0 // zero-hash block
	}
	// proposals pool
	np := []int{0, 1, 3, 8, 20}[r.Intn(5)]
	var pool []GProp
	for i := 0; i < np; i++ {
		kind := r.Intn(2)
		pool = append(pool, GProp{Kind: kind, Upk: 2000 + r.Intn(np+2), Log: 700 + i*kind, Blk: uint64(r.Intn(1000)), Hash: r.Intn(5), ExtBlk: uint64(r.Intn(3))})
	}
	// previous outcome
	switch r.Intn(12) {
	case 0:
		c.PrevKind, c.PrevRaw = 1, []string{"", "{", "null", "[]", `{"AgreedPerformables":5}`}[r.Intn(5)]
	case 1, 2, 3, 4:
		c.PrevKind = 0
	default:
		c.PrevKind = 2
		po := &GOutcome{}
		rounds := []int{0, 1, 2, 5, 19, 20}[r.Intn(6)]
		used := map[string]bool{}
		for rd := 0; rd < rounds; rd++ {
			var round []GProp
			for j := 0; j < r.Intn(4); j++ {
				var p GProp
				if len(pool) > 0 && r.Chance(1, 3) {
					p = pool[r.Intn(len(pool))]
				} else {
					p = GProp{Kind: 1, Upk: 5000 + rd, Log: 900 + rd*10 + j, Blk: uint64(rd), Hash: 1}
				}
				key := fmt.Sprintf("%d/%d/%d", p.Kind, p.Upk, p.Log*p.Kind)
				if used[key] && !r.Chance(1, 40) { // rarely produce an invalid previous outcome
					continue
				}
				used[key] = true
				p.Blk, p.Hash, p.ExtBlk = 50+uint64(rd), 7, 0
				round = append(round, p)
			}
			po.Surf = append(po.Surf, round)
		}
		if len(cands) > 0 && r.Chance(1, 2) {
			// proposals in ONE history round for units that (may) become agreed this round
			var rd []GProp
			seenU := map[string]bool{}
			for j := 0; j < len(cands) && j < 1+r.Intn(4); j++ {
				g := cands[j]
				key := fmt.Sprintf("%d/%d/%d", g.Kind, g.Upk, g.Log*g.Kind)
				if used[key] || seenU[key] {
					continue
				}
				seenU[key] = true
				rd = append(rd, GProp{Kind: g.Kind, Upk: g.Upk, Log: g.Log, Blk: 1, Hash: 1})
			}
			po.Surf = append([][]GProp{rd}, po.Surf...)
			if len(po.Surf) > 20 {
				po.Surf = po.Surf[:20]
			}
		}
		c.Prev = po
	}
	byz := map[int]bool{}
	for len(byz) < f && len(byz) < m {
		byz[r.Intn(m)] = true
	}
	for i := 0; i < m; i++ {
		var o GObs
		switch {
		case byz[i] && r.Chance(1, 6):
			o.Raw = []string{"{", "", "null", `{"Performable":[{"UpkeepID":"x"}]}`, `{"Performable":[],"UpkeepProposals":null,"BlockHistory":[{"Number":-1}]}`}[r.Intn(5)]
			c.Obs = append(c.Obs, o)
			continue
		}
		used := map[string]bool{}
		for _, g := range cands {
			// each candidate is held by a subset whose size hovers around the threshold
			if !r.Chance(f+1+r.Intn(2), m) && !r.Chance(1, 3) {
				continue
			}
			x := g
			if byz[i] {
				switch r.Intn(6) {
				case 0:
					x = mutate(g, r.Intn(11))
				case 1:
					x.PD = "deadbeef" // same work id, different data
				case 2:
					x.Gas = 0 // invalid
				}
			}
			key := fmt.Sprintf("%d/%d/%d", x.Kind, x.Upk, x.Log*x.Kind)
			if used[key] && !(byz[i] && r.Chance(1, 4)) {
				continue
			}
			used[key] = true
			o.Perf = append(o.Perf, x)
			if len(o.Perf) >= 100 {
				break
			}
		}
		cnt := [2]int{}
		usedp := map[string]bool{}
		for _, p := range pool {
			if r.Chance(1, 2) {
				continue
			}
			key := fmt.Sprintf("%d/%d/%d", p.Kind, p.Upk, p.Log*p.Kind)
			if cnt[p.Kind] >= 5 || usedp[key] {
				continue
			}
			cnt[p.Kind]++
			usedp[key] = true
			q := p
			q.Blk, q.Hash = uint64(r.Intn(100)), r.Intn(6)
			if r.Chance(1, 2) {
				// sits on a height of the observed chain, with its hash or another one
				b := mainc[r.Intn(len(mainc))]
				q.Blk, q.Hash = b.Num, b.Hash
				if r.Chance(1, 2) {
					q.Hash += 500
				}
			}
			o.Props = append(o.Props, q)
		}
		h := mainc
		if r.Chance(1, 4) {
			h = forkc
		}
		lo := r.Intn(len(h))
		o.Hist = append([]GBlock(nil), h[lo:]...)
		if r.Chance(1, 15) {
			o.Hist = nil
		}
		if byz[i] && len(o.Hist) > 1 && r.Chance(1, 3) {
			// Byzantine: repeat a block (first entry again at the end, or right after itself)
			if r.Bool() {
				o.Hist = append(o.Hist, o.Hist[0])
			} else {
				o.Hist = append([]GBlock{o.Hist[0]}, o.Hist...)
			}
		}
		c.Obs = append(c.Obs, o)
	}
	return c
}
