package c12

import (
	"fmt"
	"io"
	"log"
	"path/filepath"
	"sync"
	"testing"
	"time"

	. "verifharness/h"

	"github.com/smartcontractkit/chainlink-automation/pkg/v3/stores"
	"github.com/smartcontractkit/chainlink-automation/pkg/v3/types"
	common "github.com/smartcontractkit/chainlink-common/pkg/types/automation"
)

// TestC12QueueRace: real clock, real goroutines on the real retry queue.  A unit of work waits in the queue (its
// retry interval has passed); a Dequeue (the retry flow's tick) and an Enqueue of the same unit on a NEWER check block
// (the log flow failed on it again) run concurrently, over a queue large enough for the Dequeue walk to take a while.
// "A retried payload whose newer check block was enqueued replaces the older one": whichever of the two wins, the
// newer payload must be handed out - by the racing Dequeue itself or, once its interval has passed, by the next one.
// A Dequeue that writes back records it copied earlier loses the newer payload here.
func TestC12QueueRace(t *testing.T) {
	dir := OutDir(t, "C12")
	rounds := 12
	if EnvTier() == "thorough" {
		rounds = 80
	}
	const filler = 60000
	mk := func(w string, blk uint64) types.RetryRecord {
		return types.RetryRecord{Payload: common.UpkeepPayload{WorkID: w, Trigger: common.NewTrigger(common.BlockNumber(blk), [32]byte{1})}, Interval: time.Millisecond}
	}
	lost, evals := 0, 0
	var sample []string
	for r := 0; r < rounds; r++ {
		q := stores.NewRetryQueue(log.New(io.Discard, "", 0))
		recs := make([]types.RetryRecord, 0, filler)
		for i := 0; i < filler; i++ {
			rec := mk(fmt.Sprintf("fill-%d", i), 5)
			rec.Interval = time.Hour // never due: they only make the walk longer
			recs = append(recs, rec)
		}
		_ = q.Enqueue(recs...)
		const units = 8
		for u := 0; u < units; u++ {
			_ = q.Enqueue(mk(fmt.Sprintf("w-%d", u), 8))
		}
		time.Sleep(3 * time.Millisecond) // the units are due
		got := map[string]uint64{}
		var mu sync.Mutex
		note := func(ps []common.UpkeepPayload) {
			mu.Lock()
			for _, p := range ps {
				if b := uint64(p.Trigger.BlockNumber); b > got[p.WorkID] {
					got[p.WorkID] = b
				}
			}
			mu.Unlock()
		}
		var wg sync.WaitGroup
		wg.Add(2)
		go func() {
			defer wg.Done()
			ps, _ := q.Dequeue(units)
			note(ps)
		}()
		go func() {
			defer wg.Done()
			time.Sleep(time.Duration(r%7) * 300 * time.Microsecond) // land inside the walk at different points
			for u := 0; u < units; u++ {
				_ = q.Enqueue(mk(fmt.Sprintf("w-%d", u), 9))
			}
		}()
		wg.Wait()
		for k := 0; k < 3; k++ {
			time.Sleep(3 * time.Millisecond)
			ps, _ := q.Dequeue(units)
			note(ps)
		}
		for u := 0; u < units; u++ {
			evals++
			if got[fmt.Sprintf("w-%d", u)] != 9 {
				lost++
				if len(sample) < 5 {
					sample = append(sample, fmt.Sprintf("round %d unit %d: newest block handed out %d", r, u, got[fmt.Sprintf("w-%d", u)]))
				}
			}
		}
	}
	var viol []any
	if lost > 0 {
		viol = append(viol, map[string]any{"kind": "a payload enqueued on a newer check block while a Dequeue was under way was never handed out", "lost": lost, "of": evals, "examples": sample})
	}
	WriteJSON(t, filepath.Join(dir, "direct_queue_race.json"), map[string]any{
		"evaluations": evals, "nontrivial_keys": []string{"retry-queue-race-rounds", "retry-queue-race-units"}, "violations": viol,
		"samples":      []any{map[string]any{"rounds": rounds, "filler_records": filler, "units_per_round": 8}},
		"distribution": map[string]any{"rounds": rounds},
	})
}
