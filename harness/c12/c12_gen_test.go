package c12

import (
	"fmt"
	"path/filepath"
	"testing"

	. "verifharness/h"

	"verifharness/c13/kit"
)

const defCexp = 20 * 60 * sec

type gen struct {
	r   *Rng
	tag int
	c   *c12Case
}

func (g *gen) lat(msLo, msHi int) int64 {
	return int64(g.r.Range(msLo, msHi))*ms + int64(g.r.Intn(1<<19)) + 1
}

// pl makes a payload instance and scripts what the pipeline answers on its successive invocations.
func (g *gen) pl(wid, blk, hash int, specs ...kit.Spec) kit.Payload {
	g.tag++
	if len(specs) == 0 {
		specs = []kit.Spec{{State: 0, Elig: true}}
	}
	g.c.Script = append(g.c.Script, kit.ScriptEntry{Tag: g.tag, Specs: specs})
	return kit.Payload{Wid: wid, Blk: blk, Hash: hash, Tag: g.tag, Lat: g.lat(1, 40), Kind: 1, Log: wid}
}

var (
	okE   = kit.Spec{State: 0, Elig: true}
	okI   = kit.Spec{State: 0, Elig: false}
	failN = kit.Spec{State: 2, Retry: false}
	failE = kit.Spec{State: 3, Retry: false, Elig: true} // failed executions may carry any Eligible flag
)

func retryE(ivl int64) kit.Spec { return kit.Spec{State: 1, Retry: true, Elig: true, Ivl: ivl} }

func retry(ivl int64) kit.Spec { return kit.Spec{State: 1, Retry: true, Ivl: ivl} }

func (g *gen) proc(kind int, at int64, pls ...kit.Payload) {
	g.c.Steps = append(g.c.Steps, c12Step{Op: "proc", Kind: kind, At: at, Pls: pls})
}
func (g *gen) op(op string, at int64, n int) {
	g.c.Steps = append(g.c.Steps, c12Step{Op: op, At: at, N: n})
}

// mixed returns n payloads on work ids from.., cycling eligible / ineligible / retryable / failed
func (g *gen) mixed(from, n, blk int) []kit.Payload {
	var ps []kit.Payload
	for i := 0; i < n; i++ {
		sp := []kit.Spec{okE, okI, retry(0), failN, retry(2 * sec), failE, retryE(1 * sec)}[i%7]
		ps = append(ps, g.pl(from+i, blk, 1, sp, okE))
	}
	return ps
}

func observerBoundary(r *Rng) []c12Case {
	var cs []c12Case
	add := func(fam string, workers int, build func(g *gen)) {
		c := c12Case{Family: fam, Mode: "observer", Workers: workers, Cexp: defCexp}
		g := &gen{r: r, c: &c}
		build(g)
		cs = append(cs, c)
	}
	// finding 5: payloads [B; A] with A cached and B failing retryably
	add("cached-A-then-B-A", 8, func(g *gen) {
		g.proc(kLog, 0, g.pl(1, 5, 1))
		g.proc(kLog, 2*sec, g.pl(2, 5, 1, retry(0), okE), g.pl(1, 5, 1))
		g.op("deq", 3*sec, 10)
		g.op("retry", 33*sec, 10)
	})
	add("first-batch-fails-results-shorter", 8, func(g *gen) {
		var ps []kit.Payload
		for i := 0; i < 25; i++ {
			sp := okE
			if i == 3 {
				sp = kit.Spec{Mode: 1}
			} else if i >= 12 && i%3 == 0 {
				sp = retry(int64(i) * sec / 10)
			}
			ps = append(ps, g.pl(1+i, 5, 1, sp, okI))
		}
		g.proc(kLog, 0, ps...)
		g.op("retry", 40*sec, 10)
	})
	add("later-batches-complete-first", 16, func(g *gen) {
		var ps []kit.Payload
		for i := 0; i < 35; i++ {
			p := g.pl(1+i, 5, 1, []kit.Spec{okE, retry(0), okI}[i%3], okE)
			p.Lat = int64(80-2*i)*ms + int64(g.r.Intn(1<<19))
			ps = append(ps, p)
		}
		g.proc(kRecFinal, 0, ps...)
		g.op("retry", 31*sec, 10)
		g.op("retry", 36*sec, 10)
	})
	// one batch outlasts the observer's process time limit (20 s): the runner returns the results of the batches that
	// completed, with a nil error - they are routed like any others (staged / recorded / retried), the stalled batch
	// contributes nothing
	for _, k := range []int{kLog, kRetry, kRecFinal, kCondFinal} {
		k := k
		add("one-batch-outlasts-the-process-limit-"+kindNames[k], 8, func(g *gen) {
			ps := g.mixed(1, 10, 5)
			// the second batch never answers in time: its check ends with the cancelled context, an error for the whole
			// batch (script mode 1), at the process limit
			ps = append(ps, g.pl(11, 5, 1, kit.Spec{Mode: 1}), g.pl(12, 5, 1), g.pl(13, 5, 1, okI), g.pl(14, 5, 1, retry(0)))
			for i := 10; i < len(ps); i++ {
				ps[i].Lat = 45*sec + int64(i)
			}
			g.proc(k, 0, ps...)
			g.op("retry", 60*sec, 100)
		})
	}
	// two flows at once on the shared runner: the second runs a whole Process call while the first is held inside its
	// first sink call (a slow database); each call's results go to that call's sinks with that call's payloads
	for _, kk := range [][2]int{{kLog, kSample}, {kRecFinal, kLog}, {kRetry, kCondFinal}, {kRecProp, kLog}} {
		kk := kk
		add("two-flows-overlap-"+kindNames[kk[0]]+"-"+kindNames[kk[1]], 8, func(g *gen) {
			a := g.mixed(1, 7, 5)
			b := g.mixed(101, 7, 6)
			g.c.Steps = append(g.c.Steps, c12Step{Op: "par", Kind: kk[0], At: 0, Pls: a, Kind2: kk[1], Pls2: b})
			g.op("retry", 40*sec, 100)
		})
	}
	for k := kLog; k <= kSample; k++ {
		k := k
		add("routing-"+kindNames[k], 4, func(g *gen) {
			g.proc(k, 0, g.mixed(1, 12, 5)...)
			g.proc(k, 2*sec, append(g.mixed(1, 4, 5), g.mixed(20, 3, 6)...)...)
			g.op("deq", 40*sec, 100)
		})
	}
	// sinks that refuse: every post-processor of the chain must still see the whole result list
	for k := kLog; k <= kSample; k++ {
		k := k
		add("sinks-refuse-"+kindNames[k], 4, func(g *gen) {
			// work ids 1.. cycle eligible / ineligible / retry / failed / retry / failed-eligible / retry-eligible
			g.c.UFail = []int{2, 9}     // two of the ineligible results
			g.c.QFail = []int{3, 5, 10} // three of the retryable failures
			g.proc(k, 0, g.mixed(1, 14, 5)...)
			g.proc(k, 2*sec, g.mixed(1, 7, 6)...)
			g.op("retry", 40*sec, 100)
			g.op("deq", 80*sec, 100)
		})
	}
	add("updater-refuses-first-ineligible", 4, func(g *gen) {
		g.c.UFail = []int{1}
		g.proc(kRecProp, 0, g.pl(1, 5, 1, okI), g.pl(2, 5, 1, okE), g.pl(3, 5, 1, okI), g.pl(4, 5, 1, okE))
	})
	add("queue-refuses-then-ineligible", 4, func(g *gen) {
		g.c.QFail = []int{1}
		g.proc(kLog, 0, g.pl(1, 5, 1, retry(0)), g.pl(2, 5, 1, okI), g.pl(3, 5, 1, okE), g.pl(4, 5, 1, retry(1*sec), okE))
		g.op("retry", 40*sec, 10)
	})
	add("all-batches-fail-with-cached", 4, func(g *gen) {
		g.proc(kLog, 0, g.pl(1, 5, 1), g.pl(2, 5, 1))
		ps := []kit.Payload{g.pl(1, 5, 1), g.pl(3, 5, 1, kit.Spec{Mode: 1}), g.pl(2, 5, 1), g.pl(4, 5, 1, retry(0))}
		g.proc(kLog, 2*sec, ps...)
		g.op("deq", 40*sec, 10)
	})
	add("retry-then-success", 4, func(g *gen) {
		g.proc(kLog, 0, g.pl(1, 5, 1, retry(2*sec), okE), g.pl(2, 5, 1, retry(0), okI))
		g.op("deq", 1*sec, 10)
		g.op("retry", 2*sec+900*ms, 10)
		g.op("retry", 35*sec, 10)
		g.op("deq", 70*sec, 10)
	})
	add("retry-fails-again-pending", 4, func(g *gen) {
		g.proc(kCondFinal, 0, g.pl(1, 5, 1, retry(1*sec), retry(3*sec), okE))
		g.op("retry", 2*sec, 10)
		g.op("deq", 3*sec, 10)
		g.op("retry", 6*sec, 10)
		g.op("deq", 60*sec, 10)
	})
	add("higher-block-replaces", 4, func(g *gen) {
		g.proc(kLog, 0, g.pl(1, 5, 1, retry(0), okE))
		g.proc(kLog, 1*sec, g.pl(1, 7, 2, retry(0), okE))
		g.proc(kLog, 2*sec, g.pl(1, 6, 3, retry(0), okE))
		g.op("retry", 40*sec, 10)
	})
	add("equal-block-keeps-first", 4, func(g *gen) {
		g.proc(kLog, 0, g.pl(1, 5, 1, retry(0), okE))
		g.proc(kLog, 1*sec, g.pl(1, 5, 2, retry(0), okI))
		g.op("retry", 40*sec, 10)
	})
	add("same-work-id-two-blocks-both-fail", 4, func(g *gen) {
		g.proc(kLog, 0, g.pl(9, 5, 1), g.pl(1, 7, 2, retry(0), okE), g.pl(1, 5, 1, retry(0), okE), g.pl(2, 5, 1, okI))
		g.op("retry", 40*sec, 10)
	})
	add("default-interval-boundary", 4, func(g *gen) {
		p := g.pl(1, 5, 1, retry(0), okE)
		p.Lat = 10 * ms
		g.proc(kLog, 0, p)
		g.op("deq", 10*ms+30*sec, 10)   // now - updatedAt == interval: not yet
		g.op("deq", 10*ms+30*sec+1, 10) // one ns later: due
	})
	add("result-without-work-id-and-twice", 4, func(g *gen) {
		g.proc(kLog, 0, g.pl(1, 5, 1, kit.Spec{State: 1, Retry: true, Mode: 4}), g.pl(2, 5, 1, okE))
		g.proc(kLog, 2*sec, g.pl(3, 5, 1, kit.Spec{State: 1, Retry: true, Mode: 3}))
		g.proc(kLog, 4*sec, g.pl(4, 5, 1, okE), g.pl(5, 5, 1, kit.Spec{State: 1, Retry: true, Mode: 4}), g.pl(6, 5, 1, kit.Spec{State: 1, Retry: true, Mode: 3}))
		g.op("deq", 60*sec, 100)
	})
	add("coordinator-filters", 4, func(g *gen) {
		ps := g.mixed(1, 10, 5)
		g.c.Drop = []int{ps[0].Tag, ps[2].Tag, ps[7].Tag}
		g.proc(kLog, 0, ps...)
		g.op("retry", 40*sec, 10)
	})
	add("keeps-failing-until-expired", 4, func(g *gen) {
		specs := make([]kit.Spec, 12)
		for i := range specs {
			specs[i] = retry(3 * 3600 * sec)
		}
		g.proc(kLog, 0, g.pl(1, 5, 1, specs...), g.pl(2, 5, 1, retry(25*3600*sec)))
		for i := 1; i <= 9; i++ {
			g.op("retry", int64(i)*3*3600*sec+int64(i)*sec, 100)
		}
		g.op("deq", 30*3600*sec, 100)
	})
	add("dequeue-limit", 4, func(g *gen) {
		var ps []kit.Payload
		for i := 0; i < 14; i++ {
			ps = append(ps, g.pl(1+i, 5, 1, retry(1*sec), okE))
		}
		g.proc(kLog, 0, ps...)
		g.op("deq", 5*sec, 0)
		g.op("deq", 6*sec, 3)
		g.op("retry", 7*sec, 10)
		g.op("deq", 8*sec, 10)
	})
	return cs
}

func observerRandom(r *Rng) c12Case {
	c := c12Case{Family: "random", Mode: "observer", Workers: []int{1, 2, 4, 16}[r.Intn(4)], Cexp: []int64{defCexp, 3 * sec}[r.Intn(2)]}
	g := &gen{r: r, c: &c}
	pool := []int{3, 6, 12}[r.Intn(3)]
	if r.Chance(1, 3) {
		for w := 1; w <= pool; w++ {
			if r.Chance(1, 3) {
				c.UFail = append(c.UFail, w)
			}
			if r.Chance(1, 4) {
				c.QFail = append(c.QFail, w)
			}
		}
	}
	at := int64(0)
	nsteps := 3 + r.Intn(8)
	for i := 0; i < nsteps; i++ {
		switch r.Intn(10) {
		case 0, 1:
			g.op("deq", at, []int{-1, 0, 1, 2, 10, 100}[r.Intn(6)])
		case 2, 3, 4:
			g.op("retry", at, []int{1, 3, 10, 10, 100}[r.Intn(5)])
		default:
			n := []int{1, 2, 3, 5, 8, 11, 14, 23}[r.Intn(8)]
			var ps []kit.Payload
			for j := 0; j < n; j++ {
				var specs []kit.Spec
				for a := 0; a < 3; a++ {
					switch r.Intn(8) {
					case 0, 1, 2:
						specs = append(specs, okE)
					case 3, 4:
						specs = append(specs, okI)
					case 5, 6:
						sp := retry([]int64{0, 0, 1 * sec, 4 * sec, 40 * sec}[r.Intn(5)])
						sp.Elig = r.Bool()
						specs = append(specs, sp)
					default:
						specs = append(specs, []kit.Spec{failN, failE}[r.Intn(2)])
					}
				}
				if r.Chance(1, 40) {
					specs[0].Mode = 1
				} else if r.Chance(1, 50) {
					specs[0].Mode = 3 + r.Intn(2)
				}
				ps = append(ps, g.pl(1+r.Intn(pool), 1+r.Intn(3), 1+r.Intn(2), specs...))
			}
			g.proc(r.Intn(6), at, ps...)
		}
		at += []int64{1 * sec, 2 * sec, 5 * sec, 31 * sec, 31 * sec, 45 * sec}[r.Intn(6)] + int64(r.Intn(1000))*ms
	}
	return c
}

// ---- flows

func (g *gen) inject(kind int, slot int, pls ...kit.Payload) {
	for i := range pls {
		pls[i].Lat = int64(g.r.Range(1, 300))*ms + int64(g.r.Intn(1<<19)) + 1
		if kind == kCondFinal || kind == kSample {
			pls[i].Kind, pls[i].Log = 0, 0
		}
	}
	g.c.Steps = append(g.c.Steps, c12Step{Op: "inject", Kind: kind, At: int64(slot) * sec, Pls: pls})
}

func flowsBoundary(r *Rng) []c12Case {
	var cs []c12Case
	add := func(fam string, build func(g *gen)) {
		c := c12Case{Family: fam, Mode: "flows", Workers: 16, Cexp: defCexp}
		g := &gen{r: r, c: &c}
		build(g)
		cs = append(cs, c)
	}
	add("log-flow-cached-A-then-B-A-retried", func(g *gen) {
		g.inject(kLog, 1, g.pl(1, 5, 1))
		g.inject(kLog, 2, g.pl(2, 5, 1, retry(2*sec), okE), g.pl(1, 5, 1))
		g.c.Steps = append(g.c.Steps, c12Step{Op: "idle", At: 11 * sec})
	})
	add("every-flow-once", func(g *gen) {
		g.inject(kLog, 1, g.mixed(1, 7, 5)...)
		g.inject(kRecProp, 2, g.mixed(20, 6, 5)...)
		g.inject(kSample, 3, g.mixed(40, 6, 5)...)
		g.inject(kRecFinal, 4, g.mixed(60, 6, 5)...)
		g.inject(kCondFinal, 6, g.mixed(80, 6, 5)...)
		g.inject(kLog, 7, g.mixed(100, 12, 5)...)
		g.c.Steps = append(g.c.Steps, c12Step{Op: "idle", At: 41 * sec})
	})
	add("every-flow-with-refusing-sinks", func(g *gen) {
		g.c.UFail = []int{2, 21, 23, 44, 61, 82}
		g.c.QFail = []int{3, 5, 62, 64, 83}
		g.inject(kLog, 1, g.mixed(1, 7, 5)...)
		g.inject(kRecProp, 2, g.mixed(20, 6, 5)...)
		g.inject(kSample, 3, g.mixed(40, 6, 5)...)
		g.inject(kRecFinal, 4, g.mixed(60, 6, 5)...)
		g.inject(kCondFinal, 6, g.mixed(80, 6, 5)...)
		g.c.Steps = append(g.c.Steps, c12Step{Op: "idle", At: 41 * sec})
	})
	add("final-flows-batches", func(g *gen) {
		g.inject(kRecFinal, 1, g.mixed(1, 23, 5)...)
		g.inject(kCondFinal, 2, g.mixed(40, 23, 5)...)
		g.c.Steps = append(g.c.Steps, c12Step{Op: "idle", At: 36 * sec})
	})
	return cs
}

func flowsRandom(r *Rng) c12Case {
	c := c12Case{Family: "random", Mode: "flows", Workers: 16, Cexp: defCexp}
	g := &gen{r: r, c: &c}
	slots := 8 + r.Intn(14)
	wid := 1
	for k := 1; k <= slots; k++ {
		if k%5 == 0 || r.Chance(1, 4) {
			continue
		}
		kind := []int{kLog, kLog, kRecProp, kRecFinal, kCondFinal, kSample}[r.Intn(6)]
		if kind == kSample && k%3 != 0 {
			kind = kLog
		}
		n := 1 + r.Intn(14)
		var ps []kit.Payload
		for j := 0; j < n; j++ {
			first := []kit.Spec{okE, okE, okI, retry(int64(1+r.Intn(4)) * sec), retry(0), failN, failE, retryE(int64(1+r.Intn(4)) * sec)}[r.Intn(8)]
			second := []kit.Spec{okE, okI, retry(2 * sec)}[r.Intn(3)]
			ps = append(ps, g.pl(wid, 1+r.Intn(3), 1+r.Intn(2), first, second, okE))
			wid++
		}
		g.inject(kind, k, ps...)
	}
	if r.Chance(1, 3) {
		for w := 1; w < wid; w++ {
			if r.Chance(1, 4) {
				c.UFail = append(c.UFail, w)
			}
			if r.Chance(1, 5) {
				c.QFail = append(c.QFail, w)
			}
		}
	}
	c.Steps = append(c.Steps, c12Step{Op: "idle", At: int64(slots+11) * sec})
	return c
}

// ---- queue op sequences

func queueBoundary(r *Rng) []c12Case {
	var cs []c12Case
	tag := 0
	pl := func(wid, blk, hash int) kit.Payload {
		tag++
		return kit.Payload{Wid: wid, Blk: blk, Hash: hash, Tag: tag}
	}
	add := func(fam string, steps ...c12Step) { cs = append(cs, c12Case{Family: fam, Mode: "queue", Steps: steps}) }
	enq := func(at int64, recs ...enqRec) c12Step { return c12Step{Op: "enq", At: at, Recs: recs} }
	deq := func(at int64, n int) c12Step { return c12Step{Op: "deq", At: at, N: n} }
	size := func(at int64) c12Step { return c12Step{Op: "size", At: at} }
	h := 3600 * sec
	add("interval-boundary", enq(0, enqRec{pl(1, 5, 1), 0}, enqRec{pl(2, 5, 1), 2 * sec}), size(1),
		deq(2*sec, 10), deq(2*sec+1, 10), deq(30*sec, 10), deq(30*sec+1, 10), deq(31*sec, 10), size(32*sec))
	add("pending-until-re-enqueued", enq(0, enqRec{pl(1, 5, 1), 1 * sec}), deq(2*sec, 10), deq(3*sec, 10), size(3*sec),
		enq(4*sec, enqRec{pl(1, 5, 1), 1 * sec}), deq(5*sec, 10), deq(5*sec+1, 10))
	add("higher-block-replaces-equal-does-not", enq(0, enqRec{pl(1, 5, 1), 1 * sec}), enq(1, enqRec{pl(1, 7, 2), 1 * sec}),
		enq(2, enqRec{pl(1, 7, 3), 1 * sec}), enq(3, enqRec{pl(1, 6, 4), 0}), deq(40*sec, 10))
	add("one-call-many-records-same-id", enq(0, enqRec{pl(1, 5, 1), 5 * sec}, enqRec{pl(1, 9, 1), 1 * sec}, enqRec{pl(2, 1, 1), 0}, enqRec{pl(1, 7, 1), 2 * sec}),
		deq(1*sec+1, 10), deq(2*sec+1, 10), deq(31*sec, 10))
	add("expiry-boundary", enq(0, enqRec{pl(1, 5, 1), 23 * h}, enqRec{pl(2, 5, 1), 24 * h}, enqRec{pl(3, 5, 1), 0}),
		deq(24*h, 1), size(24*h), deq(24*h+1, 100), size(24*h+1), enq(24*h+2, enqRec{pl(2, 5, 1), 0}), deq(24*h+40*sec, 100))
	add("re-enqueue-keeps-creation-time", enq(0, enqRec{pl(1, 5, 1), 0}), deq(23*h, 10), enq(23*h+1, enqRec{pl(1, 5, 1), 2 * h}),
		deq(25*h+2, 100), size(25*h+3), enq(25*h+4, enqRec{pl(1, 5, 1), 0}), deq(26*h, 100))
	add("n-zero-negative-limit", enq(0, enqRec{pl(1, 5, 1), 1}, enqRec{pl(2, 5, 1), 1}, enqRec{pl(3, 5, 1), 1}, enqRec{pl(4, 5, 1), 1}),
		deq(1*sec, 0), deq(2*sec, -3), deq(3*sec, 1), deq(4*sec, 5), deq(5*sec, 5))
	add("empty", deq(0, 10), size(1))
	return cs
}

func queueRandom(r *Rng) c12Case {
	c := c12Case{Family: "random", Mode: "queue"}
	tag := 0
	pool := []int{2, 4, 9}[r.Intn(3)]
	long := r.Chance(1, 3) // horizons beyond the expiry
	at := int64(0)
	n := 5 + r.Intn(20)
	for i := 0; i < n; i++ {
		switch r.Intn(7) {
		case 0, 1, 2:
			k := 1 + r.Intn(3)
			var recs []enqRec
			for j := 0; j < k; j++ {
				tag++
				recs = append(recs, enqRec{kit.Payload{Wid: 1 + r.Intn(pool), Blk: 1 + r.Intn(4), Hash: 1 + r.Intn(2), Tag: tag},
					[]int64{0, 0, -1, 1 * sec, 7 * sec, 3600 * sec}[r.Intn(6)]})
			}
			c.Steps = append(c.Steps, c12Step{Op: "enq", At: at, Recs: recs})
		case 3:
			c.Steps = append(c.Steps, c12Step{Op: "size", At: at})
		default:
			nn := []int{-1, 0, 1, 2, 3, 10, 100}[r.Intn(7)]
			if long {
				nn = 100 // no early break while expired records may exist
			}
			c.Steps = append(c.Steps, c12Step{Op: "deq", At: at, N: nn})
		}
		if long {
			at += []int64{1 * sec, 31 * sec, 3600 * sec, 5 * 3600 * sec, 13 * 3600 * sec}[r.Intn(5)] + int64(r.Intn(1000))
		} else {
			at += []int64{1, 1 * sec, 7 * sec, 30 * sec, 31 * sec, 3600 * sec}[r.Intn(6)] + int64(r.Intn(1000))
		}
	}
	return c
}

// ---------------------------------------------------------------- Gallina

func coqEnq(e enqRec) string { return fmt.Sprintf("(%s, %s)", kit.CoqPl(e.P), CoqZ(e.Ivl)) }

func coqStep(o stepObs) string {
	switch o.What {
	case "proc":
		done := CoqList(o.Done, func(d [2]int64) string { return fmt.Sprintf("(%d, %s)", d[0], CoqZ(d[1])) })
		props := CoqList(o.Props, func(p [3]int) string { return fmt.Sprintf("(%d, %d, %d)", p[0], p[1], p[2]) })
		so := fmt.Sprintf("(mkSO %d %s %s %s %s %s %s)", o.Err, kit.CoqRess(o.Results), kit.CoqRess(o.Staged), kit.CoqRess(o.Inelig),
			props, CoqList(o.Enq, coqEnq), CoqZ(o.TQ))
		return fmt.Sprintf("SProc %s %s %s %s %s", kindNames[o.Kind], CoqZ(o.T), kit.CoqPls(o.Pls), done, so)
	case "deq":
		return fmt.Sprintf("SDeq %s %s %s", CoqZ(o.T), CoqZ(int64(o.N)), kit.CoqPls(o.Pls))
	}
	return "SDeq 0 0 []"
}

func coqQStep(o stepObs) string {
	switch o.What {
	case "enq":
		return fmt.Sprintf("OEnq %s %s", CoqZ(o.T), CoqList(o.Recs, coqEnq))
	case "deq":
		return fmt.Sprintf("ODeq %s %s %s", CoqZ(o.T), CoqZ(int64(o.N)), kit.CoqPls(o.Pls))
	}
	return fmt.Sprintf("OSize %s %s", CoqZ(o.T), CoqNat(o.Size))
}

func plTerm(c c12Case) string {
	ns := func(xs []int) string { return CoqList(xs, func(x int) string { return fmt.Sprintf("%d", x) }) }
	return fmt.Sprintf("mkPlCase %s RetryDefaultInterval RetryDefaultExpiration %s %s %s %s", CoqZ(c.Cexp), kit.CoqScript(c.Script),
		ns(c.UFail), ns(c.QFail), CoqList(c.Obs, coqStep))
}

func qTerm(c c12Case) string {
	return fmt.Sprintf("mkQCase RetryDefaultInterval RetryDefaultExpiration %s", CoqList(c.Obs, coqQStep))
}

func TestC12(t *testing.T) {
	dir := OutDir(t, "C12")
	var all []c12Case
	if rf := ReplayFile(); rf != "" {
		all = LoadReplayCases[c12Case](t, rf)
	} else {
		all = append(all, LoadCorpus[c12Case](t, "C12")...)
		r := NewRng(EnvSeed())
		all = append(all, observerBoundary(r)...)
		all = append(all, flowsBoundary(r)...)
		all = append(all, queueBoundary(r)...)
		n := EnvInt("VERIF_N", 100)
		for i := 0; i < n; i++ {
			all = append(all, observerRandom(r))
		}
		for i := 0; i < n/4+1; i++ {
			all = append(all, flowsRandom(r))
		}
		for i := 0; i < n; i++ {
			all = append(all, queueRandom(r))
		}
	}
	parts := map[string][]c12Case{}
	for i := range all {
		c := &all[i]
		switch c.Mode {
		case "observer":
			withDistinctInstants(t, c, runObserver)
		case "flows":
			withDistinctInstants(t, c, runFlows)
		case "queue":
			runQueue(t, c)
		default:
			t.Fatalf("unknown mode %q", c.Mode)
		}
		parts[c.Mode] = append(parts[c.Mode], *c)
	}
	files := map[string]string{"observer": "cases", "flows": "cases_flows", "queue": "cases_queue"}
	for mode, cases := range parts {
		cf := NewCaseFile("C12", "Base.Util", "Model.Runner", "Model.RetryQueue", "Model.Pipeline", "Gen.Generated")
		cf.Prelude = "Open Scope N_scope.\nDefinition wl : nat := Z.to_nat WorkerBatchLimit."
		fam := map[string]int{}
		sizes := map[string]int{}
		for _, c := range cases {
			fam[c.Family]++
			sizes[fmt.Sprintf("steps<=%d", (len(c.Obs)/5+1)*5)]++
			if mode == "queue" {
				cf.Add(qTerm(c))
			} else {
				cf.Add(plTerm(c))
			}
		}
		if mode == "queue" {
			cf.Write(t, dir, files[mode]+".v", "q_case", [][2]string{
				{"mism", "find_idx qc_mism cases"},
				{"bad", "find_idx qc_bad cases"},
				{"nontriv", "find_idx qc_nontriv cases"},
				{"cov_undetermined", "find_idx qc_undet cases"},
				{"cov_enqueued_dequeued_emptydequeues", "cov3_sum (map qc_cov cases)"},
			})
		} else {
			cf.Write(t, dir, files[mode]+".v", "pl_case", [][2]string{
				{"mism", "find_idx (pl_mism wl) cases"},
				{"bad", "find_idx pl_bad cases"},
				{"kf_misaligned", "find_idx pl_kf_misaligned cases"},
				{"nontriv", "find_idx pl_nontriv cases"},
				{"cov_undetermined", "find_idx (fun k => ps_und (pl_run wl k)) cases"},
				{"cov_routed_ineligible_retried_dequeued", "cov4_sum (map pl_cov cases)"},
			})
		}
		WriteJSON(t, filepath.Join(dir, files[mode]+".json"), map[string]any{
			"property": "C12", "seed": EnvSeed(), "cases": cases, "families": fam, "sizes": sizes,
		})
	}
}
