package c12

import (
	"bytes"
	"context"
	"errors"
	"fmt"
	"io"
	"log"
	"sort"
	"sync"
	"sync/atomic"
	"testing"
	"testing/synctest"
	"time"

	. "verifharness/h"

	"verifharness/c13/kit"

	ocr2keepersv3 "github.com/smartcontractkit/chainlink-automation/pkg/v3"
	"github.com/smartcontractkit/chainlink-automation/pkg/v3/flows"
	"github.com/smartcontractkit/chainlink-automation/pkg/v3/postprocessors"
	"github.com/smartcontractkit/chainlink-automation/pkg/v3/runner"
	"github.com/smartcontractkit/chainlink-automation/pkg/v3/service"
	"github.com/smartcontractkit/chainlink-automation/pkg/v3/stores"
	"github.com/smartcontractkit/chainlink-automation/pkg/v3/types"
	common "github.com/smartcontractkit/chainlink-common/pkg/types/automation"
)

const (
	ms  = int64(time.Millisecond)
	sec = int64(time.Second)

	kLog, kRetry, kRecFinal, kCondFinal, kRecProp, kSample = 0, 1, 2, 3, 4, 5
)

var kindNames = []string{"KLog", "KRetry", "KRecFinal", "KCondFinal", "KRecProp", "KSample"}

// ---------------------------------------------------------------- generator form

type enqRec struct {
	P   kit.Payload `json:"p"`
	Ivl int64       `json:"ivl"`
}

type c12Step struct {
	Op   string        `json:"op"` // observer: proc | retry | deq ; flows: inject | idle ; queue: enq | deq | size
	Kind int           `json:"kind,omitempty"`
	At   int64         `json:"at"`
	Pls  []kit.Payload `json:"pls,omitempty"`
	N    int           `json:"n,omitempty"`
	Recs []enqRec      `json:"recs,omitempty"`
	// par: a second flow (Kind2, Pls2, other work ids) runs a whole Process call while the first one is held inside
	// its first sink call: all flows share one runner, nothing of one call may reach the other
	Kind2 int           `json:"kind2,omitempty"`
	Pls2  []kit.Payload `json:"pls2,omitempty"`
}

type stepObs struct {
	What    string          `json:"what"` // proc | deq | enq | size
	Kind    int             `json:"kind"`
	T       int64           `json:"t"`
	N       int             `json:"n,omitempty"`
	Pls     []kit.Payload   `json:"pls,omitempty"` // what reached the runner / what Dequeue returned
	Done    [][2]int64      `json:"done,omitempty"`
	Err     int             `json:"errk"`
	Results []kit.ResultObs `json:"results,omitempty"`
	Staged  []kit.ResultObs `json:"staged,omitempty"`
	Inelig  []kit.ResultObs `json:"inelig,omitempty"`
	Props   [][3]int        `json:"props,omitempty"`
	Enq     []enqRec        `json:"enq,omitempty"`
	TQ      int64           `json:"tq,omitempty"`
	Size    int             `json:"size,omitempty"`
	Recs    []enqRec        `json:"recs,omitempty"`
}

type c12Case struct {
	Family  string            `json:"family"`
	Mode    string            `json:"mode"` // observer | flows | queue
	Workers int               `json:"workers,omitempty"`
	Cexp    int64             `json:"cexp,omitempty"`
	Drop    []int             `json:"drop,omitempty"`  // tags the (fake) coordinator filters out
	UFail   []int             `json:"ufail,omitempty"` // work ids for which SetUpkeepState returns an error
	QFail   []int             `json:"qfail,omitempty"` // work ids for which RetryQueue.Enqueue returns an error
	Script  []kit.ScriptEntry `json:"script,omitempty"`
	Steps   []c12Step         `json:"steps"`
	Obs     []stepObs         `json:"obs,omitempty"`
}

// ---------------------------------------------------------------- recording sinks

type sinkRec struct {
	mu     sync.Mutex
	rec    *kit.Rec
	staged []common.CheckResult
	stT    []int64
	inelig []common.CheckResult
	inT    []int64
	badSt  int // SetUpkeepState with a state other than Ineligible
	props  []common.CoordinatedBlockProposal
	prT    []int64
	ufail  map[int]bool // SetUpkeepState refuses these work ids
	slow   atomic.Int64 // virtual ns every sink call takes (par steps); 0 = immediate
	inSink atomic.Int32 // sink calls begun so far
}

// enter is called at the start of every sink call: a par step holds the first flow here while the second one runs
func (s *sinkRec) enter() {
	s.inSink.Add(1)
	if d := s.slow.Load(); d > 0 {
		time.Sleep(time.Duration(d))
	}
}

func intSet(xs []int) map[int]bool {
	m := map[int]bool{}
	for _, x := range xs {
		m[x] = true
	}
	return m
}

// errSpy is the writer behind the loggers handed to the flows: the tickers log an observer's
// Process error, which is the only place where it surfaces.
type errSpy struct {
	mu  sync.Mutex
	rec *kit.Rec
	at  []int64
}

func (e *errSpy) Write(p []byte) (int, error) {
	if bytes.Contains(p, []byte("error processing observer")) {
		e.mu.Lock()
		e.at = append(e.at, e.rec.Now())
		e.mu.Unlock()
	}
	return len(p), nil
}

type recStore struct{ s *sinkRec }

func (r recStore) Add(rs ...common.CheckResult) {
	r.s.enter()
	r.s.mu.Lock()
	defer r.s.mu.Unlock()
	for _, x := range rs {
		r.s.staged = append(r.s.staged, x)
		r.s.stT = append(r.s.stT, r.s.rec.Now())
	}
}
func (r recStore) Remove(...string)                    {}
func (r recStore) View() ([]common.CheckResult, error) { return nil, nil }

type recUpdater struct{ s *sinkRec }

func (r recUpdater) SetUpkeepState(_ context.Context, x common.CheckResult, st common.UpkeepState) error {
	r.s.enter()
	r.s.mu.Lock()
	defer r.s.mu.Unlock()
	if st != common.Ineligible {
		r.s.badSt++
	}
	r.s.inelig = append(r.s.inelig, x)
	r.s.inT = append(r.s.inT, r.s.rec.Now())
	if r.s.ufail[kit.ReadWorkID(x.WorkID)] {
		return fmt.Errorf("scripted state updater failure")
	}
	return nil
}

type recMeta struct{ s *sinkRec }

func (r recMeta) SetBlockHistory(common.BlockHistory)  {}
func (r recMeta) GetBlockHistory() common.BlockHistory { return nil }
func (r recMeta) AddProposals(ps ...common.CoordinatedBlockProposal) {
	r.s.enter()
	r.s.mu.Lock()
	defer r.s.mu.Unlock()
	for _, p := range ps {
		r.s.props = append(r.s.props, p)
		r.s.prT = append(r.s.prT, r.s.rec.Now())
	}
}
func (r recMeta) ViewProposals(types.UpkeepType) []common.CoordinatedBlockProposal { return nil }
func (r recMeta) RemoveProposals(...common.CoordinatedBlockProposal)               {}
func (r recMeta) Start(context.Context) error                                      { return nil }
func (r recMeta) Close() error                                                     { return nil }

type qEnq struct {
	t   int64
	rec types.RetryRecord
}
type qDeq struct {
	t   int64
	n   int
	got []common.UpkeepPayload
}

// recQueue records the calls and delegates to the real retry queue.
type recQueue struct {
	mu    sync.Mutex
	rec   *kit.Rec
	inner types.RetryQueue
	enq   []qEnq
	deq   []qDeq
	qfail map[int]bool // Enqueue refuses these work ids
}

func (q *recQueue) Enqueue(items ...types.RetryRecord) error {
	var err error
	for _, it := range items {
		q.mu.Lock()
		q.enq = append(q.enq, qEnq{t: q.rec.Now(), rec: it})
		q.mu.Unlock()
		if q.qfail[kit.ReadWorkID(it.Payload.WorkID)] {
			err = errors.Join(err, fmt.Errorf("scripted retry queue failure"))
			continue
		}
		err = errors.Join(err, q.inner.Enqueue(it))
	}
	return err
}

func (q *recQueue) Dequeue(n int) ([]common.UpkeepPayload, error) {
	got, err := q.inner.Dequeue(n)
	q.mu.Lock()
	q.deq = append(q.deq, qDeq{t: q.rec.Now(), n: n, got: append([]common.UpkeepPayload(nil), got...)})
	q.mu.Unlock()
	return got, err
}

type runCall struct {
	t    int64
	call int
	args []common.UpkeepPayload
	res  []common.CheckResult
	err  error
}

// recRunner records what the observer hands to the real runner and what it gets back.
type recRunner struct {
	mu    sync.Mutex
	rec   *kit.Rec
	inner *runner.Runner
	calls []runCall
	slot  func() int
}

func (r *recRunner) CheckUpkeeps(ctx context.Context, ps ...common.UpkeepPayload) ([]common.CheckResult, error) {
	t := r.rec.Now()
	call := -1
	if r.slot != nil {
		call = r.slot()
	}
	res, err := r.inner.CheckUpkeeps(ctx, ps...)
	r.mu.Lock()
	c := runCall{t: t, args: append([]common.UpkeepPayload(nil), ps...), res: append([]common.CheckResult(nil), res...), err: err, call: call}
	r.calls = append(r.calls, c)
	r.mu.Unlock()
	return res, err
}

// dropFilter stands for the coordinator's PreProcess: it filters out the payloads whose tag is listed.
type dropFilter struct{ drop map[int]bool }

func (d dropFilter) PreProcess(_ context.Context, ps []common.UpkeepPayload) ([]common.UpkeepPayload, error) {
	out := make([]common.UpkeepPayload, 0, len(ps))
	for _, p := range ps {
		if !d.drop[kit.ReadPayload(p).Tag] {
			out = append(out, p)
		}
	}
	return out, nil
}

type staticTick struct{ ps []common.UpkeepPayload }

func (s staticTick) Value(context.Context) ([]common.UpkeepPayload, error) { return s.ps, nil }

func postFor(kind int, s *sinkRec, q types.RetryQueue, lg *log.Logger) postprocessors.PostProcessor {
	switch kind {
	case kLog, kRetry, kRecFinal:
		return postprocessors.NewCombinedPostprocessor(
			postprocessors.NewEligiblePostProcessor(recStore{s}, lg),
			postprocessors.NewRetryablePostProcessor(q, lg),
			postprocessors.NewIneligiblePostProcessor(recUpdater{s}, lg))
	case kCondFinal:
		return postprocessors.NewCombinedPostprocessor(
			postprocessors.NewEligiblePostProcessor(recStore{s}, lg),
			postprocessors.NewRetryablePostProcessor(q, lg))
	case kRecProp:
		return postprocessors.NewCombinedPostprocessor(
			postprocessors.NewIneligiblePostProcessor(recUpdater{s}, lg),
			postprocessors.NewAddProposalToMetadataStorePostprocessor(recMeta{s}))
	default:
		return postprocessors.NewAddProposalToMetadataStorePostprocessor(recMeta{s})
	}
}

func readEnq(items []qEnq) []enqRec {
	out := make([]enqRec, len(items))
	for i, it := range items {
		out[i] = enqRec{P: kit.ReadPayload(it.rec.Payload), Ivl: int64(it.rec.Interval)}
	}
	return out
}

func readPls(ups []common.UpkeepPayload) []kit.Payload {
	out := make([]kit.Payload, len(ups))
	for i, u := range ups {
		out[i] = kit.ReadPayload(u)
	}
	return out
}

func readProps(ps []common.CoordinatedBlockProposal) [][3]int {
	out := make([][3]int, len(ps))
	for i, p := range ps {
		out[i] = [3]int{kit.ReadWorkID(p.WorkID), int(p.Trigger.BlockNumber), kit.ReadHash(p.Trigger.BlockHash)}
	}
	return out
}

func doneOf(invs []kit.Invocation) [][2]int64 {
	var out [][2]int64
	for _, i := range invs {
		first := 0
		if len(i.Jobs) > 0 {
			first = i.Jobs[0].P.Tag
		}
		out = append(out, [2]int64{int64(first), i.TDone})
	}
	return out
}

func sleepUntil(rec *kit.Rec, at int64) {
	if d := at - rec.Now(); d > 0 {
		time.Sleep(time.Duration(d))
	}
}

func setLat(pipe *kit.Pipe, c *c12Case) {
	for _, st := range c.Steps {
		pipe.SetLat(st.Pls)
		pipe.SetLat(st.Pls2)
	}
}

// ---------------------------------------------------------------- mode A: Observer.Process + real runner + real post-processors

// withDistinctInstants runs a case; if two pipeline invocations returned at the same virtual instant
// (their order would then be an accident of scheduling) the latencies are nudged deterministically
// and the case is run again.
func withDistinctInstants(t *testing.T, c *c12Case, run func(*testing.T, *c12Case) bool) {
	for try := 0; try < 6; try++ {
		if run(t, c) {
			return
		}
		for i := range c.Steps {
			for j := range c.Steps[i].Pls {
				p := &c.Steps[i].Pls[j]
				p.Lat += int64(1+try)*7919 + int64(p.Tag)*104729%1000003
			}
			for j := range c.Steps[i].Pls2 {
				p := &c.Steps[i].Pls2[j]
				p.Lat += int64(1+try)*7919 + int64(p.Tag)*104729%1000003
			}
		}
	}
	t.Fatalf("C12: could not separate completion instants for family %s", c.Family)
}

func runObserver(t *testing.T, c *c12Case) bool {
	c.Obs = nil
	distinct := true
	synctest.Test(t, func(t *testing.T) {
		ctx := context.Background()
		lg := log.New(io.Discard, "", 0)
		rec := kit.NewRec()
		pipe := kit.NewPipe(rec, c.Script)
		setLat(pipe, c)
		rn, err := runner.NewRunner(lg, pipe, runner.RunnerConfig{Workers: c.Workers, WorkerQueueLength: 1000, CacheExpire: time.Duration(c.Cexp), CacheClean: 30 * time.Second})
		if err != nil {
			t.Fatal(err)
		}
		go func() { _ = rn.Start(ctx) }()
		synctest.Wait()
		rr := &recRunner{rec: rec, inner: rn}
		s := &sinkRec{rec: rec, ufail: intSet(c.UFail)}
		q := &recQueue{rec: rec, inner: stores.NewRetryQueue(lg), qfail: intSet(c.QFail)}
		drop := dropFilter{drop: map[int]bool{}}
		for _, d := range c.Drop {
			drop.drop[d] = true
		}
		observers := map[int]*ocr2keepersv3.Observer[common.UpkeepPayload]{}
		for k := kLog; k <= kSample; k++ {
			observers[k] = ocr2keepersv3.NewRunnableObserver(
				[]ocr2keepersv3.PreProcessor[common.UpkeepPayload]{drop}, postFor(k, s, q, lg), rr, flows.ObservationProcessLimit, lg)
		}
		var processOwn func(call, kind int, ups []common.UpkeepPayload, own, ownW map[int]bool) stepObs
		process := func(call, kind int, ups []common.UpkeepPayload) {
			c.Obs = append(c.Obs, processOwn(call, kind, ups, nil, nil))
		}
		// own: the tags (= work ids here) of this call's payloads when another call runs at the same time; what the sinks
		// and the runner recorded is then attributed by tag
		processOwn = func(call, kind int, ups []common.UpkeepPayload, own, ownW map[int]bool) stepObs {
			o := stepObs{What: "proc", Kind: kind, T: rec.Now()}
			s.mu.Lock()
			ns, ni, np := len(s.staged), len(s.inelig), len(s.props)
			s.mu.Unlock()
			q.mu.Lock()
			ne := len(q.enq)
			q.mu.Unlock()
			rr.mu.Lock()
			nc := len(rr.calls)
			rr.mu.Unlock()
			var perr error
			func() {
				defer func() {
					if r := recover(); r != nil {
						o.Err = 3
					}
				}()
				perr = observers[kind].Process(kit.WithCall(ctx, call), staticTick{ups})
			}()
			mine := func(tag int) bool { return own == nil || own[tag] }
			rr.mu.Lock()
			for _, rc := range rr.calls[nc:] {
				if len(rc.args) > 0 && !mine(kit.ReadPayload(rc.args[0]).Tag) {
					continue
				}
				o.Pls = readPls(rc.args)
				o.Results = kit.ReadResults(rc.res)
				if rc.err != nil {
					o.Err = 1
				}
			}
			rr.mu.Unlock()
			if o.Err == 0 && perr != nil {
				o.Err = 2
			}
			o.Done = doneOf(rec.InvsOf(call))
			s.mu.Lock()
			for _, r := range kit.ReadResults(s.staged[ns:]) {
				if mine(r.Tag) {
					o.Staged = append(o.Staged, r)
				}
			}
			for _, r := range kit.ReadResults(s.inelig[ni:]) {
				if mine(r.Tag) {
					o.Inelig = append(o.Inelig, r)
				}
			}
			for _, p := range readProps(s.props[np:]) {
				if own == nil || ownW[p[0]] {
					o.Props = append(o.Props, p)
				}
			}
			s.mu.Unlock()
			q.mu.Lock()
			for _, e := range q.enq[ne:] {
				if mine(kit.ReadPayload(e.rec.Payload).Tag) {
					if len(o.Enq) == 0 {
						o.TQ = e.t
					}
					o.Enq = append(o.Enq, readEnq([]qEnq{e})...)
				}
			}
			q.mu.Unlock()
			return o
		}
		for i, st := range c.Steps {
			sleepUntil(rec, st.At)
			switch st.Op {
			case "proc":
				process(i, st.Kind, kit.MkPayloads(st.Pls))
			case "par":
				tagsOf := func(ps []kit.Payload) map[int]bool {
					m := map[int]bool{}
					for _, p := range ps {
						m[p.Tag] = true
					}
					return m
				}
				widsOf := func(ps []kit.Payload) map[int]bool {
					m := map[int]bool{}
					for _, p := range ps {
						m[p.Wid] = true
					}
					return m
				}
				s.slow.Store(int64(40 * time.Millisecond))
				before := s.inSink.Load()
				var oa stepObs
				doneA := make(chan struct{})
				go func() {
					defer close(doneA)
					oa = processOwn(i, st.Kind, kit.MkPayloads(st.Pls), tagsOf(st.Pls), widsOf(st.Pls))
				}()
				for k := 0; k < 20000 && s.inSink.Load() == before; k++ {
					select {
					case <-doneA:
						k = 20000
					default:
						time.Sleep(time.Millisecond)
					}
				}
				ob := processOwn(i+100000, st.Kind2, kit.MkPayloads(st.Pls2), tagsOf(st.Pls2), widsOf(st.Pls2))
				<-doneA
				s.slow.Store(0)
				c.Obs = append(c.Obs, oa, ob)
			case "deq", "retry":
				got, _ := q.Dequeue(st.N)
				c.Obs = append(c.Obs, stepObs{What: "deq", T: q.deq[len(q.deq)-1].t, N: st.N, Pls: readPls(got)})
				if st.Op == "retry" {
					process(i, kRetry, got)
				}
			}
		}
		if err := rn.Close(); err != nil {
			t.Errorf("runner close: %v", err)
		}
		synctest.Wait()
		if s.badSt > 0 {
			t.Errorf("SetUpkeepState called with a state other than Ineligible")
		}
		distinct = rec.TimesDistinct()
	})
	return distinct
}

// ---------------------------------------------------------------- mode B: the exported flows, stepped by the virtual clock

type tagBuilder struct {
	mu  sync.Mutex
	tab map[string]kit.Payload
}

func pkey(w string, b common.BlockNumber, h [32]byte) string { return fmt.Sprintf("%s/%d/%x", w, b, h) }

func (b *tagBuilder) add(p kit.Payload) common.CoordinatedBlockProposal {
	up := kit.MkPayload(p)
	b.mu.Lock()
	b.tab[pkey(up.WorkID, up.Trigger.BlockNumber, up.Trigger.BlockHash)] = p
	b.mu.Unlock()
	return common.CoordinatedBlockProposal{UpkeepID: up.UpkeepID, Trigger: up.Trigger, WorkID: up.WorkID}
}

func (b *tagBuilder) BuildPayloads(_ context.Context, ps ...common.CoordinatedBlockProposal) ([]common.UpkeepPayload, error) {
	b.mu.Lock()
	defer b.mu.Unlock()
	out := make([]common.UpkeepPayload, 0, len(ps))
	for _, p := range ps {
		if x, ok := b.tab[pkey(p.WorkID, p.Trigger.BlockNumber, p.Trigger.BlockHash)]; ok {
			out = append(out, kit.MkPayload(x))
		} else {
			out = append(out, common.UpkeepPayload{})
		}
	}
	return out, nil
}

type allRatio struct{}

func (allRatio) OfInt(n int) int { return n }

type passFilter struct{}

func (passFilter) PreProcess(_ context.Context, ps []common.UpkeepPayload) ([]common.UpkeepPayload, error) {
	return ps, nil
}

func runFlows(t *testing.T, c *c12Case) bool {
	c.Obs = nil
	distinct := true
	synctest.Test(t, func(t *testing.T) {
		ctx := context.Background()
		rec := kit.NewRec()
		spy := &errSpy{rec: rec}
		lg := log.New(spy, "", 0)
		pipe := kit.NewPipe(rec, c.Script)
		setLat(pipe, c)
		slot := func() int { return int(rec.Now() / sec) }
		pipe.DefaultCall = slot
		rn, err := runner.NewRunner(lg, pipe, runner.RunnerConfig{Workers: c.Workers, WorkerQueueLength: 1000, CacheExpire: time.Duration(c.Cexp), CacheClean: 30 * time.Second})
		if err != nil {
			t.Fatal(err)
		}
		go func() { _ = rn.Start(ctx) }()
		rr := &recRunner{rec: rec, inner: rn, slot: slot}
		s := &sinkRec{rec: rec, ufail: intSet(c.UFail)}
		q := &recQueue{rec: rec, inner: stores.NewRetryQueue(lg), qfail: intSet(c.QFail)}
		pq := stores.NewProposalQueue(UTG)
		logs, recov, getter := &FakeLogProvider{}, &FakeRecoverable{}, &FakeGetter{}
		bld := &tagBuilder{tab: map[string]kit.Payload{}}
		var svcs []service.Recoverable
		svcs = append(svcs, flows.LogTriggerFlows(passFilter{}, recStore{s}, recMeta{s}, rr, logs, recov, bld,
			time.Second, time.Second, time.Second, q, pq, recUpdater{s}, lg)...)
		svcs = append(svcs, flows.ConditionalTriggerFlows(passFilter{}, allRatio{}, getter, NewFakeBlocks(), bld,
			recStore{s}, recMeta{s}, rr, pq, q, recUpdater{s}, lg)...)
		svcs = append(svcs, flows.NewRetryFlow(passFilter{}, recStore{s}, rr, q, flows.RetryCheckInterval, recUpdater{s}, lg))
		for _, svc := range svcs {
			go func(svc service.Recoverable) { _ = svc.Start(ctx) }(svc)
		}
		synctest.Wait()
		// slot k is the tick at k seconds; inputs are put in place half a second before
		kindOfSlot := map[int]int{}
		last := 0
		bySlot := map[int]c12Step{}
		for _, st := range c.Steps {
			k := int(st.At / sec)
			if st.Op == "inject" {
				bySlot[k] = st
			}
			if k > last {
				last = k
			}
		}
		for k := 1; k <= last; k++ {
			sleepUntil(rec, int64(k)*sec-500*ms)
			getter.Set(nil)
			st, ok := bySlot[k]
			if !ok || k%5 == 0 {
				continue
			}
			kindOfSlot[k] = st.Kind
			pls := st.Pls
			switch st.Kind {
			case kLog:
				logs.Push(kit.MkPayloads(pls)...)
			case kRecProp:
				recov.Push(kit.MkPayloads(pls)...)
			case kRecFinal, kCondFinal:
				var props []common.CoordinatedBlockProposal
				for _, p := range pls {
					props = append(props, bld.add(p))
				}
				_ = pq.Enqueue(props...)
			case kSample:
				if k%3 == 0 {
					getter.Set(kit.MkPayloads(pls))
				}
			}
		}
		sleepUntil(rec, int64(last)*sec+600*ms)
		getter.Set(nil)
		for _, svc := range svcs {
			if err := svc.Close(); err != nil {
				t.Errorf("flow close: %v", err)
			}
		}
		if err := rn.Close(); err != nil {
			t.Errorf("runner close: %v", err)
		}
		synctest.Wait()

		// reconstruct the history: runner calls with payloads and queue dequeues, by time
		type evt struct {
			t   int64
			ord int
			o   stepObs
		}
		var evts []evt
		for _, d := range q.deq {
			evts = append(evts, evt{t: d.t, ord: 0, o: stepObs{What: "deq", T: d.t, N: d.n, Pls: readPls(d.got)}})
		}
		for _, rc := range rr.calls {
			if len(rc.args) == 0 {
				continue
			}
			k := rc.call
			kind, ok := kindOfSlot[k]
			if k%5 == 0 {
				kind, ok = kRetry, true
			}
			if !ok {
				t.Errorf("flows: runner call with payloads in slot %d where nothing was injected", k)
				continue
			}
			o := stepObs{What: "proc", Kind: kind, T: rc.t, Pls: readPls(rc.args), Results: kit.ReadResults(rc.res)}
			if rc.err != nil {
				o.Err = 1
			}
			o.Done = doneOf(rec.InvsOf(k))
			lo, hi := int64(k)*sec, int64(k+1)*sec
			if o.Err == 0 {
				for _, et := range spy.at {
					if et >= lo && et < hi {
						o.Err = 2
					}
				}
			}
			for i, x := range s.staged {
				if s.stT[i] >= lo && s.stT[i] < hi {
					o.Staged = append(o.Staged, kit.ReadResult(x))
				}
			}
			for i, x := range s.inelig {
				if s.inT[i] >= lo && s.inT[i] < hi {
					o.Inelig = append(o.Inelig, kit.ReadResult(x))
				}
			}
			var pr []common.CoordinatedBlockProposal
			for i, x := range s.props {
				if s.prT[i] >= lo && s.prT[i] < hi {
					pr = append(pr, x)
				}
			}
			o.Props = readProps(pr)
			var en []qEnq
			for _, e := range q.enq {
				if e.t >= lo && e.t < hi {
					en = append(en, e)
				}
			}
			o.Enq = readEnq(en)
			if len(en) > 0 {
				o.TQ = en[0].t
			}
			evts = append(evts, evt{t: rc.t, ord: 1, o: o})
		}
		sort.SliceStable(evts, func(a, b int) bool {
			if evts[a].t != evts[b].t {
				return evts[a].t < evts[b].t
			}
			return evts[a].ord < evts[b].ord
		})
		for _, e := range evts {
			c.Obs = append(c.Obs, e.o)
		}
		if s.badSt > 0 {
			t.Errorf("SetUpkeepState called with a state other than Ineligible")
		}
		distinct = rec.TimesDistinct()
	})
	return distinct
}

// ---------------------------------------------------------------- mode C: op sequences against the real retry queue

func runQueue(t *testing.T, c *c12Case) {
	c.Obs = nil
	synctest.Test(t, func(t *testing.T) {
		rec := kit.NewRec()
		q := stores.NewRetryQueue(log.New(io.Discard, "", 0))
		for _, st := range c.Steps {
			sleepUntil(rec, st.At)
			switch st.Op {
			case "enq":
				var recs []types.RetryRecord
				for _, r := range st.Recs {
					recs = append(recs, types.RetryRecord{Payload: kit.MkPayload(r.P), Interval: time.Duration(r.Ivl)})
				}
				_ = q.Enqueue(recs...)
				c.Obs = append(c.Obs, stepObs{What: "enq", T: rec.Now(), Recs: st.Recs})
			case "deq":
				got, _ := q.Dequeue(st.N)
				c.Obs = append(c.Obs, stepObs{What: "deq", T: rec.Now(), N: st.N, Pls: readPls(got)})
			case "size":
				c.Obs = append(c.Obs, stepObs{What: "size", T: rec.Now(), Size: q.Size()})
			}
		}
	})
}
