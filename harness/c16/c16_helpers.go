// Package c16 drives the real OCR2 ("v2") plug-in of chainlink-automation through its exported
// factory: real BasicEncoder (key building, validation, median), real report coordinator, real
// polling observer; only the check pipeline (Runner), the chain-specific halves of the encoder
// (Eligible / Detail / EncodeReport / KeysFromReport), the registry, the head ticker and the
// log provider are scripted fakes.
package c16

import (
	"context"
	"encoding/json"
	"errors"
	"fmt"
	"io"
	"log"
	"strings"
	"sync"
	"time"

	ocr2types "github.com/smartcontractkit/libocr/offchainreporting2plus/types"

	ocr2keepers "github.com/smartcontractkit/chainlink-automation/pkg/v2"
	"github.com/smartcontractkit/chainlink-automation/pkg/v2/config"
	"github.com/smartcontractkit/chainlink-automation/pkg/v2/coordinator"
	"github.com/smartcontractkit/chainlink-automation/pkg/v2/encoding"
	"github.com/smartcontractkit/chainlink-automation/pkg/v2/observer/polling"
)

var (
	errRunner = errors.New("scripted runner failure")
	errEncode = errors.New("scripted encoder failure")
	errElig   = errors.New("scripted eligibility error")
	errDetail = errors.New("scripted detail error")
)

// script is what the report-time (or sampling-time) check says about one upkeep id.
type script struct {
	Elig    bool   `json:"elig"`
	EligErr bool   `json:"elig_err,omitempty"`
	Gas     uint32 `json:"gas"`
	DetErr  bool   `json:"det_err,omitempty"`
	Drop    bool   `json:"drop,omitempty"` // the runner returns no result for this id
}

var defaultScript = script{Elig: true, Gas: 100000}

// result is the opaque UpkeepResult our runner returns and our encoder understands.
type result struct {
	Key ocr2keepers.UpkeepKey
	S   script
}

// ---------------------------------------------------------------- encoder

// recEncoder embeds the real BasicEncoder and adds the chain-specific, scripted half.
type recEncoder struct {
	encoding.BasicEncoder
	mu       sync.Mutex
	encFail  bool
	encCalls [][]ocr2keepers.UpkeepKey
}

func (e *recEncoder) Eligible(r ocr2keepers.UpkeepResult) (bool, error) {
	res, ok := r.(result)
	if !ok {
		return false, fmt.Errorf("foreign result")
	}
	if res.S.EligErr {
		return res.S.Elig, errElig
	}
	return res.S.Elig, nil
}

func (e *recEncoder) Detail(r ocr2keepers.UpkeepResult) (ocr2keepers.UpkeepKey, uint32, error) {
	res, ok := r.(result)
	if !ok {
		return nil, 0, fmt.Errorf("foreign result")
	}
	if res.S.DetErr {
		return nil, 0, errDetail
	}
	return res.Key, res.S.Gas, nil
}

func (e *recEncoder) EncodeReport(rs []ocr2keepers.UpkeepResult) ([]byte, error) {
	e.mu.Lock()
	defer e.mu.Unlock()
	keys := make([]ocr2keepers.UpkeepKey, 0, len(rs))
	strs := make([]string, 0, len(rs))
	for _, r := range rs {
		res, ok := r.(result)
		if !ok {
			return nil, fmt.Errorf("foreign result")
		}
		keys = append(keys, res.Key)
		strs = append(strs, string(res.Key))
	}
	e.encCalls = append(e.encCalls, keys)
	if e.encFail {
		return nil, errEncode
	}
	return json.Marshal(strs)
}

func (e *recEncoder) KeysFromReport(b []byte) ([]ocr2keepers.UpkeepKey, error) {
	var strs []string
	if err := json.Unmarshal(b, &strs); err != nil {
		return nil, err
	}
	out := make([]ocr2keepers.UpkeepKey, len(strs))
	for i, s := range strs {
		out[i] = ocr2keepers.UpkeepKey(s)
	}
	return out, nil
}

// ---------------------------------------------------------------- runner

const (
	runNormal   = 0
	runErr      = 1
	runExtra    = 2 // one result more than keys asked
	runEmpty    = 3
	runReversed = 4
)

type runCall struct {
	Keys []string
}

// recRunner records every CheckUpkeep call and answers from the per-id script table.
type recRunner struct {
	mu      sync.Mutex
	scripts map[string]script // by upkeep id string
	mode    int
	calls   []runCall
}

func (r *recRunner) set(scripts map[string]script, mode int) {
	r.mu.Lock()
	defer r.mu.Unlock()
	r.scripts, r.mode, r.calls = scripts, mode, nil
}

func (r *recRunner) take() []runCall {
	r.mu.Lock()
	defer r.mu.Unlock()
	c := r.calls
	r.calls = nil
	return c
}

func idOfKey(k string) string {
	if i := strings.Index(k, "|"); i >= 0 {
		return k[i+1:]
	}
	return k
}

func (r *recRunner) CheckUpkeep(_ context.Context, _ bool, keys ...ocr2keepers.UpkeepKey) ([]ocr2keepers.UpkeepResult, error) {
	r.mu.Lock()
	defer r.mu.Unlock()
	c := runCall{}
	for _, k := range keys {
		c.Keys = append(c.Keys, string(k))
	}
	r.calls = append(r.calls, c)
	switch r.mode {
	case runErr:
		return nil, errRunner
	case runEmpty:
		return nil, nil
	}
	ks := append([]ocr2keepers.UpkeepKey(nil), keys...)
	if r.mode == runReversed {
		for i, j := 0, len(ks)-1; i < j; i, j = i+1, j-1 {
			ks[i], ks[j] = ks[j], ks[i]
		}
	}
	var out []ocr2keepers.UpkeepResult
	for _, k := range ks {
		s, ok := r.scripts[idOfKey(string(k))]
		if !ok {
			s = defaultScript
		}
		if s.Drop {
			continue
		}
		out = append(out, result{Key: append(ocr2keepers.UpkeepKey(nil), k...), S: s})
	}
	if r.mode == runExtra {
		for len(out) <= len(keys) {
			out = append(out, result{Key: ocr2keepers.UpkeepKey("1|1"), S: defaultScript})
		}
	}
	return out, nil
}

// ---------------------------------------------------------------- log provider, registry, heads

type fakeLogs struct {
	mu      sync.Mutex
	perform []ocr2keepers.PerformLog
	stale   []ocr2keepers.StaleReportLog
}

func (f *fakeLogs) PerformLogs(context.Context) ([]ocr2keepers.PerformLog, error) {
	f.mu.Lock()
	defer f.mu.Unlock()
	p := f.perform
	f.perform = nil
	return p, nil
}
func (f *fakeLogs) StaleReportLogs(context.Context) ([]ocr2keepers.StaleReportLog, error) {
	f.mu.Lock()
	defer f.mu.Unlock()
	s := f.stale
	f.stale = nil
	return s, nil
}
func (f *fakeLogs) push(p []ocr2keepers.PerformLog, s []ocr2keepers.StaleReportLog) {
	f.mu.Lock()
	defer f.mu.Unlock()
	f.perform = append(f.perform, p...)
	f.stale = append(f.stale, s...)
}

type fakeRegistry struct {
	mu  sync.Mutex
	ids []string
	err bool
}

func (f *fakeRegistry) set(ids []string, err bool) {
	f.mu.Lock()
	defer f.mu.Unlock()
	f.ids, f.err = ids, err
}
func (f *fakeRegistry) GetActiveUpkeepIDs(context.Context) ([]ocr2keepers.UpkeepIdentifier, error) {
	f.mu.Lock()
	defer f.mu.Unlock()
	if f.err {
		return nil, errors.New("scripted registry failure")
	}
	out := make([]ocr2keepers.UpkeepIdentifier, len(f.ids))
	for i, s := range f.ids {
		out[i] = ocr2keepers.UpkeepIdentifier(s)
	}
	return out, nil
}

type fakeHeads struct{ ch chan ocr2keepers.BlockKey }

func (f *fakeHeads) HeadTicker() chan ocr2keepers.BlockKey { return f.ch }

// ---------------------------------------------------------------- factories

// capObserverFactory wraps the real polling observer factory to keep a handle on the coordinator
// the plug-in factory created (the harness tabulates IsPending through it).
type capObserverFactory struct {
	real  *polling.PollingObserverFactory
	coord ocr2keepers.Coordinator
}

func (f *capObserverFactory) NewConditionalObserver(oc config.OffchainConfig, c ocr2types.ReportingPluginConfig, coord ocr2keepers.Coordinator) (ocr2keepers.ConditionalObserver, error) {
	f.coord = coord
	return f.real.NewConditionalObserver(oc, c, coord)
}

// node is one v2 plug-in instance built through ocr2keepers.NewReportingPluginFactory.
type node struct {
	plugin ocr2types.ReportingPlugin
	info   ocr2types.ReportingPluginInfo
	enc    *recEncoder
	run    *recRunner
	logs   *fakeLogs
	reg    *fakeRegistry
	heads  *fakeHeads
	coord  ocr2keepers.Coordinator
}

type nodeOpts struct {
	Batch    int
	Limit    uint32
	Overhead uint32
	MinConfs int
	N, F     int
}

// newNode must be called inside a synctest bubble (the coordinator and the observer start
// goroutines with timers); call close() before the bubble ends.
func newNode(o nodeOpts) (*node, error) {
	nd := &node{enc: &recEncoder{}, run: &recRunner{}, logs: &fakeLogs{}, reg: &fakeRegistry{},
		heads: &fakeHeads{ch: make(chan ocr2keepers.BlockKey, 1)}}
	lg := log.New(io.Discard, "", 0)
	cf := &coordinator.CoordinatorFactory{Logger: lg, Encoder: encoding.BasicEncoder{}, Logs: nd.logs, CacheClean: 30 * time.Second}
	of := &capObserverFactory{real: &polling.PollingObserverFactory{Logger: lg, Source: nd.reg, Heads: nd.heads, Runner: nd.run, Encoder: nd.enc}}
	fac := ocr2keepers.NewReportingPluginFactory(nd.enc, nd.run, cf, of, lg)
	if o.N == 0 {
		o.N, o.F = 4, 1
	}
	off := fmt.Sprintf(`{"maxUpkeepBatchSize":%d,"gasLimitPerReport":%d,"gasOverheadPerUpkeep":%d,"minConfirmations":%d,"targetProbability":"0.999999999","targetInRounds":1}`,
		o.Batch, o.Limit, o.Overhead, o.MinConfs)
	p, info, err := fac.NewReportingPlugin(context.Background(), ocr2types.ReportingPluginConfig{N: o.N, F: o.F, OffchainConfig: []byte(off)})
	if err != nil {
		return nil, err
	}
	nd.plugin, nd.info, nd.coord = p, info, of.coord
	return nd, nil
}

func (nd *node) close() error { return nd.plugin.Close() }

// effective off-chain values after DecodeOffchainConfig's documented defaults.
func effective(batch int, limit, over uint32) (int, uint32, uint32) {
	if batch <= 0 {
		batch = 1
	}
	if limit == 0 {
		limit = 5_300_000
	}
	if over == 0 {
		over = 300_000
	}
	return batch, limit, over
}

// mirror of ocr2keepers.Observation for the harness' own JSON round trips (same tags, same codec).
type wireObs struct {
	BlockKey          string   `json:"1"`
	UpkeepIdentifiers [][]byte `json:"2"`
}
