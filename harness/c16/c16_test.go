package c16

import (
	"bytes"
	"context"
	"encoding/json"
	"errors"
	"fmt"
	"math/big"
	"path/filepath"
	"regexp"
	"sort"
	"strings"
	"testing"
	"testing/synctest"
	"time"

	. "verifharness/h"

	ocr2types "github.com/smartcontractkit/libocr/offchainreporting2plus/types"

	ocr2keepers "github.com/smartcontractkit/chainlink-automation/pkg/v2"
)

// ---------------------------------------------------------------- generator-form cases

type c16Obs struct {
	Block string   `json:"block,omitempty"`
	IDs   []string `json:"ids,omitempty"`
	Raw   []byte   `json:"raw,omitempty"` // if IsRaw: bytes sent verbatim as the observation
	IsRaw bool     `json:"is_raw,omitempty"`
}

// c16Pre is one step applied to the plug-in's real coordinator before the call under test.
type c16Pre struct {
	Op     string `json:"op"` // accept | perform | stale
	Block  string `json:"block"`
	ID     string `json:"id"`
	TBlock string `json:"tblock,omitempty"`
	Confs  int64  `json:"confs,omitempty"`
}

type c16RepObserved struct {
	Decoded     []c16Obs            `json:"decoded"` // what encoding/json makes of each observation (IsRaw = undecodable)
	Pend        map[string][]string `json:"pend"`    // block -> ids the real coordinator reports pending
	Called      bool                `json:"called"`
	Checked     []string            `json:"checked"`
	Should      bool                `json:"should"`
	Report      []string            `json:"report"`
	Err         int                 `json:"err_code"`
	ErrText     string              `json:"err_text,omitempty"`
	RunnerCalls int                 `json:"runner_calls"`
}

type c16RepCase struct {
	Family   string            `json:"family"`
	Batch    int               `json:"batch"`
	Limit    uint32            `json:"limit"`
	Overhead uint32            `json:"overhead"`
	MinConfs int               `json:"min_confs"`
	Epoch    uint32            `json:"epoch"`
	Round    uint8             `json:"round"`
	Pre      []c16Pre          `json:"pre,omitempty"`
	Observs  []c16Obs          `json:"observations"`
	Script   map[string]script `json:"script,omitempty"`
	Mode     int               `json:"mode,omitempty"`
	EncFail  bool              `json:"enc_fail,omitempty"`
	Observed *c16RepObserved   `json:"observed,omitempty"`
}

type c16Head struct {
	Block  string            `json:"block"`
	IDs    []string          `json:"ids"` // registry content at this head
	RegErr bool              `json:"reg_err,omitempty"`
	Script map[string]script `json:"script,omitempty"`
	Mode   int               `json:"mode,omitempty"`
}

type c16ObsObserved struct {
	Called  [][]string          `json:"called"` // per head: ids in the order handed to the runner (nil = no call)
	Pend    map[string][]string `json:"pend"`
	Len     int                 `json:"len"`
	Decodes bool                `json:"decodes"`
	Block   string              `json:"block"`
	IDs     []string            `json:"ids"`
	Err     bool                `json:"err"`
	Bytes   string              `json:"bytes"`
}

type c16ObsCase struct {
	Family   string          `json:"family"`
	MinConfs int             `json:"min_confs"`
	Epoch    uint32          `json:"epoch"`
	Round    uint8           `json:"round"`
	Pre      []c16Pre        `json:"pre,omitempty"`
	Heads    []c16Head       `json:"heads"`
	Post     []c16Pre        `json:"post,omitempty"` // accepts / logs that arrive AFTER the last head was sampled and before the observation
	Observed *c16ObsObserved `json:"observed,omitempty"`
}

// ---------------------------------------------------------------- helpers

var canonRe = regexp.MustCompile(`^(0|[1-9][0-9]*)$`)

const (
	maxU64  = "18446744073709551615"
	twoP64  = "18446744073709551616"
	maxU256 = "115792089237316195423570985008687907853269984665640564039457584007913129639935"
	twoP256 = "115792089237316195423570985008687907853269984665640564039457584007913129639936"
)

// numeral the model can hold for a key component the implementation produced; anything that is not
// a plain decimal numeral becomes a sentinel no valid key can equal.
func numOf(s string) string {
	if canonRe.MatchString(s) && len(s) <= 90 {
		return s
	}
	return "1" + strings.Repeat("0", 95)
}

func keyTerm(k string) string {
	i := strings.Index(k, "|")
	if i < 0 {
		return "(" + numOf("x") + ", " + numOf("x") + ")"
	}
	return "(" + numOf(k[:i]) + ", " + numOf(k[i+1:]) + ")"
}

func coqStr(s string) string {
	plain := true
	for i := 0; i < len(s); i++ {
		if s[i] < 0x20 || s[i] > 0x7e || s[i] == '"' {
			plain = false
			break
		}
	}
	if plain {
		return `"` + s + `"`
	}
	codes := make([]string, len(s))
	for i := 0; i < len(s); i++ {
		codes[i] = fmt.Sprintf("%d", s[i])
	}
	return "(str_of_codes [" + strings.Join(codes, ";") + "])"
}

func obsBytes(o c16Obs) []byte {
	if o.IsRaw {
		return o.Raw
	}
	w := wireObs{BlockKey: o.Block, UpkeepIdentifiers: [][]byte{}}
	for _, i := range o.IDs {
		w.UpkeepIdentifiers = append(w.UpkeepIdentifiers, []byte(i))
	}
	b, err := json.Marshal(w)
	if err != nil {
		panic(err)
	}
	return b
}

// decodeObs classifies an observation exactly as the plug-in's codec does (same type, same decoder).
func decodeObs(b []byte) c16Obs {
	var o ocr2keepers.Observation
	if err := json.NewDecoder(bytes.NewReader(b)).Decode(&o); err != nil {
		return c16Obs{IsRaw: true}
	}
	d := c16Obs{Block: string(o.BlockKey)}
	for _, i := range o.UpkeepIdentifiers {
		d.IDs = append(d.IDs, string(i))
	}
	return d
}

func obsTerm(d c16Obs) string {
	if d.IsRaw {
		return "RawBad"
	}
	return "RawObs " + coqStr(d.Block) + " " + CoqList(d.IDs, coqStr)
}

func scriptTerm(m map[string]script) string {
	ids := make([]string, 0, len(m))
	for k := range m {
		if canonRe.MatchString(k) {
			ids = append(ids, k)
		}
	}
	sort.Strings(ids)
	return CoqList(ids, func(i string) string {
		s := m[i]
		return fmt.Sprintf("(%s, (%s, %s, %d, %s, %s))", i, CoqBool(s.Elig), CoqBool(s.EligErr), s.Gas, CoqBool(s.DetErr), CoqBool(s.Drop))
	})
}

func pendTerm(p map[string][]string) string {
	bs := make([]string, 0, len(p))
	for b := range p {
		bs = append(bs, b)
	}
	sort.Strings(bs)
	return CoqList(bs, func(b string) string {
		return "(" + b + ", " + CoqList(p[b], func(i string) string { return i }) + ")"
	})
}

func applyPre(t *testing.T, nd *node, pre []c16Pre) {
	for _, p := range pre {
		key := p.Block + "|" + p.ID
		switch p.Op {
		case "accept":
			rep, _ := json.Marshal([]string{key})
			if ok, err := nd.plugin.ShouldAcceptFinalizedReport(context.Background(), ocr2types.ReportTimestamp{}, rep); !ok || err != nil {
				t.Fatalf("accept %s: %v %v", key, ok, err)
			}
		case "perform":
			nd.logs.push([]ocr2keepers.PerformLog{{Key: ocr2keepers.UpkeepKey(key), TransmitBlock: ocr2keepers.BlockKey(p.TBlock), Confirmations: p.Confs}}, nil)
			time.Sleep(1001 * time.Millisecond)
			synctest.Wait()
		case "stale":
			nd.logs.push(nil, []ocr2keepers.StaleReportLog{{Key: ocr2keepers.UpkeepKey(key), TransmitBlock: ocr2keepers.BlockKey(p.TBlock), Confirmations: p.Confs}})
			time.Sleep(1001 * time.Millisecond)
			synctest.Wait()
		default:
			t.Fatalf("unknown pre op %q", p.Op)
		}
	}
}

// pendTable asks the plug-in's own coordinator about every (block, id) pair of canonical numerals.
func pendTable(nd *node, blocks, ids []string) map[string][]string {
	out := map[string][]string{}
	seenB := map[string]bool{}
	for _, b := range blocks {
		if !canonRe.MatchString(b) || len(b) > 25 || seenB[b] {
			continue
		}
		seenB[b] = true
		seenI := map[string]bool{}
		for _, i := range ids {
			if !canonRe.MatchString(i) || len(i) > 80 || seenI[i] {
				continue
			}
			seenI[i] = true
			p, err := nd.coord.IsPending(nd.enc.MakeUpkeepKey(ocr2keepers.BlockKey(b), ocr2keepers.UpkeepIdentifier(i)))
			if p || err != nil {
				out[b] = append(out[b], i)
			}
		}
	}
	return out
}

func errCode(err error) int {
	switch {
	case err == nil:
		return 0
	case errors.Is(err, ocr2keepers.ErrNotEnoughInputs):
		return 1
	case errors.Is(err, ocr2keepers.ErrTooManyErrors):
		return 2
	case errors.Is(err, errRunner):
		return 3
	case errors.Is(err, errEncode):
		return 5
	default:
		return 4
	}
}

// ---------------------------------------------------------------- running one Report case

func runRepCase(t *testing.T, c *c16RepCase) {
	synctest.Test(t, func(t *testing.T) {
		nd, err := newNode(nodeOpts{Batch: c.Batch, Limit: c.Limit, Overhead: c.Overhead, MinConfs: c.MinConfs})
		if err != nil {
			t.Fatal(err)
		}
		defer func() {
			if err := nd.close(); err != nil {
				t.Errorf("close: %v", err)
			}
		}()
		applyPre(t, nd, c.Pre)
		ob := &c16RepObserved{}
		var attr []ocr2types.AttributedObservation
		var blocks, ids []string
		for i, o := range c.Observs {
			b := obsBytes(o)
			attr = append(attr, ocr2types.AttributedObservation{Observation: b, Observer: 0})
			_ = i
			d := decodeObs(b)
			ob.Decoded = append(ob.Decoded, d)
			if !d.IsRaw {
				blocks = append(blocks, d.Block)
				ids = append(ids, d.IDs...)
			}
		}
		ob.Pend = pendTable(nd, blocks, ids)
		// an earlier round on the same instance, built from the same observations in reverse order (and without the last
		// one): Report is a function of what it is handed and of the coordinator's state, nothing of one round may reach
		// the next
		if c.Epoch%3 == 0 && len(attr) > 1 {
			prev := make([]ocr2types.AttributedObservation, 0, len(attr))
			for i := len(attr) - 2; i >= 0; i-- {
				prev = append(prev, attr[i])
			}
			nd.run.set(c.Script, c.Mode)
			nd.enc.encFail = false
			_, _, _ = nd.plugin.Report(context.Background(), ocr2types.ReportTimestamp{Epoch: c.Epoch, Round: c.Round + 100}, nil, prev)
			nd.run.take()
		}
		nd.run.set(c.Script, c.Mode)
		nd.enc.encFail = c.EncFail
		should, rep, rerr := nd.plugin.Report(context.Background(), ocr2types.ReportTimestamp{Epoch: c.Epoch, Round: c.Round}, nil, attr)
		calls := nd.run.take()
		ob.RunnerCalls = len(calls)
		if len(calls) > 0 {
			ob.Called = true
			ob.Checked = calls[0].Keys
		}
		ob.Should = should
		ob.Err = errCode(rerr)
		if rerr != nil {
			ob.ErrText = rerr.Error()
			if len(ob.ErrText) > 120 {
				ob.ErrText = ob.ErrText[:120]
			}
		}
		if len(rep) > 0 {
			ks, err := nd.enc.KeysFromReport(rep)
			if err != nil {
				ob.Report = []string{"undecodable-report"}
			}
			for _, k := range ks {
				ob.Report = append(ob.Report, string(k))
			}
		}
		c.Observed = ob
	})
}

func repTerm(c c16RepCase) string {
	b, l, o := effective(c.Batch, c.Limit, c.Overhead)
	ob := c.Observed
	chk := "None"
	if ob.Called {
		chk = "(Some " + CoqList(ob.Checked, keyTerm) + ")"
	}
	errc := ob.Err
	if ob.RunnerCalls > 1 {
		errc = 99 // more than one check call per report: never matches the model
	}
	return fmt.Sprintf("mkRepCase (mkV2Cfg %s %d %d) %s %s %s %s %s %s %s %s %s",
		CoqZ(int64(b)), l, o, CoqList(ob.Decoded, obsTerm), pendTerm(ob.Pend), scriptTerm(c.Script),
		CoqNat(c.Mode), CoqBool(c.EncFail), chk, CoqBool(ob.Should), CoqList(ob.Report, keyTerm), CoqNat(errc))
}

// ---------------------------------------------------------------- running one Observation case

func runObsCase(t *testing.T, c *c16ObsCase) {
	synctest.Test(t, func(t *testing.T) {
		nd, err := newNode(nodeOpts{Batch: 1, MinConfs: c.MinConfs})
		if err != nil {
			t.Fatal(err)
		}
		defer func() {
			if err := nd.close(); err != nil {
				t.Errorf("close: %v", err)
			}
		}()
		applyPre(t, nd, c.Pre)
		ob := &c16ObsObserved{}
		var blocks, ids []string
		for _, h := range c.Heads {
			nd.reg.set(h.IDs, h.RegErr)
			nd.run.set(h.Script, h.Mode)
			nd.heads.ch <- ocr2keepers.BlockKey(h.Block)
			synctest.Wait()
			calls := nd.run.take()
			if len(calls) == 0 {
				ob.Called = append(ob.Called, nil)
			} else {
				order := []string{}
				for _, k := range calls[0].Keys {
					order = append(order, idOfKey(k))
				}
				ob.Called = append(ob.Called, order)
			}
			blocks = append(blocks, h.Block)
			ids = append(ids, h.IDs...)
		}
		// an earlier round observes the same staged block before the accepts / logs of c.Post arrive: what it was told
		// must not be reused for the observation judged below
		if len(c.Post) > 0 {
			_, _ = nd.plugin.Observation(context.Background(), ocr2types.ReportTimestamp{Epoch: c.Epoch, Round: c.Round}, nil)
		}
		applyPre(t, nd, c.Post)
		ob.Pend = pendTable(nd, blocks, ids)
		b, oerr := nd.plugin.Observation(context.Background(), ocr2types.ReportTimestamp{Epoch: c.Epoch, Round: c.Round}, nil)
		ob.Err = oerr != nil
		ob.Len = len(b)
		ob.Bytes = string(b)
		if len(ob.Bytes) > 200 {
			ob.Bytes = ob.Bytes[:200]
		}
		// the bytes handed to the protocol are the plug-in's to give away: a later observation of the same process (the
		// next round: one more head with another block number of the same length, same registry) must leave them alone
		if n := len(c.Heads); n > 0 && !oerr2(oerr) && len(b) > 0 {
			want := append([]byte(nil), b...)
			h := c.Heads[n-1]
			if nb := sameLenOtherBlock(h.Block); nb != "" {
				for k := 0; k < 3; k++ {
					nd.reg.set(h.IDs, h.RegErr)
					nd.run.set(h.Script, h.Mode)
					nd.heads.ch <- ocr2keepers.BlockKey(nb)
					synctest.Wait()
					nd.run.take()
					_, _ = nd.plugin.Observation(context.Background(), ocr2types.ReportTimestamp{Epoch: c.Epoch, Round: c.Round + 1}, nil)
				}
				if !bytes.Equal(b, want) {
					b = []byte("observation bytes changed after they were returned")
					ob.Len = len(b)
					ob.Bytes = string(b)
				}
			}
		}
		d := decodeObs(b)
		ob.Decodes = !d.IsRaw
		ob.Block, ob.IDs = d.Block, d.IDs
		c.Observed = ob
	})
}

func oerr2(err error) bool { return err != nil }

// a decimal block number of the same length, differing in its last digit ("" when the input is not a plain numeral)
func sameLenOtherBlock(b string) string {
	if b == "" {
		return ""
	}
	for _, c := range b {
		if c < '0' || c > '9' {
			return ""
		}
	}
	last := b[len(b)-1]
	nl := byte('0' + (last-'0'+1)%10)
	if len(b) == 1 && nl == '0' {
		nl = '1'
	}
	return b[:len(b)-1] + string(nl)
}

func numList(xs []string) string { return CoqList(xs, numOf) }

func obsCaseTerm(c c16ObsCase) string {
	ob := c.Observed
	heads := make([]string, len(c.Heads))
	for i, h := range c.Heads {
		called := "None"
		if ob.Called[i] != nil {
			called = "(Some " + numList(ob.Called[i]) + ")"
		}
		heads[i] = fmt.Sprintf("mkHd %s %s %s %s", numOf(h.Block), called, scriptTerm(h.Script), CoqNat(h.Mode))
	}
	dec := "None"
	if ob.Decodes {
		blk := "None"
		if ob.Block != "" {
			blk = "(Some " + numOf(ob.Block) + ")"
		}
		dec = "(Some (" + blk + ", " + numList(ob.IDs) + "))"
	}
	return fmt.Sprintf("mkObsCase [%s] %s %s %s %s", strings.Join(heads, "; "), pendTerm(ob.Pend), CoqNat(ob.Len), dec, CoqBool(ob.Err))
}

// ---------------------------------------------------------------- boundary families: Report

func vo(block string, ids ...string) c16Obs { return c16Obs{Block: block, IDs: ids} }
func raw(s string) c16Obs                   { return c16Obs{IsRaw: true, Raw: []byte(s)} }

func bigStr(base string, add int64) string {
	x, _ := new(big.Int).SetString(base, 10)
	return x.Add(x, big.NewInt(add)).String()
}

func repBoundary() []c16RepCase {
	var cs []c16RepCase
	add := func(c c16RepCase) {
		if c.Batch == 0 && c.Family != "config-defaults" {
			c.Batch = 5
		}
		if c.Limit == 0 && c.Family != "config-defaults" {
			c.Limit, c.Overhead = 5_300_000, 300_000
		}
		if c.Epoch == 0 {
			c.Epoch, c.Round = uint32(len(cs)+1), uint8(len(cs)%7)
		}
		cs = append(cs, c)
	}
	distinct := func(n int, block func(i int) string) []c16Obs {
		var os []c16Obs
		for i := 0; i < n; i++ {
			os = append(os, vo(block(i), fmt.Sprintf("%d", 100+i)))
		}
		return os
	}
	blk := func(base int) func(int) string {
		return func(i int) string { return fmt.Sprintf("%d", base+i) }
	}
	// --- median
	add(c16RepCase{Family: "median-odd", Observs: []c16Obs{vo("30", "1"), vo("10", "2"), vo("20", "3")}})
	add(c16RepCase{Family: "median-even-upper", Observs: []c16Obs{vo("40", "1"), vo("10", "2"), vo("30", "3"), vo("20", "4")}})
	add(c16RepCase{Family: "median-two", Observs: []c16Obs{vo("7", "1"), vo("9", "2")}})
	add(c16RepCase{Family: "median-single", Observs: []c16Obs{vo("7", "1")}})
	add(c16RepCase{Family: "median-ties", Observs: []c16Obs{vo("5", "1"), vo("5", "2"), vo("9", "3"), vo("9", "4")}})
	add(c16RepCase{Family: "median-faulty-extremes", Observs: []c16Obs{vo("0", "1"), vo("1000", "2"), vo(maxU64, "3"), vo("1001", "4"), vo("999", "5"), vo("0", "6"), vo(maxU64, "7")}})
	add(c16RepCase{Family: "median-skips-invalid", Observs: []c16Obs{vo("10", "1"), raw("garbage"), vo("20", "2"), vo("+30", "3"), vo("30", "4"), vo("40", "5")}})
	add(c16RepCase{Family: "median-blocks-without-ids", Observs: []c16Obs{vo("10"), vo("20"), vo("30", "3"), vo("40"), vo("50")}})
	add(c16RepCase{Family: "median-numeric-not-lexicographic", Observs: []c16Obs{vo("9", "1"), vo("10", "2"), vo("100", "3"), vo("99", "4")}})
	// --- malformed / non-canonical
	add(c16RepCase{Family: "no-observations", Observs: nil})
	add(c16RepCase{Family: "all-malformed", Observs: []c16Obs{raw(""), raw("garbage"), raw(`{"1":5}`), raw(`{"1":"5","2":[`)}})
	add(c16RepCase{Family: "all-invalid", Observs: []c16Obs{vo("+5", "1"), vo("05", "2"), vo("-0", "3"), vo(twoP64, "4"), vo("", "5")}})
	add(c16RepCase{Family: "malformed-json-variants", Observs: []c16Obs{
		raw(`null`), raw(`{}`), raw(`[]`), raw(`"10"`), raw(`{"1":"10","2":"MQ=="}`), raw(`{"1":"10","2":["!!"]}`),
		raw(`{"1":"10","2":["MQ=="]} trailing`), raw(`{"1":"11","2":null}`), raw(`{"1":"12","2":["Mg=="],"3":"x"}`), raw(`{"2":["Mw=="]}`),
		raw("\xff\xfe{"), raw(`{"1":"13","2":["NA==","NQ=="]}`)}})
	add(c16RepCase{Family: "block-noncanonical", Observs: []c16Obs{vo("+5", "1"), vo("05", "2"), vo("-0", "3"), vo("-5", "4"), vo(" 5", "5"), vo("5 ", "6"),
		vo("0x10", "7"), vo("1e3", "8"), vo("5_0", "9"), vo("٣", "10"), vo("5\n", "11"), vo("7", "12"), vo("5\"", "13"), vo("00", "14"), vo("0", "15")}})
	add(c16RepCase{Family: "block-2^64", Observs: []c16Obs{vo(twoP64, "1"), vo(maxU64, "2"), vo(maxU64, "3"), vo(bigStr(twoP64, 5), "4")}})
	add(c16RepCase{Family: "block-oversized", Observs: []c16Obs{vo(strings.Repeat("9", 400), "1"), vo("10", "2"), vo(strings.Repeat("1", 21), "3")}})
	add(c16RepCase{Family: "id-noncanonical", Observs: []c16Obs{vo("10", "+7"), vo("10", "07"), vo("10", "-0"), vo("10", "-7"), vo("10", "abc"), vo("10", ""),
		vo("10", "1|2"), vo("10", "7 "), vo("10", "8"), vo("10", "0")}})
	add(c16RepCase{Family: "id-2^256", Observs: []c16Obs{vo("10", twoP256), vo("10", maxU256), vo("11", strings.Repeat("9", 78)), vo("12", strings.Repeat("9", 77))}})
	add(c16RepCase{Family: "ids-oversized-list", Observs: []c16Obs{vo("10", "1", "2", "3"), vo("10", "4", "bad"), vo("10", "bad", "5"), vo("10", "6", "6"),
		{Block: "10", IDs: func() []string {
			var l []string
			for i := 0; i < 100; i++ {
				l = append(l, fmt.Sprintf("%d", 1000+i))
			}
			return l
		}()}}})
	// --- dedupe
	add(c16RepCase{Family: "dedupe-all-same", Observs: []c16Obs{vo("10", "7"), vo("11", "7"), vo("12", "7"), vo("13", "7")}})
	add(c16RepCase{Family: "dedupe-mixed", Observs: []c16Obs{vo("10", "7"), vo("10", "8"), vo("10", "7"), vo("10", "9"), vo("10", "8"), vo("10", "7")}})
	// --- pending (every in-flight state of the real coordinator)
	obs3 := func(m string) []c16Obs { return []c16Obs{vo(m, "7"), vo(m, "8"), vo(m, "9")} }
	add(c16RepCase{Family: "pending-accepted", Pre: []c16Pre{{Op: "accept", Block: "40", ID: "7"}}, Observs: obs3("50")})
	add(c16RepCase{Family: "pending-accepted-all", Pre: []c16Pre{{Op: "accept", Block: "40", ID: "7"}, {Op: "accept", Block: "40", ID: "8"}, {Op: "accept", Block: "41", ID: "9"}}, Observs: obs3("50")})
	add(c16RepCase{Family: "pending-perform-at-median", Pre: []c16Pre{{Op: "accept", Block: "40", ID: "7"}, {Op: "perform", Block: "40", ID: "7", TBlock: "50", Confs: 3}}, Observs: obs3("50")})
	add(c16RepCase{Family: "pending-perform-before-median", Pre: []c16Pre{{Op: "accept", Block: "40", ID: "7"}, {Op: "perform", Block: "40", ID: "7", TBlock: "49", Confs: 3}}, Observs: obs3("50")})
	add(c16RepCase{Family: "pending-stale-check+1", Pre: []c16Pre{{Op: "accept", Block: "49", ID: "8"}, {Op: "stale", Block: "49", ID: "8", TBlock: "60", Confs: 3}}, Observs: obs3("50")})
	add(c16RepCase{Family: "pending-stale-check+2", Pre: []c16Pre{{Op: "accept", Block: "48", ID: "8"}, {Op: "stale", Block: "48", ID: "8", TBlock: "60", Confs: 3}}, Observs: obs3("50")})
	add(c16RepCase{Family: "pending-log-below-minconfs", MinConfs: 5, Pre: []c16Pre{{Op: "accept", Block: "40", ID: "9"}, {Op: "perform", Block: "40", ID: "9", TBlock: "41", Confs: 4}}, Observs: obs3("50")})
	add(c16RepCase{Family: "pending-log-at-minconfs", MinConfs: 5, Pre: []c16Pre{{Op: "accept", Block: "40", ID: "9"}, {Op: "perform", Block: "40", ID: "9", TBlock: "41", Confs: 5}}, Observs: obs3("50")})
	add(c16RepCase{Family: "pending-duplicate-of-pending", Pre: []c16Pre{{Op: "accept", Block: "40", ID: "7"}}, Observs: []c16Obs{vo("50", "7"), vo("50", "7"), vo("50", "8"), vo("50", "7")}})
	// --- cap of ten
	for _, n := range []int{9, 10, 11, 12, 16, 31} {
		add(c16RepCase{Family: fmt.Sprintf("cap-%d-keys", n), Batch: 20, Observs: distinct(n, blk(100))})
	}
	add(c16RepCase{Family: "cap-after-pending", Batch: 20, Pre: []c16Pre{{Op: "accept", Block: "90", ID: "100"}, {Op: "accept", Block: "90", ID: "101"}}, Observs: distinct(12, blk(100))})
	// --- eligibility / gas / batch loop
	four := []c16Obs{vo("10", "1"), vo("10", "2"), vo("10", "3"), vo("10", "4"), vo("10", "5")}
	add(c16RepCase{Family: "ineligible-no-error", Observs: four, Script: map[string]script{"1": {Elig: false, Gas: 1000}, "2": {Elig: false, Gas: 1000}, "3": {Elig: true, Gas: 1000}}})
	add(c16RepCase{Family: "ineligible-only", Observs: four[:2], Script: map[string]script{"1": {Elig: false, Gas: 1000}, "2": {Elig: false, Gas: 1000}}})
	add(c16RepCase{Family: "eligibility-error-variants", Observs: four, Script: map[string]script{"1": {Elig: true, EligErr: true, Gas: 1000}, "2": {Elig: false, EligErr: true, Gas: 1000}, "3": {Elig: true, Gas: 1000}, "4": {Elig: true, DetErr: true, Gas: 1000}}})
	add(c16RepCase{Family: "gas-eq-limit", Limit: 1000, Overhead: 10, Observs: four[:3], Script: map[string]script{"1": {Elig: true, Gas: 490}, "2": {Elig: true, Gas: 490}, "3": {Elig: true, Gas: 1}}})
	add(c16RepCase{Family: "gas-limit-plus-1", Limit: 1000, Overhead: 10, Observs: four[:3], Script: map[string]script{"1": {Elig: true, Gas: 490}, "2": {Elig: true, Gas: 491}, "3": {Elig: true, Gas: 1}}})
	add(c16RepCase{Family: "gas-skip-then-smaller-fits", Limit: 1000, Overhead: 10, Observs: four, Script: map[string]script{"1": {Elig: true, Gas: 600}, "2": {Elig: true, Gas: 600}, "3": {Elig: true, Gas: 300}, "4": {Elig: true, Gas: 100}, "5": {Elig: true, Gas: 50}}})
	add(c16RepCase{Family: "gas-single-over-limit", Limit: 1000, Overhead: 10, Observs: four[:2], Script: map[string]script{"1": {Elig: true, Gas: 991}, "2": {Elig: true, Gas: 5000}}})
	add(c16RepCase{Family: "gas-wrap-upkeep-sum", Observs: four[:3], Script: map[string]script{"1": {Elig: true, Gas: 4294967295}, "2": {Elig: true, Gas: 4294667296}, "3": {Elig: true, Gas: 5_000_000}}})
	add(c16RepCase{Family: "gas-wrap-total", Limit: 4_000_000_000, Overhead: 1, Observs: four[:3], Script: map[string]script{"1": {Elig: true, Gas: 2_999_999_999}, "2": {Elig: true, Gas: 1_999_999_999}, "3": {Elig: true, Gas: 2_000_000_000}}})
	add(c16RepCase{Family: "gas-max-config", Limit: 4294967295, Overhead: 4294967295, Observs: four[:3], Script: map[string]script{"1": {Elig: true, Gas: 0}, "2": {Elig: true, Gas: 1}, "3": {Elig: true, Gas: 4294967295}}})
	for _, b := range []int{1, 2, 3, 5} {
		add(c16RepCase{Family: fmt.Sprintf("batch-%d", b), Batch: b, Observs: four})
	}
	add(c16RepCase{Family: "batch-negative", Batch: -2, Observs: four})
	add(c16RepCase{Family: "config-defaults", Observs: four, Script: map[string]script{"1": {Elig: true, Gas: 5_000_001}, "2": {Elig: true, Gas: 5_000_000}}})
	// --- runner / encoder outcomes
	add(c16RepCase{Family: "runner-error", Mode: runErr, Observs: four})
	add(c16RepCase{Family: "runner-empty", Mode: runEmpty, Observs: four})
	add(c16RepCase{Family: "runner-too-many-results", Mode: runExtra, Observs: four})
	add(c16RepCase{Family: "runner-reversed", Mode: runReversed, Batch: 2, Observs: four})
	add(c16RepCase{Family: "runner-drops-some", Observs: four, Script: map[string]script{"1": {Elig: true, Gas: 1, Drop: true}, "3": {Elig: true, Gas: 1, Drop: true}}})
	add(c16RepCase{Family: "runner-drops-all", Observs: four[:2], Script: map[string]script{"1": {Drop: true}, "2": {Drop: true}}})
	add(c16RepCase{Family: "encoder-fails", EncFail: true, Observs: four})
	add(c16RepCase{Family: "encoder-fails-not-reached", EncFail: true, Observs: four[:1], Script: map[string]script{"1": {Elig: false}}})
	return cs
}

func repRandom(r *Rng) c16RepCase {
	c := c16RepCase{Family: "random", Epoch: uint32(r.Intn(1000)), Round: uint8(r.Intn(250))}
	c.Batch = []int{1, 1, 2, 3, 5, 10, 20}[r.Intn(7)]
	c.Limit = []uint32{1000, 5000, 100000, 5_300_000, 4_000_000_000}[r.Intn(5)]
	c.Overhead = []uint32{1, 10, 300, 300_000}[r.Intn(4)]
	c.MinConfs = r.Intn(3)
	base := []int{0, 5, 100, 100000}[r.Intn(4)]
	nids := 1 + r.Intn(14)
	idName := func(k int) string {
		switch k % 9 {
		case 7:
			return bigStr(maxU256, -int64(k))
		case 8:
			return "0"
		}
		return fmt.Sprintf("%d", 1+k*37)
	}
	n := []int{1, 2, 3, 4, 5, 7, 10, 13, 16}[r.Intn(9)]
	badBlocks := []string{"+5", "05", "-0", "", twoP64, "1e2", "abc", "-3", " 7"}
	badIDs := []string{"+5", "05", "-0", "", twoP256, "x", "-3", "3|4"}
	for i := 0; i < n; i++ {
		switch r.Intn(10) {
		case 0:
			c.Observs = append(c.Observs, raw([]string{"", "garbage", `{"1":7,"2":[]}`, `{"1":"7","2":[`, "null"}[r.Intn(5)]))
			continue
		case 1:
			c.Observs = append(c.Observs, vo(badBlocks[r.Intn(len(badBlocks))], idName(r.Intn(nids))))
			continue
		case 2:
			c.Observs = append(c.Observs, vo(fmt.Sprintf("%d", base+r.Intn(8)), badIDs[r.Intn(len(badIDs))]))
			continue
		}
		var b string
		switch r.Intn(12) {
		case 0:
			b = maxU64
		case 1:
			b = "0"
		default:
			b = fmt.Sprintf("%d", base+r.Intn(8))
		}
		var ids []string
		switch r.Intn(8) {
		case 0: // none
		case 1:
			ids = []string{idName(r.Intn(nids)), idName(r.Intn(nids))}
		default:
			ids = []string{idName(r.Intn(nids))}
		}
		c.Observs = append(c.Observs, vo(b, ids...))
	}
	// in-flight state
	for k := r.Intn(4); k > 0; k-- {
		id := idName(r.Intn(nids))
		cb := base + r.Intn(8)
		p := c16Pre{Op: "accept", Block: fmt.Sprintf("%d", cb), ID: id}
		c.Pre = append(c.Pre, p)
		switch r.Intn(4) {
		case 0:
			c.Pre = append(c.Pre, c16Pre{Op: "perform", Block: p.Block, ID: id, TBlock: fmt.Sprintf("%d", cb+r.Intn(8)), Confs: int64(r.Intn(4))})
		case 1:
			c.Pre = append(c.Pre, c16Pre{Op: "stale", Block: p.Block, ID: id, TBlock: fmt.Sprintf("%d", cb+r.Intn(8)), Confs: int64(r.Intn(4))})
		}
	}
	// check outcomes
	c.Script = map[string]script{}
	for k := 0; k < nids; k++ {
		s := script{Elig: !r.Chance(1, 4), EligErr: r.Chance(1, 10), DetErr: r.Chance(1, 12), Drop: r.Chance(1, 12)}
		lim := uint64(c.Limit)
		switch r.Intn(10) {
		case 0:
			s.Gas = 4294967295 - uint32(r.Intn(400000))
		case 1:
			s.Gas = uint32(lim - uint64(c.Overhead))
		case 2:
			s.Gas = uint32(lim/2) + 1
		case 3:
			s.Gas = 0
		default:
			s.Gas = uint32(1 + uint64(r.Intn(int(lim/3)+1)))
		}
		c.Script[idName(k)] = s
	}
	switch r.Intn(14) {
	case 0:
		c.Mode = runErr
	case 1:
		c.Mode = runEmpty
	case 2:
		c.Mode = runExtra
	case 3, 4:
		c.Mode = runReversed
	}
	c.EncFail = r.Chance(1, 15)
	return c
}

// ---------------------------------------------------------------- boundary families: Observation

func obsBoundary() []c16ObsCase {
	var cs []c16ObsCase
	add := func(c c16ObsCase) {
		if c.Epoch == 0 {
			c.Epoch, c.Round = uint32(len(cs)+1), uint8(len(cs)%5)
		}
		cs = append(cs, c)
	}
	ids := func(n int) []string {
		var l []string
		for i := 0; i < n; i++ {
			l = append(l, fmt.Sprintf("%d", 1+i))
		}
		return l
	}
	inel := func(xs ...string) map[string]script {
		m := map[string]script{}
		for _, x := range xs {
			m[x] = script{Elig: false}
		}
		return m
	}
	add(c16ObsCase{Family: "no-head-yet"})
	add(c16ObsCase{Family: "one-eligible", Heads: []c16Head{{Block: "55", IDs: ids(3), Script: inel("1", "3")}}})
	add(c16ObsCase{Family: "none-eligible", Heads: []c16Head{{Block: "55", IDs: ids(3), Script: inel("1", "2", "3")}}})
	add(c16ObsCase{Family: "many-eligible", Heads: []c16Head{{Block: "55", IDs: ids(20)}}})
	add(c16ObsCase{Family: "error-variants", Heads: []c16Head{{Block: "55", IDs: ids(4), Script: map[string]script{"1": {Elig: true, EligErr: true}, "2": {Elig: false, EligErr: true}, "3": {Elig: true, DetErr: true}, "4": {Elig: true}}}}})
	add(c16ObsCase{Family: "pending-filtered", Pre: []c16Pre{{Op: "accept", Block: "50", ID: "2"}}, Heads: []c16Head{{Block: "55", IDs: ids(3), Script: inel("1")}}})
	add(c16ObsCase{Family: "all-pending", Pre: []c16Pre{{Op: "accept", Block: "50", ID: "1"}, {Op: "accept", Block: "50", ID: "2"}}, Heads: []c16Head{{Block: "55", IDs: ids(2)}}})
	add(c16ObsCase{Family: "pending-released-by-perform", Pre: []c16Pre{{Op: "accept", Block: "50", ID: "1"}, {Op: "perform", Block: "50", ID: "1", TBlock: "54", Confs: 1}}, Heads: []c16Head{{Block: "55", IDs: ids(1)}}})
	add(c16ObsCase{Family: "pending-perform-at-head", Pre: []c16Pre{{Op: "accept", Block: "50", ID: "1"}, {Op: "perform", Block: "50", ID: "1", TBlock: "55", Confs: 1}}, Heads: []c16Head{{Block: "55", IDs: ids(1)}}})
	// a report for the staged id is accepted between the sampling of the head and the observation (several OCR rounds
	// per head): the id is in flight when the observation is built
	add(c16ObsCase{Family: "accepted-after-sampling", Heads: []c16Head{{Block: "55", IDs: ids(1)}}, Post: []c16Pre{{Op: "accept", Block: "55", ID: "1"}}})
	add(c16ObsCase{Family: "accepted-after-sampling", Heads: []c16Head{{Block: "55", IDs: ids(3), Script: inel("1", "3")}}, Post: []c16Pre{{Op: "accept", Block: "54", ID: "2"}}})
	add(c16ObsCase{Family: "accepted-after-sampling-then-performed", Heads: []c16Head{{Block: "55", IDs: ids(1)}},
		Post: []c16Pre{{Op: "accept", Block: "55", ID: "1"}, {Op: "perform", Block: "55", ID: "1", TBlock: "54", Confs: 1}}})
	add(c16ObsCase{Family: "accepted-after-sampling-then-performed-at-head", Heads: []c16Head{{Block: "55", IDs: ids(1)}},
		Post: []c16Pre{{Op: "accept", Block: "55", ID: "1"}, {Op: "perform", Block: "55", ID: "1", TBlock: "55", Confs: 1}}})
	add(c16ObsCase{Family: "second-head-replaces", Heads: []c16Head{{Block: "55", IDs: ids(3), Script: inel("2", "3")}, {Block: "56", IDs: ids(3), Script: inel("1", "2")}}})
	add(c16ObsCase{Family: "second-head-none-eligible", Heads: []c16Head{{Block: "55", IDs: ids(3)}, {Block: "56", IDs: ids(3), Script: inel("1", "2", "3")}}})
	add(c16ObsCase{Family: "second-head-runner-error", Heads: []c16Head{{Block: "55", IDs: ids(3), Script: inel("2", "3")}, {Block: "56", IDs: ids(3), Mode: runErr}}})
	add(c16ObsCase{Family: "second-head-registry-error", Heads: []c16Head{{Block: "55", IDs: ids(3), Script: inel("2", "3")}, {Block: "56", IDs: ids(3), RegErr: true}}})
	add(c16ObsCase{Family: "second-head-no-upkeeps", Heads: []c16Head{{Block: "55", IDs: ids(3), Script: inel("2", "3")}, {Block: "56", IDs: nil}}})
	add(c16ObsCase{Family: "second-head-runner-empty", Heads: []c16Head{{Block: "55", IDs: ids(3)}, {Block: "56", IDs: ids(3), Mode: runEmpty}}})
	add(c16ObsCase{Family: "third-head-after-failure", Heads: []c16Head{{Block: "55", IDs: ids(3)}, {Block: "56", IDs: ids(3), Mode: runErr}, {Block: "57", IDs: ids(3), Script: inel("1", "3")}}})
	add(c16ObsCase{Family: "longest-ids-and-block", Heads: []c16Head{{Block: maxU64, IDs: []string{maxU256, strings.Repeat("9", 78), bigStr(maxU256, -1)}}}})
	add(c16ObsCase{Family: "id-zero-block-zero", Heads: []c16Head{{Block: "0", IDs: []string{"0"}}}})
	add(c16ObsCase{Family: "runner-drops", Heads: []c16Head{{Block: "55", IDs: ids(3), Script: map[string]script{"1": {Drop: true}, "2": {Drop: true}}}}})
	return cs
}

func obsRandom(r *Rng) c16ObsCase {
	c := c16ObsCase{Family: "random", Epoch: uint32(r.Intn(1000)), Round: uint8(r.Intn(250)), MinConfs: r.Intn(2)}
	n := 1 + r.Intn(8)
	idName := func(k int) string {
		switch k % 7 {
		case 5:
			return bigStr(maxU256, -int64(k))
		case 6:
			return fmt.Sprintf("%d", k*1000003)
		}
		return fmt.Sprintf("%d", 1+k)
	}
	var all []string
	for k := 0; k < n; k++ {
		all = append(all, idName(k))
	}
	base := 100 + r.Intn(50)
	for k := r.Intn(3); k > 0; k-- {
		id := all[r.Intn(n)]
		cb := base - 5 + r.Intn(5)
		c.Pre = append(c.Pre, c16Pre{Op: "accept", Block: fmt.Sprintf("%d", cb), ID: id})
		switch r.Intn(4) {
		case 0:
			c.Pre = append(c.Pre, c16Pre{Op: "perform", Block: fmt.Sprintf("%d", cb), ID: id, TBlock: fmt.Sprintf("%d", base-2+r.Intn(5)), Confs: int64(r.Intn(3))})
		case 1:
			c.Pre = append(c.Pre, c16Pre{Op: "stale", Block: fmt.Sprintf("%d", cb), ID: id, TBlock: "0", Confs: int64(r.Intn(3))})
		}
	}
	if len(c.Pre) > 0 && r.Chance(1, 3) {
		c.Post, c.Pre = c.Pre, nil // the same accepts / logs, but after the heads were sampled
	}
	for hN := 1 + r.Intn(3); hN > 0; hN-- {
		h := c16Head{Block: fmt.Sprintf("%d", base), IDs: all, Script: map[string]script{}}
		base += 1 + r.Intn(2)
		for _, id := range all {
			h.Script[id] = script{Elig: r.Chance(1, 2), EligErr: r.Chance(1, 10), DetErr: r.Chance(1, 12), Drop: r.Chance(1, 12), Gas: 1000}
		}
		switch r.Intn(10) {
		case 0:
			h.Mode = runErr
		case 1:
			h.RegErr = true
		case 2:
			h.Mode = runEmpty
		case 3:
			h.Mode = runReversed
		}
		c.Heads = append(c.Heads, h)
	}
	return c
}

// ---------------------------------------------------------------- the test

func TestC16(t *testing.T) {
	dir := OutDir(t, "C16")
	var reps []c16RepCase
	var obss []c16ObsCase
	if rf := ReplayFile(); rf != "" {
		// a replay file holds cases of one of the two parts; the part is recognised by its fields
		for _, rawc := range LoadReplayCases[json.RawMessage](t, rf) {
			var probe struct {
				Heads *[]c16Head `json:"heads"`
			}
			_ = json.Unmarshal(rawc, &probe)
			if probe.Heads != nil {
				var c c16ObsCase
				if err := json.Unmarshal(rawc, &c); err != nil {
					t.Fatal(err)
				}
				obss = append(obss, c)
			} else {
				var c c16RepCase
				if err := json.Unmarshal(rawc, &c); err != nil {
					t.Fatal(err)
				}
				reps = append(reps, c)
			}
		}
	} else {
		for _, rawc := range LoadCorpus[json.RawMessage](t, "C16") {
			var c c16RepCase
			if err := json.Unmarshal(rawc, &c); err == nil && c.Observs != nil {
				reps = append(reps, c)
			}
		}
		reps = append(reps, repBoundary()...)
		obss = append(obss, obsBoundary()...)
		r := NewRng(EnvSeed())
		n := EnvInt("VERIF_N", 300)
		for i := 0; i < n; i++ {
			reps = append(reps, repRandom(r))
		}
		for i := 0; i < n/3; i++ {
			obss = append(obss, obsRandom(r))
		}
	}

	prelude := "From Coq Require Import String.\nOpen Scope string_scope.\nOpen Scope N_scope."
	if len(reps) > 0 {
		cf := NewCaseFile("C16", "Base.Util", "Model.V2")
		cf.Prelude = prelude
		fam, sizes, modes := map[string]int{}, map[int]int{}, map[int]int{}
		for i := range reps {
			runRepCase(t, &reps[i])
			if reps[i].Observed == nil {
				t.Fatalf("case %d (%s) produced no observation", i, reps[i].Family)
			}
			cf.Add(repTerm(reps[i]))
			fam[reps[i].Family]++
			sizes[len(reps[i].Observs)]++
			modes[reps[i].Mode]++
		}
		cf.Write(t, dir, "cases_report.v", "rep_case", [][2]string{
			{"mism", "find_idx pc_mism cases"},
			{"bad", "find_idx pc_bad cases"},
			{"nontriv", "find_idx pc_nontriv cases"},
			{"cov_loop_skipelig_deterr_overgas_batchbreak", "cov4_sum (map pc_cov cases)"},
			{"cov_obs_skipped_valid", "cov2_sum (map pc_cov_obs cases)"},
			{"cov_bad_checked", "find_idx pc_bad_checked cases"},
			{"cov_old_tree_differs", "List.length (find_idx (fun k => negb (list_eqb key_eqb (map r_key (o_report (pc_model false false k))) (map r_key (o_report (pc_model true true k))))) cases)"},
		})
		WriteJSON(t, filepath.Join(dir, "cases_report.json"), map[string]any{
			"property": "C16", "part": "report", "seed": EnvSeed(), "cases": reps, "families": fam, "sizes": sizes,
			"distribution": map[string]any{"runner_modes": modes},
		})
	}
	if len(obss) > 0 {
		cf := NewCaseFile("C16", "Base.Util", "Model.V2")
		cf.Prelude = prelude
		fam, sizes := map[string]int{}, map[int]int{}
		for i := range obss {
			runObsCase(t, &obss[i])
			if obss[i].Observed == nil {
				t.Fatalf("observation case %d (%s) produced no observation", i, obss[i].Family)
			}
			cf.Add(obsCaseTerm(obss[i]))
			fam[obss[i].Family]++
			sizes[len(obss[i].Heads)]++
		}
		cf.Write(t, dir, "cases_obs.v", "obs_case", [][2]string{
			{"mism", "find_idx oc_mism cases"},
			{"bad", "find_idx oc_bad cases"},
			{"nontriv", "find_idx oc_nontriv cases"},
			{"cov_staged2_pendingfiltered", "cov2_sum (map oc_cov cases)"},
		})
		WriteJSON(t, filepath.Join(dir, "cases_obs.json"), map[string]any{
			"property": "C16", "part": "observation", "seed": EnvSeed(), "cases": obss, "families": fam, "sizes": sizes,
		})
	}
}

// TestC17Obs: the observation clause of C17 ("after a key is accepted the upkeep id is filtered from observations ...
// until the right log arrives") on the real polling observer + real coordinator: the observation cases of C16 with
// their accepts and logs placed before AND after the sampling of the head.  Same model, same checker (oc_bad: an id in
// flight at observation time is not listed).
func TestC17Obs(t *testing.T) {
	dir := OutDir(t, "C17")
	var obss []c16ObsCase
	if rf := ReplayFile(); rf != "" {
		obss = LoadReplayCases[c16ObsCase](t, rf)
	} else {
		for _, c := range obsBoundary() {
			if len(c.Pre)+len(c.Post) > 0 {
				obss = append(obss, c)
			}
		}
		r := NewRng(EnvSeed() + 17)
		for i := 0; i < EnvInt("VERIF_N", 120); i++ {
			c := obsRandom(r)
			if len(c.Pre)+len(c.Post) > 0 {
				obss = append(obss, c)
			}
		}
	}
	cf := NewCaseFile("C17", "Base.Util", "Model.V2")
	cf.Prelude = "From Coq Require Import String.\nOpen Scope string_scope.\nOpen Scope N_scope."
	fam := map[string]int{}
	for i := range obss {
		runObsCase(t, &obss[i])
		if obss[i].Observed == nil {
			t.Fatalf("observation case %d (%s) produced no observation", i, obss[i].Family)
		}
		cf.Add(obsCaseTerm(obss[i]))
		fam[obss[i].Family]++
	}
	cf.Write(t, dir, "cases_obsfilter.v", "obs_case", [][2]string{
		{"mism", "find_idx oc_mism cases"},
		{"bad", "find_idx oc_bad cases"},
		{"nontriv", "find_idx oc_nontriv cases"},
	})
	WriteJSON(t, filepath.Join(dir, "cases_obsfilter.json"), map[string]any{
		"property": "C17", "part": "observation filter", "seed": EnvSeed(), "cases": obss, "families": fam,
	})
}
