module verifharness

go 1.26.8

require (
	github.com/ethereum/go-ethereum v1.13.8
	github.com/goccy/go-json v0.10.2
	github.com/smartcontractkit/chainlink-automation v0.0.0
	github.com/smartcontractkit/chainlink-common v0.3.0
	github.com/smartcontractkit/libocr v0.0.0-20241007185508-adbe57025f12
)

require (
	github.com/Maldris/mathparse v0.0.0-20170508133428-f0d009a7a773 // indirect
	github.com/beorn7/perks v1.0.1 // indirect
	github.com/bits-and-blooms/bitset v1.10.0 // indirect
	github.com/cespare/xxhash/v2 v2.3.0 // indirect
	github.com/consensys/bavard v0.1.13 // indirect
	github.com/consensys/gnark-crypto v0.12.1 // indirect
	github.com/crate-crypto/go-kzg-4844 v0.7.0 // indirect
	github.com/deckarep/golang-set/v2 v2.3.0 // indirect
	github.com/fsnotify/fsnotify v1.6.0 // indirect
	github.com/go-echarts/go-echarts/v2 v2.2.6 // indirect
	github.com/go-logr/logr v1.4.2 // indirect
	github.com/go-logr/stdr v1.2.2 // indirect
	github.com/golang/protobuf v1.5.4 // indirect
	github.com/google/uuid v1.6.0 // indirect
	github.com/gorilla/websocket v1.5.0 // indirect
	github.com/holiman/uint256 v1.2.4 // indirect
	github.com/jedib0t/go-pretty/v6 v6.4.7 // indirect
	github.com/mattn/go-runewidth v0.0.13 // indirect
	github.com/matttproud/golang_protobuf_extensions v1.0.4 // indirect
	github.com/mmcloughlin/addchain v0.4.0 // indirect
	github.com/mr-tron/base58 v1.2.0 // indirect
	github.com/pkg/errors v0.9.1 // indirect
	github.com/prometheus/client_golang v1.17.0 // indirect
	github.com/prometheus/client_model v0.4.1-0.20230718164431-9a2bf3000d16 // indirect
	github.com/prometheus/common v0.44.0 // indirect
	github.com/prometheus/procfs v0.11.1 // indirect
	github.com/rivo/uniseg v0.2.0 // indirect
	github.com/shirou/gopsutil v3.21.11+incompatible // indirect
	github.com/shopspring/decimal v1.4.0 // indirect
	github.com/tklauser/go-sysconf v0.3.12 // indirect
	github.com/tklauser/numcpus v0.6.1 // indirect
	go.opentelemetry.io/otel v1.28.0 // indirect
	go.opentelemetry.io/otel/metric v1.28.0 // indirect
	go.opentelemetry.io/otel/trace v1.28.0 // indirect
	go.uber.org/multierr v1.11.0 // indirect
	go.uber.org/zap v1.27.0 // indirect
	golang.org/x/crypto v0.27.0 // indirect
	golang.org/x/exp v0.0.0-20240909161429-701f63a606c0 // indirect
	golang.org/x/sync v0.8.0 // indirect
	golang.org/x/sys v0.25.0 // indirect
	gonum.org/v1/gonum v0.15.0 // indirect
	google.golang.org/protobuf v1.34.2 // indirect
	rsc.io/tmplfunc v0.0.3 // indirect
)

replace github.com/smartcontractkit/chainlink-automation => /repo
