package c13

import (
	"context"
	"fmt"
	"io"
	"log"
	"path/filepath"
	"sort"
	"sync"
	"testing"
	"time"

	. "verifharness/h"

	"verifharness/c13/kit"

	"github.com/smartcontractkit/chainlink-automation/pkg/v3/runner"
	common "github.com/smartcontractkit/chainlink-common/pkg/types/automation"
)

// Real clock, real goroutines (no synctest bubble): the worker group's result buffer is written by
// many workers while the result reader aggregates.  All batches of a call are released by a barrier
// at once so that results pile up behind the reader.  The observable is the exact multiset of the
// results of one CheckUpkeeps call: one result per payload whose batch succeeded, none lost, none
// duplicated, none for payloads not asked.  Nothing in the verdict depends on timing; a call that
// does not return within the (generous) watchdog is reported as such.

type stressRound struct {
	N        int   `json:"n"`        // payloads
	FailEach int   `json:"failEach"` // every FailEach-th batch errors (0 = none)
	Waves    int   `json:"waves"`    // the batches are released in this many groups
	Repeat   bool  `json:"repeat"`   // ask the same payloads again (all served from the cache)
	Cancel   bool  `json:"cancel"`   // the caller's context is cancelled once every batch is inside the pipeline; the pipeline finishes its calls normally
	Seed     int64 `json:"-"`
}

type stressViolation struct {
	Property   string      `json:"property"`
	What       string      `json:"what"`
	Round      int         `json:"round"`
	Config     stressRound `json:"config"`
	Payloads   int         `json:"payloads"`
	Expected   int         `json:"expected_results"`
	Got        int         `json:"got_results"`
	Lost       []string    `json:"lost,omitempty"`
	Duplicated []string    `json:"duplicated,omitempty"`
	Unasked    []string    `json:"unasked,omitempty"`
	Err        string      `json:"err,omitempty"`
}

type barrierPipe struct {
	mu      sync.Mutex
	total   int
	arrived int
	waves   int
	gates   []chan struct{}
	fail    map[string]bool // work id of a batch's first payload -> the batch errors
	// cancel rounds: called once every batch is inside the pipeline, before the first gate opens; the pipeline then
	// ignores the cancelled context and answers normally
	beforeRelease func()
	ignoreCtx     bool
}

func (b *barrierPipe) CheckUpkeeps(ctx context.Context, ps ...common.UpkeepPayload) ([]common.CheckResult, error) {
	out := make([]common.CheckResult, len(ps))
	for i, p := range ps {
		out[i] = common.CheckResult{UpkeepID: p.UpkeepID, Trigger: p.Trigger, WorkID: p.WorkID, Eligible: i%2 == 0}
	}
	b.mu.Lock()
	k := b.arrived
	b.arrived++
	wave := k * b.waves / b.total
	if b.arrived == b.total {
		// every batch is inside the pipeline: release them wave by wave
		go func() {
			if b.beforeRelease != nil {
				b.beforeRelease()
			}
			for _, g := range b.gates {
				close(g)
				time.Sleep(200 * time.Microsecond)
			}
		}()
	}
	gate := b.gates[wave]
	failing := b.fail[ps[0].WorkID]
	ignore := b.ignoreCtx
	b.mu.Unlock()
	if ignore {
		<-gate
	} else {
		select {
		case <-gate:
		case <-ctx.Done():
			return nil, ctx.Err()
		}
	}
	if failing {
		return nil, fmt.Errorf("scripted batch failure")
	}
	return out, nil
}

func firstN(s []string, n int) []string {
	sort.Strings(s)
	if len(s) > n {
		return s[:n]
	}
	return s
}

func audit(asked map[string]bool, results []common.CheckResult) (lost, dup, unasked []string) {
	got := map[string]int{}
	for _, r := range results {
		got[r.WorkID]++
	}
	for id := range asked {
		switch n := got[id]; {
		case n == 0:
			lost = append(lost, id)
		case n > 1:
			dup = append(dup, id)
		}
	}
	for id := range got {
		if !asked[id] {
			unasked = append(unasked, id)
		}
	}
	return
}

func runStressRound(round int, cfg stressRound) []stressViolation {
	var vs []stressViolation
	nb := (cfg.N + 9) / 10
	ps := make([]common.UpkeepPayload, cfg.N)
	for i := range ps {
		ps[i] = kit.MkPayload(kit.Payload{Wid: round*100000 + i + 1, Blk: 5, Hash: 1, Tag: i + 1})
	}
	pipe := &barrierPipe{total: nb, waves: cfg.Waves, fail: map[string]bool{}}
	for w := 0; w < cfg.Waves; w++ {
		pipe.gates = append(pipe.gates, make(chan struct{}))
	}
	expected := map[string]bool{}
	okBatches := 0
	for b := 0; b < nb; b++ {
		failing := cfg.FailEach > 0 && b%cfg.FailEach == cfg.FailEach-1
		if failing {
			pipe.fail[ps[b*10].WorkID] = true
			continue
		}
		okBatches++
		for i := b * 10; i < (b+1)*10 && i < cfg.N; i++ {
			expected[ps[i].WorkID] = true
		}
	}
	rn, err := runner.NewRunner(log.New(io.Discard, "", 0), pipe, runner.RunnerConfig{
		Workers: nb, WorkerQueueLength: cfg.N, CacheExpire: time.Hour, CacheClean: time.Hour})
	if err != nil {
		return []stressViolation{{Property: "C13", What: "NewRunner failed", Round: round, Config: cfg, Err: err.Error()}}
	}
	ctx, cancel := context.WithCancel(context.Background())
	go func() { _ = rn.Start(ctx) }()
	defer func() {
		cancel()
		for i := 0; i < 1000; i++ { // Close needs Start to have run
			if rn.Close() == nil {
				break
			}
			time.Sleep(time.Millisecond)
		}
	}()
	call := func(what string, want map[string]bool) bool {
		type ret struct {
			res []common.CheckResult
			err error
		}
		ch := make(chan ret, 1)
		callCtx, callCancel := context.WithCancel(ctx)
		defer callCancel()
		if cfg.Cancel && what == "first call" {
			pipe.mu.Lock()
			pipe.ignoreCtx = true
			pipe.beforeRelease = func() { callCancel(); time.Sleep(300 * time.Microsecond) }
			pipe.mu.Unlock()
		}
		go func() {
			res, err := rn.CheckUpkeeps(callCtx, ps...)
			ch <- ret{res, err}
		}()
		var r ret
		select {
		case r = <-ch:
		case <-time.After(5 * time.Minute):
			vs = append(vs, stressViolation{Property: "C13", What: what + ": CheckUpkeeps did not return", Round: round, Config: cfg, Payloads: cfg.N})
			return false
		}
		wantErr := okBatches == 0 && nb > 0 && what == "first call"
		if (r.err != nil) != wantErr {
			v := stressViolation{Property: "C13", What: what + ": error iff every batch failed", Round: round, Config: cfg, Payloads: cfg.N, Expected: len(want), Got: len(r.res)}
			if r.err != nil {
				v.Err = r.err.Error()
			}
			vs = append(vs, v)
			return false
		}
		if r.err != nil {
			return true
		}
		lost, dup, unasked := audit(want, r.res)
		if len(r.res) != len(want) || len(lost)+len(dup)+len(unasked) > 0 {
			vs = append(vs, stressViolation{Property: "C13", What: what + ": results are not exactly one per payload of the successful batches",
				Round: round, Config: cfg, Payloads: cfg.N, Expected: len(want), Got: len(r.res),
				Lost: firstN(lost, 12), Duplicated: firstN(dup, 12), Unasked: firstN(unasked, 12)})
			return false
		}
		return true
	}
	if !call("first call", expected) {
		return vs
	}
	if cfg.Repeat && cfg.FailEach == 0 {
		// everything is cached now: the pipeline must not be entered again (it would block on a fresh barrier)
		pipe.mu.Lock()
		pipe.arrived, pipe.total = 0, 1<<30
		pipe.mu.Unlock()
		call("second call (all cached)", expected)
	}
	return vs
}

func TestC13Stress(t *testing.T) {
	dir := OutDir(t, "C13")
	if ReplayFile() != "" {
		return // replays are cases of TestC13
	}
	rounds := EnvInt("VERIF_STRESS_ROUNDS", map[string]int{"quick": 16, "thorough": 120}[EnvTier()])
	r := NewRng(EnvSeed() + 77)
	var violations []stressViolation
	keys := map[string]bool{}
	dist := map[string]int{}
	var samples []stressRound
	evals := 0
	for i := 0; i < rounds; i++ {
		cfg := stressRound{N: []int{1000, 1000, 1000, 997, 640, 250}[r.Intn(6)], Waves: []int{1, 1, 2, 4}[r.Intn(4)], Repeat: r.Chance(1, 3)}
		if r.Chance(1, 3) {
			cfg.FailEach = []int{2, 3, 7, 1}[r.Intn(4)]
		}
		cfg.Cancel = r.Chance(1, 4)
		if i == 1 {
			cfg = stressRound{N: 640, Waves: 2, Cancel: true}
		}
		if i == 2 {
			cfg = stressRound{N: 250, Waves: 1, Cancel: true, FailEach: 3}
		}
		if i == 0 {
			cfg = stressRound{N: 1000, Waves: 1}
		}
		vs := runStressRound(i, cfg)
		evals++
		violations = append(violations, vs...)
		keys[fmt.Sprintf("stress n=%d failEach=%d waves=%d repeat=%v cancel=%v", cfg.N, cfg.FailEach, cfg.Waves, cfg.Repeat, cfg.Cancel)] = true
		dist[fmt.Sprintf("n=%d", cfg.N)]++
		dist[fmt.Sprintf("failEach=%d", cfg.FailEach)]++
		if len(samples) < 2 {
			samples = append(samples, cfg)
		}
		if len(violations) >= 3 {
			break
		}
	}
	var ks []string
	for k := range keys {
		ks = append(ks, k)
	}
	sort.Strings(ks)
	if violations == nil {
		violations = []stressViolation{}
	}
	WriteJSON(t, filepath.Join(dir, "direct.json"), map[string]any{
		"evaluations": evals, "nontrivial_keys": ks, "violations": violations, "known": map[string]any{},
		"samples": samples, "distribution": dist,
	})
}
