// Package kit holds what the C12 and C13 harnesses share: generator-form payloads and pipeline
// scripts, the scripted Runnable (per-batch latency on the virtual clock, scripted batch
// failures), a recorder of what the real code did, and the Gallina emitters for
// coq/Model/Runner.v's records.
package kit

import (
	"context"
	"encoding/binary"
	"fmt"
	"math/big"
	"sort"
	"strconv"
	"strings"
	"sync"
	"time"

	common "github.com/smartcontractkit/chainlink-common/pkg/types/automation"

	. "verifharness/h"
)

// Payload is one payload instance in generator form.  Tag identifies the instance (it travels
// in CheckData); Lat is the latency of a pipeline invocation whose first payload it is.
type Payload struct {
	Wid  int   `json:"wid"`
	Blk  int   `json:"blk"`
	Hash int   `json:"hash"`
	Tag  int   `json:"tag"`
	Lat  int64 `json:"lat,omitempty"` // ns
	Kind uint8 `json:"kind,omitempty"` // upkeep type: 0 conditional, 1 log trigger
	Log  int   `json:"log,omitempty"`  // > 0: the trigger carries a LogTriggerExtension for log number Log
}

// Spec says what the scripted pipeline answers for a payload instance on one invocation.
type Spec struct {
	State int   `json:"state"`
	Retry bool  `json:"retry,omitempty"`
	Elig  bool  `json:"elig,omitempty"`
	Ivl   int64 `json:"ivl,omitempty"`  // RetryInterval, ns
	Mode  int   `json:"mode,omitempty"` // 0 one result; 1 batch errors; 2 none; 3 twice; 4 no work id
	Panic bool  `json:"panic,omitempty"` // with mode 1: the batch fails by a panic inside the pipeline instead of a returned error (the model sees a failed batch either way)
}

type ScriptEntry struct {
	Tag   int    `json:"tag"`
	Specs []Spec `json:"specs"`
}

type Job struct {
	P   Payload `json:"p"`
	Att int     `json:"att"`
}

type Invocation struct {
	Call   int   `json:"call"`
	Jobs   []Job `json:"jobs"`
	Fail   bool  `json:"fail"`
	TStart int64 `json:"tstart"`
	TDone  int64 `json:"tdone"`
	Seq    int   `json:"seq"`
}

type Event struct {
	Kind  string `json:"kind"` // "call" | "done"
	Call  int    `json:"call"`
	First int    `json:"first,omitempty"`
	T     int64  `json:"t"`
	Seq   int    `json:"seq"`
}

// ResultObs is a check result as observed, projected on the fields the models talk about.
type ResultObs struct {
	Wid   int   `json:"wid"`
	Blk   int   `json:"blk"`
	Hash  int   `json:"hash"`
	State int   `json:"state"`
	Retry bool  `json:"retry,omitempty"`
	Elig  bool  `json:"elig,omitempty"`
	Ivl   int64 `json:"ivl,omitempty"`
	Tag   int   `json:"tag"`
	Att   int   `json:"att"`
}

const Foreign = 999999

func WorkID(wid int) string {
	if wid == 0 {
		return ""
	}
	return "w" + strconv.Itoa(wid)
}

func ReadWorkID(s string) int {
	if s == "" {
		return 0
	}
	if strings.HasPrefix(s, "w") {
		if n, err := strconv.Atoi(s[1:]); err == nil && n > 0 {
			return n
		}
	}
	return Foreign
}

func ReadHash(h [32]byte) int {
	n := int(h[30])<<8 | int(h[31])
	if Hash32("bh", n) == h {
		return n
	}
	return Foreign
}

func MkPayload(p Payload) common.UpkeepPayload {
	cd := make([]byte, 8)
	binary.BigEndian.PutUint64(cd, uint64(p.Tag))
	trig := common.NewTrigger(common.BlockNumber(p.Blk), Hash32("bh", p.Hash))
	if p.Log > 0 {
		// the log (tx hash, index, log block) identifies the unit of work; the check block number and
		// hash are the trigger's own and may change between checks of the same log
		trig = common.NewLogTrigger(common.BlockNumber(p.Blk), Hash32("bh", p.Hash), &common.LogTriggerExtension{
			TxHash: Hash32("tx", p.Log), Index: uint32(p.Log), BlockHash: Hash32("lb", p.Log), BlockNumber: 1,
		})
	}
	return common.UpkeepPayload{
		UpkeepID:  UpkeepID(p.Kind, p.Wid),
		Trigger:   trig,
		WorkID:    WorkID(p.Wid),
		CheckData: cd,
	}
}

func MkPayloads(ps []Payload) []common.UpkeepPayload {
	out := make([]common.UpkeepPayload, len(ps))
	for i, p := range ps {
		out[i] = MkPayload(p)
	}
	return out
}

// ReadPayload projects a real payload back to generator form (Lat is not recoverable).
func ReadPayload(up common.UpkeepPayload) Payload {
	tag := Foreign
	if len(up.CheckData) == 8 {
		tag = int(binary.BigEndian.Uint64(up.CheckData))
	}
	return Payload{Wid: ReadWorkID(up.WorkID), Blk: int(up.Trigger.BlockNumber), Hash: ReadHash(up.Trigger.BlockHash), Tag: tag}
}

func ReadResult(r common.CheckResult) ResultObs {
	return ResultObs{
		Wid: ReadWorkID(r.WorkID), Blk: int(r.Trigger.BlockNumber), Hash: ReadHash(r.Trigger.BlockHash),
		State: int(r.PipelineExecutionState), Retry: r.Retryable, Elig: r.Eligible, Ivl: int64(r.RetryInterval),
		Tag: int(r.GasAllocated >> 16), Att: int(r.GasAllocated & 0xffff),
	}
}

func ReadResults(rs []common.CheckResult) []ResultObs {
	out := make([]ResultObs, len(rs))
	for i, r := range rs {
		out[i] = ReadResult(r)
	}
	return out
}

type callKey struct{}

// WithCall marks a context so that the scripted pipeline can tell which call an invocation belongs to.
func WithCall(ctx context.Context, id int) context.Context { return context.WithValue(ctx, callKey{}, id) }

// Rec records, in the order in which they happen, the entries into the code under test and the
// returns of the scripted pipeline.
type Rec struct {
	mu     sync.Mutex
	base   time.Time
	seq    int
	Events []Event
	Invs   []Invocation
}

func NewRec() *Rec { return &Rec{base: time.Now()} }

func (r *Rec) Now() int64 { return int64(time.Since(r.base)) }

func (r *Rec) Call(id int) {
	r.mu.Lock()
	defer r.mu.Unlock()
	r.seq++
	r.Events = append(r.Events, Event{Kind: "call", Call: id, T: int64(time.Since(r.base)), Seq: r.seq})
}

// TimesDistinct reports whether no two recorded events share an instant (so that their order is
// the order of the virtual clock and not an accident of scheduling).
func (r *Rec) TimesDistinct() bool {
	r.mu.Lock()
	defer r.mu.Unlock()
	seen := map[int64]bool{}
	for _, e := range r.Events {
		if seen[e.T] {
			return false
		}
		seen[e.T] = true
	}
	return true
}

// Pipe is the scripted check pipeline (types.Runnable).
type Pipe struct {
	mu     sync.Mutex
	rec    *Rec
	script map[int][]Spec
	lat    map[int]int64
	cnt    map[int]int
	// DefaultCall is used for invocations whose context carries no call id (flows started by tickers).
	DefaultCall func() int
}

func NewPipe(rec *Rec, script []ScriptEntry) *Pipe {
	p := &Pipe{rec: rec, script: map[int][]Spec{}, lat: map[int]int64{}, cnt: map[int]int{}}
	for _, e := range script {
		p.script[e.Tag] = e.Specs
	}
	return p
}

func (p *Pipe) SetLat(ps []Payload) {
	p.mu.Lock()
	defer p.mu.Unlock()
	for _, x := range ps {
		p.lat[x.Tag] = x.Lat
	}
}

func SpecOf(script map[int][]Spec, tag, att int) Spec {
	l := script[tag]
	if len(l) == 0 {
		return Spec{}
	}
	if att >= len(l) {
		return l[len(l)-1]
	}
	return l[att]
}

func MkResult(sp Spec, up common.UpkeepPayload, tag, att int) common.CheckResult {
	r := common.CheckResult{
		PipelineExecutionState: uint8(sp.State), Retryable: sp.Retry, Eligible: sp.Elig,
		UpkeepID: up.UpkeepID, Trigger: up.Trigger, WorkID: up.WorkID,
		GasAllocated: uint64(tag)<<16 | uint64(att), RetryInterval: time.Duration(sp.Ivl),
		FastGasWei: big.NewInt(1), LinkNative: big.NewInt(1),
	}
	if sp.Mode == 4 {
		r.WorkID = ""
	}
	return r
}

func (p *Pipe) CheckUpkeeps(ctx context.Context, ups ...common.UpkeepPayload) ([]common.CheckResult, error) {
	call := -1
	if v, ok := ctx.Value(callKey{}).(int); ok {
		call = v
	} else if p.DefaultCall != nil {
		call = p.DefaultCall()
	}
	p.mu.Lock()
	inv := Invocation{Call: call, TStart: p.rec.Now()}
	var lat int64
	for i, up := range ups {
		pl := ReadPayload(up)
		att := p.cnt[pl.Tag]
		p.cnt[pl.Tag]++
		inv.Jobs = append(inv.Jobs, Job{P: pl, Att: att})
		if i == 0 {
			lat = p.lat[pl.Tag]
		}
	}
	script := p.script
	p.mu.Unlock()

	var cerr error
	if lat > 0 {
		tm := time.NewTimer(time.Duration(lat))
		select {
		case <-tm.C:
		case <-ctx.Done():
			tm.Stop()
			cerr = ctx.Err()
		}
	}
	var out []common.CheckResult
	fail := cerr != nil
	doPanic := false
	for i, j := range inv.Jobs {
		sp := SpecOf(script, j.P.Tag, j.Att)
		switch sp.Mode {
		case 1:
			fail = true
			doPanic = doPanic || sp.Panic
		case 2:
		case 3:
			r := MkResult(sp, ups[i], j.P.Tag, j.Att)
			out = append(out, r, r)
		default:
			out = append(out, MkResult(sp, ups[i], j.P.Tag, j.Att))
		}
	}
	inv.Fail = fail
	p.rec.mu.Lock()
	p.rec.seq++
	inv.Seq = p.rec.seq
	inv.TDone = int64(time.Since(p.rec.base))
	p.rec.Invs = append(p.rec.Invs, inv)
	first := 0
	if len(inv.Jobs) > 0 {
		first = inv.Jobs[0].P.Tag
	}
	p.rec.Events = append(p.rec.Events, Event{Kind: "done", Call: call, First: first, T: inv.TDone, Seq: inv.Seq})
	p.rec.mu.Unlock()
	if fail {
		if cerr != nil {
			return nil, cerr
		}
		if doPanic {
			panic("scripted pipeline panic")
		}
		return nil, fmt.Errorf("scripted batch failure")
	}
	return out, nil
}

// InvsOf returns the recorded invocations of one call in completion order.
func (r *Rec) InvsOf(call int) []Invocation {
	r.mu.Lock()
	defer r.mu.Unlock()
	var out []Invocation
	for _, i := range r.Invs {
		if i.Call == call {
			out = append(out, i)
		}
	}
	sort.Slice(out, func(a, b int) bool { return out[a].Seq < out[b].Seq })
	return out
}

func (r *Rec) AllEvents() []Event {
	r.mu.Lock()
	defer r.mu.Unlock()
	out := append([]Event(nil), r.Events...)
	sort.Slice(out, func(a, b int) bool { return out[a].Seq < out[b].Seq })
	return out
}

// ---------------------------------------------------------------- Gallina emitters

func CoqPl(p Payload) string { return fmt.Sprintf("mkPl %d %d %d %d", p.Wid, p.Blk, p.Hash, p.Tag) }

func CoqPls(ps []Payload) string { return CoqList(ps, CoqPl) }

func CoqRes(r ResultObs) string {
	return fmt.Sprintf("mkRes %d %d %d %d %s %s %s %d %d", r.Wid, r.Blk, r.Hash, r.State, CoqBool(r.Retry), CoqBool(r.Elig), CoqZ(r.Ivl), r.Tag, r.Att)
}

func CoqRess(rs []ResultObs) string { return CoqList(rs, CoqRes) }

func CoqJob(j Job) string { return fmt.Sprintf("(%s, %d)", CoqPl(j.P), j.Att) }

func CoqInv(i Invocation) string {
	return fmt.Sprintf("mkInv %s %s %s", CoqList(i.Jobs, CoqJob), CoqBool(i.Fail), CoqZ(i.TDone))
}

func CoqSpec(s Spec) string {
	return fmt.Sprintf("mkSpec %d %s %s %s %d", s.State, CoqBool(s.Retry), CoqBool(s.Elig), CoqZ(s.Ivl), s.Mode)
}

func CoqScript(sc []ScriptEntry) string {
	return CoqList(sc, func(e ScriptEntry) string { return fmt.Sprintf("(%d, %s)", e.Tag, CoqList(e.Specs, CoqSpec)) })
}
