package c13

import (
	"strings"
	"reflect"
	"context"
	"fmt"
	"io"
	"log"
	"path/filepath"
	"sync"
	"testing"
	"testing/synctest"
	"time"

	. "verifharness/h"

	"verifharness/c13/kit"

	"github.com/smartcontractkit/chainlink-automation/pkg/v3/runner"
	common "github.com/smartcontractkit/chainlink-common/pkg/types/automation"
)

const (
	ms  = int64(time.Millisecond)
	sec = int64(time.Second)
)

type c13Call struct {
	ID  int           `json:"id"`
	At  int64         `json:"at"` // ns after the start of the bubble
	Pls []kit.Payload `json:"pls"`
}

type c13CallObs struct {
	ID   int              `json:"id"`
	T    int64            `json:"t"`
	Err  bool             `json:"err"`
	Kind string           `json:"kind,omitempty"`
	Res  []kit.ResultObs  `json:"res"`
	Invs []kit.Invocation `json:"invs"`
}

type c13Obs struct {
	Events []kit.Event  `json:"events"`
	Calls  []c13CallObs `json:"calls"`
	Ties   int          `json:"ties"`
}

type c13Case struct {
	Family  string            `json:"family"`
	Workers int               `json:"workers"`
	Cexp    int64             `json:"cexp"` // RunnerConfig.CacheExpire, ns (0 = never)
	Script  []kit.ScriptEntry `json:"script"`
	Calls   []c13Call         `json:"calls"`
	Obs     *c13Obs           `json:"obs,omitempty"`
}

// ---------------------------------------------------------------- running the real runner

func runC13Once(t *testing.T, c *c13Case) *c13Obs {
	obs := &c13Obs{Calls: make([]c13CallObs, len(c.Calls))}
	synctest.Test(t, func(t *testing.T) {
		ctx := context.Background()
		rec := kit.NewRec()
		pipe := kit.NewPipe(rec, c.Script)
		for _, cl := range c.Calls {
			pipe.SetLat(cl.Pls)
		}
		rn, err := runner.NewRunner(log.New(io.Discard, "", 0), pipe, runner.RunnerConfig{
			Workers: c.Workers, WorkerQueueLength: 1000, CacheExpire: time.Duration(c.Cexp), CacheClean: 30 * time.Second,
		})
		if err != nil {
			t.Fatal(err)
		}
		go func() { _ = rn.Start(ctx) }()
		synctest.Wait()
		var wg sync.WaitGroup
		raw := make([][]common.CheckResult, len(c.Calls))
		var rawMu sync.Mutex
		for i := range c.Calls {
			wg.Add(1)
			go func(i int) {
				defer wg.Done()
				cl := c.Calls[i]
				time.Sleep(time.Duration(cl.At))
				o := &obs.Calls[i]
				o.ID, o.T = cl.ID, rec.Now()
				defer func() {
					if r := recover(); r != nil {
						o.Err, o.Kind = true, fmt.Sprintf("panic: %v", r)
					}
				}()
				rec.Call(cl.ID)
				res, err := rn.CheckUpkeeps(kit.WithCall(ctx, cl.ID), kit.MkPayloads(cl.Pls)...)
				if err != nil {
					o.Err, o.Kind = true, "error"
				}
				o.Res = kit.ReadResults(res)
				rawMu.Lock()
				raw[i] = res
				rawMu.Unlock()
			}(i)
		}
		wg.Wait()
		// what a caller was handed must still be what it was handed once other calls have come and gone (a caller
		// keeps its results across ticks): a slice that changed after the return is judged with its later content
		for i := range raw {
			if late := kit.ReadResults(raw[i]); !reflect.DeepEqual(late, obs.Calls[i].Res) && !obs.Calls[i].Err {
				obs.Calls[i].Res = late
				obs.Calls[i].Kind = "results changed after the call returned"
			}
		}
		if err := rn.Close(); err != nil {
			t.Errorf("runner close: %v", err)
		}
		synctest.Wait()
		obs.Events = rec.AllEvents()
		for i := range obs.Calls {
			obs.Calls[i].Invs = rec.InvsOf(obs.Calls[i].ID)
		}
		if !rec.TimesDistinct() {
			obs.Ties = 1
		}
	})
	return obs
}

// runC13 runs a case; if two events fell on the same virtual instant (their order would then be an
// accident of scheduling) the latencies are nudged deterministically and the case is run again.
func runC13(t *testing.T, c *c13Case) {
	for try := 0; try < 6; try++ {
		obs := runC13Once(t, c)
		if obs.Ties == 0 {
			obs.Ties = try
			c.Obs = obs
			return
		}
		for i := range c.Calls {
			for j := range c.Calls[i].Pls {
				p := &c.Calls[i].Pls[j]
				p.Lat += int64(1+try)*7919 + int64(p.Tag)*104729%1000003
			}
		}
	}
	t.Fatalf("C13: could not separate event instants for family %s", c.Family)
}

// ---------------------------------------------------------------- generators

type gen struct {
	r   *Rng
	tag int
}

func (g *gen) lat(msLo, msHi int) int64 {
	return int64(g.r.Range(msLo, msHi))*ms + int64(g.r.Intn(1<<19)) + 1
}

func (g *gen) pl(wid, blk, hash int, lat int64) kit.Payload {
	g.tag++
	return kit.Payload{Wid: wid, Blk: blk, Hash: hash, Tag: g.tag, Lat: lat}
}

// lpl is a log-trigger payload: the work id stands for one log, carried in the LogTriggerExtension
func (g *gen) lpl(wid, blk, hash int, lat int64) kit.Payload {
	p := g.pl(wid, blk, hash, lat)
	p.Kind, p.Log = 1, wid
	return p
}

// n payloads with work ids from..from+n-1 on one block
func (g *gen) fresh(from, n, blk, hash int) []kit.Payload {
	var ps []kit.Payload
	for i := 0; i < n; i++ {
		ps = append(ps, g.pl(from+i, blk, hash, g.lat(1, 40)))
	}
	return ps
}

func okSpec(elig bool) []kit.Spec { return []kit.Spec{{State: 0, Elig: elig}} }

func (g *gen) scriptAll(c *c13Case, f func(p kit.Payload) []kit.Spec) {
	for _, cl := range c.Calls {
		for _, p := range cl.Pls {
			c.Script = append(c.Script, kit.ScriptEntry{Tag: p.Tag, Specs: f(p)})
		}
	}
}

const defCexp = 20 * 60 * sec

func c13Boundary(r *Rng) []c13Case {
	var cs []c13Case
	add := func(fam string, workers int, cexp int64, build func(g *gen, c *c13Case)) {
		g := &gen{r: r}
		c := c13Case{Family: fam, Workers: workers, Cexp: cexp}
		build(g, &c)
		for i := range c.Calls {
			c.Calls[i].ID = i
		}
		cs = append(cs, c)
	}
	allOK := func(g *gen, c *c13Case) { g.scriptAll(c, func(kit.Payload) []kit.Spec { return okSpec(true) }) }

	add("empty", 4, defCexp, func(g *gen, c *c13Case) { c.Calls = []c13Call{{At: 0}}; allOK(g, c) })
	for _, n := range []int{1, 9, 10, 11, 20, 21, 25} {
		n := n
		add(fmt.Sprintf("size-%d", n), 8, defCexp, func(g *gen, c *c13Case) {
			c.Calls = []c13Call{{At: 0, Pls: g.fresh(1, n, 5, 1)}}
			allOK(g, c)
		})
	}
	add("thousand-many-workers", 128, defCexp, func(g *gen, c *c13Case) {
		c.Calls = []c13Call{{At: 0, Pls: g.fresh(1, 1000, 5, 1)}, {At: 3 * sec, Pls: g.fresh(1, 1000, 5, 1)}}
		allOK(g, c)
	})
	add("thousand-three-workers", 3, defCexp, func(g *gen, c *c13Case) {
		c.Calls = []c13Call{{At: 0, Pls: g.fresh(1, 1000, 5, 1)}}
		g.scriptAll(c, func(p kit.Payload) []kit.Spec {
			if p.Tag%130 == 7 {
				return []kit.Spec{{Mode: 1}}
			}
			return okSpec(p.Tag%2 == 0)
		})
	})
	add("all-cached-second-call", 4, defCexp, func(g *gen, c *c13Case) {
		c.Calls = []c13Call{{At: 0, Pls: g.fresh(1, 12, 5, 1)}, {At: 2 * sec, Pls: g.fresh(1, 12, 5, 1)}}
		allOK(g, c)
	})
	add("cached-first-then-batches-reversed", 16, defCexp, func(g *gen, c *c13Case) {
		// second call: payloads [new..., cached, new...], later batches complete first
		c.Calls = []c13Call{{At: 0, Pls: g.fresh(100, 3, 5, 1)}}
		var ps []kit.Payload
		for i := 0; i < 27; i++ {
			if i == 0 || i == 13 || i == 26 {
				ps = append(ps, g.pl(100+i/13, 5, 1, 0))
				continue
			}
			ps = append(ps, g.pl(1+i, 5, 1, int64(60-2*i)*ms+int64(g.r.Intn(1<<19))))
		}
		c.Calls = append(c.Calls, c13Call{At: 2 * sec, Pls: ps})
		allOK(g, c)
	})
	add("same-wid-higher-then-lower-block", 4, defCexp, func(g *gen, c *c13Case) {
		c.Calls = []c13Call{
			{At: 0, Pls: []kit.Payload{g.pl(1, 5, 1, g.lat(1, 9))}},
			{At: 1 * sec, Pls: []kit.Payload{g.pl(1, 7, 2, g.lat(1, 9))}}, // higher: miss, refill
			{At: 2 * sec, Pls: []kit.Payload{g.pl(1, 5, 1, g.lat(1, 9))}}, // lower: miss, cache keeps 7
			{At: 3 * sec, Pls: []kit.Payload{g.pl(1, 7, 2, g.lat(1, 9))}}, // hit on 7
			{At: 4 * sec, Pls: []kit.Payload{g.pl(1, 5, 1, g.lat(1, 9))}}, // still a miss
		}
		allOK(g, c)
	})
	add("same-block-other-hash", 4, defCexp, func(g *gen, c *c13Case) {
		c.Calls = []c13Call{
			{At: 0, Pls: []kit.Payload{g.pl(1, 5, 1, g.lat(1, 9))}},
			{At: 1 * sec, Pls: []kit.Payload{g.pl(1, 5, 2, g.lat(1, 9))}}, // fork: miss, not refilled (same block)
			{At: 2 * sec, Pls: []kit.Payload{g.pl(1, 5, 1, g.lat(1, 9)), g.pl(1, 5, 2, g.lat(1, 9))}},
		}
		allOK(g, c)
	})
	// log-trigger payloads (with LogTriggerExtension): the same log asked again on
	// (same number, other hash) = re-org of the check block, (other number, same hash), (same both)
	add("log-trigger-check-block-reorg", 4, defCexp, func(g *gen, c *c13Case) {
		c.Calls = []c13Call{
			{At: 0, Pls: []kit.Payload{g.lpl(1, 5, 1, g.lat(1, 9))}},
			{At: 1 * sec, Pls: []kit.Payload{g.lpl(1, 5, 2, g.lat(1, 9))}}, // same number, other hash: must be re-checked
			{At: 2 * sec, Pls: []kit.Payload{g.lpl(1, 5, 1, g.lat(1, 9))}}, // same both: served
			{At: 3 * sec, Pls: []kit.Payload{g.lpl(1, 6, 1, g.lat(1, 9))}}, // other number, same hash: re-checked, refilled
			{At: 4 * sec, Pls: []kit.Payload{g.lpl(1, 6, 1, g.lat(1, 9)), g.lpl(1, 6, 2, g.lat(1, 9)), g.lpl(1, 5, 1, g.lat(1, 9))}},
		}
		allOK(g, c)
	})
	add("log-trigger-many-reorged", 16, defCexp, func(g *gen, c *c13Case) {
		var a, b, d []kit.Payload
		for i := 1; i <= 25; i++ {
			a = append(a, g.lpl(i, 5, 1, g.lat(1, 30)))
		}
		for i := 1; i <= 25; i++ {
			h := 1
			if i%3 == 0 {
				h = 2 // a third of the logs are asked again after a re-org of block 5
			}
			b = append(b, g.lpl(i, 5, h, g.lat(1, 30)))
		}
		for i := 1; i <= 25; i++ {
			d = append(d, g.lpl(i, 5+i%2, 1, g.lat(1, 30)))
		}
		c.Calls = []c13Call{{At: 0, Pls: a}, {At: 2 * sec, Pls: b}, {At: 4 * sec, Pls: d}}
		g.scriptAll(c, func(p kit.Payload) []kit.Spec { return okSpec(p.Tag%2 == 0) })
	})
	add("log-and-conditional-same-call", 4, defCexp, func(g *gen, c *c13Case) {
		mk := func(h int) []kit.Payload {
			return []kit.Payload{g.lpl(1, 5, h, g.lat(1, 9)), g.pl(2, 5, h, g.lat(1, 9)), g.lpl(3, 5, 1, g.lat(1, 9)), g.pl(4, 5, 1, g.lat(1, 9))}
		}
		c.Calls = []c13Call{{At: 0, Pls: mk(1)}, {At: 1 * sec, Pls: mk(2)}, {At: 2 * sec, Pls: mk(1)}}
		allOK(g, c)
	})
	add("expiry-exact", 4, 2*sec, func(g *gen, c *c13Case) {
		l := 7*ms + 1234
		c.Calls = []c13Call{
			{At: 0, Pls: []kit.Payload{g.pl(1, 5, 1, l)}},
			{At: l + 2*sec, Pls: []kit.Payload{g.pl(1, 5, 1, 3*ms+77)}},     // now == Expires: still served
			{At: l + 2*sec + 1, Pls: []kit.Payload{g.pl(1, 5, 1, 4*ms+99)}}, // one ns later: expired, re-run, refilled
			{At: l + 3*sec, Pls: []kit.Payload{g.pl(1, 5, 1, 5*ms+11)}},
		}
		allOK(g, c)
	})
	add("expired-entry-replaced-by-lower-block", 4, 2*sec, func(g *gen, c *c13Case) {
		c.Calls = []c13Call{
			{At: 0, Pls: []kit.Payload{g.pl(1, 9, 1, g.lat(1, 9))}},
			{At: 5 * sec, Pls: []kit.Payload{g.pl(1, 4, 1, g.lat(1, 9))}}, // entry expired: block 4 is stored
			{At: 6 * sec, Pls: []kit.Payload{g.pl(1, 4, 1, g.lat(1, 9)), g.pl(1, 9, 1, g.lat(1, 9))}},
		}
		allOK(g, c)
	})
	add("never-expires", 4, 0, func(g *gen, c *c13Case) {
		c.Calls = []c13Call{
			{At: 0, Pls: g.fresh(1, 3, 5, 1)},
			{At: 48 * 3600 * sec, Pls: g.fresh(1, 3, 5, 1)},
		}
		allOK(g, c)
	})
	add("failed-results-not-cached", 4, defCexp, func(g *gen, c *c13Case) {
		c.Calls = []c13Call{{At: 0, Pls: g.fresh(1, 4, 5, 1)}, {At: 1 * sec, Pls: g.fresh(1, 4, 5, 1)}, {At: 2 * sec, Pls: g.fresh(1, 4, 5, 1)}}
		g.scriptAll(c, func(p kit.Payload) []kit.Spec {
			if p.Tag <= 4 {
				return []kit.Spec{{State: 1 + p.Tag%3, Retry: p.Tag%2 == 0}}
			}
			return okSpec(true)
		})
	})
	for _, pat := range []string{"all", "first", "last", "middle", "single", "panic-all", "panic-first", "panic-last", "panic-middle"} {
		pat := pat
		// panic-*: the batch fails by a panic inside the wrapped pipeline (contained by the runner): a failed batch like
		// any other - the results of the batches that succeeded are returned, an error only when every batch failed
		byPanic := strings.HasPrefix(pat, "panic-")
		pat = strings.TrimPrefix(pat, "panic-")
		fam := "batch-fails-" + pat
		if byPanic {
			fam = "batch-panics-" + pat
		}
		add(fam, 8, defCexp, func(g *gen, c *c13Case) {
			n := 35
			if pat == "single" {
				n = 6
			}
			c.Calls = []c13Call{{At: 0, Pls: g.fresh(50, 2, 5, 1)}, {At: 1 * sec, Pls: append(g.fresh(50, 2, 5, 1), g.fresh(1, n, 5, 1)...)},
				{At: 2 * sec, Pls: g.fresh(1, n, 5, 1)}}
			first := c.Calls[1].Pls[2].Tag
			g.scriptAll(c, func(p kit.Payload) []kit.Spec {
				k := p.Tag - first // position among the payloads that are run in call 1
				bad := false
				switch pat {
				case "all":
					bad = k >= 0 && k < n && k%10 == 3
				case "first":
					bad = k == 0
				case "last":
					bad = k == n-1
				case "middle":
					bad = k == 15
				case "single":
					bad = k == 2
				}
				if bad {
					return []kit.Spec{{Mode: 1, Panic: byPanic}}
				}
				return okSpec(true)
			})
		})
	}
	add("one-worker-sequential", 1, defCexp, func(g *gen, c *c13Case) {
		c.Calls = []c13Call{{At: 0, Pls: g.fresh(1, 33, 5, 1)}}
		g.scriptAll(c, func(p kit.Payload) []kit.Spec {
			if p.Tag == 12 {
				return []kit.Spec{{Mode: 1}}
			}
			return okSpec(false)
		})
	})
	add("pipeline-returns-none-twice-noid", 4, defCexp, func(g *gen, c *c13Case) {
		c.Calls = []c13Call{{At: 0, Pls: g.fresh(1, 6, 5, 1)}, {At: 1 * sec, Pls: g.fresh(1, 6, 5, 1)}}
		g.scriptAll(c, func(p kit.Payload) []kit.Spec {
			switch p.Tag {
			case 2:
				return []kit.Spec{{Mode: 2}}
			case 3:
				return []kit.Spec{{Mode: 3, Elig: true}}
			case 4:
				return []kit.Spec{{Mode: 4, Elig: true}}
			}
			return okSpec(true)
		})
	})
	add("duplicate-units-of-work", 4, defCexp, func(g *gen, c *c13Case) {
		d := func() []kit.Payload {
			return []kit.Payload{g.pl(1, 5, 1, g.lat(1, 9)), g.pl(2, 5, 1, g.lat(1, 9)), g.pl(1, 5, 1, g.lat(1, 9)), g.pl(1, 6, 1, g.lat(1, 9))}
		}
		c.Calls = []c13Call{{At: 0, Pls: d()}, {At: 1 * sec, Pls: d()}}
		allOK(g, c)
	})
	add("two-callers-overlap", 16, defCexp, func(g *gen, c *c13Case) {
		// A and B run at the same time on the same work ids at different blocks; C looks afterwards
		a := []kit.Payload{g.pl(1, 5, 1, 30*ms+111), g.pl(2, 9, 1, 0), g.pl(3, 5, 1, 0)}
		b := []kit.Payload{g.pl(1, 8, 2, 10*ms+222), g.pl(2, 4, 1, 0), g.pl(4, 5, 1, 0)}
		cc := []kit.Payload{g.pl(1, 5, 1, 5*ms+1), g.pl(1, 8, 2, 0), g.pl(2, 9, 1, 0), g.pl(2, 4, 1, 0), g.pl(3, 5, 1, 0), g.pl(4, 5, 1, 0)}
		c.Calls = []c13Call{{At: 0, Pls: a}, {At: 3 * ms, Pls: b}, {At: 1 * sec, Pls: cc}}
		allOK(g, c)
	})
	add("two-callers-many-batches", 4, defCexp, func(g *gen, c *c13Case) {
		c.Calls = []c13Call{{At: 0, Pls: g.fresh(1, 45, 5, 1)}, {At: 2 * ms, Pls: g.fresh(20, 45, 6, 1)}, {At: 3 * sec, Pls: append(g.fresh(1, 70, 5, 1), g.fresh(20, 45, 6, 1)...)}}
		g.scriptAll(c, func(p kit.Payload) []kit.Spec {
			if p.Tag == 17 || p.Tag == 60 {
				return []kit.Spec{{Mode: 1}}
			}
			return okSpec(p.Tag%3 != 0)
		})
	})
	return cs
}

func c13Random(r *Rng) c13Case {
	g := &gen{r: r}
	c := c13Case{Family: "random"}
	c.Workers = []int{1, 2, 3, 4, 16, 128}[r.Intn(6)]
	c.Cexp = []int64{defCexp, defCexp, 2 * sec, 0}[r.Intn(4)]
	pool := []int{2, 4, 8, 30}[r.Intn(4)]
	ncalls := 1 + r.Intn(5)
	at := int64(0)
	for k := 0; k < ncalls; k++ {
		n := []int{0, 1, 2, 5, 9, 10, 11, 12, 20, 21, 35, 35}[r.Intn(12)]
		if r.Chance(1, 40) {
			n = 120
		}
		var ps []kit.Payload
		for i := 0; i < n; i++ {
			w := 1 + r.Intn(pool)
			if w%2 == 0 { // even work ids are logs (log-trigger upkeeps), odd ones conditional upkeeps
				ps = append(ps, g.lpl(w, 1+r.Intn(3), 1+r.Intn(2), g.lat(1, 50)))
			} else {
				ps = append(ps, g.pl(w, 1+r.Intn(3), 1+r.Intn(2), g.lat(1, 50)))
			}
		}
		c.Calls = append(c.Calls, c13Call{ID: k, At: at, Pls: ps})
		switch r.Intn(6) {
		case 0, 1: // overlaps with the next caller
			at += int64(1+r.Intn(20)) * ms
		case 2:
			at += int64(1+r.Intn(4)) * sec
		case 3:
			at += 2*sec + int64(r.Intn(100))*ms
		default:
			at += 10 * sec
		}
	}
	failp := []int{0, 0, 30, 8}[r.Intn(4)]
	g.scriptAll(&c, func(p kit.Payload) []kit.Spec {
		sp := kit.Spec{Elig: r.Bool()}
		if r.Chance(1, 5) {
			sp.State = 1 + r.Intn(4)
			sp.Retry = r.Bool()
			if r.Bool() {
				sp.Ivl = int64(1+r.Intn(9)) * sec
			}
		}
		if failp > 0 && r.Chance(1, failp) {
			sp.Mode = 1
		} else if r.Chance(1, 60) {
			sp.Mode = 2 + r.Intn(3)
		}
		return []kit.Spec{sp}
	})
	return c
}

// ---------------------------------------------------------------- Gallina

func c13Term(c c13Case) string {
	s := "("
	for i, cl := range c.Calls {
		s += fmt.Sprintf("let p%d := %s in ", i, kit.CoqPls(cl.Pls))
	}
	idx := map[int]int{}
	for i, cl := range c.Calls {
		idx[cl.ID] = i
	}
	evs := CoqList(c.Obs.Events, func(e kit.Event) string {
		if e.Kind == "call" {
			return fmt.Sprintf("EvCall %s %s p%d", CoqNat(e.Call), CoqZ(e.T), idx[e.Call])
		}
		return fmt.Sprintf("EvDone %s %d %s", CoqNat(e.Call), e.First, CoqZ(e.T))
	})
	calls := CoqList(c.Obs.Calls, func(o c13CallObs) string {
		return fmt.Sprintf("mkCall %s %s p%d %s %s %s", CoqNat(o.ID), CoqZ(o.T), idx[o.ID], CoqList(o.Invs, kit.CoqInv), CoqBool(o.Err), kit.CoqRess(o.Res))
	})
	s += fmt.Sprintf("mkRnCase %s %s %s %s)", CoqZ(c.Cexp), kit.CoqScript(c.Script), evs, calls)
	return s
}

func TestC13(t *testing.T) {
	dir := OutDir(t, "C13")
	var cases []c13Case
	if rf := ReplayFile(); rf != "" {
		cases = LoadReplayCases[c13Case](t, rf)
		for i := range cases {
			cases[i].Obs = nil
		}
	} else {
		cases = append(cases, LoadCorpus[c13Case](t, "C13")...)
		r := NewRng(EnvSeed())
		cases = append(cases, c13Boundary(r)...)
		n := EnvInt("VERIF_N", 120)
		for i := 0; i < n; i++ {
			cases = append(cases, c13Random(r))
		}
	}
	cf := NewCaseFile("C13", "Base.Util", "Model.Runner", "Gen.Generated")
	cf.Prelude = "Open Scope N_scope.\nDefinition wl : nat := Z.to_nat WorkerBatchLimit."
	fam := map[string]int{}
	sizes := map[string]int{}
	for i := range cases {
		runC13(t, &cases[i])
		cf.Add(c13Term(cases[i]))
		fam[cases[i].Family]++
		tot := 0
		for _, cl := range cases[i].Calls {
			tot += len(cl.Pls)
		}
		sizes[fmt.Sprintf("calls=%d", len(cases[i].Calls))]++
		switch {
		case tot <= 10:
			sizes["payloads<=10"]++
		case tot <= 100:
			sizes["payloads<=100"]++
		default:
			sizes["payloads>100"]++
		}
	}
	cf.Write(t, dir, "cases.v", "rn_case", [][2]string{
		{"mism", "find_idx (rn_mism wl) cases"},
		{"bad", "find_idx (rn_bad wl) cases"},
		{"nontriv", "find_idx rn_nontriv cases"},
		{"cov_hits_invocations_failed_errors", "cov4_sum (map rn_cov cases)"},
	})
	WriteJSON(t, filepath.Join(dir, "cases.json"), map[string]any{
		"property": "C13", "seed": EnvSeed(), "cases": cases, "families": fam, "sizes": sizes,
	})
}
