package main

// Constants the C12/C13 theorems mention (runner batching, retry queue timing, retry flow).
func init() {
	extra = append(extra,
		spec{"WorkerBatchLimit", "pkg/v3/runner/runner.go", "WorkerBatchLimit"},
		spec{"RetryDefaultExpiration", "pkg/v3/stores/retry_queue.go", "DefaultExpiration"},
		spec{"RetryDefaultInterval", "pkg/v3/stores/retry_queue.go", "RetryInterval"},
		spec{"RetryBatchSize", "pkg/v3/flows/retry.go", "RetryBatchSize"},
		spec{"RetryCheckInterval", "pkg/v3/flows/retry.go", "RetryCheckInterval"},
	)
}
