module verifgen

go 1.22
