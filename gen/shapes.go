package main

import (
	"fmt"
	"go/ast"
	"go/token"
	"path/filepath"
	"strconv"
)

// shapeFacts extracts syntactic facts the theorems depend on:
//   QuorumPerformablesAdd / QuorumBlocksAdd: k in `newX(plugin.F+k, ...)` inside Outcome
//   WorkerInputCap: k in `make(chan GroupedItem[T], k)` for WorkerGroup.input (0 if unbuffered)
func shapeFacts(repo string) (map[string]int64, error) {
	res := map[string]int64{}
	_, f, _, err := loadFile(filepath.Join(repo, "pkg/v3/plugin/ocr3.go"))
	if err != nil {
		return res, err
	}
	want := map[string]string{"newPerformables": "QuorumPerformablesAdd", "newCoordinatedBlockProposals": "QuorumBlocksAdd"}
	ast.Inspect(f, func(n ast.Node) bool {
		c, ok := n.(*ast.CallExpr)
		if !ok {
			return true
		}
		id, ok := c.Fun.(*ast.Ident)
		if !ok {
			return true
		}
		name, ok := want[id.Name]
		if !ok || len(c.Args) == 0 {
			return true
		}
		// expect plugin.F + k
		if be, ok := c.Args[0].(*ast.BinaryExpr); ok && be.Op == token.ADD {
			if sel, ok := be.X.(*ast.SelectorExpr); ok && sel.Sel.Name == "F" {
				if lit, ok := be.Y.(*ast.BasicLit); ok {
					k, _ := strconv.ParseInt(lit.Value, 10, 64)
					res[name] = k
					return true
				}
			}
		}
		if sel, ok := c.Args[0].(*ast.SelectorExpr); ok && sel.Sel.Name == "F" {
			res[name] = 0
			return true
		}
		res[name] = -1 // unrecognised shape
		return true
	})
	for _, v := range want {
		if _, ok := res[v]; !ok {
			return res, fmt.Errorf("ocr3.go: call for %s not found", v)
		}
	}
	return res, nil
}
