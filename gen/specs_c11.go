package main

// constants read for C11 (proposal metadata store, proposal queue, finalisation flows)
func init() {
	extra = append(extra,
		spec{"LogRecoveryExpiry", "pkg/v3/stores/metadata_store.go", "logRecoveryExpiry"},
		spec{"ConditionalExpiry", "pkg/v3/stores/metadata_store.go", "conditionalExpiry"},
		spec{"ProposalQueueExpiry", "pkg/v3/stores/proposal_queue.go", "proposalExpiry"},
		spec{"FinalRecoveryBatchSize", "pkg/v3/flows/recovery.go", "FinalRecoveryBatchSize"},
		spec{"FinalConditionalBatchSize", "pkg/v3/flows/conditional.go", "FinalConditionalBatchSize"},
	)
}
