package main

// Observation (hook order), report-level any-of loops, metadata store views, util.Cache, simulator key order.

func init() {
	viewSpec := func(name, fn, m, exp string) trSpec {
		return trSpec{
			Name: name, Props: []string{"C11", "C08", "C03"},
			File: "pkg/v3/stores/metadata_store.go", Func: "metadataStore." + fn, Loop: 1,
			Atoms:   []atom{{"record.expired(" + exp + ")", "expired", "bool"}},
			Binders: map[string]map[string]string{"record := m." + m + ".Get(key)": {}},
			Actions: map[string]int{"m." + m + ".Delete(key)": 1, "res = append(res, record.proposal)": 2},
		}
	}
	anyOf := func(name, fn, call, flag, set string) trSpec {
		return trSpec{
			Name: name, Props: []string{"C06", "C09"},
			File: "pkg/v3/plugin/ocr3.go", Func: "ocr3Plugin." + fn, Loop: 1,
			Atoms:   []atom{{flag, "verdict", "bool"}},
			Actions: map[string]int{call: 1, set: 2},
			Ignore:  []string{`^plugin\.Logger\.`},
		}
	}
	trSpecs = append(trSpecs, []trSpec{
		{
			Name: "observation", Props: []string{"C08", "C03", "C11", "C10"},
			File: "pkg/v3/plugin/ocr3.go", Func: "ocr3Plugin.Observation",
			Atoms: []atom{
				{"outctx.PreviousOutcome != nil", "prev_nonnil", "bool"}, {"len(outctx.PreviousOutcome)", "prev_len", "Z"},
				{"dec.err != nil", "dec_err", "bool"}, {"log.err != nil", "log_err", "bool"},
				{"cond.err != nil", "cond_err", "bool"}, {"staging.err != nil", "staging_err", "bool"},
			},
			Binders: map[string]map[string]string{
				"automationOutcome, err := ocr2keepersv3.DecodeAutomationOutcome(outctx.PreviousOutcome, plugin.UpkeepTypeGetter, plugin.WorkIDGenerator)": {"err != nil": "dec.err != nil"},
				"observation := ocr2keepersv3.AutomationObservation{}": {},
				"randSrcSeq := outctx.SeqNr / 10":                      {},
				"err := plugin.AddLogProposalsHook.RunHook(&observation, ocr2keepersv3.ObservationLogRecoveryProposalsLimit, getRandomKeySource(plugin.ConfigDigest, outctx.SeqNr))":            {"err != nil": "log.err != nil"},
				"err := plugin.AddConditionalProposalsHook.RunHook(&observation, ocr2keepersv3.ObservationConditionalsProposalsLimit, getRandomKeySource(plugin.ConfigDigest, outctx.SeqNr))": {"err != nil": "cond.err != nil"},
				"err := plugin.AddFromStagingHook.RunHook(&observation, ocr2keepersv3.ObservationPerformablesLimit, getRandomKeySource(plugin.ConfigDigest, randSrcSeq))":                     {"err != nil": "staging.err != nil"},
			},
			Actions: map[string]int{
				"plugin.RemoveFromStagingHook.RunHook(automationOutcome)":  1,
				"plugin.RemoveFromMetadataHook.RunHook(automationOutcome)": 2,
				"plugin.AddToProposalQHook.RunHook(automationOutcome)":     3,
				"plugin.AddBlockHistoryHook.RunHook(&observation, ocr2keepersv3.ObservationBlockHistoryLimit)": 4,
				"err := plugin.AddLogProposalsHook.RunHook(&observation, ocr2keepersv3.ObservationLogRecoveryProposalsLimit, getRandomKeySource(plugin.ConfigDigest, outctx.SeqNr))":            5,
				"err := plugin.AddConditionalProposalsHook.RunHook(&observation, ocr2keepersv3.ObservationConditionalsProposalsLimit, getRandomKeySource(plugin.ConfigDigest, outctx.SeqNr))": 6,
				"err := plugin.AddFromStagingHook.RunHook(&observation, ocr2keepersv3.ObservationPerformablesLimit, getRandomKeySource(plugin.ConfigDigest, randSrcSeq))":                     7,
			},
			Rets:   map[string]int{"nil, err": 1, "observation.Encode()": 2},
			Ignore: []string{`^plugin\.Logger\.`},
		},
		anyOf("accept_report_body", "ShouldAcceptAttestedReport", "shouldAccept := plugin.Coordinator.Accept(upkeep)", "shouldAccept", "accept = true"),
		anyOf("transmit_report_body", "ShouldTransmitAcceptedReport", "shouldTransmit := plugin.Coordinator.ShouldTransmit(upkeep)", "shouldTransmit", "transmit = true"),
		viewSpec("ms_view_log_body", "viewLogRecoveryProposal", "logRecoveryProposals", "logRecoveryExpiry"),
		viewSpec("ms_view_cond_body", "viewConditionalProposal", "conditionalProposals", "conditionalExpiry"),
		{
			Name: "ms_expired", Props: []string{"C11"},
			File: "pkg/v3/stores/metadata_store.go", Func: "expiringRecord.expired",
			Atoms: []atom{{"time.Since(r.createdAt)", "age", "Z"}, {"expr", "window", "Z"}},
		},
		{
			Name: "ms_omap_add", Props: []string{"C11"},
			File: "pkg/v3/stores/metadata_store.go", Func: "orderedMap.Add",
			Atoms:   []atom{{"ok", "known", "bool"}},
			Binders: map[string]map[string]string{"_, ok := m.values[key]": {}},
			Actions: map[string]int{"m.values[key] = value": 1, "m.keys = append(m.keys, key)": 2},
		},
		{
			Name: "cache_get", Props: []string{"C06", "C07", "C13"},
			File: "pkg/util/cache.go", Func: "Cache.Get",
			Atoms: []atom{{"found", "found", "bool"}, {"value.Expires", "expires", "Z"}, {"time.Now().UnixNano()", "now", "Z"}},
			Binders: map[string]map[string]string{"value, found := c.data[key]": {}},
			Rets:    map[string]int{"getZero[T](), false": 0, "value.Item, true": 1},
			Ignore:  []string{`^c\.mu\.R(Lock|Unlock)\(\)$`},
		},
		{
			Name: "cache_gc_scan_body", Props: []string{"C06", "C07"},
			File: "pkg/util/cache.go", Func: "Cache.ClearExpired", Loop: 1,
			Atoms:   []atom{{"item.Expires", "expires", "Z"}, {"now", "now", "Z"}},
			Actions: map[string]int{"toclear = append(toclear, k)": 1},
		},
		{
			Name: "cache_gc_sweep_body", Props: []string{"C06", "C07"},
			File: "pkg/util/cache.go", Func: "Cache.ClearExpired", Loop: 2,
			Atoms:   []atom{{"ok", "found", "bool"}, {"item.Expires", "expires", "Z"}, {"now", "now", "Z"}},
			Binders: map[string]map[string]string{"item, ok := c.data[k]": {}},
			Actions: map[string]int{"delete(c.data, k)": 1},
		},
		{
			Name: "sim_keyLess", Props: []string{"C19"},
			File: "tools/simulator/util/sort.go", Func: "keyLess",
			Atoms: []atom{{"len(a)", "len_a", "Z"}, {"len(b)", "len_b", "Z"}, {"a < b", "str_lt", "bool"}},
		},
	}...)
}
