package main

// pkg/v3/observation.go, outcome.go: the validators behind DecodeAutomationObservation / DecodeAutomationOutcome
// (C15, C01, C03).  Return values are numbered like verr_code in Model/Validate.v; 100 = an error returned by
// a callee is passed on; 0 = nil.

func init() {
	passOn := map[string]int{"err": 100, `fmt.Errorf("invalid trigger: %w", err)`: 100, "nil": 0}
	with := func(m map[string]int) map[string]int {
		r := map[string]int{}
		for k, v := range passOn {
			r[k] = v
		}
		for k, v := range m {
			r[k] = v
		}
		return r
	}
	props := []string{"C15", "C01", "C03"}
	trSpecs = append(trSpecs, []trSpec{
		{
			Name: "val_ext", Props: props, File: "pkg/v3/observation.go", Func: "validateTriggerExtensionType",
			Atoms: []atom{
				{"ut", "ut", "Z"}, {"types.ConditionTrigger", "ConditionTrigger", "Z"}, {"types.LogTrigger", "LogTrigger", "Z"},
				{"t.LogTriggerExtension != nil", "has_ext", "bool"}, {"t.LogTriggerExtension == nil", "no_ext", "bool"},
			},
			Rets: with(map[string]int{
				`fmt.Errorf("log trigger extension cannot be present for condition upkeep")`: 6,
				`fmt.Errorf("log trigger extension cannot be empty for log upkeep")`:         7,
			}),
		},
		{
			Name: "val_result", Props: props, File: "pkg/v3/observation.go", Func: "validateCheckResult",
			Atoms: []atom{
				{"r.PipelineExecutionState", "state", "Z"}, {"r.Retryable", "retryable", "bool"},
				{"r.Eligible", "eligible", "bool"}, {"r.IneligibilityReason", "reason", "Z"},
				{"err != nil", "ext_bad", "bool"},
				{"generatedWorkID", "gen_wid", "Z"}, {"r.WorkID", "wid", "Z"},
				{"r.GasAllocated", "gas", "Z"},
				{"r.FastGasWei == nil", "fgw_nil", "bool"},
				{"r.FastGasWei.Cmp(big.NewInt(0))", "fgw_vs_zero", "Z"}, {"r.FastGasWei.Cmp(uint256Max)", "fgw_vs_max", "Z"},
				{"r.LinkNative == nil", "ln_nil", "bool"},
				{"r.LinkNative.Cmp(big.NewInt(0))", "ln_vs_zero", "Z"}, {"r.LinkNative.Cmp(uint256Max)", "ln_vs_max", "Z"},
			},
			Binders: map[string]map[string]string{
				"err := validateTriggerExtensionType(r.Trigger, utg(r.UpkeepID))": {},
				"generatedWorkID := wg(r.UpkeepID, r.Trigger)":                  {},
			},
			Rets: with(map[string]int{
				`fmt.Errorf("check result cannot have failed execution state")`: 4,
				`fmt.Errorf("check result cannot be ineligible")`:               5,
				`fmt.Errorf("incorrect workID within result")`:                  8,
				`fmt.Errorf("gas allocated cannot be zero")`:                    9,
				`fmt.Errorf("fast gas wei must be present")`:                    10,
				`fmt.Errorf("fast gas wei must be in uint256 range")`:           11,
				`fmt.Errorf("link native must be present")`:                     12,
				`fmt.Errorf("link native must be in uint256 range")`:            13,
			}),
		},
		{
			Name: "val_proposal", Props: props, File: "pkg/v3/observation.go", Func: "validateUpkeepProposal",
			Atoms: []atom{{"err != nil", "ext_bad", "bool"}, {"generatedWorkID", "gen_wid", "Z"}, {"p.WorkID", "wid", "Z"}},
			Binders: map[string]map[string]string{
				"ut := utg(p.UpkeepID)":                                 {},
				"err := validateTriggerExtensionType(p.Trigger, ut)": {},
				"generatedWorkID := wg(p.UpkeepID, p.Trigger)":        {},
			},
			Rets: with(map[string]int{`fmt.Errorf("incorrect workID within proposal")`: 8}),
		},
		{
			Name: "val_obs", Props: props, File: "pkg/v3/observation.go", Func: "validateAutomationObservation",
			Atoms: []atom{
				{"len(o.BlockHistory)", "n_hist", "Z"}, {"ObservationBlockHistoryLimit", "hist_limit", "Z"},
				{"len(o.Performable)", "n_perf", "Z"}, {"ObservationPerformablesLimit", "perf_limit", "Z"},
				{"len(o.UpkeepProposals)", "n_props", "Z"},
				{"ObservationConditionalsProposalsLimit", "cond_limit", "Z"}, {"ObservationLogRecoveryProposalsLimit", "log_limit", "Z"},
				{"conditionalProposalCount", "n_cond", "Z"}, {"logProposalCount", "n_log", "Z"},
			},
			Binders: map[string]map[string]string{
				"seen := make(map[uint64]bool)": {}, "seenPerformables := make(map[string]bool)": {},
				"conditionalProposalCount := 0": {}, "logProposalCount := 0": {}, "seenProposals := make(map[string]bool)": {},
			},
			Actions: map[string]int{
				"for _, block := range o.BlockHistory { }":       1,
				"for _, res := range o.Performable { }":          2,
				"for _, proposal := range o.UpkeepProposals { }": 3,
			},
			Rets: with(map[string]int{
				`fmt.Errorf("block history length cannot be greater than %d", ObservationBlockHistoryLimit)`:                                                          1,
				`fmt.Errorf("performable length cannot be greater than %d", ObservationPerformablesLimit)`:                                                            3,
				`fmt.Errorf("upkeep proposals length cannot be greater than %d", ObservationConditionalsProposalsLimit+ObservationLogRecoveryProposalsLimit)`: 15,
				`fmt.Errorf("conditional upkeep proposals length cannot be greater than %d", ObservationConditionalsProposalsLimit)`:                            17,
				`fmt.Errorf("log upkeep proposals length cannot be greater than %d", ObservationLogRecoveryProposalsLimit)`:                                     18,
			}),
		},
		{
			Name: "val_obs_hist_body", Props: props, File: "pkg/v3/observation.go", Func: "validateAutomationObservation", Loop: 1,
			Atoms:   []atom{{"seen[uint64(block.Number)]", "seen", "bool"}},
			Actions: map[string]int{"seen[uint64(block.Number)] = true": 1},
			Rets:    with(map[string]int{`fmt.Errorf("block history cannot have duplicate block numbers")`: 2}),
		},
		{
			Name: "val_obs_perf_body", Props: props, File: "pkg/v3/observation.go", Func: "validateAutomationObservation", Loop: 2,
			Atoms:   []atom{{"err != nil", "bad", "bool"}, {"seenPerformables[res.WorkID]", "seen", "bool"}},
			Binders: map[string]map[string]string{"err := validateCheckResult(res, utg, wg)": {}},
			Actions: map[string]int{"seenPerformables[res.WorkID] = true": 1},
			Rets:    with(map[string]int{`fmt.Errorf("performable cannot have duplicate workIDs")`: 14}),
		},
		{
			Name: "val_obs_prop_body", Props: props, File: "pkg/v3/observation.go", Func: "validateAutomationObservation", Loop: 3,
			Atoms: []atom{
				{"err != nil", "bad", "bool"}, {"seenProposals[proposal.WorkID]", "seen", "bool"},
				{"utg(proposal.UpkeepID)", "ut", "Z"}, {"types.ConditionTrigger", "ConditionTrigger", "Z"}, {"types.LogTrigger", "LogTrigger", "Z"},
			},
			Binders: map[string]map[string]string{"err := validateUpkeepProposal(proposal, utg, wg)": {}},
			Actions: map[string]int{"seenProposals[proposal.WorkID] = true": 1, "conditionalProposalCount++": 2, "logProposalCount++": 3},
			Rets:    with(map[string]int{`fmt.Errorf("proposals cannot have duplicate workIDs")`: 16}),
		},
		{
			Name: "val_outcome", Props: props, File: "pkg/v3/outcome.go", Func: "validateAutomationOutcome",
			Atoms: []atom{
				{"len(o.AgreedPerformables)", "n_agreed", "Z"}, {"OutcomeAgreedPerformablesLimit", "agreed_limit", "Z"},
				{"len(o.SurfacedProposals)", "n_rounds", "Z"}, {"OutcomeSurfacedProposalsRoundHistoryLimit", "rounds_limit", "Z"},
			},
			Binders: map[string]map[string]string{"seenPerformables := make(map[string]bool)": {}, "seenProposals := make(map[string]bool)": {}},
			Actions: map[string]int{
				"for _, res := range o.AgreedPerformables { }":  1,
				"for _, round := range o.SurfacedProposals { }": 2,
			},
			Rets: with(map[string]int{
				`fmt.Errorf("outcome performable length cannot be greater than %d", OutcomeAgreedPerformablesLimit)`:                             3,
				`fmt.Errorf("number of rounds for surfaced proposals cannot be greater than %d", OutcomeSurfacedProposalsRoundHistoryLimit)`: 19,
			}),
		},
		{
			Name: "val_outcome_perf_body", Props: props, File: "pkg/v3/outcome.go", Func: "validateAutomationOutcome", Loop: 1,
			Atoms:   []atom{{"err != nil", "bad", "bool"}, {"seenPerformables[res.WorkID]", "seen", "bool"}},
			Binders: map[string]map[string]string{"err := validateCheckResult(res, utg, wg)": {}},
			Actions: map[string]int{"seenPerformables[res.WorkID] = true": 1},
			Rets:    with(map[string]int{`fmt.Errorf("agreed performable cannot have duplicate workIDs")`: 14}),
		},
		{
			Name: "val_outcome_round_body", Props: props, File: "pkg/v3/outcome.go", Func: "validateAutomationOutcome", Loop: 2,
			Atoms:   []atom{{"len(round)", "n_round", "Z"}, {"OutcomeSurfacedProposalsLimit", "round_limit", "Z"}},
			Actions: map[string]int{"for _, proposal := range round { }": 1},
			Rets:    with(map[string]int{`fmt.Errorf("number of surfaced proposals in a round cannot be greater than %d", OutcomeSurfacedProposalsLimit)`: 20}),
		},
		{
			Name: "val_outcome_prop_body", Props: props, File: "pkg/v3/outcome.go", Func: "validateAutomationOutcome", Loop: 3,
			Atoms:   []atom{{"err != nil", "bad", "bool"}, {"seenProposals[proposal.WorkID]", "seen", "bool"}},
			Binders: map[string]map[string]string{"err := validateUpkeepProposal(proposal, utg, wg)": {}},
			Actions: map[string]int{"seenProposals[proposal.WorkID] = true": 1},
			Rets:    with(map[string]int{`fmt.Errorf("proposals cannot have duplicate workIDs")`: 16}),
		},
	}...)
}
