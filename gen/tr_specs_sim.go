package main

// Simulated chain (C19): sorted key map, block history fan-out, transmit de-duplication, report tracker look-back.

func init() {
	trSpecs = append(trSpecs, []trSpec{
		{
			Name: "skm_set", Props: []string{"C19"},
			File: "tools/simulator/util/sort.go", Func: "SortedKeyMap.Set",
			Atoms:   []atom{{"ok", "known", "bool"}},
			Binders: map[string]map[string]string{"_, ok := m.values[key]": {}},
			Actions: map[string]int{
				"m.keys = append(m.keys, key)": 1,
				"sort.Slice(m.keys, func(i, j int) bool { return keyLess(m.keys[i], m.keys[j]) })": 2,
				"m.values[key] = value": 3,
			},
			Ignore: []string{`^(defer )?m\.mu\.(R)?(L|Unl)ock\(\)$`},
		},
		{
			Name: "skm_get", Props: []string{"C19"},
			File: "tools/simulator/util/sort.go", Func: "SortedKeyMap.Get",
			Atoms:   []atom{{"ok", "known", "bool"}},
			Binders: map[string]map[string]string{"v, ok := m.values[key]": {}},
			Rets:    map[string]int{"v, ok": 1, "getZero[T](), false": 0},
			Ignore:  []string{`^(defer )?m\.mu\.(R)?(L|Unl)ock\(\)$`},
		},
		{
			Name: "skm_keys", Props: []string{"C19"},
			File: "tools/simulator/util/sort.go", Func: "SortedKeyMap.Keys",
			Atoms:   []atom{{"count", "count", "Z"}, {"keysLen", "n_keys", "Z"}},
			Binders: map[string]map[string]string{"keysLen := len(m.keys)": {}, "keys := make([]string, count)": {}},
			Actions: map[string]int{"count = keysLen": 1, "for i := 1; i <= count; i++ { }": 2},
			Rets:    map[string]int{"keys": 1},
			Ignore:  []string{`^(defer )?m\.mu\.(R)?(L|Unl)ock\(\)$`},
		},
		{
			Name: "skm_keys_body", Props: []string{"C19"},
			File: "tools/simulator/util/sort.go", Func: "SortedKeyMap.Keys", Loop: 1,
			Actions: map[string]int{"keys[i-1] = m.keys[keysLen-i]": 1},
		},
		{
			Name: "sim_transmit", Props: []string{"C19", "C20"},
			File: "tools/simulator/simulate/loader/ocr3transmit.go", Func: "OCR3TransmitLoader.Transmit",
			Atoms: []atom{{"key.err != nil", "key_err", "bool"}, {"hash.err != nil", "hash_err", "bool"}, {"ok", "sent_before", "bool"}},
			Binders: map[string]map[string]string{
				"report := chain.TransmitEvent{ Report: reportBytes, Round: round, }": {},
				"var idHashBts bytes.Buffer": {}, "var bts bytes.Buffer": {},
				"err := gob.NewEncoder(&idHashBts).Encode(report)": {"err != nil": "key.err != nil"},
				"err := gob.NewEncoder(&bts).Encode(report)":       {"err != nil": "hash.err != nil"},
				"_, ok := tl.transmitted[transmitKey]":             {},
			},
			Actions: map[string]int{
				"transmitKey := hash(idHashBts.Bytes())": 1, "report.SendingAddress = from": 2,
				"report.Hash = rawHash(bts.Bytes())": 3,
				"tl.queue = append(tl.queue, &report)": 4, "tl.transmitted[transmitKey] = &report": 5,
			},
			Rets:   map[string]int{"err": 1, `fmt.Errorf("report already transmitted")`: 2, "nil": 0},
			Ignore: []string{`^(defer )?tl\.mu\.(R)?(L|Unl)ock\(\)$`, `^tl\.logger\.`},
		},
		{
			Name: "sim_load", Props: []string{"C19", "C20"},
			File: "tools/simulator/simulate/loader/ocr3transmit.go", Func: "OCR3TransmitLoader.Load",
			Atoms: []atom{{"len(tl.queue)", "n_queue", "Z"}, {"tl.progress != nil", "has_progress", "bool"}},
			Binders: map[string]map[string]string{
				"transmits := make([]chain.TransmitEvent, 0, len(tl.queue))": {}, "var performs int64": {},
			},
			Actions: map[string]int{
				"for i := range tl.queue { }": 1, "tl.queue = []*chain.TransmitEvent{}": 2,
				"block.Transactions = append(block.Transactions, chain.PerformUpkeepTransaction{ Transmits: transmits, })": 3,
				"tl.progress.Increment(tl.namespace, performs)": 4,
			},
			Ignore: []string{`^(defer )?tl\.mu\.(R)?(L|Unl)ock\(\)$`, `^tl\.logger\.`},
		},
		{
			Name: "sim_load_body", Props: []string{"C19", "C20"},
			File: "tools/simulator/simulate/loader/ocr3transmit.go", Func: "OCR3TransmitLoader.Load", Loop: 1,
			Actions: map[string]int{
				"tl.queue[i].BlockNumber = block.Number": 1, "tl.queue[i].BlockHash = block.Hash": 2,
				"performs += countPerformEvents(tl.queue[i].Report)": 3, "transmits = append(transmits, *tl.queue[i])": 4,
			},
		},
		{
			Name: "sim_history_broadcast", Props: []string{"C19"},
			File: "tools/simulator/simulate/chain/history.go", Func: "BlockHistoryTracker.broadcast",
			Binders: map[string]map[string]string{
				"history := []ocr2keepers.BlockKey{}": {}, "keys := ht.history.Keys(defaultHistoryDepth)": {},
			},
			Actions: map[string]int{"keys := ht.history.Keys(defaultHistoryDepth)": 1, "for _, key := range keys { }": 2, "for _, chOpen := range ht.channels { }": 3},
			Ignore:  []string{`^(defer )?ht\.mu\.(R)?(L|Unl)ock\(\)$`},
		},
		{
			Name: "sim_history_broadcast_keys", Props: []string{"C19"},
			File: "tools/simulator/simulate/chain/history.go", Func: "BlockHistoryTracker.broadcast", Loop: 1,
			Binders: map[string]map[string]string{"block, _ := ht.history.Get(key)": {}},
			Actions: map[string]int{
				"block, _ := ht.history.Get(key)": 1,
				"history = append(history, ocr2keepers.BlockKey{ Number: ocr2keepers.BlockNumber(block.Number.Uint64()), Hash: block.Hash, })": 2,
			},
		},
		{
			Name: "sim_history_broadcast_send", Props: []string{"C19"},
			File: "tools/simulator/simulate/chain/history.go", Func: "BlockHistoryTracker.broadcast", Loop: 2,
			Actions: map[string]int{"chOpen <- history": 1},
		},
		{
			Name: "sim_latest_events", Props: []string{"C19"},
			File: "tools/simulator/simulate/ocr/report.go", Func: "ReportTracker.GetLatestEvents",
			Atoms: []atom{{"rt.latest == nil", "no_block", "bool"}},
			Binders: map[string]map[string]string{
				"events := make([]ocr2keepers.TransmitEvent, 0)": {}, "blockKeys := rt.blockEvents.Keys(ReportTrackerBlockRange)": {},
			},
			Actions: map[string]int{"blockKeys := rt.blockEvents.Keys(ReportTrackerBlockRange)": 1, "for _, blockKey := range blockKeys { }": 2},
			Rets:    map[string]int{"nil, nil": 0, "events, nil": 1},
			Ignore:  []string{`^(defer )?rt\.mu\.(R)?(L|Unl)ock\(\)$`, `^rt\.logger\.`},
		},
		{
			Name: "sim_latest_events_event", Props: []string{"C19"},
			File: "tools/simulator/simulate/ocr/report.go", Func: "ReportTracker.GetLatestEvents", Loop: 2,
			Atoms:   []atom{{"err != nil", "decode_err", "bool"}},
			Binders: map[string]map[string]string{"transmits, err := createPluginTransmitEvents(event, *rt.latest)": {}},
			Actions: map[string]int{"transmits, err := createPluginTransmitEvents(event, *rt.latest)": 1, "events = append(events, transmits...)": 2},
			Ignore:  []string{`^rt\.logger\.`},
		},
		{
			Name: "sim_plugin_events", Props: []string{"C19"},
			File: "tools/simulator/simulate/ocr/report.go", Func: "createPluginTransmitEvents",
			Atoms: []atom{{"err != nil", "decode_err", "bool"}},
			Binders: map[string]map[string]string{
				"var results []ocr2keepers.CheckResult": {}, "results, err := util.DecodeCheckResultsFromReportBytes(chainEvent.Report)": {},
				"var ( events []ocr2keepers.TransmitEvent )": {},
			},
			Actions: map[string]int{"for _, result := range results { }": 1},
			Rets:    map[string]int{`nil, fmt.Errorf("failed to unmarshal transmitted report: %w", err)`: 0, "events, nil": 1},
		},
		{
			Name: "sim_plugin_events_body", Props: []string{"C19"},
			File: "tools/simulator/simulate/ocr/report.go", Func: "createPluginTransmitEvents", Loop: 1,
			Binders: map[string]map[string]string{},
			Actions: map[string]int{
				"event := ocr2keepers.TransmitEvent{ Type: ocr2keepers.PerformEvent, TransmitBlock: ocr2keepers.BlockNumber(chainEvent.BlockNumber.Uint64()), Confirmations: new(big.Int).Sub(latest.Number, chainEvent.BlockNumber).Int64(), TransactionHash: chainEvent.Hash, UpkeepID: result.UpkeepID, WorkID: result.WorkID, CheckBlock: result.Trigger.BlockNumber, }": 1,
				"events = append(events, event)": 2,
			},
		},
	}...)
}

func init() {
	bbIgnore := []string{`^(defer )?bb\.mu\.(R)?(L|Unl)ock\(\)$`, `^bb\.logger\.`, `^logger\.Println`}
	trSpecs = append(trSpecs, []trSpec{
		{
			Name: "sim_bb_run_body", Props: []string{"C19"},
			File: "tools/simulator/simulate/chain/broadcaster.go", Func: "BlockBroadcaster.run", Loop: 1,
			Atoms:   []atom{{"<-timer.C", "tick", "bool"}, {"bb.nextBlock.Cmp(bb.limit)", "cmp_limit", "Z"}},
			Actions: map[string]int{
				"bb.nextBlock = new(big.Int).Add(bb.nextBlock, big.NewInt(1))": 1, "bb.done <- struct{}{}": 2, "bb.broadcast()": 3,
				"timer.Reset(bb.cadenceWithJitter())": 4, "timer.Stop()": 5,
			},
			Ignore: bbIgnore,
		},
		{
			Name: "sim_bb_run", Props: []string{"C19"},
			File: "tools/simulator/simulate/chain/broadcaster.go", Func: "BlockBroadcaster.run",
			Binders: map[string]map[string]string{"timer := time.NewTimer(bb.cadenceWithJitter())": {}},
			Actions: map[string]int{"bb.broadcast()": 1, "for { }": 2},
			Ignore:  bbIgnore,
		},
		{
			Name: "sim_bb_broadcast", Props: []string{"C19"},
			File: "tools/simulator/simulate/chain/broadcaster.go", Func: "BlockBroadcaster.broadcast",
			Atoms: []atom{{"bb.progress != nil", "has_progress", "bool"}},
			Binders: map[string]map[string]string{
				"msg := Block{ Number: new(big.Int).Set(bb.nextBlock), }": {}, "var bts bytes.Buffer": {},
			},
			Actions: map[string]int{
				"for _, loader := range bb.loaders { }": 1, "msg.Hash = sha256.Sum256(bts.Bytes())": 2,
				"bb.progress.Increment(progressTelemetryNamespace, 1)": 3, "for sub, chSub := range bb.subscriptions { }": 4,
			},
			Ignore: bbIgnore,
		},
		{
			Name: "sim_bb_loaders_body", Props: []string{"C19", "C20"},
			File: "tools/simulator/simulate/chain/broadcaster.go", Func: "BlockBroadcaster.broadcast", Loop: 1,
			Actions: map[string]int{"loader(&msg)": 1},
		},
		{
			Name: "sim_bb_subs_body", Props: []string{"C19"},
			File: "tools/simulator/simulate/chain/broadcaster.go", Func: "BlockBroadcaster.broadcast", Loop: 2,
			Actions: map[string]int{"go func(subID int, ch chan Block, delay bool, logger *log.Logger) {...": 1},
		},
		{
			Name: "sim_bb_deliver", Props: []string{"C19"},
			File: "tools/simulator/simulate/chain/broadcaster.go", Func: "BlockBroadcaster.broadcast", Lit: 1,
			Atoms:   []atom{{"delay", "delayed", "bool"}, {"bb.maxDelay", "max_delay", "Z"}},
			Binders: map[string]map[string]string{"r := rand.Intn(bb.maxDelay)": {}},
			Actions: map[string]int{"<-time.After(time.Duration(int64(r)) * time.Millisecond)": 1, "ch <- msg": 2},
			Ignore:  []string{`^defer func\(\)`},
		},
		{
			Name: "sim_bb_unsubscribe", Props: []string{"C19"},
			File: "tools/simulator/simulate/chain/broadcaster.go", Func: "BlockBroadcaster.unsubscribe",
			Atoms:   []atom{{"ok", "known", "bool"}, {"closeChan", "close_chan", "bool"}},
			Binders: map[string]map[string]string{"sub, ok := bb.subscriptions[subscriptionId]": {}},
			Actions: map[string]int{"bb.activeSubs--": 1, "close(sub)": 2, "delete(bb.subscriptions, subscriptionId)": 3, "delete(bb.delays, subscriptionId)": 4},
			Ignore:  bbIgnore,
		},
	}...)
}

func init() {
	clIgnore := []string{`^(defer )?cl\.mu\.(R)?(L|Unl)ock\(\)$`, `^cl\.logger\.`}
	trSpecs = append(trSpecs, []trSpec{
		{
			Name: "sim_listener_run_body", Props: []string{"C19"},
			File: "tools/simulator/simulate/chain/listener.go", Func: "Listener.run", Loop: 1,
			Atoms:   []atom{{"block := <-chBlocks", "got_block", "bool"}},
			Actions: map[string]int{
				"cl.saveBlock(block)": 1,
				"cl.broadcastTransaction(BlockChannel, ChainEvent{ BlockNumber: block.Number, BlockHash: block.Hash, Event: block, })": 2,
				"for _, transaction := range block.Transactions { }": 3,
			},
			Ignore: clIgnore,
		},
		{
			Name: "sim_listener_tx_body", Props: []string{"C19"},
			File: "tools/simulator/simulate/chain/listener.go", Func: "Listener.run", Loop: 2,
			Atoms: []atom{
				{"type Log", "is_log", "bool"}, {"type OCR3ConfigTransaction", "is_config", "bool"},
				{"type PerformUpkeepTransaction", "is_perform", "bool"}, {"type UpkeepCreatedTransaction", "is_create", "bool"},
			},
			Binders: map[string]map[string]string{
				"var channelName EventChannel": {},
				"evt := ChainEvent{ BlockNumber: block.Number, BlockHash: block.Hash, Event: transaction, }": {},
			},
			Actions: map[string]int{
				"channelName = LogTriggerChannel": 1, "channelName = OCR3ConfigChannel": 2, "channelName = PerformUpkeepChannel": 3,
				"channelName = CreateUpkeepChannel": 4, "cl.broadcastTransaction(channelName, evt)": 5,
			},
			Ignore: clIgnore,
		},
		{
			Name: "sim_listener_broadcast", Props: []string{"C19"},
			File: "tools/simulator/simulate/chain/listener.go", Func: "Listener.broadcastTransaction",
			Atoms:   []atom{{"ok", "has_subs", "bool"}},
			Binders: map[string]map[string]string{"subs, ok := cl.subscriptions[channel]": {}},
			Actions: map[string]int{"for i := range subs { }": 1},
			Ignore:  clIgnore,
		},
		{
			Name: "sim_listener_broadcast_body", Props: []string{"C19"},
			File: "tools/simulator/simulate/chain/listener.go", Func: "Listener.broadcastTransaction", Loop: 1,
			Actions: map[string]int{"go func(chSub chan ChainEvent) { chSub <- event }(subs[i])": 1},
		},
		{
			Name: "sim_listener_subscribe_body", Props: []string{"C19"},
			File: "tools/simulator/simulate/chain/listener.go", Func: "Listener.Subscribe", Loop: 1,
			Atoms:   []atom{{"ok", "has_subs", "bool"}},
			Binders: map[string]map[string]string{"subs, ok := cl.subscriptions[channel]": {}},
			Actions: map[string]int{"subs = []chan ChainEvent{}": 1, "cl.subscriptions[channel] = append(subs, chNew)": 2},
		},
	}...)
}
