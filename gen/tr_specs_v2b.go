package main

// pkg/v2 (C16, C17), second batch: observations -> keys, observation, report-level accept / transmit, polling observer,
// BasicEncoder.After / GetMedian

func init() {
	trSpecs = append(trSpecs, []trSpec{
		{
			Name: "v2_obs2keys_body", Props: []string{"C16"},
			File: "pkg/v2/observation.go", Func: "ObservationsToUpkeepKeys", Loop: 1,
			Atoms: []atom{
				{"decode.err != nil", "undecodable", "bool"}, {"validate.err != nil", "invalid", "bool"},
				{"len(upkeepObservation.UpkeepIdentifiers)", "n_ids", "Z"}, {"len(ids)", "n_ids_copy", "Z"}, {"ObservationUpkeepsLimit", "ids_limit", "Z"},
			},
			Binders: map[string]map[string]string{
				"var upkeepObservation Observation":                   {},
				"err := decode(obs.Observation, &upkeepObservation)": {"err != nil": "decode.err != nil"},
				"err := upkeepObservation.Validate(v)":               {"err != nil": "validate.err != nil"},
				"ids := upkeepObservation.UpkeepIdentifiers[:]":      {},
			},
			Actions: map[string]int{
				"parseErrors++": 1,
				"allBlockKeys = append(allBlockKeys, upkeepObservation.BlockKey)": 2,
				"ids = ids[:ObservationUpkeepsLimit]":                             3,
				"upkeepIDs = append(upkeepIDs, ids)":                              4,
			},
			Ignore: []string{`^logger\.`},
		},
		{
			Name: "v2_obs2keys", Props: []string{"C16"},
			File: "pkg/v2/observation.go", Func: "ObservationsToUpkeepKeys",
			Atoms: []atom{{"parseErrors", "parse_errors", "Z"}, {"len(attr)", "n_obs", "Z"}, {"err != nil", "key_err", "bool"}},
			Binders: map[string]map[string]string{
				"var ( parseErrors int allBlockKeys []BlockKey )":          {},
				"upkeepIDs := make([][]UpkeepIdentifier, 0, len(attr))": {},
			},
			Actions: map[string]int{
				"for _, obs := range attr { }":                                                 1,
				"medianBlock := e.GetMedian(allBlockKeys)":                                     2,
				"upkeepKeys, err := createKeysWithMedianBlock(b, medianBlock, upkeepIDs)": 3,
			},
			Rets: map[string]int{
				`nil, fmt.Errorf("%w: cannot prepare sorted key list; observations not properly encoded", ErrTooManyErrors)`: 1,
				"nil, err": 2, "upkeepKeys, nil": 0,
			},
		},
		{
			Name: "v2_Observation", Props: []string{"C16", "C17"},
			File: "pkg/v2/ocr.go", Func: "ocrPlugin.Observation",
			Atoms: []atom{{"observe.err != nil", "observe_err", "bool"}, {"len(allIDs)", "n_ids", "Z"}, {"ObservationUpkeepsLimit", "ids_limit", "Z"}, {"encode.err != nil", "encode_err", "bool"}},
			Binders: map[string]map[string]string{
				"lCtx := newOcrLogContext(t)":             {},
				"allIDs := make([]UpkeepIdentifier, 0)": {},
				"block, ids, err := p.condObserver.Observe()":                      {"err != nil": "observe.err != nil"},
				"b, err := limitedLengthEncode(observation, MaxObservationLength)": {"err != nil": "encode.err != nil"},
			},
			Actions: map[string]int{
				"block, ids, err := p.condObserver.Observe()":                       1,
				"allIDs = append(allIDs, ids...)":                                   2,
				"allIDs = shuffleObservations(allIDs, getRandomKeySource(t))":       3,
				"allIDs = allIDs[:ObservationUpkeepsLimit]":                         4,
				"observation := Observation{ BlockKey: block, UpkeepIdentifiers: allIDs, }": 5,
				"b, err := limitedLengthEncode(observation, MaxObservationLength)":  6,
			},
			Rets: map[string]int{
				`nil, fmt.Errorf("%w: failed to sample upkeeps for observation: %s", err, lCtx)`: 1,
				`nil, fmt.Errorf("%w: failed to encode upkeep keys for observation: %s", err, lCtx)`: 2,
				"b, nil": 0,
			},
			Ignore: []string{`^p\.logger\.`},
		},
		{
			Name: "v2_accept_report", Props: []string{"C17", "C16"},
			File: "pkg/v2/ocr.go", Func: "ocrPlugin.ShouldAcceptFinalizedReport",
			Atoms: []atom{{"len(r)", "n_bytes", "Z"}, {"err != nil", "decode_err", "bool"}, {"len(keys)", "n_keys", "Z"}},
			Binders: map[string]map[string]string{"lCtx := newOcrLogContext(rt)": {}},
			Actions: map[string]int{"keys, err := p.encoder.KeysFromReport(r)": 1, "for _, key := range keys { }": 2},
			Rets: map[string]int{
				"false, nil": 0, "true, nil": 1,
				`false, fmt.Errorf("%w: failed to decode report: %s", err, lCtx)`: 2,
				`false, fmt.Errorf("no ids in report: %s", lCtx)`:                  3,
			},
			Ignore: []string{`^p\.logger\.`},
		},
		{
			Name: "v2_accept_report_body", Props: []string{"C17", "C16"},
			File: "pkg/v2/ocr.go", Func: "ocrPlugin.ShouldAcceptFinalizedReport", Loop: 1,
			Atoms:   []atom{{"err != nil", "accept_err", "bool"}},
			Actions: map[string]int{"err = p.coordinator.Accept(key)": 1},
			Rets:    map[string]int{`false, fmt.Errorf("%w: failed to accept key: %s", err, lCtx)`: 2},
			Ignore:  []string{`^p\.logger\.`},
		},
		{
			Name: "v2_transmit_report_body", Props: []string{"C17"},
			File: "pkg/v2/ocr.go", Func: "ocrPlugin.ShouldTransmitAcceptedReport", Loop: 1,
			Atoms:   []atom{{"transmitConfirmed", "confirmed", "bool"}},
			Binders: map[string]map[string]string{"transmitConfirmed := p.coordinator.IsTransmissionConfirmed(key)": {}},
			Rets:    map[string]int{"true, nil": 1},
			Ignore:  []string{`^p\.logger\.`},
		},
		{
			Name: "v2_Observe_body", Props: []string{"C16", "C17"},
			File: "pkg/v2/observer/polling/observer.go", Func: "PollingObserver.Observe", Loop: 1,
			Atoms: []atom{{"pending", "pending", "bool"}, {"err != nil", "pending_err", "bool"}},
			Binders: map[string]map[string]string{
				"key := o.encoder.MakeUpkeepKey(bl, id)":            {},
				"pending, err := o.coordinator.IsPending(key)": {},
			},
			Actions: map[string]int{"filteredIDs = append(filteredIDs, id)": 1},
			Ignore:  []string{`^o\.logger\.`},
		},
		{
			Name: "v2_After", Props: []string{"C17"},
			File: "pkg/v2/encoding/basic.go", Func: "BasicEncoder.After",
			Atoms: []atom{{"a.ok", "a_parses", "bool"}, {"b.ok", "b_parses", "bool"}, {"aInt.Cmp(bInt)", "cmp", "Z"}},
			Binders: map[string]map[string]string{
				"aInt, ok := new(big.Int).SetString(string(a), 10)": {"ok": "a.ok", "!ok": "!a.ok"},
				"bInt, ok := new(big.Int).SetString(string(b), 10)": {"ok": "b.ok", "!ok": "!b.ok"},
			},
			Rets: map[string]int{`false, fmt.Errorf("block key not parsable")`: 1},
		},
		{
			Name: "v2_GetMedian", Props: []string{"C16"},
			File: "pkg/v2/encoding/basic.go", Func: "BasicEncoder.GetMedian",
			Atoms: []atom{{"l", "n", "Z"}},
			Binders: map[string]map[string]string{
				"blockNumbers := make([]*big.Int, 0, len(values))": {},
				"var median *big.Int":                             {},
				"l := len(blockNumbers)":                          {},
			},
			Actions: map[string]int{
				"for _, val := range values { }": 1,
				"sort.Slice(blockNumbers, func(i, j int) bool { return blockNumbers[i].Cmp(blockNumbers[j]) < 0 })": 2, // numeric order
				"median = big.NewInt(0)":    3,
				"median = blockNumbers[l/2]": 4, // the upper median
			},
			Rets: map[string]int{"ocr2keepers.BlockKey(median.String())": 0},
		},
	}...)
}
