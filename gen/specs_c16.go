package main

// Constants of the OCR2 ("v2") plug-in that the C16 theorems mention (read from /repo's sources).
func init() {
	extra = append(extra,
		spec{"V2MaxObservationLength", "pkg/v2/factory.go", "MaxObservationLength"},
		spec{"V2ObservationUpkeepsLimit", "pkg/v2/ocr.go", "ObservationUpkeepsLimit"},
		spec{"V2ReportKeysLimit", "pkg/v2/ocr.go", "ReportKeysLimit"},
	)
}
