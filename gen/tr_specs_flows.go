package main

// pkg/v3/observer.go, flows tick values, proposal filterer (C12, C07, C11)

func init() {
	trSpecs = append(trSpecs, []trSpec{
		{
			Name: "observer_process", Props: []string{"C12", "C07"},
			File: "pkg/v3/observer.go", Func: "Observer.Process",
			Atoms: []atom{{"tick.err != nil", "tick_err", "bool"}, {"run.err != nil", "run_err", "bool"}, {"post.err != nil", "post_err", "bool"}},
			Binders: map[string]map[string]string{
				"pCtx, cancel := context.WithTimeout(ctx, o.processTimeLimit)": {},
				"value, err := tick.Value(pCtx)":                             {"err != nil": "tick.err != nil"},
				"results, err := o.processFunc(pCtx, value...)":              {"err != nil": "run.err != nil"},
				"err := o.Postprocessor.PostProcess(pCtx, results, value)":   {"err != nil": "post.err != nil"},
			},
			Actions: map[string]int{
				"value, err := tick.Value(pCtx)":                           1,
				"for _, preprocessor := range o.Preprocessors { }":         2, // every pre-processor, each on what the previous one let through
				"results, err := o.processFunc(pCtx, value...)":            3,
				"err := o.Postprocessor.PostProcess(pCtx, results, value)": 4,
			},
			Rets:   map[string]int{"err": 1, "nil": 0},
			Ignore: []string{`^o\.lggr\.`, `^defer cancel\(\)$`},
		},
		{
			Name: "observer_preprocess_body", Props: []string{"C07", "C12"},
			File: "pkg/v3/observer.go", Func: "Observer.Process", Loop: 1,
			Atoms:   []atom{{"err != nil", "pre_err", "bool"}},
			Actions: map[string]int{"value, err = preprocessor.PreProcess(pCtx, value)": 1}, // the output of one pre-processor is the input of the next
			Rets:    map[string]int{"err": 1},
		},
		{
			Name: "proposal_filterer_body", Props: []string{"C11", "C12"},
			File: "pkg/v3/preprocessors/proposal_filterer.go", Func: "proposalFilterer.PreProcess", Loop: 2,
			Atoms:   []atom{{"ok", "already_proposed", "bool"}},
			Binders: map[string]map[string]string{"_, ok := flatten[payload.WorkID]": {}},
			Actions: map[string]int{"filtered = append(filtered, payload)": 1},
		},
		{
			Name: "final_flow_tick_body", Props: []string{"C11"},
			File: "pkg/v3/flows/recovery.go", Func: "coordinatedProposalsTick.Value", Loop: 1,
			Atoms:   []atom{{"p.IsEmpty()", "empty", "bool"}},
			Actions: map[string]int{"filtered++": 1, "payloads = append(payloads, p)": 2},
		},
	}...)
}
