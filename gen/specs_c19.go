package main

// constants of the simulated chain that C19's model mentions (history depth, report look-back)
func init() {
	extra = append(extra,
		spec{"SimHistoryDepth", "tools/simulator/simulate/chain/history.go", "defaultHistoryDepth"},
		spec{"SimReportTrackerBlockRange", "tools/simulator/simulate/ocr/report.go", "ReportTrackerBlockRange"},
	)
}
