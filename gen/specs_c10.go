package main

// constants read for C10 (staging result store)
func init() {
	extra = append(extra,
		spec{"ResultStoreTTL", "pkg/v3/stores/result_store.go", "storeTTL"},
		spec{"ResultStoreGCInterval", "pkg/v3/stores/result_store.go", "gcInterval"},
	)
}
