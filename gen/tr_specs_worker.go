package main

// Worker group (C14): the synchronisation skeleton of pkg/util/worker.go.

func init() {
	lockIgnore := []string{`^(defer )?wg\.mu\.(L|Unl)ock\(\)$`, `^(defer )?q\.mu\.(R)?(L|Unl)ock\(\)$`}
	trSpecs = append(trSpecs, []trSpec{
		{
			Name: "wg_do", Props: []string{"C14"},
			File: "pkg/util/worker.go", Func: "WorkerGroup.Do",
			Atoms: []atom{
				{"ctx.Err() != nil", "cancelled", "bool"}, {"wg.queueClosed.Load()", "queue_closed", "bool"},
				{"data.ok", "has_data", "bool"}, {"notify.ok", "has_notify", "bool"},
				{"wg.input <- gi", "sent", "bool"}, {"<-ctx.Done()", "ctx_done", "bool"},
			},
			Binders: map[string]map[string]string{
				"gi := GroupedItem[T]{ Group: group, Item: w, }": {},
				"_, ok := wg.resultData[group]":                  {"ok": "data.ok"},
				"_, ok := wg.resultNotify[group]":                {"ok": "notify.ok"},
			},
			Actions: map[string]int{
				"wg.resultData[group] = make([]WorkItemResult[T], 0)": 1, "wg.resultNotify[group] = make(chan struct{}, 1)": 2,
			},
			Rets: map[string]int{
				"nil": 0, `fmt.Errorf("%w; work not added to queue", ErrContextCancelled)`: 1,
				`fmt.Errorf("%w; work not added to queue", ErrProcessStopped)`: 2,
			},
			Ignore: lockIgnore,
		},
		{
			Name: "wg_stop", Props: []string{"C14"},
			File: "pkg/util/worker.go", Func: "WorkerGroup.Stop", Lit: 1,
			Actions: map[string]int{"close(wg.svcChStop)": 1, "wg.queueClosed.Store(true)": 2, "wg.chStopInputs <- struct{}{}": 3},
		},
		{
			Name: "wg_process_queue_body", Props: []string{"C14"},
			File: "pkg/util/worker.go", Func: "WorkerGroup.processQueue", Loop: 1,
			Atoms:   []atom{{"wg.queue.Len()", "queue_len", "Z"}, {"err != nil", "pop_err", "bool"}},
			Binders: map[string]map[string]string{"value, err := wg.queue.Pop()": {}},
			Actions: map[string]int{"value, err := wg.queue.Pop()": 1, "wg.doJob(value)": 2},
		},
		{
			Name: "wg_queuing_body", Props: []string{"C14"},
			File: "pkg/util/worker.go", Func: "WorkerGroup.runQueuing", Loop: 1,
			Atoms:   []atom{{"item := <-wg.input", "got_item", "bool"}, {"wg.chInputNotify <- struct{}{}", "notified", "bool"}},
			Actions: map[string]int{"wg.queue.Add(item)": 1, "wg.chStopProcessing <- struct{}{}": 2},
		},
		{
			Name: "wg_processing_body", Props: []string{"C14"},
			File: "pkg/util/worker.go", Func: "WorkerGroup.runProcessing", Loop: 1,
			Atoms:   []atom{{"<-wg.chInputNotify", "got_notify", "bool"}},
			Actions: map[string]int{"wg.processQueue()": 1},
		},
		{
			Name: "wg_run", Props: []string{"C14"},
			File: "pkg/util/worker.go", Func: "WorkerGroup.run",
			Actions: map[string]int{"go wg.runQueuing()": 1, "wg.runProcessing()": 2, "wg.processQueue()": 3},
		},
		{
			Name: "wg_do_job", Props: []string{"C14"},
			File: "pkg/util/worker.go", Func: "WorkerGroup.doJob",
			Atoms:   []atom{{"wg.activeWorkers", "active", "Z"}, {"wg.maxWorkers", "max_workers", "Z"}},
			Binders: map[string]map[string]string{"var wkr *worker[T]": {}},
			Actions: map[string]int{
				`wkr = &worker[T]{ Name: fmt.Sprintf("worker-%d", wg.activeWorkers+1), Queue: wg.workers, }`: 1,
				"wg.activeWorkers++": 2, "wkr = <-wg.workers": 3, "go func() {...": 4,
			},
		},
		{
			Name: "wg_store_result", Props: []string{"C14"},
			File: "pkg/util/worker.go", Func: "WorkerGroup.storeResult", Lit: 1,
			Atoms: []atom{
				{"data.ok", "has_data", "bool"}, {"notify.ok", "has_notify", "bool"},
				{"wg.resultNotify[group] <- struct{}{}", "notified", "bool"},
			},
			Binders: map[string]map[string]string{
				"_, ok := wg.resultData[group]":  {"ok": "data.ok"},
				"_, ok = wg.resultNotify[group]": {"ok": "notify.ok"},
			},
			Actions: map[string]int{
				"wg.resultData[group] = make([]WorkItemResult[T], 0)": 1, "wg.resultNotify[group] = make(chan struct{}, 1)": 2,
				"wg.resultData[group] = append([]WorkItemResult[T]{result}, wg.resultData[group]...)": 3,
			},
			Ignore: lockIgnore,
		},
		{
			Name: "worker_do", Props: []string{"C14"},
			File: "pkg/util/worker.go", Func: "worker.Do",
			Atoms: []atom{{"ctx.Err() != nil", "cancelled", "bool"}, {"w.Queue <- w", "returned", "bool"}},
			Binders: map[string]map[string]string{"start := time.Now()": {}, "var data T": {}, "var err error": {}},
			Actions: map[string]int{
				"err = ctx.Err()": 1, "data, err = wrk(ctx)": 2,
				"r(WorkItemResult[T]{ Worker: w.Name, Data: data, Err: err, Time: time.Since(start), })": 3,
			},
		},
		{
			Name: "run_jobs", Props: []string{"C14", "C13"},
			File: "pkg/util/worker.go", Func: "RunJobs",
			Binders: map[string]map[string]string{
				"var wait sync.WaitGroup": {}, "end := make(chan struct{}, 1)": {}, "group := rand.Intn(1_000_000_000)": {},
			},
			Actions: map[string]int{
				"go func(g *WorkerGroup[T], w *sync.WaitGroup, ch chan struct{}) {...": 1, "for _, job := range jobs { }": 2,
				"wait.Wait()": 3, "wg.RemoveGroup(group)": 4, "close(end)": 5,
			},
		},
		{
			Name: "run_jobs_submit", Props: []string{"C14", "C13"},
			File: "pkg/util/worker.go", Func: "RunJobs", Loop: 1,
			Atoms:   []atom{{"err != nil", "refused", "bool"}},
			Binders: map[string]map[string]string{"err := wg.Do(ctx, makeJobFunc(ctx, job, jobFunc), group)": {}},
			Actions: map[string]int{"wait.Add(1)": 1, "err := wg.Do(ctx, makeJobFunc(ctx, job, jobFunc), group)": 2, "wait.Done()": 3},
		},
		{
			Name: "run_jobs_reader", Props: []string{"C14", "C13"},
			File: "pkg/util/worker.go", Func: "RunJobs", Lit: 1, Loop: 1,
			Atoms:   []atom{{"<-g.NotifyResult(group)", "got_notify", "bool"}},
			Actions: map[string]int{"for _, r := range g.Results(group) { }": 1},
		},
		{
			Name: "run_jobs_deliver", Props: []string{"C14", "C13"},
			File: "pkg/util/worker.go", Func: "RunJobs", Lit: 1, Loop: 2,
			Actions: map[string]int{"resFunc(r.Data, r.Err)": 1, "w.Done()": 2},
		},
		{
			Name: "queue_pop", Props: []string{"C14"},
			File: "pkg/util/worker.go", Func: "Queue.Pop",
			Atoms:   []atom{{"len(q.values)", "n", "Z"}},
			Binders: map[string]map[string]string{"val := q.values[0]": {}},
			Actions: map[string]int{"q.values = q.values[1:]": 1, "q.values = []T{}": 2},
			Rets:    map[string]int{`getZero[T](), fmt.Errorf("no values to return")`: 0, "val, nil": 1},
			Ignore:  lockIgnore,
		},
		{
			Name: "wg_results", Props: []string{"C14"},
			File: "pkg/util/worker.go", Func: "WorkerGroup.Results",
			Atoms:   []atom{{"ok", "has_data", "bool"}, {"len(resultData)", "n", "Z"}},
			Binders: map[string]map[string]string{"resultData, ok := wg.resultData[group]": {}},
			Actions: map[string]int{
				"wg.resultData[group] = []WorkItemResult[T]{}": 1,
				"for i, j := 0, len(resultData)-1; i < j; i, j = i+1, j-1 { }": 2,
			},
			Rets:   map[string]int{"wg.resultData[group]": 0, "resultData": 1},
			Ignore: lockIgnore,
		},
	}...)
}
