package main

// A small Go -> Gallina translator for DECISION CODE: function bodies and loop bodies made of
// if / else-if / switch / return / continue / break over comparisons, boolean connectives and
// integer arithmetic, with effect statements (cache writes, appends, counters) kept as opaque,
// white-listed *actions*.  The result is a Gallina term of type [list Z * leaf] (Base/GenIR.v):
// the sequence of action ids executed on the path taken, and how the path ends.
//
// What is translated semantically: every condition, the nesting / order of the branches, which
// actions run on which path and in which order, the returned boolean / integer expressions.
// What is matched syntactically: the text of each action, binder and ignored (logging, metrics)
// statement.  A statement or expression outside the recognised subset makes the translation of
// that function fail; gen then emits the pinned (last known good) term and marks the function as
// not translated, and the driver treats that as source drift (more cases, more seeds) instead of
// raising an alarm: the correspondence run remains the tie for that function.
//
// coq/Gen/GeneratedTr.v is rewritten on every run; Proofs/GenTr*.v prove that the hand-written
// models take exactly these decisions, so an edit of a condition or of the branch structure in
// /repo breaks a proof obligation of the properties that rest on the model.

import (
	"bytes"
	"encoding/json"
	"fmt"
	"go/ast"
	"go/parser"
	"go/printer"
	"go/token"
	"os"
	"path/filepath"
	"regexp"
	"sort"
	"strings"
)

type atom struct {
	Go  string // normalised Go text of the expression
	Coq string // Gallina parameter name
	Ty  string // "Z" or "bool"
}

type trSpec struct {
	Name    string   // Gallina definition is g_<Name>
	Props   []string // properties whose models rest on it
	File    string
	Func    string // "recvType.method" or "func"
	Lit     int    // k>0: the unit is the body of the k-th function literal inside Func (pre-order); Loop counts inside it
	Loop    int    // 0: whole body; k>0: body of the k-th for / range statement (pre-order)
	Wrap    string // "" (mathematical integers) or "u64" / "u32": + and - wrap
	Atoms   []atom
	Binders map[string]map[string]string // statement text -> atom text -> atom text it stands for from here on
	Actions map[string]int               // statement text -> action id
	Rets    map[string]int               // non-boolean, non-integer return expressions -> id
	Ignore  []string                     // extra regexps for statements without effect on the model
	After   string                       // when set: the unit is what follows the first top-level statement with this text (the tail of a long function)
	Skips   map[string]string            // nested loop header -> boolean atom: the nested loop ended by `continue <label of the unit's loop>` (the rest of the body is skipped)
}

var defaultIgnore = []string{
	`^(c|p|plugin|q|s|r|rc|m|o|sg|ocr|hook|h|wg)\.(logger|Logger|lggr)\.`,
	`^(log|prommetrics|telemetry)\.`,
	`^_ = `,
	`^(defer )?(c|s|q|m|r|rc)\.(mu|lock|mutex|lck)\.(R)?(L|Unl)ock\(\)$`,
}

type trErr struct{ msg string }

func (e trErr) Error() string { return e.msg }

type translator struct {
	spec   *trSpec
	fset   *token.FileSet
	ignore []*regexp.Regexp
	brk    []cont // innermost enclosing switch / select: where an unlabelled break goes (empty: the unit's own loop)
}

var wsRe = regexp.MustCompile(`\s+`)

func (t *translator) text(n ast.Node) string {
	var b bytes.Buffer
	printer.Fprint(&b, t.fset, n)
	return strings.TrimSpace(wsRe.ReplaceAllString(b.String(), " "))
}

// loopHeader prints a for / range statement without its body
func (t *translator) loopHeader(s ast.Stmt) string {
	switch v := s.(type) {
	case *ast.RangeStmt:
		c := *v
		c.Body = &ast.BlockStmt{}
		return t.text(&c)
	case *ast.ForStmt:
		c := *v
		c.Body = &ast.BlockStmt{}
		return t.text(&c)
	}
	return ""
}

// renv: atom text -> atom text it currently stands for.  A rename introduced by a declaration (`x := ...`, an
// if-initialiser) is scoped to its block; one introduced by a plain assignment (`limit = len(results)`) persists
// along the path after the block ends.  Persistent keys carry the prefix "=" in the map.
type renv map[string]string

func (e renv) with(r map[string]string) renv { return e.withP(r, false) }

func (e renv) withP(r map[string]string, persistent bool) renv {
	n := renv{}
	for k, v := range e {
		n[k] = v
	}
	for k, v := range r {
		n[k] = v
		if persistent {
			n["="+k] = "1"
		} else {
			delete(n, "="+k)
		}
	}
	return n
}

// leave returns the environment after a block: the outer one plus the persistent renames made inside
func (outer renv) leave(inner renv) renv {
	n := renv{}
	for k, v := range outer {
		n[k] = v
	}
	for k := range inner {
		if strings.HasPrefix(k, "=") {
			key := k[1:]
			n[key] = inner[key]
			n[k] = "1"
		}
	}
	return n
}

func (t *translator) atom(txt string, e renv) (atom, bool) {
	if r, ok := e[txt]; ok && !strings.HasPrefix(txt, "=") {
		txt = r
	}
	for _, a := range t.spec.Atoms {
		if a.Go == txt {
			return a, true
		}
	}
	return atom{}, false
}

// expr returns (Gallina text, type)
func (t *translator) expr(x ast.Expr, e renv) (string, string) {
	if a, ok := t.atom(t.text(x), e); ok {
		return a.Coq, a.Ty
	}
	switch v := x.(type) {
	case *ast.ParenExpr:
		return t.expr(v.X, e)
	case *ast.Ident:
		if v.Name == "true" || v.Name == "false" {
			return v.Name, "bool"
		}
	case *ast.BasicLit:
		if v.Kind == token.INT {
			return "(" + v.Value + ")%Z", "Z"
		}
	case *ast.UnaryExpr:
		if v.Op == token.NOT {
			a, ty := t.expr(v.X, e)
			if ty != "bool" {
				panic(trErr{"! applied to non-boolean " + t.text(v.X)})
			}
			return "(negb " + a + ")", "bool"
		}
	case *ast.SliceExpr:
		if v.Low == nil && v.High == nil && v.Max == nil {
			return t.expr(v.X, e) // x[:] of an array: the same bytes
		}
	case *ast.CallExpr:
		if id, ok := v.Fun.(*ast.Ident); ok && len(v.Args) == 1 {
			switch id.Name {
			case "string":
				// string(b[:]) compared with < > ==: byte-wise order of the array, which the interning preserves
				if _, isSlice := v.Args[0].(*ast.SliceExpr); isSlice {
					return t.expr(v.Args[0], e)
				}
			case "int", "int64", "uint64", "uint32", "int32", "uint":
				// conversion between integer types: identity on the ranges stated with the obligation
				return t.expr(v.Args[0], e)
			}
		}
	case *ast.BinaryExpr:
		a, ta := t.expr(v.X, e)
		b, tb := t.expr(v.Y, e)
		bin := func(op string) string { return "(" + op + " " + a + " " + b + ")" }
		switch v.Op {
		case token.LAND, token.LOR:
			if ta != "bool" || tb != "bool" {
				panic(trErr{"boolean connective on non-boolean in " + t.text(x)})
			}
			if v.Op == token.LAND {
				return "(" + a + " && " + b + ")", "bool"
			}
			return "(" + a + " || " + b + ")", "bool"
		case token.EQL, token.NEQ:
			if ta != tb {
				panic(trErr{"comparison of different types in " + t.text(x)})
			}
			r := bin("Z.eqb")
			if ta == "bool" {
				r = bin("Bool.eqb")
			}
			if v.Op == token.NEQ {
				r = "(negb " + r + ")"
			}
			return r, "bool"
		case token.LSS, token.LEQ, token.GTR, token.GEQ:
			if ta != "Z" || tb != "Z" {
				panic(trErr{"ordering of non-integers in " + t.text(x)})
			}
			op := map[token.Token]string{token.LSS: "Z.ltb", token.LEQ: "Z.leb", token.GTR: "Z.gtb", token.GEQ: "Z.geb"}[v.Op]
			return bin(op), "bool"
		case token.ADD, token.SUB, token.MUL:
			if ta != "Z" || tb != "Z" {
				panic(trErr{"arithmetic on non-integers in " + t.text(x)})
			}
			op := map[token.Token]string{token.ADD: "Z.add", token.SUB: "Z.sub", token.MUL: "Z.mul"}[v.Op]
			r := bin(op)
			switch t.spec.Wrap {
			case "u64":
				r = "(wrap64 " + r + ")"
			case "u32":
				r = "(wrap32 " + r + ")"
			}
			return r, "Z"
		case token.QUO, token.REM: // Go integer division truncates toward zero
			if ta != "Z" || tb != "Z" {
				panic(trErr{"arithmetic on non-integers in " + t.text(x)})
			}
			return bin(map[token.Token]string{token.QUO: "Z.quot", token.REM: "Z.rem"}[v.Op]), "Z"
		}
	}
	panic(trErr{"expression outside the translated subset: " + t.text(x)})
}

func leaf(acts []int, l string) string {
	s := make([]string, len(acts))
	for i, a := range acts {
		s[i] = fmt.Sprintf("%d", a)
	}
	return "([" + strings.Join(s, "; ") + "]%Z, " + l + ")"
}

func (t *translator) ignored(txt string) bool {
	for _, r := range t.ignore {
		if r.MatchString(txt) {
			return true
		}
	}
	return false
}

type cont func(acts []int, e renv) string

// act looks a statement up in the action table; a key ending in "..." stands for every statement that starts with the
// text before it (a go statement with a long function literal: the literal is a unit of its own, Lit: k)
func (t *translator) act(txt string) (int, bool) {
	if id, ok := t.spec.Actions[txt]; ok {
		return id, true
	}
	for k, id := range t.spec.Actions {
		if strings.HasSuffix(k, "...") && strings.HasPrefix(txt, strings.TrimSuffix(k, "...")) {
			return id, true
		}
	}
	return 0, false
}

// scoped makes a continuation run with the break targets in force where it was created (the statements after a
// switch are outside that switch)
func (t *translator) scoped(k cont) cont {
	outer := append([]cont{}, t.brk...)
	return func(a []int, e renv) string {
		saved := t.brk
		t.brk = outer
		r := k(a, e)
		t.brk = saved
		return r
	}
}

func appendAct(acts []int, a int) []int {
	n := make([]int, len(acts)+1)
	copy(n, acts)
	n[len(acts)] = a
	return n
}

func (t *translator) stmts(l []ast.Stmt, acts []int, e renv, k cont) string {
	if len(l) == 0 {
		return k(acts, e)
	}
	s, rest := l[0], l[1:]
	next := func(a []int, e2 renv) string { return t.stmts(rest, a, e2, k) }
	switch v := s.(type) {
	case *ast.BlockStmt:
		return t.stmts(v.List, acts, e, func(a []int, in renv) string { return next(a, e.leave(in)) })
	case *ast.ReturnStmt:
		switch len(v.Results) {
		case 0:
			return leaf(acts, "RetU")
		case 1:
			txt := t.text(v.Results[0])
			if id, ok := t.spec.Rets[txt]; ok {
				return leaf(acts, fmt.Sprintf("RetO %d", id))
			}
			g, ty := t.expr(v.Results[0], e)
			if ty == "bool" {
				return leaf(acts, "RetB "+g)
			}
			return leaf(acts, "RetZ "+g)
		default:
			parts := []string{}
			for _, r := range v.Results {
				parts = append(parts, t.text(r))
			}
			txt := strings.Join(parts, ", ")
			if id, ok := t.spec.Rets[txt]; ok {
				return leaf(acts, fmt.Sprintf("RetO %d", id))
			}
			if len(v.Results) == 2 && t.text(v.Results[1]) == "nil" {
				// (expression, nil): the value is translated, the nil error is implied by RetB / RetZ
				g, ty := t.expr(v.Results[0], e)
				if ty == "bool" {
					return leaf(acts, "RetB "+g)
				}
				return leaf(acts, "RetZ "+g)
			}
			panic(trErr{"return value not in the table: " + txt})
		}
	case *ast.BranchStmt:
		switch v.Tok {
		case token.CONTINUE:
			if v.Label == nil {
				// the unit is the body of the loop continue refers to (nested loops are opaque actions): going on to the
				// next iteration early and reaching the end of the body are the same outcome, written Fall, so that
				// `if c { continue }; rest` and `if !c { rest }` translate to the same term
				return leaf(acts, "Fall")
			}
		case token.BREAK:
			if v.Label == nil {
				if n := len(t.brk); n > 0 {
					return t.brk[n-1](acts, e) // leaves the switch / select, not the loop
				}
				return leaf(acts, "Brk")
			}
		}
		if v.Label != nil {
			// a labelled continue / break that leaves this unit's loop for an enclosing one: white-listed by its text,
			// recorded as an action, and the unit's loop ends (Brk)
			if id, ok := t.act(t.text(v)); ok {
				return leaf(appendAct(acts, id), "Brk")
			}
		}
		panic(trErr{"branch statement: " + t.text(v)})
	case *ast.IfStmt:
		e2 := e
		if v.Init != nil {
			txt := t.text(v.Init)
			r, ok := t.spec.Binders[txt]
			id, isAct := t.act(txt)
			if !ok && !isAct {
				panic(trErr{"if-initialiser not in the binder / action table: " + txt})
			}
			e2 = e.with(r)
			if isAct {
				// an effectful call in the initialiser (err := hook.RunHook(...)): it runs before the condition is tested
				acts = appendAct(acts, id)
			}
		}
		c, ty := t.expr(v.Cond, e2)
		if ty != "bool" {
			panic(trErr{"non-boolean condition " + t.text(v.Cond)})
		}
		after := func(a []int, in renv) string { return next(a, e.leave(in)) }
		th := t.stmts(v.Body.List, acts, e2, after)
		var el string
		if v.Else == nil {
			el = next(acts, e)
		} else {
			el = t.stmts([]ast.Stmt{v.Else}, acts, e2, after)
		}
		return "(if " + c + "\n then " + th + "\n else " + el + ")"
	case *ast.SwitchStmt:
		if v.Init != nil {
			panic(trErr{"switch with initialiser"})
		}
		after := t.scoped(func(a []int, in renv) string { return next(a, e.leave(in)) })
		t.brk = append(t.brk, after)
		defer func() { t.brk = t.brk[:len(t.brk)-1] }()
		var clauses []*ast.CaseClause
		var def *ast.CaseClause
		for _, c := range v.Body.List {
			cc := c.(*ast.CaseClause)
			for _, st := range cc.Body {
				if b, ok := st.(*ast.BranchStmt); ok && b.Tok == token.FALLTHROUGH {
					panic(trErr{"fallthrough"})
				}
			}
			if cc.List == nil {
				def = cc
			} else {
				clauses = append(clauses, cc)
			}
		}
		var build func(i int) string
		build = func(i int) string {
			if i == len(clauses) {
				if def != nil {
					return t.stmts(def.Body, acts, e, after)
				}
				return next(acts, e)
			}
			cc := clauses[i]
			conds := []string{}
			for _, x := range cc.List {
				var c, ty string
				if v.Tag != nil {
					c, ty = t.expr(&ast.BinaryExpr{X: v.Tag, Op: token.EQL, Y: x}, e)
				} else {
					c, ty = t.expr(x, e)
				}
				if ty != "bool" {
					panic(trErr{"non-boolean case"})
				}
				conds = append(conds, c)
			}
			c := conds[0]
			for _, d := range conds[1:] {
				c = "(" + c + " || " + d + ")"
			}
			return "(if " + c + "\n then " + t.stmts(cc.Body, acts, e, after) + "\n else " + build(i+1) + ")"
		}
		return build(0)
	case *ast.TypeSwitchStmt:
		// the dynamic type is an input: one boolean atom per clause, named "type T1, T2" after the clause's type list
		if v.Init != nil {
			panic(trErr{"type switch with initialiser"})
		}
		afterT := t.scoped(func(a []int, in renv) string { return next(a, e.leave(in)) })
		t.brk = append(t.brk, afterT)
		defer func() { t.brk = t.brk[:len(t.brk)-1] }()
		var tclauses []*ast.CaseClause
		var tdef *ast.CaseClause
		for _, c := range v.Body.List {
			cc := c.(*ast.CaseClause)
			if cc.List == nil {
				tdef = cc
			} else {
				tclauses = append(tclauses, cc)
			}
		}
		var buildT func(i int) string
		buildT = func(i int) string {
			if i == len(tclauses) {
				if tdef != nil {
					return t.stmts(tdef.Body, acts, e, afterT)
				}
				return next(acts, e)
			}
			names := []string{}
			for _, x := range tclauses[i].List {
				names = append(names, t.text(x))
			}
			a, ok := t.atom("type "+strings.Join(names, ", "), e)
			if !ok || a.Ty != "bool" {
				panic(trErr{"type switch clause not a boolean atom: type " + strings.Join(names, ", ")})
			}
			return "(if " + a.Coq + "\n then " + t.stmts(tclauses[i].Body, acts, e, afterT) + "\n else " + buildT(i+1) + ")"
		}
		return buildT(0)
	case *ast.SelectStmt:
		// which communication is taken is an input: one boolean atom per clause but the last, named by the text of
		// its communication statement ("x := <-ch"); the last clause (or default) is taken when none of them is
		after := t.scoped(func(a []int, in renv) string { return next(a, e.leave(in)) })
		t.brk = append(t.brk, after)
		defer func() { t.brk = t.brk[:len(t.brk)-1] }()
		var clauses []*ast.CommClause
		var def *ast.CommClause
		for _, c := range v.Body.List {
			cc := c.(*ast.CommClause)
			if cc.Comm == nil {
				def = cc
			} else {
				clauses = append(clauses, cc)
			}
		}
		if def == nil && len(clauses) > 0 {
			def, clauses = clauses[len(clauses)-1], clauses[:len(clauses)-1]
		}
		var buildSel func(i int) string
		buildSel = func(i int) string {
			if i == len(clauses) {
				if def != nil {
					return t.stmts(def.Body, acts, e, after)
				}
				return next(acts, e)
			}
			a, ok := t.atom(t.text(clauses[i].Comm), e)
			if !ok || a.Ty != "bool" {
				panic(trErr{"select communication not a boolean atom: " + t.text(clauses[i].Comm)})
			}
			return "(if " + a.Coq + "\n then " + t.stmts(clauses[i].Body, acts, e, after) + "\n else " + buildSel(i+1) + ")"
		}
		return buildSel(0)
	case *ast.EmptyStmt:
		return next(acts, e)
	case *ast.LabeledStmt:
		return t.stmts(append([]ast.Stmt{v.Stmt}, rest...), acts, e, k)
	case *ast.RangeStmt, *ast.ForStmt:
		// a nested loop is one opaque, white-listed action identified by its header; its body is a
		// translation unit of its own (Loop: k)
		hdr := t.loopHeader(s)
		if id, ok := t.act(hdr); ok {
			if an, skips := t.spec.Skips[hdr]; skips {
				a, found := t.atom(an, e)
				if !found || a.Ty != "bool" {
					panic(trErr{"skip atom missing for loop " + hdr})
				}
				return "(if " + a.Coq + "\n then " + leaf(appendAct(acts, id), "Fall") + "\n else " + next(appendAct(acts, id), e) + ")"
			}
			if r, ok := t.spec.Binders[hdr]; ok {
				// the nested loop assigns variables the rest of the body tests: from here on they stand for other atoms
				return next(appendAct(acts, id), e.withP(r, true))
			}
			return next(appendAct(acts, id), e)
		}
		panic(trErr{"loop not in the action table: " + hdr})
	default:
		txt := t.text(s)
		r, isBinder := t.spec.Binders[txt]
		id, isAct := t.act(txt)
		if isBinder || isAct {
			// a statement may be an action (its effect is recorded) and a binder (it re-binds atoms) at once
			e2 := e
			if isBinder {
				persistent := false
				if as, isAs := s.(*ast.AssignStmt); isAs && as.Tok != token.DEFINE {
					persistent = true
				}
				e2 = e.withP(r, persistent)
			}
			if isAct {
				acts = appendAct(acts, id)
			}
			return next(acts, e2)
		}
		if t.ignored(txt) {
			return next(acts, e)
		}
		panic(trErr{"statement outside the translated subset: " + txt})
	}
}

func findFunc(f *ast.File, name string) *ast.FuncDecl {
	recv, fn := "", name
	if i := strings.Index(name, "."); i >= 0 {
		recv, fn = name[:i], name[i+1:]
	}
	for _, d := range f.Decls {
		fd, ok := d.(*ast.FuncDecl)
		if !ok || fd.Name.Name != fn || fd.Body == nil {
			continue
		}
		r := ""
		if fd.Recv != nil && len(fd.Recv.List) == 1 {
			ty := fd.Recv.List[0].Type
			if s, ok := ty.(*ast.StarExpr); ok {
				ty = s.X
			}
			if ix, ok := ty.(*ast.IndexExpr); ok {
				ty = ix.X
			}
			if id, ok := ty.(*ast.Ident); ok {
				r = id.Name
			}
		}
		if r == recv {
			return fd
		}
	}
	return nil
}

func nthLoop(body *ast.BlockStmt, k int) *ast.BlockStmt {
	var res *ast.BlockStmt
	n := 0
	ast.Inspect(body, func(x ast.Node) bool {
		if res != nil {
			return false
		}
		switch v := x.(type) {
		case *ast.FuncLit:
			return false
		case *ast.RangeStmt:
			n++
			if n == k {
				res = v.Body
				return false
			}
		case *ast.ForStmt:
			n++
			if n == k {
				res = v.Body
				return false
			}
		}
		return true
	})
	return res
}

func translateOne(repo string, s *trSpec) (term string, err error) {
	defer func() {
		if r := recover(); r != nil {
			if te, ok := r.(trErr); ok {
				err = te
				return
			}
			panic(r)
		}
	}()
	fset := token.NewFileSet()
	f, perr := parser.ParseFile(fset, filepath.Join(repo, s.File), nil, 0)
	if perr != nil {
		return "", perr
	}
	fd := findFunc(f, s.Func)
	if fd == nil {
		return "", fmt.Errorf("function %s not found in %s", s.Func, s.File)
	}
	body := fd.Body
	if s.Lit > 0 {
		n := 0
		var lit *ast.FuncLit
		ast.Inspect(fd.Body, func(x ast.Node) bool {
			if fl, ok := x.(*ast.FuncLit); ok && lit == nil {
				n++
				if n == s.Lit {
					lit = fl
				}
			}
			return lit == nil
		})
		if lit == nil {
			return "", fmt.Errorf("%s has no function literal number %d", s.Func, s.Lit)
		}
		body = lit.Body
	}
	if s.Loop > 0 {
		body = nthLoop(body, s.Loop)
		if body == nil {
			return "", fmt.Errorf("%s has no loop number %d", s.Func, s.Loop)
		}
	}
	t := &translator{spec: s, fset: fset}
	for _, p := range append(append([]string{}, defaultIgnore...), s.Ignore...) {
		t.ignore = append(t.ignore, regexp.MustCompile(p))
	}
	list := body.List
	if s.After != "" {
		at := -1
		for i, st := range list {
			if t.text(st) == s.After {
				at = i
				break
			}
		}
		if at < 0 {
			return "", fmt.Errorf("%s has no top-level statement %q", s.Func, s.After)
		}
		list = list[at+1:]
	}
	term = t.stmts(list, nil, renv{}, func(a []int, _ renv) string { return leaf(a, "Fall") })
	return term, nil
}

func (s *trSpec) signature() string {
	var b strings.Builder
	for _, a := range s.Atoms {
		fmt.Fprintf(&b, " (%s : %s)", a.Coq, a.Ty)
	}
	return b.String()
}

// runTranslator writes coq/Gen/GeneratedTr.v and build-side status JSON next to it (GeneratedTr.json).
// With pin=true it also rewrites gen/pinned_tr.json (the last known good terms used as fall-back).
func runTranslator(repo, outDir, pinPath string, pin bool) {
	pinned := map[string]string{}
	if b, err := os.ReadFile(pinPath); err == nil {
		json.Unmarshal(b, &pinned)
	}
	var b strings.Builder
	b.WriteString("(* GENERATED by /verif/gen (translate.go, tr_specs.go) from /repo's current sources on every run. Do not edit. *)\n")
	b.WriteString("From Coq Require Import ZArith Bool List.\nFrom Verif Require Import Base.GenIR.\nImport ListNotations.\nOpen Scope Z_scope.\nOpen Scope bool_scope.\n\n")
	status := map[string]map[string]interface{}{}
	names := []string{}
	for i := range trSpecs {
		s := &trSpecs[i]
		names = append(names, s.Name)
		term, err := translateOne(repo, s)
		st := map[string]interface{}{"props": s.Props, "file": s.File, "func": s.Func, "loop": s.Loop, "lit": s.Lit}
		if err != nil {
			st["translated"] = false
			st["why"] = err.Error()
			fmt.Fprintf(os.Stderr, "gen (translate): %s: %v -- using the pinned term\n", s.Name, err)
			term = pinned[s.Name]
			if term == "" {
				term = "([]%Z, Fall)"
			}
		} else {
			st["translated"] = true
			st["same_as_pinned"] = pinned[s.Name] == term
			if pin {
				pinned[s.Name] = term
			}
		}
		status[s.Name] = st
		fmt.Fprintf(&b, "(* %s: %s%s *)\nDefinition g_%s%s : list Z * leaf :=\n %s.\nDefinition g_%s_translated : bool := %v.\n\n",
			s.File, s.Func, map[bool]string{true: fmt.Sprintf(", body of loop %d", s.Loop), false: ""}[s.Loop > 0],
			s.Name, s.signature(), term, s.Name, err == nil)
	}
	// wiring of the flows (wiring.go): lists of constructor codes instead of decision terms
	for _, w := range wiringUnits(repo) {
		st := map[string]interface{}{"props": w.Props, "file": w.File, "func": w.Func, "loop": 0, "lit": 0}
		term := w.Term
		if w.Err != nil {
			st["translated"] = false
			st["why"] = w.Err.Error()
			fmt.Fprintf(os.Stderr, "gen (wiring): %s: %v -- using the pinned value\n", w.Name, w.Err)
			term = pinned[w.Name]
			if term == "" {
				term = "[]%Z"
			}
		} else {
			st["translated"] = true
			st["same_as_pinned"] = pinned[w.Name] == term
			if pin {
				pinned[w.Name] = term
			}
		}
		status[w.Name] = st
		fmt.Fprintf(&b, "(* %s: %s, wiring *)\nDefinition g_%s : list Z :=\n %s.\nDefinition g_%s_translated : bool := %v.\n\n",
			w.File, w.Func, w.Name, term, w.Name, w.Err == nil)
	}
	path := filepath.Join(outDir, "GeneratedTr.v")
	if old, _ := os.ReadFile(path); string(old) != b.String() {
		os.WriteFile(path, []byte(b.String()), 0o644)
	}
	js, _ := json.MarshalIndent(status, "", " ")
	os.WriteFile(filepath.Join(outDir, "GeneratedTr.json"), js, 0o644)
	if pin {
		sort.Strings(names)
		pj, _ := json.MarshalIndent(pinned, "", " ")
		os.WriteFile(pinPath, pj, 0o644)
	}
}

// dumpFunc prints the normalised text of every statement / loop header / if-initialiser of a function:
// what the Binders / Actions tables of a spec are written from.  usage: gen -dump <repo> <file> <func>
func dumpFunc(repo, file, fn string) {
	fset := token.NewFileSet()
	f, err := parser.ParseFile(fset, filepath.Join(repo, file), nil, 0)
	if err != nil {
		fmt.Println(err)
		return
	}
	fd := findFunc(f, fn)
	if fd == nil {
		fmt.Println("not found")
		return
	}
	t := &translator{spec: &trSpec{}, fset: fset}
	loops := 0
	var walk func(l []ast.Stmt, ind string)
	walk = func(l []ast.Stmt, ind string) {
		for _, s := range l {
			switch v := s.(type) {
			case *ast.BlockStmt:
				walk(v.List, ind+"  ")
			case *ast.IfStmt:
				if v.Init != nil {
					fmt.Printf("%sINIT  %q\n", ind, t.text(v.Init))
				}
				fmt.Printf("%sIF    %s\n", ind, t.text(v.Cond))
				walk(v.Body.List, ind+"  ")
				if v.Else != nil {
					fmt.Printf("%sELSE\n", ind)
					walk([]ast.Stmt{v.Else}, ind+"  ")
				}
			case *ast.SwitchStmt:
				fmt.Printf("%sSWITCH %s\n", ind, t.text(v.Tag))
				for _, c := range v.Body.List {
					cc := c.(*ast.CaseClause)
					fmt.Printf("%s CASE\n", ind)
					walk(cc.Body, ind+"  ")
				}
			case *ast.RangeStmt:
				loops++
				fmt.Printf("%sLOOP%d %q\n", ind, loops, t.loopHeader(v))
				walk(v.Body.List, ind+"  ")
			case *ast.ForStmt:
				loops++
				fmt.Printf("%sLOOP%d %q\n", ind, loops, t.loopHeader(v))
				walk(v.Body.List, ind+"  ")
			case *ast.ReturnStmt, *ast.BranchStmt:
				fmt.Printf("%s%s\n", ind, t.text(s))
			default:
				fmt.Printf("%sSTMT  %q\n", ind, t.text(s))
			}
		}
	}
	walk(fd.Body.List, "")
}
