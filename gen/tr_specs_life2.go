package main

// Life cycle of the two remaining long-running services of a v3 plug-in: the shared runner (flag based, like the
// metadata store) and the coordinator (chainlink-common StateMachine: start-once / stop-once, the model's KOnce).

func init() {
	trSpecs = append(trSpecs, []trSpec{
		{
			Name: "runner_start", Props: []string{"C18"},
			File: "pkg/v3/runner/runner.go", Func: "Runner.Start",
			Atoms:   []atom{{"o.running.Load()", "running", "bool"}},
			Actions: map[string]int{"o.running.Swap(true)": 1, "go o.cache.Start(o.cacheGcInterval)": 2, "<-o.chClose": 3},
			Rets:    map[string]int{`fmt.Errorf("already running")`: 1, "nil": 0},
			Ignore:  []string{`^o\.logger\.`},
		},
		{
			Name: "runner_close", Props: []string{"C18"},
			File: "pkg/v3/runner/runner.go", Func: "Runner.Close",
			Atoms:   []atom{{"!o.running.Load()", "not_running", "bool"}, {"o.running.Load()", "running", "bool"}},
			Actions: map[string]int{"o.cache.Stop()": 1, "o.workers.Stop()": 2, "o.running.Swap(false)": 3, "o.chClose <- struct{}{}": 4},
			Rets:    map[string]int{`fmt.Errorf("not running")`: 1, "nil": 0},
		},
		{
			Name: "coord_start", Props: []string{"C18"},
			File: "pkg/v3/coordinator/coordinator.go", Func: "coordinator.Start",
			Atoms:   []atom{{"err != nil", "start_refused", "bool"}},
			Binders: map[string]map[string]string{`err := c.StateMachine.StartOnce("Coordinator", func() error { return nil })`: {}},
			Actions: map[string]int{"go c.cache.Start(defaultCacheClean)": 1, "go c.visited.Start(defaultCacheClean)": 2, "c.run()": 3},
			Rets:    map[string]int{"err": 1, "nil": 0},
		},
		{
			Name: "coord_run", Props: []string{"C18"},
			File: "pkg/v3/coordinator/coordinator.go", Func: "coordinator.run",
			Binders: map[string]map[string]string{"timer := time.NewTimer(cadence)": {}, "ctx, cancel := c.stopCh.NewCtx()": {}},
			Actions: map[string]int{
				"defer close(c.done)": 1, "timer := time.NewTimer(cadence)": 2, "defer timer.Stop()": 3,
				"ctx, cancel := c.stopCh.NewCtx()": 4, "defer cancel()": 5, "for { }": 6,
			},
		},
		{
			Name: "coord_run_body", Props: []string{"C18"},
			File: "pkg/v3/coordinator/coordinator.go", Func: "coordinator.run", Loop: 1,
			Atoms: []atom{
				{"<-timer.C", "tick", "bool"}, {"<-ctx.Done()", "stopped", "bool"}, {"err != nil", "poll_failed", "bool"},
				{"ctx.Err() != nil", "stopped_meanwhile", "bool"}, {"diff", "took", "Z"}, {"cadence", "cadence", "Z"},
			},
			Binders: map[string]map[string]string{"startTime := time.Now()": {}, "err := c.safeCheckEvents(ctx)": {}, "diff := time.Since(startTime)": {}},
			Actions: map[string]int{"err := c.safeCheckEvents(ctx)": 1, "timer.Reset(time.Microsecond)": 2, "timer.Reset(cadence - diff)": 3},
			Ignore:  []string{`^c\.logger\.`},
		},
		{
			Name: "coord_close", Props: []string{"C18"},
			File: "pkg/v3/coordinator/coordinator.go", Func: "coordinator.Close", Lit: 1,
			Actions: map[string]int{"close(c.stopCh)": 1, "<-c.done": 2, "c.cache.Stop()": 3, "c.visited.Stop()": 4},
			Rets:    map[string]int{"nil": 0},
		},
	}...)
}
