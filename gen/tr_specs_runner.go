package main

// pkg/v3/runner (C13, C12)

func init() {
	trSpecs = append(trSpecs, []trSpec{
		{
			Name: "runner_lookup_body", Props: []string{"C13", "C12"},
			File: "pkg/v3/runner/runner.go", Func: "Runner.parallelCheck", Loop: 1,
			Atoms: []atom{
				{"ok", "found", "bool"},
				{"res.Trigger.BlockNumber", "c_blk", "Z"},
				{"payload.Trigger.BlockNumber", "p_blk", "Z"},
				{"res.Trigger.BlockHash", "c_hash", "Z"},
				{"payload.Trigger.BlockHash", "p_hash", "Z"},
			},
			Binders: map[string]map[string]string{"res, ok := o.cache.Get(payload.WorkID)": {}},
			Actions: map[string]int{"result.Add(res)": 1, "toRun = append(toRun, payload)": 2},
		},
		{
			Name: "runner_parallelCheck", Props: []string{"C13", "C12"},
			File: "pkg/v3/runner/runner.go", Func: "Runner.parallelCheck",
			Atoms: []atom{
				{"len(payloads)", "n_payloads", "Z"},
				{"len(toRun)", "n_run", "Z"},
				{"result.Total()", "total", "Z"},
				{"result.Failures()", "failures", "Z"},
				{"result.Err() != nil", "has_err", "bool"},
			},
			Binders: map[string]map[string]string{
				"result := newResult[ocr2keepers.CheckResult]()":                    {},
				"toRun := make([]ocr2keepers.UpkeepPayload, 0, len(payloads))": {},
			},
			Actions: map[string]int{
				"for _, payload := range payloads { }": 1, // cache look-ups (runner_lookup_body)
				"pkgutil.RunJobs( ctx, o.workers, util.Unflatten(toRun, o.workerBatchLimit), o.wrapWorkerFunc(), o.wrapAggregate(result), )": 2,
			},
			Rets: map[string]int{"result, nil": 1, `nil, fmt.Errorf("%w: last error encounter by worker was '%s'", ErrTooManyErrors, result.Err())`: 2},
		},
		{
			Name: "runner_aggregate", Props: []string{"C13", "C12"},
			File: "pkg/v3/runner/runner.go", Func: "Runner.wrapAggregate", Lit: 1,
			Atoms: []atom{{"err == nil", "batch_ok", "bool"}},
			Actions: map[string]int{
				"r.AddSuccesses(1)":                      1,
				"for _, result := range results { }":     2,
				"r.SetErr(err)":                          3,
				"r.AddFailures(1)":                       4,
			},
			Ignore: []string{`^o\.logger\.`},
		},
		{
			Name: "runner_aggregate_body", Props: []string{"C13", "C12"},
			File: "pkg/v3/runner/runner.go", Func: "Runner.wrapAggregate", Lit: 1, Loop: 1,
			Atoms: []atom{
				{"result.PipelineExecutionState", "state", "Z"},
				{"ok", "found", "bool"},
				{"result.Trigger.BlockNumber", "r_blk", "Z"},
				{"c.Trigger.BlockNumber", "c_blk", "Z"},
			},
			Binders: map[string]map[string]string{"c, ok := o.cache.Get(result.WorkID)": {}},
			Actions: map[string]int{
				"o.cache.Set(result.WorkID, result, pkgutil.DefaultCacheExpiration)": 1,
				"r.Add(result)": 2,
			},
		},
	}...)
}

func init() {
	trSpecs = append(trSpecs, trSpec{
		Name: "unflatten_body", Props: []string{"C13"},
		File: "internal/util/array.go", Func: "Unflatten", Loop: 1,
		Atoms:   []atom{{"i + size", "upper", "Z"}, {"len(b)", "len_b", "Z"}},
		Binders: map[string]map[string]string{"j := i + size": {"j": "i + size"}},
		Actions: map[string]int{"j = len(b)": 1, "groups = append(groups, b[i:j])": 2},
	})
}
