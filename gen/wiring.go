package main

// Wiring extractor: which pre- and post-processors each flow constructor hands to NewRunnableObserver, and what the
// factories pass to the constructors.  Emitted into GeneratedTr.v as lists of codes:
//   post-processors  1 eligible (staging)  2 retryable (retry queue)  3 ineligible (state updater)  4 proposals (metadata store)
//   pre-processors   0 the coordinator / the caller's pre-processor slice (first)   5 proposal filterer
// A shape the extractor does not recognise falls back to the pinned value (and g_<name>_translated := false), like a
// translation unit.

import (
	"fmt"
	"go/ast"
	"go/parser"
	"go/token"
	"path/filepath"
	"strings"
)

type wiringSpec struct {
	Name, File, Func string
	Props            []string
}

var wiringSpecs = []wiringSpec{
	{"log", "pkg/v3/flows/logtrigger.go", "newLogTriggerFlow", []string{"C12", "C07", "C09"}},
	{"retry", "pkg/v3/flows/retry.go", "NewRetryFlow", []string{"C12", "C07", "C09"}},
	{"rec_final", "pkg/v3/flows/recovery.go", "newFinalRecoveryFlow", []string{"C12", "C07", "C09", "C11"}},
	{"cond_final", "pkg/v3/flows/conditional.go", "newFinalConditionalFlow", []string{"C12", "C07", "C09", "C11"}},
	{"rec_prop", "pkg/v3/flows/recovery.go", "newRecoveryProposalFlow", []string{"C12", "C07", "C09", "C11"}},
	{"sample", "pkg/v3/flows/conditional.go", "newSampleProposalFlow", []string{"C12", "C07", "C09", "C11"}},
}

var postCodes = map[string]int{
	"NewEligiblePostProcessor": 1, "NewRetryablePostProcessor": 2, "NewIneligiblePostProcessor": 3,
	"NewAddProposalToMetadataStorePostprocessor": 4,
}
var preCodes = map[string]int{"NewProposalFilterer": 5}

func calleeName(c *ast.CallExpr) string {
	switch f := c.Fun.(type) {
	case *ast.SelectorExpr:
		return f.Sel.Name
	case *ast.Ident:
		return f.Name
	case *ast.IndexExpr:
		if s, ok := f.X.(*ast.SelectorExpr); ok {
			return s.Sel.Name
		}
	}
	return ""
}

// definitions of a local: every `x := e` / `x = e` / `var x = e` in the body, in source order
func defsOf(body *ast.BlockStmt, name string) []ast.Expr {
	var out []ast.Expr
	ast.Inspect(body, func(n ast.Node) bool {
		if as, ok := n.(*ast.AssignStmt); ok && len(as.Lhs) == 1 && len(as.Rhs) == 1 {
			if id, ok := as.Lhs[0].(*ast.Ident); ok && id.Name == name {
				out = append(out, as.Rhs[0])
			}
		}
		return true
	})
	return out
}

func paramIndex(fd *ast.FuncDecl, name string) int {
	i := 0
	for _, f := range fd.Type.Params.List {
		for _, n := range f.Names {
			if n.Name == name {
				return i
			}
			i++
		}
	}
	return -1
}

// codes of the constructors inside e, in source order; NewCombinedPostprocessor is flattened
func codesIn(e ast.Expr, table map[string]int) ([]int, error) {
	var out []int
	var err error
	var walk func(x ast.Expr)
	walk = func(x ast.Expr) {
		c, ok := x.(*ast.CallExpr)
		if !ok {
			err = fmt.Errorf("not a constructor call")
			return
		}
		n := calleeName(c)
		if n == "NewCombinedPostprocessor" {
			for _, a := range c.Args {
				walk(a)
			}
			return
		}
		if code, ok := table[n]; ok {
			out = append(out, code)
			return
		}
		err = fmt.Errorf("unknown constructor %s", n)
	}
	walk(e)
	return out, err
}

// what a flow constructor hands to NewRunnableObserver: (pre codes, post codes)
func flowWiring(repo string, w wiringSpec) (pre, post []int, err error) {
	fset := token.NewFileSet()
	f, perr := parser.ParseFile(fset, filepath.Join(repo, w.File), nil, 0)
	if perr != nil {
		return nil, nil, perr
	}
	fd := findFunc(f, w.Func)
	if fd == nil || fd.Body == nil {
		return nil, nil, fmt.Errorf("function %s not found", w.Func)
	}
	var obs []*ast.CallExpr
	ast.Inspect(fd.Body, func(n ast.Node) bool {
		if c, ok := n.(*ast.CallExpr); ok && calleeName(c) == "NewRunnableObserver" {
			obs = append(obs, c)
		}
		return true
	})
	if len(obs) != 1 || len(obs[0].Args) < 3 {
		return nil, nil, fmt.Errorf("expected exactly one NewRunnableObserver call")
	}
	// post-processor argument
	pe := obs[0].Args[1]
	if id, ok := pe.(*ast.Ident); ok {
		ds := defsOf(fd.Body, id.Name)
		if len(ds) != 1 {
			return nil, nil, fmt.Errorf("post-processor %s defined %d times", id.Name, len(ds))
		}
		pe = ds[0]
	}
	if post, err = codesIn(pe, postCodes); err != nil {
		return nil, nil, err
	}
	// pre-processor argument: a parameter (the caller's slice), possibly appended to, or a literal holding a parameter
	id, ok := obs[0].Args[0].(*ast.Ident)
	if !ok {
		return nil, nil, fmt.Errorf("pre-processor argument is not a variable")
	}
	ds := defsOf(fd.Body, id.Name)
	if paramIndex(fd, id.Name) == 0 {
		pre = []int{0}
	} else if len(ds) >= 1 {
		cl, ok := ds[0].(*ast.CompositeLit)
		if !ok || len(cl.Elts) != 1 {
			return nil, nil, fmt.Errorf("pre-processor slice is not a one-element literal")
		}
		el, ok := cl.Elts[0].(*ast.Ident)
		if !ok || paramIndex(fd, el.Name) != 0 {
			return nil, nil, fmt.Errorf("pre-processor slice does not hold the first parameter")
		}
		pre = []int{0}
		ds = ds[1:]
	} else {
		return nil, nil, fmt.Errorf("pre-processor %s has no origin", id.Name)
	}
	for _, d := range ds {
		c, ok := d.(*ast.CallExpr)
		if !ok || calleeName(c) != "append" || len(c.Args) < 2 {
			return nil, nil, fmt.Errorf("pre-processor slice reassigned by something else than append")
		}
		if a0, ok := c.Args[0].(*ast.Ident); !ok || a0.Name != id.Name {
			return nil, nil, fmt.Errorf("append to another slice")
		}
		for _, a := range c.Args[1:] {
			cs, err := codesIn(a, preCodes)
			if err != nil {
				return nil, nil, err
			}
			pre = append(pre, cs...)
		}
	}
	return pre, post, nil
}

// a factory: for every call of a flow constructor, whether its first argument is a one-element slice literal holding
// the factory's own first parameter (the coordinator).  Returns one 0 per such call, in source order.
func factoryWiring(repo, file, fn string, ctors []string) ([]int, error) {
	fset := token.NewFileSet()
	f, perr := parser.ParseFile(fset, filepath.Join(repo, file), nil, 0)
	if perr != nil {
		return nil, perr
	}
	fd := findFunc(f, fn)
	if fd == nil || fd.Body == nil {
		return nil, fmt.Errorf("function %s not found", fn)
	}
	var out []int
	var err error
	ast.Inspect(fd.Body, func(n ast.Node) bool {
		c, ok := n.(*ast.CallExpr)
		if !ok || err != nil {
			return true
		}
		name := calleeName(c)
		isCtor := false
		for _, k := range ctors {
			if k == name {
				isCtor = true
			}
		}
		if !isCtor {
			return true
		}
		id, ok := c.Args[0].(*ast.Ident)
		if !ok {
			err = fmt.Errorf("%s: first argument is not a variable", name)
			return true
		}
		ds := defsOf(fd.Body, id.Name)
		if len(ds) != 1 {
			err = fmt.Errorf("%s: %s defined %d times", name, id.Name, len(ds))
			return true
		}
		cl, ok := ds[0].(*ast.CompositeLit)
		if !ok || len(cl.Elts) != 1 {
			err = fmt.Errorf("%s: pre-processors are not a one-element literal", name)
			return true
		}
		el, ok := cl.Elts[0].(*ast.Ident)
		if !ok || paramIndex(fd, el.Name) != 0 {
			err = fmt.Errorf("%s: the literal does not hold the coordinator parameter", name)
			return true
		}
		out = append(out, 0)
		return true
	})
	return out, err
}

func zlist(l []int) string {
	s := make([]string, len(l))
	for i, x := range l {
		s[i] = fmt.Sprintf("%d", x)
	}
	return "[" + strings.Join(s, "; ") + "]%Z"
}

type wiringOut struct {
	Name, File, Func, Term string
	Props                  []string
	Err                    error
}

func wiringUnits(repo string) []wiringOut {
	var out []wiringOut
	for _, w := range wiringSpecs {
		pre, post, err := flowWiring(repo, w)
		out = append(out, wiringOut{"wire_" + w.Name + "_pre", w.File, w.Func, zlist(pre), w.Props, err})
		out = append(out, wiringOut{"wire_" + w.Name + "_post", w.File, w.Func, zlist(post), w.Props, err})
	}
	props := []string{"C07", "C09", "C12"}
	l, err := factoryWiring(repo, "pkg/v3/flows/factory.go", "LogTriggerFlows", []string{"newRecoveryProposalFlow", "newFinalRecoveryFlow", "newLogTriggerFlow"})
	out = append(out, wiringOut{"wire_factory_log", "pkg/v3/flows/factory.go", "LogTriggerFlows", zlist(l), props, err})
	l, err = factoryWiring(repo, "pkg/v3/flows/factory.go", "ConditionalTriggerFlows", []string{"newFinalConditionalFlow", "newSampleProposalFlow"})
	out = append(out, wiringOut{"wire_factory_cond", "pkg/v3/flows/factory.go", "ConditionalTriggerFlows", zlist(l), props, err})
	return out
}
