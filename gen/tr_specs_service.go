package main

// Service life-cycle (C18): the recoverer around every long-running service.

func init() {
	trSpecs = append(trSpecs, []trSpec{
		{
			Name: "rec_start", Props: []string{"C18"},
			File: "pkg/v3/service/recoverable.go", Func: "recoverer.Start",
			Atoms:   []atom{{"m.running.CompareAndSwap(false, true)", "cas_ok", "bool"}, {"m.closed.Load()", "closed", "bool"}},
			Actions: map[string]int{"m.running.Store(false)": 1, "go m.recoverableStart(ctx)": 2, "m.serviceStart(ctx)": 3},
			Rets:    map[string]int{"ErrServiceAlreadyStarted": 1, "ErrServiceClosed": 2, "nil": 0},
		},
		{
			Name: "rec_close", Props: []string{"C18"},
			File: "pkg/v3/service/recoverable.go", Func: "recoverer.Close",
			Atoms:   []atom{{"m.running.Load()", "running", "bool"}},
			Binders: map[string]map[string]string{"err := m.service.Close()": {}},
			Actions: map[string]int{"m.closed.Store(true)": 1, "err := m.service.Close()": 2, "m.closeOnce.Do(func() { close(m.chClose) })": 3},
			Rets:    map[string]int{"ErrServiceNotRunning": 1, "err": 2},
		},
		{
			Name: "rec_watch_body", Props: []string{"C18"},
			File: "pkg/v3/service/recoverable.go", Func: "recoverer.serviceStart", Loop: 1,
			Atoms: []atom{
				{"err := <-m.stopped", "got_result", "bool"}, {"<-m.chClose", "got_close", "bool"},
				{"err != nil", "is_err", "bool"}, {"errors.Is(err, errServiceStopped)", "panicked", "bool"},
				{"<-time.After(m.coolDown)", "cooled", "bool"}, {"m.closed.Load()", "closed", "bool"},
			},
			Actions: map[string]int{"m.running.Store(false)": 1, "go m.recoverableStart(ctx)": 2},
		},
		{
			Name: "rec_run", Props: []string{"C18"},
			File: "pkg/v3/service/recoverable.go", Func: "recoverer.recoverableStart", Lit: 1,
			Atoms:   []atom{{"l != nil", "has_log", "bool"}, {"err != nil", "is_err", "bool"}},
			Binders: map[string]map[string]string{"err := s.Start(ctx)": {}},
			Actions: map[string]int{"err := s.Start(ctx)": 1, "chStop <- err": 2},
			Ignore:  []string{`^l\.Println\(`, `^defer func\(\)`},
		},
		{
			Name: "rec_run_recover", Props: []string{"C18"},
			File: "pkg/v3/service/recoverable.go", Func: "recoverer.recoverableStart", Lit: 2,
			Atoms:   []atom{{"l != nil", "has_log", "bool"}, {"err != nil", "panicked", "bool"}},
			Binders: map[string]map[string]string{"err := recover()": {}},
			Actions: map[string]int{"chStop <- errServiceStopped": 1},
			Ignore:  []string{`^l\.Println\(`},
		},
	}...)
}

func init() {
	trSpecs = append(trSpecs, []trSpec{
		{
			Name: "ticker_start", Props: []string{"C18", "C12"},
			File: "pkg/v3/tickers/time.go", Func: "timeTicker.Start",
			Atoms: []atom{{"err != nil", "start_refused", "bool"}},
			Binders: map[string]map[string]string{
				`err := t.StartOnce("timeTicker", func() error { return nil })`: {}, "ctx, cancel := t.stopCh.Ctx(ctx)": {},
				"ticker := time.NewTicker(t.interval)": {},
			},
			Actions: map[string]int{
				"defer close(t.done)": 1, "ctx, cancel := t.stopCh.Ctx(ctx)": 2, "defer cancel()": 3,
				"ticker := time.NewTicker(t.interval)": 4, "defer ticker.Stop()": 5, "for { }": 6,
			},
			Rets:   map[string]int{"err": 1},
			Ignore: []string{`^(defer )?t\.logger\.`},
		},
		{
			Name: "ticker_loop_body", Props: []string{"C18", "C12"},
			File: "pkg/v3/tickers/time.go", Func: "timeTicker.Start", Loop: 1,
			Atoms: []atom{
				{"<-ctx.Done()", "stopped", "bool"}, {"t.getterFn == nil", "no_getter", "bool"}, {"err != nil", "getter_err", "bool"},
			},
			Binders: map[string]map[string]string{"tick, err := t.getterFn(ctx, tm)": {}},
			Actions: map[string]int{"tick, err := t.getterFn(ctx, tm)": 1, "go func(c context.Context, t Tick[T], o observer[T], l *log.Logger) {...": 2},
			Rets:    map[string]int{"nil": 0},
			Ignore:  []string{`^t\.logger\.`},
		},
		{
			Name: "ticker_process", Props: []string{"C18", "C12"},
			File: "pkg/v3/tickers/time.go", Func: "timeTicker.Start", Lit: 2,
			Atoms:   []atom{{"err != nil", "process_err", "bool"}},
			Binders: map[string]map[string]string{"err := o.Process(c, t)": {}},
			Actions: map[string]int{"err := o.Process(c, t)": 1},
			Ignore:  []string{`^l\.Printf\(`, `^defer func\(\)`},
		},
		{
			Name: "ticker_close", Props: []string{"C18"},
			File: "pkg/v3/tickers/time.go", Func: "timeTicker.Close", Lit: 1,
			Actions: map[string]int{"close(t.stopCh)": 1, "<-t.done": 2},
			Rets:    map[string]int{"nil": 0},
		},
		// pkg/v3/stores/result_store.go: the one service of the plug-in whose Close leaves its request in a buffered
		// channel for a Start that has not reached its loop yet (Model/Lifecycle.v, kind KSticky)
		{
			Name: "rs_start", Props: []string{"C18"},
			File: "pkg/v3/stores/result_store.go", Func: "resultStore.Start",
			Binders: map[string]map[string]string{"ctx, cancel := context.WithCancel(pctx)": {}, "ticker := time.NewTicker(gcInterval)": {}},
			Actions: map[string]int{
				"ctx, cancel := context.WithCancel(pctx)": 1, "defer cancel()": 2, "ticker := time.NewTicker(gcInterval)": 3,
				"defer ticker.Stop()": 4, "for { }": 5,
			},
			Ignore: []string{`^s\.lggr\.`},
		},
		{
			Name: "rs_loop_body", Props: []string{"C18"},
			File: "pkg/v3/stores/result_store.go", Func: "resultStore.Start", Loop: 1,
			Atoms: []atom{{"<-ticker.C", "tick", "bool"}, {"<-ctx.Done()", "ctx_done", "bool"}, {"<-s.close", "close_req", "bool"}},
			Actions: map[string]int{"s.gc()": 1, "s.closedCh <- struct{}{}": 2},
			Rets:    map[string]int{"nil": 0},
			Ignore:  []string{`^s\.lggr\.`},
		},
		{
			Name: "rs_close", Props: []string{"C18"},
			File: "pkg/v3/stores/result_store.go", Func: "resultStore.Close",
			Actions: map[string]int{"s.close <- true": 1},
			Rets:    map[string]int{"nil": 0},
		},
		// pkg/v3/stores/metadata_store.go: a flag-based service - Start refuses while running, Close refuses while not
		// running (known finding close_before_service_start), gives the block subscription back, then signals the loop
		{
			Name: "ms_start", Props: []string{"C18"},
			File: "pkg/v3/stores/metadata_store.go", Func: "metadataStore.Start",
			Atoms:   []atom{{"m.running.Load()", "running", "bool"}},
			Actions: map[string]int{"m.running.Store(true)": 1, "for { }": 2},
			Rets:    map[string]int{`fmt.Errorf("service already running")`: 1},
		},
		{
			Name: "ms_loop_body", Props: []string{"C18"},
			File: "pkg/v3/stores/metadata_store.go", Func: "metadataStore.Start", Loop: 1,
			Atoms:   []atom{{"h := <-m.ch", "got_history", "bool"}, {"<-ctx.Done()", "ctx_done", "bool"}, {"<-m.stopCh", "stop_req", "bool"}},
			Actions: map[string]int{"m.SetBlockHistory(h)": 1},
			Rets:    map[string]int{"m.Close()": 2, "nil": 0},
		},
		{
			Name: "ms_close", Props: []string{"C18"},
			File: "pkg/v3/stores/metadata_store.go", Func: "metadataStore.Close",
			Atoms:   []atom{{"!m.running.Load()", "not_running", "bool"}, {"m.running.Load()", "running", "bool"}, {"err != nil", "unsub_err", "bool"}},
			Binders: map[string]map[string]string{"err := m.subscriber.Unsubscribe(m.chID)": {}},
			Actions: map[string]int{"err := m.subscriber.Unsubscribe(m.chID)": 1, "m.stopCh <- struct{}{}": 2, "m.running.Store(false)": 3},
			Rets:    map[string]int{`fmt.Errorf("service not running")`: 1, "err": 2, "nil": 0},
		},
		{
			Name: "plugin_close", Props: []string{"C18"},
			File: "pkg/v3/plugin/ocr3.go", Func: "ocr3Plugin.Close",
			Binders: map[string]map[string]string{"var err error": {}},
			Actions: map[string]int{"for i := range plugin.Services { }": 1},
			Rets:    map[string]int{"err": 1},
		},
		{
			Name: "plugin_close_body", Props: []string{"C18"},
			File: "pkg/v3/plugin/ocr3.go", Func: "ocr3Plugin.Close", Loop: 1,
			Actions: map[string]int{"err = errors.Join(err, plugin.Services[i].Close())": 1},
		},
		{
			Name: "plugin_start_body", Props: []string{"C18"},
			File: "pkg/v3/plugin/ocr3.go", Func: "ocr3Plugin.startServices", Loop: 1,
			Actions: map[string]int{"go func(svc service.Recoverable) {...": 1},
		},
	}...)
}
