package main

// pkg/v3/stores: result store (C10, C08, C09), proposal queue (C11), retry queue (C12)

func init() {
	trSpecs = append(trSpecs, []trSpec{
		{
			Name: "rs_add_body", Props: []string{"C10", "C08", "C09"},
			File: "pkg/v3/stores/result_store.go", Func: "resultStore.Add", Loop: 1,
			Atoms: []atom{
				{"ok", "found", "bool"},
				{"time.Since(v.addedAt)", "age", "Z"},
				{"storeTTL", "ttl", "Z"},
				{"v.data.Trigger.BlockNumber", "v_blk", "Z"},
				{"r.Trigger.BlockNumber", "r_blk", "Z"},
			},
			Binders: map[string]map[string]string{"v, ok := s.data[r.WorkID]": {}},
			Actions: map[string]int{"s.data[r.WorkID] = result{data: r, addedAt: time.Now()}": 1},
		},
		{
			Name: "rs_view_body", Props: []string{"C10", "C08", "C09"},
			File: "pkg/v3/stores/result_store.go", Func: "resultStore.viewResults", Loop: 1,
			Atoms:   []atom{{"time.Since(r.addedAt)", "age", "Z"}, {"storeTTL", "ttl", "Z"}},
			Actions: map[string]int{"results = append(results, r.data)": 1},
		},
		{
			Name: "rs_gc_body", Props: []string{"C10"},
			File: "pkg/v3/stores/result_store.go", Func: "resultStore.gc", Loop: 1,
			Atoms:   []atom{{"time.Since(v.addedAt)", "age", "Z"}, {"storeTTL", "ttl", "Z"}},
			Actions: map[string]int{"delete(s.data, k)": 1},
		},
		{
			Name: "rs_remove", Props: []string{"C10", "C09"},
			File: "pkg/v3/stores/result_store.go", Func: "resultStore.remove",
			Atoms:   []atom{{"ok", "found", "bool"}},
			Binders: map[string]map[string]string{"_, ok := s.data[id]": {}},
			Actions: map[string]int{"delete(s.data, id)": 1},
		},
		{
			Name: "rs_remove_body", Props: []string{"C10", "C09"},
			File: "pkg/v3/stores/result_store.go", Func: "resultStore.Remove", Loop: 1,
			Atoms:   []atom{},
			Actions: map[string]int{"s.remove(id)": 1},
		},
		{
			Name: "pq_enqueue_body", Props: []string{"C11", "C09"},
			File: "pkg/v3/stores/proposal_queue.go", Func: "proposalQueue.Enqueue", Loop: 1,
			Atoms: []atom{
				{"ok", "found", "bool"},
				{"existing.proposal.Trigger.BlockNumber", "old_blk", "Z"},
				{"p.Trigger.BlockNumber", "new_blk", "Z"},
			},
			Binders: map[string]map[string]string{"existing, ok := pq.records[p.WorkID]": {}},
			Actions: map[string]int{"pq.records[p.WorkID] = proposalQueueRecord{ proposal: p, createdAt: time.Now(), }": 1},
		},
		{
			Name: "pq_dequeue_body", Props: []string{"C11", "C09"},
			File: "pkg/v3/stores/proposal_queue.go", Func: "proposalQueue.Dequeue", Loop: 1,
			Atoms: []atom{
				{"record.expired(time.Now(), proposalExpiry)", "expired", "bool"},
				{"record.removed", "removed", "bool"},
				{"pq.typeGetter(record.proposal.UpkeepID)", "utype", "Z"},
				{"t", "want", "Z"},
			},
			Actions: map[string]int{
				"delete(pq.records, record.proposal.WorkID)":    1,
				"proposals = append(proposals, record.proposal)": 2,
			},
		},
		{
			Name: "pq_dequeue", Props: []string{"C11"},
			File: "pkg/v3/stores/proposal_queue.go", Func: "proposalQueue.Dequeue",
			Atoms:   []atom{{"len(proposals)", "n_cand", "Z"}, {"n", "n", "Z"}},
			Binders: map[string]map[string]string{"var proposals []ocr2keepers.CoordinatedBlockProposal": {}},
			Actions: map[string]int{
				"for _, record := range pq.records { }": 1,
				"n = len(proposals)":                    2,
				"proposals = proposals[:n]":             3,
				"for _, p := range proposals { }":       4, // mark the handed-out records as removed
			},
			Rets:   map[string]int{"proposals, nil": 1},
			Ignore: []string{`^pq\.lock\.Lock\(\)$`, `^defer pq\.lock\.Unlock\(\)$`},
		},
		{
			Name: "pq_expired", Props: []string{"C11"},
			File: "pkg/v3/stores/proposal_queue.go", Func: "proposalQueueRecord.expired",
			Atoms: []atom{{"now.Sub(r.createdAt)", "age", "Z"}, {"expr", "window", "Z"}},
		},
		{
			Name: "rq_enqueue_body", Props: []string{"C12"},
			File: "pkg/v3/stores/retry_queue.go", Func: "retryQueue.Enqueue", Loop: 1,
			Atoms: []atom{
				{"ok", "found", "bool"},
				{"payload.Trigger.BlockNumber", "p_blk", "Z"},
				{"record.payload.Trigger.BlockNumber", "rec_blk", "Z"},
				{"rec.Interval", "ivl", "Z"},
			},
			Binders: map[string]map[string]string{
				"payload := rec.Payload":                    {},
				"record, ok := q.records[payload.WorkID]": {},
			},
			Actions: map[string]int{
				"record = retryQueueRecord{ payload: payload, createdAt: now, }": 1,
				"record.payload = payload":           2,
				"record.updatedAt = now":             3,
				"record.pending = false":             4,
				"record.interval = rec.Interval":     5,
				"record.interval = q.interval":       6,
				"q.records[payload.WorkID] = record": 7,
			},
		},
		{
			Name: "rq_dequeue_body", Props: []string{"C12"},
			File: "pkg/v3/stores/retry_queue.go", Func: "retryQueue.Dequeue", Loop: 1,
			Atoms: []atom{
				{"record.expired(now, q.expiration)", "expired", "bool"},
				{"record.pending", "pending", "bool"},
				{"record.elapsed(now, record.interval)", "elapsed", "bool"},
				{"len(results)", "n_out", "Z"},
				{"n", "n", "Z"},
			},
			Actions: map[string]int{
				"delete(q.records, k)":                     1,
				"results = append(results, record.payload)": 2,
				"record.pending = true":                    3,
				"q.records[k] = record":                    4,
			},
		},
		{
			Name: "rq_expired", Props: []string{"C12"},
			File: "pkg/v3/stores/retry_queue.go", Func: "retryQueueRecord.expired",
			Atoms: []atom{{"now.Sub(r.createdAt)", "age", "Z"}, {"expr", "window", "Z"}},
		},
		{
			Name: "rq_elapsed", Props: []string{"C12"},
			File: "pkg/v3/stores/retry_queue.go", Func: "retryQueueRecord.elapsed",
			Atoms: []atom{{"now.Sub(r.updatedAt)", "age", "Z"}, {"expr", "window", "Z"}},
		},
		{
			Name: "rq_size_body", Props: []string{"C12"},
			File: "pkg/v3/stores/retry_queue.go", Func: "retryQueue.Size", Loop: 1,
			Atoms: []atom{
				{"record.pending", "pending", "bool"},
				{"record.expired(now, q.expiration)", "expired", "bool"},
			},
			Actions: map[string]int{"size++": 1},
		},
	}...)
}
