package main

// Off-chain configuration: the defaults that guarantee a batch size of at least one (C04).

func init() {
	trSpecs = append(trSpecs, []trSpec{
		{
			Name: "cfg_defaults", Props: []string{"C04"},
			File: "pkg/v3/config/config.go", Func: "ensureMinimumDefaults",
			Atoms: []atom{
				{"conf.PerformLockoutWindow", "lockout", "Z"}, {"len(conf.TargetProbability)", "prob_len", "Z"},
				{"conf.TargetInRounds", "rounds", "Z"}, {"conf.MinConfirmations", "minconf", "Z"},
				{"conf.GasLimitPerReport", "limit", "Z"}, {"conf.GasOverheadPerUpkeep", "over", "Z"},
				{"conf.MaxUpkeepBatchSize", "batch", "Z"},
			},
			Actions: map[string]int{
				"conf.PerformLockoutWindow = 20 * 60 * 1000": 1, `conf.TargetProbability = "0.99999"`: 2,
				"conf.TargetInRounds = 1": 3, "conf.MinConfirmations = 0": 4,
				"conf.GasLimitPerReport = 5_300_000": 5, "conf.GasOverheadPerUpkeep = 300_000": 6,
				"conf.MaxUpkeepBatchSize = 1": 7,
			},
		},
		{
			Name: "cfg_decode", Props: []string{"C04"},
			File: "pkg/v3/config/config.go", Func: "DecodeOffchainConfig",
			Atoms:   []atom{{"err != nil", "json_err", "bool"}},
			Binders: map[string]map[string]string{"var config OffchainConfig": {}, "err := json.Unmarshal(b, &config)": {}},
			Actions: map[string]int{"ensureMinimumDefaults(&config)": 1},
			Rets:    map[string]int{"config, err": 1, "config, nil": 2},
		},
	}...)
}
