package main

// upkeep type tags the expected-perform count switches on (C20)
func init() {
	extra = append(extra,
		spec{"SimConditionalType", "tools/simulator/simulate/chain/block.go", "ConditionalType"},
		spec{"SimLogTriggerType", "tools/simulator/simulate/chain/block.go", "LogTriggerType"},
	)
}
