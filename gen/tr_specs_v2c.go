package main

// v2 plug-in (C16): de-duplication of observed keys, length-limited observation encoding.

func init() {
	trSpecs = append(trSpecs, []trSpec{
		{
			Name: "v2_dedupe_key_body", Props: []string{"C16"},
			File: "pkg/v2/shuffle.go", Func: "filterAndDedupe", Loop: 3,
			Atoms:   []atom{{"filtered", "filtered", "bool"}, {"ok", "seen", "bool"}},
			Binders: map[string]map[string]string{"key := string(val)": {}, "_, ok := matched[key]": {}},
			Actions: map[string]int{"for _, filter := range filters { }": 1, "matched[key] = struct{}{}": 2, "output = append(output, val)": 3},
			Skips:   map[string]string{"for _, filter := range filters { }": "filtered"},
		},
		{
			Name: "v2_dedupe_filter_body", Props: []string{"C16"},
			File: "pkg/v2/shuffle.go", Func: "filterAndDedupe", Loop: 4,
			Atoms:   []atom{{"ok", "matches", "bool"}, {"err != nil", "filter_err", "bool"}},
			Binders: map[string]map[string]string{"ok, err := filter(val)": {}},
			Actions: map[string]int{"continue InnerLoop": 1},
		},
		{
			Name: "v2_dedupe_outer", Props: []string{"C16"},
			File: "pkg/v2/shuffle.go", Func: "filterAndDedupe",
			Binders: map[string]map[string]string{"var max int": {}, "output := make([]UpkeepKey, 0, max)": {}, "matched := make(map[string]struct{})": {}},
			Actions: map[string]int{"for _, input := range inputs { }": 1},
			Rets:    map[string]int{"output, nil": 1},
		},
		{
			Name: "v2_filter_dedupe_shuffle", Props: []string{"C16"},
			File: "pkg/v2/shuffle.go", Func: "filterDedupeShuffleObservations",
			Atoms:   []atom{{"err != nil", "dedupe_err", "bool"}},
			Binders: map[string]map[string]string{"uniqueKeys, err := filterAndDedupe(upkeepKeys, filters...)": {}},
			Actions: map[string]int{"uniqueKeys, err := filterAndDedupe(upkeepKeys, filters...)": 1, "rand.New(util.NewKeyedCryptoRandSource(keyRandSource)).Shuffle(len(uniqueKeys), func(i, j int) {...": 2},
			Rets:    map[string]int{"nil, err": 0, "uniqueKeys, nil": 1},
		},
		{
			Name: "v2_limited_encode", Props: []string{"C16"},
			File: "pkg/v2/encode.go", Func: "limitedLengthEncode",
			Atoms:   []atom{{"len(obs.UpkeepIdentifiers)", "n_ids", "Z"}},
			Binders: map[string]map[string]string{"var res []byte": {}},
			Actions: map[string]int{"for i := range obs.UpkeepIdentifiers { }": 1},
			Rets:    map[string]int{"encode(obs)": 1, "res, nil": 2},
		},
		{
			Name: "v2_limited_encode_body", Props: []string{"C16"},
			File: "pkg/v2/encode.go", Func: "limitedLengthEncode", Loop: 1,
			Atoms:   []atom{{"err != nil", "enc_err", "bool"}, {"len(b)", "len_b", "Z"}, {"limit", "limit", "Z"}},
			Binders: map[string]map[string]string{"b, err := encode(Observation{ BlockKey: obs.BlockKey, UpkeepIdentifiers: obs.UpkeepIdentifiers[:i+1], })": {}},
			Actions: map[string]int{"res = b": 1},
			Rets:    map[string]int{"nil, err": 0},
		},
	}...)
}
