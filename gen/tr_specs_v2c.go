package main

// v2 plug-in (C16): de-duplication of observed keys, length-limited observation encoding.

func init() {
	trSpecs = append(trSpecs, []trSpec{
		{
			Name: "v2_dedupe_key_body", Props: []string{"C16"},
			File: "pkg/v2/shuffle.go", Func: "filterAndDedupe", Loop: 3,
			Atoms:   []atom{{"filtered", "filtered", "bool"}, {"ok", "seen", "bool"}},
			Binders: map[string]map[string]string{"key := string(val)": {}, "_, ok := matched[key]": {}},
			Actions: map[string]int{"for _, filter := range filters { }": 1, "matched[key] = struct{}{}": 2, "output = append(output, val)": 3},
			Skips:   map[string]string{"for _, filter := range filters { }": "filtered"},
		},
		{
			Name: "v2_dedupe_filter_body", Props: []string{"C16"},
			File: "pkg/v2/shuffle.go", Func: "filterAndDedupe", Loop: 4,
			Atoms:   []atom{{"ok", "matches", "bool"}, {"err != nil", "filter_err", "bool"}},
			Binders: map[string]map[string]string{"ok, err := filter(val)": {}},
			Actions: map[string]int{"continue InnerLoop": 1},
		},
		{
			Name: "v2_dedupe_outer", Props: []string{"C16"},
			File: "pkg/v2/shuffle.go", Func: "filterAndDedupe",
			Binders: map[string]map[string]string{"var max int": {}, "output := make([]UpkeepKey, 0, max)": {}, "matched := make(map[string]struct{})": {}},
			Actions: map[string]int{"for _, input := range inputs { }": 1},
			Rets:    map[string]int{"output, nil": 1},
		},
		{
			Name: "v2_filter_dedupe_shuffle", Props: []string{"C16"},
			File: "pkg/v2/shuffle.go", Func: "filterDedupeShuffleObservations",
			Atoms:   []atom{{"err != nil", "dedupe_err", "bool"}},
			Binders: map[string]map[string]string{"uniqueKeys, err := filterAndDedupe(upkeepKeys, filters...)": {}},
			Actions: map[string]int{"uniqueKeys, err := filterAndDedupe(upkeepKeys, filters...)": 1, "rand.New(util.NewKeyedCryptoRandSource(keyRandSource)).Shuffle(len(uniqueKeys), func(i, j int) {...": 2},
			Rets:    map[string]int{"nil, err": 0, "uniqueKeys, nil": 1},
		},
		{
			Name: "v2_limited_encode", Props: []string{"C16"},
			File: "pkg/v2/encode.go", Func: "limitedLengthEncode",
			Atoms:   []atom{{"len(obs.UpkeepIdentifiers)", "n_ids", "Z"}},
			Binders: map[string]map[string]string{"var res []byte": {}},
			Actions: map[string]int{"for i := range obs.UpkeepIdentifiers { }": 1},
			Rets:    map[string]int{"encode(obs)": 1, "res, nil": 2},
		},
		{
			Name: "v2_limited_encode_body", Props: []string{"C16"},
			File: "pkg/v2/encode.go", Func: "limitedLengthEncode", Loop: 1,
			Atoms:   []atom{{"err != nil", "enc_err", "bool"}, {"len(b)", "len_b", "Z"}, {"limit", "limit", "Z"}},
			Binders: map[string]map[string]string{"b, err := encode(Observation{ BlockKey: obs.BlockKey, UpkeepIdentifiers: obs.UpkeepIdentifiers[:i+1], })": {}},
			Actions: map[string]int{"res = b": 1},
			Rets:    map[string]int{"nil, err": 0},
		},
	}...)
}

func init() {
	trSpecs = append(trSpecs, []trSpec{
		{
			Name: "v2_process_head", Props: []string{"C16", "C17"},
			File: "pkg/v2/observer/polling/observer.go", Func: "PollingObserver.processLatestHead",
			Atoms: []atom{{"ids.err != nil", "ids_err", "bool"}, {"keys == nil", "no_keys", "bool"}, {"run.err != nil", "run_err", "bool"}},
			Binders: map[string]map[string]string{
				"ctx, cancel := context.WithTimeout(ctx, o.samplingDuration)": {},
				"var ( keys []ocr2keepers.UpkeepKey ids []ocr2keepers.UpkeepIdentifier err error )": {},
				"ids, err = o.src.GetActiveUpkeepIDs(ctx)":                          {"err != nil": "ids.err != nil"},
				"keys = make([]ocr2keepers.UpkeepKey, len(ids))":                    {},
				"keys = o.shuffleAndSliceKeysToRatio(keys)":                         {},
				"results, err := o.runner.CheckUpkeep(ctx, o.mercuryLookup, keys...)": {"err != nil": "run.err != nil"},
			},
			Actions: map[string]int{
				"ids, err = o.src.GetActiveUpkeepIDs(ctx)": 1, "for i, id := range ids { }": 2,
				"keys = o.shuffleAndSliceKeysToRatio(keys)": 3, "o.stager.prepareBlock(blockKey)": 4,
				"results, err := o.runner.CheckUpkeep(ctx, o.mercuryLookup, keys...)": 5,
				"for _, res := range results { }": 6, "o.stager.advance()": 7,
			},
			Ignore: []string{`^o\.logger\.`, `^defer cancel\(\)$`},
		},
		{
			Name: "v2_process_head_result", Props: []string{"C16", "C17"},
			File: "pkg/v2/observer/polling/observer.go", Func: "PollingObserver.processLatestHead", Loop: 2,
			Atoms: []atom{
				{"elig.err != nil", "elig_err", "bool"}, {"eligible", "eligible", "bool"},
				{"detail.err != nil", "detail_err", "bool"}, {"split.err != nil", "split_err", "bool"},
			},
			Binders: map[string]map[string]string{
				"eligible, err := o.encoder.Eligible(res)":    {"err != nil": "elig.err != nil"},
				"key, _, err := o.encoder.Detail(res)":        {"err != nil": "detail.err != nil"},
				"_, id, err := o.encoder.SplitUpkeepKey(key)": {"err != nil": "split.err != nil"},
			},
			Actions: map[string]int{"o.stager.prepareIdentifier(id)": 1},
			Ignore:  []string{`^o\.logger\.`},
		},
		{
			Name: "v2_shuffle_slice", Props: []string{"C16"},
			File: "pkg/v2/observer/polling/observer.go", Func: "PollingObserver.shuffleAndSliceKeysToRatio",
			Atoms:   []atom{{"len(keys)", "n_keys", "Z"}, {"size", "size", "Z"}},
			Binders: map[string]map[string]string{"keys = o.shuffler.Shuffle(keys)": {}, "size := o.ratio.OfInt(len(keys))": {}},
			Actions: map[string]int{"keys = o.shuffler.Shuffle(keys)": 1},
			Rets:    map[string]int{"nil": 0, "keys[:size]": 1},
			Ignore:  []string{`^o\.logger\.`},
		},
		{
			Name: "v2_stager_advance", Props: []string{"C16", "C17"},
			File: "pkg/v2/observer/polling/observer.go", Func: "stager.advance",
			Actions: map[string]int{
				"s.currentBlock = s.nextBlock": 1, "s.currentIDs = make([]ocr2keepers.UpkeepIdentifier, len(s.nextIDs))": 2,
				"copy(s.currentIDs, s.nextIDs)": 3, "s.nextIDs = make([]ocr2keepers.UpkeepIdentifier, 0)": 4,
			},
			Ignore: []string{`^(defer )?s\.(R)?(L|Unl)ock\(\)$`},
		},
		{
			Name: "v2_stager_prepare_id", Props: []string{"C16", "C17"},
			File: "pkg/v2/observer/polling/observer.go", Func: "stager.prepareIdentifier",
			Atoms:   []atom{{"s.nextIDs == nil", "fresh", "bool"}},
			Actions: map[string]int{"s.nextIDs = []ocr2keepers.UpkeepIdentifier{}": 1, "s.nextIDs = append(s.nextIDs, id)": 2},
			Ignore:  []string{`^(defer )?s\.(R)?(L|Unl)ock\(\)$`},
		},
	}...)
}
