package main

// pkg/v2 (C16, C17): the report coordinator's decisions and the report-building loop

func init() {
	trSpecs = append(trSpecs, []trSpec{
		{
			Name: "v2_shouldUpdate", Props: []string{"C17"},
			File: "pkg/v2/coordinator/coordinator.go", Func: "idBlocker.shouldUpdate",
			Atoms: []atom{
				{"after(new.check, old.check)", "new_after_old", "bool"},
				{"after(old.check, new.check)", "old_after_new", "bool"},
				{"err1 != nil", "err1", "bool"},
				{"err2 != nil", "err2", "bool"},
				{"string(b.TransmitBlockNumber) == string(IndefiniteBlockingKey)", "old_indef", "bool"},
				{"string(val.TransmitBlockNumber) == string(IndefiniteBlockingKey)", "new_indef", "bool"},
				{"e.After(val.TransmitBlockNumber, b.TransmitBlockNumber)", "tx_new_after_old", "bool"},
			},
			Binders: map[string]map[string]string{
				"isAfter, err := e.After(val.CheckBlockNumber, b.CheckBlockNumber)": {"isAfter": "after(new.check, old.check)", "err != nil": "err1 != nil"},
				"isAfter, err = e.After(b.CheckBlockNumber, val.CheckBlockNumber)":  {"isAfter": "after(old.check, new.check)", "err != nil": "err2 != nil"},
			},
			Rets: map[string]int{"false, err": 1, "true, nil": 2, "false, nil": 3},
		},
		{
			Name: "v2_updateIdBlock", Props: []string{"C17"},
			File: "pkg/v2/coordinator/coordinator.go", Func: "reportCoordinator.updateIdBlock",
			Atoms: []atom{
				{"ok", "found", "bool"},
				{"err != nil", "cmp_err", "bool"},
				{"shouldUpdate", "should", "bool"},
			},
			Binders: map[string]map[string]string{
				"idBlock, ok := rc.idBlocks.Get(key)":                     {},
				"shouldUpdate, err := idBlock.shouldUpdate(val, rc.encoder)": {},
			},
			Actions: map[string]int{"rc.idBlocks.Set(key, val, util.DefaultCacheExpiration)": 1},
			Ignore:  []string{`^rc\.logger\.`},
		},
		{
			Name: "v2_Accept", Props: []string{"C17", "C16"},
			File: "pkg/v2/coordinator/coordinator.go", Func: "reportCoordinator.Accept",
			Atoms: []atom{{"err != nil", "bad_key", "bool"}, {"ok", "active", "bool"}},
			Binders: map[string]map[string]string{
				"blockKey, id, err := rc.encoder.SplitUpkeepKey(key)": {},
				"_, ok := rc.activeKeys.Get(string(key))":             {},
			},
			Actions: map[string]int{
				"rc.activeKeys.Set(string(key), false, util.DefaultCacheExpiration)": 1,
				"rc.updateIdBlock(string(id), idBlocker{ CheckBlockNumber: blockKey, TransmitBlockNumber: IndefiniteBlockingKey, })": 2,
			},
			Rets: map[string]int{"err": 1, "nil": 2},
		},
		{
			Name: "v2_IsPending", Props: []string{"C17", "C16"},
			File: "pkg/v2/coordinator/coordinator.go", Func: "reportCoordinator.IsPending",
			Atoms: []atom{
				{"split.err != nil", "bad_key", "bool"},
				{"ok", "found", "bool"},
				{"after.err != nil", "cmp_err", "bool"},
				{"isAfter", "key_after_transmit", "bool"},
			},
			Binders: map[string]map[string]string{
				"blockKey, id, err := rc.encoder.SplitUpkeepKey(key)":                {"err != nil": "split.err != nil"},
				"bl, ok := rc.idBlocks.Get(string(id))":                              {},
				"isAfter, err := rc.encoder.After(blockKey, bl.TransmitBlockNumber)": {"err != nil": "after.err != nil"},
			},
			Rets: map[string]int{
				`true, fmt.Errorf("%w: key parse error", err)`:            1,
				`true, fmt.Errorf("%w: not after transmit number", err)`: 2,
				"!isAfter, nil": 3, // pending exactly when the key's block is not after the transmit block
				"false, nil":    4,
			},
		},
		{
			Name: "v2_IsTransmissionConfirmed", Props: []string{"C17"},
			File: "pkg/v2/coordinator/coordinator.go", Func: "reportCoordinator.IsTransmissionConfirmed",
			Atoms:   []atom{{"ok", "found", "bool"}, {"confirmed", "confirmed", "bool"}},
			Binders: map[string]map[string]string{"confirmed, ok := rc.activeKeys.Get(string(key))": {}},
		},
		{
			Name: "v2_report_body", Props: []string{"C16"},
			File: "pkg/v2/ocr.go", Func: "ocrPlugin.Report", Loop: 2, Wrap: "u64",
			Atoms: []atom{
				{"elig.err != nil", "elig_err", "bool"},
				{"ok", "eligible", "bool"},
				{"detail.err != nil", "detail_err", "bool"},
				{"totalReportGas", "total", "Z"},
				{"upkeepMaxGas", "upkeep_gas", "Z"},
				{"p.conf.GasLimitPerReport", "limit", "Z"},
				{"len(toPerform)", "n_after", "Z"},
				{"p.conf.MaxUpkeepBatchSize", "batch", "Z"},
			},
			Binders: map[string]map[string]string{
				"ok, err := p.encoder.Eligible(result)":     {"err != nil": "elig.err != nil"},
				"key, gas, err := p.encoder.Detail(result)": {"err != nil": "detail.err != nil"},
				"upkeepMaxGas := uint64(gas) + uint64(p.conf.GasOverheadPerUpkeep)": {},
			},
			Actions: map[string]int{
				"toPerform = append(toPerform, result)": 1,
				"totalReportGas += upkeepMaxGas":        2,
			},
			Ignore: []string{`^p\.logger\.`},
		},
	}...)
}
