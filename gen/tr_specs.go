package main

// Functions and loop bodies of /repo translated to Gallina on every run (see translate.go).
// Atom names are the parameters of the generated definitions, in this order.

var trSpecs = []trSpec{
	// ------------------------------------------------------------------ pkg/v3/coordinator (C06, C07, C09)
	{
		Name: "coord_Accept", Props: []string{"C06", "C09"},
		File: "pkg/v3/coordinator/coordinator.go", Func: "coordinator.Accept",
		Atoms: []atom{
			{"ok", "ok", "bool"},
			{"v.checkBlockNumber", "v_check", "Z"},
			{"reportedUpkeep.Trigger.BlockNumber", "blk", "Z"},
		},
		Binders: map[string]map[string]string{
			"v, ok := c.cache.Get(reportedUpkeep.WorkID)": {},
		},
		Actions: map[string]int{
			// 1 = write {check block := reported block, pending := true} with the default expiry
			"c.cache.Set(reportedUpkeep.WorkID, record{ checkBlockNumber: reportedUpkeep.Trigger.BlockNumber, isTransmissionPending: true, }, util.DefaultCacheExpiration)": 1,
		},
		Ignore: []string{`^c\.mu\.Lock\(\)$`, `^defer c\.mu\.Unlock\(\)$`},
	},
	{
		Name: "coord_ShouldTransmit", Props: []string{"C06", "C09"},
		File: "pkg/v3/coordinator/coordinator.go", Func: "coordinator.ShouldTransmit",
		Atoms: []atom{
			{"ok", "ok", "bool"},
			{"v.checkBlockNumber", "v_check", "Z"},
			{"v.isTransmissionPending", "v_pending", "bool"},
			{"reportedUpkeep.Trigger.BlockNumber", "blk", "Z"},
		},
		Binders: map[string]map[string]string{
			"v, ok := c.cache.Get(reportedUpkeep.WorkID)": {},
		},
	},
	{
		Name: "coord_ShouldProcess", Props: []string{"C07", "C08", "C09"},
		File: "pkg/v3/coordinator/coordinator.go", Func: "coordinator.ShouldProcess",
		Atoms: []atom{
			{"ok", "ok", "bool"},
			{"v.isTransmissionPending", "v_pending", "bool"},
			{"c.upkeepTypeGetter(upkeepID)", "utype", "Z"},
			{"types.LogTrigger", "LogTrigger", "Z"},
			{"types.ConditionTrigger", "ConditionTrigger", "Z"},
			{"v.transmitType", "v_ttype", "Z"},
			{"common.PerformEvent", "PerformEvent", "Z"},
			{"trigger.BlockNumber", "blk", "Z"},
			{"v.transmitBlockNumber", "v_tblock", "Z"},
		},
		Binders: map[string]map[string]string{
			"v, ok := c.cache.Get(workID)": {},
		},
	},
	{
		Name: "coord_FilterProposals_body", Props: []string{"C07", "C08", "C09"},
		File: "pkg/v3/coordinator/coordinator.go", Func: "coordinator.FilterProposals", Loop: 1,
		Atoms: []atom{
			{"ok", "ok", "bool"},
			{"v.isTransmissionPending", "v_pending", "bool"},
			{"c.upkeepTypeGetter(proposal.UpkeepID)", "utype", "Z"},
			{"types.LogTrigger", "LogTrigger", "Z"},
			{"v.transmitType", "v_ttype", "Z"},
			{"common.PerformEvent", "PerformEvent", "Z"},
		},
		Binders: map[string]map[string]string{
			"v, ok := c.cache.Get(proposal.WorkID)": {},
		},
		Actions: map[string]int{
			"res = append(res, proposal)": 1, // keep the proposal
		},
	},
	{
		Name: "coord_filter_body", Props: []string{"C07", "C08", "C09"},
		File: "pkg/v3/coordinator/coordinator.go", Func: "coordinator.FilterResults", Loop: 1,
		Atoms: []atom{
			{"c.ShouldProcess(result.WorkID, result.UpkeepID, result.Trigger)", "should", "bool"},
		},
		Actions: map[string]int{
			"res = append(res, result)": 1,
		},
	},
	{
		Name: "coord_preprocess_body", Props: []string{"C07", "C09"},
		File: "pkg/v3/coordinator/coordinator.go", Func: "coordinator.PreProcess", Loop: 1,
		Atoms: []atom{
			{"c.ShouldProcess(payload.WorkID, payload.UpkeepID, payload.Trigger)", "should", "bool"},
		},
		Actions: map[string]int{
			"res = append(res, payload)": 1,
		},
	},
	{
		Name: "coord_checkEvents_body", Props: []string{"C06", "C07", "C09"},
		File: "pkg/v3/coordinator/coordinator.go", Func: "coordinator.checkEvents", Loop: 1,
		Atoms: []atom{
			{"event.Confirmations", "confs", "Z"},
			{"c.minimumConfirmations", "minconf", "Z"},
			{"visited.ok", "visited_ok", "bool"},
			{"cache.ok", "cache_ok", "bool"},
			{"event.CheckBlock", "ev_check", "Z"},
			{"v.checkBlockNumber", "v_check", "Z"},
		},
		Binders: map[string]map[string]string{
			"visitedID := c.visitedID(event)":   {},
			"_, ok := c.visited.Get(visitedID)": {"ok": "visited.ok", "!ok": "!visited.ok"},
			"v, ok := c.cache.Get(event.WorkID)": {"ok": "cache.ok"},
			"r := record{ isTransmissionPending: false, transmitType: event.Type, transmitBlockNumber: event.TransmitBlock, }": {},
		},
		Actions: map[string]int{
			"skipped++": 1,
			"c.visited.Set(visitedID, true, c.performLockoutWindow)":          2, // mark the event as seen
			"r.checkBlockNumber = v.checkBlockNumber":                         3,
			"r.checkBlockNumber = event.CheckBlock":                           4,
			"c.cache.Set(event.WorkID, r, util.DefaultCacheExpiration)":       5, // write {not pending, type, transmit block, check block} with the default expiry
		},
		Ignore: []string{`^c\.mu\.(Lock|Unlock)\(\)$`},
	},
}
