package main

// pkg/v3/plugin: Outcome, performables, coordinatedBlockProposals, Reports (C01-C05, C09)

const sortPerfByShuffle = "sort.Slice(performable, func(i, j int) bool { return random.ShuffleString(performable[i].WorkID, p.keyRandSource) < random.ShuffleString(performable[j].WorkID, p.keyRandSource) })"
const sortPropsByShuffle = "sort.Slice(latestProposals, func(i, j int) bool { return random.ShuffleString(latestProposals[i].WorkID, c.keyRandSource) < random.ShuffleString(latestProposals[j].WorkID, c.keyRandSource) })"
const emitReport = "reports = append(reports, ocr3types.ReportPlus[AutomationReportInfo]{ReportWithInfo: report})"
const encodeErrRet = `reports, fmt.Errorf("error encountered while encoding: %w", err)`

func init() {
	trSpecs = append(trSpecs, []trSpec{
		{
			Name: "outcome_obs_body", Props: []string{"C01", "C02", "C03", "C05", "C09"},
			File: "pkg/v3/plugin/ocr3.go", Func: "ocr3Plugin.Outcome", Loop: 1,
			Atoms: []atom{{"err != nil", "invalid", "bool"}},
			Binders: map[string]map[string]string{
				"observation, err := ocr2keepersv3.DecodeAutomationObservation(attributedObservation.Observation, plugin.UpkeepTypeGetter, plugin.WorkIDGenerator)": {},
			},
			Actions: map[string]int{"p.add(observation)": 1, "c.add(observation)": 2},
		},
		{
			Name: "outcome_body", Props: []string{"C01", "C02", "C03", "C05", "C09"},
			File: "pkg/v3/plugin/ocr3.go", Func: "ocr3Plugin.Outcome",
			Atoms: []atom{
				{"outctx.PreviousOutcome != nil", "prev_nonnil", "bool"},
				{"len(outctx.PreviousOutcome)", "prev_len", "Z"},
				{"err != nil", "prev_err", "bool"},
				{"len(outcome.SurfacedProposals)", "n_rounds", "Z"},
			},
			Binders: map[string]map[string]string{
				// the two thresholds plugin.F+1 are read separately by shapes.go (QuorumPerformablesAdd / QuorumBlocksAdd)
				"p := newPerformables(plugin.F+1, ocr2keepersv3.OutcomeAgreedPerformablesLimit, getRandomKeySource(plugin.ConfigDigest, outctx.SeqNr), plugin.Logger)":                                                                           {},
				"c := newCoordinatedBlockProposals(plugin.F+1, ocr2keepersv3.OutcomeSurfacedProposalsRoundHistoryLimit, ocr2keepersv3.OutcomeSurfacedProposalsLimit, getRandomKeySource(plugin.ConfigDigest, outctx.SeqNr), plugin.Logger)": {},
				"outcome := ocr2keepersv3.AutomationOutcome{}":     {},
				"prevOutcome := ocr2keepersv3.AutomationOutcome{}": {},
				"ao, err := ocr2keepersv3.DecodeAutomationOutcome(outctx.PreviousOutcome, plugin.UpkeepTypeGetter, plugin.WorkIDGenerator)": {},
				"newProposals := 0": {},
			},
			Actions: map[string]int{
				"for _, attributedObservation := range attributedObservations { }": 1, // count the valid observations
				"prevOutcome = ao":            2,
				"p.set(&outcome)":             3,
				"c.set(&outcome, prevOutcome)": 4,
			},
			Rets:   map[string]int{"nil, err": 1, "outcome.Encode()": 2},
			Ignore: []string{`^newProposals = len\(outcome\.SurfacedProposals\[0\]\)$`},
		},
		{
			Name: "perf_add_body", Props: []string{"C01", "C02"},
			File: "pkg/v3/plugin/performable.go", Func: "performables.add", Loop: 1,
			Atoms: []atom{{"ok", "found", "bool"}},
			Binders: map[string]map[string]string{
				"uid := result.UniqueID()":                 {},
				"payloadCount, ok := p.resultCount[uid]": {},
			},
			Actions: map[string]int{
				"payloadCount = resultAndCount{ result: result, count: 1, }": 1, // first copy, one vote
				"payloadCount.count++":                                      2,
				"p.resultCount[uid] = payloadCount":                         3,
			},
		},
		{
			Name: "perf_set_pick", Props: []string{"C01", "C02"},
			File: "pkg/v3/plugin/performable.go", Func: "performables.set", Loop: 2,
			Atoms: []atom{
				{"payload.count", "count", "Z"},
				{"p.quorumThreshold", "thr", "Z"},
				{"addedWid[payload.result.WorkID]", "added", "bool"},
			},
			Binders: map[string]map[string]string{"payload := p.resultCount[uid]": {}},
			Actions: map[string]int{
				"addedWid[payload.result.WorkID] = true":            1,
				"performable = append(performable, payload.result)": 2,
			},
		},
		{
			Name: "perf_set", Props: []string{"C01", "C02", "C03"},
			File: "pkg/v3/plugin/performable.go", Func: "performables.set",
			Atoms: []atom{{"len(performable)", "n_perf", "Z"}, {"p.limit", "limit", "Z"}},
			Binders: map[string]map[string]string{
				"performable := make([]ocr2keepers.CheckResult, 0)": {},
				"addedWid := make(map[string]bool)":                 {},
				"uids := make([]string, 0, len(p.resultCount))":     {},
			},
			Actions: map[string]int{
				"for uid := range p.resultCount { }":  1, // collect the keys (map order)
				"sort.Strings(uids)":                  2,
				"for _, uid := range uids { }":        3, // pick (perf_set_pick)
				sortPerfByShuffle:                     4,
				"performable = performable[:p.limit]": 5,
				"outcome.AgreedPerformables = performable": 6,
			},
		},
		{
			Name: "cbp_add_body", Props: []string{"C05", "C02"},
			File: "pkg/v3/plugin/coordinated_block_proposals.go", Func: "coordinatedBlockProposals.add", Loop: 1,
			Atoms:   []atom{{"present", "present", "bool"}},
			Binders: map[string]map[string]string{"_, present := c.recentBlocks[val]": {}},
			Actions: map[string]int{"c.recentBlocks[val]++": 1, "c.recentBlocks[val] = 1": 2},
		},
		{
			Name: "cbp_lqb_body", Props: []string{"C05", "C02"},
			File: "pkg/v3/plugin/coordinated_block_proposals.go", Func: "coordinatedBlockProposals.getLatestQuorumBlock", Loop: 1,
			Atoms: []atom{
				{"block.Hash", "b_hash", "Z"},
				{"zeroHash", "zero", "Z"},
				{"count", "cnt", "Z"},
				{"c.quorumBlockthreshold", "thr", "Z"},
				{"mostRecent.Hash", "m_hash", "Z"},
				{"block.Number", "b_num", "Z"},
				{"mostRecent.Number", "m_num", "Z"},
			},
			Actions: map[string]int{"mostRecent = block": 1},
		},
		{
			Name: "cbp_lqb", Props: []string{"C05", "C02"},
			File: "pkg/v3/plugin/coordinated_block_proposals.go", Func: "coordinatedBlockProposals.getLatestQuorumBlock",
			Atoms:   []atom{},
			Binders: map[string]map[string]string{"var ( mostRecent ocr2keepers.BlockKey zeroHash [32]byte )": {}},
			Actions: map[string]int{"for block, count := range c.recentBlocks { }": 1},
			Rets:    map[string]int{"mostRecent, mostRecent.Hash != zeroHash": 1},
		},
		{
			Name: "cbp_carry_body", Props: []string{"C05"},
			File: "pkg/v3/plugin/coordinated_block_proposals.go", Func: "coordinatedBlockProposals.set", Loop: 2,
			Atoms:   []atom{{"performableExists(outcome.AgreedPerformables, proposal)", "performed", "bool"}},
			Actions: map[string]int{"roundProposals = append(roundProposals, proposal)": 1},
		},
		{
			Name: "cbp_new_body", Props: []string{"C05", "C02"},
			File: "pkg/v3/plugin/coordinated_block_proposals.go", Func: "coordinatedBlockProposals.set", Loop: 3,
			Atoms: []atom{
				{"proposalExists(outcome.SurfacedProposals, proposal)", "in_history", "bool"},
				{"performableExists(outcome.AgreedPerformables, proposal)", "performed", "bool"},
				{"added[proposal.WorkID]", "added", "bool"},
				{"newProposal.Trigger.LogTriggerExtension != nil", "has_ext", "bool"},
			},
			Actions: map[string]int{
				"newProposal := proposal": 1,
				"newProposal.Trigger.BlockNumber = latestQuorumBlock.Number":  2,
				"newProposal.Trigger.BlockHash = latestQuorumBlock.Hash":      3,
				"newProposal.Trigger.LogTriggerExtension.BlockNumber = 0":     4,
				"latestProposals = append(latestProposals, newProposal)":      5,
				"added[proposal.WorkID] = true":                               6,
			},
		},
		{
			Name: "cbp_set", Props: []string{"C05", "C02", "C03"},
			File: "pkg/v3/plugin/coordinated_block_proposals.go", Func: "coordinatedBlockProposals.set",
			Atoms: []atom{
				{"ok", "quorum_block", "bool"},
				{"len(outcome.SurfacedProposals)", "n_rounds", "Z"},
				{"c.roundHistoryLimit", "hist_limit", "Z"},
				{"len(latestProposals)", "n_latest", "Z"},
				{"c.perRoundLimit", "per_round", "Z"},
			},
			Binders: map[string]map[string]string{
				"latestQuorumBlock, ok := c.getLatestQuorumBlock()":              {},
				"latestProposals := []ocr2keepers.CoordinatedBlockProposal{}": {},
				"added := make(map[string]bool)":                                {},
			},
			Actions: map[string]int{
				"outcome.SurfacedProposals = [][]ocr2keepers.CoordinatedBlockProposal{}": 1,
				"for _, round := range prevOutcome.SurfacedProposals { }":              2, // carry over (cbp_carry_body)
				"outcome.SurfacedProposals = outcome.SurfacedProposals[:c.roundHistoryLimit-1]": 3,
				"for _, proposal := range c.allNewProposals { }":                                 4, // new proposals (cbp_new_body)
				sortPropsByShuffle: 5,
				"latestProposals = latestProposals[:c.perRoundLimit]": 6,
				"outcome.SurfacedProposals = append([][]ocr2keepers.CoordinatedBlockProposal{latestProposals}, outcome.SurfacedProposals...)": 7,
			},
		},
		{
			Name: "reports_body", Props: []string{"C04", "C02", "C03"},
			File: "pkg/v3/plugin/ocr3.go", Func: "ocr3Plugin.Reports", Loop: 1, Wrap: "u64",
			Atoms: []atom{
				{"len(toPerform)", "n_cur", "Z"},
				{"plugin.Config.MaxUpkeepBatchSize", "batch", "Z"},
				{"gasUsed", "gas_used", "Z"},
				{"result.GasAllocated", "gas", "Z"},
				{"plugin.Config.GasOverheadPerUpkeep", "over", "Z"},
				{"plugin.Config.GasLimitPerReport", "limit", "Z"},
				{"seenUpkeepIDs[result.UpkeepID.String()]", "seen", "bool"},
				{"err != nil", "enc_err", "bool"},
			},
			Binders: map[string]map[string]string{"report, err := plugin.getReportFromPerformables(toPerform)": {}},
			Actions: map[string]int{
				emitReport: 1,
				"toPerform = []ocr2keepers.CheckResult{}":  2,
				"gasUsed = 0":                              3,
				"seenUpkeepIDs = make(map[string]bool)":    4,
				"gasUsed += result.GasAllocated + uint64(plugin.Config.GasOverheadPerUpkeep)": 5,
				"toPerform = append(toPerform, outcome.AgreedPerformables[i])":                6,
				"seenUpkeepIDs[result.UpkeepID.String()] = true":                              7,
			},
			Rets:   map[string]int{encodeErrRet: 1},
			Ignore: []string{`^performablesAdded \+= len\(toPerform\)$`},
		},
		{
			Name: "reports", Props: []string{"C04", "C02", "C03"},
			File: "pkg/v3/plugin/ocr3.go", Func: "ocr3Plugin.Reports",
			Atoms: []atom{
				{"dec.err != nil", "dec_err", "bool"},
				{"len(toPerform)", "n_cur", "Z"},
				{"enc.err != nil", "enc_err", "bool"},
			},
			Binders: map[string]map[string]string{
				"var ( reports []ocr3types.ReportPlus[AutomationReportInfo] outcome ocr2keepersv3.AutomationOutcome err error )":               {},
				"outcome, err = ocr2keepersv3.DecodeAutomationOutcome(raw, plugin.UpkeepTypeGetter, plugin.WorkIDGenerator)": {"err != nil": "dec.err != nil"},
				"toPerform := []ocr2keepers.CheckResult{}": {},
				"var gasUsed uint64":                       {},
				"seenUpkeepIDs := make(map[string]bool)":   {},
				"performablesAdded := 0":                   {},
				"report, err := plugin.getReportFromPerformables(toPerform)": {"err != nil": "enc.err != nil"},
			},
			Actions: map[string]int{
				"for i, result := range outcome.AgreedPerformables { }": 1, // the batching fold (reports_body)
				emitReport: 2,
			},
			Rets:   map[string]int{"nil, err": 1, encodeErrRet: 2, "reports, nil": 3},
			Ignore: []string{`^performablesAdded \+= len\(toPerform\)$`},
		},
	}...)
}
