package main

// pkg/v3/plugin/hooks (C08, C03, C07, C10, C11) and pkg/v3/postprocessors (C12): mostly straight-line glue; what the
// translation pins is WHICH steps run, IN WHICH ORDER, and the cut / routing conditions.

func init() {
	shuffle := func(v string) string {
		return "rand.New(random.NewKeyedCryptoRandSource(rSrc)).Shuffle(len(" + v + "), func(i, j int) { " + v + "[i], " + v + "[j] = " + v + "[j], " + v + "[i] })"
	}
	trSpecs = append(trSpecs, []trSpec{
		{
			Name: "hook_staging", Props: []string{"C08", "C03", "C07"},
			File: "pkg/v3/plugin/hooks/add_from_staging.go", Func: "AddFromStagingHook.RunHook",
			Atoms: []atom{{"view.err != nil", "view_err", "bool"}, {"filter.err != nil", "filter_err", "bool"}, {"enc.err != nil", "enc_err", "bool"}},
			Binders: map[string]map[string]string{
				"results, err := hook.store.View()":                {"err != nil": "view.err != nil"},
				"results, err = hook.coord.FilterResults(results)": {"err != nil": "filter.err != nil"},
				"b, err := obs.Encode()":                           {"err != nil": "enc.err != nil"},
			},
			Actions: map[string]int{
				"results = hook.sorter.orderResults(results, rSrc)":                              1,
				"added, _ := hook.addByPercentageExceeded(obs, limit, results, len(b))": 2,
			},
			Rets:   map[string]int{"err": 1, "nil": 0},
			Ignore: []string{`^hook\.logger\.`},
		},
		{
			Name: "hook_staging_trim", Props: []string{"C08", "C03"},
			File: "pkg/v3/plugin/hooks/add_from_staging.go", Func: "AddFromStagingHook.addByPercentageExceeded",
			Atoms: []atom{
				{"limit", "limit", "Z"}, {"len(results)", "n_results", "Z"},
				{"observationSize", "size", "Z"}, {"ocr2keepersv3.MaxObservationLength", "max_len", "Z"},
				{"limit.after", "limit_after", "Z"},
			},
			Binders: map[string]map[string]string{
				"encodingCalls := 1":          {},
				"b, _ := obs.Encode()":        {},
				"observationSize := len(b)":   {},
				"limit = len(results)":        {"limit": "len(results)"},
				"performablesSize := observationSize - baseSize":                                          {},
				"avgPerformableSize := performablesSize / limit":                                          {},
				"exceededBy := observationSize - ocr2keepersv3.MaxObservationLength":                      {},
				"avgPerformablesExceeded := int(math.Ceil(float64(exceededBy) / float64(avgPerformableSize)))": {},
				"limit -= avgPerformablesExceeded + 1":                                                    {"limit": "limit.after"},
				"added, numEncodings := hook.addByPercentageExceeded(obs, limit, results, baseSize)":       {},
			},
			Actions: map[string]int{"obs.Performable = results[:limit]": 1},
			Rets: map[string]int{
				"len(obs.Performable), 0":             1,
				"len(obs.Performable), encodingCalls": 2,
				"added, numEncodings + encodingCalls": 3, // the result of the recursive call with the lowered limit
			},
		},
		{
			Name: "hook_sorter_memo", Props: []string{"C08"},
			File: "pkg/v3/plugin/hooks/add_from_staging.go", Func: "stagedResultSorter.updateShuffledIDs",
			Atoms:   []atom{{"bytes.Equal(sorter.lastRandSrc[:], rSrc[:])", "same_source", "bool"}},
			Actions: map[string]int{"sorter.lastRandSrc = rSrc": 1, "sorter.shuffledIDs = make(map[string]string)": 2, "for _, result := range results { }": 3},
			Rets:    map[string]int{"sorter.shuffledIDs": 1},
		},
		{
			Name: "hook_sorter_memo_body", Props: []string{"C08"},
			File: "pkg/v3/plugin/hooks/add_from_staging.go", Func: "stagedResultSorter.updateShuffledIDs", Loop: 1,
			Atoms:   []atom{{"ok", "known", "bool"}},
			Binders: map[string]map[string]string{"_, ok := sorter.shuffledIDs[result.WorkID]": {}},
			Actions: map[string]int{"sorter.shuffledIDs[result.WorkID] = random.ShuffleString(result.WorkID, rSrc)": 1},
		},
		{
			Name: "hook_log_proposals", Props: []string{"C08", "C07", "C03"},
			File: "pkg/v3/plugin/hooks/add_log_proposals.go", Func: "AddLogProposalsHook.RunHook",
			Atoms: []atom{{"err != nil", "filter_err", "bool"}, {"len(proposals)", "n", "Z"}, {"limit", "limit", "Z"}},
			Binders: map[string]map[string]string{"var err error": {}},
			Actions: map[string]int{
				"proposals := h.metadata.ViewProposals(types.LogTrigger)":       1,
				"proposals, err = h.coordinator.FilterProposals(proposals)":     2,
				shuffle("proposals"):                                            3,
				"proposals = proposals[:limit]":                                 4,
				"obs.UpkeepProposals = append(obs.UpkeepProposals, proposals...)": 5,
			},
			Rets:   map[string]int{"err": 1, "nil": 0},
			Ignore: []string{`^h\.logger\.`},
		},
		{
			Name: "hook_cond_proposals", Props: []string{"C08", "C07", "C03"},
			File: "pkg/v3/plugin/hooks/add_conditional_proposals.go", Func: "AddConditionalProposalsHook.RunHook",
			Atoms: []atom{{"err != nil", "filter_err", "bool"}, {"len(conditionals)", "n", "Z"}, {"limit", "limit", "Z"}},
			Binders: map[string]map[string]string{"var err error": {}},
			Actions: map[string]int{
				"conditionals := h.metadata.ViewProposals(types.ConditionTrigger)":   1,
				"conditionals, err = h.coord.FilterProposals(conditionals)":          2,
				shuffle("conditionals"):                                              3,
				"conditionals = conditionals[:limit]":                                4,
				"obs.UpkeepProposals = append(obs.UpkeepProposals, conditionals...)": 5,
			},
			Rets:   map[string]int{"err": 1, "nil": 0},
			Ignore: []string{`^h\.logger\.`},
		},
		{
			Name: "hook_block_history", Props: []string{"C08", "C03"},
			File: "pkg/v3/plugin/hooks/add_block_history.go", Func: "AddBlockHistoryHook.RunHook",
			Atoms: []atom{{"len(blockHistory)", "n", "Z"}, {"limit", "limit", "Z"}},
			Actions: map[string]int{
				"blockHistory := h.metadata.GetBlockHistory()": 1,
				"blockHistory = blockHistory[:limit]":          2,
				"obs.BlockHistory = blockHistory":              3,
			},
			Ignore: []string{`^h\.logger\.`},
		},
		{
			Name: "hook_proposalq_body", Props: []string{"C11"},
			File: "pkg/v3/plugin/hooks/add_to_proposalq.go", Func: "AddToProposalQHook.RunHook", Loop: 1,
			Atoms:   []atom{{"err != nil", "enq_err", "bool"}},
			Binders: map[string]map[string]string{},
			Actions: map[string]int{"err := hook.proposalQ.Enqueue(roundProposals...)": 1, "addedProposals += len(roundProposals)": 2},
			Ignore:  []string{`^hook\.logger\.`},
		},
		{
			Name: "hook_remove_metadata_body", Props: []string{"C11"},
			File: "pkg/v3/plugin/hooks/remove_from_metadata.go", Func: "RemoveFromMetadataHook.RunHook", Loop: 2,
			Atoms:   []atom{},
			Actions: map[string]int{"hook.ms.RemoveProposals(proposal)": 1, "removed++": 2},
		},
		{
			Name: "hook_remove_metadata", Props: []string{"C11"},
			File: "pkg/v3/plugin/hooks/remove_from_metadata.go", Func: "RemoveFromMetadataHook.RunHook",
			Atoms:   []atom{},
			Binders: map[string]map[string]string{"removed := 0": {}},
			Actions: map[string]int{"for _, round := range outcome.SurfacedProposals { }": 1},
			Ignore:  []string{`^hook\.logger\.`},
		},
		{
			Name: "hook_remove_staging", Props: []string{"C10"},
			File: "pkg/v3/plugin/hooks/remove_from_staging.go", Func: "RemoveFromStagingHook.RunHook",
			Atoms:   []atom{},
			Binders: map[string]map[string]string{"toRemove := make([]string, 0, len(outcome.AgreedPerformables))": {}},
			Actions: map[string]int{"for _, result := range outcome.AgreedPerformables { }": 1, "hook.store.Remove(toRemove...)": 2},
			Ignore:  []string{`^hook\.logger\.`},
		},
		{
			Name: "hook_remove_staging_body", Props: []string{"C10"},
			File: "pkg/v3/plugin/hooks/remove_from_staging.go", Func: "RemoveFromStagingHook.RunHook", Loop: 1,
			Atoms:   []atom{},
			Actions: map[string]int{"toRemove = append(toRemove, result.WorkID)": 1},
		},
		// ---- post-processors
		{
			Name: "pp_eligible_body", Props: []string{"C12", "C10"},
			File: "pkg/v3/postprocessors/eligible.go", Func: "eligiblePostProcessor.PostProcess", Loop: 1,
			Atoms:   []atom{{"res.PipelineExecutionState", "state", "Z"}, {"res.Eligible", "eligible", "bool"}},
			Actions: map[string]int{"eligible++": 1, "p.resultsAdder.Add(res)": 2},
		},
		{
			Name: "pp_ineligible_body", Props: []string{"C12"},
			File: "pkg/v3/postprocessors/ineligible.go", Func: "ineligiblePostProcessor.PostProcess", Loop: 1,
			Atoms:   []atom{{"res.PipelineExecutionState", "state", "Z"}, {"res.Eligible", "eligible", "bool"}, {"err != nil", "upd_err", "bool"}},
			Actions: map[string]int{"err := p.stateUpdater.SetUpkeepState(ctx, res, ocr2keepers.Ineligible)": 1, "merr = errors.Join(merr, err)": 2, "ineligible++": 3},
		},
		{
			Name: "pp_retry_body", Props: []string{"C12"},
			File: "pkg/v3/postprocessors/retry.go", Func: "retryablePostProcessor.PostProcess", Loop: 1,
			Atoms: []atom{{"res.PipelineExecutionState", "state", "Z"}, {"res.Retryable", "retryable", "bool"}, {"ok", "found", "bool"}, {"e == nil", "enq_ok", "bool"}},
			Actions: map[string]int{
				"payload, ok := payloadOf(res, i, payloads)": 1,
				`err = errors.Join(err, fmt.Errorf("no payload found for retryable result with work ID '%s'", res.WorkID))`: 2,
				"e := p.q.Enqueue(types.RetryRecord{ Payload: payload, Interval: res.RetryInterval, })":                       3,
				"retryable++":               4,
				"err = errors.Join(err, e)": 5,
			},
		},
		{
			Name: "pp_payloadOf", Props: []string{"C12"},
			File: "pkg/v3/postprocessors/retry.go", Func: "payloadOf",
			Atoms: []atom{{`res.WorkID == ""`, "no_wid", "bool"}, {"pos", "pos", "Z"}, {"len(payloads)", "n", "Z"}, {"found", "found", "Z"}},
			Binders: map[string]map[string]string{"found := -1": {}},
			Actions: map[string]int{"for i, payload := range payloads { }": 1},
			Rets: map[string]int{"payloads[pos], true": 1, "ocr2keepers.UpkeepPayload{}, false": 2, "payloads[found], true": 3},
		},
		{
			Name: "pp_payloadOf_body", Props: []string{"C12"},
			File: "pkg/v3/postprocessors/retry.go", Func: "payloadOf", Loop: 1,
			Atoms: []atom{
				{"payload.WorkID", "p_wid", "Z"}, {"res.WorkID", "r_wid", "Z"},
				{"payload.Trigger.BlockNumber", "p_blk", "Z"}, {"res.Trigger.BlockNumber", "r_blk", "Z"},
				{"payload.Trigger.BlockHash", "p_hash", "Z"}, {"res.Trigger.BlockHash", "r_hash", "Z"},
				{"found", "found", "Z"},
			},
			Actions: map[string]int{"found = i": 1},
			Rets:    map[string]int{"payload, true": 1},
		},
		{
			Name: "pp_metadata_body", Props: []string{"C12", "C11"},
			File: "pkg/v3/postprocessors/metadata.go", Func: "addProposalToMetadataStore.PostProcess", Loop: 1,
			Atoms:   []atom{{"r.PipelineExecutionState", "state", "Z"}, {"r.Eligible", "eligible", "bool"}},
			Binders: map[string]map[string]string{"proposal := ocr2keepers.CoordinatedBlockProposal{ UpkeepID: r.UpkeepID, Trigger: r.Trigger, WorkID: r.WorkID, }": {}},
			Actions: map[string]int{"a.metadataStore.AddProposals(proposal)": 1},
		},
		{
			Name: "pp_combine_body", Props: []string{"C12"},
			File: "pkg/v3/postprocessors/combine.go", Func: "CombinedPostprocessor.PostProcess", Loop: 1,
			Atoms:   []atom{},
			Actions: map[string]int{"err = errors.Join(err, pp.PostProcess(ctx, results, payloads))": 1},
		},
	}...)
}
