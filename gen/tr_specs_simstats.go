package main

// Simulator verdict (C20): expected-perform count, progress trackers, summary statistics.

func init() {
	trSpecs = append(trSpecs, []trSpec{
		{
			Name: "sim_expected", Props: []string{"C20"},
			File: "tools/simulator/simulate/loader/ocr3transmit.go", Func: "calculateExpectedPerformEvents",
			Atoms: []atom{{"up.err != nil", "upkeeps_err", "bool"}, {"logs.err != nil", "logs_err", "bool"}},
			Binders: map[string]map[string]string{
				"var count int64": {},
				"upkeeps, err := chain.GenerateAllUpkeeps(plan)": {"err != nil": "up.err != nil"},
				"logs, err := chain.GenerateLogTriggers(plan)":   {"err != nil": "logs.err != nil"},
			},
			Actions: map[string]int{"for _, upkeep := range upkeeps { }": 1},
			Rets:    map[string]int{"count, err": 1, "count, nil": 0},
		},
		{
			Name: "sim_expected_upkeep", Props: []string{"C20"},
			File: "tools/simulator/simulate/loader/ocr3transmit.go", Func: "calculateExpectedPerformEvents", Loop: 1,
			Atoms: []atom{
				{"upkeep.Expected", "expected", "bool"}, {"upkeep.Type", "typ", "Z"},
				{"chain.ConditionalType", "t_conditional", "Z"}, {"chain.LogTriggerType", "t_log", "Z"},
			},
			Actions: map[string]int{"count += int64(len(upkeep.EligibleAt))": 1, "for _, log := range logs { }": 2},
		},
		{
			Name: "sim_expected_log", Props: []string{"C20"},
			File: "tools/simulator/simulate/loader/ocr3transmit.go", Func: "calculateExpectedPerformEvents", Loop: 2,
			Atoms:   []atom{{"logTriggersUpkeep(log, upkeep)", "triggers", "bool"}},
			Actions: map[string]int{"count++": 1},
		},
		{
			Name: "sim_log_triggers", Props: []string{"C20"},
			File: "tools/simulator/simulate/loader/ocr3transmit.go", Func: "logTriggersUpkeep",
			Atoms: []atom{
				{"log.TriggerAt.Cmp(upkeep.CreateInBlock)", "cmp_create", "Z"}, {"log.TriggerValue == upkeep.TriggeredBy", "same_value", "bool"},
				{"upkeep.AlwaysEligible", "always", "bool"},
			},
			Actions: map[string]int{"for _, block := range upkeep.EligibleAt { }": 1},
		},
		{
			Name: "sim_log_triggers_block", Props: []string{"C20"},
			File: "tools/simulator/simulate/loader/ocr3transmit.go", Func: "logTriggersUpkeep", Loop: 1,
			Atoms: []atom{{"block.Cmp(log.TriggerAt)", "cmp_block", "Z"}},
		},
		{
			Name: "sim_count_performs", Props: []string{"C20"},
			File: "tools/simulator/simulate/loader/ocr3transmit.go", Func: "countPerformEvents",
			Atoms:   []atom{{"err != nil", "decode_err", "bool"}, {"int64(len(results))", "n_results", "Z"}},
			Binders: map[string]map[string]string{"results, err := util.DecodeCheckResultsFromReportBytes(report)": {}},
		},
		{
			Name: "sim_track_body", Props: []string{"C20"},
			File: "tools/simulator/telemetry/progress.go", Func: "ProgressTelemetry.track", Loop: 1,
			Atoms: []atom{
				{"increment := <-chIncrements", "got_increment", "bool"}, {"negativeAssert", "negative", "bool"},
				{"tracker.Value()", "value", "Z"}, {"total", "total", "Z"},
			},
			Actions: map[string]int{
				"tracker.MarkAsErrored()": 1, "t.failed.Add(1)": 2, "tracker.Increment(increment)": 3, "tracker.MarkAsDone()": 4,
			},
		},
		{
			Name: "sim_track", Props: []string{"C20"},
			File: "tools/simulator/telemetry/progress.go", Func: "ProgressTelemetry.track",
			Atoms:   []atom{{"total", "total", "Z"}},
			Binders: map[string]map[string]string{
				"var negativeAssert bool": {},
				"tracker := progress.Tracker{ Message: namespace, Total: total, Units: progress.UnitsDefault, DeferStart: true, }": {},
			},
			Actions: map[string]int{"negativeAssert = true": 1, "t.writer.AppendTracker(&tracker)": 2, "for !tracker.IsDone() { }": 3},
		},
		{
			Name: "sim_median_split", Props: []string{"C20"},
			File: "tools/simulator/node/statistics.go", Func: "findMedianAndSplitData",
			Atoms: []atom{{"len(values)", "n", "Z"}},
			Actions: map[string]int{
				"idx := len(values) / 2": 1, "median = float64(values[idx-1]+values[idx]) / 2": 2, "a = values[:idx]": 3, "b = values[idx:]": 4,
				"idx := int(math.Floor(float64(len(values)) / 2))": 5, "median = float64(values[idx])": 6, "b = values[idx+1:]": 7,
			},
		},
		{
			Name: "sim_lowest_body", Props: []string{"C20"},
			File: "tools/simulator/node/statistics.go", Func: "findLowestAndOutliers", Loop: 1,
			Atoms:   []atom{{"set[i]", "x", "Z"}, {"int(lowerFence)", "fence", "Z"}, {"lowest", "lowest", "Z"}},
			Actions: map[string]int{"outliers++": 1, "lowest = set[i]": 2},
		},
		{
			Name: "sim_highest_body", Props: []string{"C20"},
			File: "tools/simulator/node/statistics.go", Func: "findHighestAndOutliers", Loop: 1,
			Atoms:   []atom{{"set[i]", "x", "Z"}, {"int(upperFence)", "fence", "Z"}, {"highest", "highest", "Z"}},
			Actions: map[string]int{"outliers++": 1, "highest = set[i]": 2},
		},
	}...)
}

func init() {
	scan := func(name string, loop int, list, start string) trSpec {
		return trSpec{
			Name: name, Props: []string{"C20"},
			File: "tools/simulator/node/stats.go", Func: "upkeepStatsBuilder.UpkeepStats", Loop: loop,
			Atoms: []atom{{list + "[j] > eligible[i]", "later", "bool"}},
			Binders: map[string]map[string]string{
				"a, _ := new(big.Int).SetString(" + list + "[j], 10)": {}, "b, _ := new(big.Int).SetString(eligible[i], 10)": {},
			},
			Actions: map[string]int{
				"a, _ := new(big.Int).SetString(" + list + "[j], 10)": 1, "b, _ := new(big.Int).SetString(eligible[i], 10)": 2,
				"diff = int(new(big.Int).Sub(a, b).Int64())": 3, start + " = j + 1": 4,
			},
		}
	}
	trSpecs = append(trSpecs, []trSpec{
		{
			Name: "sim_stats_body", Props: []string{"C20"},
			File: "tools/simulator/node/stats.go", Func: "upkeepStatsBuilder.UpkeepStats", Loop: 1,
			Atoms: []atom{
				{"pStartAt", "p_start", "Z"}, {"len(performed)", "n_performed", "Z"},
				{"cStartAt", "c_start", "Z"}, {"len(checked)", "n_checked", "Z"},
				{"p.diff", "p_diff", "Z"}, {"c.diff", "c_diff", "Z"},
				{"pDelay < 0", "p_first", "bool"}, {"cDelay < 0", "c_first", "bool"},
			},
			Binders: map[string]map[string]string{
				"diff := -1": {},
				"for j := pStartAt; j < len(performed); j++ { }": {"diff": "p.diff"},
				"for j := cStartAt; j < len(checked); j++ { }":   {"diff": "c.diff"},
			},
			Actions: map[string]int{
				"for j := pStartAt; j < len(performed); j++ { }": 1, "pDelay = float64(diff)": 2, "pDelay = (float64(diff) + pDelay) / 2": 3,
				"for j := cStartAt; j < len(checked); j++ { }": 4, "cDelay = float64(diff)": 5, "cDelay = (float64(diff) + cDelay) / 2": 6,
			},
		},
		scan("sim_stats_scan_performed", 2, "performed", "pStartAt"),
		scan("sim_stats_scan_checked", 3, "checked", "cStartAt"),
		{
			Name: "sim_upkeep_ids_body", Props: []string{"C20"},
			File: "tools/simulator/node/stats.go", Func: "upkeepStatsBuilder.UpkeepIDs", Loop: 1,
			Atoms: []atom{{"found", "found", "bool"}},
			Binders: map[string]map[string]string{"var found bool": {}, "srcUpkeepID := ocr2keepers.UpkeepIdentifier(upkeep.UpkeepID)": {}},
			Actions: map[string]int{"for _, upkeepID := range allIDs { }": 1, "allIDs = append(allIDs, srcUpkeepID.String())": 2},
		},
		{
			Name: "sim_upkeep_ids_scan", Props: []string{"C20"},
			File: "tools/simulator/node/stats.go", Func: "upkeepStatsBuilder.UpkeepIDs", Loop: 2,
			Atoms:   []atom{{"upkeepID == srcUpkeepID.String()", "same", "bool"}},
			Actions: map[string]int{"found = true": 1},
		},
	}...)
}

func init() {
	trSpecs = append(trSpecs, trSpec{
		Name: "sim_plan_decode_event", Props: []string{"C20"},
		File: "tools/simulator/config/simulation.go", Func: "DecodeSimulationPlan", Loop: 1,
		Atoms: []atom{
			{"ev.err != nil", "ev_err", "bool"}, {"event.Type", "typ", "Z"},
			{"OCR3ConfigEventType", "t_config", "Z"}, {"GenerateUpkeepEventType", "t_generate", "Z"}, {"LogTriggerEventType", "t_log", "Z"},
			{"cfg.err != nil", "cfg_err", "bool"}, {"gen.err != nil", "gen_err", "bool"}, {"log.err != nil", "log_err", "bool"},
			{`generateEvent.Expected == ""`, "no_expected", "bool"},
		},
		Binders: map[string]map[string]string{
			"var event Event": {}, "var configEvent OCR3ConfigEvent": {}, "var generateEvent GenerateUpkeepEvent": {}, "var logEvent LogTriggerEvent": {},
			"err := json.Unmarshal(rawEvent, &event)":         {"err != nil": "ev.err != nil"},
			"err := json.Unmarshal(rawEvent, &configEvent)":   {"err != nil": "cfg.err != nil"},
			"err := json.Unmarshal(rawEvent, &generateEvent)": {"err != nil": "gen.err != nil"},
			"err := json.Unmarshal(rawEvent, &logEvent)":      {"err != nil": "log.err != nil"},
		},
		Actions: map[string]int{
			"plan.ConfigEvents = append(plan.ConfigEvents, configEvent)": 1, "generateEvent.Expected = AllExpected": 2,
			"plan.GenerateUpkeeps = append(plan.GenerateUpkeeps, generateEvent)": 3, "plan.LogEvents = append(plan.LogEvents, logEvent)": 4,
		},
		Rets: map[string]int{
			`plan, fmt.Errorf("%w: failed to decode event in simulation plan: %s", ErrEncoding, err.Error())`:                                  1,
			`plan, fmt.Errorf("%w: failed to decode ocr3config event in simulation plan at index %d: %s", ErrEncoding, idx, err.Error())`:      2,
			`plan, fmt.Errorf("%w: failed to decode generateUpkeep event in simulation plan at index %d: %s", ErrEncoding, idx, err.Error())`: 3,
			`plan, fmt.Errorf("%w: failed to decode logTrigger event in simulation plan at index %d: %s", ErrEncoding, idx, err.Error())`:     4,
			`plan, fmt.Errorf("%w: unrecognized event at index %d", ErrEncoding, idx)`:                                                       5,
		},
	})
}

func init() {
	trSpecs = append(trSpecs, trSpec{
		Name: "sim_main_exit", Props: []string{"C20"},
		File: "cmd/simulator/main.go", Func: "main", After: "wg.Wait()",
		Atoms:   []atom{{"progress.AllProgressComplete()", "all_complete", "bool"}},
		Actions: map[string]int{"os.Exit(1)": 1},
		Ignore:  []string{`^fmt\.Print`},
	})
}

func init() {
	trSpecs = append(trSpecs, []trSpec{
		{
			Name: "sim_check_progress", Props: []string{"C20"},
			File: "tools/simulator/telemetry/progress.go", Func: "ProgressTelemetry.checkProgress",
			Binders: map[string]map[string]string{"ticker := time.NewTicker(trackerProgressCheck)": {}},
			Actions: map[string]int{
				"for t.writer.IsRenderInProgress() { }": 1,
				"t.success.Store(t.writer.Length() == t.writer.LengthDone() && t.failed.Load() == 0)": 2,
				"close(t.chComplete)": 3,
			},
		},
		{
			Name: "sim_check_progress_body", Props: []string{"C20"},
			File: "tools/simulator/telemetry/progress.go", Func: "ProgressTelemetry.checkProgress", Loop: 1,
			Atoms: []atom{
				{"<-ticker.C", "tick", "bool"}, {"t.writer.Length()", "n_trackers", "Z"}, {"t.writer.LengthActive()", "n_active", "Z"},
			},
			Actions: map[string]int{"t.writer.Stop()": 1, "time.Sleep(500 * time.Millisecond)": 2, "ticker.Stop()": 3},
		},
		{
			Name: "sim_all_progress_complete", Props: []string{"C20"},
			File: "tools/simulator/telemetry/progress.go", Func: "ProgressTelemetry.AllProgressComplete",
			Actions: map[string]int{"<-t.chComplete": 1},
			Rets:    map[string]int{"t.success.Load()": 1},
		},
	}...)
}
