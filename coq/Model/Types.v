(* Shared value types of the OCR3 plug-in model (field-complete images of the Go structs of
   chainlink-common/pkg/types/automation that take part in agreement).
   Ids, hashes and work ids are N (the harness interns the 32-byte / string values to small
   integers, order-preserving where the code compares them); byte strings are list N;
   *big.Int is option Z (None = nil).  No proofs in this file. *)
From Verif Require Export Base.Util.

Record blockkey := mkBK { bk_num : N; bk_hash : N }.

Record logext := mkExt {
  le_txhash : N; le_index : N; le_blockhash : N; le_blocknum : N }.

Record trigger := mkTrig {
  t_num : N; t_hash : N; t_ext : option logext }.

Record result := mkRes {
  r_state : N;            (* PipelineExecutionState uint8 *)
  r_retryable : bool;
  r_eligible : bool;
  r_reason : N;           (* IneligibilityReason uint8 *)
  r_upk : N;              (* UpkeepID *)
  r_trig : trigger;
  r_wid : N;              (* WorkID *)
  r_gas : N;              (* GasAllocated uint64 *)
  r_pdata : list N;       (* PerformData; the harness may intern it to a single-element list *)
  r_fgw : option Z;       (* FastGasWei *)
  r_ln : option Z         (* LinkNative *)
}.

Record proposal := mkProp { p_upk : N; p_trig : trigger; p_wid : N }.

Record observation := mkObs {
  o_perf : list result; o_props : list proposal; o_hist : list blockkey }.

Record outcome := mkOut {
  oc_agreed : list result; oc_surfaced : list (list proposal) }.

(* upkeep types (types.UpkeepType): 0 = ConditionTrigger, 1 = LogTrigger, anything else = other *)
Definition ut_cond : N := 0%N.
Definition ut_log : N := 1%N.

(* ---------------- decidable equality (boolean) ---------------- *)
(* lazy conjunction: vm_compute is call-by-value, so [andb] would evaluate both sides *)
Notation "a &&& b" := (if a then b else false) (at level 40, left associativity).

Definition opt_eqb {A} (e : A -> A -> bool) (a b : option A) : bool :=
  match a, b with
  | None, None => true
  | Some x, Some y => e x y
  | _, _ => false
  end.

Definition bk_eqb (a b : blockkey) : bool := N.eqb (bk_num a) (bk_num b) &&& N.eqb (bk_hash a) (bk_hash b).

Definition ext_eqb (a b : logext) : bool :=
  N.eqb (le_txhash a) (le_txhash b) &&& N.eqb (le_index a) (le_index b)
  &&& N.eqb (le_blockhash a) (le_blockhash b) &&& N.eqb (le_blocknum a) (le_blocknum b).

Definition trig_eqb (a b : trigger) : bool :=
  N.eqb (t_num a) (t_num b) &&& N.eqb (t_hash a) (t_hash b) &&& opt_eqb ext_eqb (t_ext a) (t_ext b).

Definition result_eqb (a b : result) : bool :=
  N.eqb (r_wid a) (r_wid b) &&&
  N.eqb (r_state a) (r_state b) &&& Bool.eqb (r_retryable a) (r_retryable b)
  &&& Bool.eqb (r_eligible a) (r_eligible b) &&& N.eqb (r_reason a) (r_reason b)
  &&& N.eqb (r_upk a) (r_upk b) &&& trig_eqb (r_trig a) (r_trig b)
  &&& N.eqb (r_gas a) (r_gas b) &&& list_eqb N.eqb (r_pdata a) (r_pdata b)
  &&& opt_eqb Z.eqb (r_fgw a) (r_fgw b) &&& opt_eqb Z.eqb (r_ln a) (r_ln b).

Definition prop_eqb (a b : proposal) : bool :=
  N.eqb (p_wid a) (p_wid b) &&& N.eqb (p_upk a) (p_upk b) &&& trig_eqb (p_trig a) (p_trig b).
