(* Model of the OCR2 ("v2") report coordinator: pkg/v2/coordinator/coordinator.go with
   pkg/v2/encoding/basic.go (After / Increment on canonical decimal block strings) and
   pkg/util/cache.go (expiring map).  No proofs in this file.

   Block numbers are N (the harness uses canonical decimal strings only, so string equality is
   numeric equality); IndefiniteBlockingKey is the number 2^64 and is compared exactly as the code
   does (an equality test against it first, a numeric > afterwards).  Time is an explicit Z
   (nanoseconds) carried by every operation. *)
From Verif Require Export Base.Util.
Open Scope N_scope.

Definition indef : N := 18446744073709551616.      (* IndefiniteBlockingKey *)
Definition hour : Z := 3600000000000%Z.             (* activeKeys TTL *)

Definition key := (N * N)%type.                     (* (check block, upkeep id) = "block|id" *)
Definition blk := (N * N)%type.                     (* idBlocker (CheckBlockNumber, TransmitBlockNumber) *)
Definition key_eqb (a b : key) : bool := (fst a =? fst b) && (snd a =? snd b).
Definition blk_eqb (a b : blk) : bool := (fst a =? fst b) && (snd a =? snd b).

Record cfg := mkCfg { minc : Z;                     (* minConfs as handed to NewReportCoordinator *)
                      window : Z }.                 (* lockout window, ns (after the <1 -> 20 min default) *)

(* time-free events; [EStale] carries the log's own TransmitBlock, which the code ignores *)
Inductive ev :=
| EAccept  (k : key)
| EPerform (k : key) (tb : N) (cf : Z)
| EStale   (k : key) (tb : N) (cf : Z).
Definition op := (Z * ev)%type.                     (* (virtual time ns, event) *)

Definition ev_key (e : ev) : key :=
  match e with EAccept k => k | EPerform k _ _ => k | EStale k _ _ => k end.
Definition is_log (e : ev) : bool := match e with EAccept _ => false | _ => true end.

(* ---- util.Cache: Get treats an entry as absent iff now > Expires; Set overwrites ---- *)
Section Cache.
  Context {K V : Type} (eqb : K -> K -> bool).
  Fixpoint cget (now : Z) (l : list (K * (V * Z))) (k : K) : option V :=
    match l with
    | [] => None
    | (k', (v, e)) :: t =>
        if eqb k' k then (if (e <? now)%Z then None else Some v) else cget now t k
    end.
  Definition cset (l : list (K * (V * Z))) (k : K) (v : V) (e : Z) := (k, (v, e)) :: l.
End Cache.

Record st := mkSt { ids : list (N * (blk * Z)); act : list (key * (bool * Z)) }.
Definition init : st := mkSt [] [].

(* idBlocker.shouldUpdate, b = stored, v = new *)
Definition should_update (b v : blk) : bool :=
  if fst b <? fst v then true
  else if fst v <? fst b then false
  else if snd b =? indef then true
  else if snd v =? indef then false
  else snd b <? snd v.

Definition update_id (c : cfg) (now : Z) (l : list (N * (blk * Z))) (id : N) (v : blk) :=
  match cget N.eqb now l id with
  | Some b => if should_update b v then cset l id v (now + window c)%Z else l
  | None => cset l id v (now + window c)%Z
  end.

Definition accept (c : cfg) (now : Z) (s : st) (k : key) : st :=
  match cget key_eqb now (act s) k with
  | Some _ => s
  | None => mkSt (update_id c now (ids s) (snd k) (fst k, indef))
                 (cset (act s) k false (now + hour)%Z)
  end.

(* one perform / stale log whose effective transmit value is [tv] *)
Definition log_arm (c : cfg) (now : Z) (s : st) (k : key) (tv : N) (cf : Z) : st :=
  if (cf <? minc c)%Z then s else
  match cget key_eqb now (act s) k with
  | None => s
  | Some false => mkSt (update_id c now (ids s) (snd k) (fst k, tv))
                       (cset (act s) k true (now + hour)%Z)
  | Some true =>
      match cget N.eqb now (ids s) (snd k) with
      | Some b => if (fst b =? fst k) && negb (snd b =? tv)
                  then mkSt (update_id c now (ids s) (snd k) (fst k, tv)) (act s)
                  else s
      | None => s
      end
  end.

Definition stale_tv (k : key) : N := fst k + 1.     (* encoder.Increment *)

Definition step (c : cfg) (s : st) (o : op) : st :=
  match snd o with
  | EAccept k => accept c (fst o) s k
  | EPerform k tb cf => log_arm c (fst o) s k tb cf
  | EStale k _ cf => log_arm c (fst o) s k (stale_tv k) cf
  end.

Definition run (c : cfg) (h : list op) (s : st) : st := fold_left (step c) h s.

Definition stored (now : Z) (s : st) (id : N) : option blk := cget N.eqb now (ids s) id.

Definition is_pending (now : Z) (s : st) (k : key) : bool :=
  match cget N.eqb now (ids s) (snd k) with
  | Some b => negb (snd b <? fst k)
  | None => false
  end.

Definition is_confirmed (now : Z) (s : st) (k : key) : bool :=
  match cget key_eqb now (act s) k with
  | Some cf => cf
  | None => true
  end.

(* ------------------------------------------------------------------------------------ *)
(* The order behind shouldUpdate: (check, rank transmit) lexicographically, indef lowest. *)

Definition rk (t : N) : N := if t =? indef then 0 else t + 1.
Definition ble (a b : blk) : Prop :=
  fst a < fst b \/ (fst a = fst b /\ rk (snd a) <= rk (snd b)).
Definition bleb (a b : blk) : bool :=
  (fst a <? fst b) || ((fst a =? fst b) && (rk (snd a) <=? rk (snd b))).
Definition upd (b v : blk) : blk := if should_update b v then v else b.

Definition joinl_from (o : option blk) (l : list blk) : option blk :=
  fold_left (fun o v => match o with None => Some v | Some b => Some (upd b v) end) l o.
Definition joinl (l : list blk) : option blk := joinl_from None l.

(* transmit-component join and its fold (indef is the unit) *)
Definition tj (a b : N) : N := if rk a <? rk b then b else a.
Definition tmaxl (l : list N) : N := fold_left tj l indef.

(* ------------------------------------------------------------------------------------ *)
(* Direct specification computed from a time-free history (independent of [step]). *)

Definition memK (k : key) (acc : list key) : bool := existsb (key_eqb k) acc.

(* effective update of one event given the keys accepted earlier: (key, transmit value, is-log) *)
Definition eff (mc : Z) (acc : list key) (e : ev) : option (key * N * bool) :=
  match e with
  | EAccept k => if memK k acc then None else Some (k, indef, false)
  | EPerform k tb cf => if (mc <=? cf)%Z && memK k acc then Some (k, tb, true) else None
  | EStale k _ cf => if (mc <=? cf)%Z && memK k acc then Some (k, stale_tv k, true) else None
  end.
Definition acc_step (acc : list key) (e : ev) : list key :=
  match e with EAccept k => if memK k acc then acc else k :: acc | _ => acc end.
Definition olist {A} (o : option A) : list A := match o with Some x => [x] | None => [] end.
Fixpoint effs (mc : Z) (acc : list key) (h : list ev) : list (key * N * bool) :=
  match h with
  | [] => []
  | e :: t => olist (eff mc acc e) ++ effs mc (acc_step acc e) t
  end.

Definition e_key (x : key * N * bool) : key := fst (fst x).
Definition e_tv (x : key * N * bool) : N := snd (fst x).
Definition e_val (x : key * N * bool) : blk := (fst (e_key x), e_tv x).

(* values contributed to upkeep id [id], in history order *)
Definition id_vals (mc : Z) (h : list ev) (id : N) : list blk :=
  map e_val (filter (fun x => snd (e_key x) =? id) (effs mc [] h)).
(* transmit values of the effective logs of key k, in history order *)
Definition log_tvs (mc : Z) (h : list ev) (k : key) : list N :=
  map e_tv (filter (fun x => key_eqb (e_key x) k && snd x) (effs mc [] h)).

Definition spec_stored (mc : Z) (h : list ev) (id : N) : option blk := joinl (id_vals mc h id).
Definition spec_pending (mc : Z) (h : list ev) (k : key) : bool :=
  match spec_stored mc h (snd k) with
  | Some b => negb (snd b <? fst k)
  | None => false
  end.

Definition is_efflog (mc : Z) (k : key) (e : ev) : bool :=
  is_log e && key_eqb (ev_key e) k &&
  match e with EAccept _ => false | EPerform _ _ cf => (mc <=? cf)%Z | EStale _ _ cf => (mc <=? cf)%Z end.
Definition is_accept (k : key) (e : ev) : bool :=
  match e with EAccept k' => key_eqb k' k | _ => false end.
(* k accepted and no effective log of k after its first accept *)
Fixpoint spec_unconf (mc : Z) (k : key) (h : list ev) : bool :=
  match h with
  | [] => false
  | e :: t => if is_accept k e then forallb (fun e' => negb (is_efflog mc k e')) t
              else spec_unconf mc k t
  end.
Definition spec_confirmed (mc : Z) (h : list ev) (k : key) : bool := negb (spec_unconf mc k h).

(* every log is preceded by an accept of its key *)
Fixpoint accept_first_from (acc : list key) (h : list ev) : bool :=
  match h with
  | [] => true
  | EAccept k :: t => accept_first_from (k :: acc) t
  | e :: t => memK (ev_key e) acc && accept_first_from acc t
  end.
Definition accept_firstb (h : list ev) : bool := accept_first_from [] h.

(* nothing can have expired: all op times and the query time lie in [t0, t0+W], W <= window, hour *)
Definition zmin_l (d : Z) (l : list Z) : Z := fold_left Z.min l d.
Definition zmax_l (d : Z) (l : list Z) : Z := fold_left Z.max l d.
Definition no_expiryb (c : cfg) (h : list op) (now : Z) : bool :=
  let lo := zmin_l now (map fst h) in
  let hi := zmax_l now (map fst h) in
  ((hi - lo <=? window c) && (hi - lo <=? hour))%Z.

(* every op touching upkeep id [id] / key k is older than the TTL *)
Definition id_all_older (c : cfg) (h : list op) (id : N) (now : Z) : bool :=
  forallb (fun o => negb (snd (ev_key (snd o)) =? id) || (fst o + window c <? now)%Z) h.
Definition key_all_older (h : list op) (k : key) (now : Z) : bool :=
  forallb (fun o => negb (key_eqb (ev_key (snd o)) k) || (fst o + hour <? now)%Z) h.

(* times of the effective updates of upkeep id [id] (the only ops that can Set its entry) *)
Fixpoint teff_times (mc : Z) (acc : list key) (h : list op) (id : N) : list Z :=
  match h with
  | [] => []
  | o :: r =>
      (match eff mc acc (snd o) with
       | Some x => if snd (e_key x) =? id then [fst o] else []
       | None => []
       end) ++ teff_times mc (acc_step acc (snd o)) r id
  end.
(* history and query lie within one hour (no activeKeys entry can have expired) *)
Definition span_hourb (h : list op) (now : Z) : bool :=
  (zmax_l now (map fst h) - zmin_l now (map fst h) <=? hour)%Z.
(* within an hour, every effective update of the id is older than the lockout window *)
Definition id_eff_older (c : cfg) (h : list op) (id : N) (now : Z) : bool :=
  span_hourb h now && forallb (fun t => (t + window c <? now)%Z) (teff_times (minc c) [] h id).

(* ------------------------------------------------------------------------------------ *)
(* Case record written by the harness. *)

Definition ans := (bool * bool * bool)%type.   (* IsPending result, IsPending error, IsTransmissionConfirmed *)
Definition a_pend (a : ans) := fst (fst a).
Definition a_err (a : ans) := snd (fst a).
Definition a_conf (a : ans) := snd a.
Definition ans_eqb (a b : ans) : bool :=
  Bool.eqb (a_pend a) (a_pend b) && Bool.eqb (a_err a) (a_err b) && Bool.eqb (a_conf a) (a_conf b).

(* answers of one run are packed by the harness into one number: query i occupies bits
   3i (IsPending), 3i+1 (IsPending returned an error), 3i+2 (IsTransmissionConfirmed) *)
Fixpoint decode_ans (n : nat) (code : N) : list ans :=
  match n with
  | O => []
  | S n' => (N.testbit code 0, N.testbit code 1, N.testbit code 2) :: decode_ans n' (N.shiftr code 3)
  end.

(* a re-ordering: positions into the original history with the new virtual times, the query
   time of that run and the answers observed on a fresh coordinator *)
Record perm_run := mkPerm { pr_idx : list (nat * Z); pr_qt : Z; pr_code : N }.

Record c17_case := mkCase {
  cc_cfg   : cfg;
  cc_h     : list op;
  cc_qt    : Z;               (* all queries are made at this virtual time *)
  cc_q     : list key;
  cc_code  : N;               (* packed observed answers, one per query *)
  cc_perms : list perm_run
}.
Definition cc_obs (k : c17_case) : list ans := decode_ans (length (cc_q k)) (cc_code k).
Definition pr_obs (k : c17_case) (p : perm_run) : list ans := decode_ans (length (cc_q k)) (pr_code p).

Definition dummy_op : op := (0%Z, EPerform (0, 0) 0 (-1000000)%Z).
Definition perm_hist (h : list op) (p : perm_run) : list op :=
  map (fun it => (snd it, snd (nth (fst it) h dummy_op))) (pr_idx p).

(* ---- the model's answers ---- *)
Definition model_ans (c : cfg) (h : list op) (qt : Z) (q : list key) : list ans :=
  let s := run c h init in
  map (fun k => (is_pending qt s k, false, is_confirmed qt s k)) q.

Definition cc_mism (k : c17_case) : bool :=
  negb (list_eqb ans_eqb (model_ans (cc_cfg k) (cc_h k) (cc_qt k) (cc_q k)) (cc_obs k)
        && forallb (fun p => list_eqb ans_eqb
                     (model_ans (cc_cfg k) (perm_hist (cc_h k) p) (pr_qt p) (cc_q k)) (pr_obs k p))
                   (cc_perms k)).

(* ---- checker K: judges the observed answers from the history alone ---- *)
Definition check_query (c : cfg) (h : list op) (qt : Z) (k : key) (a : ans) : bool :=
  negb (a_err a)
  && (negb (no_expiryb c h qt)
      || (Bool.eqb (a_pend a) (spec_pending (minc c) (map snd h) k)
          && Bool.eqb (a_conf a) (spec_confirmed (minc c) (map snd h) k)))
  && (negb (id_all_older c h (snd k) qt) || negb (a_pend a))
  && (negb (key_all_older h k qt) || a_conf a)
  && (negb (id_eff_older c h (snd k) qt) || negb (a_pend a)).

Fixpoint check_queries (c : cfg) (h : list op) (qt : Z) (q : list key) (obs : list ans) : bool :=
  match q, obs with
  | [], [] => true
  | k :: q', a :: obs' => check_query c h qt k a && check_queries c h qt q' obs'
  | _, _ => false
  end.

Fixpoint nodup_nat (l : list nat) : bool :=
  match l with [] => true | x :: t => negb (existsb (Nat.eqb x) t) && nodup_nat t end.
Definition perm_idx_ok (n : nat) (l : list nat) : bool :=
  Nat.eqb (length l) n && forallb (fun i => Nat.ltb i n) l && nodup_nat l.

(* convergence clause: every listed re-ordering is admissible and answered exactly as the original *)
Definition check_perm (c : cfg) (h : list op) (code : N) (p : perm_run) : bool :=
  perm_idx_ok (length h) (map fst (pr_idx p))
  && accept_firstb (map snd (perm_hist h p))
  && no_expiryb c (perm_hist h p) (pr_qt p)
  && (pr_code p =? code).

Definition C17_check (k : c17_case) : bool :=
  check_queries (cc_cfg k) (cc_h k) (cc_qt k) (cc_q k) (cc_obs k)
  && match cc_perms k with
     | [] => true
     | ps => accept_firstb (map snd (cc_h k)) && no_expiryb (cc_cfg k) (cc_h k) (cc_qt k)
             && forallb (check_perm (cc_cfg k) (cc_h k) (cc_code k)) ps
     end.

Definition cc_bad (k : c17_case) : bool := negb (C17_check k).

(* ---- non-triviality and coverage (instrumented copy of the model's branch predicates) ---- *)
Fixpoint has_two_keys_one_id (l : list key) : bool :=
  match l with
  | [] => false
  | k :: t => existsb (fun k' => (snd k' =? snd k) && negb (fst k' =? fst k)) t || has_two_keys_one_id t
  end.
Definition cc_nontriv (k : c17_case) : bool :=
  let es := effs (minc (cc_cfg k)) [] (map snd (cc_h k)) in
  existsb (fun x => snd x) es
  && has_two_keys_one_id (map e_key (filter (fun x => negb (snd x)) es)).

(* arms: 0 accept-new, 1 accept-again, 2 log-skipped-minconf, 3 log-unknown-key,
   4 perform-unconfirmed, 5 perform-confirmed-update, 6 perform-confirmed-noop,
   7 stale-unconfirmed, 8 stale-confirmed-update, 9 stale-confirmed-noop,
   10 an expired entry was hit by a Get of this op *)
Definition raw_has {K V} (eqb : K -> K -> bool) (l : list (K * (V * Z))) (k : K) : bool :=
  existsb (fun x => eqb (fst x) k) l.
Definition arm_of (c : cfg) (s : st) (o : op) : list N :=
  let now := fst o in
  let k := ev_key (snd o) in
  let exp_hit :=
    (raw_has key_eqb (act s) k && match cget key_eqb now (act s) k with None => true | _ => false end)
    || (raw_has N.eqb (ids s) (snd k) && match cget N.eqb now (ids s) (snd k) with None => true | _ => false end) in
  let base :=
    match snd o with
    | EAccept _ => match cget key_eqb now (act s) k with None => 0 | Some _ => 1 end
    | EPerform _ tb cf =>
        if (cf <? minc c)%Z then 2 else
        match cget key_eqb now (act s) k with
        | None => 3
        | Some false => 4
        | Some true => match cget N.eqb now (ids s) (snd k) with
                       | Some b => if (fst b =? fst k) && negb (snd b =? tb) then 5 else 6
                       | None => 6 end
        end
    | EStale _ _ cf =>
        if (cf <? minc c)%Z then 2 else
        match cget key_eqb now (act s) k with
        | None => 3
        | Some false => 7
        | Some true => match cget N.eqb now (ids s) (snd k) with
                       | Some b => if (fst b =? fst k) && negb (snd b =? stale_tv k) then 8 else 9
                       | None => 9 end
        end
    end in
  if exp_hit then [base; 10] else [base].
Definition arms (c : cfg) (h : list op) : list N :=
  snd (fold_left (fun sa o => (step c (fst sa) o, snd sa ++ arm_of c (fst sa) o)) h (init, [])).
Definition cc_arms (k : c17_case) : list N :=
  let qexp := existsb (fun q => raw_has N.eqb (ids (run (cc_cfg k) (cc_h k) init)) (snd q)
                        && match stored (cc_qt k) (run (cc_cfg k) (cc_h k) init) (snd q) with None => true | _ => false end)
                      (cc_q k) in
  arms (cc_cfg k) (cc_h k) ++ (if qexp then [11] else []).
Definition cov_count (a : N) (cs : list c17_case) : N :=
  fold_left (fun n k => n + N.of_nat (length (filter (N.eqb a) (cc_arms k)))) cs 0.
Definition cov_perms (cs : list c17_case) : N :=
  fold_left (fun n k => n + N.of_nat (length (cc_perms k))) cs 0.
