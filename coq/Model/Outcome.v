(* Model of ocr3Plugin.Outcome (pkg/v3/plugin/ocr3.go), performables (performable.go) and
   coordinatedBlockProposals (coordinated_block_proposals.go).  No proofs in this file.

   Oracles (Section variables):
     uid    : rank of CheckResult.UniqueID() among the strings occurring in the round
              (order-isomorphic to Go's string order; equal rank <-> equal string)
     shuf   : rank of random.ShuffleString(workID, keySource(configDigest, seqNr))
     valid  : DecodeAutomationObservation's validation (model: Model/Validate.v)
     pi_u, pi_b : the order in which Go's randomised map iteration delivers the keys of
              resultCount / recentBlocks (any permutation)                                   *)
From Verif Require Export Model.Types.
Open Scope N_scope.

(* ---------- insertion sort by a key (sort.Strings / sort.Slice on pairwise distinct keys) ---------- *)
Section Sort.
  Context {A : Type} (key : A -> N).
  Fixpoint insert_by (x : A) (l : list A) : list A :=
    match l with
    | [] => [x]
    | y :: t => if key x <=? key y then x :: y :: t else y :: insert_by x t
    end.
  Definition sort_by (l : list A) : list A := fold_right insert_by [] l.
End Sort.

Section Outcome.
  Variable uid : result -> N.
  Variable shuf : N -> N.
  Variable valid : observation -> bool.

  (* ---------------- performables ---------------- *)
  (* resultCount map as an association list in first-insertion order: uid -> (first copy, count) *)
  Definition votes := list (N * (result * nat)).

  Fixpoint vins (ur : N) (r : result) (v : votes) : votes :=
    match v with
    | [] => [(ur, (r, 1%nat))]
    | (u, (r0, c)) :: t => if u =? ur then (u, (r0, S c)) :: t else (u, (r0, c)) :: vins ur r t
    end.

  Definition vadd1 (v : votes) (r : result) : votes := vins (uid r) r v.

  Definition vadd (v : votes) (o : observation) : votes := fold_left vadd1 (o_perf o) v.

  (* the loop of set(): traverse in sorted uid order, keep quorum results whose work id is new *)
  Fixpoint pick (thr : nat) (added : list N) (l : votes) : list result :=
    match l with
    | [] => []
    | (_, (r, c)) :: t =>
        if Nat.leb thr c && negb (memN (r_wid r) added)
        then r :: pick thr (r_wid r :: added) t
        else pick thr added t
    end.

  Definition pset (pi_u : votes -> votes) (thr limit : nat) (v : votes) : list result :=
    firstn limit (sort_by (fun r => shuf (r_wid r)) (pick thr [] (sort_by fst (pi_u v)))).

  (* ---------------- coordinated block ---------------- *)
  Definition bvotes := list (blockkey * nat).

  Fixpoint badd1 (v : bvotes) (b : blockkey) : bvotes :=
    match v with
    | [] => [(b, 1%nat)]
    | (b0, c) :: t => if bk_eqb b0 b then (b0, S c) :: t else (b0, c) :: badd1 t b
    end.

  Definition badd (v : bvotes) (o : observation) : bvotes := fold_left badd1 (o_hist o) v.

  (* getLatestQuorumBlock.  [skipzero] = true is the repaired code (zero-hash keys are ignored,
     the zero hash being the function's own "none yet" sentinel); false is the pinned commit. *)
  Definition lqb_step (skipzero : bool) (thr : nat) (most : blockkey) (bc : blockkey * nat) : blockkey :=
    let '(b, c) := bc in
    if Nat.leb thr c && (if skipzero then negb (bk_hash b =? 0) else true) then
      if (bk_hash most =? 0)
         || (bk_num most <? bk_num b)
         || ((bk_num b =? bk_num most) && (bk_hash most <? bk_hash b))
      then b else most
    else most.

  Definition latest_quorum_block (skipzero : bool) (pi_b : bvotes -> bvotes) (thr : nat) (v : bvotes)
    : blockkey * bool :=
    let most := fold_left (lqb_step skipzero thr) (pi_b v) (mkBK 0 0) in
    (most, negb (bk_hash most =? 0)).

  (* ---------------- surfaced proposals ---------------- *)
  Definition perf_exists (agreed : list result) (p : proposal) : bool :=
    existsb (fun r => p_wid p =? r_wid r) agreed.
  Definition prop_exists (rounds : list (list proposal)) (p : proposal) : bool :=
    existsb (existsb (fun q => p_wid q =? p_wid p)) rounds.

  Definition restamp (qb : blockkey) (p : proposal) : proposal :=
    mkProp (p_upk p)
           (mkTrig (bk_num qb) (bk_hash qb)
                   (match t_ext (p_trig p) with
                    | Some e => Some (mkExt (le_txhash e) (le_index e) (le_blockhash e) 0)
                    | None => None
                    end))
           (p_wid p).

  Fixpoint new_props (qb : blockkey) (agreed : list result) (hist : list (list proposal))
           (added : list N) (l : list proposal) : list proposal :=
    match l with
    | [] => []
    | p :: t =>
        if prop_exists hist p || perf_exists agreed p || memN (p_wid p) added
        then new_props qb agreed hist added t
        else restamp qb p :: new_props qb agreed hist (p_wid p :: added) t
    end.

  Definition carry (agreed : list result) (prev : list (list proposal)) : list (list proposal) :=
    map (filter (fun p => negb (perf_exists agreed p))) prev.

  Definition cset (skipzero : bool) (pi_b : bvotes -> bvotes) (thr histLimit perRound : nat)
             (bv : bvotes) (allnew : list proposal) (agreed : list result)
             (prev : list (list proposal)) : list (list proposal) :=
    let surf0 := carry agreed prev in
    match latest_quorum_block skipzero pi_b thr bv with
    | (_, false) => surf0
    | (qb, true) =>
        let surf1 := if Nat.leb histLimit (length surf0) then firstn (histLimit - 1) surf0 else surf0 in
        let latest := firstn perRound
                        (sort_by (fun p => shuf (p_wid p)) (new_props qb agreed surf1 [] allnew)) in
        latest :: surf1
    end.

  (* ---------------- Outcome ---------------- *)
  (* an attributed observation as the harness classifies it *)
  Inductive aobs := Undecodable | Decoded (o : observation).

  Definition valid_obs_list (l : list aobs) : list observation :=
    flat_map (fun a => match a with
                       | Undecodable => []
                       | Decoded o => if valid o then [o] else []
                       end) l.

  Record limits := mkLim { l_agreed : nat; l_rounds : nat; l_perround : nat }.

  Definition outcome_of (skipzero : bool) (pi_u : votes -> votes) (pi_b : bvotes -> bvotes)
             (thr_p thr_b : nat) (lim : limits) (prev : outcome) (l : list aobs) : outcome :=
    let obs := valid_obs_list l in
    let v := fold_left vadd obs [] in
    let bv := fold_left badd obs [] in
    let allnew := flat_map o_props obs in
    let agreed := pset pi_u thr_p (l_agreed lim) v in
    mkOut agreed (cset skipzero pi_b thr_b (l_rounds lim) (l_perround lim) bv allnew agreed (oc_surfaced prev)).
End Outcome.

Definition id_perm {A} (l : list A) : list A := l.
