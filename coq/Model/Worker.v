(* C14 - model of the synchronisation skeleton of pkg/util/worker.go (WorkerGroup, RunJobs).
   A labelled transition system over program counters, channels and job lists.  No proofs here.

   Goroutines modelled (one transition = one atomic action of the Go code; an unbuffered channel
   operation is ONE transition that moves both parties):
     submitter c   RunJobs' for-loop of caller c: wait.Add(1); Do (flag checks; 3-way select);
                   on error wait.Done + break; wait.Wait(); RemoveGroup; close(end)
     reader c      RunJobs' result goroutine: select{notify, end}; Results(group); per result
                   callback + wait.Done
     queuing loop  runQueuing: select{input, chStopInputs}; queue.Add; non-blocking notify;
                   on stop: send on chStopProcessing, return
     processing    run/runProcessing/processQueue/doJob: select{chInputNotify, chStopProcessing};
                   pop; take a new worker (activeWorkers < maxWorkers) or wait for an idle one;
                   after the stop message one more processQueue
     workers       worker.Do: run the job, store the result (+ non-blocking notify), then put the
                   worker token back (non-blocking)
     stopper       Stop: close(svcChStop); queueClosed.Store(true); chStopInputs <- {}
     canceller c   cancels the context of caller c
   Parameters: cap_in = capacity of WorkerGroup.input (read from the source by gen/), maxw =
   maxWorkers, number of callers and jobs per caller, whether Stop / cancel may happen. *)
From Verif Require Import Base.Util.
From Coq Require Import Arith PeanoNat.

Definition job := (nat * nat)%type.   (* (caller, index in that caller's job slice) *)

Definition job_eqb (a b : job) : bool := Nat.eqb (fst a) (fst b) && Nat.eqb (snd a) (snd b).
Definition cntp (p : job -> bool) (l : list job) : nat := length (filter p l).
Definition of_caller (c : nat) (j : job) : bool := Nat.eqb (fst j) c.
Definition cntj (j : job) (l : list job) : nat := cntp (job_eqb j) l.
Definition cntc (c : nat) (l : list job) : nat := cntp (of_caller c) l.

Record config := mkConfig {
  cap_in : nat; maxw : nat; ncallers : nat; njobs : nat -> nat;
  can_stop : bool; can_cancel : nat -> bool }.

Inductive spc := SLoop | SCheck | SSelect | SFail | SWait | SRemoved | SRet.
Inductive rpc := RSel | RGot | RDeliv | RExit.
Inductive qpc := QSel | QGot (j : job) | QNotify | QStopping | QExit.
Inductive ppc := PSel | PLoop | PDo (j : job) | PExit.
Inductive stpc := StInit | St1 | St2 | StRet.

Record caller := mkCaller {
  c_spc : spc;          (* submitter program counter *)
  c_nxt : nat;          (* jobs accepted so far = index of the next job *)
  c_wg : nat;           (* sync.WaitGroup counter *)
  c_cancel : bool;      (* caller's context cancelled *)
  c_tok : bool;         (* resultNotify[group] holds a token (capacity 1) *)
  c_rpc : rpc;          (* reader program counter *)
  c_hand : list job;    (* results taken by Results(group), not yet handed to the callback *)
  c_end : bool }.       (* end channel closed *)

Record state := mkState {
  callers : nat -> caller;
  input : list job;      (* WorkerGroup.input *)
  queue : list job;      (* WorkerGroup.queue *)
  res : list job;        (* resultData (all groups; tagged by caller) *)
  deliv : list job;      (* log of callback invocations *)
  running : list job;    (* jobs inside worker.Do before the result is stored *)
  returning : nat;       (* workers that stored their result and still hold their token *)
  idle : nat;            (* tokens in the workers channel *)
  active : nat;          (* activeWorkers *)
  q_pc : qpc; p_pc : ppc;
  p_final : bool;        (* processing loop received the stop message: last processQueue *)
  ntok : bool;           (* chInputNotify holds a token *)
  st_pc : stpc;
  stopped : bool;        (* svcChStop closed *)
  qclosed : bool;        (* queueClosed *)
  err : bool }.          (* a wait-group counter went negative (Go: panic) *)

Definition upd {A} (f : nat -> A) (c : nat) (v : A) : nat -> A :=
  fun x => if Nat.eqb x c then v else f x.

(* field setters *)
Definition k_spc (k : caller) v := mkCaller v (c_nxt k) (c_wg k) (c_cancel k) (c_tok k) (c_rpc k) (c_hand k) (c_end k).
Definition k_nxt (k : caller) v := mkCaller (c_spc k) v (c_wg k) (c_cancel k) (c_tok k) (c_rpc k) (c_hand k) (c_end k).
Definition k_wg (k : caller) v := mkCaller (c_spc k) (c_nxt k) v (c_cancel k) (c_tok k) (c_rpc k) (c_hand k) (c_end k).
Definition k_cancel (k : caller) v := mkCaller (c_spc k) (c_nxt k) (c_wg k) v (c_tok k) (c_rpc k) (c_hand k) (c_end k).
Definition k_tok (k : caller) v := mkCaller (c_spc k) (c_nxt k) (c_wg k) (c_cancel k) v (c_rpc k) (c_hand k) (c_end k).
Definition k_rpc (k : caller) v := mkCaller (c_spc k) (c_nxt k) (c_wg k) (c_cancel k) (c_tok k) v (c_hand k) (c_end k).
Definition k_hand (k : caller) v := mkCaller (c_spc k) (c_nxt k) (c_wg k) (c_cancel k) (c_tok k) (c_rpc k) v (c_end k).
Definition k_end (k : caller) v := mkCaller (c_spc k) (c_nxt k) (c_wg k) (c_cancel k) (c_tok k) (c_rpc k) (c_hand k) v.

Definition s_callers s v := mkState v (input s) (queue s) (res s) (deliv s) (running s) (returning s) (idle s) (active s) (q_pc s) (p_pc s) (p_final s) (ntok s) (st_pc s) (stopped s) (qclosed s) (err s).
Definition s_input s v := mkState (callers s) v (queue s) (res s) (deliv s) (running s) (returning s) (idle s) (active s) (q_pc s) (p_pc s) (p_final s) (ntok s) (st_pc s) (stopped s) (qclosed s) (err s).
Definition s_queue s v := mkState (callers s) (input s) v (res s) (deliv s) (running s) (returning s) (idle s) (active s) (q_pc s) (p_pc s) (p_final s) (ntok s) (st_pc s) (stopped s) (qclosed s) (err s).
Definition s_res s v := mkState (callers s) (input s) (queue s) v (deliv s) (running s) (returning s) (idle s) (active s) (q_pc s) (p_pc s) (p_final s) (ntok s) (st_pc s) (stopped s) (qclosed s) (err s).
Definition s_deliv s v := mkState (callers s) (input s) (queue s) (res s) v (running s) (returning s) (idle s) (active s) (q_pc s) (p_pc s) (p_final s) (ntok s) (st_pc s) (stopped s) (qclosed s) (err s).
Definition s_running s v := mkState (callers s) (input s) (queue s) (res s) (deliv s) v (returning s) (idle s) (active s) (q_pc s) (p_pc s) (p_final s) (ntok s) (st_pc s) (stopped s) (qclosed s) (err s).
Definition s_returning s v := mkState (callers s) (input s) (queue s) (res s) (deliv s) (running s) v (idle s) (active s) (q_pc s) (p_pc s) (p_final s) (ntok s) (st_pc s) (stopped s) (qclosed s) (err s).
Definition s_idle s v := mkState (callers s) (input s) (queue s) (res s) (deliv s) (running s) (returning s) v (active s) (q_pc s) (p_pc s) (p_final s) (ntok s) (st_pc s) (stopped s) (qclosed s) (err s).
Definition s_active s v := mkState (callers s) (input s) (queue s) (res s) (deliv s) (running s) (returning s) (idle s) v (q_pc s) (p_pc s) (p_final s) (ntok s) (st_pc s) (stopped s) (qclosed s) (err s).
Definition s_qpc s v := mkState (callers s) (input s) (queue s) (res s) (deliv s) (running s) (returning s) (idle s) (active s) v (p_pc s) (p_final s) (ntok s) (st_pc s) (stopped s) (qclosed s) (err s).
Definition s_ppc s v := mkState (callers s) (input s) (queue s) (res s) (deliv s) (running s) (returning s) (idle s) (active s) (q_pc s) v (p_final s) (ntok s) (st_pc s) (stopped s) (qclosed s) (err s).
Definition s_pfinal s v := mkState (callers s) (input s) (queue s) (res s) (deliv s) (running s) (returning s) (idle s) (active s) (q_pc s) (p_pc s) v (ntok s) (st_pc s) (stopped s) (qclosed s) (err s).
Definition s_ntok s v := mkState (callers s) (input s) (queue s) (res s) (deliv s) (running s) (returning s) (idle s) (active s) (q_pc s) (p_pc s) (p_final s) v (st_pc s) (stopped s) (qclosed s) (err s).
Definition s_stpc s v := mkState (callers s) (input s) (queue s) (res s) (deliv s) (running s) (returning s) (idle s) (active s) (q_pc s) (p_pc s) (p_final s) (ntok s) v (stopped s) (qclosed s) (err s).
Definition s_stopped s v := mkState (callers s) (input s) (queue s) (res s) (deliv s) (running s) (returning s) (idle s) (active s) (q_pc s) (p_pc s) (p_final s) (ntok s) (st_pc s) v (qclosed s) (err s).
Definition s_qclosed s v := mkState (callers s) (input s) (queue s) (res s) (deliv s) (running s) (returning s) (idle s) (active s) (q_pc s) (p_pc s) (p_final s) (ntok s) (st_pc s) (stopped s) v (err s).
Definition s_err s v := mkState (callers s) (input s) (queue s) (res s) (deliv s) (running s) (returning s) (idle s) (active s) (q_pc s) (p_pc s) (p_final s) (ntok s) (st_pc s) (stopped s) (qclosed s) v.

Definition s_caller s c k := s_callers s (upd (callers s) c k).

Definition init_caller := mkCaller SLoop 0 0 false false RSel [] false.
Definition init : state :=
  mkState (fun _ => init_caller) [] [] [] [] [] 0 0 0 QSel PSel false false StInit false false false.

Inductive label :=
| LAdd (c : nat)       (* for-loop: another job: wait.Add(1), enter Do *)
| LNoMore (c : nat)    (* for-loop exhausted *)
| LCheck (c : nat)     (* Do: ctx.Err() / queueClosed checks *)
| LSend (c : nat)      (* Do select: wg.input <- gi completes (hand-off or buffer) *)
| LSelCancel (c : nat) (* Do select: <-ctx.Done() *)
| LSelStop (c : nat)   (* Do select: <-wg.svcChStop *)
| LFail (c : nat)      (* wait.Done(); break *)
| LWait (c : nat)      (* wait.Wait() returns *)
| LRemove (c : nat)    (* RemoveGroup *)
| LClose (c : nat)     (* close(end); RunJobs returns *)
| LRTok (c : nat)      (* reader: <-NotifyResult(group) *)
| LREnd (c : nat)      (* reader: <-end *)
| LRTake (c : nat)     (* reader: Results(group) *)
| LRDeliver (c : nat)  (* reader: resFunc(r); w.Done() *)
| LRBack (c : nat)     (* reader: result range exhausted *)
| LQRecv               (* queuing loop: item := <-input from the buffer (cap_in > 0) *)
| LQAdd                (* queue.Add(item) *)
| LQNotify             (* non-blocking chInputNotify <- {} *)
| LQStop               (* Stop's chStopInputs <- {} meets the queuing loop's select *)
| LQHand               (* chStopProcessing <- {} meets the processing loop's select *)
| LPTok                (* processing loop: <-chInputNotify *)
| LPPop                (* processQueue: Pop *)
| LPEmpty              (* processQueue: Len() == 0 *)
| LPNew                (* doJob: create a worker *)
| LPReuse              (* doJob: <-wg.workers *)
| LWRun (k : nat)      (* the k-th running job finishes and stores its result *)
| LWRet                (* a worker puts itself back on the workers channel *)
| LStop1               (* Stop: close(svcChStop) *)
| LStop2               (* Stop: queueClosed.Store(true) *)
| LCancel (c : nat).   (* the caller's context is cancelled *)

Fixpoint take_nth (k : nat) (l : list job) {struct l} : option (job * list job) :=
  match l, k with
  | [], _ => None
  | x :: t, 0 => Some (x, t)
  | x :: t, S k' => match take_nth k' t with Some (y, t') => Some (y, x :: t') | None => None end
  end.

Definition wc (cf : config) (s : state) (c : nat) (f : caller -> option state) : option state :=
  if c <? ncallers cf then f (callers s c) else None.

Definition step (cf : config) (s : state) (l : label) : option state :=
  match l with
  | LAdd c => wc cf s c (fun k =>
      match c_spc k with
      | SLoop => if c_nxt k <? njobs cf c
                 then Some (s_caller s c (k_wg (k_spc k SCheck) (S (c_wg k)))) else None
      | _ => None end)
  | LNoMore c => wc cf s c (fun k =>
      match c_spc k with
      | SLoop => if c_nxt k <? njobs cf c then None else Some (s_caller s c (k_spc k SWait))
      | _ => None end)
  | LCheck c => wc cf s c (fun k =>
      match c_spc k with
      | SCheck => if c_cancel k || qclosed s then Some (s_caller s c (k_spc k SFail))
                  else Some (s_caller s c (k_spc k SSelect))
      | _ => None end)
  | LSend c => wc cf s c (fun k =>
      match c_spc k with
      | SSelect =>
          let k' := k_nxt (k_spc k SLoop) (S (c_nxt k)) in
          let j := (c, c_nxt k) in
          match cap_in cf with
          | 0 => match q_pc s with
                 | QSel => Some (s_qpc (s_caller s c k') (QGot j))
                 | _ => None end
          | S _ => if length (input s) <? cap_in cf
                   then Some (s_input (s_caller s c k') (input s ++ [j])) else None
          end
      | _ => None end)
  | LSelCancel c => wc cf s c (fun k =>
      match c_spc k with
      | SSelect => if c_cancel k then Some (s_caller s c (k_spc k SFail)) else None
      | _ => None end)
  | LSelStop c => wc cf s c (fun k =>
      match c_spc k with
      | SSelect => if stopped s then Some (s_caller s c (k_spc k SFail)) else None
      | _ => None end)
  | LFail c => wc cf s c (fun k =>
      match c_spc k with
      | SFail => match c_wg k with
                 | 0 => Some (s_err s true)
                 | S w => Some (s_caller s c (k_wg (k_spc k SWait) w)) end
      | _ => None end)
  | LWait c => wc cf s c (fun k =>
      match c_spc k with
      | SWait => match c_wg k with 0 => Some (s_caller s c (k_spc k SRemoved)) | S _ => None end
      | _ => None end)
  | LRemove c => wc cf s c (fun k =>
      match c_spc k with
      | SRemoved => Some (s_res (s_caller s c (k_spc k SRet)) (filter (fun j => negb (of_caller c j)) (res s)))
      | _ => None end)
  | LClose c => wc cf s c (fun k =>
      match c_spc k with
      | SRet => if c_end k then None else Some (s_caller s c (k_end k true))
      | _ => None end)
  | LRTok c => wc cf s c (fun k =>
      match c_rpc k with
      | RSel => if c_tok k then Some (s_caller s c (k_rpc (k_tok k false) RGot)) else None
      | _ => None end)
  | LREnd c => wc cf s c (fun k =>
      match c_rpc k with
      | RSel => if c_end k then Some (s_caller s c (k_rpc k RExit)) else None
      | _ => None end)
  | LRTake c => wc cf s c (fun k =>
      match c_rpc k with
      | RGot => Some (s_res (s_caller s c (k_hand (k_rpc k RDeliv) (filter (of_caller c) (res s))))
                            (filter (fun j => negb (of_caller c j)) (res s)))
      | _ => None end)
  | LRDeliver c => wc cf s c (fun k =>
      match c_rpc k, c_hand k with
      | RDeliv, j :: h =>
          match c_wg k with
          | 0 => Some (s_err s true)
          | S w => Some (s_deliv (s_caller s c (k_wg (k_hand k h) w)) (deliv s ++ [j])) end
      | _, _ => None end)
  | LRBack c => wc cf s c (fun k =>
      match c_rpc k, c_hand k with
      | RDeliv, [] => Some (s_caller s c (k_rpc k RSel))
      | _, _ => None end)
  | LQRecv =>
      match q_pc s, input s with
      | QSel, j :: t => Some (s_qpc (s_input s t) (QGot j))
      | _, _ => None end
  | LQAdd =>
      match q_pc s with
      | QGot j => Some (s_qpc (s_queue s (queue s ++ [j])) QNotify)
      | _ => None end
  | LQNotify =>
      match q_pc s with
      | QNotify => Some (s_qpc (s_ntok s true) QSel)
      | _ => None end
  | LQStop =>
      match q_pc s, st_pc s with
      | QSel, St2 => Some (s_stpc (s_qpc s QStopping) StRet)
      | _, _ => None end
  | LQHand =>
      match q_pc s, p_pc s with
      | QStopping, PSel => Some (s_pfinal (s_ppc (s_qpc s QExit) PLoop) true)
      | _, _ => None end
  | LPTok =>
      match p_pc s with
      | PSel => if ntok s then Some (s_ppc (s_ntok s false) PLoop) else None
      | _ => None end
  | LPPop =>
      match p_pc s, queue s with
      | PLoop, j :: t => Some (s_ppc (s_queue s t) (PDo j))
      | _, _ => None end
  | LPEmpty =>
      match p_pc s, queue s with
      | PLoop, [] => Some (s_ppc s (if p_final s then PExit else PSel))
      | _, _ => None end
  | LPNew =>
      match p_pc s with
      | PDo j => if active s <? maxw cf
                 then Some (s_ppc (s_running (s_active s (S (active s))) (running s ++ [j])) PLoop)
                 else None
      | _ => None end
  | LPReuse =>
      match p_pc s with
      | PDo j => if active s <? maxw cf then None else
                 match idle s with
                 | 0 => None
                 | S i => Some (s_ppc (s_running (s_idle s i) (running s ++ [j])) PLoop) end
      | _ => None end
  | LWRun k =>
      match take_nth k (running s) with
      | Some (j, rest) =>
          let c := fst j in
          Some (s_returning (s_res (s_running (s_caller s c (k_tok (callers s c) true)) rest) (res s ++ [j]))
                            (S (returning s)))
      | None => None end
  | LWRet =>
      match returning s with
      | 0 => None
      | S r => Some (s_idle (s_returning s r) (if idle s <? maxw cf then S (idle s) else idle s)) end
  | LStop1 =>
      match st_pc s with
      | StInit => if can_stop cf then Some (s_stpc (s_stopped s true) St1) else None
      | _ => None end
  | LStop2 =>
      match st_pc s with
      | St1 => Some (s_stpc (s_qclosed s true) St2)
      | _ => None end
  | LCancel c => wc cf s c (fun k =>
      if can_cancel cf c && negb (c_cancel k) then Some (s_caller s c (k_cancel k true)) else None)
  end.

Definition caller_labels (c : nat) : list label :=
  [LAdd c; LNoMore c; LCheck c; LSend c; LSelCancel c; LSelStop c; LFail c; LWait c; LRemove c; LClose c;
   LRTok c; LREnd c; LRTake c; LRDeliver c; LRBack c; LCancel c].
Definition global_labels : list label :=
  [LQRecv; LQAdd; LQNotify; LQStop; LQHand; LPTok; LPPop; LPEmpty; LPNew; LPReuse; LWRet; LStop1; LStop2].
Definition all_labels (cf : config) (s : state) : list label :=
  flat_map caller_labels (seq 0 (ncallers cf)) ++ global_labels ++ map LWRun (seq 0 (length (running s))).

Definition is_some {A} (o : option A) : bool := match o with Some _ => true | None => false end.
Definition enabled (cf : config) (s : state) : list label :=
  filter (fun l => is_some (step cf s l)) (all_labels cf s).

Inductive reachable (cf : config) : state -> Prop :=
| reach_init : reachable cf init
| reach_step s l s' : reachable cf s -> step cf s l = Some s' -> reachable cf s'.

(* run a schedule (list of labels); None if some label is not enabled *)
Fixpoint run (cf : config) (s : state) (ls : list label) : option state :=
  match ls with
  | [] => Some s
  | l :: t => match step cf s l with Some s' => run cf s' t | None => None end
  end.

Definition terminal (cf : config) (s : state) : Prop := enabled cf s = [].

(* what "returned" means for a whole run: every RunJobs call returned and its reader goroutine is
   gone; a Stop that was begun has returned *)
Definition caller_returned (k : caller) : Prop := c_spc k = SRet /\ c_end k = true /\ c_rpc k = RExit.
Definition all_returned (cf : config) (s : state) : Prop :=
  (forall c, c < ncallers cf -> caller_returned (callers s c)) /\ (st_pc s = StInit \/ st_pc s = StRet).

(* indices delivered to caller c, in callback order *)
Definition delivered_to (s : state) (c : nat) : list nat := map snd (filter (of_caller c) (deliv s)).

Definition wf_config (cf : config) : Prop := 1 <= maxw cf.

(* ------------------------------------------------------------------ observed cases and checker K *)

Inductive omode := MNone | MStop | MCancel.

Record ocaller := mkOCaller {
  oc_n : N;                 (* jobs passed to RunJobs *)
  oc_hit : bool;            (* a stop / a cancellation of this caller's context was injected *)
  oc_ret : bool;            (* RunJobs returned *)
  oc_runs : list (N * N);   (* sorted successful callback values as runs [lo,hi) *)
  oc_errs : N;              (* callbacks carrying an error *)
  oc_bogus : N;             (* callbacks with a value outside [0,n) *)
  oc_lb : N }.              (* job functions of this caller that started (each is owed a callback) *)

Record ocase := mkOCase {
  o_workers : N; o_mode : omode; o_fired : bool; o_errvis : bool;
  o_callers : list ocaller;
  o_peak : N; o_stopret : bool; o_left : N; o_stranded : bool }.

Fixpoint nseq (lo : N) (len : nat) : list N :=
  match len with 0 => [] | S k => lo :: nseq (N.succ lo) k end.
Definition expand (runs : list (N * N)) : list N :=
  flat_map (fun r => nseq (fst r) (N.to_nat (snd r - fst r))) runs.
Definition runs_total (runs : list (N * N)) : N :=
  fold_right (fun r a => (snd r - fst r + a)%N) 0%N runs.

(* the property for one caller, on the multiset of successful callback values [vals] *)
Definition caller_spec (errvis : bool) (n : N) (hit ret : bool) (vals : list N) (errs bogus lb : N) : Prop :=
  ret = true /\ bogus = 0%N /\ NoDup vals /\ (forall v, In v vals -> (v < n)%N) /\
  (errvis = true ->
     let d := (N.of_nat (length vals) + errs)%N in
     (forall v, In v vals -> (v < d)%N) /\ (d <= n)%N /\ (lb <= d)%N /\ (hit = false -> d = n)) /\
  (errvis = false ->
     (N.of_nat (length vals) <= n)%N /\ (hit = false -> N.of_nat (length vals) = n)).

Definition C14_spec (c : ocase) : Prop :=
  Forall (fun k => caller_spec (o_errvis c) (oc_n k) (oc_hit k) (oc_ret k) (expand (oc_runs k)) (oc_errs k) (oc_bogus k) (oc_lb k))
         (o_callers c) /\
  (o_peak c <= o_workers c)%N /\ o_stopret c = true /\ o_left c = 0%N.

(* runs are well formed: lo < hi, increasing, separated, below [bound] *)
Fixpoint runs_ok (prev bound : N) (runs : list (N * N)) : bool :=
  match runs with
  | [] => true
  | (lo, hi) :: t => (prev <=? lo)%N && (lo <? hi)%N && (hi <=? bound)%N && runs_ok hi bound t
  end.

Definition check_caller (allow_hang errvis : bool) (k : ocaller) : bool :=
  let tot := runs_total (oc_runs k) in
  (oc_ret k || allow_hang) && (oc_bogus k =? 0)%N &&
  (if errvis then
     let d := (tot + oc_errs k)%N in
     runs_ok 0 d (oc_runs k) && (d <=? oc_n k)%N && (oc_lb k <=? d)%N &&
     (oc_hit k || negb (oc_ret k) || (d =? oc_n k)%N)
   else
     runs_ok 0 (oc_n k) (oc_runs k) && (tot <=? oc_n k)%N && (oc_hit k || negb (oc_ret k) || (tot =? oc_n k)%N)).

Definition check_gen (allow_hang : bool) (c : ocase) : bool :=
  forallb (check_caller allow_hang (o_errvis c)) (o_callers c) &&
  (o_peak c <=? o_workers c)%N &&
  (allow_hang || (o_stopret c && (o_left c =? 0)%N)).

Definition C14_check (c : ocase) : bool := check_gen false c.

Definition is_stop (m : omode) : bool := match m with MStop => true | _ => false end.
Definition oc_hang (c : ocase) : bool := existsb (fun k => negb (oc_ret k)) (o_callers c).

(* outcomes the model with input capacity [cap] exhibits: with cap = 0 exactly the property;
   with cap >= 1 a caller may additionally hang when a Stop raced its submission *)
Definition model_allows (cap : nat) (c : ocase) : bool :=
  check_gen (negb (Nat.eqb cap 0) && is_stop (o_mode c) && o_fired c) c.

(* historic defect (repaired in /repo): a hang attributed to a job stranded in the buffered input
   channel by a racing Stop *)
Definition kf_stop_races_submit (c : ocase) : bool :=
  is_stop (o_mode c) && o_fired c && oc_hang c && check_gen true c.

Definition oc_partial_delivery (c : ocase) : bool :=
  existsb (fun k => negb (runs_total (oc_runs k) + oc_errs k =? oc_n k)%N) (o_callers c).
Definition oc_nontrivial (c : ocase) : bool :=
  o_fired c || Nat.ltb 1 (length (o_callers c)).
