(* Model of ocr3Plugin.Reports (pkg/v3/plugin/ocr3.go): the batching fold that turns
   the agreed performables of an outcome into reports.  No proofs in this file. *)
From Verif Require Export Base.Util.
Open Scope N_scope.

Record perf := mkPerf { p_upk : N;      (* interned UpkeepID (String() is injective on [32]byte) *)
                        p_gas : N;      (* GasAllocated, uint64 *)
                        p_wid : N }.    (* interned WorkID *)

Record cfg := mkCfg { c_batch : Z;      (* MaxUpkeepBatchSize, Go int *)
                      c_limit : N;      (* GasLimitPerReport, uint32 *)
                      c_over  : N }.    (* GasOverheadPerUpkeep, uint32 *)

(* OffchainConfig as decoded from JSON, before defaults (pkg/v3/config/config.go) *)
Record raw_cfg := mkRaw { rw_lockout : Z;    (* PerformLockoutWindow, int64 ms *)
                          rw_problen : Z;    (* len(TargetProbability) *)
                          rw_rounds  : Z;    (* TargetInRounds *)
                          rw_minconf : Z;    (* MinConfirmations *)
                          rw_limit   : N;    (* GasLimitPerReport, uint32 *)
                          rw_over    : N;    (* GasOverheadPerUpkeep, uint32 *)
                          rw_batch   : Z }.  (* MaxUpkeepBatchSize *)

(* ensureMinimumDefaults; the probability string is represented by its length (the default "0.99999" has 7 bytes) *)
Definition ensure_defaults (r : raw_cfg) : raw_cfg :=
  mkRaw (if (rw_lockout r <=? 0)%Z then 1200000%Z else rw_lockout r)
        (if (rw_problen r =? 0)%Z then 7%Z else rw_problen r)
        (if (rw_rounds r <=? 0)%Z then 1%Z else rw_rounds r)
        (if (rw_minconf r <=? 0)%Z then 0%Z else rw_minconf r)
        (if rw_limit r =? 0 then 5300000 else rw_limit r)
        (if rw_over r =? 0 then 300000 else rw_over r)
        (if (rw_batch r <=? 0)%Z then 1%Z else rw_batch r).

(* the configuration Reports works with, given what the operator wrote *)
Definition cfg_of_raw (r : raw_cfg) : cfg :=
  let d := ensure_defaults r in mkCfg (rw_batch d) (rw_limit d) (rw_over d).
Definition effective_cfg (batch : Z) (limit over : N) : cfg := cfg_of_raw (mkRaw 0 0 0 0 limit over batch).

Definition two64 : N := 18446744073709551616.
Definition w64 (x : N) : N := x mod two64.

(* loop state: current batch (in order), gasUsed, seenUpkeepIDs, finished reports (in order) *)
Record rstate := mkR { r_cur : list perf; r_gas : N; r_seen : list N; r_acc : list (list perf) }.

(* The flush condition as written in the source.  [guarded] says whether the gas clause
   is guarded by a non-empty current batch (the repaired code) or not (the code as it was
   at the pinned commit); the value used for the current tree is read from the source by gen/. *)
Definition flush_cond (guarded : bool) (c : cfg) (s : rstate) (p : perf) : bool :=
  (Z.of_nat (length (r_cur s)) >=? c_batch c)%Z
  || ((if guarded then negb (Nat.eqb (length (r_cur s)) 0) else true)
      && (c_limit c <? w64 (w64 (r_gas s + p_gas p) + c_over c)))
  || memN (p_upk p) (r_seen s).

Definition rstep (guarded : bool) (c : cfg) (s : rstate) (p : perf) : rstate :=
  let s1 := if flush_cond guarded c s p
            then mkR [] 0 [] (r_acc s ++ [r_cur s])
            else s in
  mkR (r_cur s1 ++ [p]) (w64 (r_gas s1 + w64 (p_gas p + c_over c))) (p_upk p :: r_seen s1) (r_acc s1).

Definition rfinish (s : rstate) : list (list perf) :=
  match r_cur s with [] => r_acc s | _ => r_acc s ++ [r_cur s] end.

Definition rinit : rstate := mkR [] 0 [] [].

Definition reports (guarded : bool) (c : cfg) (ps : list perf) : list (list perf) :=
  rfinish (fold_left (rstep guarded c) ps rinit).

(* Encoder failing on its k-th call (1-based): the reports returned are the first k-1. *)
Definition reports_err (guarded : bool) (c : cfg) (ps : list perf) (fail_at : option nat)
  : list (list perf) * bool :=
  let rs := reports guarded c ps in
  match fail_at with
  | Some k => if Nat.leb k (length rs) then (firstn (k - 1) rs, true) else (rs, false)
  | None => (rs, false)
  end.

(* ------------------------------------------------------------------------------ *)
(* Checker K: decides the property on an observed list of reports, independently of
   the model. *)

Definition perf_eqb (a b : perf) : bool :=
  N.eqb (p_upk a) (p_upk b) && N.eqb (p_gas a) (p_gas b) && N.eqb (p_wid a) (p_wid b).

Definition gas_sum (c : cfg) (r : list perf) : N :=
  fold_right (fun p a => p_gas p + c_over c + a) 0 r.

Definition report_ok (c : cfg) (r : list perf) : bool :=
  negb (Nat.eqb (length r) 0)
  && (Z.of_nat (length r) <=? c_batch c)%Z
  && nodupb (map p_upk r)
  && ((gas_sum c r <=? c_limit c) || Nat.eqb (length r) 1).

Definition C04_check (c : cfg) (ps : list perf) (obs : list (list perf)) : bool :=
  list_eqb perf_eqb (concat obs) ps && forallb (report_ok c) obs.

(* individual clauses, for diagnosing which one failed *)
Definition C04_partition_b (ps : list perf) (obs : list (list perf)) : bool :=
  list_eqb perf_eqb (concat obs) ps.
Definition C04_nonempty_b (obs : list (list perf)) : bool :=
  forallb (fun r => negb (Nat.eqb (length r) 0)) obs.

(* Known-finding predicate (historic, finding 3): the only failing clause is an empty
   report directly followed by a single-upkeep report that alone exceeds the limit. *)
Fixpoint drop_empty_before_overlimit (c : cfg) (obs : list (list perf)) : list (list perf) :=
  match obs with
  | [] => []
  | [] :: (([p] :: _) as rest) =>
      if c_limit c <? p_gas p + c_over c then drop_empty_before_overlimit c rest
      else [] :: drop_empty_before_overlimit c rest
  | r :: rest => r :: drop_empty_before_overlimit c rest
  end.

Definition kf_overlimit_opens_batch (c : cfg) (ps : list perf) (obs : list (list perf)) : bool :=
  negb (C04_check c ps obs) && C04_check c ps (drop_empty_before_overlimit c obs).

(* ------------------------------------------------------------------------------ *)
(* Case record written by the harness (observed behaviour of the real Reports()). *)

Record r_case := mkRCase {
  rc_cfg  : cfg;
  rc_ps   : list perf;
  rc_fail : option nat;          (* encoder scripted to fail on this call (1-based) *)
  rc_obs  : list (list nat);     (* reports returned: indices into rc_ps; out of range = foreign result *)
  rc_err  : bool                 (* Reports returned an error *)
}.

Definition dummy_perf : perf := mkPerf two64 0 two64.
Definition decode_obs (ps : list perf) (obs : list (list nat)) : list (list perf) :=
  map (map (fun i => nth i ps dummy_perf)) obs.

Fixpoint is_prefix (a b : list perf) : bool :=
  match a, b with
  | [], _ => true
  | x :: a', y :: b' => perf_eqb x y && is_prefix a' b'
  | _, [] => false
  end.

(* model vs implementation *)
Definition rc_mism (k : r_case) : bool :=
  let '(rs, e) := reports_err true (rc_cfg k) (rc_ps k) (rc_fail k) in
  negb (list_eqb (list_eqb perf_eqb) rs (decode_obs (rc_ps k) (rc_obs k)) && Bool.eqb e (rc_err k)).

(* checker K on the implementation's output *)
Definition rc_bad (k : r_case) : bool :=
  let obs := decode_obs (rc_ps k) (rc_obs k) in
  match rc_fail k with
  | None => negb (C04_check (rc_cfg k) (rc_ps k) obs) || rc_err k
  | Some _ => negb (forallb (report_ok (rc_cfg k)) obs && is_prefix (concat obs) (rc_ps k))
  end.

Definition rc_kf_overlimit (k : r_case) : bool :=
  match rc_fail k with
  | None => kf_overlimit_opens_batch (rc_cfg k) (rc_ps k) (decode_obs (rc_ps k) (rc_obs k))
  | Some _ => false
  end.

(* coverage: number of reports in the model's answer, and which flush clauses fired *)
Definition flush_reasons (c : cfg) (ps : list perf) : list (bool * bool * bool) :=
  snd (fold_left (fun '(s, acc) p =>
        let b1 := (Z.of_nat (length (r_cur s)) >=? c_batch c)%Z in
        let b2 := negb (Nat.eqb (length (r_cur s)) 0) && (c_limit c <? w64 (w64 (r_gas s + p_gas p) + c_over c)) in
        let b3 := memN (p_upk p) (r_seen s) in
        (rstep true c s p, if b1 || b2 || b3 then (b1, b2, b3) :: acc else acc)) ps (rinit, [])).
Definition rc_cov (k : r_case) : nat * nat * nat :=
  let rs := flush_reasons (rc_cfg k) (rc_ps k) in
  (length (filter (fun x => fst (fst x)) rs), length (filter (fun x => snd (fst x)) rs), length (filter snd rs)).
Definition cov_sum (l : list (nat * nat * nat)) : nat * nat * nat :=
  fold_left (fun '(a, b, c) '(x, y, z) => (a + x, b + y, c + z)%nat) l (0, 0, 0)%nat.
